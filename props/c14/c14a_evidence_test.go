// Package c14 decides property C14 (slashing accountability). This file is part (a): evidence soundness with the
// real BFT double-sign-evidence code (ProcessDSE / AddDSE / ValidateByzantineEvidence / GetLocalDSE).
//
// The pool of signatures is what correct replicas really produced in a C01-style run of bftsim (each correct key
// signs at most one payload per view - asserted) plus whatever the Byzantine keys sign. The adversary assembles
// evidence objects from that pool; the oracle is the simulator's ledger of who signed what.
package c14

import (
	"fmt"
	"math/rand/v2"
	"sort"
	"strings"
	"testing"

	"github.com/canopy-network/canopy/bft"
	"github.com/canopy-network/canopy/lib"
	"github.com/canopy-network/canopy/lib/crypto"
	"pgregory.net/rapid"

	"verif/h/bftscen"
	bs "verif/h/bftsim"
	"verif/h/ev"
)

// payloadRec groups the signatures of one payload.
type payloadRec struct {
	qc      *lib.QuorumCertificate // header + hashes + proposer key (no signature)
	signers []int
	sigs    map[int][]byte
}

type world struct {
	s     *bs.Sim
	views map[bs.V][]*payloadRec
	order []bs.V
}

func index(s *bs.Sim) *world {
	w := &world{s: s, views: map[bs.V][]*payloadRec{}}
	byPayload := map[string]*payloadRec{}
	for _, r := range s.Sigs {
		k := fmt.Sprintf("%v|%s", r.View, r.Payload)
		p := byPayload[k]
		if p == nil {
			p = &payloadRec{qc: r.QC, sigs: map[int][]byte{}}
			byPayload[k] = p
			if len(w.views[r.View]) == 0 {
				w.order = append(w.order, r.View)
			}
			w.views[r.View] = append(w.views[r.View], p)
		}
		if _, ok := p.sigs[r.Signer]; !ok {
			p.sigs[r.Signer] = r.Sig
			p.signers = append(p.signers, r.Signer)
		}
	}
	for _, ps := range w.views {
		for _, p := range ps {
			sort.Ints(p.signers)
		}
	}
	return w
}

func (w *world) cert(p *payloadRec, subset []int) *lib.QuorumCertificate {
	m := map[int][]byte{}
	for _, i := range subset {
		m[i] = p.sigs[i]
	}
	q := bs.CloneQC(p.qc)
	q.Signature = w.s.Aggregate(m)
	return q
}

func sub(rng *rand.Rand, from []int, min int) []int {
	var out []int
	for _, x := range from {
		if rng.IntN(3) > 0 {
			out = append(out, x)
		}
	}
	for len(out) < min && len(out) < len(from) {
		x := from[rng.IntN(len(from))]
		dup := false
		for _, y := range out {
			dup = dup || y == x
		}
		if !dup {
			out = append(out, x)
		}
	}
	sort.Ints(out)
	return out
}

// truth: the validators that, by the ledger, signed both payloads of the evidence in the same view (different payloads).
func truth(s *bs.Sim, x *bft.DoubleSignEvidence) map[int]bool {
	out := map[int]bool{}
	if x == nil || x.VoteA == nil || x.VoteB == nil || x.VoteA.Header == nil || x.VoteB.Header == nil {
		return out
	}
	a, b := x.VoteA, x.VoteB
	if bs.VOf(a.Header) != bs.VOf(b.Header) || a.Header.NetworkId != b.Header.NetworkId || a.Header.ChainId != b.Header.ChainId {
		return out
	}
	pa := (&lib.QuorumCertificate{Header: a.Header, BlockHash: a.BlockHash, ResultsHash: a.ResultsHash, ProposerKey: a.ProposerKey}).SignBytes()
	pb := (&lib.QuorumCertificate{Header: b.Header, BlockHash: b.BlockHash, ResultsHash: b.ResultsHash, ProposerKey: b.ProposerKey}).SignBytes()
	if string(pa) == string(pb) {
		return out
	}
	for i := 0; i < s.N; i++ {
		if s.HasSigned(i, a) && s.HasSigned(i, b) {
			out[i] = true
		}
	}
	return out
}

func TestC14aEvidenceSoundness(t *testing.T) {
	rec := ev.New(t, "C14")
	rapid.Check(t, func(rt *rapid.T) {
		c := rec.Case()
		res := bftscen.Run(rt, bftscen.Options{MaxSegments: 4, NoFinish: true})
		s := res.S
		defer s.Close()
		// premise: every correct key signed at most one payload per view
		if len(s.DoubleSig) > 0 {
			rt.Fatalf("C14a premise broken (a correct replica signed twice in a view): %v\ncase: %s", s.DoubleSig, res.Header())
		}
		rng := rand.New(rand.NewPCG(rapid.Uint64().Draw(rt, "advSeed"), 14))
		byz, honest := s.Byzantine(), s.Honest()
		// the Byzantine keys sign whatever helps: a second, made-up payload in views where correct replicas voted, and
		// existing payloads they had not signed yet
		w0 := index(s)
		if len(byz) > 0 {
			for k := 0; k < 6 && len(w0.order) > 0; k++ {
				v := w0.order[rng.IntN(len(w0.order))]
				p := w0.views[v][rng.IntN(len(w0.views[v]))]
				q := bs.CloneQC(p.qc)
				if rng.IntN(2) == 0 {
					if v.Phase == bs.ElectionVote {
						q.ProposerKey = s.R[rng.IntN(s.N)].Pub
					} else {
						q.BlockHash = crypto.Hash([]byte(fmt.Sprintf("made-up/%d", rng.IntN(3))))
					}
				}
				for _, b := range byz {
					if rng.IntN(4) > 0 {
						s.ByzSign(b, q)
					}
				}
			}
		}
		w := index(s)
		if len(w.order) == 0 {
			c.Class("no-signatures")
			c.Done(false)
			return
		}
		observer := s.R[honest[0]]
		B := observer.B
		var desc []string
		nontrivial := false
		nEv := rapid.IntRange(5, 10).Draw(rt, "nEvidence")
		var all []*bft.DoubleSignEvidence
		for k := 0; k < nEv; k++ {
			kind := rapid.SampledFrom([]string{"conflict", "conflict", "conflict", "cross-view", "cross-view-forged-header", "same-cert-twice",
				"same-payload-two-subsets", "election-votes", "unsigned-bits", "expired", "expired", "expired", "payload-attached", "garbage", "sig-swap"}).Draw(rt, "kind")
			s.Cfg.MinEvidenceHeight = 0
			x, note := buildEvidence(rt, rng, w, kind)
			if x == nil {
				continue
			}
			// the minimum evidence height is a ROOT-chain height (Controller.LoadMinimumEvidenceHeight(rootChainId, rootHeight),
			// DoubleSignEvidence.Check: "can't be too old" on Header.RootHeight): evidence is expired iff its root height is below
			// it - whatever the chain height of the nested chain is (it may run ahead of or behind its root)
			expired := false
			if kind == "expired" && x.VoteA != nil && x.VoteA.Header != nil {
				h, r := x.VoteA.Header.Height, x.VoteA.Header.RootHeight
				lo, hi := min(h, r), max(h, r)
				pos := rapid.SampledFrom([]string{"below-both", "at-lower", "between", "at-higher", "above-both", "root+1", "at-root"}).Draw(rt, "minEvidenceHeight")
				var m uint64
				switch pos {
				case "below-both":
					m = lo - min(lo, uint64(1+rng.IntN(2)))
				case "at-lower":
					m = lo
				case "between":
					m = lo + 1 + uint64(rng.IntN(int(max(hi-lo, 1))))
				case "at-higher":
					m = hi
				case "above-both":
					m = hi + 1 + uint64(rng.IntN(3))
				case "root+1":
					m = r + 1
				case "at-root":
					m = r
				}
				s.Cfg.MinEvidenceHeight = m
				expired = r < m
				rel := "chain-height=root-height"
				if h > r {
					rel = "chain-height-ahead-of-root"
				} else if h < r {
					rel = "chain-height-behind-root"
				}
				c.Class("min-evidence-height:" + pos + "," + rel)
				c.ClassIf(expired, "evidence-expired-by-root-height")
				c.ClassIf(expired && m <= h, "expired-by-root-height-but-not-by-chain-height")
				note += fmt.Sprintf("[minEvidenceHeight=%d]", m)
			}
			tr := truth(s, x)
			namesHonest := false
			if x.VoteA != nil && x.VoteB != nil && x.VoteA.Signature != nil && x.VoteB.Signature != nil && x.CheckBasic() == nil {
				for _, q := range []*lib.QuorumCertificate{x.VoteA, x.VoteB} {
					for _, i := range s.BitmapSigners(q.Signature.Bitmap) {
						if !s.R[i].Byz {
							namesHonest = true
						}
					}
				}
			}
			nontrivial = nontrivial || namesHonest
			c.Class("kind:" + kind)
			c.ClassIf(namesHonest, "passes-CheckBasic-and-names-a-correct-validator")
			check := func(api string, ds []*lib.DoubleSigner) {
				for _, d := range ds {
					if d == nil {
						continue
					}
					i := s.IdxOf(d.Id)
					if expired {
						rt.Fatalf("C14a VIOLATION (%s): expired evidence (root %d < minimum %d) yields double signer %d\nevidence: %s\ncase: %s", api, x.VoteA.Header.RootHeight, s.Cfg.MinEvidenceHeight, i, note, res.Header())
					}
					if i < 0 || !tr[i] {
						who := "correct"
						if i >= 0 && s.R[i].Byz {
							who = "Byzantine (but did not sign both payloads of this evidence)"
						}
						rt.Fatalf("C14a VIOLATION (%s): validator %d [%s] is returned as double signer, but by the ledger it did not sign two different payloads in view %v\nevidence: %s\ntruth=%v\ncase: %s",
							api, i, who, bs.VOf(x.VoteA.Header), note, keys(tr), res.Header())
					}
					for _, h := range d.Heights {
						if h != x.VoteA.Header.RootHeight {
							rt.Fatalf("C14a VIOLATION (%s): double signer %d reported for height %d, the evidence is of root height %d\nevidence: %s", api, i, h, x.VoteA.Header.RootHeight, note)
						}
					}
				}
			}
			// 1. ProcessDSE
			ds, err := safely(func() ([]*lib.DoubleSigner, lib.ErrorI) { return B.ProcessDSE(cloneEv(x)) })
			if err == errPanic {
				rt.Fatalf("C14a VIOLATION: ProcessDSE panicked on evidence %s", note)
			}
			check("ProcessDSE", ds)
			c.ClassIf(err == nil && len(ds) > 0, "evidence-yields-double-signers")
			c.ClassIf(err != nil, "evidence-rejected")
			// completeness sanity (not part of the property; keeps the check honest about being non-vacuous)
			c.ClassIf(err == nil && len(ds) == len(tr) && len(tr) > 0, "all-true-double-signers-found")
			// 2. AddDSE
			lst := bft.NewDSE()
			x2 := cloneEv(x)
			_, err2 := safely(func() ([]*lib.DoubleSigner, lib.ErrorI) { return nil, B.AddDSE(&lst, x2) })
			if err2 == errPanic {
				rt.Fatalf("C14a VIOLATION: AddDSE panicked on evidence %s", note)
			}
			if len(lst.Evidence) > 0 {
				got, e := safely(func() ([]*lib.DoubleSigner, lib.ErrorI) { return B.ProcessDSE(lst.Evidence...) })
				if e == errPanic {
					rt.Fatalf("C14a VIOLATION: ProcessDSE panicked on stored evidence %s", note)
				}
				check("AddDSE+ProcessDSE", got)
				if len(tr) == 0 {
					rt.Fatalf("C14a VIOLATION: AddDSE stored evidence that implicates nobody by the ledger: %s", note)
				}
			}
			// 3. ValidateByzantineEvidence with proposer-supplied slash lists
			be := &bft.ByzantineEvidence{DSE: bft.NewDSE([]*bft.DoubleSignEvidence{cloneEv(x)})}
			rootH := uint64(0)
			if x.VoteA != nil && x.VoteA.Header != nil {
				rootH = x.VoteA.Header.RootHeight
			}
			lists := slashLists(rng, s, tr, rootH)
			if err != nil {
				// the evidence itself is refused: ValidateByzantineEvidence returns that error before looking at the list
				lists = lists[2:3]
			}
			for _, sl := range lists {
				_, e := safely(func() ([]*lib.DoubleSigner, lib.ErrorI) {
					return nil, B.ValidateByzantineEvidence(&lib.SlashRecipients{DoubleSigners: sl.list}, be)
				})
				if e == errPanic {
					rt.Fatalf("C14a VIOLATION: ValidateByzantineEvidence panicked, list %s evidence %s", sl.name, note)
				}
				if e == nil && len(sl.list) > 0 {
					c.Class("slash-list-accepted:" + sl.name)
					check("ValidateByzantineEvidence["+sl.name+"]", sl.list)
				}
			}
			all = append(all, x)
			desc = append(desc, note)
		}
		s.Cfg.MinEvidenceHeight = 0
		// 4. a batch: either an error or only true double signers of the members
		if len(all) > 1 {
			union := map[int]bool{}
			for _, x := range all {
				for i := range truth(s, x) {
					union[i] = true
				}
			}
			var cl []*bft.DoubleSignEvidence
			for _, x := range all {
				cl = append(cl, cloneEv(x))
			}
			ds, e := safely(func() ([]*lib.DoubleSigner, lib.ErrorI) { return B.ProcessDSE(cl...) })
			if e == errPanic {
				rt.Fatalf("C14a VIOLATION: ProcessDSE panicked on a batch")
			}
			for _, d := range ds {
				if i := s.IdxOf(d.Id); i < 0 || !union[i] {
					rt.Fatalf("C14a VIOLATION: batch ProcessDSE returned validator %d which signed no two payloads in any member view\ncase: %s\nbatch: %v", i, res.Header(), desc)
				}
			}
		}
		// 5. what the correct replicas collected themselves (partial certificates paired with stored proposals)
		for _, i := range honest {
			r := s.R[i]
			local, e := safelyDSE(func() bft.DoubleSignEvidences { return r.B.GetLocalDSE() })
			if e {
				rt.Fatalf("C14a VIOLATION: GetLocalDSE panicked on replica %d\ncase: %s", i, res.Header())
			}
			for _, x := range local.Evidence {
				c.Class("replica-collected-evidence-itself")
				tr := truth(s, x)
				ds, _ := safely(func() ([]*lib.DoubleSigner, lib.ErrorI) { return r.B.ProcessDSE(cloneEv(x)) })
				for _, d := range ds {
					if k := s.IdxOf(d.Id); k < 0 || !tr[k] {
						rt.Fatalf("C14a VIOLATION: replica %d's own evidence names validator %d which did not sign two payloads in view %v\ncase: %s\nschedule: %s", i, k, bs.VOf(x.VoteA.Header), res.Header(), bs.Wrap(s.Descriptor()))
					}
				}
			}
		}
		c.Desc(res.Header())
		c.Desc(strings.Join(desc, " | "))
		c.Done(nontrivial)
	})
}

func keys(m map[int]bool) (out []int) {
	for k := range m {
		out = append(out, k)
	}
	sort.Ints(out)
	return
}

var errPanic = lib.NewError(lib.NoCode, lib.MainModule, "PANIC")

func safely(f func() ([]*lib.DoubleSigner, lib.ErrorI)) (ds []*lib.DoubleSigner, err lib.ErrorI) {
	defer func() {
		if r := recover(); r != nil {
			ds, err = nil, errPanic
		}
	}()
	return f()
}

func safelyDSE(f func() bft.DoubleSignEvidences) (d bft.DoubleSignEvidences, panicked bool) {
	defer func() {
		if r := recover(); r != nil {
			panicked = true
		}
	}()
	return f(), false
}

func cloneEv(x *bft.DoubleSignEvidence) *bft.DoubleSignEvidence {
	if x == nil {
		return nil
	}
	bz, err := lib.Marshal(x)
	if err != nil {
		return x
	}
	out := new(bft.DoubleSignEvidence)
	if err = lib.Unmarshal(bz, out); err != nil {
		return x
	}
	return out
}

type slashList struct {
	name string
	list []*lib.DoubleSigner
}

// slashLists: what a proposer may claim on top of (or instead of) what the evidence supports.
func slashLists(rng *rand.Rand, s *bs.Sim, tr map[int]bool, rootH uint64) (out []slashList) {
	var exact []*lib.DoubleSigner
	for _, i := range keys(tr) {
		exact = append(exact, &lib.DoubleSigner{Id: s.R[i].Pub, Heights: []uint64{rootH}})
	}
	out = append(out, slashList{"exact", exact})
	h := s.Honest()
	innocent := &lib.DoubleSigner{Id: s.R[h[rng.IntN(len(h))]].Pub, Heights: []uint64{rootH}}
	out = append(out, slashList{"exact+innocent", append(append([]*lib.DoubleSigner{}, exact...), innocent)})
	out = append(out, slashList{"innocent-only", []*lib.DoubleSigner{innocent}})
	if len(exact) > 0 {
		out = append(out, slashList{"duplicated", append(append([]*lib.DoubleSigner{}, exact...), exact[0])})
		out = append(out, slashList{"extra-height", []*lib.DoubleSigner{{Id: exact[0].Id, Heights: []uint64{rootH, rootH + 1}}}})
		out = append(out, slashList{"other-height", []*lib.DoubleSigner{{Id: exact[0].Id, Heights: []uint64{rootH + 7}}}})
		out = append(out, slashList{"with-nil-entry", append(append([]*lib.DoubleSigner{}, exact...), nil)})
	}
	return
}

// buildEvidence assembles one evidence object of the given kind from the pool.
func buildEvidence(rt *rapid.T, rng *rand.Rand, w *world, kind string) (*bft.DoubleSignEvidence, string) {
	s := w.s
	pickView := func(f func(v bs.V, ps []*payloadRec) bool) (bs.V, []*payloadRec, bool) {
		var ok []bs.V
		for _, v := range w.order {
			if f(v, w.views[v]) {
				ok = append(ok, v)
			}
		}
		if len(ok) == 0 {
			return bs.V{}, nil, false
		}
		v := ok[rng.IntN(len(ok))]
		return v, w.views[v], true
	}
	votePhase := func(v bs.V, _ []*payloadRec) bool { return v.Phase != bs.ElectionVote }
	describe := func(tag string, a, b *lib.QuorumCertificate) string {
		f := func(q *lib.QuorumCertificate) string {
			if q == nil || q.Header == nil {
				return "nil"
			}
			bm := []int{}
			if q.Signature != nil {
				bm = s.BitmapSigners(q.Signature.Bitmap)
			}
			return fmt.Sprintf("%v:%s/p%d signers%v", bs.VOf(q.Header), bs.Short(q.BlockHash), s.IdxOf(q.ProposerKey), bm)
		}
		return fmt.Sprintf("%s{A=%s B=%s}", tag, f(a), f(b))
	}
	swap := rng.IntN(2) == 0
	mk := func(tag string, a, b *lib.QuorumCertificate) (*bft.DoubleSignEvidence, string) {
		if swap {
			a, b = b, a
		}
		return &bft.DoubleSignEvidence{VoteA: a, VoteB: b}, describe(tag, a, b)
	}
	switch kind {
	case "conflict", "expired", "payload-attached", "unsigned-bits", "sig-swap":
		v, ps, ok := pickView(func(v bs.V, ps []*payloadRec) bool { return votePhase(v, ps) && len(ps) >= 2 })
		if !ok {
			// no conflicting payloads in any view: pair a payload with itself under another subset (must be rejected)
			v, ps, ok = pickView(votePhase)
			if !ok {
				return nil, ""
			}
			p := ps[rng.IntN(len(ps))]
			return mk(kind+"(no-conflict-available)", w.cert(p, sub(rng, p.signers, 1)), w.cert(p, sub(rng, p.signers, 1)))
		}
		_ = v
		i := rng.IntN(len(ps))
		j := (i + 1 + rng.IntN(len(ps)-1)) % len(ps)
		a, b := w.cert(ps[i], sub(rng, ps[i].signers, 1)), w.cert(ps[j], sub(rng, ps[j].signers, 1))
		switch kind {
		case "payload-attached":
			if p := s.BlockOf(a.BlockHash); p != nil {
				a.Block, a.Results = p.Block, p.Results
			} else {
				a.Results = s.MakeResults(0, nil, 0)
			}
		case "unsigned-bits":
			// set bits of validators that signed the OTHER payload (to implicate them) without having their signature on this one
			bm := append([]byte(nil), b.Signature.Bitmap...)
			for _, x := range ps[i].signers {
				if rng.IntN(2) == 0 {
					bm[x/8] |= 1 << (uint(x) % 8)
				}
			}
			if rng.IntN(4) == 0 {
				bm = append(bm, 0xff)
			}
			b.Signature.Bitmap = bm
		case "sig-swap":
			b.Signature.Signature = a.Signature.Signature
			if rng.IntN(2) == 0 {
				b.Signature.Bitmap = a.Signature.Bitmap
			}
		}
		return mk(kind, a, b)
	case "cross-view", "cross-view-forged-header":
		v1, ps1, ok := pickView(votePhase)
		if !ok {
			return nil, ""
		}
		v2, ps2, ok2 := pickView(func(v bs.V, ps []*payloadRec) bool { return votePhase(v, ps) && v != v1 })
		if !ok2 {
			return nil, ""
		}
		_ = v2
		p1, p2 := ps1[rng.IntN(len(ps1))], ps2[rng.IntN(len(ps2))]
		a, b := w.cert(p1, sub(rng, p1.signers, 1)), w.cert(p2, sub(rng, p2.signers, 1))
		if kind == "cross-view-forged-header" {
			b.Header = &lib.View{NetworkId: a.Header.NetworkId, ChainId: a.Header.ChainId, Height: a.Header.Height, RootHeight: a.Header.RootHeight, Round: a.Header.Round, Phase: a.Header.Phase}
		}
		return mk(kind, a, b)
	case "same-cert-twice":
		_, ps, ok := pickView(votePhase)
		if !ok {
			return nil, ""
		}
		p := ps[rng.IntN(len(ps))]
		a := w.cert(p, sub(rng, p.signers, 1))
		return mk(kind, a, bs.CloneQC(a))
	case "same-payload-two-subsets":
		_, ps, ok := pickView(votePhase)
		if !ok {
			return nil, ""
		}
		p := ps[rng.IntN(len(ps))]
		return mk(kind, w.cert(p, sub(rng, p.signers, 1)), w.cert(p, sub(rng, p.signers, 1)))
	case "election-votes":
		_, ps, ok := pickView(func(v bs.V, ps []*payloadRec) bool { return v.Phase == bs.ElectionVote && len(ps) >= 2 })
		if !ok {
			return nil, ""
		}
		i := rng.IntN(len(ps))
		j := (i + 1 + rng.IntN(len(ps)-1)) % len(ps)
		return mk(kind, w.cert(ps[i], sub(rng, ps[i].signers, 1)), w.cert(ps[j], sub(rng, ps[j].signers, 1)))
	case "garbage":
		_, ps, ok := pickView(func(bs.V, []*payloadRec) bool { return true })
		if !ok {
			return nil, ""
		}
		p := ps[rng.IntN(len(ps))]
		a, b := w.cert(p, sub(rng, p.signers, 1)), w.cert(p, sub(rng, p.signers, 1))
		b.BlockHash = crypto.Hash([]byte("garbage"))
		switch rapid.IntRange(0, 7).Draw(rt, "garbage") {
		case 0:
			b = nil
		case 1:
			b.Header = nil
		case 2:
			b.Signature = nil
		case 3:
			b.Signature.Signature = b.Signature.Signature[:40]
		case 4:
			b.Signature.Bitmap = nil
		case 5:
			b.Signature.Bitmap = []byte{0xff, 0xff, 0xff}
		case 6:
			b.ProposerKey, b.ResultsHash, b.BlockHash = nil, nil, nil
		case 7:
			b.Signature.Signature = make([]byte, crypto.BLS12381SignatureSize)
		}
		return mk(kind, a, b)
	}
	return nil, ""
}
