package c14

import (
	"os"
	"testing"

	"github.com/canopy-network/canopy/fsm"
	"github.com/canopy-network/canopy/lib"

	"verif/h/chainsim"
	vkeys "verif/h/keys"
)

// TestC14bObsCrossCommitteePairHaltsChain is an OBSERVATION, not a check of C14 (run with VERIF_OBS=1): C14's "at most once per
// (validator, height)" holds here - but it holds by refusing the whole certificate, and for the chain's own certificate that
// means BeginBlock fails for every candidate block. The double-sign "height" of a slash list is the ROOT height of the
// evidence (bft.ProcessDSE: committeeHeight = VoteA.Header.RootHeight) for every committee, and the index key is
// (address, height) without the committee: a validator of committees 1 and 2 that equivocates on both chains at the same root
// height yields the same pair twice. If the committee-2 certificate transaction lands in block H while the own certificate of
// block H (derived from the committed index, which does not contain the pair yet) names it too, block H+1 can never be applied.
func TestC14bObsCrossCommitteePairHaltsChain(t *testing.T) {
	if os.Getenv("VERIF_OBS") == "" {
		t.Skip("observation only; set VERIF_OBS=1")
	}
	var vals []chainsim.ValSpec
	for i := 0; i < 4; i++ {
		vals = append(vals, chainsim.ValSpec{Key: i, OutputKey: -1, Stake: 1_000_000, Committees: []uint64{1, 2}})
	}
	c, err := chainsim.New(chainsim.Opts{ChainID: 1, Genesis: chainsim.BuildGenesis(1, vals, nil, nil, fsm.DefaultParams())})
	if err != nil {
		t.Fatal(err)
	}
	defer c.Close()
	for i := 0; i < 3; i++ {
		if out, err := c.Block(chainsim.BlockSpec{}); err != nil || out.Err != nil {
			t.Fatalf("warm-up: %v %v", err, out.Err)
		}
	}
	pair := []*lib.DoubleSigner{{Id: vkeys.BLS(3).PublicKey().Bytes(), Heights: []uint64{2}}} // validator 3 equivocated at root height 2 on both chains
	h := c.Height()
	tx, _, err := c.SignedCertResultsTx(2, &lib.CertificateResult{SlashRecipients: &lib.SlashRecipients{DoubleSigners: pair}}, chainsim.CertOpts{Height: 1, RootHeight: h})
	if err != nil {
		t.Fatal(err)
	}
	own := &lib.CertificateResult{
		RewardRecipients: &lib.RewardRecipients{PaymentPercents: []*lib.PaymentPercents{{Address: chainsim.Addr(vkeys.BLS(0)), Percent: 100, ChainId: 1}}},
		SlashRecipients:  &lib.SlashRecipients{DoubleSigners: pair}}
	out, err := c.Block(chainsim.BlockSpec{Txs: [][]byte{tx}, Results: own})
	if err != nil || out.Err != nil || len(out.Results.Failed) != 0 {
		t.Fatalf("block %d: %v %v %v", h, err, out.Err, out.Results.Failed)
	}
	for i := 0; i < 3; i++ {
		out, err = c.Block(chainsim.BlockSpec{})
		if err != nil {
			t.Fatal(err)
		}
		if out.Err == nil {
			t.Fatalf("block %d applied", c.Height()-1)
		}
		t.Logf("attempt %d at height %d: ApplyBlock fails: %v", i+1, c.Height(), out.Err)
	}
	t.Logf("the chain is stuck at height %d: every proposal fails in BeginBlock with the certified double-signer list of block %d", c.Height(), h)
}
