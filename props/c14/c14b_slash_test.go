// Package c14 decides property C14 (slashing accountability). Files c14b_* are part (b): application of double-sign
// slashes in the state machine (part (a), evidence soundness in bft, lives in the c14a_* files).
package c14

import (
	"fmt"
	"math/big"
	"sort"
	"strings"
	"testing"

	"github.com/canopy-network/canopy/fsm"
	"github.com/canopy-network/canopy/lib"
	"github.com/canopy-network/canopy/lib/crypto"
	"pgregory.net/rapid"

	"verif/h/chainsim"
	"verif/h/ev"
	vkeys "verif/h/keys"
)

/*
One chainsim chain (id 1, own root) with validators staked for committees {1,2}, {1} and {2}. Double-signer lists arrive
(i) in the certificate of the previous block (own committee 1, BlockSpec.Results.SlashRecipients, applied by BeginBlock) and
(ii) in MessageCertificateResults transactions of committee 2 carrying a certificate really signed by the committee-2
validators - so two committees can slash the same validator in one block. Reference model = the documented behaviour of
fsm.HandleDoubleSigners / SlashValidator and the double-signer index (store/indexer.go):

	a list is processed in order; a (validator, height) pair that is already in the index - from an earlier block, an earlier
	transaction, or earlier in the same list - makes the WHOLE list invalid (nothing of it is applied); otherwise every pair is
	indexed and is one slash of DoubleSignSlashPercentage of the validator's current stake (unknown / removed validators are
	skipped). Protocol >= 2: a committee only slashes its own members, and per block and committee at most MaxSlashPerCommittee
	percent (the slash that reaches the cap is cut down and ejects the validator from that committee; later ones are dropped).

Checked after every block against the raw state: stake, existence and committees of every validator == model; the
double-signer index == model (so a pair is indexed, hence slashed, at most once over the whole history); slash events per
validator == slashes of the model; under protocol >= 2 the stake lost in the block <= the caps of the committees that slashed
it; a rejected list changed nothing (state == model in which it was skipped); Supply identity.
*/

type cVal struct {
	key        int
	addr       []byte
	stake      uint64
	committees []uint64
	unstaking  uint64
	exists     bool
}

type cModel struct {
	vals              map[string]*cVal
	order             []string
	index             map[string]bool // hex(addr)/height
	dsPct             uint64
	maxPct            uint64
	v2From            uint64 // protocol 2 active from this height (0: from genesis; ^0: never)
	tracker           map[string]map[uint64]uint64
	slashes           map[string]int // slash events expected in the current block
	capUsed           map[string]map[uint64]bool
	by                map[string]map[uint64]bool // committees that slashed the validator in the current block (any protocol)
	unstakeBl         uint64
	minStake          uint64         // MinimumStakeForValidators
	cuts              map[string]int // stake reductions in the current block (rounding slack of the cap bound)
	forced            int            // force-unstakes caused by a slash
	forcedThenSlashed int            // slashes of a validator that was force-unstaked earlier in the same block
	forcedAt          map[string]uint64
	// statistics
	accepted, rejectedRepeat, rejectedDupInList, capped, skippedUnknown, crossCommittee, bursts, failingBetween int
}

func (m *cModel) v2(h uint64) bool { return m.v2From != ^uint64(0) && h >= m.v2From }

func bIdxKey(addr []byte, h uint64) string { return fmt.Sprintf("%x/%d", addr, h) }

func bHas(list []uint64, x uint64) bool {
	for _, v := range list {
		if v == x {
			return true
		}
	}
	return false
}

// slash is the documented SlashValidator.
func (m *cModel) slash(addr []byte, chainID, h uint64) {
	v := m.vals[string(addr)]
	if v == nil || !v.exists {
		m.skippedUnknown++
		return
	}
	p := m.dsPct
	newC := append([]uint64(nil), v.committees...)
	if m.v2(h) {
		if !bHas(v.committees, chainID) {
			return
		}
		if m.tracker[string(addr)] == nil {
			m.tracker[string(addr)] = map[uint64]uint64{}
		}
		total := m.tracker[string(addr)][chainID]
		if total >= m.maxPct {
			m.capped++
			return
		}
		if total+p >= m.maxPct {
			if total+p > m.maxPct {
				m.capped++
			}
			p = m.maxPct - total
			for i, id := range newC {
				if id == chainID {
					newC = append(newC[:i], newC[i+1:]...)
					break
				}
			}
		}
		m.tracker[string(addr)][chainID] += p
		if m.capUsed[string(addr)] == nil {
			m.capUsed[string(addr)] = map[uint64]bool{}
		}
		m.capUsed[string(addr)][chainID] = true
	}
	var after uint64
	switch {
	case p >= 100 || v.stake == 0:
		after = 0
	case p == 0:
		after = v.stake
	default:
		after = new(big.Int).Div(new(big.Int).Mul(new(big.Int).SetUint64(v.stake), big.NewInt(int64(100-p))), big.NewInt(100)).Uint64()
	}
	m.cuts[string(addr)]++
	if m.forcedAt[string(addr)] == h {
		m.forcedThenSlashed++
	}
	if after != 0 && v.unstaking == 0 && after < m.minStake {
		// documented (SetValidatorUnstakingIfBelowMinimum): a slash that pushes the stake below the minimum force-unstakes the
		// validator; it keeps its committees and stays slashable until it is gone; this exit emits no slash event
		v.unstaking = h + m.unstakeBl
		m.forcedAt[string(addr)] = h
		m.forced++
	} else {
		m.slashes[string(addr)]++
	}
	if m.by[string(addr)] == nil {
		m.by[string(addr)] = map[uint64]bool{}
	}
	m.by[string(addr)][chainID] = true
	if after == 0 {
		v.exists, v.stake = false, 0
		return
	}
	v.stake, v.committees = after, newC
}

// apply processes one double-signer list the documented way; false = the list is invalid and nothing was applied.
func (m *cModel) apply(chainID uint64, list []*lib.DoubleSigner, h uint64) (ok bool, why string) {
	staged := map[string]bool{}
	var slashList [][]byte
	for _, ds := range list {
		if ds == nil || ds.Id == nil || len(ds.Heights) == 0 {
			return false, "malformed"
		}
		pk, err := crypto.NewPublicKeyFromBytes(ds.Id)
		if err != nil {
			return false, "bad key"
		}
		addr := pk.Address().Bytes()
		for _, dh := range ds.Heights {
			k := bIdxKey(addr, dh)
			if m.index[k] {
				return false, "repeat"
			}
			if staged[k] {
				return false, "dup-in-list"
			}
			staged[k] = true
			slashList = append(slashList, addr)
		}
	}
	for k := range staged {
		m.index[k] = true
	}
	for _, a := range slashList {
		m.slash(a, chainID, h)
	}
	m.accepted += len(slashList)
	return true, ""
}

func (m *cModel) snapshotTracker() map[string]map[uint64]uint64 {
	cp := map[string]map[uint64]uint64{}
	for a, mm := range m.tracker {
		cp[a] = map[uint64]uint64{}
		for c, p := range mm {
			cp[a][c] = p
		}
	}
	return cp
}

func newSlashChain(t *rapid.T) (*chainsim.Chain, *cModel) {
	m := &cModel{vals: map[string]*cVal{}, index: map[string]bool{}, tracker: map[string]map[uint64]uint64{}, slashes: map[string]int{}, capUsed: map[string]map[uint64]bool{}, by: map[string]map[uint64]bool{}, cuts: map[string]int{}, forcedAt: map[string]uint64{}}
	m.dsPct = []uint64{10, 5, 15, 50, 100, 7}[rapid.IntRange(0, 5).Draw(t, "dsPct")]
	m.maxPct = []uint64{15, 10, 20, 100, 5}[rapid.IntRange(0, 4).Draw(t, "maxPct")]
	switch rapid.IntRange(0, 3).Draw(t, "protocol") {
	case 0:
		m.v2From = 0
	case 1:
		m.v2From = ^uint64(0)
	default:
		m.v2From = uint64(rapid.IntRange(3, 8).Draw(t, "v2Height"))
	}
	if rapid.IntRange(0, 2).Draw(t, "minStakeMode") == 1 {
		m.minStake = 900_000
		if m.v2From != 0 && rapid.IntRange(0, 2).Draw(t, "minStakeProtocol2") != 0 {
			m.v2From = 0 // the per-committee cap (protocol 2) is what a force-unstaking slash must still count against
		}
	}
	stakes := []uint64{1_000_000, 100, 7, 1, 10_000, 999_999, 55}
	comms := [][]uint64{{1, 2}, {1, 2}, {1, 2}, {1, 2}, {1}, {2}}
	var vals []chainsim.ValSpec
	var accts []chainsim.AcctSpec
	for i := 0; i < 6; i++ {
		st := stakes[rapid.IntRange(0, len(stakes)-1).Draw(t, "stake")]
		if i < 3 {
			st = 1_000_000 + uint64(i) // keep a +2/3 majority of committee 2 alive whatever happens to the small ones
		}
		if m.minStake > 0 && i >= 1 && i <= 3 {
			st = m.minStake + 1 + uint64(i)*m.minStake/90 // burst victims start just above the minimum (min+1 .. min*1.1)
		}
		vals = append(vals, chainsim.ValSpec{Key: i, OutputKey: -1, Stake: st, Committees: comms[i]})
		accts = append(accts, chainsim.AcctSpec{Kind: 0, Key: i, Amount: 10_000_000})
		a := chainsim.Addr(vkeys.BLS(i))
		m.vals[string(a)] = &cVal{key: i, addr: a, stake: st, committees: append([]uint64(nil), comms[i]...), exists: true}
		m.order = append(m.order, string(a))
	}
	p := fsm.DefaultParams()
	p.Validator.DoubleSignSlashPercentage = m.dsPct
	p.Validator.MaxSlashPerCommittee = m.maxPct
	p.Validator.NonSignWindow = 1000
	p.Validator.UnstakingBlocks = 3
	p.Validator.MinimumStakeForValidators = m.minStake
	m.unstakeBl = 3
	switch {
	case m.v2From == 0:
		p.Consensus.ProtocolVersion = fsm.NewProtocolVersion(0, 2)
	case m.v2From == ^uint64(0):
		p.Consensus.ProtocolVersion = fsm.NewProtocolVersion(0, 1)
	default:
		p.Consensus.ProtocolVersion = fsm.NewProtocolVersion(m.v2From, 2)
	}
	g := chainsim.BuildGenesis(1, vals, accts, nil, p)
	c, err := chainsim.New(chainsim.Opts{ChainID: 1, Genesis: g})
	if err != nil {
		t.Fatalf("new chain: %v", err)
	}
	return c, m
}

// genList draws a double-signer list.
func (m *cModel) genList(t *rapid.T, h uint64, prefer []int) ([]*lib.DoubleSigner, string) {
	n := rapid.IntRange(1, 3).Draw(t, "signers")
	var list []*lib.DoubleSigner
	var d []string
	if len(prefer) > 0 && rapid.IntRange(0, 9).Draw(t, "alsoSlashedByOtherCommittee") < 6 {
		// the other committee slashes, in the same block, a validator the own committee has just slashed (fresh evidence height)
		key := prefer[rapid.IntRange(0, len(prefer)-1).Draw(t, "preferWho")]
		hs := []uint64{1000 + h*10 + uint64(rapid.IntRange(0, 3).Draw(t, "freshHeight"))}
		if rapid.Bool().Draw(t, "twoFresh") {
			hs = append(hs, hs[0]+5)
		}
		list = append(list, &lib.DoubleSigner{Id: vkeys.BLS(key).PublicKey().Bytes(), Heights: hs})
		d = append(d, fmt.Sprintf("v%d@%v", key, hs))
	}
	for i := 0; i < n; i++ {
		who := rapid.IntRange(1, 7).Draw(t, "who") // v0 never double-signs: a chain whose whole own committee is ejected halts by design
		key := who
		if who >= 6 {
			key = 40 + who // a valid BLS key that never staked
		}
		nh := rapid.IntRange(1, 3).Draw(t, "nHeights")
		var hs []uint64
		for j := 0; j < nh; j++ {
			var dh uint64
			switch rapid.IntRange(0, 5).Draw(t, "heightClass") {
			case 0, 1, 2:
				dh = uint64(rapid.IntRange(1, 4).Draw(t, "lowHeight")) // small pool: repeats across blocks and committees
			case 3:
				dh = h
			case 4:
				dh = h + uint64(rapid.IntRange(1, 50).Draw(t, "future"))
			default:
				dh = uint64(rapid.IntRange(5, 9).Draw(t, "midHeight"))
			}
			hs = append(hs, dh)
		}
		list = append(list, &lib.DoubleSigner{Id: vkeys.BLS(key).PublicKey().Bytes(), Heights: hs})
		d = append(d, fmt.Sprintf("v%d@%v", key, hs))
	}
	return list, strings.Join(d, " ")
}

func (m *cModel) check(c *chainsim.Chain, h uint64, evs []*lib.Event, pre map[string]uint64) error {
	rs, err := c.Raw()
	if err != nil {
		return err
	}
	for _, a := range m.order {
		v := m.vals[a]
		sv := rs.Validators[lib.BytesToString(v.addr)]
		if (sv != nil) != v.exists {
			return fmt.Errorf("validator v%d: exists=%v in state, model %v", v.key, sv != nil, v.exists)
		}
		if sv == nil {
			continue
		}
		// property text, independent of the exact model arithmetic: under protocol >= 2 the stake lost in one block is bounded
		// by the caps of the committees that slashed the validator (floor rounding of every single slash: 1 unit each)
		if m.v2(h) && pre[a] > sv.StakedAmount {
			keep := new(big.Rat).SetUint64(pre[a])
			for range m.capUsed[a] {
				keep.Mul(keep, big.NewRat(int64(100-min(m.maxPct, 100)), 100))
			}
			lost := new(big.Rat).SetUint64(pre[a] - sv.StakedAmount)
			bound := new(big.Rat).Sub(new(big.Rat).SetUint64(pre[a]), keep)
			bound.Add(bound, new(big.Rat).SetInt64(int64(m.cuts[a])))
			if lost.Cmp(bound) > 0 {
				return fmt.Errorf("validator v%d lost %s of %d in one block, more than the cap %d%% of %d committee(s) allows (%s)", v.key, lost.FloatString(0), pre[a], m.maxPct, len(m.capUsed[a]), bound.FloatString(2))
			}
		}
		if sv.StakedAmount != v.stake {
			return fmt.Errorf("validator v%d: stake %d, model %d (before the block %d)", v.key, sv.StakedAmount, v.stake, pre[a])
		}
		got, want := append([]uint64(nil), sv.Committees...), append([]uint64(nil), v.committees...)
		sort.Slice(got, func(i, j int) bool { return got[i] < got[j] })
		sort.Slice(want, func(i, j int) bool { return want[i] < want[j] })
		if fmt.Sprint(got) != fmt.Sprint(want) {
			return fmt.Errorf("validator v%d: committees %v, model %v", v.key, got, want)
		}
	}
	// the real index
	ex, e := c.Export()
	if e != nil {
		return e
	}
	real := map[string]bool{}
	for _, ds := range ex.DoubleSigners {
		seen := map[uint64]bool{}
		for _, dh := range ds.Heights {
			if seen[dh] {
				return fmt.Errorf("double-signer index lists height %d twice for %x", dh, ds.Id)
			}
			seen[dh] = true
			real[bIdxKey(ds.Id, dh)] = true
		}
	}
	if len(real) != len(m.index) {
		return fmt.Errorf("double-signer index has %d pairs, model %d (%v vs %v)", len(real), len(m.index), bKeysOf(real), bKeysOf(m.index))
	}
	for k := range m.index {
		if !real[k] {
			return fmt.Errorf("pair %s of the model is not in the double-signer index", k)
		}
	}
	// slash events of the block
	got := map[string]int{}
	for _, e := range evs {
		if e.GetSlash() != nil {
			got[string(e.Address)]++
		}
	}
	for _, a := range m.order {
		if got[a] != m.slashes[a] {
			return fmt.Errorf("validator v%d: %d slash events in the block, model %d", m.vals[a].key, got[a], m.slashes[a])
		}
	}
	return rs.SupplyIdentity()
}

func bKeysOf(m map[string]bool) []string {
	var out []string
	for k := range m {
		out = append(out, k[:6]+k[40:])
	}
	sort.Strings(out)
	return out
}

func TestC14bSlashApplication(t *testing.T) {
	rec := ev.New(t, "C14")
	rapid.Check(t, func(t *rapid.T) {
		ec := rec.Case()
		c, m := newSlashChain(t)
		defer c.Close()
		ec.Desc("ds=%d%% cap=%d%% v2From=%d minStake=%d", m.dsPct, m.maxPct, int64(m.v2From), m.minStake)
		var pendingOwn []*lib.DoubleSigner
		pendingSet := false
		c2H := uint64(0)
		nBlocks := rapid.IntRange(5, 12).Draw(t, "blocks")
		unstaked := false
		fresh := uint64(0)
		for b := 0; b < nBlocks; b++ {
			h := c.Height()
			m.tracker, m.slashes, m.capUsed, m.by, m.cuts = map[string]map[uint64]uint64{}, map[string]int{}, map[string]map[uint64]bool{}, map[string]map[uint64]bool{}, map[string]int{}
			pre := map[string]uint64{}
			for _, a := range m.order {
				pre[a] = m.vals[a].stake
			}
			ownRejected := false
			var ownSlashed []int
			if pendingSet {
				ok, why := m.apply(1, pendingOwn, h)
				for _, a := range m.order {
					if m.slashes[a] > 0 && m.vals[a].exists {
						ownSlashed = append(ownSlashed, m.vals[a].key)
					}
				}
				if !ok {
					ownRejected = true
					ec.Class("own-list-invalid(" + why + ")")
				}
				pendingOwn, pendingSet = nil, false
			}
			var txs [][]byte
			var expect []bool
			var descs []string
			if !ownRejected {
				// a validator leaves: slashes for it must be skipped once it is gone (and applied while it is unstaking)
				if !unstaked && rapid.IntRange(0, 5).Draw(t, "unstake") == 0 {
					k := rapid.IntRange(3, 5).Draw(t, "unstakeWho")
					a := chainsim.Addr(vkeys.BLS(k))
					if v := m.vals[string(a)]; v.exists && v.unstaking == 0 {
						tx, _, err := c.SignTx(vkeys.BLS(k), &fsm.MessageUnstake{Address: a}, 10000, h, "")
						if err != nil {
							t.Fatalf("sign: %v", err)
						}
						txs, expect, descs = append(txs, tx), append(expect, true), append(descs, fmt.Sprintf("unstake v%d", k))
						v.unstaking = h + m.unstakeBl
						unstaked = true
					}
				}
				// addCert appends one committee-2 certificate-results transaction and mirrors it on the model
				addCert := func(list []*lib.DoubleSigner, d string, mode int) bool {
					opts := chainsim.CertOpts{Height: c2H + 1, RootHeight: h}
					label, ok := "c2", true
					switch mode {
					case 0:
						opts.CorruptSig, ok, label = true, false, "c2(badsig)"
					case 1:
						if c2H > 0 {
							opts.Height, ok, label = c2H, false, "c2(stale)"
						}
					case 2: // duplicate inside the list
						list = append(list, &lib.DoubleSigner{Id: list[0].Id, Heights: []uint64{list[0].Heights[0]}})
						d += " +dup"
					}
					tx, _, err := c.SignedCertResultsTx(2, &lib.CertificateResult{SlashRecipients: &lib.SlashRecipients{DoubleSigners: list}}, opts)
					if err != nil {
						ec.Class("committee2-unavailable")
						return false
					}
					if ok {
						snap := m.snapshotTracker()
						var why string
						if ok, why = m.apply(2, list, h); !ok {
							m.tracker = snap
							label = "c2(" + why + ")"
							switch why {
							case "repeat":
								m.rejectedRepeat++
							case "dup-in-list":
								m.rejectedDupInList++
							}
						} else {
							c2H = opts.Height
						}
					}
					txs, expect, descs = append(txs, tx), append(expect, ok), append(descs, fmt.Sprintf("%s@%d[%s]", label, opts.Height, d))
					return true
				}
				// addFailing appends a transaction that passes CheckTx and fails when applied (rolled back: it must leave no trace,
				// in particular not in the per-block slash budget of the transactions before and after it)
				addFailing := func() {
					k := rapid.IntRange(0, 2).Draw(t, "failingSender")
					to := chainsim.Addr(vkeys.BLS(45))
					tx, _, err := c.SignTx(vkeys.BLS(k), &fsm.MessageSend{FromAddress: chainsim.Addr(vkeys.BLS(k)), ToAddress: to, Amount: 1 << 50}, 10000, h, "")
					if err != nil {
						t.Fatalf("sign: %v", err)
					}
					txs, expect, descs = append(txs, tx), append(expect, false), append(descs, fmt.Sprintf("send-without-funds v%d", k))
					m.failingBetween++
				}
				if rapid.IntRange(0, 9).Draw(t, "burst") < 4 {
					// burst: the same committee slashes the same validator in 2-4 transactions of one block (fresh evidence heights),
					// with failing transactions in between: together they must respect the per-block cap
					victim := rapid.IntRange(1, 3).Draw(t, "victim")
					n := rapid.IntRange(2, 4).Draw(t, "burstLen")
					for i := 0; i < n; i++ {
						fresh++
						hs := []uint64{100_000 + fresh}
						list := []*lib.DoubleSigner{{Id: vkeys.BLS(victim).PublicKey().Bytes(), Heights: hs}}
						d := fmt.Sprintf("v%d@%v", victim, hs)
						if rapid.IntRange(0, 3).Draw(t, "burstExtra") == 0 {
							more, md := m.genList(t, h, nil)
							list, d = append(list, more...), d+" "+md
						}
						if !addCert(list, d, 99) {
							break
						}
						if i < n-1 {
							switch rapid.IntRange(0, 3).Draw(t, "between") {
							case 0, 1:
								addFailing()
							case 2:
								l2, d2 := m.genList(t, h, nil)
								addCert(l2, d2, rapid.IntRange(0, 1).Draw(t, "badCert"))
								m.failingBetween++
							}
						}
					}
					m.bursts++
				} else {
					nCert := rapid.IntRange(0, 2).Draw(t, "nCert")
					for i := 0; i < nCert; i++ {
						list, d := m.genList(t, h, ownSlashed)
						if !addCert(list, d, rapid.IntRange(0, 11).Draw(t, "certMode")) {
							break
						}
						if rapid.IntRange(0, 3).Draw(t, "failAfter") == 0 {
							addFailing()
						}
					}
				}
			}
			spec := chainsim.BlockSpec{Txs: txs}
			ownDesc := ""
			if !ownRejected && rapid.IntRange(0, 9).Draw(t, "own") < 7 {
				list, d := m.genList(t, h, nil)
				// real proposers only certify lists their replicas re-derived from evidence: valid as of the committed state. Lists that
				// the state machine must reject are generated on purpose with a small probability (they end the history, see below)
				bad, _ := m.wouldReject(list)
				// (only as the last step of a history, so that histories are not cut short)
				if bad && !(b == nBlocks-2 && rapid.IntRange(0, 2).Draw(t, "keepBadOwn") == 0) {
					list = m.repair(list)
					d = bDescList(list) + " (repaired)"
				}
				if len(list) > 0 {
					spec.Results = &lib.CertificateResult{
						RewardRecipients: &lib.RewardRecipients{PaymentPercents: []*lib.PaymentPercents{{Address: chainsim.Addr(vkeys.BLS(0)), Percent: 100, ChainId: 1}}},
						SlashRecipients:  &lib.SlashRecipients{DoubleSigners: list}}
					pendingOwn, pendingSet = list, true
					ownDesc = " own[" + d + "]"
				}
			}
			ec.Desc("h%d: %s%s", h, strings.Join(descs, " | "), ownDesc)
			digestBefore := ""
			if ownRejected {
				s, _ := c.Scan()
				digestBefore = chainsim.ScanDigest(s)
			}
			out, err := c.Block(spec)
			if err != nil {
				t.Fatalf("block %d: %v", h, err)
			}
			if ownRejected {
				// the certified list of the previous block is invalid: BeginBlock must refuse it and change nothing
				if out.Err == nil {
					t.Fatalf("block %d applied although the certified double-signer list of block %d is invalid per the index\nhistory: %s", h, h-1, ec.Descriptor())
				}
				s, _ := c.Scan()
				if chainsim.ScanDigest(s) != digestBefore {
					t.Fatalf("block %d failed but the state changed", h)
				}
				ec.Class("chain-halted-by-invalid-own-list")
				break
			}
			if out.Err != nil {
				t.Fatalf("block %d failed as a whole: %v\nhistory: %s", h, out.Err, ec.Descriptor())
			}
			failed := map[string]string{}
			for _, f := range out.Results.Failed {
				failed[f.Hash] = f.Error.Error()
			}
			for i, raw := range txs {
				msg, bad := failed[crypto.HashString(raw)]
				if bad == expect[i] {
					t.Fatalf("block %d tx %d (%s): model expects success=%v, chain says failed=%v %s\nhistory: %s", h, i, descs[i], expect[i], bad, msg, ec.Descriptor())
				}
			}
			// end of block: finished unstaking
			for _, a := range m.order {
				if v := m.vals[a]; v.exists && v.unstaking == h {
					v.exists, v.stake = false, 0
				}
			}
			if err := m.check(c, h, out.Results.Events, pre); err != nil {
				t.Fatalf("after block %d: %v\nhistory: %s", h, err, ec.Descriptor())
			}
			for _, mm := range m.by {
				if len(mm) > 1 {
					m.crossCommittee++
				}
			}
		}
		ec.ClassIf(m.rejectedRepeat > 0, "repeat-across-blocks-rejected")
		ec.ClassIf(m.rejectedDupInList > 0, "dup-inside-list-rejected")
		ec.ClassIf(m.capped > 0, "cap-cut-or-dropped-a-slash")
		ec.ClassIf(m.crossCommittee > 0, "two-committees-slash-one-validator-in-one-block")
		ec.ClassIf(m.skippedUnknown > 0, "unknown-or-removed-validator")
		ec.ClassIf(m.accepted > 0, "slash-applied")
		ec.ClassIf(m.forced > 0, "slash-below-minimum-stake-force-unstakes")
		ec.ClassIf(m.forcedThenSlashed > 0, "force-unstaked-validator-slashed-again-in-the-same-block")
		ec.ClassIf(m.bursts > 0, "one-committee-slashes-one-validator-in-several-txs-of-a-block")
		ec.ClassIf(m.failingBetween > 0, "failing-tx-between-slashing-txs")
		switch m.v2From {
		case 0:
			ec.Class("protocol=2")
		case ^uint64(0):
			ec.Class("protocol=1")
		default:
			ec.Class("protocol=1->2")
		}
		ec.Done(m.rejectedRepeat > 0 && m.accepted > 0)
	})
}

// wouldReject: the list is invalid against the current index (or internally).
func (m *cModel) wouldReject(list []*lib.DoubleSigner) (bool, string) {
	staged := map[string]bool{}
	for _, ds := range list {
		pk, _ := crypto.NewPublicKeyFromBytes(ds.Id)
		for _, dh := range ds.Heights {
			k := bIdxKey(pk.Address().Bytes(), dh)
			if m.index[k] {
				return true, "repeat"
			}
			if staged[k] {
				return true, "dup"
			}
			staged[k] = true
		}
	}
	return false, ""
}

// repair removes the pairs that make the list invalid (what ProcessDSE's IsValidDoubleSigner filter does for a real proposer).
func (m *cModel) repair(list []*lib.DoubleSigner) []*lib.DoubleSigner {
	staged := map[string]bool{}
	var out []*lib.DoubleSigner
	for _, ds := range list {
		pk, _ := crypto.NewPublicKeyFromBytes(ds.Id)
		var hs []uint64
		for _, dh := range ds.Heights {
			k := bIdxKey(pk.Address().Bytes(), dh)
			if m.index[k] || staged[k] {
				continue
			}
			staged[k] = true
			hs = append(hs, dh)
		}
		if len(hs) > 0 {
			out = append(out, &lib.DoubleSigner{Id: ds.Id, Heights: hs})
		}
	}
	return out
}

var bPubIdx map[string]int

func bDescList(list []*lib.DoubleSigner) string {
	if bPubIdx == nil {
		bPubIdx = map[string]int{}
		for _, i := range []int{0, 1, 2, 3, 4, 5, 46, 47} {
			bPubIdx[string(vkeys.BLS(i).PublicKey().Bytes())] = i
		}
	}
	var d []string
	for _, ds := range list {
		d = append(d, fmt.Sprintf("v%d@%v", bPubIdx[string(ds.Id)], ds.Heights))
	}
	return strings.Join(d, " ")
}
