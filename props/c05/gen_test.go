package c05

import (
	"bytes"
	"fmt"

	"github.com/canopy-network/canopy/fsm"
	"github.com/canopy-network/canopy/lib"
	"github.com/canopy-network/canopy/lib/crypto"
	"google.golang.org/protobuf/encoding/protowire"
	"pgregory.net/rapid"

	cs "verif/h/chainsim"
	"verif/h/keys"
	"verif/h/wire"
)

// cand is one candidate transaction with the verdict of the independent oracle.
type cand struct {
	desc   string
	class  []string
	bz     []byte
	tx     *lib.Transaction
	msg    lib.MessageI // payload as submitted
	signer []byte       // address of the key the signature field names (nil if undecodable)
	// okBySignature: the signature field holds a valid signature by `signer` over exactly the submitted content (by construction)
	okBySignature bool
	// orig: for tampered candidates the untampered validly signed transaction (used to warm the signature cache)
	orig *lib.Transaction
	// after: must be placed AFTER the round's authorized transaction (it targets the object that one creates)
	after bool
	// nontrivial: reaches CheckSignature (passes CheckBasic + Check()) although unauthorized/tampered, or is authorized by a non-owner key
	nontrivial bool
}

var attacker = cs.Signer{Kind: cs.KindEd, Key: 66}

func pick[T any](rt *rapid.T, label string, xs []T) T {
	return xs[rapid.IntRange(0, len(xs)-1).Draw(rt, label)]
}

// payload describes a generated message together with who SHOULD sign it.
type payload struct {
	msg      lib.MessageI
	rightful [][]cs.Signer // groups of signer forms that are entitled by the table (e.g. operator forms, output forms)
	roles    []string      // name of each group
	about    string
}

// genPayload draws a message about an existing owner / validator / order of the world.
func genPayload(rt *rapid.T, w *world) payload {
	c := w.c
	h := c.Height()
	start := uint64(1)
	if h > 100 {
		start = h - 100
	}
	salt := rapid.IntRange(0, 99).Draw(rt, "salt")
	mt := pick(rt, "msg-type", []string{"send", "send", "stake", "stake", "editStake", "editStake", "editStake", "unstake", "pause", "changeParameter", "daoTransfer", "subsidy", "createOrder",
		"editOrder", "editOrder", "deleteOrder", "dexLimitOrder"})
	switch mt {
	case "send", "subsidy", "createOrder", "dexLimitOrder", "changeParameter", "daoTransfer":
		owner := pick(rt, "owner", w.owners)
		me := owner[0].Address()
		amt := rapid.Uint64Range(1, 50_000).Draw(rt, "amount")
		p := payload{rightful: [][]cs.Signer{owner}, roles: []string{"owner"}, about: owner[0].String()}
		switch mt {
		case "send":
			p.msg = &fsm.MessageSend{FromAddress: me, ToAddress: cs.Addr(keys.Ed(7000 + salt)), Amount: amt}
		case "subsidy":
			p.msg = &fsm.MessageSubsidy{Address: me, ChainId: 1, Amount: amt, Opcode: []byte{byte(salt)}}
		case "createOrder":
			p.msg = &fsm.MessageCreateOrder{ChainId: 1, Data: []byte{byte(salt)}, AmountForSale: cs.MinOrder + amt, RequestedAmount: amt, SellerReceiveAddress: cs.Addr(keys.Secp(7100 + salt)), SellersSendAddress: me}
		case "dexLimitOrder":
			p.msg = &fsm.MessageDexLimitOrder{ChainId: 2, AmountForSale: amt, RequestedAmount: 1, Address: me}
		case "changeParameter":
			a, _ := lib.NewAny(&lib.UInt64Wrapper{Value: amt})
			p.msg = &fsm.MessageChangeParameter{ParameterSpace: fsm.ParamSpaceFee, ParameterKey: fsm.ParamCertificateResultsFee, ParameterValue: a, StartHeight: start, EndHeight: h + 5000, Signer: me}
		case "daoTransfer":
			p.msg = &fsm.MessageDAOTransfer{Address: me, Amount: amt, StartHeight: start, EndHeight: h + 5000}
		}
		return p
	case "stake":
		// a new validator (funded BLS key as operator) or delegate (any key kind), output = another funded account
		out := pick(rt, "output-owner", w.owners)
		amt := rapid.Uint64Range(1, 3_000_000).Draw(rt, "amount")
		if rapid.Bool().Draw(rt, "delegate") {
			op := pick(rt, "operator-owner", w.owners)
			m := &fsm.MessageStake{PublicKey: op[0].PublicKey(), Amount: amt, Committees: []uint64{1}, OutputAddress: out[0].Address(), Delegate: true}
			return payload{msg: m, rightful: [][]cs.Signer{op, out}, roles: []string{"operator", "output"}, about: "new delegate " + op[0].String()}
		}
		op := single(cs.KindBLS, pick(rt, "operator-key", []int{10, 13}))
		m := &fsm.MessageStake{PublicKey: op[0].PublicKey(), Amount: amt, Committees: []uint64{1}, NetAddress: "tcp://10.0.0.1", OutputAddress: out[0].Address()}
		return payload{msg: m, rightful: [][]cs.Signer{op, out}, roles: []string{"operator", "output"}, about: "new validator " + op[0].String()}
	case "editStake", "unstake", "pause":
		v := pick(rt, "validator", w.vals)
		if mt == "editStake" && rapid.IntRange(0, 2).Draw(rt, "asymmetric-validator") == 0 {
			v = w.vals[pick(rt, "which-asymmetric", []int{3, 5})] // poor operator / rich output, rich operator / poor output
		}
		p := payload{rightful: [][]cs.Signer{v.operator}, roles: []string{"operator"}, about: v.name}
		if len(v.output) > 0 {
			p.rightful, p.roles = append(p.rightful, v.output), append(p.roles, "output")
		}
		switch mt {
		case "unstake":
			p.msg = &fsm.MessageUnstake{Address: v.addr}
		case "pause":
			p.msg = &fsm.MessagePause{Address: v.addr}
		default:
			state, _ := c.Scan()
			cur := cs.ValidatorIn(state, v.addr)
			if cur == nil {
				p.msg = &fsm.MessageUnstake{Address: v.addr}
				return p
			}
			inc := rapid.Uint64Range(0, 5000).Draw(rt, "stake-increase")
			if rapid.IntRange(0, 2).Draw(rt, "big-top-up") == 0 || (len(v.output) > 0 && rapid.Bool().Draw(rt, "big-top-up-non-custodial")) {
				inc = bigTopUp // more than a poor signer holds: must fail unless the SIGNER can pay (never the other key's account)
				p.about += fmt.Sprintf(" top-up %d", inc)
			}
			m := &fsm.MessageEditStake{Address: v.addr, Amount: cur.StakedAmount + inc, Committees: cur.Committees, NetAddress: cur.NetAddress,
				OutputAddress: cur.Output, Compound: cur.Compound}
			if rapid.IntRange(0, 2).Draw(rt, "redirect-output") == 0 {
				// only the current output address may redirect the output: operator-signed redirects of a non-custodial validator are refused
				m.OutputAddress = attacker.Address()
				p.about += " output->attacker"
				if len(v.output) > 0 {
					p.rightful, p.roles = [][]cs.Signer{v.output}, []string{"output"}
				}
			}
			p.msg = m
		}
		return p
	default: // editOrder, deleteOrder
		o := pick(rt, "order", w.orders)
		p := payload{rightful: [][]cs.Signer{o.seller}, roles: []string{"seller"}, about: fmt.Sprintf("order %x of %s", o.id[:4], o.seller[0])}
		if mt == "deleteOrder" {
			p.msg = &fsm.MessageDeleteOrder{OrderId: o.id, ChainId: 1}
		} else {
			p.msg = &fsm.MessageEditOrder{OrderId: o.id, ChainId: 1, Data: []byte{byte(salt)}, AmountForSale: cs.MinOrder + rapid.Uint64Range(0, 9000).Draw(rt, "order-size"), RequestedAmount: 5,
				SellerReceiveAddress: cs.Addr(keys.Secp(7100 + salt))}
		}
		return p
	}
}

// wrongSigners lists signers that are NOT entitled for payload p, by role.
func wrongSigners(w *world, p payload) (out []cs.Signer, roles []string) {
	entitled := map[string]bool{}
	for _, g := range p.rightful {
		entitled[string(g[0].Address())] = true
	}
	add := func(role string, forms []cs.Signer) {
		for _, f := range forms {
			if !entitled[string(f.Address())] {
				out, roles = append(out, f), append(roles, role)
			}
		}
	}
	// a stranger whose address shares its first byte with a rightful address (catches prefix-only address comparisons)
	for _, g := range p.rightful {
		want := g[0].Address()[0]
		for j := 100; j < 3000; j++ {
			if cs.Addr(keys.Ed(j))[0] == want {
				add("stranger-with-colliding-address-prefix", []cs.Signer{{Kind: cs.KindEd, Key: j}})
				break
			}
		}
	}
	add("stranger", []cs.Signer{attacker, {Kind: cs.KindBLS, Key: 66}, {Kind: cs.KindSecp, Key: 66}, {Kind: cs.KindEth, Key: 66}, {Kind: cs.KindRLP, Key: 66}, {Kind: cs.KindRLPV2, Key: 66}})
	add("funded-stranger", []cs.Signer{{Kind: cs.KindEd, Key: 12}, {Kind: cs.KindBLS, Key: 12}, {Kind: cs.KindRLPV2, Key: 13}})
	add("funded-stranger-multisig", multiForms(w.cast.Multis[2]))
	// the operator of a non-custodial validator is entitled to edit the stake but NOT to redirect the output address
	if m, ok := p.msg.(*fsm.MessageEditStake); ok {
		for _, v := range w.vals {
			if bytes.Equal(v.addr, m.Address) && len(v.output) > 0 {
				for i := 0; i < 8; i++ {
					add("own-operator-redirecting-the-output", v.operator[:1])
				}
			}
		}
	}
	for _, v := range w.vals {
		add("another-validators-operator", v.operator)
		add("another-validators-output", v.output)
	}
	for _, o := range w.orders {
		add("another-orders-seller", o.seller[:1])
	}
	return
}

// usable: can signer kind carry this message?
func usable(s cs.Signer, m lib.MessageI) bool { return cs.SignerSupports(s.Kind, m.Name()) }

// signedCand signs payload msg with s.
func signedCand(t fataler, w *world, s cs.Signer, msg lib.MessageI) (*cand, bool) {
	if !usable(s, msg) {
		return nil, false
	}
	bz, tx, err := w.c.Sign(s, cs.CloneMsg(msg), w.opts(s))
	if err != nil {
		// the Ethereum translation layer refuses some payloads itself (e.g. zero amounts): not a candidate
		return nil, false
	}
	// what counts is the payload as submitted (the Ethereum translation layer derives a send's sender from the signature)
	sub := msg
	if m, e := lib.FromAny(tx.Msg); e == nil {
		if mi, ok := m.(lib.MessageI); ok {
			sub = mi
		}
	}
	return &cand{bz: bz, tx: tx, msg: sub, signer: s.Address(), okBySignature: true}, true
}

// ---- tampering -------------------------------------------------------------------------------------------------------

func cloneTx(tx *lib.Transaction) *lib.Transaction {
	n := new(lib.Transaction)
	if e := lib.Unmarshal(cs.MustMarshal(tx), n); e != nil {
		panic(e)
	}
	return n
}

func setMsg(tx *lib.Transaction, m lib.MessageI) {
	a, e := lib.NewAny(m)
	if e != nil {
		panic(e)
	}
	tx.Msg = a
}

// tamperKinds are the single-field modifications applied AFTER signing.
var tamperKinds = []string{"amount", "redirect", "claimed-owner", "fee+1", "fee-1", "memo", "chain-id", "network-id", "created-height", "time", "nonce", "msg-type", "type-url", "payload-byte",
	"payload-extra-field", "sig-bit", "sig-short", "pubkey-swap", "pubkey-victim"}

// tamper applies one modification to a copy of a validly signed transaction; ok=false when not applicable.
func tamper(rt *rapid.T, w *world, kind string, good *cand, victim cs.Signer) (*lib.Transaction, lib.MessageI, bool) {
	tx := cloneTx(good.tx)
	msg := cs.CloneMsg(good.msg)
	evil := attacker.Address()
	switch kind {
	case "amount":
		switch m := msg.(type) {
		case *fsm.MessageSend:
			m.Amount += 1_000_000
		case *fsm.MessageStake:
			m.Amount++
		case *fsm.MessageEditStake:
			m.Amount++
		case *fsm.MessageSubsidy:
			m.Amount++
		case *fsm.MessageDAOTransfer:
			m.Amount += 1_000_000
		case *fsm.MessageCreateOrder:
			m.RequestedAmount = 1
		case *fsm.MessageEditOrder:
			m.RequestedAmount = 1
		case *fsm.MessageDexLimitOrder:
			m.AmountForSale++
		default:
			return nil, nil, false
		}
		setMsg(tx, msg)
	case "redirect": // who receives
		switch m := msg.(type) {
		case *fsm.MessageSend:
			m.ToAddress = evil
		case *fsm.MessageStake:
			m.OutputAddress = evil
		case *fsm.MessageEditStake:
			m.OutputAddress = evil
		case *fsm.MessageCreateOrder:
			m.SellerReceiveAddress = evil
		case *fsm.MessageEditOrder:
			m.SellerReceiveAddress = evil
		case *fsm.MessageUnstake:
			m.Address = w.vals[0].addr
		case *fsm.MessagePause:
			m.Address = w.vals[0].addr
		case *fsm.MessageDeleteOrder:
			m.OrderId = w.orders[0].id
			if bytes.Equal(good.msg.(*fsm.MessageDeleteOrder).OrderId, m.OrderId) {
				m.OrderId = w.orders[1].id
			}
		default:
			return nil, nil, false
		}
		setMsg(tx, msg)
	case "claimed-owner": // the owner field is rewritten to the victim while the signature stays
		v := victim.Address()
		switch m := msg.(type) {
		case *fsm.MessageSend:
			m.FromAddress = v
		case *fsm.MessageSubsidy:
			m.Address = v
		case *fsm.MessageDAOTransfer:
			m.Address = v
		case *fsm.MessageCreateOrder:
			m.SellersSendAddress = v
		case *fsm.MessageChangeParameter:
			m.Signer = v
		case *fsm.MessageDexLimitOrder:
			m.Address = v
		case *fsm.MessageStake:
			m.Signer = v // "Signer" must be derived from the verified signer, never taken from the wire
		case *fsm.MessageEditStake:
			m.Signer = v
		default:
			return nil, nil, false
		}
		setMsg(tx, msg)
	case "fee+1":
		tx.Fee++
	case "fee-1":
		tx.Fee--
	case "memo":
		if lib.IsRLPMemo(tx.Memo) {
			tx.Memo = ""
		} else {
			tx.Memo += "x"
		}
	case "chain-id":
		tx.ChainId++
	case "network-id":
		tx.NetworkId++
	case "created-height":
		tx.CreatedHeight++
	case "time":
		tx.Time++
	case "nonce":
		tx.Nonce += 7
	case "msg-type":
		if tx.MessageType == fsm.MessageSendName {
			tx.MessageType = fsm.MessageSubsidyName
		} else {
			tx.MessageType = fsm.MessageSendName
		}
	case "type-url":
		other := lib.MessageI(&fsm.MessageUnstake{})
		if _, is := msg.(*fsm.MessageUnstake); is {
			other = &fsm.MessagePause{}
		}
		a, _ := lib.NewAny(other)
		tx.Msg.TypeUrl = a.TypeUrl
	case "payload-byte":
		if len(tx.Msg.Value) == 0 {
			return nil, nil, false
		}
		i := rapid.IntRange(0, len(tx.Msg.Value)-1).Draw(rt, "flip-at")
		tx.Msg.Value[i] ^= 1 << uint(rapid.IntRange(0, 7).Draw(rt, "flip-bit"))
		if m, e := lib.FromAny(tx.Msg); e == nil {
			if mi, ok := m.(lib.MessageI); ok {
				msg = mi
			}
		}
	case "payload-extra-field":
		tx.Msg.Value = protowire.AppendVarint(protowire.AppendTag(append([]byte{}, tx.Msg.Value...), 15, protowire.VarintType), 1)
	case "sig-bit":
		s := tx.Signature.Signature
		i := rapid.IntRange(0, len(s)-1).Draw(rt, "sig-at")
		s[i] ^= 1 << uint(rapid.IntRange(0, 7).Draw(rt, "sig-bit"))
	case "sig-short":
		tx.Signature.Signature = tx.Signature.Signature[:len(tx.Signature.Signature)-1]
	case "pubkey-swap": // another key of the same kind: unauthorized AND not the signer of these bytes
		pk, err := crypto.NewPublicKeyFromBytes(tx.Signature.PublicKey)
		if err != nil {
			return nil, nil, false
		}
		switch pk.(type) {
		case *crypto.BLS12381PublicKey:
			tx.Signature.PublicKey = keys.BLS(66).PublicKey().Bytes()
		case *crypto.ED25519PublicKey:
			tx.Signature.PublicKey = keys.Ed(66).PublicKey().Bytes()
		case *crypto.SECP256K1PublicKey:
			tx.Signature.PublicKey = keys.Secp(66).PublicKey().Bytes()
		case *crypto.ETHSECP256K1PublicKey:
			tx.Signature.PublicKey = keys.Eth(66).PublicKey().Bytes()
		default:
			return nil, nil, false
		}
	case "pubkey-victim": // the attacker's validly signed transaction, relabelled with the victim's public key
		if bytes.Equal(victim.PublicKey(), tx.Signature.PublicKey) {
			return nil, nil, false
		}
		tx.Signature.PublicKey = victim.PublicKey()
	default:
		return nil, nil, false
	}
	return tx, msg, true
}

// ---- multisig and ethereum-wrapper attacks ----------------------------------------------------------------------------

// multisigAttack builds a send out of a multisig account that its threshold policy does not authorize.
func multisigAttack(rt *rapid.T, w *world, m cs.Multi) *cand {
	n, t := len(m.Members), int(m.Threshold)
	from := m.Address()
	msg := &fsm.MessageSend{FromAddress: from, ToAddress: attacker.Address(), Amount: uint64(rapid.IntRange(1, 5000).Draw(rt, "ms-amount"))}
	tx, err := cs.UnsignedTx(msg, 1, 1, cs.DefaultFee+uint64(rapid.IntRange(0, 999).Draw(rt, "ms-fee")), w.c.Height(), w.c.Tick(), "")
	if err != nil {
		rt.Fatalf("unsigned: %v", err)
	}
	x := &cand{tx: tx, msg: msg}
	kind := pick(rt, "multisig-attack", []string{"below-threshold", "bitmap-overclaim", "threshold-lowered", "member-replaced", "threshold-zero-nobody-signed", "duplicate-member"})
	all := make([]int, n)
	for i := range all {
		all[i] = i
	}
	switch kind {
	case "below-threshold", "bitmap-overclaim":
		// (set padding bits of the bitmap are NOT an authorization matter: the signature stays valid; see C06)
		cnt := t - 1
		if cnt < 1 {
			return nil
		}
		if err := cs.SignMulti(tx, m, all[:cnt]); err != nil {
			rt.Fatalf("sign multi: %v", err)
		}
		x.signer = from // the key names the real account; its policy is not met / the bitmap lies
		if kind != "below-threshold" {
			fs, err := wirePatchBitmap(tx.Signature.PublicKey, func(bm []byte) {
				bm[0] |= 1 << uint(cnt) // claim one more signer than signed
			})
			if err != nil {
				return nil
			}
			tx.Signature.PublicKey = fs
		}
	case "threshold-lowered":
		if t < 2 {
			return nil
		}
		lower := cs.Multi{Members: m.Members, Threshold: uint32(t - 1)}
		if err := cs.SignMulti(tx, lower, all[:t-1]); err != nil {
			rt.Fatalf("sign multi: %v", err)
		}
		x.signer, x.okBySignature = lower.Address(), true // valid for ANOTHER account (address commits to the threshold)
	case "member-replaced":
		other := cs.Multi{Members: append(append([]int{}, m.Members[:n-1]...), 66), Threshold: m.Threshold}
		if err := cs.SignMulti(tx, other, all[n-t:]); err != nil {
			rt.Fatalf("sign multi: %v", err)
		}
		x.signer, x.okBySignature = other.Address(), true
	case "threshold-zero-nobody-signed":
		k := m.Key()
		pk, err := wirePatchThreshold(k.Bytes(), 0)
		if err != nil {
			return nil
		}
		sig := make([]byte, 96)
		sig[0] = 0xc0 // compressed point at infinity
		tx.Signature = &lib.Signature{PublicKey: pk, Signature: sig}
		if p, err := crypto.NewPublicKeyFromBytes(pk); err == nil {
			x.signer = p.Address().Bytes()
		}
	case "duplicate-member":
		k := m.Key()
		if err := cs.SignMulti(tx, m, all[:t]); err != nil {
			rt.Fatalf("sign multi: %v", err)
		}
		pk, err := wireDuplicateMember(k.Bytes())
		if err != nil {
			return nil
		}
		tx.Signature.PublicKey = pk
	}
	x.bz = cs.MustMarshal(tx)
	x.desc = fmt.Sprintf("send out of multisig(%d-of-%v): %s", t, m.Members, kind)
	x.class = []string{"bad=multisig", "multisig=" + kind, "msg=send", "signer=bls-multisig"}
	return x
}

func wirePatchBitmap(pk []byte, f func([]byte)) ([]byte, error) {
	fs, err := wire.Parse(pk)
	if err != nil {
		return nil, err
	}
	for i := range fs {
		if fs[i].Num == 2 && len(fs[i].B) > 0 {
			f(fs[i].B)
		}
	}
	return wire.Encode(fs), nil
}

func wirePatchThreshold(pk []byte, t uint64) ([]byte, error) {
	fs, err := wire.Parse(pk)
	if err != nil {
		return nil, err
	}
	var out []wire.Field
	for _, f := range fs {
		if f.Num != 3 {
			out = append(out, f)
		}
	}
	if t != 0 {
		out = append(out, wire.Field{Num: 3, Typ: protowire.VarintType, U: t})
	}
	return wire.Encode(out), nil
}

func wireDuplicateMember(pk []byte) ([]byte, error) {
	fs, err := wire.Parse(pk)
	if err != nil {
		return nil, err
	}
	return wire.Encode(append([]wire.Field{fs[0]}, fs...)), nil
}

// rlpImpersonation: an Ethereum transaction signed by the attacker's key, wrapped, and then relabelled so that the wrapper
// names a funded victim (public key and/or sender address). Only VerifyRLPBytes stands between this and the victim's funds.
func rlpImpersonation(rt *rapid.T, w *world) *cand {
	victimKey := pick(rt, "eth-victim", []int{10, 13, 11})
	victim := cs.Signer{Kind: cs.KindEth, Key: victimKey}
	v2 := rapid.Bool().Draw(rt, "v2")
	att := cs.Signer{Kind: cs.KindRLP, Key: 66, TxType: rapid.IntRange(0, 2).Draw(rt, "eth-type")}
	if v2 {
		att.Kind = cs.KindRLPV2
	}
	msg := &fsm.MessageSend{FromAddress: att.Address(), ToAddress: attacker.Address(), Amount: uint64(rapid.IntRange(1, 900_000).Draw(rt, "amount"))}
	_, tx, err := w.c.Sign(att, msg, w.opts(att))
	if err != nil {
		return nil
	}
	how := pick(rt, "impersonation", []string{"pubkey+from", "from-only", "pubkey-only"})
	m2 := cs.CloneMsg(msg).(*fsm.MessageSend)
	if how != "pubkey-only" {
		m2.FromAddress = victim.Address()
		setMsg(tx, m2)
	}
	x := &cand{tx: tx, msg: m2, signer: att.Address()}
	if how != "from-only" {
		tx.Signature.PublicKey = victim.PublicKey()
		x.signer = victim.Address()
	}
	x.bz = cs.MustMarshal(tx)
	x.desc = fmt.Sprintf("%s send signed by the attacker's eth key, wrapper relabelled to victim eth%d (%s)", cs.SignerKindName(att.Kind), victimKey, how)
	x.class = []string{"bad=rlp-impersonation", "impersonation=" + how, "msg=send", "signer=" + cs.SignerKindName(att.Kind)}
	return x
}

// dependentForgeries: the round's authorized transaction CREATES an object (stake -> validator, create-order -> order). These
// candidates come later in the SAME block and operate on that object - redirect the fresh validator's output, unstake / pause
// it, edit / delete the fresh order - naming the owner's public key with a garbage signature, with the attacker's signature
// relabelled to the owner's key, or validly signed by a stranger. At block start the object does not exist; none may execute.
func dependentForgeries(rt *rapid.T, w *world, good *cand, p payload) (out []*cand) {
	var msgs []lib.MessageI
	switch m := good.msg.(type) {
	case *fsm.MessageStake:
		va := targetValidator(m)
		if va == nil {
			return nil
		}
		msgs = append(msgs, &fsm.MessageEditStake{Address: va, Amount: m.Amount, Committees: m.Committees, NetAddress: m.NetAddress, OutputAddress: attacker.Address(), Compound: m.Compound},
			&fsm.MessageUnstake{Address: va})
		if !m.Delegate {
			msgs = append(msgs, &fsm.MessagePause{Address: va})
		}
	case *fsm.MessageCreateOrder:
		id := crypto.Hash(good.bz)[:20]
		msgs = append(msgs, &fsm.MessageEditOrder{OrderId: id, ChainId: m.ChainId, Data: m.Data, AmountForSale: m.AmountForSale, RequestedAmount: 1, SellerReceiveAddress: attacker.Address()},
			&fsm.MessageDeleteOrder{OrderId: id, ChainId: m.ChainId})
	default:
		return nil
	}
	// the owners' single keys (their public keys are public knowledge once the creating transaction is gossiped)
	var owners []cs.Signer
	for _, g := range p.rightful {
		if g[0].Kind <= cs.KindEth {
			owners = append(owners, cs.Signer{Kind: g[0].Kind, Key: g[0].Key})
		}
	}
	for i, n := 0, rapid.IntRange(1, 3).Draw(rt, "n-dependent"); i < n; i++ {
		msg := pick(rt, "dependent-msg", msgs)
		how := pick(rt, "forgery", []string{"owner-key+garbage-signature", "owner-key+attackers-signature", "stranger"})
		if len(owners) == 0 {
			how = "stranger"
		}
		var x *cand
		switch how {
		case "stranger":
			c, ok := signedCand(rt, w, attacker, msg)
			if !ok {
				continue
			}
			x = c
		default:
			owner := pick(rt, "forged-owner", owners)
			att := cs.Signer{Kind: owner.Kind, Key: 66}
			c, ok := signedCand(rt, w, att, msg)
			if !ok {
				continue
			}
			c.tx.Signature.PublicKey = owner.PublicKey()
			if how == "owner-key+garbage-signature" {
				g := crypto.Hash(append([]byte("garbage"), c.bz...))
				sig := c.tx.Signature.Signature
				for j := range sig {
					sig[j] = g[j%len(g)] ^ byte(j)
				}
			}
			c.bz, c.signer, c.okBySignature = cs.MustMarshal(c.tx), owner.Address(), false
			x = c
		}
		x.after = true
		x.desc = fmt.Sprintf("%s of the object created earlier in this block, %s", msg.Name(), how)
		x.class = []string{"bad=targets-object-created-in-this-block", "forgery=" + how, "msg=" + msg.Name()}
		out = append(out, x)
	}
	return out
}
