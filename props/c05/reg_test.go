package c05

import (
	"testing"

	"github.com/canopy-network/canopy/fsm"
	"github.com/canopy-network/canopy/lib"
	"github.com/canopy-network/canopy/lib/crypto"

	cs "verif/h/chainsim"
	"verif/h/keys"
)

// TestC05Reg_SigCacheAlias is the minimal reproduction of KF-C05-sigcache-alias (fixed by /repo commit e0096a1): the signature
// cache key was the unframed concatenation pk|msg|sig and every VerifyBytes consulted the cache before looking at the signature
// length. For an included transaction T=(pk, M, S) whose signature starts with 0x50 b (0x01<=b<=0x7f: a well-formed "nonce"
// field, the LAST field of the sign bytes) the transaction T' = T + nonce=b with the 62 byte signature S[2:] has the cache key of
// T: anyone could make a victim's send execute a second time on every node that had verified T in the last five minutes, and
// nodes with a cold cache rejected the same block.
func TestC05Reg_SigCacheAlias(t *testing.T) {
	g, _ := cs.RichGenesis(1, cs.GenesisOpts{})
	c, err := cs.New(cs.Opts{Genesis: g})
	if err != nil {
		t.Fatal(err)
	}
	defer c.Close()
	if _, err := c.Block(cs.BlockSpec{}); err != nil {
		t.Fatal(err)
	}
	crypto.SignatureCache.Reset()
	victim, to := keys.Ed(10), cs.Addr(keys.Ed(7777))
	var tx *lib.Transaction
	var bz []byte
	for tries := 0; ; tries++ { // one signature in ~516 qualifies; a third party simply waits for one
		bz, tx, _ = c.SignTx(victim, &fsm.MessageSend{FromAddress: cs.Addr(victim), ToAddress: to, Amount: 1000}, 10000, c.Height(), "")
		if s := tx.Signature.Signature; s[0] == 0x50 && s[1] >= 1 && s[1] <= 0x7f {
			break
		}
		if tries > 100000 {
			t.Fatal("no qualifying signature found")
		}
	}
	out, err := c.Block(cs.BlockSpec{Txs: [][]byte{bz}})
	if err != nil || out.Err != nil || len(out.Results.Failed) != 0 {
		t.Fatalf("T rejected: %v %v", err, out.Err)
	}
	s := tx.Signature.Signature
	alias := &lib.Transaction{MessageType: tx.MessageType, Msg: tx.Msg, CreatedHeight: tx.CreatedHeight, Time: tx.Time, Fee: tx.Fee, Memo: tx.Memo, NetworkId: tx.NetworkId, ChainId: tx.ChainId,
		Nonce: uint64(s[1]), Signature: &lib.Signature{PublicKey: tx.Signature.PublicKey, Signature: s[2:]}}
	abz := cs.MustMarshal(alias)
	// single path, warm cache
	if _, e := c.FSM.CheckTx(abz, crypto.HashString(abz), nil); e == nil {
		t.Errorf("FSM.CheckTx accepts the alias (62 byte signature) while T is in the signature cache")
	}
	c.FSM.Reset()
	// batch path, warm cache
	out, err = c.Block(cs.BlockSpec{Txs: [][]byte{abz}})
	if err != nil || out.Err != nil {
		t.Fatalf("block: %v %v", err, out.Err)
	}
	sc, _ := c.Scan()
	if got := cs.AccountIn(sc, to).Amount; len(out.Results.Txs) != 0 || got != 1000 {
		t.Errorf("the alias of an included send executed: recipient holds %d, one transfer is 1000", got)
	}
}
