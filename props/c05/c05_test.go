package c05

import (
	"bytes"
	"fmt"
	"strings"
	"testing"

	"github.com/canopy-network/canopy/fsm"
	"github.com/canopy-network/canopy/lib"
	"github.com/canopy-network/canopy/lib/crypto"
	"pgregory.net/rapid"

	cs "verif/h/chainsim"
	"verif/h/ev"
	"verif/h/keys"
)

const kfAlias = "KF-C05-sigcache-alias"

// reachesSignatureCheck: the bytes decode, pass the stateless transaction and payload checks and carry a sufficient fee, i.e. the
// only things between the transaction and the state are the authorization table and the signature.
func reachesSignatureCheck(bz []byte) bool {
	tx := new(lib.Transaction)
	if lib.Unmarshal(bz, tx) != nil || tx.CheckBasic() != nil || !bytes.Equal(cs.MustMarshal(tx), bz) {
		return false
	}
	if tx.NetworkId != 1 || tx.ChainId != 1 || tx.Fee < 10000 {
		return false
	}
	m, e := lib.FromAny(tx.Msg)
	if e != nil {
		return false
	}
	mi, ok := m.(lib.MessageI)
	return ok && mi.Check() == nil
}

func errText(e error) string {
	if e == nil {
		return ""
	}
	return strings.Join(strings.Fields(e.Error()), " ")
}

// effectCheck: X (authorized, included) ran in chain a, not in chain b; everything else in the two blocks is identical.
// Ownership-bearing keys that differ must belong to the signer or to the object the table authorized the signer for.
func effectCheck(a, b map[string][]byte, x *cand) string {
	tv := targetValidator(x.msg)
	keysSeen := map[string]bool{}
	for k := range a {
		keysSeen[k] = true
	}
	for k := range b {
		keysSeen[k] = true
	}
	for k := range keysSeen {
		av, bv := a[k], b[k]
		if bytes.Equal(av, bv) {
			continue
		}
		segs := lib.DecodeLengthPrefixed([]byte(k))
		if len(segs) < 2 || len(segs[0]) != 1 {
			continue
		}
		switch segs[0][0] {
		case 1: // account
			addr := segs[1]
			aa, ba := cs.AccountIn(a, addr), cs.AccountIn(b, addr)
			if (aa.Amount < ba.Amount || aa.Nonce != ba.Nonce) && !bytes.Equal(addr, x.signer) {
				return fmt.Sprintf("account %x was debited (%d -> %d, nonce %d -> %d) by a transaction signed by %x", addr, ba.Amount, aa.Amount, ba.Nonce, aa.Nonce, x.signer)
			}
		case 2: // pool
			pa, pb := new(fsm.Pool), new(fsm.Pool)
			_, _ = lib.Unmarshal(av, pa), lib.Unmarshal(bv, pb)
			if pa.Amount < pb.Amount {
				ok := false
				switch x.msg.(type) {
				case *fsm.MessageDAOTransfer:
					ok = pb.Id == lib.DAOPoolID
				case *fsm.MessageEditOrder, *fsm.MessageDeleteOrder:
					ok = pb.Id == 1+fsm.EscrowPoolAddend
				}
				if !ok {
					return fmt.Sprintf("pool %d was debited (%d -> %d) by a %s", pb.Id, pb.Amount, pa.Amount, x.msg.Name())
				}
			}
		case 3, 5, 6: // validator, unstaking marker, paused marker
			addr := segs[len(segs)-1]
			if !bytes.Equal(addr, tv) {
				return fmt.Sprintf("%s changed for validator %x, the message is about %x", cs.KeyName(k), addr, tv)
			}
		case 4, 11: // committee / delegate membership: the key embeds the validator address
			if tv == nil || !bytes.Contains([]byte(k), tv) {
				return fmt.Sprintf("%s changed, the message is about validator %x", cs.KeyName(k), tv)
			}
		case 7:
			if _, ok := x.msg.(*fsm.MessageChangeParameter); !ok {
				return fmt.Sprintf("governance parameters changed by a %s", x.msg.Name())
			}
		case 13: // order book
			o := new(lib.SellOrder)
			if av != nil {
				_ = lib.Unmarshal(av, o)
			} else {
				_ = lib.Unmarshal(bv, o)
			}
			if !bytes.Equal(o.SellersSendAddress, x.signer) {
				return fmt.Sprintf("order %x of seller %x changed by a transaction signed by %x", o.Id, o.SellersSendAddress, x.signer)
			}
		}
	}
	return ""
}

func TestC05Auth(t *testing.T) {
	rec := ev.New(t, "C05")
	rapid.Check(t, func(rt *rapid.T) {
		cse := rec.Case()
		w := newWorld(rt, false)
		c := w.c
		defer c.Close()
		nontriv := false
		var aliasSource *cand // an included transaction whose signature starts with a valid "nonce" field (see KF-C05-sigcache-alias)
		rounds := rapid.IntRange(2, 3).Draw(rt, "rounds")
		for r := 0; r < rounds; r++ {
			state, _ := c.Scan()
			verdict := func(x *cand) bool {
				return x.okBySignature && x.signer != nil && x.msg != nil && tableAuthorizes(state, x.msg, x.signer)
			}
			verdictCheckTx := func(x *cand) bool {
				if !x.okBySignature || x.signer == nil || x.msg == nil {
					return false
				}
				for _, a := range authorizedAddresses(state, x.msg) {
					if bytes.Equal(a, x.signer) {
						return true
					}
				}
				return false
			}
			var goods, bads []*cand
			var goodPayload payload
			// ---- one authorized transaction (or a revocation pair)
			revocation := false
			if rapid.IntRange(0, 3).Draw(rt, "with-good") != 0 {
				p := genPayload(rt, w)
				if rapid.IntRange(0, 3).Draw(rt, "creator") == 0 {
					// prefer a transaction that creates an object (validator / order): forged follow-ups target it in the same block
					for tries := 0; tries < 40; tries++ {
						if n := p.msg.Name(); n == fsm.MessageStakeName || n == fsm.MessageCreateOrderName {
							break
						}
						p = genPayload(rt, w)
					}
				}
				gi := rapid.IntRange(0, len(p.rightful)-1).Draw(rt, "rightful-role")
				if rapid.IntRange(0, 5).Draw(rt, "poor-signer-top-up") == 0 {
					// a stake top-up larger than the SIGNER's balance while the validator's other key is rich: poor operator of v3 (rich
					// output) or poor output of v5 (rich operator). Only the signer's account may ever pay.
					v, role := w.vals[3], 0
					if rapid.Bool().Draw(rt, "poor-output") {
						v, role = w.vals[5], 1
					}
					if cur := cs.ValidatorIn(state, v.addr); cur != nil && cur.UnstakingHeight == 0 {
						p = payload{msg: &fsm.MessageEditStake{Address: v.addr, Amount: cur.StakedAmount + bigTopUp, Committees: cur.Committees, NetAddress: cur.NetAddress, OutputAddress: cur.Output, Compound: cur.Compound},
							rightful: [][]cs.Signer{v.operator, v.output}, roles: []string{"operator", "output"}, about: fmt.Sprintf("%s top-up %d by its POOR key", v.name, uint64(bigTopUp))}
						gi = role
						cse.Class("shape=top-up-above-the-signers-balance-while-the-other-key-is-rich")
					}
				}
				s := pick(rt, "rightful-form", p.rightful[gi])
				grind := (s.Kind == cs.KindEd || s.Kind == cs.KindSecp) && rapid.IntRange(0, 1).Draw(rt, "grind") == 0
				claim := ""
				if rapid.IntRange(0, 1).Draw(rt, "claim-signer-field") == 0 {
					// the rightful signer fills the wire's Signer field with a victim: the field must be derived from the verified signer
					victim := pick(rt, "claimed-victim", w.owners)[0]
					switch m := p.msg.(type) {
					case *fsm.MessageStake:
						m.Signer, claim = victim.Address(), " wire-Signer="+victim.String()
					case *fsm.MessageEditStake:
						m.Signer, claim = victim.Address(), " wire-Signer="+victim.String()
					}
				}
				var g *cand
				ok := false
				for tries := 0; tries < 6000; tries++ {
					if g, ok = signedCand(rt, w, s, p.msg); !ok {
						break
					}
					sig := g.tx.Signature.Signature
					if !grind || (sig[0] == 0x50 && sig[1] >= 1 && sig[1] <= 0x7f) {
						break
					}
				}
				if ok {
					g.desc = fmt.Sprintf("%s(%s%s) by %s %s", p.msg.Name(), p.about, claim, p.roles[gi], s)
					g.class = []string{"msg=" + p.msg.Name(), "signer=" + cs.SignerKindName(s.Kind), "role=" + p.roles[gi]}
					if claim != "" {
						g.class = append(g.class, "good=wire-signer-field-names-a-victim")
					}
					goods = append(goods, g)
					goodPayload = p
					// revocation pair: the output redirects the output; the old output then tries again in the same block
					if m, is := p.msg.(*fsm.MessageEditStake); is && p.roles[gi] == "output" && bytes.Equal(m.OutputAddress, attacker.Address()) {
						if x, ok := signedCand(rt, w, s, &fsm.MessageUnstake{Address: m.Address}); ok {
							x.desc = "unstake by the output address revoked earlier in this block"
							x.class = []string{"bad=revoked-in-block"}
							bads = append(bads, x)
							revocation = true
						}
					}
				}
			}
			// ---- forged follow-ups on the object the authorized transaction creates in this very block
			if !revocation && len(goods) == 1 {
				bads = append(bads, dependentForgeries(rt, w, goods[0], goodPayload)...)
			}
			// ---- unauthorized / tampered candidates
			if !revocation {
				for i, n := 0, rapid.IntRange(2, 7).Draw(rt, "n-bad"); i < n; i++ {
					p := genPayload(rt, w)
					switch fam := rapid.IntRange(0, 9).Draw(rt, "bad-family"); {
					case fam <= 3: // valid signature by a key the table does not list
						ws, roles := wrongSigners(w, p)
						j := rapid.IntRange(0, len(ws)-1).Draw(rt, "wrong-signer")
						for k, role := range roles {
							if role == "own-operator-redirecting-the-output" && rapid.Bool().Draw(rt, "own-operator") {
								j = k
								break
							}
						}
						if x, ok := signedCand(rt, w, ws[j], p.msg); ok {
							x.desc = fmt.Sprintf("%s(%s) by %s %s", p.msg.Name(), p.about, roles[j], ws[j])
							x.class = []string{"bad=wrong-signer", "msg=" + p.msg.Name(), "signer=" + cs.SignerKindName(ws[j].Kind), "role=" + roles[j]}
							bads = append(bads, x)
						}
					case fam <= 7: // rightful signer, one field changed after signing
						gi := rapid.IntRange(0, len(p.rightful)-1).Draw(rt, "rightful-role")
						s := pick(rt, "rightful-form", p.rightful[gi])
						g, ok := signedCand(rt, w, s, p.msg)
						if !ok {
							continue
						}
						kind := pick(rt, "tamper", tamperKinds)
						victim := pick(rt, "victim", w.owners)[0]
						tx, msg, ok := tamper(rt, w, kind, g, victim)
						if !ok || bytes.Equal(cs.MustMarshal(tx), g.bz) {
							continue // not applicable to this payload, or a no-op
						}
						x := &cand{bz: cs.MustMarshal(tx), tx: tx, msg: msg, orig: g.tx, okBySignature: false}
						if pk, err := crypto.NewPublicKeyFromBytes(tx.Signature.PublicKey); err == nil {
							x.signer = pk.Address().Bytes()
						}
						x.desc = fmt.Sprintf("%s(%s) by %s %s, then tampered: %s", p.msg.Name(), p.about, p.roles[gi], s, kind)
						x.class = []string{"bad=tampered", "tamper=" + kind, "msg=" + p.msg.Name(), "signer=" + cs.SignerKindName(s.Kind)}
						bads = append(bads, x)
					case fam == 8: // multisig specials
						mi := rapid.IntRange(0, len(w.cast.Multis)-1).Draw(rt, "multisig")
						if x := multisigAttack(rt, w, w.cast.Multis[mi]); x != nil {
							bads = append(bads, x)
						}
					default: // ethereum wrapper relabelled to a victim
						if x := rlpImpersonation(rt, w); x != nil {
							bads = append(bads, x)
						}
					}
				}
				// ---- the signature-cache alias of an earlier included transaction (open finding: excluded while open)
				if aliasSource != nil {
					if ev.Open(kfAlias) {
						rec.Exclude(kfAlias)
					} else {
						bads = append(bads, aliasOf(aliasSource))
					}
					aliasSource = nil
				}
			}
			// a "bad" candidate the table authorizes after all (stale role bookkeeping of the generator) is dropped
			keep := bads[:0]
			for _, x := range bads {
				if x.class[0] != "bad=revoked-in-block" && verdict(x) {
					cse.Class("generator=dropped-authorized-candidate")
					continue
				}
				keep = append(keep, x)
			}
			bads = keep
			var blockTxs, twinTxs [][]byte
			var order []string
			neighbours := rapid.IntRange(0, 3).Draw(rt, "neighbours")
			for i := 0; i < neighbours; i++ {
				s := cs.Signer{Kind: i % 4, Key: 15}
				bz, _, err := c.Sign(s, &fsm.MessageSend{FromAddress: s.Address(), ToAddress: cs.Addr(keys.Ed(7500 + i)), Amount: 3}, w.opts(s))
				if err != nil {
					rt.Fatalf("neighbour: %v", err)
				}
				blockTxs, twinTxs = append(blockTxs, bz), append(twinTxs, bz)
			}
			all := append(append([]*cand{}, goods...), bads...)
			if !revocation {
				// shuffle candidates among the neighbours
				perm := rapid.Permutation(all).Draw(rt, "order")
				all = all[:0]
				for _, x := range perm { // candidates that depend on the authorized transaction are placed after it
					if !x.after {
						all = append(all, x)
					}
				}
				for _, x := range perm {
					if x.after {
						all = append(all, x)
					}
				}
			}
			seen := map[string]bool{}
			for _, tx := range blockTxs {
				seen[string(tx)] = true
			}
			var kept []*cand
			for _, x := range all {
				if seen[string(x.bz)] {
					continue // byte-identical duplicates inside one block are de-duplicated by the mempool
				}
				seen[string(x.bz)] = true
				kept = append(kept, x)
				pos := len(blockTxs)
				if !revocation && len(blockTxs) > 0 {
					lo := 0
					if x.after {
						for i, tx := range blockTxs {
							if bytes.Equal(tx, goods[0].bz) {
								lo = i + 1
							}
						}
					}
					pos = rapid.IntRange(lo, len(blockTxs)).Draw(rt, "position")
				}
				blockTxs = append(blockTxs[:pos], append([][]byte{x.bz}, blockTxs[pos:]...)...)
			}
			all = kept
			for _, x := range all {
				want := verdict(x)
				order = append(order, fmt.Sprintf("%s => %s", x.desc, map[bool]string{true: "AUTHORIZED", false: "must fail"}[want]))
				for _, cl := range x.class {
					cse.Class(cl)
				}
				if !want && reachesSignatureCheck(x.bz) {
					cse.Class("bad=reaches-signature-check")
					nontriv = true
				}
				if want && len(x.class) > 2 && (x.class[2] == "role=output" || strings.Contains(x.class[1], "multisig") || strings.Contains(x.class[1], "rlp")) {
					nontriv = true
				}
			}
			// ---- single verification path (FSM.CheckTx without batch verifier), cache handling
			cache := pick(rt, "cache", []string{"cold", "warm", "as-is"})
			singleFirst := rapid.Bool().Draw(rt, "single-path-first")
			cse.Class("cache=" + cache)
			cse.Desc("h%d cache=%s single-first=%v [%s]", c.Height(), cache, singleFirst, strings.Join(order, " | "))
			checkSingle := func(on *cs.Chain, when string) {
				for _, x := range all {
					_, err := on.FSM.CheckTx(x.bz, crypto.HashString(x.bz), nil)
					on.FSM.Reset()
					// CheckTx decides signature + signer list only; the "only the output may redirect the output" rule lives in the handler
					if err == nil && !verdictCheckTx(x) && !(revocation && x.class[0] == "bad=revoked-in-block") {
						rt.Fatalf("VIOLATION C05: single verification path (FSM.CheckTx, %s, cache=%s) ACCEPTS [%s] although the table/signature oracle forbids it", when, cache, x.desc)
					}
				}
			}
			if cache == "cold" {
				crypto.SignatureCache.Reset()
			}
			if cache == "warm" {
				for _, x := range all {
					if x.orig != nil && !lib.IsRLPMemo(x.orig.Memo) {
						if pk, err := crypto.NewPublicKeyFromBytes(x.orig.Signature.PublicKey); err == nil {
							sb, _ := x.orig.GetSignBytes()
							pk.VerifyBytes(sb, x.orig.Signature.Signature)
						}
					}
				}
			}
			if singleFirst {
				checkSingle(c, "before the block")
				if cache == "cold" {
					crypto.SignatureCache.Reset()
				}
			}
			// ---- the block and its twin
			twin, err := c.Fork()
			if err != nil {
				rt.Fatalf("fork: %v", err)
			}
			if revocation {
				twinTxs = append(twinTxs, goods[0].bz)
			}
			tm := c.Tick()
			out, err := c.Use().Block(cs.BlockSpec{Txs: blockTxs, Time: tm})
			if err != nil {
				twin.Close()
				rt.Fatalf("harness: %v", err)
			}
			if out.Err != nil {
				twin.Close()
				rt.Fatalf("VIOLATION C05/C07: block failed as a whole: %v", out.Err)
			}
			included := map[string]bool{}
			failed := map[string]string{}
			for _, tx := range out.Results.Txs {
				included[crypto.HashString(tx)] = true
			}
			for _, f := range out.Results.Failed {
				failed[f.Hash] = errText(f.Error)
			}
			goodIncluded := false
			revocationArmed := revocation && included[crypto.HashString(goods[0].bz)]
			for _, x := range all {
				h := crypto.HashString(x.bz)
				want := verdict(x)
				if x.class[0] == "bad=revoked-in-block" {
					want = !revocationArmed
					cse.ClassIf(revocationArmed, "revocation-armed")
				}
				switch {
				case included[h] && !want:
					twin.Close()
					rt.Fatalf("VIOLATION C05: [%s] was EXECUTED in the block at height %d (cache=%s) although %s", x.desc, out.Height, cache, whyNot(state, x))
				case included[h]:
					cse.Class("authorized=executed")
					goodIncluded = goodIncluded || (len(goods) > 0 && x == goods[0])
				case want:
					cse.Class("authorized=failed-for-another-reason")
				}
			}
			// the twin runs the neighbours (and, for effect isolation, nothing else; for revocation pairs also the redirect)
			tout, err := twin.Use().Block(cs.BlockSpec{Txs: twinTxs, Time: tm})
			if err != nil || tout.Err != nil {
				twin.Close()
				rt.Fatalf("harness: twin block failed: %v %v", err, tout.Err)
			}
			c.Use()
			a, _ := c.Scan()
			b, _ := twin.Scan()
			if len(goods) > 0 && goodIncluded && !revocation {
				if msg := effectCheck(a, b, goods[0]); msg != "" {
					twin.Close()
					rt.Fatalf("VIOLATION C05: [%s] executed and %s", goods[0].desc, msg)
				}
				sig := goods[0].tx.Signature.Signature
				if !lib.IsRLPMemo(goods[0].tx.Memo) && len(sig) == 64 && sig[0] == 0x50 && sig[1] >= 1 && sig[1] <= 0x7f {
					aliasSource = goods[0]
					cse.Class("alias-source-available")
				}
			} else if revocation && !revocationArmed {
				cse.Class("revocation-not-armed(redirect failed)") // the old output was never revoked: its second transaction is legitimate
			} else if d := cs.DiffScans(a, b); d != "" {
				twin.Close()
				rt.Fatalf("VIOLATION C05: a block whose candidates all failed (%d unauthorized/tampered) left another state than the block without them: %s", len(bads), d)
			}
			if !singleFirst {
				checkSingle(twin, "after the block, on the twin")
			}
			twin.Close()
		}
		cse.Done(nontriv)
	})
}

// whyNot explains the oracle's verdict for the violation message.
func whyNot(state map[string][]byte, x *cand) string {
	if !x.okBySignature {
		return "its signature field does not hold a valid signature over exactly the submitted content"
	}
	var auth []string
	for _, a := range authorizedAddresses(state, x.msg) {
		auth = append(auth, fmt.Sprintf("%x", a))
	}
	return fmt.Sprintf("the signer %x is not among the addresses the authorization table lists for this %s: [%s]", x.signer, x.msg.Name(), strings.Join(auth, ","))
}

// aliasOf builds the signature-cache alias of an included transaction: the same content plus nonce = sig[1], signature = sig[2:].
func aliasOf(src *cand) *cand {
	t := src.tx
	alias := &lib.Transaction{MessageType: t.MessageType, Msg: t.Msg, CreatedHeight: t.CreatedHeight, Time: t.Time, Fee: t.Fee, Memo: t.Memo, NetworkId: t.NetworkId, ChainId: t.ChainId,
		Nonce: uint64(t.Signature.Signature[1]), Signature: &lib.Signature{PublicKey: t.Signature.PublicKey, Signature: t.Signature.Signature[2:]}}
	return &cand{bz: cs.MustMarshal(alias), tx: alias, msg: src.msg, signer: src.signer, okBySignature: false, orig: t,
		desc: "signature-cache alias (nonce=sig[1], signature=sig[2:]) of the earlier included [" + src.desc + "]", class: []string{"bad=sigcache-alias"}}
}
