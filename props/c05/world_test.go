// Package c05 decides property C05 "Authorization: only authorized signers can move funds or alter validators/orders".
package c05

import (
	"bytes"
	"fmt"
	"strings"

	"github.com/canopy-network/canopy/fsm"
	"github.com/canopy-network/canopy/lib"
	"github.com/canopy-network/canopy/lib/crypto"

	cs "verif/h/chainsim"
)

// poorBalance pays a few dozen fees but no stake top-up of bigTopUp.
const (
	poorBalance = 3_000_000
	bigTopUp    = 50_000_000
)

type fataler interface {
	Fatalf(string, ...any)
	Logf(string, ...any)
}

// valInfo is what the harness knows about a validator of the world (who may sign for it).
type valInfo struct {
	name     string
	addr     []byte
	operator []cs.Signer // signers controlling the operator address
	output   []cs.Signer // signers controlling the output address (empty when custodial)
	delegate bool
	net      string
}

type orderInfo struct {
	id     []byte
	seller []cs.Signer
	amount uint64
}

// world is a chain after its setup block plus the list of actors.
type world struct {
	c       *cs.Chain
	cast    *cs.Cast
	vals    []*valInfo
	orders  []*orderInfo
	owners  [][]cs.Signer // account owners: each entry = the signer forms of ONE account (e.g. eth key: plain, RLP, RLP.V2)
	nonces  map[string]uint64
	feeSalt uint64
}

func ethForms(key int) []cs.Signer {
	return []cs.Signer{{Kind: cs.KindEth, Key: key}, {Kind: cs.KindRLP, Key: key}, {Kind: cs.KindRLPV2, Key: key, TxType: 1}, {Kind: cs.KindRLP, Key: key, TxType: 2}, {Kind: cs.KindRLPV2, Key: key}}
}

func multiForms(m cs.Multi) []cs.Signer {
	// exactly t signers (first t), exactly t (last t), all
	n, t := len(m.Members), int(m.Threshold)
	all := make([]int, n)
	for i := range all {
		all[i] = i
	}
	out := []cs.Signer{{Kind: cs.KindMulti, Multi: m, Positions: all[:t]}}
	if t < n {
		out = append(out, cs.Signer{Kind: cs.KindMulti, Multi: m, Positions: all[n-t:]}, cs.Signer{Kind: cs.KindMulti, Multi: m, Positions: all})
	}
	return out
}

func single(kind, key int) []cs.Signer { return []cs.Signer{{Kind: kind, Key: key}} }

// nextNonce hands out RLP.V2 nonces per account (every successful RLP.V2 transaction raises the floor).
func (w *world) opts(s cs.Signer) cs.TxOpts {
	w.feeSalt++
	o := cs.TxOpts{Fee: cs.DefaultFee + w.feeSalt, Created: w.c.Height()}
	if s.Kind == cs.KindRLPV2 {
		k := string(s.Address())
		o.Nonce = w.nonces[k] + 100 // gaps are allowed; stay well above the floor whatever executed before
		w.nonces[k] = o.Nonce + 1
	}
	return o
}

// newWorld builds the chain and its setup block:
//
//	v0,v1,v2 custodial validators (operator keys bls0..2); v3 non-custodial (operator bls3, output ed25519 #3);
//	v4 custodial delegate (bls4); v5 non-custodial delegate (operator bls5, output secp256k1 #5);
//	setup: v6 validator bls6 with output = eth key #14; v7 delegate bls7 with output = multisig #0;
//	v8 custodial delegate whose operator key is the eth key #12;
//	orders by ed25519 #11, eth #11, multisig #1.
func newWorld(t fataler, whale bool) *world {
	g, cast := cs.RichGenesis(1, cs.GenesisOpts{WithWhale: whale})
	// asymmetric balances of two non-custodial validators: v3 has a POOR operator (bls3) and a rich output (ed25519 #3), v5 a rich
	// operator (bls5) and a POOR output (secp256k1 #5). A stake top-up may only ever be paid by the key that signed it.
	for _, a := range g.Accounts {
		if bytes.Equal(a.Address, cs.Signer{Kind: cs.KindBLS, Key: 3}.Address()) || bytes.Equal(a.Address, cs.Signer{Kind: cs.KindSecp, Key: 5}.Address()) {
			a.Amount = poorBalance
		}
	}
	c, err := cs.New(cs.Opts{Genesis: g})
	if err != nil {
		t.Fatalf("new chain: %v", err)
	}
	w := &world{c: c, cast: cast, nonces: map[string]uint64{}}
	bls := func(i int) []cs.Signer { return single(cs.KindBLS, i) }
	w.vals = []*valInfo{
		{name: "v0(custodial)", addr: cs.Signer{Kind: cs.KindBLS, Key: 0}.Address(), operator: bls(0), net: "tcp://127.0.0.1"},
		{name: "v1(custodial)", addr: cs.Signer{Kind: cs.KindBLS, Key: 1}.Address(), operator: bls(1), net: "tcp://127.0.0.1"},
		{name: "v2(custodial)", addr: cs.Signer{Kind: cs.KindBLS, Key: 2}.Address(), operator: bls(2), net: "tcp://127.0.0.1"},
		{name: "v3(output ed25519)", addr: cs.Signer{Kind: cs.KindBLS, Key: 3}.Address(), operator: bls(3), output: single(cs.KindEd, 3), net: "tcp://127.0.0.1"},
		{name: "v4(custodial delegate)", addr: cs.Signer{Kind: cs.KindBLS, Key: 4}.Address(), operator: bls(4), delegate: true},
		{name: "v5(delegate, output secp256k1)", addr: cs.Signer{Kind: cs.KindBLS, Key: 5}.Address(), operator: bls(5), output: single(cs.KindSecp, 5), delegate: true},
	}
	var setup [][]byte
	add := func(s cs.Signer, m lib.MessageI) []byte {
		bz, _, err := c.Sign(s, m, w.opts(s))
		if err != nil {
			t.Fatalf("setup sign: %v", err)
		}
		setup = append(setup, bz)
		return bz
	}
	eth14, eth12 := cs.Signer{Kind: cs.KindEth, Key: 14}, cs.Signer{Kind: cs.KindEth, Key: 12}
	m0 := multiForms(cast.Multis[0])[0]
	b6, b7 := cs.Signer{Kind: cs.KindBLS, Key: 6}, cs.Signer{Kind: cs.KindBLS, Key: 7}
	add(eth14, &fsm.MessageStake{PublicKey: b6.PublicKey(), Amount: 2_000_000, Committees: []uint64{1}, NetAddress: "tcp://127.0.0.6", OutputAddress: eth14.Address()})
	add(m0, &fsm.MessageStake{PublicKey: b7.PublicKey(), Amount: 2_000_000, Committees: []uint64{1}, OutputAddress: m0.Address(), Delegate: true})
	add(eth12, &fsm.MessageStake{PublicKey: eth12.PublicKey(), Amount: 2_000_000, Committees: []uint64{1}, OutputAddress: eth12.Address(), Delegate: true})
	w.vals = append(w.vals,
		&valInfo{name: "v6(output eth)", addr: b6.Address(), operator: bls(6), output: ethForms(14), net: "tcp://127.0.0.6"},
		&valInfo{name: "v7(delegate, output multisig)", addr: b7.Address(), operator: bls(7), output: multiForms(cast.Multis[0]), delegate: true},
		&valInfo{name: "v8(custodial delegate, eth operator)", addr: eth12.Address(), operator: ethForms(12), delegate: true})
	order := func(s cs.Signer, forms []cs.Signer, salt byte) {
		bz := add(s, &fsm.MessageCreateOrder{ChainId: 1, Data: []byte{salt}, AmountForSale: cs.MinOrder + 5, RequestedAmount: 9, SellerReceiveAddress: bytes.Repeat([]byte{salt}, 20), SellersSendAddress: s.Address()})
		w.orders = append(w.orders, &orderInfo{id: crypto.Hash(bz)[:20], seller: forms, amount: cs.MinOrder + 5})
	}
	order(cs.Signer{Kind: cs.KindEd, Key: 11}, single(cs.KindEd, 11), 1)
	order(cs.Signer{Kind: cs.KindEth, Key: 11}, ethForms(11), 2)
	order(multiForms(cast.Multis[1])[0], multiForms(cast.Multis[1]), 3)
	out, err := c.Block(cs.BlockSpec{Txs: setup})
	if err != nil || out.Err != nil || len(out.Results.Failed) != 0 {
		msg := ""
		if out != nil {
			for _, f := range out.Results.Failed {
				msg += fmt.Sprint(f.Error) + "; "
			}
		}
		t.Fatalf("harness: setup block rejected: %v %v %s", err, out.Err, strings.Join(strings.Fields(msg), " "))
	}
	// account owners (keys 10,12,13 of every kind; 11/14 are order sellers / outputs as well; 15 is reserved for neighbours)
	for _, k := range []int{10, 13} {
		w.owners = append(w.owners, single(cs.KindBLS, k), single(cs.KindEd, k), single(cs.KindSecp, k), ethForms(k))
	}
	w.owners = append(w.owners, multiForms(cast.Multis[0]), multiForms(cast.Multis[1]), multiForms(cast.Multis[2]))
	return w
}

// ---- the independent authorization table (written from fsm/README.md, fsm/message.md, fsm/validator.md) ----------------

// authorizedAddresses lists the addresses that may sign msg in the given state:
//   - transfers, subsidies, DEX operations, order creation: the address the funds come from
//   - stake: the new validator's own (operator) address or its output address - whoever signs pays
//   - edit-stake / unstake / pause / unpause: the validator's operator; additionally its output address when the validator is
//     non-custodial (output != operator) - "for custodial validators, only the validator address can sign" (validator.md)
//   - edit / delete order: the seller that created the order
//   - governance proposals: anyone may submit under its own name (the named signer / recipient), execution is gated by approval
func authorizedAddresses(state map[string][]byte, msg lib.MessageI) [][]byte {
	val := func(addr []byte) [][]byte {
		v := cs.ValidatorIn(state, addr)
		if v == nil {
			return nil
		}
		if bytes.Equal(v.Address, v.Output) {
			return [][]byte{v.Address}
		}
		return [][]byte{v.Address, v.Output}
	}
	ord := func(id []byte, chain uint64) [][]byte {
		for _, o := range cs.OrdersIn(state, chain) {
			if bytes.Equal(o.Id, id) {
				return [][]byte{o.SellersSendAddress}
			}
		}
		return nil
	}
	switch m := msg.(type) {
	case *fsm.MessageSend:
		return [][]byte{m.FromAddress}
	case *fsm.MessageStake:
		pk, err := crypto.NewPublicKeyFromBytes(m.PublicKey)
		if err != nil {
			return nil
		}
		return [][]byte{pk.Address().Bytes(), m.OutputAddress}
	case *fsm.MessageEditStake:
		return val(m.Address)
	case *fsm.MessageUnstake:
		return val(m.Address)
	case *fsm.MessagePause:
		return val(m.Address)
	case *fsm.MessageUnpause:
		return val(m.Address)
	case *fsm.MessageChangeParameter:
		return [][]byte{m.Signer}
	case *fsm.MessageDAOTransfer:
		return [][]byte{m.Address}
	case *fsm.MessageSubsidy:
		return [][]byte{m.Address}
	case *fsm.MessageCreateOrder:
		return [][]byte{m.SellersSendAddress}
	case *fsm.MessageEditOrder:
		return ord(m.OrderId, m.ChainId)
	case *fsm.MessageDeleteOrder:
		return ord(m.OrderId, m.ChainId)
	case *fsm.MessageDexLimitOrder:
		return [][]byte{m.Address}
	case *fsm.MessageDexLiquidityDeposit:
		return [][]byte{m.Address}
	case *fsm.MessageDexLiquidityWithdraw:
		return [][]byte{m.Address}
	}
	return nil
}

// tableAuthorizes applies the table plus the one extra rule of the edit-stake handler: only the current output address may
// redirect the output address.
func tableAuthorizes(state map[string][]byte, msg lib.MessageI, signer []byte) bool {
	ok := false
	for _, a := range authorizedAddresses(state, msg) {
		ok = ok || (len(a) == 20 && bytes.Equal(a, signer))
	}
	if !ok {
		return false
	}
	if m, is := msg.(*fsm.MessageEditStake); is {
		v := cs.ValidatorIn(state, m.Address)
		if v != nil && !bytes.Equal(v.Output, m.OutputAddress) && !bytes.Equal(v.Output, signer) {
			return false
		}
	}
	return true
}

// targetValidator is the validator a message is about (nil if none).
func targetValidator(msg lib.MessageI) []byte {
	switch m := msg.(type) {
	case *fsm.MessageStake:
		if pk, err := crypto.NewPublicKeyFromBytes(m.PublicKey); err == nil {
			return pk.Address().Bytes()
		}
	case *fsm.MessageEditStake:
		return m.Address
	case *fsm.MessageUnstake:
		return m.Address
	case *fsm.MessagePause:
		return m.Address
	case *fsm.MessageUnpause:
		return m.Address
	}
	return nil
}
