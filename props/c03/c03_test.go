// Package c03 checks property C03 (deterministic replicated execution): the same block bytes executed on independent
// real nodes along different paths {propose, validate, commit-with-cached-result, commit-replay, sync replay, restart}
// with different irrelevant state (caches, discarded speculative executions, GOMAXPROCS) give byte-identical headers,
// certificate results, transaction result sets, indexed certificates and a state root equal to the reference root.
package c03

import (
	"bytes"
	"fmt"
	"math"
	"runtime"
	"sort"
	"strings"
	"testing"

	"github.com/canopy-network/canopy/fsm"
	"github.com/canopy-network/canopy/lib"
	"github.com/canopy-network/canopy/lib/crypto"
	"github.com/canopy-network/canopy/store"
	"pgregory.net/rapid"

	"verif/h/ev"
	"verif/h/keys"
	"verif/h/nodesim"
	"verif/h/storemodel"
)

var singleKinds = []string{"send", "send", "send", "send", "send", "send-self", "send-broke", "double-spend", "stake-new", "edit-stake-up", "edit-stake-up", "pause", "unpause",
	"unstake", "bad-sig", "wrong-chain", "noncanonical", "dup-same", "low-fee", "change-param", "dao-transfer", "subsidy", "create-order", "create-order", "lock-orders", "lock-orders", "param-approved", "param-approved", "big-memo", "hostile-amount", "future-height"}
var nestedKinds = []string{"send", "send", "send", "send", "send", "send-self", "send-broke", "double-spend", "bad-sig", "noncanonical", "low-fee", "big-memo", "hostile-amount",
	"dex-order", "dex-order", "dex-deposit", "dex-withdraw", "subsidy", "lock-orders", "lock-orders", "param-approved"}
var rootKinds = []string{"send", "send", "edit-stake-up", "dex-order", "dex-order", "dex-deposit", "send-broke", "create-order-peer", "create-order-peer", "create-order-peer"}

func mustMarshal(m any) []byte {
	bz, err := lib.Marshal(m)
	if err != nil {
		panic(err)
	}
	return bz
}

// qcCore is the certificate without the block bytes (what the indexer stores)
func qcCore(qc *lib.QuorumCertificate) []byte {
	return mustMarshal(&lib.QuorumCertificate{Header: qc.Header, Results: qc.Results, ResultsHash: qc.ResultsHash, BlockHash: qc.BlockHash, ProposerKey: qc.ProposerKey, Signature: qc.Signature})
}

type hist struct {
	t     *rapid.T
	cs    *ev.Case
	sim   *nodesim.Sim
	w     *nodesim.World
	ring  nodesim.KeyRing
	g     *nodesim.Group // P, R, X (lock-step nodes)
	s     *nodesim.Node  // sync node
	root  *nodesim.Group // root chain (nested mode), one node
	rootW *nodesim.World
	kinds []string
	// per-history counters for the non-trivial rule
	maxOps      int
	failingSeen bool
	paths       map[string]bool
	offered     [][]byte        // all transactions offered so far at the current height
	xDissents   bool            // node X votes NO on the generated proposals (its approve list says approve=false)
	proposals   map[string]bool // hashes of the generated governance proposals
	forced      []string        // transaction kinds that the next height must contain (swap plan)
	rootForced  []string        // same for the next root-chain step
}

func (h *hist) fatalf(format string, a ...any) {
	h.t.Fatalf("%s", clipLines(fmt.Sprintf("%s\nhistory: %s", fmt.Sprintf(format, a...), h.cs.Descriptor()), 16000))
}

func (h *hist) P() *nodesim.Node { return h.g.Nodes[0] }
func (h *hist) R() *nodesim.Node { return h.g.Nodes[1] }
func (h *hist) X() *nodesim.Node { return h.g.Nodes[2] }

func TestC03History(t *testing.T) {
	rec := ev.New(t, "C03")
	rapid.Check(t, func(t *rapid.T) { runHistory(t, rec, false) })
}

func runHistory(t *rapid.T, rec *ev.Rec, forceNestedEmptyDex bool) {
	cs := rec.Case()
	h := &hist{t: t, cs: cs, sim: nodesim.NewSim(), paths: map[string]bool{}, proposals: map[string]bool{}}
	defer h.sim.Close()
	procs := rapid.SampledFrom([]int{1, 4, 16}).Draw(t, "GOMAXPROCS")
	defer runtime.GOMAXPROCS(runtime.GOMAXPROCS(procs))
	nested := forceNestedEmptyDex || rapid.SampledFrom([]bool{false, false, true}).Draw(t, "nested")
	h.w = nodesim.GenWorld(t, 1)
	h.ring = nodesim.NewKeyRing(h.w.NVals + h.w.Spare)
	cs.Class(fmt.Sprintf("GOMAXPROCS=%d", procs))
	cs.Desc("procs=%d stakes=%v", procs, h.w.Stakes)
	mk := func(name string, key int, chain uint64, gen *fsm.GenesisState, root *nodesim.Node) *nodesim.Node {
		n, err := h.sim.NewNode(nodesim.NodeOpts{Name: name, ChainID: chain, Key: keys.BLS(key % h.w.NVals), Root: root, Genesis: gen})
		if err != nil {
			t.Fatalf("new node %s: %v", name, err)
		}
		return n
	}
	if !nested {
		cs.Class("mode=single")
		cs.Desc("single")
		h.kinds = singleKinds
		gen := h.w.Genesis(0)
		h.g = &nodesim.Group{Sim: h.sim, Ring: h.ring, Nodes: []*nodesim.Node{mk("P", 0, 1, gen, nil), mk("R", 1, 1, gen, nil), mk("X", 2, 1, gen, nil)}}
		h.s = mk("S", 3, 1, gen, nil)
	} else {
		dex := !forceNestedEmptyDex && rapid.IntRange(0, 3).Draw(t, "dexPools") > 0
		cs.Class("mode=nested")
		cs.ClassIf(dex, "nested:liquidity-pools")
		cs.Desc("nested dex=%v", dex)
		h.kinds = nestedKinds
		rg, ng := nodesim.TwoChainGenesis(h.w.ValSpecs(), h.w.AcctSpecs(), dex, nil)
		ra := mk("RA", 0, 1, rg, nil)
		h.root = &nodesim.Group{Sim: h.sim, Ring: h.ring, Nodes: []*nodesim.Node{ra}}
		h.rootW = h.w.ForChain(1, 2)
		h.rootW.Committees = []uint64{1, 2} // root validators keep serving the nested committee when they edit their stake
		h.w = h.w.ForChain(2, 1)
		h.g = &nodesim.Group{Sim: h.sim, Ring: h.ring, Nodes: []*nodesim.Node{mk("P", 0, 2, ng, ra), mk("R", 1, 2, ng, ra), mk("X", 2, 2, ng, ra)}}
		h.s = mk("S", 3, 2, ng, ra)
		// RCManager's one-entry DexBatch cache returns the same (mutable) object on a hit; off = every answer is a fresh object
		if !rapid.Bool().Draw(t, "rcDexCache") || forceNestedEmptyDex {
			for _, n := range append(append([]*nodesim.Node{}, h.g.Nodes...), h.s) {
				n.RC.CacheDex = false
			}
			cs.Class("nested:rc-answers-fresh-objects")
		} else {
			cs.Class("nested:rc-dex-cache(production)")
		}

	}
	// governance voting mode, identical on all nodes: approve list (a validator in the first rounds of a height) or reject-all
	if rapid.SampledFrom([]bool{true, true, false}).Draw(t, "approveListMode") {
		for _, n := range h.sim.Nodes {
			n.SetApproveList(true)
		}
		cs.Class("governance=approve-list")
		// validators may vote differently: X can vote NO on every generated proposal; it then rejects proposals containing one
		// and must still commit the block once the quorum certified it
		if h.xDissents = rapid.SampledFrom([]bool{true, true, true, false}).Draw(t, "xDissents"); h.xDissents {
			cs.Class("governance:X-votes-no")
		}
	} else {
		cs.Class("governance=reject-all")
	}
	// state-aware generation: the open, unlocked sell orders buyers on this chain can lock
	h.w.OpenOrders = func() [][]byte {
		src, committee := h.P(), h.w.Chain
		if h.root != nil {
			src = h.root.Nodes[0]
		}
		h.sim.Activate(src)
		book, err := src.C.FSM.GetOrderBook(committee)
		if err != nil {
			return nil
		}
		var ids [][]byte
		for _, o := range book.Orders {
			if len(o.BuyerReceiveAddress) == 0 {
				ids = append(ids, o.Id)
			}
		}
		return ids
	}
	heights := rapid.SampledFrom([]int{3, 3, 4, 4, 5, 6, 8, 12}).Draw(t, "heights")
	if forceNestedEmptyDex {
		heights = 2
	}
	syncLockstep := rapid.Bool().Draw(t, "syncLockstep")
	cs.ClassIf(syncLockstep, "sync=lockstep")
	cs.ClassIf(!syncLockstep, "sync=at-end")
	// swap plan (2 of 3 histories): several sell orders are opened at the start and ALL locked in one later proposal
	swapPlan := rapid.SampledFrom([]bool{true, true, false}).Draw(t, "swapPlan") && !forceNestedEmptyDex
	lockAt := rapid.IntRange(1, 2).Draw(t, "lockAt")
	cs.ClassIf(swapPlan, "swap-plan(>=2 lock orders in one proposal)")
	for i := 0; i < heights; i++ {
		if swapPlan && i == 0 {
			if h.root != nil {
				h.rootForced = []string{"create-order-peer", "create-order-peer", "create-order-peer"}
				h.rootStep()
			} else {
				h.forced = []string{"create-order", "create-order", "create-order"}
			}
		}
		if h.xDissents && (i == 1 || i == 3) {
			h.forced = append(h.forced, "param-approved-valid") // a (valid) proposal X voted no on, early in the history
		}
		if swapPlan && i == lockAt {
			h.forced = append(h.forced, "lock-orders")
		}
		if h.root != nil {
			for k := rapid.IntRange(0, 2).Draw(t, "rootSteps"); k > 0; k-- {
				h.rootStep()
			}
		}
		if !h.height(syncLockstep) {
			break
		}
	}
	if !syncLockstep {
		for i, qc := range h.g.Certified {
			served, err := h.P().Serve(uint64(i + 1))
			if err != nil {
				h.fatalf("P cannot serve height %d: %v", i+1, err)
			}
			if _, err = h.s.Deliver(served, true); err != nil {
				h.fatalf("VIOLATION C03/C11: sync replay of height %d failed: %v", i+1, err)
			}
			h.compareCert(h.s, uint64(i+1), qc)
		}
		h.paths["sync"] = true
		h.compareState([]*nodesim.Node{h.P(), h.s}, "after sync")
	}
	cs.Class(fmt.Sprintf("paths=%d", len(h.paths)))
	cs.ClassIf(h.maxOps >= 16, "parallel-tree-commit(>=16 state ops)")
	cs.ClassIf(h.failingSeen, "failing-tx-on-proposer-path")
	cs.Done(h.maxOps >= 16 && h.failingSeen && len(h.paths) >= 4)
}

// rootStep advances the root chain of the nested setup by one height on its single node
func (h *hist) rootStep() {
	ra := h.root.Nodes[0]
	for _, k := range h.rootForced {
		for _, tx := range h.rootW.GenTx(h.t, ra.Height(), []string{k}) {
			_ = ra.AddTx(tx.Bytes)
		}
	}
	h.rootForced = nil
	for k := h.t_int(0, 3, "rootTx"); k > 0; k-- {
		for _, tx := range h.rootW.GenTx(h.t, ra.Height(), rootKinds) {
			_ = ra.AddTx(tx.Bytes)
		}
	}
	vs, ce := ra.Committee(ra.Height())
	if ce != nil {
		h.cs.Class("degenerate:no-root-committee-left")
		return
	}
	r, err := h.root.Step(nodesim.StepOpts{Proposer: 0, Signers: h.quorum(vs)})
	if err != nil || !r.OK() {
		h.fatalf("root chain step failed: %v %v", err, r.Err())
	}
	h.cs.Desc("root h%d", r.Height)
	if h.t_int(0, 1, "notifyRoot") == 1 {
		for _, n := range h.g.Nodes {
			n.NotifyRootUpdate()
		}
		h.cs.Desc("notify")
	}
}

func (h *hist) t_int(lo, hi int, label string) int { return rapid.IntRange(lo, hi).Draw(h.t, label) }

// quorum draws a signer subset with at least +2/3 of the power (non-signers are generated)
func (h *hist) quorum(vs lib.ValidatorSet) []int {
	n := len(vs.ValidatorSet.ValidatorSet)
	all := nodesim.AllSigners(vs)
	if h.t_int(0, 2, "allSign") == 0 {
		return all
	}
	// drop random members while the rest keeps the quorum
	perm := rapid.Permutation(all).Draw(h.t, "dropOrder")
	keep := map[int]bool{}
	for _, i := range all {
		keep[i] = true
	}
	for _, i := range perm[:h.t_int(0, n-1, "nDrop")] {
		keep[i] = false
		var idx []int
		for _, j := range all {
			if keep[j] {
				idx = append(idx, j)
			}
		}
		_, thr, signed := nodesim.Power(vs, idx)
		if signed.Cmp(thr) < 0 {
			keep[i] = true
		}
	}
	var idx []int
	for _, j := range all {
		if keep[j] {
			idx = append(idx, j)
		}
	}
	return idx
}

func (h *hist) perturb(n *nodesim.Node, where string) {
	switch h.t_int(0, 3, "perturb:"+where) {
	case 1:
		crypto.SignatureCache.Reset()
		h.cs.Class("perturb:sigcache-cold")
	case 2:
		store.VerifPurgeBlockCache()
		h.cs.Class("perturb:blockcache-purged")
	case 3:
		crypto.SignatureCache.Reset()
		store.VerifPurgeBlockCache()
	}
}

// height runs one height on all paths; false = the chain cannot continue (no committee left: documented degenerate case)
func (h *hist) height(syncLockstep bool) bool {
	t, P, R, X := h.t, h.P(), h.R(), h.X()
	ht := P.Height()
	if vs, e := P.Committee(P.C.RootChainHeight()); e != nil || vs.ValidatorSet == nil || len(vs.ValidatorSet.ValidatorSet) == 0 {
		h.cs.Class("degenerate:no-committee-left(history ends)")
		return false
	}
	h.offered = nil
	add := func(n int) {
		for i := 0; i < n; i++ {
			for _, tx := range h.w.GenTx(t, ht, h.kinds) {
				h.offered = append(h.offered, tx.Bytes)
				if tx.Proposal {
					h.proposals[crypto.HashString(tx.Bytes)] = true
					for _, n := range append(append([]*nodesim.Node{}, h.g.Nodes...), h.s) {
						if err := n.ApproveProposal(tx.Bytes, !(n == X && h.xDissents)); err != nil {
							h.fatalf("approve list: %v", err)
						}
					}
					h.cs.Class("approved-proposal-offered")
				}
				// gossip: every mempool sees the transaction (admission may refuse it - same verdict expected everywhere)
				ep, er := P.AddTx(tx.Bytes), R.AddTx(tx.Bytes)
				if (ep == nil) != (er == nil) {
					h.fatalf("VIOLATION C03: mempool admission differs between nodes for %s: %v vs %v", tx.Desc, ep, er)
				}
				h.cs.Desc("h%d:%s", ht, tx.Desc)
			}
		}
	}
	nTx := h.t_int(5, 14, "nTx")
	for _, k := range h.forced {
		saved := h.kinds
		h.kinds = []string{k}
		add(1)
		h.kinds = saved
	}
	h.forced = nil
	add(nTx / 2)
	// a different proposal of the same height for speculative validations
	var altQC *lib.QuorumCertificate
	var alt *nodesim.Proposal
	if h.t_int(0, 2, "speculative") == 0 {
		if a, e := P.Produce(); e == nil {
			alt = a
			altQC = nodesim.NewQC(a, P.ViewFor(lib.Phase_PRECOMMIT_VOTE, 0), P.C.PublicKey)
			if vs, ce := P.Committee(altQC.Header.RootHeight); ce == nil {
				_ = nodesim.Sign(altQC, vs, h.ring, nodesim.AllSigners(vs))
			} else {
				alt, altQC = nil, nil
			}
		}
	}
	add(nTx - nTx/2)
	// the two-proposer comparison below needs the SAME mempool (content and arrival order) on P and R; an earlier speculative
	// proposal of P may have evicted transactions that would succeed now
	samePools := poolList(P) == poolList(R)
	vs0, _ := P.Committee(P.C.RootChainHeight())
	round := uint64(h.t_int(0, 2, "round"))
	res, err := h.g.Certify(0, h.quorum(vs0), round)
	if err != nil {
		h.fatalf("certify: %v", err)
	}
	if res.ProduceErr != nil {
		h.fatalf("VIOLATION C03/C11: proposer cannot build a proposal from its mempool at height %d: %v", ht, res.ProduceErr)
	}
	h.paths["propose"] = true
	p, qc := res.Proposal, res.QC
	blk := new(lib.Block)
	if e := lib.Unmarshal(p.Block, blk); e != nil {
		h.fatalf("proposal block does not decode: %v", e)
	}
	if alt != nil && bytes.Equal(alt.BlockHash, p.BlockHash) {
		alt, altQC = nil, nil
	}
	included := map[string]bool{}
	for _, tx := range blk.Transactions {
		included[crypto.HashString(tx)] = true
	}
	var failed [][]byte
	for _, tx := range h.offered {
		if !included[crypto.HashString(tx)] {
			failed = append(failed, tx)
		}
	}
	if len(failed) > 0 && len(included) > 0 {
		h.failingSeen = true
	}
	h.cs.Desc("h%d:block txs=%d dropped=%d signers=%v round=%d", ht, len(blk.Transactions), len(failed), res.Signers, round)

	// second proposer with the same mempool: same included list, same failed set, same transaction root and counters
	if second := h.t_int(0, 2, "secondProposer") == 0; second && !samePools {
		h.cs.Class("second-proposer-skipped(mempools differ)")
	} else if second {
		h.perturb(R, "R-produce")
		p2, e := R.Produce()
		if e != nil {
			h.fatalf("VIOLATION C03/C11: second proposer cannot build a proposal: %v", e)
		}
		b2 := new(lib.Block)
		_ = lib.Unmarshal(p2.Block, b2)
		if len(b2.Transactions) != len(blk.Transactions) {
			h.fatalf("VIOLATION C03: two proposers with the same mempool include %d vs %d transactions", len(blk.Transactions), len(b2.Transactions))
		}
		for i := range b2.Transactions {
			if !bytes.Equal(b2.Transactions[i], blk.Transactions[i]) {
				h.fatalf("VIOLATION C03: two proposers with the same mempool differ at transaction %d", i)
			}
		}
		// (state root, validator roots and certificate results legitimately depend on WHO proposes: rewards, last proposers)
		x, y := blk.BlockHeader, b2.BlockHeader
		if !bytes.Equal(x.TransactionRoot, y.TransactionRoot) || x.NumTxs != y.NumTxs || x.TotalTxs != y.TotalTxs || !bytes.Equal(x.LastBlockHash, y.LastBlockHash) {
			h.fatalf("VIOLATION C03: two proposers with the same mempool compute different transaction roots / counters:\n%v\n%v", x, y)
		}
		for _, tx := range h.offered {
			k := crypto.HashString(tx)
			if P.C.Mempool.Contains(k) != R.C.Mempool.Contains(k) {
				h.fatalf("VIOLATION C03: failed-transaction sets differ between two proposers (tx %s)", k)
			}
		}
		h.cs.Class("second-proposer")
	}

	// dissented: the block contains a governance proposal node X voted NO on
	dissented := func(block []byte) bool {
		if !h.xDissents {
			return false
		}
		b := new(lib.Block)
		if lib.Unmarshal(block, b) != nil {
			return false
		}
		for _, tx := range b.Transactions {
			if h.proposals[crypto.HashString(tx)] {
				return true
			}
		}
		return false
	}
	// speculate: a speculative validation of the OTHER proposal on node n (X may legitimately reject it when it voted no)
	speculate := func(n *nodesim.Node) {
		_, e := n.Validate(alt.RcBuildHeight, altQC)
		if e != nil && !(n == X && dissented(alt.Block)) {
			h.fatalf("VIOLATION C03/C11: %s rejects the (other) valid proposal of P: %v", n.Name, e)
		}
		if e != nil {
			h.cs.Class("X-votes-no:failed-validation-before-the-certified-block")
		}
	}
	validate := func(n *nodesim.Node, label string) {
		if altQC != nil && h.t_int(0, 1, "spec:"+label) == 0 {
			// a discarded speculative validation of a different proposal just before
			speculate(n)
			n.AbandonRound()
			h.cs.Class("perturb:speculative-validate-discarded")
		}
		h.perturb(n, label)
		reps := 1 + h.t_int(0, 1, "repeat:"+label)
		for r := 0; r < reps; r++ {
			if r > 0 {
				// the same proposal validated again, with or without the round having been abandoned in between
				if h.t_int(0, 1, "abandonBetween:"+label) == 0 {
					n.AbandonRound()
				} else {
					h.cs.Class("validate-twice-without-reset-in-between")
				}
				h.cs.Class("path-repeated")
			}
			br, e := n.Validate(p.RcBuildHeight, qc)
			if e != nil {
				h.fatalf("VIOLATION C03: %s (validate path) rejects the block P proposed at height %d: %v", n.Name, ht, e)
			}
			if !bytes.Equal(mustMarshal(br.BlockHeader), mustMarshal(blk.BlockHeader)) {
				h.fatalf("VIOLATION C03: validate path header differs on %s", n.Name)
			}
			if ops := n.Store.VerifPendingStateOps(); ops > h.maxOps {
				h.maxOps = ops
			}
			// the controller's own certificate results on this path (FSM holds the executed block)
			n.C.Lock()
			cr := n.C.NewCertificateResults(n.C.FSM, blk, br, nodesim.NoEvidence(), p.RcBuildHeight)
			n.C.Unlock()
			if !cr.Equals(p.Results) || !bytes.Equal(cr.Hash(), qc.ResultsHash) {
				h.fatalf("VIOLATION C03: certificate results on the validate path of %s differ from the proposer's:\n%v\n%v", n.Name, cr, p.Results)
			}
		}
		h.paths["validate"] = true
	}
	// P validates its own proposal like every replica
	validate(P, "P-validate")
	// X: restart and/or validate-first and/or replay
	if h.t_int(0, 2, "restartX") == 0 {
		if e := X.Restart(); e != nil {
			h.fatalf("restart of X failed: %v", e)
		}
		h.paths["restart"] = true
		h.cs.Class("restart")
	}
	xValidates := h.t_int(0, 1, "xValidates") == 0 || dissented(p.Block)
	if xValidates && dissented(p.Block) {
		// X voted no: it rejects the proposal (round interrupt) and later commits what the quorum certified by replay
		if _, e := X.Validate(p.RcBuildHeight, qc); e == nil {
			h.fatalf("VIOLATION C03: X validates a proposal containing a governance transaction it voted NO on")
		}
		h.cs.Class("X-votes-no:failed-validation-before-the-certified-block")
		xValidates = false
	} else if xValidates {
		validate(X, "X-validate")
	} else if altQC != nil && h.t_int(0, 1, "xSpec") == 0 {
		// speculative validation, then the certified block arrives without a validation of its own
		speculate(X)
		if h.t_int(0, 1, "xAbandon") == 0 {
			X.AbandonRound()
		}
		h.cs.Class("perturb:speculative-validate-then-replay")
	}
	// commit
	deliver := func(n *nodesim.Node, label string, sync bool) {
		h.perturb(n, label)
		if _, e := n.Deliver(nodesim.CloneQC(qc), sync); e != nil {
			h.fatalf("VIOLATION C03: %s (%s) cannot commit the certified block of height %d: %v", n.Name, label, ht, e)
		}
	}
	deliver(P, "commit-cached", false)
	h.paths["commit-cached"] = true
	deliver(R, "commit-replay", false)
	h.paths["commit-replay"] = true
	if xValidates {
		deliver(X, "X-commit-cached", false)
	} else {
		deliver(X, "X-commit-replay", false)
	}
	h.g.Certified = append(h.g.Certified, qc)
	nodes := []*nodesim.Node{P, R, X}
	if syncLockstep {
		served, e := P.Serve(ht)
		if e != nil {
			h.fatalf("P cannot serve height %d: %v", ht, e)
		}
		deliver2 := served
		if _, e = h.s.Deliver(deliver2, true); e != nil {
			h.fatalf("VIOLATION C03/C11: sync replay of height %d failed: %v", ht, e)
		}
		h.paths["sync"] = true
		nodes = append(nodes, h.s)
	}
	for _, n := range nodes {
		h.compareCert(n, ht, qc)
	}
	h.compareState(nodes, fmt.Sprintf("height %d", ht))
	// transaction results: identical on every node; dropped transactions are nowhere
	for _, tx := range blk.Transactions {
		hash := crypto.Hash(tx)
		var ref []byte
		for _, n := range nodes {
			h.sim.Activate(n)
			r, e := n.Store.GetTxByHash(hash)
			if e != nil || r == nil || r.TxHash == "" {
				h.fatalf("VIOLATION C03: %s does not index included transaction %x", n.Name, hash)
			}
			bz := mustMarshal(r)
			if ref == nil {
				ref = bz
			} else if !bytes.Equal(ref, bz) {
				h.fatalf("VIOLATION C03: transaction result of %x differs between %s and %s", hash, nodes[0].Name, n.Name)
			}
		}
	}
	for _, tx := range failed {
		for _, n := range nodes {
			h.sim.Activate(n)
			if r, _ := n.Store.GetTxByHash(crypto.Hash(tx)); r != nil && r.TxHash != "" && r.Height == ht {
				h.fatalf("VIOLATION C03: %s indexes a transaction the proposer dropped", n.Name)
			}
		}
	}
	return true
}

// compareCert: the certificate a node has indexed for the height is byte-identical to the certified one
func (h *hist) compareCert(n *nodesim.Node, ht uint64, certified *lib.QuorumCertificate) {
	got, e := n.Serve(ht)
	if e != nil {
		h.fatalf("VIOLATION C03: %s cannot load the certificate of height %d: %v", n.Name, ht, e)
	}
	if got.Results == nil || !bytes.Equal(got.Results.Hash(), got.ResultsHash) {
		h.fatalf("VIOLATION C03 (finding 4.8 class): %s indexed a certificate for height %d whose results do not hash to its results hash\nindexed results: %v\ncertified results: %v", n.Name, ht, got.Results, certified.Results)
	}
	if !bytes.Equal(qcCore(got), qcCore(certified)) {
		h.fatalf("VIOLATION C03: the certificate %s indexed for height %d is not byte-identical to the certified one\nindexed:   %v\ncertified: %v", n.Name, ht, got, certified)
	}
	if !bytes.Equal(got.Block, certified.Block) {
		h.fatalf("VIOLATION C03/C11: the block %s serves for height %d is not byte-identical to the certified block", n.Name, ht)
	}
}

// compareState: headers byte-identical, state scans identical, state root == reference root over the scan
func (h *hist) compareState(nodes []*nodesim.Node, when string) {
	var refHdr []byte
	var refScan string
	for _, n := range nodes {
		hd := n.LastHeader()
		if hd == nil {
			h.fatalf("%s has no last header %s", n.Name, when)
		}
		bz := mustMarshal(hd)
		sc, err := n.CommittedScan()
		if err != nil {
			h.fatalf("scan %s: %v", n.Name, err)
		}
		ws, err := n.Scan()
		if err != nil {
			h.fatalf("scan %s: %v", n.Name, err)
		}
		dg := nodesim.ScanDigest(sc)
		if nodesim.ScanDigest(ws) != dg {
			h.fatalf("VIOLATION C03/C07: %s has uncommitted writes in its working state %s", n.Name, when)
		}
		if root := storemodel.Root(sc); !bytes.Equal(root, hd.StateRoot) {
			h.fatalf("VIOLATION C03/C08: %s state root %x != reference root %x over its full state scan (%s)", n.Name, hd.StateRoot, root, when)
		}
		if refHdr == nil {
			refHdr, refScan = bz, dg
			continue
		}
		if !bytes.Equal(refHdr, bz) {
			h.fatalf("VIOLATION C03: header of %s differs from %s %s:\n%v", n.Name, nodes[0].Name, when, diffHeaders(nodes[0].LastHeader(), hd))
		}
		if refScan != dg {
			h.fatalf("VIOLATION C03: full state of %s differs from %s %s", n.Name, nodes[0].Name, when)
		}
	}
}

func diffHeaders(a, b *lib.BlockHeader) string {
	var out []string
	add := func(name string, x, y []byte) {
		if !bytes.Equal(x, y) {
			out = append(out, fmt.Sprintf("%s: %x vs %x", name, x, y))
		}
	}
	add("hash", a.Hash, b.Hash)
	add("stateRoot", a.StateRoot, b.StateRoot)
	add("txRoot", a.TransactionRoot, b.TransactionRoot)
	add("validatorRoot", a.ValidatorRoot, b.ValidatorRoot)
	add("nextValidatorRoot", a.NextValidatorRoot, b.NextValidatorRoot)
	add("lastBlockHash", a.LastBlockHash, b.LastBlockHash)
	if a.NumTxs != b.NumTxs || a.TotalTxs != b.TotalTxs {
		out = append(out, fmt.Sprintf("counters: %d/%d vs %d/%d", a.NumTxs, a.TotalTxs, b.NumTxs, b.TotalTxs))
	}
	sort.Strings(out)
	return strings.Join(out, "\n")
}

// poolList renders a node's mempool in its proposal order
func poolList(n *nodesim.Node) string {
	n.Sim.Activate(n)
	var sb strings.Builder
	for _, tx := range n.C.Mempool.GetTransactions(math.MaxUint64) {
		sb.WriteString(crypto.HashString(tx)[:10])
		sb.WriteByte(',')
	}
	return sb.String()
}

// clipLines shortens every line of a failure message (rapid fail files must stay below 64 KiB per line to be loadable)
func clipLines(s string, max int) string {
	lines := strings.Split(s, "\n")
	for i, l := range lines {
		if len(l) > max {
			lines[i] = l[:max] + fmt.Sprintf("...(+%d bytes)", len(l)-max)
		}
	}
	return strings.Join(lines, "\n")
}
