package c03

import (
	"bytes"
	"crypto/ed25519"
	"crypto/sha512"
	"encoding/hex"
	"fmt"
	"math/big"
	"testing"

	"filippo.io/edwards25519"
	"github.com/canopy-network/canopy/lib/crypto"
	"pgregory.net/rapid"

	"verif/h/ev"
	"verif/h/keys"
)

// signature-path agreement: the verdict on a (key, message, signature) triple must not depend on HOW it is verified -
// alone, through the batch verifier, next to which neighbours, with which signature-cache content. Block validity would
// otherwise depend on the other transactions of the block and on a node-local 5-minute cache.

const ff30 = "ffffffffffffffffffffffffffffffffffffffffffffffffffffffffffff"

// known small-order points of edwards25519 (order in comment) and non-canonical encodings
var smallOrder = []string{
	"0100000000000000000000000000000000000000000000000000000000000000", // 1
	"ec" + ff30 + "7f", // 2
	"0000000000000000000000000000000000000000000000000000000000000000", // 4
	"0000000000000000000000000000000000000000000000000000000000000080", // 4
	"26e8958fc2b227b045c3f489f2ef98f0d5dfac05d3c63339b13802886d53fc05", // 8
	"26e8958fc2b227b045c3f489f2ef98f0d5dfac05d3c63339b13802886d53fc85", // 8
	"c7176a703d4dd84fba3c0b760d10670f2a2053fa2c39ccc64ec7fd7792ac037a", // 8
	"c7176a703d4dd84fba3c0b760d10670f2a2053fa2c39ccc64ec7fd7792ac03fa", // 8
}
var nonCanonical = []string{
	"0100000000000000000000000000000000000000000000000000000000000080", // identity with the sign bit set
	"ee" + ff30 + "7f", // y = p+1
	"ed" + ff30 + "7f", // y = p
	"ed" + ff30 + "ff", // y = p, sign bit
}

func unhex(s string) []byte { b, _ := hex.DecodeString(s); return b }

// edSecret expands an ed25519 seed like RFC 8032: scalar a, prefix, public key A
func edSecret(seed []byte) (a *edwards25519.Scalar, prefix []byte, A []byte) {
	h := sha512.Sum512(seed)
	a, _ = edwards25519.NewScalar().SetBytesWithClamping(h[:32])
	return a, h[32:], new(edwards25519.Point).ScalarBaseMult(a).Bytes()
}

func scalarOf(parts ...[]byte) *edwards25519.Scalar {
	h := sha512.New()
	for _, p := range parts {
		h.Write(p)
	}
	s, _ := edwards25519.NewScalar().SetUniformBytes(h.Sum(nil))
	return s
}

// edSignTorsion signs msg like ed25519 but adds the small-order point T to R (T == nil: standard signature)
func edSignTorsion(seed, msg []byte, T *edwards25519.Point) (pub, sig []byte) {
	a, prefix, A := edSecret(seed)
	r := scalarOf(prefix, msg)
	R := new(edwards25519.Point).ScalarBaseMult(r)
	if T != nil {
		R.Add(R, T)
	}
	Rb := R.Bytes()
	k := scalarOf(Rb, A, msg)
	S := edwards25519.NewScalar().MultiplyAdd(k, a, r)
	return A, append(append([]byte{}, Rb...), S.Bytes()...)
}

// edForgeSmallOrderKey makes a "signature" for a small-order public key A: R = rB (+T), S = r; holds under cofactored verification
func edForgeSmallOrderKey(A, msg []byte, T *edwards25519.Point) (sig []byte) {
	r := scalarOf([]byte("forge"), A, msg)
	R := new(edwards25519.Point).ScalarBaseMult(r)
	if T != nil {
		R.Add(R, T)
	}
	return append(append([]byte{}, R.Bytes()...), r.Bytes()...)
}

var edL, _ = new(big.Int).SetString("7237005577332262213973186563042994240857116359379907606001950938285454250989", 10)
var secpN, _ = new(big.Int).SetString("fffffffffffffffffffffffffffffffebaaedce6af48a03bbfd25e8cd0364141", 16)

func leBig(b []byte) *big.Int {
	r := make([]byte, len(b))
	for i := range b {
		r[len(b)-1-i] = b[i]
	}
	return new(big.Int).SetBytes(r)
}
func bigLE(x *big.Int, n int) []byte {
	be := x.FillBytes(make([]byte, n))
	for i, j := 0, n-1; i < j; i, j = i+1, j-1 {
		be[i], be[j] = be[j], be[i]
	}
	return be
}

type triple struct {
	kind        string
	pk          crypto.PublicKeyI
	pkBytes     []byte
	msg, sig    []byte
	adversarial bool
}

func edSeed(i int) []byte { return keys.Ed(i).Bytes()[:32] }

var tripleKinds = []string{"ed-honest", "ed-flip-sig", "ed-flip-msg", "ed-wrong-key", "ed-torsion-R", "ed-torsion-R", "ed-torsion-R", "ed-smallorder-A", "ed-noncanonical-A", "ed-S-plus-L",
	"ed-noncanonical-R", "secp-honest", "secp-highS", "secp-flip", "eth-honest", "eth-65byte-key", "eth-highS", "bls-honest", "bls-flip"}

func genTriple(t *rapid.T) triple {
	kind := rapid.SampledFrom(tripleKinds).Draw(t, "tripleKind")
	msg := rapid.SliceOfN(rapid.Byte(), 0, 80).Draw(t, "msg")
	ki := rapid.IntRange(0, 7).Draw(t, "key")
	tr := triple{kind: kind, msg: msg}
	setEd := func(pub []byte) { tr.pk, tr.pkBytes = crypto.NewPublicKeyED25519(ed25519.PublicKey(pub)), pub }
	switch kind {
	case "ed-honest", "ed-flip-sig", "ed-flip-msg", "ed-wrong-key", "ed-S-plus-L":
		k := keys.Ed(ki)
		setEd(k.PublicKey().Bytes())
		tr.sig = k.Sign(msg)
		switch kind {
		case "ed-flip-sig":
			tr.sig = append([]byte{}, tr.sig...)
			tr.sig[rapid.IntRange(0, 63).Draw(t, "i")] ^= 1 << uint(rapid.IntRange(0, 7).Draw(t, "bit"))
		case "ed-flip-msg":
			tr.msg = append(append([]byte{}, msg...), 1)
		case "ed-wrong-key":
			setEd(keys.Ed(ki + 8).PublicKey().Bytes())
		case "ed-S-plus-L":
			// S' = S + L: same group element, non-canonical scalar (malleability)
			S := new(big.Int).Add(leBig(tr.sig[32:]), edL)
			tr.sig = append(append([]byte{}, tr.sig[:32]...), bigLE(S, 32)...)
			tr.adversarial = true
		}
	case "ed-torsion-R":
		T, err := new(edwards25519.Point).SetBytes(unhex(smallOrder[rapid.IntRange(1, len(smallOrder)-1).Draw(t, "T")]))
		if err != nil {
			t.Fatalf("bad torsion constant: %v", err)
		}
		pub, sig := edSignTorsion(edSeed(ki), msg, T)
		setEd(pub)
		tr.sig, tr.adversarial = sig, true
	case "ed-smallorder-A":
		A := unhex(smallOrder[rapid.IntRange(0, len(smallOrder)-1).Draw(t, "A")])
		setEd(A)
		var T *edwards25519.Point
		if rapid.Bool().Draw(t, "withT") {
			T, _ = new(edwards25519.Point).SetBytes(unhex(smallOrder[rapid.IntRange(1, len(smallOrder)-1).Draw(t, "T")]))
		}
		tr.sig, tr.adversarial = edForgeSmallOrderKey(A, msg, T), true
	case "ed-noncanonical-A":
		A := unhex(nonCanonical[rapid.IntRange(0, len(nonCanonical)-1).Draw(t, "A")])
		setEd(A)
		tr.sig, tr.adversarial = edForgeSmallOrderKey(A, msg, nil), true
	case "ed-noncanonical-R":
		// honest key, R replaced by a non-canonical encoding of a small-order point, S = k*a (so that S*B = R + kA holds for R = identity)
		a, _, A := edSecret(edSeed(ki))
		setEd(A)
		Rb := unhex(nonCanonical[rapid.IntRange(0, len(nonCanonical)-1).Draw(t, "R")])
		k := scalarOf(Rb, A, msg)
		S := edwards25519.NewScalar().Multiply(k, a)
		tr.sig, tr.adversarial = append(append([]byte{}, Rb...), S.Bytes()...), true
	case "secp-honest", "secp-highS", "secp-flip":
		k := keys.Secp(ki)
		tr.pk, tr.pkBytes, tr.sig = k.PublicKey(), k.PublicKey().Bytes(), k.Sign(msg)
		if kind == "secp-highS" && len(tr.sig) >= 64 {
			s := new(big.Int).Sub(secpN, new(big.Int).SetBytes(tr.sig[32:64]))
			tr.sig = append(append(append([]byte{}, tr.sig[:32]...), s.FillBytes(make([]byte, 32))...), tr.sig[64:]...)
			tr.adversarial = true
		}
		if kind == "secp-flip" {
			tr.sig = append([]byte{}, tr.sig...)
			tr.sig[rapid.IntRange(0, len(tr.sig)-1).Draw(t, "i")] ^= 0x20
		}
	case "eth-honest", "eth-65byte-key", "eth-highS":
		k := keys.Eth(ki)
		tr.pk, tr.pkBytes, tr.sig = k.PublicKey(), k.PublicKey().Bytes(), k.Sign(msg)
		if kind == "eth-65byte-key" {
			b65 := append([]byte{4}, k.PublicKey().Bytes()...)
			pk, err := crypto.NewPublicKeyFromBytes(b65)
			if err != nil {
				t.Fatalf("65-byte eth key refused: %v", err)
			}
			tr.pk, tr.pkBytes, tr.adversarial = pk, b65, true
		}
		if kind == "eth-highS" && len(tr.sig) >= 64 {
			s := new(big.Int).Sub(secpN, new(big.Int).SetBytes(tr.sig[32:64]))
			tr.sig = append(append(append([]byte{}, tr.sig[:32]...), s.FillBytes(make([]byte, 32))...), tr.sig[64:]...)
			tr.adversarial = true
		}
	case "bls-honest", "bls-flip":
		k := keys.BLS(ki)
		tr.pk, tr.pkBytes, tr.sig = k.PublicKey(), k.PublicKey().Bytes(), k.Sign(msg)
		if kind == "bls-flip" {
			tr.msg = append(append([]byte{}, msg...), 7)
		}
	}
	return tr
}

// neighbour of the same key family for the batch paths
func neighbour(tr triple, valid bool, n int) triple {
	msg := []byte(fmt.Sprintf("neighbour-%d", n))
	var nb triple
	switch tr.pk.(type) {
	case *crypto.ED25519PublicKey:
		k := keys.Ed(100 + n)
		nb = triple{pk: k.PublicKey(), pkBytes: k.PublicKey().Bytes(), msg: msg, sig: k.Sign(msg)}
	case *crypto.SECP256K1PublicKey:
		k := keys.Secp(100 + n)
		nb = triple{pk: k.PublicKey(), pkBytes: k.PublicKey().Bytes(), msg: msg, sig: k.Sign(msg)}
	case *crypto.ETHSECP256K1PublicKey:
		k := keys.Eth(100 + n)
		nb = triple{pk: k.PublicKey(), pkBytes: k.PublicKey().Bytes(), msg: msg, sig: k.Sign(msg)}
	default:
		k := keys.BLS(10 + n%4)
		nb = triple{pk: k.PublicKey(), pkBytes: k.PublicKey().Bytes(), msg: msg, sig: k.Sign(msg)}
	}
	if !valid {
		nb.msg = append(nb.msg, 'x')
	}
	return nb
}

// batchVerdict: verdict on the target (added first, batch index 0) when verified in a batch together with `others`;
// others[k] gets batch index k+1; index 8 shares the target's shard (idx mod 8)
func batchVerdict(tr triple, others []triple) (bool, error) {
	crypto.SignatureCache.Reset()
	b := crypto.NewBatchVerifier()
	if err := b.Add(tr.pk, tr.pkBytes, tr.msg, tr.sig); err != nil {
		return false, err
	}
	for _, o := range others {
		if err := b.Add(o.pk, o.pkBytes, o.msg, o.sig); err != nil {
			return false, err
		}
	}
	for _, bad := range b.Verify() {
		if bad == 0 {
			return false, nil
		}
	}
	return true, nil
}

func fillers(tr triple, lastValid bool) []triple {
	var out []triple
	for i := 1; i <= 7; i++ {
		out = append(out, neighbour(tr, true, i)) // other shards
	}
	return append(out, neighbour(tr, lastValid, 8)) // same shard as the target
}

// sigPathVerdicts evaluates the five paths
func sigPathVerdicts(tr triple) (v [5]bool, names [5]string, err error) {
	names = [5]string{"single/cold", "single/warm-cache", "batch/alone", "batch/valid-neighbour", "batch/invalid-neighbour-same-shard"}
	crypto.SignatureCache.Reset()
	v[0] = tr.pk.VerifyBytes(tr.msg, tr.sig)
	if v[2], err = batchVerdict(tr, nil); err != nil {
		return
	}
	// warm: the cache holds whatever the batch run above considered valid
	v[1] = tr.pk.VerifyBytes(tr.msg, tr.sig)
	if v[3], err = batchVerdict(tr, fillers(tr, true)); err != nil {
		return
	}
	v[4], err = batchVerdict(tr, fillers(tr, false))
	crypto.SignatureCache.Reset()
	return
}

func TestC03SigPaths(t *testing.T) {
	rec := ev.New(t, "C03")
	rapid.Check(t, func(t *rapid.T) {
		cs := rec.Case()
		tr := genTriple(t)
		cs.Class("triple=" + tr.kind)
		cs.Desc("%s pk=%x msg=%x sig=%x", tr.kind, tr.pkBytes, tr.msg, tr.sig)
		v, names, err := sigPathVerdicts(tr)
		if err != nil {
			t.Fatalf("batch add failed for %s: %v", tr.kind, err)
		}
		any := false
		for i := range v {
			any = any || v[i]
			if v[i] != v[0] {
				t.Fatalf("VIOLATION C03 (signature-path agreement): %s: %s=%v but %s=%v\npk=%x\nmsg=%x\nsig=%x\nall=%v", tr.kind, names[0], v[0], names[i], v[i], tr.pkBytes, tr.msg, tr.sig, v)
			}
		}
		cs.ClassIf(any, "verdict=valid")
		cs.ClassIf(!any, "verdict=invalid")
		cs.ClassIf(any && tr.adversarial, "adversarial-accepted-consistently:"+tr.kind)
		cs.Done(any || tr.adversarial)
	})
}

// TestC03Reg_Ed25519TorsionPaths: finding 4.6 - an ed25519 signature with an 8-torsion component in R was invalid when
// verified alone, valid in a batch (then cached as valid), invalid again next to a bad signature in the same batch shard.
func TestC03Reg_Ed25519TorsionPaths(t *testing.T) {
	msg := []byte("C03 torsion regression")
	for ti := 1; ti < len(smallOrder); ti++ {
		T, err := new(edwards25519.Point).SetBytes(unhex(smallOrder[ti]))
		if err != nil {
			t.Fatal(err)
		}
		if new(edwards25519.Point).MultByCofactor(T).Equal(edwards25519.NewIdentityPoint()) != 1 {
			t.Fatalf("constant %d is not a small-order point", ti)
		}
		pub, sig := edSignTorsion(edSeed(1), msg, T)
		// sanity: the standard signature of the same key verifies everywhere
		hp, hs := edSignTorsion(edSeed(1), msg, nil)
		if !bytes.Equal(hp, pub) || !ed25519.Verify(ed25519.PublicKey(hp), msg, hs) {
			t.Fatalf("custom signing is broken")
		}
		tr := triple{kind: "ed-torsion-R", pk: crypto.NewPublicKeyED25519(ed25519.PublicKey(pub)), pkBytes: pub, msg: msg, sig: sig}
		v, names, err := sigPathVerdicts(tr)
		if err != nil {
			t.Fatal(err)
		}
		for i := range v {
			if v[i] != v[0] {
				t.Fatalf("ed25519 verdict depends on the verification path (torsion point #%d): %s=%v %s=%v (all: %v)", ti, names[0], v[0], names[i], v[i], v)
			}
		}
	}
}
