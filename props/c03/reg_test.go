package c03

import (
	"bytes"
	"testing"

	"github.com/canopy-network/canopy/fsm"
	"github.com/canopy-network/canopy/lib"

	"verif/h/chainsim"
	"verif/h/keys"
	"verif/h/nodesim"
)

// TestC03Reg_ReplayIndexesCertifiedQC: finding 4.8 - on a nested chain whose root DEX batch is EMPTY, a node that commits
// a certified block WITHOUT having validated the proposal first (HandlePeerBlock -> CommitCertificate(blockResult=nil))
// executed the block with qc.Results.RootDexBatch itself in the FSM cache; DexBatch.Hash() wrote the empty-receipt marker
// into it, and the certificate the node then indexed (and gossips, and embeds as LastQuorumCertificate of its next
// proposal) no longer hashed to its ResultsHash. Nodes that validated first were unaffected: path dependence.
func TestC03Reg_ReplayIndexesCertifiedQC(t *testing.T) {
	s := nodesim.NewSim()
	defer s.Close()
	ring := nodesim.NewKeyRing(4)
	vals := []chainsim.ValSpec{{Key: 0, OutputKey: -1, Stake: 1000}, {Key: 1, OutputKey: -1, Stake: 2000}, {Key: 2, OutputKey: -1, Stake: 3000}}
	accts := []chainsim.AcctSpec{{Kind: 1, Key: 0, Amount: 1_000_000_000}}
	rg, ng := nodesim.TwoChainGenesis(vals, accts, true, nil) // liquidity pools exist, no dex operations: root batch present and empty
	mk := func(name string, k int, chain uint64, g *fsm.GenesisState, root *nodesim.Node) *nodesim.Node {
		n, err := s.NewNode(nodesim.NodeOpts{Name: name, ChainID: chain, Genesis: g, Key: keys.BLS(k), Root: root})
		if err != nil {
			t.Fatal(err)
		}
		return n
	}
	ra := mk("RA", 0, 1, rg, nil)
	na, nb := mk("NA", 0, 2, ng, ra), mk("NB", 1, 2, ng, ra)
	for _, n := range []*nodesim.Node{na, nb} {
		n.RC.CacheDex = false // every query decodes a fresh object: the certified results then carry NO receipt marker
	}
	nest := &nodesim.Group{Sim: s, Ring: ring, Nodes: []*nodesim.Node{na, nb}}
	for h := 1; h <= 2; h++ {
		// NA validates first (cached result), NB commits the gossiped certificate without validating (replay)
		r, err := nest.Step(nodesim.StepOpts{Proposer: 0, Paths: map[int]nodesim.Path{1: nodesim.PathReplay}})
		if err != nil || !r.OK() {
			t.Fatalf("nested height %d: %v %v", h, err, r.Err())
		}
		if r.QC.Results.RootDexBatch == nil || !r.QC.Results.RootDexBatch.IsEmpty() {
			t.Fatalf("scenario lost: root dex batch expected present and empty, got %v", r.QC.Results.RootDexBatch)
		}
		for _, n := range nest.Nodes {
			got, e := n.Serve(r.Height)
			if e != nil {
				t.Fatal(e)
			}
			if !bytes.Equal(got.Results.Hash(), got.ResultsHash) {
				t.Fatalf("%s (height %d) indexed a certificate whose results do not hash to its ResultsHash:\nindexed   %v\ncertified %v", n.Name, r.Height, got.Results, r.QC.Results)
			}
			if !bytes.Equal(qcCore(got), qcCore(r.QC)) {
				t.Fatalf("%s (height %d) indexed certificate differs from the certified bytes", n.Name, r.Height)
			}
		}
	}
	// consequence in the original defect: the next proposal NB builds embeds the damaged certificate and is rejected by NA
	p, e := nb.Produce()
	if e != nil {
		t.Fatalf("NB cannot propose: %v", e)
	}
	qc := nodesim.NewQC(p, nb.ViewFor(lib.Phase_PRECOMMIT_VOTE, 0), nb.C.PublicKey)
	vs, _ := nb.Committee(qc.Header.RootHeight)
	if err := nodesim.Sign(qc, vs, ring, nodesim.AllSigners(vs)); err != nil {
		t.Fatal(err)
	}
	if _, e = na.Validate(p.RcBuildHeight, qc); e != nil {
		t.Fatalf("NA rejects the proposal NB built after a replayed commit: %v", e)
	}
}
