// Package c13 decides property C13: committee derivation and voting power.
package c13

import (
	"bytes"
	"fmt"
	"math/big"
	"sort"
	"strings"
	"testing"

	"github.com/canopy-network/canopy/fsm"
	"github.com/canopy-network/canopy/lib"
	"pgregory.net/rapid"

	cs "verif/h/chainsim"
	"verif/h/ev"
)

// answer is a comparable rendering of a validator set (or of "no such set").
type answer struct {
	Err     bool
	Members []string // "pubkeyhex:power" in the order returned
	Total   uint64
	Maj23   uint64
	N       uint64
}

func (a answer) String() string {
	if a.Err {
		return "<no validators>"
	}
	short := make([]string, len(a.Members))
	for i, m := range a.Members {
		short[i] = m[:8] + m[strings.IndexByte(m, ':'):]
	}
	return fmt.Sprintf("[%s] total=%d maj23=%d n=%d", strings.Join(short, " "), a.Total, a.Maj23, a.N)
}

func (a answer) equal(b answer) bool {
	return a.String() == b.String() && fmt.Sprint(a.Members) == fmt.Sprint(b.Members)
}

func fromVS(vs lib.ValidatorSet, err lib.ErrorI) answer {
	if err != nil {
		return answer{Err: true}
	}
	a := answer{Total: vs.TotalPower, Maj23: vs.MinimumMaj23, N: vs.NumValidators}
	for _, m := range vs.ValidatorSet.ValidatorSet {
		a.Members = append(a.Members, fmt.Sprintf("%x:%d", m.PublicKey, m.VotingPower))
	}
	return a
}

// reference derives the set from a raw validator scan: filter (committee contains id, delegate flag, not paused, not
// unstaking), sort by stake descending, ties by address descending (the order the code documents: "sort by highest stake
// then address", properties.jsonl: "(stake desc, address desc)"), cap (0 = unlimited), power = stake, T = Σ,
// maj23 = floor(2T/3)+1 in big integers. A set of total power 0 does not exist (NewValidatorSet: ErrNoValidators).
func reference(fs *cs.FullState, chain uint64, delegate bool) (answer, bool) {
	var sel []*fsm.Validator
	for _, a := range fs.ValOrder {
		v := fs.Validators[a]
		if v.Delegate != delegate || v.MaxPausedHeight != 0 || v.UnstakingHeight != 0 {
			continue
		}
		listed := false
		for _, c := range v.Committees {
			listed = listed || c == chain
		}
		if listed {
			sel = append(sel, v)
		}
	}
	sort.SliceStable(sel, func(i, j int) bool {
		if sel[i].StakedAmount != sel[j].StakedAmount {
			return sel[i].StakedAmount > sel[j].StakedAmount
		}
		return bytes.Compare(sel[i].Address, sel[j].Address) > 0
	})
	capN := fs.ValParams.MaxCommitteeSize
	if delegate {
		capN = fs.ValParams.MaximumDelegatesPerCommittee
	}
	tieAtCap := false
	if capN > 0 && uint64(len(sel)) > capN {
		tieAtCap = sel[capN-1].StakedAmount == sel[capN].StakedAmount
		sel = sel[:capN]
	}
	total := new(big.Int)
	a := answer{N: uint64(len(sel))}
	for _, v := range sel {
		a.Members = append(a.Members, fmt.Sprintf("%x:%d", v.PublicKey, v.StakedAmount))
		total.Add(total, cs.Big(v.StakedAmount))
	}
	if total.Sign() == 0 {
		return answer{Err: true}, tieAtCap
	}
	if !total.IsUint64() {
		panic("total power exceeds uint64: impossible while the supply fits")
	}
	a.Total = total.Uint64()
	maj := new(big.Int).Mul(total, big.NewInt(2))
	maj.Div(maj, big.NewInt(3)).Add(maj, big.NewInt(1))
	a.Maj23 = maj.Uint64() // <= T, fits
	return a, tieAtCap
}

// explain says what kind of difference there is between an answer and the reference.
func explain(got, want answer) string {
	if got.Err != want.Err {
		return "existence differs"
	}
	g, w := append([]string(nil), got.Members...), append([]string(nil), want.Members...)
	sort.Strings(g)
	sort.Strings(w)
	switch {
	case fmt.Sprint(g) != fmt.Sprint(w):
		return "MEMBERSHIP/POWER differs"
	case fmt.Sprint(got.Members) != fmt.Sprint(want.Members):
		return "same members, ORDER differs from the documented (stake desc, address desc)"
	case got.Total != want.Total:
		return "TotalPower differs"
	case got.Maj23 != want.Maj23:
		return "MinimumMaj23 differs from floor(2T/3)+1"
	default:
		return "NumValidators differs"
	}
}

var chains = []uint64{1, 2, 3}

type key struct {
	H        uint64
	Chain    uint64
	Delegate bool
}

// population builds the world options: the generated validator population of the genesis.
func population(src cs.Src, c *ev.Case, bigOK bool) cs.WorldOpts {
	o := cs.WorldOpts{KeyPool: 14, CommitteeParamWeight: 5}
	n := src.Int("popN", 2, 10)
	common := uint64(src.Int("common", 1, 50))
	pattern := src.Int("pattern", 0, 4) // 0 all equal, 1 two levels, 2 distinct, 3 mixed small, 4 with zero stakes
	switch src.Int("pillar", 0, 3) {
	case 0:
		o.PillarStake = common // pillars tie with the crowd
	case 1:
		if bigOK {
			o.PillarStake = 1 << 62 // total power >= 2^63 with two pillars
			c.Class("population: total power >= 2^63")
		}
	}
	paused, unstaking := map[int]uint64{}, map[int]uint64{}
	for i := 0; i < n; i++ {
		v := cs.ValSpec{Key: 2 + i, OutputKey: -1}
		switch pattern {
		case 0:
			v.Stake = common
		case 1:
			v.Stake = common + uint64(src.Int("lvl", 0, 1))
		case 2:
			v.Stake = common + uint64(i)
		case 3:
			v.Stake = uint64(src.Int("stk", 1, 4))
		default:
			v.Stake = uint64(src.Int("stk0", 0, 2))
		}
		v.Delegate = src.Int("deleg", 0, 9) < 3
		switch src.Int("cmt", 0, 3) {
		case 0, 1:
			v.Committees = []uint64{1}
		case 2:
			v.Committees = []uint64{2, 1}
		default:
			v.Committees = []uint64{1, 2, 3}
		}
		switch src.Int("status", 0, 9) {
		case 0:
			if !v.Delegate {
				paused[2+i] = uint64(src.Int("mph", 3, 9))
			}
		case 1:
			unstaking[2+i] = uint64(src.Int("ush", 3, 9))
		}
		o.Vals = append(o.Vals, v)
	}
	// one record whose stake is >= 2^63 next to small ones (differences >= 2^63 between eligible records); the pillars stay
	// small then so that the supply fits into uint64
	if bigOK && o.PillarStake < 1<<62 && src.Int("huge", 0, 3) == 0 {
		hv := cs.ValSpec{Key: 2 + n, OutputKey: -1, Stake: []uint64{1 << 63, 1<<63 + 5, 1<<64 - 1<<50}[src.Int("hugestake", 0, 2)],
			Delegate: src.Int("hugedeleg", 0, 3) == 0, Committees: [][]uint64{{1}, {1, 2, 3}}[src.Int("hugecmt", 0, 1)]}
		o.Vals = append(o.Vals, hv)
		n++
		c.Class("population: one stake >= 2^63 next to small ones")
	}
	p := cs.StakingParams()
	total := uint64(n + 2)
	caps := append([]uint64{1, 2, 3, max(total/2, 1), total - 1, total, total + 1, 100}, cs.HugeCaps...)
	p.Validator.MaxCommitteeSize = caps[src.Int("cap", 0, len(caps)-1)]
	dcaps := append([]uint64{0, 0, 1, 2, 3}, cs.HugeCaps...)
	p.Validator.MaximumDelegatesPerCommittee = dcaps[src.Int("dcap", 0, len(dcaps)-1)]
	c.ClassIf(p.Validator.MaxCommitteeSize >= 1<<31 || p.Validator.MaximumDelegatesPerCommittee >= 1<<31, "population: cap >= 2^31 ('no cap')")
	o.Params = p
	o.MutateGen = func(g *fsm.GenesisState) {
		for _, v := range g.Validators {
			for k, h := range paused {
				if bytes.Equal(v.Address, cs.Addr(cs.OpKey(k))) {
					v.MaxPausedHeight = h
				}
			}
			for k, h := range unstaking {
				if bytes.Equal(v.Address, cs.Addr(cs.OpKey(k))) {
					v.UnstakingHeight = h
				}
			}
		}
	}
	c.Class(fmt.Sprintf("population: stake pattern %d", pattern))
	c.ClassIf(len(paused) > 0, "population: paused at genesis")
	c.ClassIf(len(unstaking) > 0, "population: unstaking at genesis")
	c.ClassIf(p.Validator.MaximumDelegatesPerCommittee == 0, "population: delegate cap 0 (unlimited)")
	c.ClassIf(p.Validator.MaxCommitteeSize < total, "population: more validators than MaxCommitteeSize")
	c.Desc("pop n=%d pattern=%d common=%d pillar=%d cap=%d dcap=%d paused=%v unstaking=%v", n, pattern, common, o.PillarStake, p.Validator.MaxCommitteeSize,
		p.Validator.MaximumDelegatesPerCommittee, paused, unstaking)
	for _, v := range o.Vals {
		c.Desc("v%d:%d%s%v", v.Key, v.Stake, map[bool]string{true: "d", false: "v"}[v.Delegate], v.Committees)
	}
	return o
}

type view struct {
	sm *fsm.StateMachine
	h  uint64 // the height the view shows
	at uint64 // chain height when it was created
}

func TestC13Committee(t *testing.T) {
	rec := ev.New(t, "C13")
	rapid.Check(t, func(rt *rapid.T) {
		c := rec.Case()
		src := cs.Rapid(rt)
		bigOK := !ev.Open("KF-C13-maj23-overflow")
		if !bigOK {
			rec.Exclude("KF-C13-maj23-overflow")
		}
		opts := population(src, c, bigOK)
		w, err := cs.NewWorld(src, opts)
		if err != nil {
			rt.Fatalf("world: %v", err)
		}
		defer w.Close()
		long := src.Int("long", 0, 3) == 0
		nblocks := src.Int("nblocks", 6, 16)
		if long {
			nblocks = src.Int("nblocksLong", 66, 72)
			w.Opts.MaxTxs = 2
		}
		twin := !long && src.Int("twin", 0, 2) == 0
		var specs []cs.BlockSpec

		refs := map[key]answer{}
		first := map[key]answer{}
		var views []*view
		defer func() {
			for _, v := range views {
				v.sm.Discard()
			}
		}()
		tieAtCap, reasked, queries := false, 0, 0
		changedSince := map[uint64]bool{} // heights whose population differs from the next height's

		record := func() {
			fs, err := w.C.FullState()
			if err != nil {
				rt.Fatalf("scan: %v", err)
			}
			h := w.C.Height()
			for _, ch := range chains {
				for _, d := range []bool{false, true} {
					a, tie := reference(fs, ch, d)
					refs[key{h, ch, d}] = a
					tieAtCap = tieAtCap || tie
				}
			}
			if h > 1 {
				for _, ch := range chains {
					for _, d := range []bool{false, true} {
						if !refs[key{h, ch, d}].equal(refs[key{h - 1, ch, d}]) {
							changedSince[h-1] = true
						}
					}
				}
			}
		}
		check := func(k key, via string, got answer) {
			queries++
			want, ok := refs[k]
			if !ok {
				rt.Fatalf("no reference for %+v", k)
			}
			if !got.equal(want) {
				rt.Fatalf("%s for chain %d height %d delegates=%v (asked when the chain was at height %d): %s\n got  %v\n want %v\nhistory:\n%s",
					via, k.Chain, k.H, k.Delegate, w.C.Height(), explain(got, want), got, want, w.HistoryString())
			}
			if f, seen := first[k]; seen {
				reasked++
				if !f.equal(got) {
					rt.Fatalf("%s: the answer for chain %d height %d changed when asked again: first %v now %v", via, k.Chain, k.H, f, got)
				}
			} else {
				first[k] = got
			}
		}
		ask := func(kind int, h uint64, ch uint64, d bool) {
			sm := w.C.FSM
			switch kind {
			case 0: // LoadCommittee from the live state machine (validators only)
				check(key{h, ch, false}, "LoadCommittee", fromVS(sm.LoadCommittee(ch, h)))
			case 1: // fresh TimeMachine view
				tm, e := sm.TimeMachine(h)
				if e != nil {
					rt.Fatalf("TimeMachine(%d): %v", h, e)
				}
				if d {
					check(key{h, ch, true}, "TimeMachine.GetDelegates", fromVS(tm.GetDelegates(ch)))
				} else {
					check(key{h, ch, false}, "TimeMachine.GetCommitteeMembers", fromVS(tm.GetCommitteeMembers(ch)))
				}
				tm.Discard()
			case 2: // from a copy of the state machine (what the mempool uses; shares the validator cache)
				cp, e := sm.Copy()
				if e != nil {
					rt.Fatalf("Copy: %v", e)
				}
				if d {
					tm, e := cp.TimeMachine(h)
					if e != nil {
						rt.Fatalf("copy.TimeMachine(%d): %v", h, e)
					}
					check(key{h, ch, true}, "Copy.TimeMachine.GetDelegates", fromVS(tm.GetDelegates(ch)))
					tm.Discard()
				} else {
					check(key{h, ch, false}, "Copy.LoadCommittee", fromVS(cp.LoadCommittee(ch, h)))
				}
				cp.Discard()
			case 3: // live state machine, current height
				cur := w.C.Height()
				if d {
					check(key{cur, ch, true}, "GetDelegates(live)", fromVS(sm.GetDelegates(ch)))
				} else {
					check(key{cur, ch, false}, "GetCommitteeMembers(live)", fromVS(sm.GetCommitteeMembers(ch)))
				}
			}
		}
		askViews := func() {
			if len(views) == 0 {
				return
			}
			v := views[src.Int("view", 0, len(views)-1)]
			ch := chains[src.Int("vchain", 0, 2)]
			if src.Int("vdeleg", 0, 2) == 0 {
				check(key{v.h, ch, true}, fmt.Sprintf("old view(created at %d).GetDelegates", v.at), fromVS(v.sm.GetDelegates(ch)))
			} else {
				check(key{v.h, ch, false}, fmt.Sprintf("old view(created at %d).GetCommitteeMembers", v.at), fromVS(v.sm.GetCommitteeMembers(ch)))
			}
		}

		record()
		for i := 0; i < nblocks; i++ {
			h := w.C.Height()
			// a view created now and asked after later commits
			if len(views) < 6 && src.Int("mkview", 0, 4) == 0 {
				vh := uint64(src.Int("viewh", 1, int(h)))
				tm, e := w.C.FSM.TimeMachine(vh)
				if e != nil {
					rt.Fatalf("TimeMachine(%d): %v", vh, e)
				}
				views = append(views, &view{sm: tm, h: vh, at: h})
			}
			plan, out, err := w.Step()
			if err != nil {
				rt.Fatalf("harness error at height %d: %v", h, err)
			}
			if out.Err != nil {
				rt.Fatalf("ApplyBlock failed at height %d: %v\n%s", h, out.Err, w.HistoryString())
			}
			if twin {
				sp := plan.Spec
				sp.Time = out.Header.Time
				specs = append(specs, sp)
			}
			record()
			nq := src.Int("nq", 0, 3)
			for q := 0; q < nq; q++ {
				ask(src.Int("kind", 0, 3), uint64(src.Int("qh", 1, int(w.C.Height()))), chains[src.Int("qchain", 0, 2)], src.Int("qdeleg", 0, 2) == 0)
			}
			if src.Int("askview", 0, 2) == 0 {
				askViews()
			}
		}
		// final sweep from ONE state machine object: every past height, generated order, some twice
		top := w.C.Height()
		order := make([]uint64, 0, 2*top)
		for h := uint64(1); h <= top; h++ {
			order = append(order, h)
		}
		for i := len(order) - 1; i > 0; i-- {
			j := src.Int("shuffle", 0, i)
			order[i], order[j] = order[j], order[i]
		}
		extra := src.Int("again", 0, int(top))
		for i := 0; i < extra; i++ {
			order = append(order, uint64(src.Int("againh", 1, int(top))))
		}
		for _, h := range order {
			ask(0, h, 1, false)
			ch := chains[src.Int("swchain", 0, 2)]
			ask(src.Int("swkind", 0, 2), h, ch, src.Int("swdeleg", 0, 2) == 0)
		}
		for range views {
			askViews()
		}
		// two independent chains with the same history give identical sets (order included)
		if twin {
			w2, err := cs.NewWorld(src, w.Opts)
			if err != nil {
				rt.Fatalf("twin: %v", err)
			}
			defer w2.Close()
			for i, sp := range specs {
				out, err := w2.C.Block(sp)
				if err != nil || out.Err != nil {
					rt.Fatalf("twin block %d: %v %v", i+1, err, out.Err)
				}
			}
			for h := uint64(1); h <= top; h++ {
				for _, ch := range chains {
					a, b := fromVS(w.C.FSM.LoadCommittee(ch, h)), fromVS(w2.C.FSM.LoadCommittee(ch, h))
					if !a.equal(b) {
						rt.Fatalf("two chains with the same history disagree on committee %d at height %d:\n A %v\n B %v", ch, h, a, b)
					}
					check(key{h, ch, false}, "twin.LoadCommittee", b)
				}
			}
			c.Class("twin chain compared")
		}
		c.Desc("%s", w.HistoryString())
		staleReask := false
		for k := range first {
			if changedSince[k.H] && k.H < top {
				staleReask = true
			}
		}
		c.ClassIf(long, "history >= 66 heights (shared cache rolls over)")
		c.ClassIf(tieAtCap, "tie straddles the cap")
		c.ClassIf(staleReask, "historical height asked after the population changed")
		c.ClassIf(len(views) > 0, "old TimeMachine views asked after later commits")
		c.ClassIf(reasked >= 10, "same (chain,height) asked again x10+")
		c.ClassIf(queries >= 100, "queries x100+")
		for _, k := range []string{"stake", "edit-stake", "pause", "unpause", "unstake", "change-param"} {
			c.ClassIf(w.Stats[k+".ok"] > 0, "history tx:"+k+" ok")
		}
		c.ClassIf(w.Stats["event."+string(lib.EventTypeSlash)] > 0, "history: slash")
		c.Done(tieAtCap || (staleReask && reasked > 0))
	})
}
