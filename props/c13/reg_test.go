package c13

import (
	"math/big"
	"testing"

	"github.com/canopy-network/canopy/lib"

	cs "verif/h/chainsim"
)

// TestC13Reg_Maj23Overflow: lib.NewValidatorSet computes the +2/3 threshold as (2*totalPower)/3 + 1 in uint64. For a
// total power >= 2^63 the product wraps: two validators with 2^62 each plus one with 2 give T = 2^63+2 and a threshold
// of 2 instead of 6148914691236517207 - the smallest validator alone "has" +2/3. Reachable with a genesis whose
// committee stake is >= 2^63 (genesis amounts are only bounded by the uint64 supply check).
func TestC13Reg_Maj23Overflow(t *testing.T) {
	for _, stakes := range [][]uint64{{1 << 62, 1 << 62, 2}, {1 << 63}, {1<<64 - 1}, {1<<63 - 1, 1}} {
		var members []*lib.ConsensusValidator
		total := new(big.Int)
		for i, s := range stakes {
			members = append(members, &lib.ConsensusValidator{PublicKey: cs.OpKey(i).PublicKey().Bytes(), VotingPower: s})
			total.Add(total, cs.Big(s))
		}
		vs, err := lib.NewValidatorSet(&lib.ConsensusValidators{ValidatorSet: members})
		if err != nil {
			t.Fatalf("stakes %v: %v", stakes, err)
		}
		want := new(big.Int).Mul(total, big.NewInt(2))
		want.Div(want, big.NewInt(3)).Add(want, big.NewInt(1))
		if vs.TotalPower != total.Uint64() || cs.Big(vs.MinimumMaj23).Cmp(want) != 0 {
			t.Errorf("stakes %v: TotalPower=%d MinimumMaj23=%d, want T=%s floor(2T/3)+1=%s", stakes, vs.TotalPower, vs.MinimumMaj23, total, want)
		}
	}
}
