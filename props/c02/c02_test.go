// Package c02 checks property C02 (finality gate): a node commits a block only when it arrives with a genuine, correctly
// bound +2/3 PRECOMMIT_VOTE certificate of the committee in force at the certificate's root height.
//
// Two real nodes (controller.Controller on real stores, h/nodesim): A builds proposals from its mempool, the generated
// committee REALLY signs with its BLS keys, B is the victim that is offered attacker-assembled certificates through
// Controller.HandlePeerBlock(msg,false). The expectation for every candidate is computed by an independent semantic
// evaluator from the generator's own bookkeeping (who really signed which bytes; big-integer power recount).
package c02

import (
	"bytes"
	"fmt"
	"math/big"
	"sort"
	"strings"
	"testing"

	"github.com/canopy-network/canopy/fsm"
	"github.com/canopy-network/canopy/lib"
	"google.golang.org/protobuf/proto"
	"pgregory.net/rapid"

	"verif/h/ev"
	"verif/h/keys"
	"verif/h/nodesim"
)

type verdict int

const (
	mustReject verdict = iota
	mustCommit
	either
)

func (v verdict) String() string { return [...]string{"must-reject", "must-commit", "either"}[v] }

// cand is one attacker candidate and the bookkeeping of how it was made.
type cand struct {
	kind string
	desc string
	qc   *lib.QuorumCertificate
	// what was REALLY signed and by whom (public keys); sigAltered: signature bytes changed after aggregation
	signedPayload []byte
	signedFields  string // independent rendering of every bound field at signing time (not derived from QuorumCertificate.SignBytes)
	signerKeys    [][]byte
	sigAltered    bool
	// honest: the certificate could have been produced by honest validators following the protocol for the valid proposal
	honest     bool
	nontrivial bool
	// override: verdict decided by construction (block bytes deliberately differ from the valid proposal)
	override *verdict
	why      string
	classes  []string
}

// env is the situation at one attack height.
type env struct {
	a, b        *nodesim.Node
	ring        nodesim.KeyRing
	p           *nodesim.Proposal // the valid proposal at B's next height
	alt         *nodesim.Proposal // another valid proposal of the same height (may be nil)
	base        *lib.QuorumCertificate
	vs          lib.ValidatorSet // committee at the valid root height
	rootH       uint64
	height      uint64
	leader      []byte
	oldCerts    []*lib.QuorumCertificate
	committeeAt func(rootHeight uint64) (lib.ValidatorSet, bool)
	cached      bool // the victim validated the valid proposal before (holds a cached block result)
	boundary    bool // constructed stake vector (exact threshold / threshold-1 subsets exist)
	// shift: (nested chains) the committee at the NEXT root height, reached after the certificate's root height while the
	// victim's in-memory validator set was refreshed to it; stakes differ from e.vs
	shift *lib.ValidatorSet
}

func pubkeysOf(vs lib.ValidatorSet, idx []int) [][]byte {
	var out [][]byte
	for _, i := range idx {
		out = append(out, vs.ValidatorSet.ValidatorSet[i].PublicKey)
	}
	return out
}

func powerOf(vs lib.ValidatorSet, idx []int) *big.Int {
	_, _, s := nodesim.Power(vs, idx)
	return s
}

func threshold(vs lib.ValidatorSet) *big.Int {
	_, thr, _ := nodesim.Power(vs, nil)
	return thr
}

// subsets enumerates all signer subsets with their power (committee size <= 9)
type subset struct {
	idx   []int
	power *big.Int
}

func allSubsets(vs lib.ValidatorSet) []subset {
	n := len(vs.ValidatorSet.ValidatorSet)
	var out []subset
	for m := 1; m < 1<<n; m++ {
		var idx []int
		for i := 0; i < n; i++ {
			if m&(1<<i) != 0 {
				idx = append(idx, i)
			}
		}
		out = append(out, subset{idx, powerOf(vs, idx)})
	}
	sort.SliceStable(out, func(i, j int) bool { return out[i].power.Cmp(out[j].power) < 0 })
	return out
}

// pickSubset picks a signer subset of a category: "exact", "minus1", "maxbelow", "minabove", "any", "all"
func pickSubset(t *rapid.T, vs lib.ValidatorSet, cat string) (subset, bool) {
	subs, thr := allSubsets(vs), threshold(vs)
	thr1 := new(big.Int).Sub(thr, big.NewInt(1))
	var pool []subset
	switch cat {
	case "exact":
		for _, s := range subs {
			if s.power.Cmp(thr) == 0 {
				pool = append(pool, s)
			}
		}
	case "minus1":
		for _, s := range subs {
			if s.power.Cmp(thr1) == 0 {
				pool = append(pool, s)
			}
		}
	case "maxbelow":
		var best *big.Int
		for _, s := range subs {
			if s.power.Cmp(thr) < 0 {
				best = s.power
			}
		}
		for _, s := range subs {
			if best != nil && s.power.Cmp(best) == 0 {
				pool = append(pool, s)
			}
		}
	case "minabove":
		var best *big.Int
		for _, s := range subs {
			if s.power.Cmp(thr) >= 0 {
				best = s.power
				break
			}
		}
		for _, s := range subs {
			if best != nil && s.power.Cmp(best) == 0 {
				pool = append(pool, s)
			}
		}
	case "above":
		for _, s := range subs {
			if s.power.Cmp(thr) >= 0 {
				pool = append(pool, s)
			}
		}
	case "below":
		for _, s := range subs {
			if s.power.Cmp(thr) < 0 {
				pool = append(pool, s)
			}
		}
	default:
		pool = subs
	}
	if len(pool) == 0 {
		return subset{}, false
	}
	return pool[rapid.IntRange(0, len(pool)-1).Draw(t, "subset")], true
}

// clampCmp maps a difference to -2 (far below), -1 (exactly threshold-1), 0 (exactly threshold), +1 (above)
func clampCmp(d *big.Int) int {
	switch {
	case d.Sign() == 0:
		return 0
	case d.Cmp(big.NewInt(-1)) == 0:
		return -1
	case d.Sign() < 0:
		return -2
	}
	return 1
}

func idxStr(idx []int) string {
	var s []string
	for _, i := range idx {
		s = append(s, fmt.Sprint(i))
	}
	return "{" + strings.Join(s, ",") + "}"
}

// signed builds a candidate whose aggregate is really produced by `signers` of committee `vs` over mod(base).SignBytes()
func (e *env) signed(kind string, mod func(qc *lib.QuorumCertificate), vs lib.ValidatorSet, signers []int) *cand {
	qc := nodesim.CloneQC(e.base)
	qc.Signature = nil
	if mod != nil {
		mod(qc)
	}
	payload := qc.SignBytes()
	sig, err := nodesim.Aggregate(payload, vs, e.ring, signers)
	if err != nil {
		panic(err)
	}
	qc.Signature = sig
	return &cand{kind: kind, qc: qc, signedPayload: payload, signedFields: boundFields(qc), signerKeys: pubkeysOf(vs, signers)}
}

// boundFields renders everything a certificate signature must bind, field by field
func boundFields(qc *lib.QuorumCertificate) string {
	h := qc.Header
	if h == nil {
		h = &lib.View{}
	}
	return fmt.Sprintf("net=%d chain=%d height=%d root=%d round=%d phase=%d block=%x results=%x proposer=%x", h.NetworkId, h.ChainId, h.Height, h.RootHeight, h.Round, h.Phase,
		qc.BlockHash, qc.ResultsHash, qc.ProposerKey)
}

var fieldNames = []string{"height", "round", "phase", "rootHeight", "chainId", "networkId", "blockHash", "resultsHash", "proposerKey"}

// mutateField changes one bound field of the certificate payload
func (e *env) mutateField(t *rapid.T, qc *lib.QuorumCertificate, f string) string {
	switch f {
	case "height":
		d := rapid.SampledFrom([]int64{-1, 1, 2}).Draw(t, "dHeight")
		nh := int64(qc.Header.Height) + d
		if nh < 1 {
			nh = int64(qc.Header.Height) + 1
		}
		qc.Header.Height = uint64(nh)
		return fmt.Sprintf("height=%d", nh)
	case "round":
		qc.Header.Round += uint64(rapid.IntRange(1, 3).Draw(t, "dRound"))
		return fmt.Sprintf("round=%d", qc.Header.Round)
	case "phase":
		ph := rapid.SampledFrom([]lib.Phase{lib.Phase_PROPOSE_VOTE, lib.Phase_PRECOMMIT, lib.Phase_COMMIT, lib.Phase_PROPOSE, lib.Phase_ELECTION_VOTE, lib.Phase_UNKNOWN, lib.Phase_COMMIT_PROCESS}).Draw(t, "phase")
		qc.Header.Phase = ph
		return "phase=" + ph.String()
	case "rootHeight":
		// only root heights that exist (1..current): later ones are clamped to "latest" by the node
		if e.rootH <= 1 {
			qc.Header.Round++ // no other root height exists: fall back to a round change
			return fmt.Sprintf("round=%d", qc.Header.Round)
		}
		rh := uint64(rapid.IntRange(1, int(e.rootH)-1).Draw(t, "rootHeight"))
		qc.Header.RootHeight = rh
		return fmt.Sprintf("rootHeight=%d", rh)
	case "chainId":
		qc.Header.ChainId = rapid.SampledFrom([]uint64{0, 2, 3}).Draw(t, "chain")
		return fmt.Sprintf("chainId=%d", qc.Header.ChainId)
	case "networkId":
		qc.Header.NetworkId = rapid.SampledFrom([]uint64{0, 2, 1 << 32}).Draw(t, "network")
		return fmt.Sprintf("networkId=%d", qc.Header.NetworkId)
	case "blockHash":
		if e.alt != nil && rapid.Bool().Draw(t, "useAlt") {
			qc.BlockHash = append([]byte(nil), e.alt.BlockHash...)
			return "blockHash=alt"
		}
		qc.BlockHash = append([]byte(nil), qc.BlockHash...)
		qc.BlockHash[rapid.IntRange(0, len(qc.BlockHash)-1).Draw(t, "i")] ^= 0x80
		return "blockHash^bit"
	case "resultsHash":
		qc.ResultsHash = append([]byte(nil), qc.ResultsHash...)
		qc.ResultsHash[rapid.IntRange(0, len(qc.ResultsHash)-1).Draw(t, "i")] ^= 0x01
		return "resultsHash^bit"
	case "proposerKey":
		other := e.vs.ValidatorSet.ValidatorSet[rapid.IntRange(0, len(e.vs.ValidatorSet.ValidatorSet)-1).Draw(t, "pk")].PublicKey
		if bytes.Equal(other, qc.ProposerKey) {
			qc.ProposerKey = append([]byte(nil), qc.ProposerKey...)
			qc.ProposerKey[5] ^= 0x04
			return "proposerKey^bit"
		}
		qc.ProposerKey = append([]byte(nil), other...)
		return "proposerKey=other-validator"
	}
	panic(f)
}

var candKinds = []string{"subset", "subset", "subset", "extra-bits", "extra-bits", "padding-bits", "bitmap-len", "retarget", "retarget", "retarget", "retarget-hidden",
	"propose-vote-qc", "other-block", "tx-swap", "results-swap", "sig-garble", "omit", "old-cert", "valid", "lastqc", "lastqc"}

// genCandidate draws one candidate
func (e *env) genCandidate(t *rapid.T) *cand {
	kind := rapid.SampledFrom(candKinds).Draw(t, "candKind")
	n := len(e.vs.ValidatorSet.ValidatorSet)
	switch kind {
	case "valid":
		s, _ := pickSubset(t, e.vs, "above")
		c := e.signed(kind, nil, e.vs, s.idx)
		c.honest, c.desc = true, "signers="+idxStr(s.idx)
		return c
	case "subset":
		cats := []string{"exact", "minus1", "maxbelow", "minabove", "any"}
		if e.boundary {
			cats = []string{"exact", "minus1", "exact", "minus1", "any"}
		}
		cat := rapid.SampledFrom(cats).Draw(t, "cat")
		s, ok := pickSubset(t, e.vs, cat)
		if !ok {
			s, _ = pickSubset(t, e.vs, "maxbelow")
			if s.idx == nil {
				s, _ = pickSubset(t, e.vs, "any")
			}
			cat = "maxbelow*"
		}
		c := e.signed(kind, nil, e.vs, s.idx)
		c.honest, c.nontrivial = true, true
		tot, _, _ := nodesim.Power(e.vs, nil)
		c.classes = append(c.classes, fmt.Sprintf("subset-power-vs-threshold=%+d@T%%3=%d", clampCmp(new(big.Int).Sub(s.power, threshold(e.vs))), new(big.Int).Mod(tot, big.NewInt(3)).Int64()))
		c.classes = append(c.classes, "subset="+cat, fmt.Sprintf("subset-power-vs-threshold=%+d", clampCmp(new(big.Int).Sub(s.power, threshold(e.vs)))))
		c.desc = fmt.Sprintf("%s signers=%s power=%s thr=%s", cat, idxStr(s.idx), s.power, threshold(e.vs))
		return c
	case "extra-bits":
		s, _ := pickSubset(t, e.vs, rapid.SampledFrom([]string{"below", "maxbelow", "any"}).Draw(t, "cat"))
		if s.idx == nil || len(s.idx) == n {
			s, _ = pickSubset(t, e.vs, "any")
		}
		c := e.signed(kind, nil, e.vs, s.idx)
		in := map[int]bool{}
		for _, i := range s.idx {
			in[i] = true
		}
		var extra []int
		for i := 0; i < n; i++ {
			if !in[i] && (len(extra) == 0 || rapid.Bool().Draw(t, "more")) {
				extra = append(extra, i)
			}
		}
		bm := append([]byte(nil), c.qc.Signature.Bitmap...)
		for _, i := range extra {
			bm[i/8] |= 1 << uint(i%8)
		}
		c.qc.Signature.Bitmap = bm
		c.nontrivial = len(extra) > 0
		c.desc = fmt.Sprintf("signers=%s +unsigned bits %s", idxStr(s.idx), idxStr(extra))
		return c
	case "padding-bits":
		s, _ := pickSubset(t, e.vs, rapid.SampledFrom([]string{"maxbelow", "minus1", "above", "any"}).Draw(t, "cat"))
		if s.idx == nil {
			s, _ = pickSubset(t, e.vs, "any")
		}
		c := e.signed(kind, nil, e.vs, s.idx)
		bm := append([]byte(nil), c.qc.Signature.Bitmap...)
		var set []int
		for i := n; i < len(bm)*8; i++ {
			if len(set) == 0 || rapid.Bool().Draw(t, "more") {
				bm[i/8] |= 1 << uint(i%8)
				set = append(set, i)
			}
		}
		c.qc.Signature.Bitmap = bm
		c.nontrivial = len(set) > 0
		c.desc = fmt.Sprintf("signers=%s power=%s thr=%s +padding bits %s (n=%d)", idxStr(s.idx), s.power, threshold(e.vs), idxStr(set), n)
		return c
	case "bitmap-len":
		s, _ := pickSubset(t, e.vs, rapid.SampledFrom([]string{"maxbelow", "above"}).Draw(t, "cat"))
		if s.idx == nil {
			s, _ = pickSubset(t, e.vs, "any")
		}
		c := e.signed(kind, nil, e.vs, s.idx)
		how := rapid.SampledFrom([]string{"+00", "+ff", "+0000", "trunc", "prefix00"}).Draw(t, "how")
		bm := append([]byte(nil), c.qc.Signature.Bitmap...)
		switch how {
		case "+00":
			bm = append(bm, 0)
		case "+ff":
			bm = append(bm, 0xff)
		case "+0000":
			bm = append(bm, 0, 0)
		case "trunc":
			bm = bm[:len(bm)-1]
		case "prefix00":
			bm = append([]byte{0}, bm...)
		}
		c.qc.Signature.Bitmap = bm
		c.nontrivial = len(bm) > 0
		c.desc = fmt.Sprintf("signers=%s bitmap %s -> %x", idxStr(s.idx), how, bm)
		return c
	case "retarget", "retarget-hidden":
		// a genuine +2/3 aggregate of the committee over ANOTHER payload (one or two bound fields differ)
		nf := rapid.IntRange(1, 2).Draw(t, "nFields")
		var fs []string
		for len(fs) < nf {
			f := rapid.SampledFrom(fieldNames).Draw(t, "field")
			dup := false
			for _, g := range fs {
				dup = dup || g == f
			}
			if !dup {
				fs = append(fs, f)
			}
		}
		var what []string
		s, _ := pickSubset(t, e.vs, "above")
		c := e.signed(kind, func(qc *lib.QuorumCertificate) {
			for _, f := range fs {
				what = append(what, e.mutateField(t, qc, f))
			}
		}, e.vs, s.idx)
		if kind == "retarget-hidden" {
			// present the ORIGINAL payload with the aggregate made for the other one
			sig := c.qc.Signature
			c.qc = nodesim.CloneQC(e.base)
			c.qc.Signature = sig
		}
		c.nontrivial = true
		c.desc = fmt.Sprintf("%s signers=%s", strings.Join(what, "+"), idxStr(s.idx))
		return c
	case "propose-vote-qc":
		// the +2/3 PROPOSE_VOTE certificate every replica sees in the PRECOMMIT message, presented as the commit certificate
		s, _ := pickSubset(t, e.vs, "above")
		c := e.signed(kind, func(qc *lib.QuorumCertificate) { qc.Header.Phase = lib.Phase_PROPOSE_VOTE }, e.vs, s.idx)
		relabel := rapid.Bool().Draw(t, "relabel")
		if relabel {
			c.qc.Header.Phase = lib.Phase_PRECOMMIT_VOTE // header rewritten to the commit phase, signature untouched
		}
		c.nontrivial = true
		c.desc = fmt.Sprintf("genuine PROPOSE_VOTE quorum %s relabelled=%v", idxStr(s.idx), relabel)
		return c
	case "other-block":
		if e.alt == nil {
			return e.genCandidateOf(t, "tx-swap")
		}
		s, _ := pickSubset(t, e.vs, "above")
		c := e.signed(kind, nil, e.vs, s.idx)
		how := rapid.SampledFrom([]string{"block-only", "block+hash"}).Draw(t, "how")
		c.qc.Block = append([]byte(nil), e.alt.Block...)
		if how == "block+hash" {
			c.qc.BlockHash = append([]byte(nil), e.alt.BlockHash...)
		}
		c.nontrivial = how == "block+hash"
		c.desc = "valid certificate attached to another valid block of the same height: " + how
		return c
	case "tx-swap":
		// same header (same block hash), transaction list altered
		s, _ := pickSubset(t, e.vs, "above")
		c := e.signed(kind, nil, e.vs, s.idx)
		blk := new(lib.Block)
		if err := lib.Unmarshal(c.qc.Block, blk); err != nil {
			panic(err)
		}
		how := rapid.SampledFrom([]string{"drop-last", "dup-first", "reverse", "add-foreign"}).Draw(t, "how")
		txs := blk.Transactions
		switch {
		case how == "drop-last" && len(txs) > 0:
			txs = txs[:len(txs)-1]
		case how == "dup-first" && len(txs) > 0:
			txs = append([][]byte{txs[0]}, txs...)
		case how == "reverse" && len(txs) > 1:
			r := make([][]byte, len(txs))
			for i := range txs {
				r[len(txs)-1-i] = txs[i]
			}
			txs = r
		default:
			how = "add-foreign"
			var foreign []byte
			if e.alt != nil {
				ab := new(lib.Block)
				_ = lib.Unmarshal(e.alt.Block, ab)
				if len(ab.Transactions) > 0 {
					foreign = ab.Transactions[len(ab.Transactions)-1]
				}
			}
			if foreign == nil {
				foreign = []byte{0x0a, 0x01, 0x78}
			}
			txs = append(append([][]byte(nil), txs...), foreign)
		}
		blk.Transactions = txs
		bz, err := lib.Marshal(blk)
		if err != nil {
			panic(err)
		}
		c.nontrivial = !bytes.Equal(bz, c.qc.Block)
		c.qc.Block = bz
		c.desc = "same header, transactions " + how
		return c
	case "results-swap":
		s, _ := pickSubset(t, e.vs, "above")
		how := rapid.SampledFrom([]string{"results-only", "results+hash", "results+hash+resigned"}).Draw(t, "how")
		alter := func(r *lib.CertificateResult) {
			r.RewardRecipients = proto.Clone(r.RewardRecipients).(*lib.RewardRecipients)
			if len(r.RewardRecipients.PaymentPercents) > 0 && rapid.Bool().Draw(t, "addr") {
				pp := r.RewardRecipients.PaymentPercents[0]
				pp.Address = append([]byte(nil), pp.Address...)
				pp.Address[0] ^= 0x01
			} else {
				r.RewardRecipients.PaymentPercents = append(r.RewardRecipients.PaymentPercents, &lib.PaymentPercents{Address: bytes.Repeat([]byte{7}, 20), Percent: 1, ChainId: 1})
			}
		}
		var c *cand
		if how == "results+hash+resigned" {
			// (not obtainable from honest signatures: the committee would have to sign other results for the same block)
			c = e.signed(kind, func(qc *lib.QuorumCertificate) { alter(qc.Results); qc.ResultsHash = qc.Results.Hash() }, e.vs, s.idx)
		} else {
			c = e.signed(kind, nil, e.vs, s.idx)
			alter(c.qc.Results)
			if how == "results+hash" {
				c.qc.ResultsHash = c.qc.Results.Hash()
			}
		}
		c.nontrivial = how != "results-only"
		c.desc = "results object swapped: " + how
		return c
	case "sig-garble":
		s, _ := pickSubset(t, e.vs, "above")
		c := e.signed(kind, nil, e.vs, s.idx)
		how := rapid.SampledFrom([]string{"flip", "trunc", "zero", "foreign", "extend"}).Draw(t, "how")
		sig := append([]byte(nil), c.qc.Signature.Signature...)
		switch how {
		case "flip":
			sig[rapid.IntRange(0, len(sig)-1).Draw(t, "i")] ^= 1 << uint(rapid.IntRange(0, 7).Draw(t, "bit"))
		case "trunc":
			sig = sig[:rapid.IntRange(0, len(sig)-1).Draw(t, "len")]
		case "zero":
			sig = make([]byte, len(sig))
		case "foreign":
			// a genuine aggregate of the same signers over other bytes
			f, _ := nodesim.Aggregate([]byte("something else"), e.vs, e.ring, s.idx)
			sig = f.Signature
		case "extend":
			sig = append(sig, 0)
		}
		c.qc.Signature.Signature = sig
		c.sigAltered = true
		c.nontrivial = len(sig) == 96
		c.desc = "signature " + how
		return c
	case "omit":
		s, _ := pickSubset(t, e.vs, "above")
		c := e.signed(kind, nil, e.vs, s.idx)
		how := rapid.SampledFrom([]string{"block", "results", "block+results", "signature", "bitmap", "header", "blockHash", "resultsHash", "resultsHash+results"}).Draw(t, "how")
		switch how {
		case "block":
			c.qc.Block = nil
		case "results":
			c.qc.Results = nil
		case "block+results":
			c.qc.Block, c.qc.Results = nil, nil
		case "signature":
			c.qc.Signature = nil
		case "bitmap":
			c.qc.Signature.Bitmap = nil
		case "header":
			c.qc.Header = nil
		case "blockHash":
			c.qc.BlockHash = nil
		case "resultsHash":
			c.qc.ResultsHash = nil
		case "resultsHash+results":
			c.qc.ResultsHash, c.qc.Results = nil, nil
		}
		c.nontrivial = how == "block" || how == "results" || how == "block+results"
		c.desc = "omitted: " + how
		return c
	case "lastqc":
		return e.genLastQC(t)
	case "old-cert":
		// a genuine certificate of an EARLIER height (replay of an old commit)
		if len(e.oldCerts) == 0 {
			return e.genCandidateOf(t, "subset")
		}
		o := e.oldCerts[rapid.IntRange(0, len(e.oldCerts)-1).Draw(t, "old")]
		c := &cand{kind: kind, qc: nodesim.CloneQC(o), signedPayload: o.SignBytes(), signedFields: boundFields(o), nontrivial: true, desc: fmt.Sprintf("genuine certificate of height %d", o.Header.Height)}
		c.signerKeys = nil // evaluated by binding (wrong height) alone
		return c
	}
	panic(kind)
}

// genLastQC: the NEXT block (B's next height > 1) rebuilt with a tampered LastQuorumCertificate in its header, correctly
// re-hashed and certified by a full quorum (a Byzantine quorum would be needed; the point is the inner re-check
// Controller.CheckAndSetLastCertificate that every honest validator and every committing node performs)
func (e *env) genLastQC(t *rapid.T) *cand {
	// (needs a Byzantine +2/3 quorum on ANOTHER block hash of this height. Offered to victims with a pending validated
	// proposal as well: that combination exposed finding KF-C07-stale-cached-result, fixed by /repo commit c8f856b)
	if e.height <= 1 {
		return e.genCandidateOf(t, "retarget")
	}
	blk := new(lib.Block)
	if err := lib.Unmarshal(e.p.Block, blk); err != nil {
		panic(err)
	}
	last := blk.BlockHeader.LastQuorumCertificate
	lvs, ok := e.committeeAt(last.Header.RootHeight)
	if !ok {
		return e.genCandidateOf(t, "subset")
	}
	how := rapid.SampledFrom([]string{"sig-flip", "partial-genuine", "payload-blockhash", "payload-resultshash", "extra-bits", "propose-vote-genuine", "sig-zero"}).Draw(t, "how")
	v := mustReject
	switch how {
	case "sig-flip":
		last.Signature.Signature[rapid.IntRange(0, 95).Draw(t, "i")] ^= 0x10
	case "sig-zero":
		last.Signature.Signature = make([]byte, 96)
	case "partial-genuine":
		// a genuine aggregate of a below-threshold subset over the last payload
		s, ok := pickSubset(t, lvs, "maxbelow")
		if !ok {
			s, _ = pickSubset(t, lvs, "any")
			how = "partial-genuine(no subset below threshold: any)"
			v = either
		}
		keep := last.Signature
		last.Signature = nil
		sig, err := nodesim.Aggregate(last.SignBytes(), lvs, e.ring, s.idx)
		if err != nil {
			panic(err)
		}
		_ = keep
		last.Signature = sig
		how += " signers=" + idxStr(s.idx)
	case "payload-blockhash":
		last.BlockHash[3] ^= 0x01
	case "payload-resultshash":
		last.ResultsHash[3] ^= 0x01
		last.Results = nil
	case "extra-bits":
		bm := last.Signature.Bitmap
		changed := false
		for i := 0; i < len(lvs.ValidatorSet.ValidatorSet); i++ {
			if bm[i/8]&(1<<uint(i%8)) == 0 {
				bm[i/8] |= 1 << uint(i%8)
				changed = true
				break
			}
		}
		if !changed { // everyone signed: clear a bit instead (claimed set smaller than the real signer set)
			bm[0] &^= 1
		}
	case "propose-vote-genuine":
		// a genuine +2/3 PROPOSE_VOTE aggregate for the last block in place of the commit certificate: the inner check
		// verifies signature and quorum of whatever phase is embedded -> recorded, not judged (the property speaks about
		// the certificate a block ARRIVES with)
		s, _ := pickSubset(t, lvs, "above")
		last.Header.Phase = lib.Phase_PROPOSE_VOTE
		last.Signature = nil
		sig, err := nodesim.Aggregate(last.SignBytes(), lvs, e.ring, s.idx)
		if err != nil {
			panic(err)
		}
		last.Signature = sig
		v = either
	}
	blk.BlockHeader.Hash = nil
	hash, err := blk.BlockHeader.SetHash()
	if err != nil {
		panic(err)
	}
	bz, err := lib.Marshal(blk)
	if err != nil {
		panic(err)
	}
	s, _ := pickSubset(t, e.vs, "above")
	c := e.signed("lastqc", func(qc *lib.QuorumCertificate) {
		qc.Block, qc.BlockHash = bz, append([]byte(nil), hash...)
	}, e.vs, s.idx)
	c.override, c.why = &v, "next block carries a tampered last certificate: "+how
	c.nontrivial = true
	c.desc = "LastQuorumCertificate " + how + "; block re-hashed and certified by " + idxStr(s.idx)
	return c
}

// genRootShift: a genuine aggregate at the certificate's (older) root height whose signer subset has a DIFFERENT quorum
// verdict under the committee of the victim's current root height: "up" = below the threshold at the certificate's root
// height, at/above it under the newer powers (must be rejected); "down" = the reverse (a genuine certificate: must commit)
func (e *env) genRootShift(t *rapid.T, dir string) *cand {
	idxIn := map[string]int{}
	for i, v := range e.shift.ValidatorSet.ValidatorSet {
		idxIn[string(v.PublicKey)] = i
	}
	_, thrNew, _ := nodesim.Power(*e.shift, nil)
	thrOld := threshold(e.vs)
	var pool []subset
	for _, s := range allSubsets(e.vs) {
		var ni []int
		for _, i := range s.idx {
			if j, ok := idxIn[string(e.vs.ValidatorSet.ValidatorSet[i].PublicKey)]; ok {
				ni = append(ni, j)
			}
		}
		_, _, pNew := nodesim.Power(*e.shift, ni)
		okOld, okNew := s.power.Cmp(thrOld) >= 0, pNew.Cmp(thrNew) >= 0
		if (dir == "up" && !okOld && okNew) || (dir == "down" && okOld && !okNew) {
			pool = append(pool, s)
		}
	}
	if len(pool) == 0 {
		return nil
	}
	s := pool[rapid.IntRange(0, len(pool)-1).Draw(t, "shiftSubset")]
	c := e.signed("root-shift", nil, e.vs, s.idx)
	c.honest, c.nontrivial = true, true
	c.classes = append(c.classes, "root-shift="+dir)
	c.desc = fmt.Sprintf("%s: signers=%s power=%s at the certificate's root height %d (threshold %s); verdict flips under the committee of the victim's current root height", dir, idxStr(s.idx), s.power, e.rootH, thrOld)
	return c
}

func (e *env) genCandidateOf(t *rapid.T, kind string) *cand {
	saved := candKinds
	candKinds = []string{kind}
	defer func() { candKinds = saved }()
	return e.genCandidate(t)
}

// expect is the independent semantic evaluator: may this candidate cause B (at height e.height, on this chain) to commit?
func (e *env) expect(c *cand, committeeAt func(rootHeight uint64) (lib.ValidatorSet, bool)) (verdict, string) {
	if c.override != nil {
		return *c.override, c.why
	}
	qc := c.qc
	if qc == nil || qc.Header == nil || qc.Signature == nil || qc.Block == nil || qc.Results == nil {
		return mustReject, "structurally incomplete"
	}
	h := qc.Header
	if h.NetworkId != e.a.Cfg.NetworkID || h.ChainId != e.a.Cfg.ChainId {
		return mustReject, "other network/chain"
	}
	if h.Height != e.height {
		return mustReject, "other height"
	}
	if h.Phase != lib.Phase_PRECOMMIT_VOTE {
		return mustReject, "not the commit-justifying phase"
	}
	bodyTampered := false
	if !bytes.Equal(qc.BlockHash, e.p.BlockHash) {
		return mustReject, "does not name exactly the valid block"
	}
	if !bytes.Equal(qc.Block, e.p.Block) {
		// same certified header hash but other bytes in the message: a victim that has NOT executed the block itself must
		// notice (transaction root); one that validated the certified proposal before commits its own cached execution of
		// exactly the certified block and may ignore the body of the message (checked: its archive then holds the valid block)
		hh, herr := new(lib.Block).BytesToBlockHash(qc.Block)
		if !e.cached || herr != nil || !bytes.Equal(hh, e.p.BlockHash) {
			return mustReject, "does not carry exactly the valid block"
		}
		bodyTampered = true
	}
	if !bytes.Equal(qc.Results.Hash(), qc.ResultsHash) {
		return mustReject, "results do not match the results hash"
	}
	if c.sigAltered || len(qc.Signature.Signature) != 96 {
		return mustReject, "signature bytes altered"
	}
	if c.signedFields != boundFields(qc) {
		return mustReject, "aggregate was made over another payload"
	}
	vs, ok := committeeAt(h.RootHeight)
	if !ok {
		return mustReject, "no committee at that root height"
	}
	n := len(vs.ValidatorSet.ValidatorSet)
	bm := qc.Signature.Bitmap
	if len(bm)*8 < n {
		return mustReject, "bitmap too short for the committee"
	}
	// the set of committee members the bitmap CLAIMS
	claimed := map[string]bool{}
	var claimedIdx []int
	for i := 0; i < n; i++ {
		if bm[i/8]&(1<<uint(i%8)) != 0 {
			claimed[string(vs.ValidatorSet.ValidatorSet[i].PublicKey)] = true
			claimedIdx = append(claimedIdx, i)
		}
	}
	real := map[string]bool{}
	for _, k := range c.signerKeys {
		real[string(k)] = true
	}
	if len(claimed) != len(real) {
		return mustReject, "claimed signer set differs from the real signers"
	}
	for k := range claimed {
		if !real[k] {
			return mustReject, "claimed signer set differs from the real signers"
		}
	}
	total, thr, signed := nodesim.Power(vs, claimedIdx)
	_ = total
	if signed.Cmp(thr) < 0 {
		return mustReject, fmt.Sprintf("power %s < threshold %s", signed, thr)
	}
	// semantically valid. canonical + honestly obtainable => must commit
	canonical := len(bm) == (n+7)/8
	for i := n; i < len(bm)*8 && canonical; i++ {
		if bm[i/8]&(1<<uint(i%8)) != 0 {
			canonical = false
		}
	}
	honest := bytes.Equal(qc.ResultsHash, e.p.Results.Hash()) && bytes.Equal(qc.ProposerKey, e.leader) && h.RootHeight == e.rootH
	if canonical && honest && !bodyTampered {
		return mustCommit, fmt.Sprintf("genuine quorum: power %s >= threshold %s", signed, thr)
	}
	return either, "genuine quorum signed it, but not obtainable from an honest run / non-canonical bitmap"
}

// snapshot of a node for the "unchanged" oracle
type snap struct {
	version   uint64
	height    uint64
	lastHash  string
	lastRoot  string
	committed string
	working   string
}

func takeSnap(t *rapid.T, n *nodesim.Node, working bool) snap {
	s := snap{version: n.Version(), height: n.Height()}
	if h := n.LastHeader(); h != nil {
		s.lastHash, s.lastRoot = lib.BytesToString(h.Hash), lib.BytesToString(h.StateRoot)
	}
	cs, err := n.CommittedScan()
	if err != nil {
		t.Fatalf("committed scan: %v", err)
	}
	s.committed = nodesim.ScanDigest(cs)
	if working {
		ws, err := n.Scan()
		if err != nil {
			t.Fatalf("scan: %v", err)
		}
		s.working = nodesim.ScanDigest(ws)
	}
	return s
}

var prefixKinds = []string{"send", "send", "stake-new", "edit-stake-up", "edit-stake-up", "send-broke", "subsidy"}
var frozenKinds = []string{"send", "send", "send", "send-broke", "double-spend", "bad-sig", "send-self"}
var blockKinds = []string{"send", "send", "send", "send-broke", "double-spend", "edit-stake-up", "bad-sig"}

func TestC02Gate(t *testing.T) {
	rec := ev.New(t, "C02")
	rapid.Check(t, func(t *rapid.T) { runChain(t, rec) })
}

func runChain(t *rapid.T, rec *ev.Rec) {
	sim := nodesim.NewSim()
	defer sim.Close()
	w := nodesim.GenWorld(t, 1)
	// half of the chains use a CONSTRUCTED stake vector: total power of a chosen residue mod 3 with subsets that sum exactly to
	// threshold-1 and to threshold; staking changes are then left out so the construction survives
	boundary := rapid.Bool().Draw(t, "boundaryStakes")
	pKinds, bKinds := prefixKinds, blockKinds
	residue := -1
	if boundary {
		residue = rapid.IntRange(0, 2).Draw(t, "totalMod3")
		w.Stakes = nodesim.BoundaryStakes(t, w.NVals, residue)
		pKinds, bKinds = frozenKinds, frozenKinds
	}
	// half of the remaining chains have an EQUALLY staked committee (the common production case; "count the signers"
	// shortcuts are exact there only as long as nothing but real signer bits is counted)
	equal := !boundary && rapid.Bool().Draw(t, "equalStakes")
	if equal {
		for i := range w.Stakes {
			w.Stakes[i] = w.Stakes[0]
		}
		pKinds, bKinds = frozenKinds, frozenKinds
	}
	ring := nodesim.NewKeyRing(w.NVals + w.Spare)
	// half of the non-constructed chains run on the NESTED chain of a two-chain setup: the certificate's root height and
	// the victim's current root height can differ (root-chain progress with stake changes in the middle of a height)
	nested := !boundary && !equal && rapid.Bool().Draw(t, "nested")
	rootGen, chainGen := w.Genesis(0), w.Genesis(0)
	var rootW *nodesim.World
	if nested {
		rootGen, chainGen = nodesim.TwoChainGenesis(w.ValSpecs(), w.AcctSpecs(), false, nil)
		rootW = w.ForChain(1, 2)
		rootW.Committees = []uint64{1, 2}
		w = w.ForChain(2, 1)
		pKinds, bKinds = frozenKinds, frozenKinds // staking happens on the root chain
	}
	mk := func(name string, key int, chain uint64, gen *fsm.GenesisState, root *nodesim.Node) *nodesim.Node {
		n, err := sim.NewNode(nodesim.NodeOpts{Name: name, ChainID: chain, Genesis: gen, Key: keys.BLS(key), Root: root})
		if err != nil {
			t.Fatalf("new node: %v", err)
		}
		return n
	}
	var ra *nodesim.Node
	var rootG *nodesim.Group
	var a, b *nodesim.Node
	if nested {
		ra = mk("RA", 0, 1, rootGen, nil)
		rootG = &nodesim.Group{Sim: sim, Ring: ring, Nodes: []*nodesim.Node{ra}}
		a, b = mk("A", 0, 2, chainGen, ra), mk("B", 1, 2, chainGen, ra)
	} else {
		a, b = mk("A", 0, 1, chainGen, nil), mk("B", 1, 1, chainGen, nil)
	}
	g := &nodesim.Group{Sim: sim, Ring: ring, Nodes: []*nodesim.Node{a, b}}
	chainDesc := fmt.Sprintf("stakes=%v nested=%v", w.Stakes, nested)
	if equal {
		chainDesc += " equal-stakes"
	}
	// rootStep commits one root-chain height containing the given transactions (plus the pending certificate results)
	rootStep := func(txs ...[]byte) {
		for _, tx := range txs {
			_ = ra.AddTx(tx)
		}
		vs, err := ra.Committee(ra.Height())
		if err != nil {
			t.Fatalf("root committee: %v", err)
		}
		s, _ := pickSubset(t, vs, "above")
		if r, err := rootG.Step(nodesim.StepOpts{Proposer: 0, Signers: s.idx}); err != nil || !r.OK() {
			t.Fatalf("root chain step failed: %v %v", err, r.Err())
		}
	}

	committees := map[uint64]lib.ValidatorSet{}
	committeeAt := func(rh uint64) (lib.ValidatorSet, bool) {
		if vs, ok := committees[rh]; ok {
			return vs, true
		}
		if rh == 0 || rh > a.C.RootChainHeight() {
			return lib.ValidatorSet{}, false
		}
		vs, err := a.Committee(rh)
		if err != nil {
			return lib.ValidatorSet{}, false
		}
		committees[rh] = vs
		return vs, true
	}

	addTxs := func(kinds []string, n int) {
		for i := 0; i < n; i++ {
			for _, tx := range w.GenTx(t, a.Height(), kinds) {
				_ = a.AddTx(tx.Bytes)
			}
		}
	}
	// prefix: staking changes so that committees differ between root heights
	prefix := rapid.IntRange(0, 3).Draw(t, "prefix")
	for i := 0; i < prefix; i++ {
		addTxs(pKinds, rapid.IntRange(1, 4).Draw(t, "nTx"))
		if nested {
			for k := rapid.IntRange(0, 2).Draw(t, "rootSteps"); k > 0; k-- {
				var txs [][]byte
				for _, tx := range rootW.GenTx(t, ra.Height(), []string{"edit-stake-up", "send"}) {
					txs = append(txs, tx.Bytes)
				}
				rootStep(txs...)
			}
		}
		vs, _ := a.Committee(a.C.RootChainHeight())
		s, _ := pickSubset(t, vs, "above")
		r, err := g.Step(nodesim.StepOpts{Proposer: 0, Signers: s.idx})
		if err != nil || !r.OK() {
			t.Fatalf("prefix height failed: %v %v", err, r.Err())
		}
	}
	attackHeights := rapid.IntRange(1, 2).Draw(t, "attackHeights")
	for ah := 0; ah < attackHeights; ah++ {
		addTxs(bKinds, rapid.IntRange(1, 5).Draw(t, "nTx"))
		vs0, _ := a.Committee(a.C.RootChainHeight())
		s0, _ := pickSubset(t, vs0, "above")
		res, err := g.Certify(0, s0.idx, 0)
		if err != nil || res.ProduceErr != nil {
			t.Fatalf("certify: %v %v", err, res.ProduceErr)
		}
		e := &env{a: a, b: b, ring: ring, p: res.Proposal, base: res.QC, vs: res.Committee, rootH: res.QC.Header.RootHeight, height: res.Height,
			leader: a.C.PublicKey, oldCerts: g.Certified, committeeAt: committeeAt, boundary: boundary}
		committees[e.rootH] = e.vs
		// another valid block of the same height
		addTxs([]string{"send"}, 1)
		if alt, e2 := a.Produce(); e2 == nil && !bytes.Equal(alt.BlockHash, e.p.BlockHash) {
			e.alt = alt
		}
		// nested: the root chain moves on in the middle of this height and re-weights the committee (the strongest member
		// multiplies its stake: the member order is kept); the victim's in-memory validator set follows, the certificates of
		// this height still name the older root height
		if nested && rapid.IntRange(0, 3).Draw(t, "rootShift") > 0 {
			top := e.vs.ValidatorSet.ValidatorSet[0]
			ki := -1
			for i := 0; i < w.NVals+w.Spare; i++ {
				if bytes.Equal(keys.BLS(i).PublicKey().Bytes(), top.PublicKey) {
					ki = i
				}
			}
			if ki >= 0 {
				rootStep(rootW.EditStake(ki, top.VotingPower*uint64(rapid.IntRange(2, 6).Draw(t, "topFactor")), 10000, ra.Height()))
				if nvs, err := a.Committee(a.C.RootChainHeight()); err == nil {
					e.shift = &nvs
					committees[a.C.RootChainHeight()] = nvs
				}
				sim.Activate(b)
				b.RefreshConsensus() // bft NewHeight(true) on a root-chain update reloads the committee at the new root height
			}
		}
		// the victim may have validated the proposal already (cached result) or not (replay path)
		cached := rapid.Bool().Draw(t, "victimValidatedFirst")
		e.cached = cached
		if cached {
			if _, e2 := b.Validate(e.p.RcBuildHeight, e.base); e2 != nil {
				t.Fatalf("VIOLATION(C11-like): B rejects A's valid proposal: %v", e2)
			}
		}
		committedAt, forked, forkedBlock := -1, false, false
		nCand := rapid.IntRange(5, 12).Draw(t, "nCand")
		// draw all candidates of this height, then offer those that must be rejected first and the genuine ones last (after
		// the first commit only the "same certificate at another node height" rule is exercised)
		var cands []*cand
		for ci := 0; ci < nCand; ci++ {
			cands = append(cands, e.genCandidate(t))
		}
		if e.height > 1 {
			cands = append(cands, e.genLastQC(t)) // the inner last-certificate re-check is reachable here: always try it
		}
		if equal {
			// equally staked committee: a below-threshold signer set with EVERY padding bit set, and one with unsigned member bits
			cands = append(cands, e.genCandidateOf(t, "padding-bits"), e.genCandidateOf(t, "padding-bits"), e.genCandidateOf(t, "extra-bits"))
		}
		if e.shift != nil {
			for _, dir := range []string{"up", "down", "up"} {
				if c := e.genRootShift(t, dir); c != nil {
					cands = append(cands, c)
				}
			}
		}
		rank := func(c *cand) int {
			v, _ := e.expect(c, committeeAt)
			return map[verdict]int{mustReject: 0, either: 1, mustCommit: 2}[v]
		}
		sort.SliceStable(cands, func(i, j int) bool { return rank(cands[i]) < rank(cands[j]) })
		afterCommit := 0
		for ci, c := range cands {
			if committedAt >= 0 {
				if afterCommit >= 2 {
					break
				}
				afterCommit++
			}
			cs := rec.Case()
			want, why := e.expect(c, committeeAt)
			if committedAt >= 0 {
				want, why = mustReject, "B already committed this height"
			}
			cs.Class("kind=" + c.kind)
			cs.Class("expect=" + want.String())
			for _, l := range c.classes {
				cs.Class(l)
			}
			cs.ClassIf(cached, "victim=validated-first")
			cs.ClassIf(!cached, "victim=replay")
			cs.ClassIf(committedAt >= 0, "after-commit(other node height)")
			cs.Desc("%s prefix=%d h=%d root=%d cached=%v", chainDesc, prefix, e.height, e.rootH, cached)
			cs.Desc("%s: %s", c.kind, c.desc)
			before := takeSnap(t, b, !cached)
			_, derr := b.Deliver(nodesim.CloneQC(c.qc), false)
			committed := derr == nil
			after := takeSnap(t, b, !cached || committed)
			if committed != (after.version == before.version+1) || (!committed && after.version != before.version) {
				t.Fatalf("VIOLATION: HandlePeerBlock err=%v but version %d -> %d\ncandidate %s: %s", derr, before.version, after.version, c.kind, c.desc)
			}
			switch {
			case committed && want == mustReject:
				t.Fatalf("VIOLATION C02: B COMMITTED a block on a candidate that must be rejected (%s)\nchain: %s\ncandidate %s: %s\nheader=%v bitmap=%x", why, cs.Descriptor(), c.kind, c.desc, c.qc.Header, bitmapOf(c.qc))
			case !committed && want == mustCommit:
				t.Fatalf("VIOLATION C02/C11: B REJECTED the genuine certificate (%s): %v\nchain: %s\ncandidate %s: %s", why, derr, cs.Descriptor(), c.kind, c.desc)
			}
			cs.ClassIf(want == either && committed, "either->committed:"+c.kind)
			cs.ClassIf(want == either && !committed, "either->rejected:"+c.kind)
			if !committed {
				cs.Class("rejected-with:" + errClass(derr))
				// nothing changed
				if after.lastHash != before.lastHash || after.lastRoot != before.lastRoot || after.committed != before.committed || after.height != before.height {
					t.Fatalf("VIOLATION C02/C07: rejected candidate changed B's committed state\ncandidate %s: %s", c.kind, c.desc)
				}
				if !cached && after.working != before.working {
					t.Fatalf("VIOLATION C02/C07: rejected candidate left uncommitted writes in B's working state\ncandidate %s: %s", c.kind, c.desc)
				}
				if committedAt < 0 {
					if qc, e2 := b.Serve(e.height); e2 == nil && qc != nil && qc.Header != nil && qc.Header.Height == e.height && len(qc.Block) != 0 {
						t.Fatalf("VIOLATION C02/C07: B serves a certificate for height %d after rejecting it\ncandidate %s: %s", e.height, c.kind, c.desc)
					}
				}
			} else {
				committedAt = ci
				if c.override != nil {
					// an "either" next-block candidate (another but acceptable last certificate embedded, certified by a quorum):
					// B committed THAT block, not A's; what it holds must be exactly what was offered; the chain ends here
					got, e2 := b.Serve(e.height)
					if e2 != nil || !bytes.Equal(got.Block, c.qc.Block) || !bytes.Equal(got.BlockHash, c.qc.BlockHash) {
						t.Fatalf("VIOLATION C02: B committed height %d but its archive does not hold the offered block (%v)", e.height, e2)
					}
					forkedBlock = true
					cs.Done(true)
					break
				}
				checkCommitted(t, e, b, c)
				if !c.qc.EqualPayloads(e.base) {
					// B committed a certificate a (Byzantine) quorum signed with another results hash / proposer key than the honest
					// one: the two nodes now hold different last certificates, the chain cannot continue in lock-step
					forked = true
				}
			}
			cs.Done(c.nontrivial || c.kind == "subset")
		}
		if forkedBlock {
			break // B holds another (acceptable) block of this height than A will: no lock-step continuation
		}
		// B still accepts the valid pair afterwards
		if committedAt < 0 {
			if _, e2 := b.Deliver(nodesim.CloneQC(e.base), false); e2 != nil {
				t.Fatalf("VIOLATION C02: after the rejected candidates B no longer accepts the valid pair: %v", e2)
			}
			checkCommitted(t, e, b, &cand{qc: e.base})
		}
		if _, e2 := a.Deliver(nodesim.CloneQC(e.base), false); e2 != nil {
			t.Fatalf("A cannot commit its own certified block: %v", e2)
		}
		g.Certified = append(g.Certified, e.base)
		// both nodes are in the same state
		sa, sb := takeSnap(t, a, true), takeSnap(t, b, true)
		if sa.lastHash != sb.lastHash || sa.committed != sb.committed || sa.working != sb.working || sa.version != sb.version {
			t.Fatalf("VIOLATION C02/C03: A and B differ after height %d (hash %s vs %s)", e.height, sa.lastHash, sb.lastHash)
		}
		if forked {
			break
		}
	}
}

// checkCommitted: what B committed is exactly the certified block
func checkCommitted(t *rapid.T, e *env, b *nodesim.Node, c *cand) {
	qc, err := b.Serve(e.height)
	if err != nil {
		t.Fatalf("B committed height %d but cannot serve it: %v", e.height, err)
	}
	if !bytes.Equal(qc.BlockHash, e.p.BlockHash) || !bytes.Equal(qc.Block, e.p.Block) {
		t.Fatalf("VIOLATION C02: B committed height %d but its archive holds another block than the certified one", e.height)
	}
	if !bytes.Equal(qc.Results.Hash(), qc.ResultsHash) {
		t.Fatalf("VIOLATION C02/C03: B indexed a certificate whose results do not match its results hash")
	}
	hd := b.LastHeader()
	if hd == nil || !bytes.Equal(hd.Hash, e.p.BlockHash) {
		t.Fatalf("VIOLATION C02: B's last header is not the certified block")
	}
}

func bitmapOf(qc *lib.QuorumCertificate) []byte {
	if qc == nil || qc.Signature == nil {
		return nil
	}
	return qc.Signature.Bitmap
}

func errClass(e lib.ErrorI) string {
	if e == nil {
		return "nil"
	}
	return fmt.Sprintf("%s/%d", e.Module(), e.Code())
}
