// Package c10 decides property C10: point reads, forward/reverse prefix iteration, nested transactions,
// copies and read-only historical views of the store behave like a simple versioned map, and what a reader
// observes as of a committed version never changes afterwards (later writes, compaction, rollback to a
// version >= it, close + re-open).
package c10

import (
	"bytes"
	"encoding/binary"
	"fmt"
	"slices"
	"sort"
	"strings"
	"testing"

	"github.com/canopy-network/canopy/lib"
	"github.com/canopy-network/canopy/store"
	"github.com/cockroachdb/pebble/v2/vfs"
	"pgregory.net/rapid"

	"verif/h/ev"
	sm "verif/h/storemodel"
)

type fataler interface {
	Fatalf(string, ...any)
}

// ---------------------------------------------------------------------------------------------------------------------
// key domain: lib.JoinLenPrefix streams, fixed arity per first segment (=> no key is a byte prefix of another)

var segAlphabet = [][]byte{[]byte("a"), []byte("b"), []byte("ab"), {}, {0xff}, {0x00}, bytes.Repeat([]byte{0xff}, 8)}
var segNames = []string{"a", "b", "ab", "e", "F", "0", "V"}

type table struct {
	first []byte
	arity int // number of segments after the first
}

var tables = []table{{[]byte("A"), 1}, {[]byte("B"), 2}, {[]byte("AB"), 1}, {[]byte{0xff}, 2}, {[]byte("M"), 1}}

// massKeys: 100 more keys of table M ([M][2-byte index]) for blocks that delete many distinct keys at once
var massKeys = func() [][]byte {
	var out [][]byte
	for i := 0; i < 100; i++ {
		out = append(out, lib.JoinLenPrefix([]byte("M"), []byte{byte(i >> 8), byte(i)}))
	}
	return out
}()

func segName(s []byte) string {
	for i, a := range segAlphabet {
		if bytes.Equal(a, s) {
			return segNames[i]
		}
	}
	if len(s) == 1 && s[0] == 0xff {
		return "F"
	}
	if len(s) == 2 && s[0] == 0 {
		return fmt.Sprintf("#%d", s[1])
	}
	return string(s)
}

// keyName renders a key (or prefix) readably: segments joined by '.'
func keyName(k []byte) string {
	if len(k) == 0 {
		return "*"
	}
	var parts []string
	for _, s := range lib.DecodeLengthPrefixed(k) {
		parts = append(parts, segName(s))
	}
	return strings.Join(parts, ".")
}

func allKeys() [][]byte {
	var out [][]byte
	for _, tb := range tables {
		if tb.arity == 1 {
			for _, a := range segAlphabet {
				out = append(out, lib.JoinLenPrefix(tb.first, a))
			}
		} else {
			for _, a := range segAlphabet[:5] {
				for _, b := range segAlphabet[:5] {
					out = append(out, lib.JoinLenPrefix(tb.first, a, b))
				}
			}
		}
	}
	return out
}

var keyUniverse = allKeys()

func valName(v []byte) string {
	if v == nil {
		return "nil"
	}
	return fmt.Sprintf("%x", v)
}

func eqVal(a, b []byte) bool { return (len(a) == 0 && len(b) == 0) || bytes.Equal(a, b) }

func render(l []sm.KV, name func([]byte) string) string {
	var sb strings.Builder
	for i, e := range l {
		if i > 0 {
			sb.WriteByte('|')
		}
		sb.WriteString(name(e.Key))
		sb.WriteByte('=')
		fmt.Fprintf(&sb, "%x", e.Value)
	}
	return sb.String()
}

// scan consumes an iterator in the canonical form and closes it
func scan(t fataler, it lib.IteratorI) []sm.KV {
	defer it.Close()
	var out []sm.KV
	for ; it.Valid(); it.Next() {
		out = append(out, sm.KV{Key: bytes.Clone(it.Key()), Value: bytes.Clone(it.Value())})
		if len(out) > 4000 {
			t.Fatalf("iterator does not terminate (more than 4000 entries over a universe of %d keys)", len(keyUniverse))
		}
	}
	return out
}

func sameList(a, b []sm.KV) bool {
	if len(a) != len(b) {
		return false
	}
	for i := range a {
		if !bytes.Equal(a[i].Key, b[i].Key) || !eqVal(a[i].Value, b[i].Value) {
			return false
		}
	}
	return true
}

// ---------------------------------------------------------------------------------------------------------------------
// indexer keyspace through the exported checkpoint API: (chain, height) -> block hash

func idxKey(chain, height uint64) []byte {
	k := make([]byte, 16)
	binary.BigEndian.PutUint64(k, chain)
	binary.BigEndian.PutUint64(k[8:], height)
	return k
}

func idxPrefix(chain uint64) []byte { return idxKey(chain, 0)[:8] }

func idxName(k []byte) string {
	if len(k) == 8 {
		return fmt.Sprintf("c%d", binary.BigEndian.Uint64(k))
	}
	return fmt.Sprintf("c%d@%d", binary.BigEndian.Uint64(k), binary.BigEndian.Uint64(k[8:]))
}

// ---------------------------------------------------------------------------------------------------------------------

type copyH struct {
	st     lib.StoreI
	sv, iv *sm.View
	id     int
}

type roH struct {
	st lib.StoreI
	v  uint64
}

type memoKey struct {
	v    uint64
	kind byte // g get, i iterate, G idx get, I idx all, R idx most recent
	arg  string
	rev  bool
}

type machine struct {
	t          *rapid.T
	ec         *ev.Case
	fs         *vfs.MemFS
	cfg        lib.Config
	top        *store.Store
	state, idx *sm.VMap
	sv, iv     *sm.View
	nest       []lib.StoreI
	copies     []*copyH
	ros        []*roH
	copySeq    int
	hot        [][]byte
	memo       map[memoKey]string
	memoOrder  []memoKey
	events     int

	// counters for the non-trivial rule and the class distribution
	revAcross     bool // a reverse historical iteration crossed a key with >=3 versions incl. a tombstone at a version between
	revAcrossThen bool // ... and a compaction or rollback happened later (with the answer re-asked)
	reasked       int
	histQueries   int
}

func (m *machine) open() {
	s, err := store.VerifOpenWithFS(m.fs, "db", 0, m.cfg, lib.NewNullLogger())
	if err != nil {
		m.t.Fatalf("open store: %v", err)
	}
	m.top = s
	if s.Version() != m.state.Version() {
		m.t.Fatalf("store opened at version %d, the last committed version is %d", s.Version(), m.state.Version())
	}
}

// cur is the store writes go to (deepest nested transaction, or the top-level store)
func (m *machine) cur() lib.StoreI {
	if len(m.nest) > 0 {
		return m.nest[len(m.nest)-1]
	}
	return m.top
}

func (m *machine) level(l int) lib.StoreI {
	if l == 0 {
		return m.top
	}
	return m.nest[l-1]
}

func (m *machine) drawKey() []byte {
	if rapid.IntRange(0, 9).Draw(m.t, "ksrc") < 8 {
		return m.hot[rapid.IntRange(0, len(m.hot)-1).Draw(m.t, "hot")]
	}
	return keyUniverse[rapid.IntRange(0, len(keyUniverse)-1).Draw(m.t, "key")]
}

func (m *machine) drawVal() []byte {
	switch x := rapid.IntRange(0, 11).Draw(m.t, "vkind"); {
	case x == 0:
		return nil
	case x == 1:
		return []byte{}
	case x == 2:
		return bytes.Repeat([]byte{byte(rapid.IntRange(0, 255).Draw(m.t, "fill"))}, rapid.IntRange(9, 40).Draw(m.t, "vlen"))
	case x == 3:
		return []byte{0} // looks like an "alive" marker
	case x == 4:
		return []byte{1} // looks like a tombstone marker
	default:
		return rapid.SliceOfN(rapid.Byte(), 1, 3).Draw(m.t, "v")
	}
}

func (m *machine) drawPrefix() []byte {
	switch rapid.IntRange(0, 9).Draw(m.t, "pkind") {
	case 0:
		return nil
	case 1:
		return []byte{}
	case 2, 3:
		tb := tables[rapid.IntRange(0, len(tables)-1).Draw(m.t, "ptable")]
		return lib.JoinLenPrefix(tb.first)
	case 4, 5, 6:
		// first two segments of a hot key (whole key for arity-1 tables: the "empty suffix" prefix)
		k := m.drawKey()
		segs := lib.DecodeLengthPrefixed(k)
		return lib.JoinLenPrefix(segs[0], segs[1])
	case 7:
		return bytes.Clone(m.drawKey()) // a complete key as prefix
	case 8:
		return lib.JoinLenPrefix([]byte("Z")) // nothing below
	default:
		tb := tables[rapid.IntRange(0, len(tables)-1).Draw(m.t, "ptable")]
		return lib.JoinLenPrefix(tb.first, segAlphabet[rapid.IntRange(0, len(segAlphabet)-1).Draw(m.t, "pseg")])
	}
}

// ---- comparisons -----------------------------------------------------------------------------------------------------

func (m *machine) checkGet(where string, r lib.RStoreI, view *sm.View, k []byte) string {
	got, err := r.Get(bytes.Clone(k))
	if err != nil {
		m.t.Fatalf("%s: Get(%s): %v", where, keyName(k), err)
	}
	want, present := view.Get(k)
	if !eqVal(got, want) {
		m.t.Fatalf("%s: Get(%s) = %s, the versioned map says %s (present=%v)\nhistory: %s", where, keyName(k), valName(got), valName(want), present, m.ec.Descriptor())
	}
	return fmt.Sprintf("%x", got)
}

func (m *machine) checkIter(where string, r lib.RStoreI, view *sm.View, p []byte, rev bool) string {
	var it lib.IteratorI
	var err lib.ErrorI
	if rev {
		it, err = r.RevIterator(bytes.Clone(p))
	} else {
		it, err = r.Iterator(bytes.Clone(p))
	}
	if err != nil {
		m.t.Fatalf("%s: iterator(%s): %v", where, keyName(p), err)
	}
	got := scan(m.t, it)
	want := view.Iterate(p, rev)
	if !sameList(got, want) {
		m.t.Fatalf("%s: iterate(prefix %s, reverse=%v)\n  store: %s\n  model: %s\nhistory: %s", where, keyName(p), rev, render(got, keyName), render(want, keyName), m.ec.Descriptor())
	}
	return render(got, keyName)
}

func (m *machine) checkIdxGet(where string, st lib.RIndexerI, view *sm.View, chain, height uint64) string {
	got, err := st.GetCheckpoint(chain, height)
	if err != nil {
		m.t.Fatalf("%s: GetCheckpoint(%d,%d): %v", where, chain, height, err)
	}
	want, _ := view.Get(idxKey(chain, height))
	if !eqVal(got, want) {
		m.t.Fatalf("%s: GetCheckpoint(%d,%d) = %x, the versioned map says %x\nhistory: %s", where, chain, height, []byte(got), want, m.ec.Descriptor())
	}
	return fmt.Sprintf("%x", []byte(got))
}

func (m *machine) checkIdxAll(where string, st lib.RIndexerI, view *sm.View, chain uint64) string {
	cps, err := st.GetAllCheckpoints(chain)
	if err != nil {
		m.t.Fatalf("%s: GetAllCheckpoints(%d): %v", where, chain, err)
	}
	var got []sm.KV
	for _, c := range cps {
		got = append(got, sm.KV{Key: idxKey(chain, c.Height), Value: c.BlockHash})
	}
	want := view.Iterate(idxPrefix(chain), false)
	if !sameList(got, want) {
		m.t.Fatalf("%s: GetAllCheckpoints(%d)\n  store: %s\n  model: %s\nhistory: %s", where, chain, render(got, idxName), render(want, idxName), m.ec.Descriptor())
	}
	return render(got, idxName)
}

func (m *machine) checkIdxRecent(where string, st lib.RIndexerI, view *sm.View, chain uint64) string {
	cp, err := st.GetMostRecentCheckpoint(chain)
	if err != nil {
		m.t.Fatalf("%s: GetMostRecentCheckpoint(%d): %v", where, chain, err)
	}
	want := view.Iterate(idxPrefix(chain), true)
	var wh uint64
	var wv []byte
	if len(want) > 0 {
		wh, wv = binary.BigEndian.Uint64(want[0].Key[8:]), want[0].Value
	}
	if cp == nil || cp.Height != wh || !eqVal(cp.BlockHash, wv) {
		m.t.Fatalf("%s: GetMostRecentCheckpoint(%d) = %v, the versioned map says height %d hash %x\nhistory: %s", where, chain, cp, wh, wv, m.ec.Descriptor())
	}
	return fmt.Sprintf("%d=%x", cp.Height, cp.BlockHash)
}

// ---- historical reads ------------------------------------------------------------------------------------------------

var histModes = []string{"ro", "hss-seek", "hss-linear"}

// histReader opens a reader of the state as of version v in one of three ways; the returned func closes it
func (m *machine) histReader(v uint64, mode string) (lib.RStoreI, lib.RIndexerI, func()) {
	switch mode {
	case "ro":
		from := m.cur()
		if m.events%2 == 0 {
			from = m.top
		}
		ro, err := from.NewReadOnly(v)
		if err != nil {
			m.t.Fatalf("NewReadOnly(%d): %v", v, err)
		}
		return ro, ro, ro.Discard
	default:
		// the same partition read the way the indexer reads (linear) or the state reads (seek)
		vs := store.NewVersionedStore(m.top.DB().NewSnapshot(), nil, v)
		tx := store.NewTxn(vs, nil, store.VerifHistoricStatePrefix(), false, false, mode == "hss-seek")
		return tx, nil, func() { _ = tx.Close() }
	}
}

func (m *machine) remember(k memoKey, where, ans string) {
	if old, ok := m.memo[k]; ok {
		if old != ans {
			m.t.Fatalf("%s: the answer to a query as of committed version %d changed\n  query: kind=%c arg=%s reverse=%v\n  before: %s\n  now:    %s\nhistory: %s",
				where, k.v, k.kind, k.arg, k.rev, old, ans, m.ec.Descriptor())
		}
		return
	}
	if len(m.memoOrder) >= 40 {
		return
	}
	m.memo[k] = ans
	m.memoOrder = append(m.memoOrder, k)
}

// ask answers one recorded (or new) historical query against the store, compares with the model and the memo
func (m *machine) ask(k memoKey, mode, where string) {
	r, ri, done := m.histReader(k.v, mode)
	defer done()
	where = fmt.Sprintf("%s[v%d %s]", where, k.v, mode)
	sv, iv := sm.ReadOnly(m.state, k.v), sm.ReadOnly(m.idx, k.v)
	var ans string
	switch k.kind {
	case 'g':
		ans = m.checkGet(where, r, sv, []byte(k.arg))
	case 'i':
		ans = m.checkIter(where, r, sv, []byte(k.arg), k.rev)
	case 'G':
		ans = m.checkIdxGet(where, ri, iv, binary.BigEndian.Uint64([]byte(k.arg)), binary.BigEndian.Uint64([]byte(k.arg)[8:]))
	case 'I':
		ans = m.checkIdxAll(where, ri, iv, binary.BigEndian.Uint64([]byte(k.arg)))
	case 'R':
		ans = m.checkIdxRecent(where, ri, iv, binary.BigEndian.Uint64([]byte(k.arg)))
	}
	m.remember(k, where, ans)
}

// reask re-asks every recorded historical answer
func (m *machine) reask(where string) {
	m.events++
	for i, k := range m.memoOrder {
		if k.v > m.state.Version() {
			continue
		}
		mode := "ro"
		if k.kind == 'g' || k.kind == 'i' {
			mode = histModes[(i+m.events)%3]
		}
		m.ask(k, mode, where)
		m.reasked++
	}
}

// sweep reads the whole state and index as of every committed version in every mode
func (m *machine) sweep(where string) {
	for v := uint64(1); v <= m.state.Version(); v++ {
		for _, mode := range histModes {
			r, ri, done := m.histReader(v, mode)
			w := fmt.Sprintf("%s[sweep v%d %s]", where, v, mode)
			m.checkIter(w, r, sm.ReadOnly(m.state, v), nil, false)
			m.checkIter(w, r, sm.ReadOnly(m.state, v), nil, true)
			if ri != nil {
				for c := uint64(1); c <= 2; c++ {
					m.checkIdxAll(w, ri, sm.ReadOnly(m.idx, v), c)
					m.checkIdxRecent(w, ri, sm.ReadOnly(m.idx, v), c)
				}
				m.checkJournal(w, ri, v)
			}
			done()
		}
	}
	// the live store: the journal of every committed version, and nothing for the version after (e.g. one removed by a rollback)
	for v := uint64(1); v <= m.state.Version()+1; v++ {
		m.checkJournal(where+"[sweep live store]", m.top, v)
	}
}

// crossesVersionedKey: does a reverse iteration over prefix p as of v cross a key with >=3 versions incl. a tombstone, v strictly inside?
func (m *machine) crossesVersionedKey(p []byte, v uint64) bool {
	for _, k := range m.state.Keys() {
		if !bytes.HasPrefix([]byte(k), p) {
			continue
		}
		h := m.state.History([]byte(k))
		if len(h) < 3 || v < h[0].Version || v >= h[len(h)-1].Version {
			continue
		}
		for _, e := range h {
			if e.Del {
				return true
			}
		}
	}
	return false
}

// ---- lifecycle helpers -----------------------------------------------------------------------------------------------

func (m *machine) dropViews() {
	for _, c := range m.copies {
		c.st.Discard()
	}
	for _, r := range m.ros {
		r.st.Discard()
	}
	m.copies, m.ros = nil, nil
}

// unwind closes every nested transaction (flush or discard, generated)
func (m *machine) unwind() {
	for len(m.nest) > 0 {
		n := m.nest[len(m.nest)-1]
		if rapid.Bool().Draw(m.t, "unwindFlush") {
			m.ec.Desc("flush")
			if err := n.Flush(); err != nil {
				m.t.Fatalf("nested Flush: %v", err)
			}
			m.sv.FlushTop()
			m.iv.FlushTop()
		} else {
			m.ec.Desc("discard")
			n.Discard()
		}
		m.sv.Pop()
		m.iv.Pop()
		m.nest = m.nest[:len(m.nest)-1]
	}
}

func (m *machine) closeStore() {
	m.dropViews()
	m.nest = nil
	for m.sv.Depth() > 0 {
		m.sv.Pop()
		m.iv.Pop()
	}
	m.sv.DiscardTop()
	m.iv.DiscardTop()
	if err := m.top.Close(); err != nil {
		m.t.Fatalf("Close: %v", err)
	}
	m.top = nil
}

// checkJournal compares StateChangeKeys(v) (all keys, and restricted to one table) with the keys the commit of version v
// touched in the model; with journaling off, and for versions that do not exist (any more), it must say "not available"
func (m *machine) checkJournal(where string, r lib.RIndexerI, v uint64) {
	keys, available, err := r.StateChangeKeys(v, nil)
	if err != nil {
		m.t.Fatalf("%s: StateChangeKeys(%d): %v", where, v, err)
	}
	if !m.cfg.StoreConfig.StateChangeJournalEnabled || v > m.state.Version() {
		if available || len(keys) != 0 {
			m.t.Fatalf("%s: StateChangeKeys(%d) reports a journal of %d keys (journaling on: %v, committed version: %d)\nhistory: %s", where, v, len(keys), m.cfg.StoreConfig.StateChangeJournalEnabled, m.state.Version(), m.ec.Descriptor())
		}
		return
	}
	var got []string
	for _, k := range keys {
		got = append(got, string(k))
	}
	sort.Strings(got)
	want := m.state.TouchedAt(v)
	name := func(l []string) (o []string) {
		for _, k := range l {
			o = append(o, keyName([]byte(k)))
		}
		return
	}
	if !available || !slices.Equal(got, want) {
		m.t.Fatalf("%s: StateChangeKeys(%d) available=%v\n  store: %v\n  model: %v\nhistory: %s", where, v, available, name(got), name(want), m.ec.Descriptor())
	}
	tb := tables[int(v)%len(tables)]
	p := lib.JoinLenPrefix(tb.first)
	sub, _, err := r.StateChangeKeys(v, p)
	n := 0
	for _, k := range want {
		if bytes.HasPrefix([]byte(k), p) {
			n++
		}
	}
	if err != nil || len(sub) != n {
		m.t.Fatalf("%s: StateChangeKeys(%d, table %s) = %d keys (%v), the commit touched %d keys of that table\nhistory: %s", where, v, keyName(p), len(sub), err, n, m.ec.Descriptor())
	}
}

// commit commits the top-level store and the model and re-asks the recorded historical answers
func (m *machine) commit() {
	t := m.t
	m.ec.Desc("commit")
	want := sm.Root(m.sv.State())
	root, err := m.top.Commit()
	if err != nil {
		t.Fatalf("Commit: %v", err)
	}
	m.state.Commit(m.sv.Overlays[0])
	m.idx.Commit(m.iv.Overlays[0])
	if m.top.Version() != m.state.Version() {
		t.Fatalf("after Commit the store is at version %d, expected %d", m.top.Version(), m.state.Version())
	}
	if !bytes.Equal(root, want) {
		t.Fatalf("Commit() root %x, reference commitment of the model state %x", root, want)
	}
	m.checkJournal(fmt.Sprintf("after commit %d", m.state.Version()), m.top, m.state.Version())
	m.reask(fmt.Sprintf("after commit %d", m.state.Version()))
}

// ---------------------------------------------------------------------------------------------------------------------

func runCase(t *rapid.T, ec *ev.Case) bool {
	cfg := lib.DefaultConfig()
	cfg.StoreConfig.LSSCompactionInterval = 0 // no background compaction goroutine: compaction is an explicit operation of the history
	cfg.StoreConfig.StateChangeJournalEnabled = rapid.Bool().Draw(t, "stateChangeJournal")
	ec.Desc("journal=%v", cfg.StoreConfig.StateChangeJournalEnabled)
	ec.ClassIf(cfg.StoreConfig.StateChangeJournalEnabled, "state-change-journal=on")
	m := &machine{t: t, ec: ec, fs: vfs.NewMem(), cfg: cfg, state: sm.NewVMap(), idx: sm.NewVMap(), memo: map[memoKey]string{}}
	m.sv, m.iv = sm.NewView(m.state, sm.Latest), sm.NewView(m.idx, sm.Latest)
	m.open()
	defer func() {
		if m.top != nil {
			m.dropViews()
			_ = m.top.Close()
		}
	}()
	nHot := rapid.IntRange(2, 6).Draw(t, "nHot")
	for len(m.hot) < nHot {
		m.hot = append(m.hot, keyUniverse[rapid.IntRange(0, len(keyUniverse)-1).Draw(t, "hotkey")])
	}
	steps := rapid.IntRange(40, 120).Draw(t, "steps")
	var nCommit, nCompact, nRollback, nReopen, nNestFlush, nNestDiscard, nCopy, maxDepth, nRev, nIdxIter, nMassDel int
	ops := []string{
		"set", "set", "set", "set", "set", "set", "set", "del", "del", "del", "get", "get", "iter", "iter", "iter",
		"push", "push", "push", "pop", "pop", "commit", "commit", "commit", "commit", "reset", "copy", "copyop", "copyop", "copyend",
		"hist", "hist", "hist", "hist", "hist", "hist", "rohold", "roheld", "compact", "compact", "rollback", "rollback", "reopen",
		"churn", "churn", "churn", "massdel", "massdel",
		"idxset", "idxset", "idxdel", "idxget", "idxiter", "idxiter",
	}
	for step := 0; step < steps; step++ {
		op := rapid.SampledFrom(ops).Draw(t, "op")
		switch op {
		case "set":
			k, v := m.drawKey(), m.drawVal()
			ec.Desc("set %s=%s", keyName(k), valName(v))
			if err := m.cur().Set(bytes.Clone(k), bytes.Clone(v)); err != nil {
				t.Fatalf("Set: %v", err)
			}
			m.sv.Set(k, v)
		case "del":
			k := m.drawKey()
			ec.Desc("del %s", keyName(k))
			if err := m.cur().Delete(bytes.Clone(k)); err != nil {
				t.Fatalf("Delete: %v", err)
			}
			m.sv.Delete(k)
		case "get":
			l := m.sv.Depth()
			if l > 0 && rapid.IntRange(0, 9).Draw(t, "parent") < 3 {
				l = rapid.IntRange(0, l-1).Draw(t, "lvl")
			}
			k := m.drawKey()
			ec.Desc("get@%d %s", l, keyName(k))
			m.checkGet(fmt.Sprintf("step %d level %d", step, l), m.level(l), m.sv.Level(l), k)
		case "iter":
			l := m.sv.Depth()
			if l > 0 && rapid.IntRange(0, 9).Draw(t, "parent") < 3 {
				l = rapid.IntRange(0, l-1).Draw(t, "lvl")
			}
			p, rev := m.drawPrefix(), rapid.Bool().Draw(t, "rev")
			ec.Desc("iter@%d %s rev=%v", l, keyName(p), rev)
			m.checkIter(fmt.Sprintf("step %d level %d", step, l), m.level(l), m.sv.Level(l), p, rev)
			if rev {
				nRev++
			}
		case "push":
			if m.sv.Depth() >= 3 {
				continue
			}
			ec.Desc("begin")
			m.nest = append(m.nest, m.cur().NewTxn())
			m.sv.Push()
			m.iv.Push()
			maxDepth = max(maxDepth, m.sv.Depth())
		case "pop":
			if m.sv.Depth() == 0 {
				continue
			}
			n := m.nest[len(m.nest)-1]
			how := rapid.SampledFrom([]string{"flush", "flush", "discard", "discard", "flush-keep", "discard-keep"}).Draw(t, "how")
			ec.Desc(how)
			if strings.HasPrefix(how, "flush") {
				if err := n.Flush(); err != nil {
					t.Fatalf("nested Flush: %v", err)
				}
				m.sv.FlushTop()
				m.iv.FlushTop()
				nNestFlush++
			} else {
				n.Discard()
				m.sv.DiscardTop()
				m.iv.DiscardTop()
				nNestDiscard++
			}
			if !strings.HasSuffix(how, "keep") {
				m.sv.Pop()
				m.iv.Pop()
				m.nest = m.nest[:len(m.nest)-1]
			}
		case "commit":
			m.unwind()
			m.commit()
			nCommit++
		case "churn":
			// a few rounds of "write one hot key, commit": gives keys many committed versions and tombstones
			m.unwind()
			for r, rounds := 0, rapid.IntRange(2, 4).Draw(t, "rounds"); r < rounds; r++ {
				k := m.hot[rapid.IntRange(0, min(1, len(m.hot)-1)).Draw(t, "churnkey")]
				if rapid.IntRange(0, 9).Draw(t, "churndel") < 4 {
					ec.Desc("del %s", keyName(k))
					if err := m.top.Delete(bytes.Clone(k)); err != nil {
						t.Fatalf("Delete: %v", err)
					}
					m.sv.Delete(k)
				} else {
					v := m.drawVal()
					ec.Desc("set %s=%s", keyName(k), valName(v))
					if err := m.top.Set(bytes.Clone(k), bytes.Clone(v)); err != nil {
						t.Fatalf("Set: %v", err)
					}
					m.sv.Set(k, v)
				}
				m.commit()
				nCommit++
			}
		case "massdel":
			// a block that deletes more than 32 distinct keys at once (present and absent ones), usually followed by a block
			// that writes a few of them again: what was deleted in block N and re-created in N+1 must stay visible
			m.unwind()
			if rapid.IntRange(0, 9).Draw(t, "massfill") < 6 {
				lo := rapid.IntRange(0, 60).Draw(t, "fillfrom")
				hi := rapid.IntRange(lo+5, min(lo+60, len(massKeys))).Draw(t, "fillto")
				ec.Desc("fill M#%d..#%d", lo, hi-1)
				for _, k := range massKeys[lo:hi] {
					v := []byte{byte(step), 7}
					if err := m.top.Set(bytes.Clone(k), bytes.Clone(v)); err != nil {
						t.Fatalf("Set: %v", err)
					}
					m.sv.Set(k, v)
				}
				m.commit()
				nCommit++
			}
			n := rapid.IntRange(33, 80).Draw(t, "massn")
			from := rapid.IntRange(0, len(massKeys)-n).Draw(t, "massfrom")
			victims := append([][]byte{}, massKeys[from:from+n]...)
			victims = append(victims, m.hot...)
			ec.Desc("massdel M#%d..#%d+hot", from, from+n-1)
			for _, k := range victims {
				if err := m.top.Delete(bytes.Clone(k)); err != nil {
					t.Fatalf("Delete: %v", err)
				}
				m.sv.Delete(k)
			}
			m.commit()
			nCommit++
			nMassDel++
			if rapid.IntRange(0, 9).Draw(t, "rewrite") < 8 {
				var again [][]byte
				for i, cnt := 0, rapid.IntRange(1, 4).Draw(t, "rewriteN"); i < cnt; i++ {
					k := victims[rapid.IntRange(0, len(victims)-1).Draw(t, "rewriteKey")]
					v := m.drawVal()
					ec.Desc("set %s=%s", keyName(k), valName(v))
					if err := m.top.Set(bytes.Clone(k), bytes.Clone(v)); err != nil {
						t.Fatalf("Set: %v", err)
					}
					m.sv.Set(k, v)
					again = append(again, k)
				}
				m.commit()
				nCommit++
				for _, k := range again {
					m.checkGet(fmt.Sprintf("step %d after re-creating a mass-deleted key", step), m.top, m.sv, k)
				}
				m.checkIter(fmt.Sprintf("step %d after re-creating mass-deleted keys", step), m.top, m.sv, lib.JoinLenPrefix([]byte("M")), rapid.Bool().Draw(t, "rev"))
			}
		case "reset":
			if m.sv.Depth() != 0 {
				continue
			}
			ec.Desc("reset")
			m.top.Reset()
			m.sv.DiscardTop()
			m.iv.DiscardTop()
		case "copy":
			if len(m.copies) >= 2 {
				continue
			}
			c, err := m.top.Copy()
			if err != nil {
				t.Fatalf("Copy: %v", err)
			}
			m.copySeq++
			ec.Desc("copy#%d", m.copySeq)
			m.copies = append(m.copies, &copyH{st: c, sv: m.sv.Level(0).Fork(), iv: m.iv.Level(0).Fork(), id: m.copySeq})
			nCopy++
		case "copyop":
			if len(m.copies) == 0 {
				continue
			}
			c := m.copies[rapid.IntRange(0, len(m.copies)-1).Draw(t, "copy")]
			where := fmt.Sprintf("step %d copy#%d", step, c.id)
			switch rapid.IntRange(0, 7).Draw(t, "copyop") {
			case 0, 1:
				k, v := m.drawKey(), m.drawVal()
				ec.Desc("copy#%d set %s=%s", c.id, keyName(k), valName(v))
				if err := c.st.Set(bytes.Clone(k), bytes.Clone(v)); err != nil {
					t.Fatalf("copy Set: %v", err)
				}
				c.sv.Set(k, v)
			case 2:
				k := m.drawKey()
				ec.Desc("copy#%d del %s", c.id, keyName(k))
				if err := c.st.Delete(bytes.Clone(k)); err != nil {
					t.Fatalf("copy Delete: %v", err)
				}
				c.sv.Delete(k)
			case 3:
				k := m.drawKey()
				ec.Desc("copy#%d get %s", c.id, keyName(k))
				m.checkGet(where, c.st, c.sv, k)
			case 4, 5:
				p, rev := m.drawPrefix(), rapid.Bool().Draw(t, "rev")
				ec.Desc("copy#%d iter %s rev=%v", c.id, keyName(p), rev)
				m.checkIter(where, c.st, c.sv, p, rev)
			case 6:
				chain, h := uint64(rapid.IntRange(1, 2).Draw(t, "chain")), uint64(rapid.IntRange(1, 4).Draw(t, "cph"))
				ec.Desc("copy#%d idxget c%d@%d", c.id, chain, h)
				m.checkIdxGet(where, c.st, c.iv, chain, h)
				if c.iv.Overlays[0].Len() == 0 {
					m.checkIdxAll(where, c.st, c.iv, chain)
				}
			case 7:
				// Reset() of a copy re-snapshots; only while the original has not committed since the copy was taken
				// (afterwards the copy's version is stale; real callers take a fresh copy after every commit)
				if c.sv.At != m.state.Version() {
					continue
				}
				ec.Desc("copy#%d reset", c.id)
				c.st.Reset()
				c.sv.DiscardTop()
				c.iv.DiscardTop()
			}
		case "copyend":
			if len(m.copies) == 0 {
				continue
			}
			i := rapid.IntRange(0, len(m.copies)-1).Draw(t, "copy")
			ec.Desc("copy#%d discard", m.copies[i].id)
			m.copies[i].st.Discard()
			m.copies = append(m.copies[:i], m.copies[i+1:]...)
		case "hist":
			if m.state.Version() == 0 {
				continue
			}
			v := uint64(rapid.IntRange(1, int(m.state.Version())).Draw(t, "v"))
			mode := rapid.SampledFrom(histModes).Draw(t, "hmode")
			var k memoKey
			switch x := rapid.IntRange(0, 9).Draw(t, "hkind"); {
			case x < 2:
				k = memoKey{v: v, kind: 'g', arg: string(m.drawKey())}
				ec.Desc("hist v%d %s get %s", v, mode, keyName([]byte(k.arg)))
			case x < 7:
				k = memoKey{v: v, kind: 'i', arg: string(m.drawPrefix()), rev: rapid.IntRange(0, 2).Draw(t, "hrev") > 0}
				ec.Desc("hist v%d %s iter %s rev=%v", v, mode, keyName([]byte(k.arg)), k.rev)
				if k.rev && m.crossesVersionedKey([]byte(k.arg), v) {
					m.revAcross = true
				}
			default:
				mode = "ro"
				chain := uint64(rapid.IntRange(1, 2).Draw(t, "chain"))
				switch x {
				case 7:
					k = memoKey{v: v, kind: 'G', arg: string(idxKey(chain, uint64(rapid.IntRange(1, 4).Draw(t, "cph"))))}
				case 8:
					k = memoKey{v: v, kind: 'I', arg: string(idxPrefix(chain))}
				default:
					k = memoKey{v: v, kind: 'R', arg: string(idxPrefix(chain))}
				}
				ec.Desc("hist v%d idx %c %s", v, k.kind, idxName([]byte(k.arg)))
			}
			m.ask(k, mode, fmt.Sprintf("step %d", step))
			m.histQueries++
		case "rohold":
			if m.state.Version() == 0 || len(m.ros) >= 2 {
				continue
			}
			v := uint64(rapid.IntRange(1, int(m.state.Version())).Draw(t, "v"))
			ro, err := m.cur().NewReadOnly(v)
			if err != nil {
				t.Fatalf("NewReadOnly(%d): %v", v, err)
			}
			ec.Desc("ro-hold v%d", v)
			m.ros = append(m.ros, &roH{st: ro, v: v})
		case "roheld":
			if len(m.ros) == 0 {
				continue
			}
			i := rapid.IntRange(0, len(m.ros)-1).Draw(t, "ro")
			r := m.ros[i]
			p, rev := m.drawPrefix(), rapid.Bool().Draw(t, "rev")
			ec.Desc("ro-held v%d iter %s rev=%v", r.v, keyName(p), rev)
			where := fmt.Sprintf("step %d held read-only view v%d", step, r.v)
			ans := m.checkIter(where, r.st, sm.ReadOnly(m.state, r.v), p, rev)
			m.remember(memoKey{v: r.v, kind: 'i', arg: string(p), rev: rev}, where, ans)
			m.checkIdxAll(where, r.st, sm.ReadOnly(m.idx, r.v), 1)
			if rapid.Bool().Draw(t, "roclose") {
				r.st.Discard()
				m.ros = append(m.ros[:i], m.ros[i+1:]...)
			}
		case "compact":
			if m.state.Version() == 0 {
				continue
			}
			ec.Desc("flush+compact")
			if err := m.top.DB().Flush(); err != nil {
				t.Fatalf("DB().Flush(): %v", err)
			}
			if rapid.Bool().Draw(t, "compactAll") {
				if err := m.top.CompactAll(m.top.Version()); err != nil {
					t.Fatalf("CompactAll: %v", err)
				}
			}
			nCompact++
			if m.revAcross {
				m.revAcrossThen = true
			}
			m.reask("after flush+compact")
			m.sweep("after flush+compact")
		case "rollback":
			// offline maintenance operation, exactly as cmd/cli does it: stop, open, Rollback, close; then the node starts again
			if m.state.Version() < 2 {
				continue
			}
			target := uint64(rapid.IntRange(1, int(m.state.Version())-1).Draw(t, "target"))
			m.unwind()
			ec.Desc("rollback->%d", target)
			m.closeStore()
			m.open()
			if err := m.top.Rollback(target); err != nil {
				t.Fatalf("Rollback(%d): %v", target, err)
			}
			m.state.Rollback(target)
			m.idx.Rollback(target)
			if m.top.Version() != target {
				t.Fatalf("after Rollback(%d) the store is at version %d", target, m.top.Version())
			}
			if err := m.top.Close(); err != nil {
				t.Fatalf("Close after rollback: %v", err)
			}
			m.top = nil
			m.open()
			for k := range m.memo {
				if k.v > target {
					delete(m.memo, k)
				}
			}
			kept := m.memoOrder[:0]
			for _, k := range m.memoOrder {
				if k.v <= target {
					kept = append(kept, k)
				}
			}
			m.memoOrder = kept
			nRollback++
			if m.revAcross {
				m.revAcrossThen = true
			}
			where := fmt.Sprintf("after rollback to %d", target)
			m.checkIter(where, m.top, m.sv, nil, false)
			m.checkIter(where, m.top, m.sv, nil, true)
			m.reask(where)
			m.sweep(where)
		case "reopen":
			m.unwind()
			ec.Desc("close+reopen")
			m.closeStore()
			m.open()
			nReopen++
			m.checkIter("after re-open", m.top, m.sv, nil, false)
			m.reask("after re-open")
			m.sweep("after re-open")
		case "idxset":
			chain, h, v := uint64(rapid.IntRange(1, 2).Draw(t, "chain")), uint64(rapid.IntRange(1, 4).Draw(t, "cph")), m.drawVal()
			ec.Desc("idxset c%d@%d=%s", chain, h, valName(v))
			if err := m.cur().IndexCheckpoint(chain, &lib.Checkpoint{Height: h, BlockHash: bytes.Clone(v)}); err != nil {
				t.Fatalf("IndexCheckpoint: %v", err)
			}
			m.iv.Set(idxKey(chain, h), v)
		case "idxdel":
			// DeleteCheckpointsForChain iterates then deletes: only while the top-level indexer write set is empty (see assumptions)
			if m.iv.Overlays[0].Len() != 0 {
				ec.Class("skipped:indexer-iteration-while-top-level-indexer-writes-pending")
				continue
			}
			chain := uint64(rapid.IntRange(1, 2).Draw(t, "chain"))
			ec.Desc("idxdel c%d", chain)
			if err := m.cur().DeleteCheckpointsForChain(chain); err != nil {
				t.Fatalf("DeleteCheckpointsForChain: %v", err)
			}
			for _, e := range m.iv.Iterate(idxPrefix(chain), false) {
				m.iv.Delete(e.Key)
			}
		case "idxget":
			chain, h := uint64(rapid.IntRange(1, 2).Draw(t, "chain")), uint64(rapid.IntRange(1, 4).Draw(t, "cph"))
			ec.Desc("idxget c%d@%d", chain, h)
			m.checkIdxGet(fmt.Sprintf("step %d", step), m.cur(), m.iv, chain, h)
		case "idxiter":
			if m.iv.Overlays[0].Len() != 0 {
				ec.Class("skipped:indexer-iteration-while-top-level-indexer-writes-pending")
				continue
			}
			chain := uint64(rapid.IntRange(1, 2).Draw(t, "chain"))
			ec.Desc("idxiter c%d", chain)
			m.checkIdxAll(fmt.Sprintf("step %d", step), m.cur(), m.iv, chain)
			m.checkIdxRecent(fmt.Sprintf("step %d", step), m.cur(), m.iv, chain)
			nIdxIter++
		}
	}
	// final: everything visible now and as of every committed version
	m.checkIter("final", m.cur(), m.sv, nil, false)
	m.checkIter("final", m.cur(), m.sv, nil, true)
	m.reask("final")
	m.sweep("final")

	// class distribution
	maxVers, tomb := 0, false
	for _, k := range m.state.Keys() {
		h := m.state.History([]byte(k))
		if len(h) > maxVers {
			maxVers = len(h)
		}
		for _, e := range h {
			tomb = tomb || e.Del
		}
	}
	ec.ClassIf(maxVers >= 3, "key-with>=3-versions")
	ec.ClassIf(maxVers >= 6, "key-with>=6-versions")
	ec.ClassIf(tomb, "committed-tombstone")
	ec.ClassIf(nCompact > 0, "flush+compact")
	ec.ClassIf(nRollback > 0, "rollback")
	ec.ClassIf(nReopen > 0, "close+reopen")
	ec.ClassIf(nNestFlush > 0, "nested-flush")
	ec.ClassIf(nNestDiscard > 0, "nested-discard")
	ec.ClassIf(maxDepth >= 2, "nest-depth>=2")
	ec.ClassIf(maxDepth >= 3, "nest-depth=3")
	ec.ClassIf(nCopy > 0, "copy")
	ec.ClassIf(nRev > 0, "reverse-iteration-with-pending-writes")
	ec.ClassIf(nIdxIter > 0, "indexer-iteration")
	ec.ClassIf(m.histQueries > 0, "historical-query")
	ec.ClassIf(m.reasked >= 10, "re-asked>=10-historical-answers")
	ec.ClassIf(m.revAcross, "reverse-iteration-across-tombstoned-multiversion-key")
	ec.ClassIf(nCommit >= 4, "commits>=4")
	ec.ClassIf(nMassDel > 0, "block-deleting>32-keys")
	return m.revAcrossThen
}

// TestC10Store: generated histories on the real Store against the reference versioned map.
func TestC10Store(t *testing.T) {
	rec := ev.New(t, "C10")
	rapid.Check(t, func(t *rapid.T) {
		ec := rec.Case()
		nontrivial := runCase(t, ec)
		ec.Done(nontrivial)
	})
}
