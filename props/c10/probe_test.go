package c10

import (
	"fmt"
	"testing"

	"github.com/canopy-network/canopy/lib"
	"github.com/canopy-network/canopy/store"

	"verif/h/ev"
)

// TestC10PrefixKeyProbe is informational only (never fails): it records in the evidence whether the store still
// skips, in committed forward iteration, a key whose byte prefix is another key. That shape is outside the key
// domain of every core caller (see check.json assumptions) and therefore not part of the violation oracle.
func TestC10PrefixKeyProbe(t *testing.T) {
	rec := ev.New(t, "C10")
	c := rec.Case()
	s, err := store.NewStoreInMemory(lib.NewNullLogger())
	if err != nil {
		t.Skipf("open: %v", err)
	}
	st := s.(*store.Store)
	defer st.Close()
	ab, abc, ac := lib.JoinLenPrefix([]byte("ab")), lib.JoinLenPrefix([]byte("ab"), []byte("c")), lib.JoinLenPrefix([]byte("ac"))
	for _, k := range [][]byte{ab, abc, ac} {
		_ = st.Set(k, []byte{1})
	}
	count := func(rev bool) int {
		var it lib.IteratorI
		if rev {
			it, _ = st.RevIterator(nil)
		} else {
			it, _ = st.Iterator(nil)
		}
		defer it.Close()
		n := 0
		for ; it.Valid() && n < 100; it.Next() {
			n++
		}
		return n
	}
	pf, pr := count(false), count(true)
	if _, err = st.Commit(); err != nil {
		t.Skipf("commit: %v", err)
	}
	cf, cr := count(false), count(true)
	c.Desc("keys ab, ab.c, ac: pending fwd=%d rev=%d; committed fwd=%d rev=%d (3 = complete)", pf, pr, cf, cr)
	rec.Note("prefix-key-probe", c.Descriptor())
	c.ClassIf(cf != 3, "probe:committed-forward-iteration-skips-child-of-prefix-key")
	// second informational fact: the top-level indexer write set is unsorted, so indexer iteration does not see
	// indexer writes of the current (uncommitted) block, while point reads do (see check.json assumptions)
	tx := st.NewTxn()
	_ = tx.IndexCheckpoint(1, &lib.Checkpoint{Height: 5, BlockHash: []byte{0xaa}})
	inTx, _ := tx.GetMostRecentCheckpoint(1)
	_ = tx.Flush()
	afterFlush, _ := st.GetMostRecentCheckpoint(1)
	point, _ := st.GetCheckpoint(1, 5)
	_, _ = st.Commit()
	committed, _ := st.GetMostRecentCheckpoint(1)
	note := fmt.Sprintf("checkpoint (chain 1, height 5) indexed in a nested txn: GetMostRecentCheckpoint inside the txn -> height %d; after Flush to the block's write set -> height %d (GetCheckpoint sees it: %v); after Commit -> height %d",
		inTx.GetHeight(), afterFlush.GetHeight(), len(point) != 0, committed.GetHeight())
	rec.Note("indexer-pending-iteration-probe", note)
	c.ClassIf(afterFlush.GetHeight() != 5, "probe:indexer-iteration-does-not-see-uncommitted-top-level-writes")
	c.Done(false)
}
