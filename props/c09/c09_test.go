// Package c09 decides property C09 by fault enumeration: a generated history of blocks is written through the real
// Store on pebble's crashable in-memory file system; at file-system operation boundaries the file system is
// crash-cloned (synced data + a chosen share of the unsynced data), re-opened through the real open path and checked:
// it must open at a previously committed height with every component (latest state, historical state, commitment
// tree, block/tx/certificate/event/checkpoint indexes, commit ids) reflecting exactly that height, and continue.
package c09

import (
	"bytes"
	"crypto/sha256"
	"encoding/binary"
	"encoding/hex"
	"encoding/json"
	"fmt"
	"math"
	"math/rand/v2"
	"os"
	"runtime"
	"sort"
	"strconv"
	"strings"
	"sync"
	"testing"
	"time"

	"github.com/canopy-network/canopy/lib"
	"github.com/canopy-network/canopy/lib/crypto"
	"github.com/canopy-network/canopy/store"
	"github.com/cockroachdb/pebble/v2/vfs"
	"google.golang.org/protobuf/proto"

	"verif/h/crashfs"
	"verif/h/ev"
	sm "verif/h/storemodel"
)

// ---------------------------------------------------------------------------------------------------------------------
// workload: blocks as a pure function of (seed, index)

type stateOp struct {
	Key, Val []byte
	Del      bool
}

type block struct {
	h      uint64
	ops    []stateOp
	hdr    *lib.BlockHeader
	txs    []*lib.TxResult
	events []*lib.Event
	qc     *lib.QuorumCertificate
	cp     *lib.Checkpoint // checkpoint of chain 1 at this height (nil: none)
	size   string          // small | big (commit batch well above 1 MiB) | nearbig (just below 1 MiB)
}

// chain is one era of the history: the blocks by height as they are after the era's (optional) rollback. An era shares
// the blocks up to its fork height with the era before it.
type chain struct {
	blocks []*block            // blocks[h], h = 1..top+1 (the last one is never written by the workload: it only continues a re-opened store); blocks[0] = nil
	states []map[string][]byte // states[h] = state after block h
	roots  [][]byte            // reference commitment of states[h]
	forkAt uint64              // heights <= forkAt are shared with the previous era
	top    uint64              // last height the workload commits in this era
}

type stepKind int

const (
	stepBlock    stepKind = iota // apply + commit block h of the era
	stepRollback                 // close, open, Rollback(h), close, open: the era changes to era
)

type step struct {
	kind stepKind
	era  int
	h    uint64
}

type workload struct {
	Seed, Index  uint64
	kind         string // plain | big | nearbig | rollback
	eras         []*chain
	steps        []step
	maxHeight    uint64
	memTable     uint64
	settle       bool         // wait for the file system to go quiet after every commit
	flushAfter   map[int]bool // explicit DB().Flush() after the commit of these steps (a sync point)
	journal      bool         // StoreConfig.StateChangeJournalEnabled: every commit also journals the state keys it touched (indexer partition)
	compactAfter map[int]bool // explicit CompactAll() after the commit of these steps (what MaybeCompact does periodically)
}

func stateKey(i int) []byte {
	var b [4]byte
	binary.BigEndian.PutUint32(b[:], uint32(i))
	return lib.JoinLenPrefix([]byte("acc"), b[:])
}

func bigKey(i int) []byte {
	var b [4]byte
	binary.BigEndian.PutUint32(b[:], uint32(i))
	return lib.JoinLenPrefix([]byte("big"), b[:])
}

func hash(parts ...any) []byte {
	h := sha256.New()
	fmt.Fprint(h, parts...)
	return h.Sum(nil)
}

func randBytes(r *rand.Rand, n int) []byte {
	v := make([]byte, n)
	for j := 0; j+8 <= n; j += 8 {
		binary.LittleEndian.PutUint64(v[j:], r.Uint64())
	}
	for j := n &^ 7; j < n; j++ {
		v[j] = byte(r.UintN(256))
	}
	return v
}

// genBlock generates block h of an era on top of the state prev
func (w *workload) genBlock(r *rand.Rand, era int, h uint64, prev map[string][]byte, last *block, nKeys int, size string) (*block, map[string][]byte) {
	cur := make(map[string][]byte, len(prev))
	for k, v := range prev {
		cur[k] = v
	}
	b := &block{h: h, size: size}
	switch size {
	case "big", "nearbig":
		// one huge write set: LSS + HSS copies of n values of v bytes each plus the tree nodes = a commit batch well above
		// (big) or just below (nearbig) 1 MiB
		n, v := 700+r.IntN(300), 800+r.IntN(200)
		if size == "nearbig" {
			n, v = 420+r.IntN(60), 900
		}
		for i := 0; i < n; i++ {
			k, val := bigKey(i), randBytes(r, v)
			b.ops = append(b.ops, stateOp{Key: k, Val: val})
			cur[string(k)] = val
		}
	}
	nOps := 6 + r.IntN(40)
	for i := 0; i < nOps; i++ {
		k := stateKey(r.IntN(nKeys))
		if len(cur) > nKeys && r.IntN(3) == 0 {
			k = bigKey(r.IntN(400)) // later blocks also touch what a big block wrote
		}
		if _, present := cur[string(k)]; r.IntN(100) < 25 && (present || r.IntN(4) == 0) {
			b.ops = append(b.ops, stateOp{Key: k, Del: true})
			delete(cur, string(k))
			continue
		}
		v := randBytes(r, 1+r.IntN(400))
		if r.IntN(20) == 0 {
			v = []byte{}
		}
		b.ops = append(b.ops, stateOp{Key: k, Val: v})
		cur[string(k)] = v
	}
	root := sm.Root(cur)
	nTx := r.IntN(5)
	var lastHash []byte
	total := uint64(nTx)
	if last != nil {
		lastHash, total = last.hdr.Hash, last.hdr.TotalTxs+uint64(nTx)
	}
	b.hdr = &lib.BlockHeader{Height: h, Hash: hash("block", w.Seed, w.Index, era, h), NetworkId: 1, Time: 1_700_000_000_000_000 + h*1_000_000 + uint64(era),
		NumTxs: uint64(nTx), TotalTxs: total, LastBlockHash: lastHash, StateRoot: root, TransactionRoot: hash("txroot", era, h),
		ValidatorRoot: hash("vals"), NextValidatorRoot: hash("vals"), ProposerAddress: hash("proposer", r.IntN(3))[:20]}
	for i := 0; i < nTx; i++ {
		sender, rcpt := hash("addr", r.IntN(4))[:20], hash("addr", r.IntN(4))[:20]
		b.txs = append(b.txs, &lib.TxResult{Sender: sender, Recipient: rcpt, MessageType: "send", Height: h, Index: uint64(i),
			Transaction: &lib.Transaction{MessageType: "send", Signature: &lib.Signature{PublicKey: hash("pk", sender), Signature: hash("sig", w.Seed, w.Index, era, h, i)},
				CreatedHeight: h, Time: b.hdr.Time, Fee: 10000, Memo: fmt.Sprintf("m%d", r.IntN(1000)), NetworkId: 1, ChainId: 1},
			TxHash: hex.EncodeToString(hash("tx", w.Seed, w.Index, era, h, i))})
	}
	for i, n := 0, r.IntN(3); i < n; i++ {
		b.events = append(b.events, &lib.Event{EventType: "reward", Height: h, Reference: fmt.Sprintf("ref-%d-%d-%d", era, h, i), ChainId: 1, Address: hash("addr", r.IntN(4))[:20]})
	}
	b.qc = &lib.QuorumCertificate{Header: &lib.View{NetworkId: 1, ChainId: 1, Height: h, RootHeight: h, Round: uint64(r.IntN(3)), Phase: lib.Phase_PRECOMMIT_VOTE},
		ResultsHash: hash("results", era, h), BlockHash: b.hdr.Hash, ProposerKey: hash("proposerkey", h),
		Signature: &lib.AggregateSignature{Signature: bytes.Repeat([]byte{byte(h)}, 96), Bitmap: []byte{0x0f}}}
	if r.IntN(2) == 0 {
		b.cp = &lib.Checkpoint{Height: h, BlockHash: b.hdr.Hash}
	}
	return b, cur
}

// extend appends blocks from..to (and one continuation block) to an era
func (w *workload) extend(r *rand.Rand, era int, c *chain, from, to uint64, nKeys int, sizes map[uint64]string) {
	for h := from; h <= to+1; h++ {
		var last *block
		if h > 1 {
			last = c.blocks[h-1]
		}
		size := "small"
		if s, ok := sizes[h]; ok && h <= to {
			size = s
		}
		b, st := w.genBlock(r, era, h, c.states[h-1], last, nKeys, size)
		c.blocks, c.states, c.roots = append(c.blocks, b), append(c.states, st), append(c.roots, b.hdr.StateRoot)
	}
	c.top = to
}

func newWorkload(seed, index uint64) *workload {
	r := rand.New(rand.NewPCG(seed, index))
	w := &workload{Seed: seed, Index: index, flushAfter: map[int]bool{}, compactAfter: map[int]bool{}}
	// 16..64 KiB: every block's batch is a "large batch" for pebble (own flushable, WAL rotation and flush per commit);
	// 128..512 KiB: batches are appended to the shared WAL/memtable without sync, a flush happens every few blocks
	w.memTable = uint64(16+r.IntN(49)) << 10
	if r.IntN(2) == 0 {
		w.memTable = uint64(128+r.IntN(385)) << 10
	}
	w.settle = r.IntN(2) == 0
	nKeys := 24 + r.IntN(40)
	nBlocks := uint64(3 + r.IntN(6))
	sizes := map[uint64]string{}
	// the first workloads of a run are fixed so that every run has a rollback and a big block; the rest is drawn
	k := r.IntN(20)
	switch {
	case index == 0:
		k = 5
	case index == 1 && seed%2 == 1:
		k = 0
	case index == 1:
		k = 1
	}
	switch {
	case k < 1:
		w.kind, nBlocks = "big", uint64(2+r.IntN(3))
		sizes[uint64(1+r.IntN(int(nBlocks)))] = "big"
	case k < 2:
		w.kind, nBlocks = "nearbig", uint64(2+r.IntN(3))
		sizes[uint64(1+r.IntN(int(nBlocks)))] = "nearbig"
	case k < 7:
		w.kind = "rollback"
	default:
		w.kind = "plain"
	}
	empty := map[string][]byte{}
	e0 := &chain{blocks: []*block{nil}, states: []map[string][]byte{empty}, roots: [][]byte{sm.Root(empty)}}
	w.eras = []*chain{e0}
	if w.kind != "rollback" {
		w.extend(r, 0, e0, 1, nBlocks, nKeys, sizes)
		for h := uint64(1); h <= nBlocks; h++ {
			w.steps = append(w.steps, step{kind: stepBlock, era: 0, h: h})
		}
	} else {
		// era 0: blocks 1..T; offline rollback to v < T; era 1: different blocks v+1..v+m
		T := uint64(2 + r.IntN(5))
		v := uint64(1 + r.IntN(int(T)-1))
		m := uint64(1 + r.IntN(3))
		w.extend(r, 0, e0, 1, T, nKeys, sizes)
		for h := uint64(1); h <= T; h++ {
			w.steps = append(w.steps, step{kind: stepBlock, era: 0, h: h})
		}
		e1 := &chain{blocks: append([]*block{}, e0.blocks[:v+1]...), states: append([]map[string][]byte{}, e0.states[:v+1]...), roots: append([][]byte{}, e0.roots[:v+1]...), forkAt: v}
		w.eras = append(w.eras, e1)
		w.extend(r, 1, e1, v+1, v+m, nKeys, sizes)
		w.steps = append(w.steps, step{kind: stepRollback, era: 1, h: v})
		for h := v + 1; h <= v+m; h++ {
			w.steps = append(w.steps, step{kind: stepBlock, era: 1, h: h})
		}
	}
	for i, s := range w.steps {
		if s.kind != stepBlock {
			continue
		}
		if r.IntN(5) == 0 {
			w.flushAfter[i] = true
		}
		if r.IntN(6) == 0 {
			w.compactAfter[i] = true
		}
	}
	for _, c := range w.eras {
		w.maxHeight = max(w.maxHeight, c.top+1)
	}
	// drawn last so that everything else of the workload is unchanged by it
	w.journal = r.IntN(2) == 0
	return w
}

func (w *workload) String() string {
	d := fmt.Sprintf("w%d.%d(%s blocks=%d", w.Seed, w.Index, w.kind, w.eras[0].top)
	if len(w.eras) > 1 {
		d += fmt.Sprintf(" rollback->%d then %d new", w.eras[1].forkAt, w.eras[1].top-w.eras[1].forkAt)
	}
	return d + fmt.Sprintf(" memtable=%dK settle=%v journal=%v)", w.memTable>>10, w.settle, w.journal)
}

func storeConfig(w *workload) lib.Config {
	cfg := lib.DefaultConfig()
	cfg.StoreConfig.StateChangeJournalEnabled = w.journal
	cfg.StoreConfig.LSSCompactionInterval = 0
	cfg.StoreConfig.IndexByAccount = true
	return cfg
}

// cacheMu serialises everything that touches the store package's process-wide block cache (keyed by height only):
// the workload's IndexBlock and the verification of a crash image
var cacheMu sync.Mutex

// applyBlock writes one block the way Controller.CommitCertificate does: state writes, IndexQC, IndexBlock, (Commit by the caller)
func applyBlock(st *store.Store, b *block) error {
	for _, o := range b.ops {
		var err lib.ErrorI
		if o.Del {
			err = st.Delete(bytes.Clone(o.Key))
		} else {
			err = st.Set(bytes.Clone(o.Key), bytes.Clone(o.Val))
		}
		if err != nil {
			return err
		}
	}
	if b.cp != nil {
		if err := st.IndexCheckpoint(1, proto.Clone(b.cp).(*lib.Checkpoint)); err != nil {
			return err
		}
	}
	if err := st.IndexQC(proto.Clone(b.qc).(*lib.QuorumCertificate)); err != nil {
		return err
	}
	br := &lib.BlockResult{BlockHeader: proto.Clone(b.hdr).(*lib.BlockHeader)}
	for _, tx := range b.txs {
		br.Transactions = append(br.Transactions, proto.Clone(tx).(*lib.TxResult))
	}
	for _, e := range b.events {
		br.Events = append(br.Events, proto.Clone(e).(*lib.Event))
	}
	if err := st.IndexBlock(br); err != nil {
		return err
	}
	return nil
}

// ---------------------------------------------------------------------------------------------------------------------
// verification of one (crashed) file-system image

func scanState(r lib.RStoreI) (map[string][]byte, error) {
	it, err := r.Iterator(nil)
	if err != nil {
		return nil, err
	}
	defer it.Close()
	out := map[string][]byte{}
	var last []byte
	for ; it.Valid(); it.Next() {
		k := bytes.Clone(it.Key())
		if last != nil && bytes.Compare(k, last) <= 0 {
			return nil, fmt.Errorf("state scan not strictly ascending: %x after %x", k, last)
		}
		last = k
		out[string(k)] = bytes.Clone(it.Value())
		if len(out) > 100000 {
			return nil, fmt.Errorf("state scan does not terminate")
		}
	}
	return out, nil
}

func diffState(got, want map[string][]byte) string {
	var d []string
	for k, v := range want {
		g, ok := got[k]
		if !ok {
			d = append(d, fmt.Sprintf("missing %x", k))
		} else if !(len(g) == 0 && len(v) == 0) && !bytes.Equal(g, v) {
			d = append(d, fmt.Sprintf("%x: value %x.. (len %d), expected %x.. (len %d)", k, head(g), len(g), head(v), len(v)))
		}
	}
	for k := range got {
		if _, ok := want[k]; !ok {
			d = append(d, fmt.Sprintf("unexpected %x", k))
		}
	}
	sort.Strings(d)
	if len(d) > 6 {
		d = append(d[:6], fmt.Sprintf("... %d differences", len(d)))
	}
	if len(d) == 0 {
		return ""
	}
	return fmt.Sprint(d)
}

func head(b []byte) []byte {
	if len(b) > 6 {
		return b[:6]
	}
	return b
}

func checkIndexed(st *store.Store, b *block) error {
	h := b.h
	got, err := st.GetBlockByHeight(h)
	if err != nil {
		return fmt.Errorf("GetBlockByHeight(%d): %v", h, err)
	}
	if got == nil || !proto.Equal(got.BlockHeader, b.hdr) {
		return fmt.Errorf("GetBlockByHeight(%d): header %v, indexed %v", h, got.GetBlockHeader(), b.hdr)
	}
	if len(got.Transactions) != len(b.txs) {
		return fmt.Errorf("GetBlockByHeight(%d): %d transactions, indexed %d", h, len(got.Transactions), len(b.txs))
	}
	for i := range b.txs {
		if !proto.Equal(got.Transactions[i], b.txs[i]) {
			return fmt.Errorf("GetBlockByHeight(%d): transaction %d = %v, indexed %v", h, i, got.Transactions[i], b.txs[i])
		}
		hb, _ := hex.DecodeString(b.txs[i].TxHash)
		tx, e := st.GetTxByHash(hb)
		if e != nil || !proto.Equal(tx, b.txs[i]) {
			return fmt.Errorf("GetTxByHash(%s) at height %d = %v (%v), indexed %v", b.txs[i].TxHash, h, tx, e, b.txs[i])
		}
	}
	if len(got.Events) != len(b.events) {
		return fmt.Errorf("GetBlockByHeight(%d): %d events, indexed %d", h, len(got.Events), len(b.events))
	}
	for i := range b.events {
		if !proto.Equal(got.Events[i], b.events[i]) {
			return fmt.Errorf("GetBlockByHeight(%d): event %d = %v, indexed %v", h, i, got.Events[i], b.events[i])
		}
	}
	byHash, err := st.GetBlockByHash(b.hdr.Hash)
	if err != nil || !proto.Equal(byHash.GetBlockHeader(), b.hdr) {
		return fmt.Errorf("GetBlockByHash(height %d): %v (%v)", h, byHash.GetBlockHeader(), err)
	}
	qc, err := st.GetQCByHeight(h)
	if err != nil {
		return fmt.Errorf("GetQCByHeight(%d): %v", h, err)
	}
	if !proto.Equal(qc.Header, b.qc.Header) || !bytes.Equal(qc.BlockHash, b.qc.BlockHash) || !bytes.Equal(qc.ResultsHash, b.qc.ResultsHash) ||
		!bytes.Equal(qc.ProposerKey, b.qc.ProposerKey) || !proto.Equal(qc.Signature, b.qc.Signature) {
		return fmt.Errorf("GetQCByHeight(%d) = %v, indexed %v", h, qc, b.qc)
	}
	wantBlk, _ := (&lib.BlockResult{BlockHeader: b.hdr, Transactions: b.txs}).ToBlock()
	wantBz, _ := lib.Marshal(wantBlk)
	if !bytes.Equal(qc.Block, wantBz) {
		return fmt.Errorf("GetQCByHeight(%d): embedded block differs from the indexed block", h)
	}
	cp, err := st.GetCheckpoint(1, h)
	if err != nil {
		return fmt.Errorf("GetCheckpoint(1,%d): %v", h, err)
	}
	if b.cp != nil && !bytes.Equal(cp, b.cp.BlockHash) || b.cp == nil && len(cp) != 0 {
		return fmt.Errorf("GetCheckpoint(1,%d) = %x, indexed %v", h, []byte(cp), b.cp)
	}
	return nil
}

// checkJournal: with the state change journal enabled, the commit of block b also records the state keys it wrote or
// deleted; StateChangeKeys(h) must report exactly those (and "not available" when journaling is off)
func checkJournal(r lib.RIndexerI, b *block, journal bool, where string) error {
	keys, available, err := r.StateChangeKeys(b.h, nil)
	if err != nil {
		return fmt.Errorf("%s: StateChangeKeys(%d): %v", where, b.h, err)
	}
	if !journal {
		if available || len(keys) != 0 {
			return fmt.Errorf("%s: StateChangeKeys(%d) reports a journal (%d keys) although journaling is off", where, b.h, len(keys))
		}
		return nil
	}
	if !available {
		return fmt.Errorf("%s: StateChangeKeys(%d) reports 'not available': the state change journal of a committed height is missing", where, b.h)
	}
	want := map[string]bool{}
	for _, o := range b.ops {
		want[string(o.Key)] = true
	}
	got := map[string]bool{}
	for _, k := range keys {
		if got[string(k)] {
			return fmt.Errorf("%s: StateChangeKeys(%d) lists key %x twice", where, b.h, k)
		}
		got[string(k)] = true
	}
	for k := range want {
		if !got[k] {
			return fmt.Errorf("%s: StateChangeKeys(%d) has %d keys and misses %x; block %d touched %d keys", where, b.h, len(got), k, b.h, len(want))
		}
	}
	for k := range got {
		if !want[k] {
			return fmt.Errorf("%s: StateChangeKeys(%d) lists %x which block %d did not touch", where, b.h, k, b.h)
		}
	}
	// the prefix-restricted form used by the indexer blob code
	sub, _, err := r.StateChangeKeys(b.h, lib.JoinLenPrefix([]byte("acc")))
	nAcc := 0
	for k := range want {
		if bytes.HasPrefix([]byte(k), lib.JoinLenPrefix([]byte("acc"))) {
			nAcc++
		}
	}
	if err != nil || len(sub) != nAcc {
		return fmt.Errorf("%s: StateChangeKeys(%d, prefix acc) = %d keys (%v), block %d touched %d such keys", where, b.h, len(sub), err, b.h, nAcc)
	}
	return nil
}

func checkAbsent(st *store.Store, h uint64) error {
	if keys, available, e := st.StateChangeKeys(h, nil); e == nil && (available || len(keys) != 0) {
		return fmt.Errorf("state change journal of height %d is visible", h)
	}
	got, err := st.GetBlockByHeight(h)
	if err == nil && got != nil && got.BlockHeader != nil && (len(got.BlockHeader.Hash) != 0 || got.BlockHeader.Height != 0) {
		return fmt.Errorf("block of height %d is visible", h)
	}
	if got != nil && len(got.Transactions)+len(got.Events) != 0 {
		return fmt.Errorf("transactions/events of height %d are visible", h)
	}
	txs, err := st.GetTxsByHeightNonPaginated(h, false)
	if err == nil && len(txs) != 0 {
		return fmt.Errorf("%d transactions of height %d are visible", len(txs), h)
	}
	if qc, e := st.GetQCByHeight(h); e == nil && qc != nil && qc.Header != nil {
		return fmt.Errorf("certificate of height %d is visible", h)
	}
	if cp, e := st.GetCheckpoint(1, h); e == nil && len(cp) != 0 {
		return fmt.Errorf("checkpoint of height %d is visible", h)
	}
	return nil
}

// alt is one acceptable outcome of re-opening a crashed image: the store is on chain `era` at a height in [lo, hi] and
// continues with block height+1 of chain `nextEra`. Normally there is one; during an offline Rollback there are two:
// the rollback has not happened (old tip) or it has happened completely (target height) - never a mixture.
type alt struct {
	Era, NextEra int
	Lo, Hi       uint64
}

func checkGhost(st *store.Store, b *block) error {
	if got, err := st.GetBlockByHash(b.hdr.Hash); err == nil && got != nil && got.BlockHeader != nil && len(got.BlockHeader.Hash) != 0 {
		return fmt.Errorf("block %x (height %d of a chain the store is not on) is visible by hash", head(b.hdr.Hash), b.h)
	}
	for _, tx := range b.txs {
		hb, _ := hex.DecodeString(tx.TxHash)
		if got, err := st.GetTxByHash(hb); err == nil && got != nil && got.TxHash != "" {
			return fmt.Errorf("transaction %s (height %d of a chain the store is not on) is visible by hash", tx.TxHash[:12], b.h)
		}
	}
	return nil
}

// verify opens the image with the real open path and checks everything against the acceptable outcomes
func verify(fs vfs.FS, w *workload, alts []alt) (hp uint64, verr error) {
	defer func() {
		if r := recover(); r != nil {
			buf := make([]byte, 4096)
			buf = buf[:runtime.Stack(buf, false)]
			verr = fmt.Errorf("panic while re-opening/reading the crashed store: %v\n%s", r, buf)
		}
	}()
	store.VerifPurgeBlockCache()
	defer store.VerifPurgeBlockCache()
	log := &crashfs.Log{}
	st, err := store.VerifOpenWithFS(fs, "db", w.memTable, storeConfig(w), log)
	if err != nil {
		return 0, fmt.Errorf("re-open failed: %v", err)
	}
	defer st.Close()
	if f := log.Fatals(); len(f) != 0 {
		return 0, fmt.Errorf("re-open path reported a fatal condition (the node would exit): %v", f)
	}
	hp = st.Version()
	var a *alt
	for i := range alts {
		if hp >= alts[i].Lo && hp <= alts[i].Hi {
			a = &alts[i]
		}
	}
	if a == nil {
		return hp, fmt.Errorf("re-opened at version %d; acceptable (chain, lowest = last height made durable by an explicit flush/close, highest = last height whose Commit was called): %+v", hp, alts)
	}
	c, next := w.eras[a.Era], w.eras[a.NextEra]
	// commit ids and roots
	for v := uint64(1); v <= hp; v++ {
		id, e := st.VerifCommitID(v)
		if e != nil {
			return hp, fmt.Errorf("commit id of height %d unreadable: %v", v, e)
		}
		if id.Height != v || !bytes.Equal(id.Root, c.roots[v]) {
			return hp, fmt.Errorf("store re-opened at %d: commit id recorded for height %d is (height %d, root %x), the reference root of that height is %x", hp, v, id.Height, id.Root, c.roots[v])
		}
	}
	// latest state
	got, e2 := scanState(st)
	if e2 != nil {
		return hp, e2
	}
	if d := diffState(got, c.states[hp]); d != "" {
		return hp, fmt.Errorf("latest state after re-open at %d differs from the state committed at %d (%d keys): %s", hp, hp, len(c.states[hp]), d)
	}
	if r := sm.Root(got); !bytes.Equal(r, c.roots[hp]) {
		return hp, fmt.Errorf("reference root of the scanned state %x != root recorded for height %d %x", r, hp, c.roots[hp])
	}
	treeRoot, e := st.Root()
	if e != nil {
		return hp, fmt.Errorf("Root(): %v", e)
	}
	if !bytes.Equal(treeRoot, c.roots[hp]) {
		return hp, fmt.Errorf("store re-opened at %d: the persisted commitment tree has root %x, the root recorded for height %d is %x", hp, treeRoot, hp, c.roots[hp])
	}
	st.Reset()
	// historical state
	for v := uint64(1); v <= hp; v++ {
		ro, e := st.NewReadOnly(v)
		if e != nil {
			return hp, fmt.Errorf("NewReadOnly(%d): %v", v, e)
		}
		g, e3 := scanState(ro)
		je := checkJournal(ro, c.blocks[v], w.journal, fmt.Sprintf("store re-opened at %d, read-only view as of %d", hp, v))
		ro.Discard()
		if e3 != nil {
			return hp, e3
		}
		if je != nil {
			return hp, je
		}
		if d := diffState(g, c.states[v]); d != "" {
			return hp, fmt.Errorf("historical state as of %d (store re-opened at %d) differs: %s", v, hp, d)
		}
	}
	// indexes
	senders := map[string]int{}
	onChain := map[*block]bool{}
	for h := uint64(1); h <= hp; h++ {
		if err := checkIndexed(st, c.blocks[h]); err != nil {
			return hp, fmt.Errorf("store re-opened at %d: %v", hp, err)
		}
		if err := checkJournal(st, c.blocks[h], w.journal, fmt.Sprintf("store re-opened at %d", hp)); err != nil {
			return hp, err
		}
		onChain[c.blocks[h]] = true
		for _, tx := range c.blocks[h].txs {
			senders[string(tx.Sender)]++
		}
	}
	for i := 0; i < 4; i++ {
		ad := hash("addr", i)[:20]
		p, e := st.GetTxsBySender(crypto.NewAddress(ad), true, lib.PageParams{PerPage: 100})
		if e != nil {
			return hp, fmt.Errorf("GetTxsBySender: %v", e)
		}
		if p.TotalCount != senders[string(ad)] {
			return hp, fmt.Errorf("store re-opened at %d: sender %x has %d indexed transactions, %d were indexed up to that height", hp, ad, p.TotalCount, senders[string(ad)])
		}
	}
	for h := hp + 1; h <= w.maxHeight; h++ {
		if err := checkAbsent(st, h); err != nil {
			return hp, fmt.Errorf("store re-opened at %d: %v", hp, err)
		}
	}
	// nothing of any other chain (abandoned by a rollback, or not reached yet) and nothing above hp is visible by hash
	for _, oc := range w.eras {
		for _, b := range oc.blocks[1:] {
			if !onChain[b] {
				if err := checkGhost(st, b); err != nil {
					return hp, fmt.Errorf("store re-opened at %d: %v", hp, err)
				}
			}
		}
	}
	// no entry of any partition carries a version above the height the store opened at
	it, ie := st.DB().NewIter(nil)
	if ie != nil {
		return hp, fmt.Errorf("raw iterator: %v", ie)
	}
	for ok := it.First(); ok; ok = it.Next() {
		k := it.Key()
		if len(k) < 8 {
			continue
		}
		if v := ^binary.BigEndian.Uint64(k[len(k)-8:]); v != math.MaxUint64 && v > hp {
			_ = it.Close()
			return hp, fmt.Errorf("store re-opened at %d but an entry of version %d survives (key %x): a later (or abandoned) commit is partially present", hp, v, k)
		}
	}
	_ = it.Close()
	// the node can continue: the model's next block from hp yields the model's next root
	nb := next.blocks[hp+1]
	if err := applyBlock(st, nb); err != nil {
		return hp, fmt.Errorf("continuing from %d: %v", hp, err)
	}
	root, e := st.Commit()
	if e != nil {
		return hp, fmt.Errorf("continuing from %d: Commit: %v", hp, e)
	}
	if !bytes.Equal(root, next.roots[hp+1]) || st.Version() != hp+1 {
		return hp, fmt.Errorf("continuing from %d: Commit gave version %d root %x, expected version %d root %x", hp, st.Version(), root, hp+1, next.roots[hp+1])
	}
	got, e2 = scanState(st)
	if e2 != nil {
		return hp, e2
	}
	if d := diffState(got, next.states[hp+1]); d != "" {
		return hp, fmt.Errorf("continuing from %d: state after the next block differs: %s", hp, d)
	}
	store.VerifPurgeBlockCache()
	if err := checkIndexed(st, nb); err != nil {
		return hp, fmt.Errorf("continuing from %d: %v", hp, err)
	}
	if err := checkJournal(st, nb, w.journal, fmt.Sprintf("continuing from %d", hp)); err != nil {
		return hp, err
	}
	return hp, nil
}

// ---------------------------------------------------------------------------------------------------------------------
// running a workload with crash points

type crashState struct {
	c       *ev.Case
	k       int
	window  int // sequence number of the Commit()/Rollback() call that was the latest when the crash point was taken (0: before the first)
	partial bool
	sstOpen bool
}

type violation struct {
	Seed, Index    uint64
	K              int
	Op             string
	Pct            int
	Alts           []alt
	Error          string
	Image          crashfs.Image
	ReopenedHeight uint64
}

// phase is what the workload goroutine tells the hook about where it is
type phase struct {
	era                      int
	called, returned, synced uint64     // latest height whose Commit() was called / has returned / is durable (explicit flush, close, rollback)
	inCall                   bool       // inside a Commit() or Rollback() call
	rollback                 *[2]uint64 // inside Rollback(): {old tip, target}
	inOpen                   bool       // inside pebble.Open of a restart
	window                   int
	sinceReturn              int // file-system operations since the last Commit()/Rollback() returned
	sinceCall                int // file-system operations since the last Commit()/Rollback() was called
}

type runner struct {
	w   *workload
	rec *ev.Rec
	fs  *crashfs.FS
	dry bool // only count

	pmu sync.Mutex
	ph  phase

	every      bool // crash at every operation
	stride     int  // otherwise: see hook
	offset     int
	rng        *rand.Rand
	states     []*crashState
	firstOp    map[int]int
	lastOp     map[int]int
	nOps, nIn  int
	viol       *violation
	examined   int
	maxStates  int
	verifyTime time.Duration
}

func (r *runner) set(f func(p *phase)) {
	if r == nil {
		return
	}
	r.pmu.Lock()
	f(&r.ph)
	r.pmu.Unlock()
}

func (r *runner) hook(op crashfs.Op) {
	r.pmu.Lock()
	r.ph.sinceReturn++
	r.ph.sinceCall++
	ph := r.ph
	r.pmu.Unlock()
	r.nOps++
	if ph.inCall {
		r.nIn++
	}
	if r.dry {
		return
	}
	if _, ok := r.firstOp[ph.window]; !ok {
		r.firstOp[ph.window] = op.Index
	}
	r.lastOp[ph.window] = op.Index
	if r.viol != nil || r.examined >= r.maxStates {
		return
	}
	if !r.every {
		// thinned: every operation of a Rollback(), the first 4 operations of every Commit() call, the first 3 after it
		// returned (a crash right after Commit() returns), and every stride-th operation (seeded offset) of the rest
		take := ph.rollback != nil || (ph.inCall && ph.sinceCall <= 4) || (!ph.inCall && ph.sinceReturn <= 3) || op.Index%r.stride == r.offset
		if !take {
			return
		}
	}
	alts := []alt{{Era: ph.era, NextEra: ph.era, Lo: ph.synced, Hi: ph.called}}
	if ph.rollback != nil {
		alts = []alt{{Era: ph.era, NextEra: ph.era, Lo: ph.rollback[0], Hi: ph.rollback[0]}, {Era: ph.era, NextEra: ph.era + 1, Lo: ph.rollback[1], Hi: ph.rollback[1]}}
	}
	sstOpen := r.fs.OpenSSTsLocked() > 0
	for mode := 0; mode < 3; mode++ {
		pct := []int{0, 1 + r.rng.IntN(99), 100}[mode]
		clone := r.fs.Mem.CrashClone(vfs.CrashCloneCfg{UnsyncedDataPercent: pct, RNG: rand.New(rand.NewPCG(r.w.Seed^0x9e3779b97f4a7c15, uint64(op.Index)*4+uint64(mode)))})
		pristine := clone.CrashClone(vfs.CrashCloneCfg{}) // verification writes to the clone; keep the crash image itself for the replay artefact
		c := r.rec.Case()
		t0 := time.Now()
		cacheMu.Lock()
		hp, err := verify(clone, r.w, alts)
		cacheMu.Unlock()
		r.verifyTime += time.Since(t0)
		r.examined++
		pclass := []string{"survival=0%", "survival=1-99%", "survival=100%"}[mode]
		c.Desc("%s k=%d op=%s/%s(%d) pct=%d era=%d call#%d returned=%d -> reopened@%d", r.w, op.Index, op.Kind, op.FileClass(), op.Size, pct, ph.era, ph.window, ph.returned, hp)
		if err != nil && ph.inOpen && mode == 1 && strings.Contains(err.Error(), "could not open manifest file") && strings.Contains(err.Error(), "file does not exist") {
			// pebble's own start-up: Open writes a new MANIFEST and then moves the manifest marker, relying on the marker move to
			// sync the directory; MemFS lets every unsynced directory entry survive independently, so the new marker can survive
			// without the manifest it names (real file systems order metadata updates of one directory). Not canopy's commit path.
			c.Class("tolerated:pebble-open-manifest-marker-survives-without-its-manifest(MemFS-reorders-directory-entries)")
			c.Done(false)
			continue
		}
		if err != nil {
			img, _ := crashfs.Dump(pristine, "db")
			r.viol = &violation{Seed: r.w.Seed, Index: r.w.Index, K: op.Index, Op: fmt.Sprintf("%s %s", op.Kind, op.Name), Pct: pct, Alts: alts,
				Error: err.Error(), Image: img, ReopenedHeight: hp}
			return
		}
		c.Class(pclass)
		c.Class("workload=" + r.w.kind)
		c.ClassIf(r.w.journal, "state-change-journal=on")
		c.Class(fmt.Sprintf("op=%s/%s", op.Kind, op.FileClass()))
		if ph.rollback != nil {
			c.Class("inside-Rollback()-call")
			c.ClassIf(hp == ph.rollback[0], "rollback-outcome=old-tip")
			c.ClassIf(hp == ph.rollback[1], "rollback-outcome=target")
		} else {
			c.Class(fmt.Sprintf("reopened-height-minus-last-returned-commit=%+d", int64(hp)-int64(ph.returned)))
			c.ClassIf(ph.inCall, "inside-Commit()-call")
			c.ClassIf(hp < ph.returned, "unsynced-heights-lost")
			c.ClassIf(hp > ph.returned, "in-flight-commit-visible")
		}
		c.ClassIf(ph.era > 0, "after-rollback(on-the-new-chain)")
		c.ClassIf(sstOpen, "table-file-being-written(flush/compaction)")
		r.states = append(r.states, &crashState{c: c, k: op.Index, window: ph.window, partial: mode == 1, sstOpen: sstOpen})
	}
}

// settleFS waits until no file-system operation has happened for a moment and no table file is being written
func settleFS(fs *crashfs.FS) {
	deadline := time.Now().Add(200 * time.Millisecond)
	for quiet := 0; quiet < 3 && time.Now().Before(deadline); {
		n := fs.Count()
		time.Sleep(300 * time.Microsecond)
		if fs.Count() == n && fs.OpenSSTs() == 0 {
			quiet++
		} else {
			quiet = 0
		}
	}
}

// play runs the workload on a fresh counting file system; the runner's hook counts (dry run) or examines crash states
func play(w *workload, r *runner) error {
	fs := crashfs.New()
	open := func() (*store.Store, error) {
		st, e := store.VerifOpenWithFS(fs, "db", w.memTable, storeConfig(w), &crashfs.Log{})
		if e != nil {
			return nil, fmt.Errorf("open: %v", e)
		}
		return st, nil
	}
	st, err := open()
	if err != nil {
		return err
	}
	r.fs = fs
	fs.SetHook(r.hook)
	defer fs.SetHook(nil)
	for i, s := range w.steps {
		c := w.eras[s.era]
		switch s.kind {
		case stepBlock:
			cacheMu.Lock()
			err := applyBlock(st, c.blocks[s.h])
			cacheMu.Unlock()
			if err != nil {
				return fmt.Errorf("block %d: %v", s.h, err)
			}
			r.set(func(p *phase) { p.called, p.inCall, p.window, p.sinceCall = s.h, true, p.window+1, 0 })
			root, e := st.Commit()
			r.set(func(p *phase) { p.returned, p.inCall, p.sinceReturn = s.h, false, 0 })
			if e != nil {
				return fmt.Errorf("commit %d: %v", s.h, e)
			}
			if !bytes.Equal(root, c.roots[s.h]) {
				return fmt.Errorf("workload commit %d: root %x, reference %x", s.h, root, c.roots[s.h])
			}
			if w.flushAfter[i] {
				if e := st.DB().Flush(); e != nil {
					return fmt.Errorf("flush: %v", e)
				}
				r.set(func(p *phase) { p.synced = s.h })
			}
			if w.compactAfter[i] {
				if e := st.CompactAll(s.h); e != nil {
					return fmt.Errorf("compact: %v", e)
				}
			}
			if w.settle {
				settleFS(fs)
			}
		case stepRollback:
			// the offline maintenance operation as cmd/cli performs it: node stopped, open, Rollback, close; then the node starts again
			tip := st.Version()
			settleFS(fs)
			if e := st.Close(); e != nil {
				return fmt.Errorf("close before rollback: %v", e)
			}
			r.set(func(p *phase) { p.synced = tip })
			r.set(func(p *phase) { p.inOpen = true })
			st, err = open()
			r.set(func(p *phase) { p.inOpen = false })
			if err != nil {
				return err
			}
			r.set(func(p *phase) {
				p.rollback, p.inCall, p.window, p.sinceCall = &[2]uint64{tip, s.h}, true, p.window+1, 0
			})
			e := st.Rollback(s.h)
			r.set(func(p *phase) {
				p.rollback, p.inCall, p.sinceReturn = nil, false, 0
				p.era, p.called, p.returned, p.synced = s.era, s.h, s.h, s.h
			})
			if e != nil {
				return fmt.Errorf("Rollback(%d): %v", s.h, e)
			}
			if e := st.Close(); e != nil {
				return fmt.Errorf("close after rollback: %v", e)
			}
			r.set(func(p *phase) { p.inOpen = true })
			st, err = open()
			r.set(func(p *phase) { p.inOpen = false })
			if err != nil {
				return err
			}
		}
	}
	settleFS(fs)
	if e := st.Close(); e != nil {
		return fmt.Errorf("close: %v", e)
	}
	return nil
}

func seedFromEnv() uint64 {
	for _, n := range []string{"VERIF_RSEED", "VERIF_SEED"} {
		if v, err := strconv.ParseUint(os.Getenv(n), 10, 64); err == nil && v != 0 {
			return v
		}
	}
	return 1
}

// TestC09Crash: crash-point enumeration over generated block histories.
func TestC09Crash(t *testing.T) {
	rec := ev.New(t, "C09")
	if p := os.Getenv("VERIF_REPLAY"); p != "" {
		replay(t, p)
		return
	}
	seed := seedFromEnv()
	nWorkloads := 4
	if v, err := strconv.Atoi(os.Getenv("VERIF_CHECKS")); err == nil && v > 0 {
		nWorkloads = v
	}
	budget := max(75*time.Second, min(15*time.Minute, time.Duration(nWorkloads)*6*time.Second))
	if v, err := strconv.Atoi(os.Getenv("VERIF_C09_BUDGET_S")); err == nil && v > 0 {
		budget = time.Duration(v) * time.Second
	}
	everyMax := 600 // crash at every operation up to this many operations per workload
	if v, err := strconv.Atoi(os.Getenv("VERIF_C09_EVERY_MAX")); err == nil && v > 0 {
		everyMax = v
	}
	start := time.Now()
	totalOps, everyN, sampledN := 0, 0, 0
	kinds := map[string]int{}
	for i := 0; i < nWorkloads; i++ {
		if time.Since(start) > budget {
			rec.Note("stopped-early", fmt.Sprintf("wall budget reached after %d of %d workloads", i, nWorkloads))
			break
		}
		w := newWorkload(seed, uint64(i))
		kinds[w.kind]++
		dry := &runner{w: w, dry: true}
		if err := play(w, dry); err != nil { // dry run: count the file-system operations
			t.Fatalf("%s dry run: %v", w, err)
		}
		n := dry.nOps
		totalOps += n
		// big write sets make every crash state expensive to verify: they are always thinned
		r := &runner{w: w, rec: rec, every: n <= everyMax && w.kind != "big" && w.kind != "nearbig", stride: max(1, n/25),
			rng: rand.New(rand.NewPCG(seed, 1000+uint64(i))), firstOp: map[int]int{}, lastOp: map[int]int{}, maxStates: 6000}
		r.offset = r.rng.IntN(r.stride)
		if r.every {
			everyN++
		} else {
			sampledN++
		}
		if err := play(w, r); err != nil {
			t.Fatalf("%s: %v", w, err)
		}
		if r.viol != nil {
			p := rec.SaveReplay(fmt.Sprintf("C09-w%d.%d-k%d-pct%d.json", seed, i, r.viol.K, r.viol.Pct), r.viol)
			t.Fatalf("%s: crash before file-system operation %d (%s) with %d%% of the unsynced data surviving: %s\nreplay: %s", w, r.viol.K, r.viol.Op, r.viol.Pct, r.viol.Error, p)
		}
		for _, s := range r.states {
			strictlyInside := s.window > 0 && s.k > r.firstOp[s.window] && s.k < r.lastOp[s.window]
			s.c.ClassIf(strictlyInside, "strictly-inside-commit/rollback-window")
			s.c.Done(s.partial && (strictlyInside || s.sstOpen))
		}
		rec.Note(fmt.Sprintf("workload-%d", i), fmt.Sprintf("%s: dry-run ops=%d (inside Commit/Rollback calls %d), crash states examined=%d in %.1fs, mode=%s", w, n, dry.nIn, len(r.states), r.verifyTime.Seconds(),
			map[bool]string{true: "every-operation", false: "thinned(call-starts+after-return+stride)"}[r.every]))
	}
	rec.Note("summary", fmt.Sprintf("seed=%d workloads=%v (every-op=%d sampled=%d) dry-run fs-operations=%d wall=%.1fs", seed, kinds, everyN, sampledN, totalOps, time.Since(start).Seconds()))
}

// replay re-checks a saved crash image
func replay(t *testing.T, path string) {
	bz, err := os.ReadFile(path)
	if err != nil {
		t.Fatalf("replay: %v", err)
	}
	var v violation
	if err = json.Unmarshal(bz, &v); err != nil {
		t.Fatalf("replay: %v", err)
	}
	fs, err := crashfs.Load(v.Image)
	if err != nil {
		t.Fatalf("replay: %v", err)
	}
	w := newWorkload(v.Seed, v.Index)
	hp, verr := verify(fs, w, v.Alts)
	if verr != nil {
		t.Fatalf("%s: crash before operation %d (%s), %d%% unsynced survival, re-opened at %d: %v", w, v.K, v.Op, v.Pct, hp, verr)
	}
	t.Logf("image re-opens consistently at height %d", hp)
}
