// Package c09 decides property C09 by fault enumeration: a generated history of blocks is written through the real
// Store on pebble's crashable in-memory file system; at file-system operation boundaries the file system is
// crash-cloned (synced data + a chosen share of the unsynced data), re-opened through the real open path and checked:
// it must open at a previously committed height with every component (latest state, historical state, commitment
// tree, block/tx/certificate/event/checkpoint indexes, commit ids) reflecting exactly that height, and continue.
package c09

import (
	"bytes"
	"crypto/sha256"
	"encoding/binary"
	"encoding/hex"
	"encoding/json"
	"fmt"
	"math"
	"math/rand/v2"
	"os"
	"runtime"
	"sort"
	"strconv"
	"sync"
	"sync/atomic"
	"testing"
	"time"

	"github.com/canopy-network/canopy/lib"
	"github.com/canopy-network/canopy/lib/crypto"
	"github.com/canopy-network/canopy/store"
	"github.com/cockroachdb/pebble/v2/vfs"
	"google.golang.org/protobuf/proto"

	"verif/h/crashfs"
	"verif/h/ev"
	sm "verif/h/storemodel"
)

// ---------------------------------------------------------------------------------------------------------------------
// workload: blocks as a pure function of (seed, index)

type stateOp struct {
	Key, Val []byte
	Del      bool
}

type block struct {
	h      uint64
	ops    []stateOp
	hdr    *lib.BlockHeader
	txs    []*lib.TxResult
	events []*lib.Event
	qc     *lib.QuorumCertificate
	cp     *lib.Checkpoint // checkpoint of chain 1 at this height (nil: none)
}

type workload struct {
	Seed, Index  uint64
	nBlocks      int
	blocks       []*block            // blocks[h], h = 1..nBlocks+1 (the last one only continues a re-opened store); blocks[0] = nil
	states       []map[string][]byte // states[h] = state after block h
	roots        [][]byte            // reference commitment of states[h]
	memTable     uint64
	settle       bool            // wait for the file system to go quiet after every commit
	flushAfter   map[uint64]bool // explicit DB().Flush() after the commit of these heights (a sync point)
	compactAfter map[uint64]bool // explicit CompactAll() after the commit of these heights (what MaybeCompact does periodically)
}

func stateKey(i int) []byte {
	var b [4]byte
	binary.BigEndian.PutUint32(b[:], uint32(i))
	return lib.JoinLenPrefix([]byte("acc"), b[:])
}

func hash(parts ...any) []byte {
	h := sha256.New()
	fmt.Fprint(h, parts...)
	return h.Sum(nil)
}

func newWorkload(seed, index uint64) *workload {
	r := rand.New(rand.NewPCG(seed, index))
	w := &workload{Seed: seed, Index: index, nBlocks: 3 + r.IntN(6), flushAfter: map[uint64]bool{}, compactAfter: map[uint64]bool{}}
	// 16..64 KiB: every block's batch is a "large batch" for pebble (own flushable, WAL rotation and flush per commit);
	// 128..512 KiB: batches are appended to the shared WAL/memtable without sync, a flush happens every few blocks
	w.memTable = uint64(16+r.IntN(49)) << 10
	if r.IntN(2) == 0 {
		w.memTable = uint64(128+r.IntN(385)) << 10
	}
	w.settle = r.IntN(2) == 0
	nKeys := 24 + r.IntN(40)
	cur := map[string][]byte{}
	w.blocks, w.states, w.roots = []*block{nil}, []map[string][]byte{{}}, [][]byte{sm.Root(cur)}
	var lastHash []byte
	total := uint64(0)
	for h := uint64(1); h <= uint64(w.nBlocks)+1; h++ {
		b := &block{h: h}
		nOps := 6 + r.IntN(40)
		for i := 0; i < nOps; i++ {
			k := stateKey(r.IntN(nKeys))
			if _, present := cur[string(k)]; r.IntN(100) < 25 && (present || r.IntN(4) == 0) {
				b.ops = append(b.ops, stateOp{Key: k, Del: true})
				delete(cur, string(k))
				continue
			}
			v := make([]byte, 1+r.IntN(400))
			for j := range v {
				v[j] = byte(r.UintN(256))
			}
			if r.IntN(20) == 0 {
				v = []byte{}
			}
			b.ops = append(b.ops, stateOp{Key: k, Val: v})
			cur[string(k)] = v
		}
		st := map[string][]byte{}
		for k, v := range cur {
			st[k] = v
		}
		root := sm.Root(st)
		nTx := r.IntN(5)
		total += uint64(nTx)
		b.hdr = &lib.BlockHeader{Height: h, Hash: hash("block", seed, index, h), NetworkId: 1, Time: 1_700_000_000_000_000 + h*1_000_000,
			NumTxs: uint64(nTx), TotalTxs: total, LastBlockHash: lastHash, StateRoot: root, TransactionRoot: hash("txroot", h),
			ValidatorRoot: hash("vals"), NextValidatorRoot: hash("vals"), ProposerAddress: hash("proposer", r.IntN(3))[:20]}
		lastHash = b.hdr.Hash
		for i := 0; i < nTx; i++ {
			sender, rcpt := hash("addr", r.IntN(4))[:20], hash("addr", r.IntN(4))[:20]
			b.txs = append(b.txs, &lib.TxResult{Sender: sender, Recipient: rcpt, MessageType: "send", Height: h, Index: uint64(i),
				Transaction: &lib.Transaction{MessageType: "send", Signature: &lib.Signature{PublicKey: hash("pk", sender), Signature: hash("sig", seed, index, h, i)},
					CreatedHeight: h, Time: b.hdr.Time, Fee: 10000, Memo: fmt.Sprintf("m%d", r.IntN(1000)), NetworkId: 1, ChainId: 1},
				TxHash: hex.EncodeToString(hash("tx", seed, index, h, i))})
		}
		for i, n := 0, r.IntN(3); i < n; i++ {
			b.events = append(b.events, &lib.Event{EventType: "reward", Height: h, Reference: fmt.Sprintf("ref-%d-%d", h, i), ChainId: 1, Address: hash("addr", r.IntN(4))[:20]})
		}
		b.qc = &lib.QuorumCertificate{Header: &lib.View{NetworkId: 1, ChainId: 1, Height: h, RootHeight: h, Round: uint64(r.IntN(3)), Phase: lib.Phase_PRECOMMIT_VOTE},
			ResultsHash: hash("results", h), BlockHash: b.hdr.Hash, ProposerKey: hash("proposerkey", h),
			Signature: &lib.AggregateSignature{Signature: bytes.Repeat([]byte{byte(h)}, 96), Bitmap: []byte{0x0f}}}
		if r.IntN(2) == 0 {
			b.cp = &lib.Checkpoint{Height: h, BlockHash: b.hdr.Hash}
		}
		if h <= uint64(w.nBlocks) && r.IntN(5) == 0 {
			w.flushAfter[h] = true
		}
		if h <= uint64(w.nBlocks) && r.IntN(6) == 0 {
			w.compactAfter[h] = true
		}
		w.blocks, w.states, w.roots = append(w.blocks, b), append(w.states, st), append(w.roots, root)
	}
	return w
}

func (w *workload) String() string {
	return fmt.Sprintf("w%d.%d(blocks=%d memtable=%dK settle=%v)", w.Seed, w.Index, w.nBlocks, w.memTable>>10, w.settle)
}

func storeConfig() lib.Config {
	cfg := lib.DefaultConfig()
	cfg.StoreConfig.LSSCompactionInterval = 0
	cfg.StoreConfig.IndexByAccount = true
	return cfg
}

// cacheMu serialises everything that touches the store package's process-wide block cache (keyed by height only):
// the workload's IndexBlock and the verification of a crash image
var cacheMu sync.Mutex

// applyBlock writes one block the way Controller.CommitCertificate does: state writes, IndexQC, IndexBlock, (Commit by the caller)
func applyBlock(st *store.Store, b *block) error {
	for _, o := range b.ops {
		var err lib.ErrorI
		if o.Del {
			err = st.Delete(bytes.Clone(o.Key))
		} else {
			err = st.Set(bytes.Clone(o.Key), bytes.Clone(o.Val))
		}
		if err != nil {
			return err
		}
	}
	if b.cp != nil {
		if err := st.IndexCheckpoint(1, proto.Clone(b.cp).(*lib.Checkpoint)); err != nil {
			return err
		}
	}
	if err := st.IndexQC(proto.Clone(b.qc).(*lib.QuorumCertificate)); err != nil {
		return err
	}
	br := &lib.BlockResult{BlockHeader: proto.Clone(b.hdr).(*lib.BlockHeader)}
	for _, tx := range b.txs {
		br.Transactions = append(br.Transactions, proto.Clone(tx).(*lib.TxResult))
	}
	for _, e := range b.events {
		br.Events = append(br.Events, proto.Clone(e).(*lib.Event))
	}
	if err := st.IndexBlock(br); err != nil {
		return err
	}
	return nil
}

// ---------------------------------------------------------------------------------------------------------------------
// verification of one (crashed) file-system image

func scanState(r lib.RStoreI) (map[string][]byte, error) {
	it, err := r.Iterator(nil)
	if err != nil {
		return nil, err
	}
	defer it.Close()
	out := map[string][]byte{}
	var last []byte
	for ; it.Valid(); it.Next() {
		k := bytes.Clone(it.Key())
		if last != nil && bytes.Compare(k, last) <= 0 {
			return nil, fmt.Errorf("state scan not strictly ascending: %x after %x", k, last)
		}
		last = k
		out[string(k)] = bytes.Clone(it.Value())
		if len(out) > 100000 {
			return nil, fmt.Errorf("state scan does not terminate")
		}
	}
	return out, nil
}

func diffState(got, want map[string][]byte) string {
	var d []string
	for k, v := range want {
		g, ok := got[k]
		if !ok {
			d = append(d, fmt.Sprintf("missing %x", k))
		} else if !(len(g) == 0 && len(v) == 0) && !bytes.Equal(g, v) {
			d = append(d, fmt.Sprintf("%x: value %x.. (len %d), expected %x.. (len %d)", k, head(g), len(g), head(v), len(v)))
		}
	}
	for k := range got {
		if _, ok := want[k]; !ok {
			d = append(d, fmt.Sprintf("unexpected %x", k))
		}
	}
	sort.Strings(d)
	if len(d) > 6 {
		d = append(d[:6], fmt.Sprintf("... %d differences", len(d)))
	}
	if len(d) == 0 {
		return ""
	}
	return fmt.Sprint(d)
}

func head(b []byte) []byte {
	if len(b) > 6 {
		return b[:6]
	}
	return b
}

func checkIndexed(st *store.Store, b *block) error {
	h := b.h
	got, err := st.GetBlockByHeight(h)
	if err != nil {
		return fmt.Errorf("GetBlockByHeight(%d): %v", h, err)
	}
	if got == nil || !proto.Equal(got.BlockHeader, b.hdr) {
		return fmt.Errorf("GetBlockByHeight(%d): header %v, indexed %v", h, got.GetBlockHeader(), b.hdr)
	}
	if len(got.Transactions) != len(b.txs) {
		return fmt.Errorf("GetBlockByHeight(%d): %d transactions, indexed %d", h, len(got.Transactions), len(b.txs))
	}
	for i := range b.txs {
		if !proto.Equal(got.Transactions[i], b.txs[i]) {
			return fmt.Errorf("GetBlockByHeight(%d): transaction %d = %v, indexed %v", h, i, got.Transactions[i], b.txs[i])
		}
		hb, _ := hex.DecodeString(b.txs[i].TxHash)
		tx, e := st.GetTxByHash(hb)
		if e != nil || !proto.Equal(tx, b.txs[i]) {
			return fmt.Errorf("GetTxByHash(%s) at height %d = %v (%v), indexed %v", b.txs[i].TxHash, h, tx, e, b.txs[i])
		}
	}
	if len(got.Events) != len(b.events) {
		return fmt.Errorf("GetBlockByHeight(%d): %d events, indexed %d", h, len(got.Events), len(b.events))
	}
	for i := range b.events {
		if !proto.Equal(got.Events[i], b.events[i]) {
			return fmt.Errorf("GetBlockByHeight(%d): event %d = %v, indexed %v", h, i, got.Events[i], b.events[i])
		}
	}
	byHash, err := st.GetBlockByHash(b.hdr.Hash)
	if err != nil || !proto.Equal(byHash.GetBlockHeader(), b.hdr) {
		return fmt.Errorf("GetBlockByHash(height %d): %v (%v)", h, byHash.GetBlockHeader(), err)
	}
	qc, err := st.GetQCByHeight(h)
	if err != nil {
		return fmt.Errorf("GetQCByHeight(%d): %v", h, err)
	}
	if !proto.Equal(qc.Header, b.qc.Header) || !bytes.Equal(qc.BlockHash, b.qc.BlockHash) || !bytes.Equal(qc.ResultsHash, b.qc.ResultsHash) ||
		!bytes.Equal(qc.ProposerKey, b.qc.ProposerKey) || !proto.Equal(qc.Signature, b.qc.Signature) {
		return fmt.Errorf("GetQCByHeight(%d) = %v, indexed %v", h, qc, b.qc)
	}
	wantBlk, _ := (&lib.BlockResult{BlockHeader: b.hdr, Transactions: b.txs}).ToBlock()
	wantBz, _ := lib.Marshal(wantBlk)
	if !bytes.Equal(qc.Block, wantBz) {
		return fmt.Errorf("GetQCByHeight(%d): embedded block differs from the indexed block", h)
	}
	cp, err := st.GetCheckpoint(1, h)
	if err != nil {
		return fmt.Errorf("GetCheckpoint(1,%d): %v", h, err)
	}
	if b.cp != nil && !bytes.Equal(cp, b.cp.BlockHash) || b.cp == nil && len(cp) != 0 {
		return fmt.Errorf("GetCheckpoint(1,%d) = %x, indexed %v", h, []byte(cp), b.cp)
	}
	return nil
}

func checkAbsent(st *store.Store, h uint64) error {
	got, err := st.GetBlockByHeight(h)
	if err == nil && got != nil && got.BlockHeader != nil && (len(got.BlockHeader.Hash) != 0 || got.BlockHeader.Height != 0) {
		return fmt.Errorf("block of height %d is visible", h)
	}
	if got != nil && len(got.Transactions)+len(got.Events) != 0 {
		return fmt.Errorf("transactions/events of height %d are visible", h)
	}
	txs, err := st.GetTxsByHeightNonPaginated(h, false)
	if err == nil && len(txs) != 0 {
		return fmt.Errorf("%d transactions of height %d are visible", len(txs), h)
	}
	if qc, e := st.GetQCByHeight(h); e == nil && qc != nil && qc.Header != nil {
		return fmt.Errorf("certificate of height %d is visible", h)
	}
	if cp, e := st.GetCheckpoint(1, h); e == nil && len(cp) != 0 {
		return fmt.Errorf("checkpoint of height %d is visible", h)
	}
	return nil
}

// verify opens the image with the real open path and checks everything; lo/hi bound the acceptable height.
func verify(fs vfs.FS, w *workload, lo, hi uint64) (hp uint64, verr error) {
	defer func() {
		if r := recover(); r != nil {
			buf := make([]byte, 4096)
			buf = buf[:runtime.Stack(buf, false)]
			verr = fmt.Errorf("panic while re-opening/reading the crashed store: %v\n%s", r, buf)
		}
	}()
	store.VerifPurgeBlockCache()
	defer store.VerifPurgeBlockCache()
	log := &crashfs.Log{}
	st, err := store.VerifOpenWithFS(fs, "db", w.memTable, storeConfig(), log)
	if err != nil {
		return 0, fmt.Errorf("re-open failed: %v", err)
	}
	defer st.Close()
	if f := log.Fatals(); len(f) != 0 {
		return 0, fmt.Errorf("re-open path reported a fatal condition (the node would exit): %v", f)
	}
	hp = st.Version()
	if hp < lo || hp > hi {
		return hp, fmt.Errorf("re-opened at version %d, acceptable is [%d (last height made durable by an explicit flush) .. %d (last height whose Commit was called)]", hp, lo, hi)
	}
	// commit ids and roots
	for v := uint64(1); v <= hp; v++ {
		id, e := st.VerifCommitID(v)
		if e != nil {
			return hp, fmt.Errorf("commit id of height %d unreadable: %v", v, e)
		}
		if id.Height != v || !bytes.Equal(id.Root, w.roots[v]) {
			return hp, fmt.Errorf("commit id recorded for height %d is (height %d, root %x), the reference root of that height is %x", v, id.Height, id.Root, w.roots[v])
		}
	}
	// latest state
	got, e2 := scanState(st)
	if e2 != nil {
		return hp, e2
	}
	if d := diffState(got, w.states[hp]); d != "" {
		return hp, fmt.Errorf("latest state after re-open at %d differs from the state committed at %d: %s", hp, hp, d)
	}
	if r := sm.Root(got); !bytes.Equal(r, w.roots[hp]) {
		return hp, fmt.Errorf("reference root of the scanned state %x != root recorded for height %d %x", r, hp, w.roots[hp])
	}
	treeRoot, e := st.Root()
	if e != nil {
		return hp, fmt.Errorf("Root(): %v", e)
	}
	if !bytes.Equal(treeRoot, w.roots[hp]) {
		return hp, fmt.Errorf("persisted commitment tree has root %x, the commit id of height %d says %x", treeRoot, hp, w.roots[hp])
	}
	st.Reset()
	// historical state
	for v := uint64(1); v <= hp; v++ {
		ro, e := st.NewReadOnly(v)
		if e != nil {
			return hp, fmt.Errorf("NewReadOnly(%d): %v", v, e)
		}
		g, e3 := scanState(ro)
		ro.Discard()
		if e3 != nil {
			return hp, e3
		}
		if d := diffState(g, w.states[v]); d != "" {
			return hp, fmt.Errorf("historical state as of %d (store re-opened at %d) differs: %s", v, hp, d)
		}
	}
	// indexes
	senders := map[string]int{}
	for h := uint64(1); h <= hp; h++ {
		if err := checkIndexed(st, w.blocks[h]); err != nil {
			return hp, fmt.Errorf("store re-opened at %d: %v", hp, err)
		}
		for _, tx := range w.blocks[h].txs {
			senders[string(tx.Sender)]++
		}
	}
	for i := 0; i < 4; i++ {
		a := hash("addr", i)[:20]
		p, e := st.GetTxsBySender(crypto.NewAddress(a), true, lib.PageParams{PerPage: 100})
		if e != nil {
			return hp, fmt.Errorf("GetTxsBySender: %v", e)
		}
		if p.TotalCount != senders[string(a)] {
			return hp, fmt.Errorf("store re-opened at %d: sender %x has %d indexed transactions, %d were indexed up to that height", hp, a, p.TotalCount, senders[string(a)])
		}
	}
	for h := hp + 1; h <= uint64(w.nBlocks)+1; h++ {
		if err := checkAbsent(st, h); err != nil {
			return hp, fmt.Errorf("store re-opened at %d: %v", hp, err)
		}
	}
	// no entry of any partition carries a version above the height the store opened at
	it, ie := st.DB().NewIter(nil)
	if ie != nil {
		return hp, fmt.Errorf("raw iterator: %v", ie)
	}
	for ok := it.First(); ok; ok = it.Next() {
		k := it.Key()
		if len(k) < 8 {
			continue
		}
		if v := ^binary.BigEndian.Uint64(k[len(k)-8:]); v != math.MaxUint64 && v > hp {
			_ = it.Close()
			return hp, fmt.Errorf("store re-opened at %d but an entry of version %d survives (key %x): a later commit is partially present", hp, v, k)
		}
	}
	_ = it.Close()
	// the node can continue: the model's next block from hp yields the model's next root
	next := w.blocks[hp+1]
	if err := applyBlock(st, next); err != nil {
		return hp, fmt.Errorf("continuing from %d: %v", hp, err)
	}
	root, e := st.Commit()
	if e != nil {
		return hp, fmt.Errorf("continuing from %d: Commit: %v", hp, e)
	}
	if !bytes.Equal(root, w.roots[hp+1]) || st.Version() != hp+1 {
		return hp, fmt.Errorf("continuing from %d: Commit gave version %d root %x, expected version %d root %x", hp, st.Version(), root, hp+1, w.roots[hp+1])
	}
	got, e2 = scanState(st)
	if e2 != nil {
		return hp, e2
	}
	if d := diffState(got, w.states[hp+1]); d != "" {
		return hp, fmt.Errorf("continuing from %d: state after the next block differs: %s", hp, d)
	}
	store.VerifPurgeBlockCache()
	if err := checkIndexed(st, next); err != nil {
		return hp, fmt.Errorf("continuing from %d: %v", hp, err)
	}
	return hp, nil
}

// ---------------------------------------------------------------------------------------------------------------------
// running a workload with crash points

type crashState struct {
	c        *ev.Case
	k        int
	window   uint64 // height whose Commit() call was the latest when the crash point was taken (0: before the first)
	partial  bool
	sstOpen  bool
	inCommit bool
}

type violation struct {
	Workload       *workload `json:"-"`
	Seed, Index    uint64
	K              int
	Op             string
	Pct            int
	Lo, Hi         uint64
	Error          string
	Image          crashfs.Image
	ReopenedHeight uint64
}

type runner struct {
	w         *workload
	rec       *ev.Rec
	fs        *crashfs.FS
	called    atomic.Uint64 // latest height whose Commit() has been called
	returned  atomic.Uint64 // latest height whose Commit() has returned
	synced    atomic.Uint64 // latest height followed by a completed explicit DB().Flush()
	inCommit  atomic.Bool
	every     bool    // crash at every operation
	sampleP   float64 // otherwise: probability outside Commit() calls
	rng       *rand.Rand
	states    []*crashState
	firstOp   map[uint64]int
	lastOp    map[uint64]int
	viol      *violation
	examined  int
	maxStates int
}

func (r *runner) hook(op crashfs.Op) {
	win := r.called.Load()
	if _, ok := r.firstOp[win]; !ok {
		r.firstOp[win] = op.Index
	}
	r.lastOp[win] = op.Index
	if r.viol != nil || r.examined >= r.maxStates {
		return
	}
	inCommit := r.inCommit.Load()
	if !r.every && !inCommit && r.rng.Float64() >= r.sampleP {
		return
	}
	lo, hi, ret := r.synced.Load(), r.called.Load(), r.returned.Load()
	sstOpen := r.fs.OpenSSTsLocked() > 0
	for mode := 0; mode < 3; mode++ {
		pct := []int{0, 1 + r.rng.IntN(99), 100}[mode]
		clone := r.fs.Mem.CrashClone(vfs.CrashCloneCfg{UnsyncedDataPercent: pct, RNG: rand.New(rand.NewPCG(r.w.Seed^0x9e3779b97f4a7c15, uint64(op.Index)*4+uint64(mode)))})
		pristine := clone.CrashClone(vfs.CrashCloneCfg{}) // verification writes to the clone; keep the crash image itself for the replay artefact
		c := r.rec.Case()
		cacheMu.Lock()
		hp, err := verify(clone, r.w, lo, hi)
		cacheMu.Unlock()
		r.examined++
		pclass := []string{"survival=0%", "survival=1-99%", "survival=100%"}[mode]
		c.Desc("%s k=%d op=%s/%s(%d) pct=%d window=%d returned=%d -> reopened@%d", r.w, op.Index, op.Kind, op.FileClass(), op.Size, pct, win, ret, hp)
		if err != nil {
			img, _ := crashfs.Dump(pristine, "db")
			r.viol = &violation{Workload: r.w, Seed: r.w.Seed, Index: r.w.Index, K: op.Index, Op: fmt.Sprintf("%s %s", op.Kind, op.Name), Pct: pct, Lo: lo, Hi: hi,
				Error: err.Error(), Image: img, ReopenedHeight: hp}
			return
		}
		c.Class(pclass)
		c.Class(fmt.Sprintf("op=%s/%s", op.Kind, op.FileClass()))
		c.Class(fmt.Sprintf("reopened-height-minus-last-returned-commit=%+d", int64(hp)-int64(ret)))
		c.ClassIf(inCommit, "inside-Commit()-call")
		c.ClassIf(sstOpen, "table-file-being-written(flush/compaction)")
		c.ClassIf(hp < ret, "unsynced-heights-lost")
		c.ClassIf(hp > ret, "in-flight-commit-visible")
		r.states = append(r.states, &crashState{c: c, k: op.Index, window: win, partial: mode == 1, sstOpen: sstOpen, inCommit: inCommit})
	}
}

// settleFS waits until no file-system operation has happened for a moment and no table file is being written
func settleFS(fs *crashfs.FS) {
	deadline := time.Now().Add(200 * time.Millisecond)
	for quiet := 0; quiet < 3 && time.Now().Before(deadline); {
		n := fs.Count()
		time.Sleep(300 * time.Microsecond)
		if fs.Count() == n && fs.OpenSSTs() == 0 {
			quiet++
		} else {
			quiet = 0
		}
	}
}

// play runs the workload on a fresh counting file system; with a runner the hook examines crash states
func play(w *workload, r *runner) (nOps int, err error) {
	fs := crashfs.New()
	log := &crashfs.Log{}
	st, e := store.VerifOpenWithFS(fs, "db", w.memTable, storeConfig(), log)
	if e != nil {
		return 0, fmt.Errorf("open: %v", e)
	}
	base := fs.Count()
	if r != nil {
		r.fs = fs
		fs.SetHook(r.hook)
	}
	for h := uint64(1); h <= uint64(w.nBlocks); h++ {
		cacheMu.Lock()
		err := applyBlock(st, w.blocks[h])
		cacheMu.Unlock()
		if err != nil {
			return 0, fmt.Errorf("block %d: %v", h, err)
		}
		if r != nil {
			r.called.Store(h)
			r.inCommit.Store(true)
		}
		root, e := st.Commit()
		if r != nil {
			r.inCommit.Store(false)
			r.returned.Store(h)
		}
		if e != nil {
			return 0, fmt.Errorf("commit %d: %v", h, e)
		}
		if !bytes.Equal(root, w.roots[h]) {
			return 0, fmt.Errorf("workload commit %d: root %x, reference %x", h, root, w.roots[h])
		}
		if w.flushAfter[h] {
			if e := st.DB().Flush(); e != nil {
				return 0, fmt.Errorf("flush: %v", e)
			}
			if r != nil {
				r.synced.Store(h)
			}
		}
		if w.compactAfter[h] {
			if e := st.CompactAll(h); e != nil {
				return 0, fmt.Errorf("compact: %v", e)
			}
		}
		if w.settle {
			settleFS(fs)
		}
	}
	settleFS(fs)
	if e := st.Close(); e != nil {
		return 0, fmt.Errorf("close: %v", e)
	}
	fs.SetHook(nil)
	return fs.Count() - base, nil
}

func seedFromEnv() uint64 {
	for _, n := range []string{"VERIF_RSEED", "VERIF_SEED"} {
		if v, err := strconv.ParseUint(os.Getenv(n), 10, 64); err == nil && v != 0 {
			return v
		}
	}
	return 1
}

// TestC09Crash: crash-point enumeration over generated block histories.
func TestC09Crash(t *testing.T) {
	rec := ev.New(t, "C09")
	if p := os.Getenv("VERIF_REPLAY"); p != "" {
		replay(t, p)
		return
	}
	seed := seedFromEnv()
	nWorkloads := 4
	if v, err := strconv.Atoi(os.Getenv("VERIF_CHECKS")); err == nil && v > 0 {
		nWorkloads = v
	}
	budget := 75 * time.Second
	if v, err := strconv.Atoi(os.Getenv("VERIF_C09_BUDGET_S")); err == nil && v > 0 {
		budget = time.Duration(v) * time.Second
	}
	everyMax := 600 // crash at every operation up to this many operations per workload
	if v, err := strconv.Atoi(os.Getenv("VERIF_C09_EVERY_MAX")); err == nil && v > 0 {
		everyMax = v
	}
	start := time.Now()
	totalOps, everyN, sampledN := 0, 0, 0
	for i := 0; i < nWorkloads; i++ {
		if time.Since(start) > budget {
			rec.Note("stopped-early", fmt.Sprintf("wall budget reached after %d of %d workloads", i, nWorkloads))
			break
		}
		w := newWorkload(seed, uint64(i))
		n, err := play(w, nil) // dry run: count the file-system operations
		if err != nil {
			t.Fatalf("%s dry run: %v", w, err)
		}
		totalOps += n
		r := &runner{w: w, rec: rec, every: n <= everyMax, sampleP: 150 / float64(max(n, 1)), rng: rand.New(rand.NewPCG(seed, 1000+uint64(i))),
			firstOp: map[uint64]int{}, lastOp: map[uint64]int{}, maxStates: 6000}
		if r.every {
			everyN++
		} else {
			sampledN++
		}
		if _, err = play(w, r); err != nil {
			t.Fatalf("%s: %v", w, err)
		}
		if r.viol != nil {
			p := rec.SaveReplay(fmt.Sprintf("C09-w%d.%d-k%d-pct%d.json", seed, i, r.viol.K, r.viol.Pct), r.viol)
			t.Fatalf("%s: crash before file-system operation %d (%s) with %d%% of the unsynced data surviving: %s\nreplay: %s", w, r.viol.K, r.viol.Op, r.viol.Pct, r.viol.Error, p)
		}
		for _, s := range r.states {
			strictlyInside := s.window > 0 && s.k > r.firstOp[s.window] && s.k < r.lastOp[s.window]
			s.c.ClassIf(strictlyInside, "strictly-inside-commit-window")
			s.c.Done(s.partial && (strictlyInside || s.sstOpen))
		}
		rec.Note(fmt.Sprintf("workload-%d", i), fmt.Sprintf("%s: dry-run ops=%d, crash states examined=%d, mode=%s", w, n, len(r.states), map[bool]string{true: "every-operation", false: "commit-windows+sample"}[r.every]))
	}
	rec.Note("summary", fmt.Sprintf("seed=%d workloads(every-op=%d sampled=%d) dry-run fs-operations=%d wall=%.1fs", seed, everyN, sampledN, totalOps, time.Since(start).Seconds()))
}

// replay re-checks a saved crash image
func replay(t *testing.T, path string) {
	bz, err := os.ReadFile(path)
	if err != nil {
		t.Fatalf("replay: %v", err)
	}
	var v violation
	if err = json.Unmarshal(bz, &v); err != nil {
		t.Fatalf("replay: %v", err)
	}
	fs, err := crashfs.Load(v.Image)
	if err != nil {
		t.Fatalf("replay: %v", err)
	}
	w := newWorkload(v.Seed, v.Index)
	hp, verr := verify(fs, w, v.Lo, v.Hi)
	if verr != nil {
		t.Fatalf("%s: crash before operation %d (%s), %d%% unsynced survival, re-opened at %d: %v", w, v.K, v.Op, v.Pct, hp, verr)
	}
	t.Logf("image re-opens consistently at height %d", hp)
}
