package c09

import (
	"testing"

	"github.com/canopy-network/canopy/lib"
	"github.com/canopy-network/canopy/store"
	"github.com/cockroachdb/pebble/v2"
)

// TestC09Reg_SharedBatchClosedOnce: (finding KF-C09-batch-double-close; found by the thorough tier as the panic
// "pebble: batch already committing" when a re-opened store continued while the workload store of the same process was
// resetting). A Store's write batch is shared by its state and indexer versioned stores; each of them closed it, and the
// Store closed it again. pebble recycles closed batches through a process-wide pool, so the later Close calls could
// release a batch that somebody else had re-acquired in between. The interleaving is replayed here by hand with the exported
// constructors: holder 1 closes, a new owner takes a batch from the pool, holder 2 (stale) closes.
func TestC09Reg_SharedBatchClosedOnce(t *testing.T) {
	s0, err := store.NewStoreInMemory(lib.NewNullLogger())
	if err != nil {
		t.Fatal(err)
	}
	s := s0.(*store.Store)
	defer s.Close()
	db := s.DB()
	for attempt := 0; attempt < 50; attempt++ {
		shared := db.NewBatch()
		holder1 := store.NewVersionedStore(db.NewSnapshot(), shared, 1) // what NewStoreWithDB / Copy / Reset build:
		holder2 := store.NewVersionedStore(db.NewSnapshot(), shared, 2) // two versioned stores on ONE batch
		if e := holder1.Close(); e != nil {
			t.Fatal(e)
		}
		other := db.NewBatch()              // another goroutine's store takes a batch from the pool (possibly the object just released)
		if e := holder2.Close(); e != nil { // the stale second Close
			t.Fatal(e)
		}
		k := lib.JoinLenPrefix([]byte("rb"), []byte{byte(attempt)})
		func() {
			defer func() {
				if r := recover(); r != nil {
					t.Fatalf("attempt %d: a batch taken from the pool AFTER the first Close was released by the stale second Close of the shared batch: %v", attempt, r)
				}
			}()
			if e := other.Set(k, []byte{1}, nil); e != nil {
				t.Fatalf("attempt %d: the new owner's batch is unusable: %v", attempt, e)
			}
			if e := other.Commit(pebble.NoSync); e != nil {
				t.Fatalf("attempt %d: the new owner's batch cannot be committed: %v", attempt, e)
			}
		}()
		v, closer, e := db.Get(k)
		if e != nil || len(v) != 1 {
			t.Fatalf("attempt %d: the new owner's write is missing (%v)", attempt, e)
		}
		_ = closer.Close()
		_ = other.Close()
		_ = shared.Close() // the creator closes its batch (once)
	}
}
