package c15

import (
	"testing"

	"github.com/canopy-network/canopy/bft"
	"github.com/canopy-network/canopy/lib"

	bs "verif/h/bftsim"
)

// findSim searches a sortition seed under which `ok` holds (the adversary plans with the real sortition).
func findSim(t *testing.T, power []uint64, byz []bool, ok func(s *bs.Sim) bool) *bs.Sim {
	for seed := uint64(0); seed < 500; seed++ {
		s := bs.New(bs.Config{Power: power, Byz: byz, Height: 1, RootHeight: 5, Seed: seed, LastRootHeightUpdated: 5})
		if ok(s) {
			return s
		}
		s.Close()
	}
	t.Fatalf("no feasible sortition seed")
	return nil
}

func steer(s *bs.Sim, root, round uint64, want int, voters []int, extra func(e *bs.Env, to int) bool) *bs.RoundPolicy {
	pl := s.PlanLeader(root, round, want, voters)
	return &bs.RoundPolicy{Route: func(e *bs.Env, to int) bool {
		if e.Kind == "EL" && pl.Suppress[e.From] {
			return false
		}
		if e.Kind == "BLOCK" {
			return false
		}
		return extra == nil || extra(e, to)
	}}
}

var four = []uint64{10, 10, 10, 10}
var dByz = []bool{false, false, false, true}

// TestC15Reg_PacemakerThresholdBelowOneThird: Pacemaker() advances to the highest round "seen by +1/3", computed as
// MinimumMaj23 reduced by 50% with integer rounding = floor((floor(2T/3)+1)/2). For T = 3k+1 this is k, which a
// Byzantine minority of exactly k (< T/3) reaches ALONE: one inflated pacemaker message moves every correct replica
// to an arbitrary round (wait times grow with the round; different values to different replicas split them for good).
func TestC15Reg_PacemakerThresholdBelowOneThird(t *testing.T) {
	s := bs.New(bs.Config{Power: []uint64{1, 1, 1, 1}, Byz: dByz, Height: 1, RootHeight: 5, Seed: 3})
	defer s.Close()
	onlyPM := &bs.RoundPolicy{Route: func(e *bs.Env, to int) bool { return e.Kind == "PM" && !s.R[e.From].Byz }}
	e := s.CraftPacemaker(3, 5, 40, []int{0, 1, 2})
	for _, to := range e.To {
		if err := s.Deliver(e.ID, to); err != nil {
			t.Fatalf("deliver: %v", err)
		}
	}
	s.RunRound(onlyPM) // round 0 fails (nothing but the correct replicas' pacemaker messages gets through)
	for _, i := range s.Honest() {
		if r := s.R[i].B.Round; r != 1 {
			t.Fatalf("VIOLATION: a single Byzantine validator holding 1/4 (< 1/3) of the power moved correct replica %d from round 0 to round %d with one pacemaker message (threshold used: %d of total %d)\nschedule: %s",
				i, r, lib.Uint64ReducePercentage(s.VS.MinimumMaj23, 50), s.Total, bs.Wrap(s.Descriptor()))
		}
	}
}

// TestC15Reg_WrongPhaseCertificateInCommitWedges: CheckProposerMessage never looks at the phase of the certificate
// inside a PRECOMMIT/COMMIT message. A Byzantine leader that behaves until PRECOMMIT and then sends COMMIT carrying
// the PROPOSE_VOTE certificate again drives every correct replica into COMMIT_PROCESS, where the controller refuses
// the certificate (wrong phase) - and SetTimerForNextPhase arms no timer in COMMIT_PROCESS: the replicas stay there
// until an external reset (never, on a chain that is its own root).
func TestC15Reg_WrongPhaseCertificateInCommitWedges(t *testing.T) {
	const D = 3
	all := []int{0, 1, 2, 3}
	s := findSim(t, four, dByz, func(s *bs.Sim) bool { return s.PlanLeader(5, 0, D, all).OK })
	defer s.Close()
	bl := &bs.ByzLeader{S: s, D: D, Root: 5, Round: 0, Props: []*bs.Proposal{s.NewProposal(D, "W", 5)}, Targets: [][]int{{0, 1, 2}}, CoSigners: []int{D}, WrongPhaseCM: true}
	pol := steer(s, 5, 0, D, all, func(e *bs.Env, to int) bool { return !bl.SuppressEngine(e) })
	pol.After = bl.After
	s.RunRound(pol)
	for _, i := range s.Honest() {
		if s.R[i].Stuck {
			t.Fatalf("VIOLATION: correct replica %d sits in COMMIT_PROCESS without a timer after a COMMIT message that carried a PROPOSE_VOTE certificate (controller gate: %v)\nschedule: %s", i, s.GateFails, bs.Wrap(s.Descriptor()))
		}
	}
}

// TestC15Reg_StaleElectionCertificateHijacksRounds: a PROPOSE message is justified by an election certificate, but
// nothing ties the certificate's round to the round of the message. A validator that was elected once in a height
// can overwrite the proposal of every later correct leader (AddProposal keeps the last one) with a message justified
// by its old certificate; the replicas then vote towards the Byzantine validator and the correct leader's round fails.
func TestC15Reg_StaleElectionCertificateHijacksRounds(t *testing.T) {
	const D = 3
	all := []int{0, 1, 2, 3}
	var L int
	s := findSim(t, four, dByz, func(s *bs.Sim) bool {
		if !s.PlanLeader(5, 0, D, all).OK {
			return false
		}
		for L = 0; L < 3; L++ {
			if pl := s.PlanLeader(5, 1, L, []int{0, 1, 2}); pl.OK && pl.Votes-10 >= 30 {
				return true
			}
		}
		return false
	})
	defer s.Close()
	// round 0: D is elected, proposes, then stays silent: the round fails
	s.RunRound(steer(s, 5, 0, D, all, func(e *bs.Env, to int) bool {
		return !(e.From == D && (e.Kind == "PC" || e.Kind == "CM")) && e.Kind != "PM"
	}))
	pr := s.LeaderMsg(D, 5, 0, "PR")
	if pr == nil {
		t.Fatalf("setup: D was not elected in round 0: %s", bs.Wrap(s.Descriptor()))
	}
	if s.CommittedCorrect() > 0 {
		t.Fatalf("setup: round 0 committed")
	}
	// round 1: correct leader L; right after L's PROPOSE the Byzantine validator sends its own, justified by the certificate of round 0
	pol := steer(s, 5, 1, L, []int{0, 1, 2}, func(e *bs.Env, to int) bool { return e.From != D && e.Kind != "PM" })
	hijacked := false
	pol.After = func(step int, sent []*bs.Env) {
		for _, e := range sent {
			if e.Kind == "PR" && e.From == L {
				// L's proposal first, then the hijacker's (it arrives later within the same phase)
				for _, to := range e.To {
					_ = s.Deliver(e.ID, to)
				}
				h := s.CraftPropose(D, 5, 1, pr.Msg.Qc, s.NewProposal(D, "hijack", 5), nil, nil, []int{0, 1, 2})
				for _, to := range h.To {
					if err := s.Deliver(h.ID, to); err == nil {
						hijacked = true
					}
				}
			}
		}
	}
	s.RunRound(pol)
	if s.LeaderMsg(L, 5, 1, "PR") == nil {
		t.Fatalf("setup: L did not propose in round 1: %s", bs.Wrap(s.Descriptor()))
	}
	if s.CommittedCorrect() == 0 {
		t.Fatalf("VIOLATION: the round of correct leader %d (all messages of correct replicas delivered) did not commit; a PROPOSE message of Byzantine validator %d for round 1 justified by its election certificate of round 0 was accepted=%v and replaced the leader's proposal\nschedule: %s", L, D, hijacked, bs.Wrap(s.Descriptor()))
	}
}

// TestC15Reg_HighQcWithoutBlockPoisonsLeader: a leader adopts the highest HighQc reported in the election votes
// together with vote.Qc.Block/Results - which nobody checks against the certificate. A Byzantine voter that holds a
// withheld +2/3 PROPOSE_VOTE certificate reports it without the block: the correct leader then proposes a nil block,
// every replica rejects it, the round fails - in every round led by a replica whose own lock is lower.
func TestC15Reg_HighQcWithoutBlockPoisonsLeader(t *testing.T) {
	const D = 3
	all := []int{0, 1, 2, 3}
	var L int
	s := findSim(t, four, dByz, func(s *bs.Sim) bool {
		if !s.PlanLeader(5, 0, D, all).OK {
			return false
		}
		for L = 0; L < 3; L++ {
			if pl := s.PlanLeader(5, 1, L, []int{0, 1, 2}); pl.OK && pl.Votes-10 >= 30 {
				return true
			}
		}
		return false
	})
	defer s.Close()
	// round 0: D leads, collects a +2/3 PROPOSE_VOTE certificate and withholds PRECOMMIT
	s.RunRound(steer(s, 5, 0, D, all, func(e *bs.Env, to int) bool {
		return !(e.From == D && (e.Kind == "PC" || e.Kind == "CM")) && e.Kind != "PM"
	}))
	pc := s.LeaderMsg(D, 5, 0, "PC")
	if pc == nil || s.CertPower(pc.Msg.Qc) < 30 {
		t.Fatalf("setup: no withheld certificate: %s", bs.Wrap(s.Descriptor()))
	}
	// round 1: correct leader L; D's election vote carries the certificate as HighQc, but no block
	pol := steer(s, 5, 1, L, []int{0, 1, 2}, func(e *bs.Env, to int) bool { return e.From != D && e.Kind != "PM" })
	accepted := false
	pol.After = func(step int, sent []*bs.Env) {
		for _, e := range sent {
			if e.Kind == "ELV" && e.View.Round == 1 {
				hq := bs.CloneQC(pc.Msg.Qc)
				hq.Block, hq.Results = nil, nil
				v := s.CraftVote(D, s.ElectionVotePayload(5, 1, L), hq, nil, []int{L})
				accepted = s.Deliver(v.ID, L) == nil
				return
			}
		}
	}
	s.RunRound(pol)
	if s.CommittedCorrect() == 0 {
		t.Fatalf("VIOLATION: the round of correct leader %d did not commit: it adopted a HighQc reported WITHOUT its block by Byzantine validator %d (vote accepted=%v) and proposed a nil block\nschedule: %s", L, D, accepted, bs.Wrap(s.Descriptor()))
	}
}

// TestC15Reg_ElectionCertificateInPrecommitLocks: same missing binding as the COMMIT case, other end: the Qc of a
// PROPOSE message is the ELECTION_VOTE certificate plus the block/results hashes; its signature covers only
// (view, proposer key). A Byzantine leader sends exactly that certificate again inside its PRECOMMIT message: it
// verifies, is "+2/3", the hashes match the replicas' proposal - so the correct replicas LOCK on it (no PROPOSE vote
// was ever counted). Their HighQC now has phase ELECTION_VOTE; every election vote they send afterwards carries it,
// fails CheckHighQC (wrong phase) at the next leader and is dropped as a whole: with more than one third of the
// power locked that way no correct leader is ever elected again.
func TestC15Reg_ElectionCertificateInPrecommitLocks(t *testing.T) {
	const D = 3
	all := []int{0, 1, 2, 3}
	var L int
	s := findSim(t, four, dByz, func(s *bs.Sim) bool {
		if !s.PlanLeader(5, 0, D, all).OK {
			return false
		}
		for L = 0; L < 3; L++ {
			if pl := s.PlanLeader(5, 1, L, []int{0, 1, 2}); pl.OK && pl.Votes-10 >= 30 {
				return true
			}
		}
		return false
	})
	defer s.Close()
	sentFake := false
	pol := steer(s, 5, 0, D, all, func(e *bs.Env, to int) bool {
		return !(e.From == D && (e.Kind == "PC" || e.Kind == "CM")) && e.Kind != "PM"
	})
	pol.After = func(step int, sent []*bs.Env) {
		for _, e := range sent {
			if e.Kind == "PRV" && !sentFake {
				pr := s.LeaderMsg(D, 5, 0, "PR")
				if pr == nil {
					return
				}
				sentFake = true
				fake := s.CraftJustified(D, 5, 0, bs.Precommit, pr.Msg.Qc, pr.Msg.RcBuildHeight, []int{0, 1, 2})
				for _, to := range fake.To {
					if err := s.Deliver(fake.ID, to); err != nil {
						t.Logf("replica %d refused the PRECOMMIT that carries the election certificate: %v", to, err)
					}
				}
			}
		}
	}
	s.RunRound(pol)
	if !sentFake {
		t.Fatalf("setup: D was not elected in round 0: %s", bs.Wrap(s.Descriptor()))
	}
	locked := 0
	for _, i := range s.Honest() {
		if h := s.R[i].B.HighQC; h != nil && h.Header.Phase == lib.Phase_ELECTION_VOTE {
			locked++
		}
	}
	// round 1: correct leader, everything the correct replicas say is delivered
	s.RunRound(steer(s, 5, 1, L, []int{0, 1, 2}, func(e *bs.Env, to int) bool { return e.From != D && e.Kind != "PM" }))
	if s.CommittedCorrect() == 0 {
		t.Fatalf("VIOLATION: %d correct replicas locked on the ELECTION_VOTE certificate that Byzantine leader %d re-sent inside PRECOMMIT; in round 1 (correct leader %d, synchronous) their election votes were refused for carrying that lock and nothing committed\nschedule: %s", locked, D, L, bs.Wrap(s.Descriptor()))
	}
}

// TestC15Reg_PartialCertificateStripsCommitBlock: ANY validator may send a leader-type message whose certificate is
// "partial" (valid aggregate, below +2/3): CheckProposerMessage stores it as possible evidence without asking who
// leads. At COMMIT_PROCESS the replica first runs GetLocalDSE(): a stored partial PRECOMMIT_VOTE certificate of round
// r is paired with Proposals[r][COMMIT][0].Qc - the very certificate the replica is about to commit - and AddDSE()
// nullifies Block and Results of the certificates it is given, in place. SelfSendBlock then hands the controller a
// certificate without block ("block is nil"), nothing is committed and no timer is armed in COMMIT_PROCESS. One
// Byzantine validator of any power wedges every correct replica in a round that was otherwise perfect.
func TestC15Reg_PartialCertificateStripsCommitBlock(t *testing.T) {
	const D = 3
	var L int
	s := findSim(t, four, dByz, func(s *bs.Sim) bool {
		for L = 0; L < 3; L++ {
			if pl := s.PlanLeader(5, 0, L, []int{0, 1, 2}); pl.OK && pl.Votes-10 >= 30 {
				return true
			}
		}
		return false
	})
	defer s.Close()
	pol := steer(s, 5, 0, L, []int{0, 1, 2}, func(e *bs.Env, to int) bool { return e.From != D && e.Kind != "PM" })
	sent := false
	pol.After = func(step int, envs []*bs.Env) {
		for _, e := range envs {
			if e.Kind == "PCV" && !sent {
				sent = true
				// a PRECOMMIT_VOTE "certificate" of this round for a made-up payload, signed by D alone, inside a COMMIT-type message of D
				junk := s.NewProposal(D, "junk", 5)
				cert, _ := s.CraftCert(s.VotePayload(5, 0, bs.PrecommitVote, junk.BlockHash, junk.ResultsHash, D), []int{D})
				m := s.CraftJustified(D, 5, 0, bs.Commit, cert, 5, []int{0, 1, 2})
				for _, to := range m.To {
					if err := s.Deliver(m.ID, to); err != nil {
						t.Logf("replica %d refused the partial certificate: %v", to, err)
					}
				}
			}
		}
	}
	s.RunRound(pol)
	if !sent {
		t.Fatalf("setup: round 0 did not reach PRECOMMIT_VOTE: %s", bs.Wrap(s.Descriptor()))
	}
	for _, i := range s.Honest() {
		if s.R[i].Committed == nil {
			t.Fatalf("VIOLATION: correct replica %d did not commit a round in which a correct leader and all correct replicas did everything right (stuck in COMMIT_PROCESS=%v); controller gate: %v\nschedule: %s", i, s.R[i].Stuck, s.GateFails, bs.Wrap(s.Descriptor()))
		}
	}
}

// TestC15Reg_LockedProposalWithSlashesIsReproposable (reported by the C19 agent, decided here): NewRound() clears
// b.ByzantineEvidence "defensively". A proposal of round 0 whose results slash a double signer is justified by the
// evidence attached to the PROPOSE message; when that round fails after correct replicas locked on it, the next
// leader re-proposes the locked block and results (StartProposePhase) but attaches its - now empty - evidence list:
// every replica recomputes "no double signers", ValidateByzantineEvidence fails, the round fails, and so does every
// later round while the lock stands.
func TestC15Reg_LockedProposalWithSlashesIsReproposable(t *testing.T) {
	const D = 3
	var L, L2 int
	s := findSim(t, four, dByz, func(s *bs.Sim) bool {
		ok := func(root, round uint64) (int, bool) {
			for l := 0; l < 3; l++ {
				if pl := s.PlanLeader(root, round, l, []int{0, 1, 2}); pl.OK && pl.Votes-10 >= 30 {
					return l, true
				}
			}
			return 0, false
		}
		var a, b bool
		L, a = ok(5, 0)
		L2, b = ok(5, 1)
		return a && b
	})
	defer s.Close()
	// what the replicas collected at the end of the previous height: D signed two payloads in one view
	view := s.HeaderView(4, 0, bs.PrecommitVote)
	pa := &lib.QuorumCertificate{Header: view, BlockHash: s.NewProposal(D, "dsA", 4).BlockHash, ResultsHash: s.NewProposal(D, "dsA", 4).ResultsHash, ProposerKey: s.R[D].Pub}
	pb := &lib.QuorumCertificate{Header: view, BlockHash: s.NewProposal(D, "dsB", 4).BlockHash, ResultsHash: s.NewProposal(D, "dsB", 4).ResultsHash, ProposerKey: s.R[D].Pub}
	ca, _ := s.CraftCert(pa, []int{D})
	cb, _ := s.CraftCert(pb, []int{D})
	for _, i := range s.Honest() {
		if err := s.R[i].B.AddDSE(&s.R[i].B.ByzantineEvidence.DSE, &bft.DoubleSignEvidence{VoteA: bs.CloneQC(ca), VoteB: bs.CloneQC(cb)}); err != nil {
			t.Fatalf("setup: evidence refused: %v", err)
		}
	}
	// round 0: correct leader L, everybody locks, the PRECOMMIT votes never reach L: no COMMIT, the round fails
	s.RunRound(steer(s, 5, 0, L, []int{0, 1, 2}, func(e *bs.Env, to int) bool { return e.From != D && e.Kind != "PCV" && e.Kind != "PM" }))
	pr := s.LeaderMsg(L, 5, 0, "PR")
	if pr == nil || pr.Msg.Qc.Results.SlashRecipients == nil || len(pr.Msg.Qc.Results.SlashRecipients.DoubleSigners) != 1 {
		t.Fatalf("setup: the proposal of round 0 does not slash D: %s", bs.Wrap(s.Descriptor()))
	}
	for _, i := range s.Honest() {
		if s.R[i].B.HighQC == nil {
			t.Fatalf("setup: replica %d not locked: %s", i, bs.Wrap(s.Descriptor()))
		}
	}
	if s.CommittedCorrect() != 0 {
		t.Fatalf("setup: round 0 committed")
	}
	// round 1: correct leader L2 re-proposes the lock; everything correct replicas say is delivered
	s.RunRound(steer(s, 5, 1, L2, []int{0, 1, 2}, func(e *bs.Env, to int) bool { return e.From != D && e.Kind != "PM" }))
	if s.CommittedCorrect() == 0 {
		t.Fatalf("VIOLATION: every correct replica is locked on the round-0 proposal that slashes validator %d; correct leader %d re-proposed it in round 1 (synchronous, all messages delivered) and nothing committed - the evidence that justifies the slash is gone after NewRound()\nschedule: %s", D, L2, bs.Wrap(s.Descriptor()))
	}
}

// TestC15Reg_HighQcWithForgedBuildHeightPoisonsLeader: together with a reported HighQc the leader adopts the voter's
// RcBuildHeight - a field that neither the vote's signature nor the certificate covers. A Byzantine voter that holds
// a withheld +2/3 PROPOSE_VOTE certificate reports it (with its block and results, so it passes every check) and
// claims another build height: the correct leader re-proposes the block with that build height, every replica
// recomputes the certificate results for the claimed root height (or refuses a build height below the committee's
// last root height), the proposal is rejected - in every round led by a replica whose own lock is lower.
func TestC15Reg_HighQcWithForgedBuildHeightPoisonsLeader(t *testing.T) {
	const D = 3
	all := []int{0, 1, 2, 3}
	var L int
	s := findSim(t, four, dByz, func(s *bs.Sim) bool {
		if !s.PlanLeader(5, 0, D, all).OK {
			return false
		}
		for L = 0; L < 3; L++ {
			if pl := s.PlanLeader(5, 1, L, []int{0, 1, 2}); pl.OK && pl.Votes-10 >= 30 {
				return true
			}
		}
		return false
	})
	defer s.Close()
	// round 0: D leads, collects a +2/3 PROPOSE_VOTE certificate and withholds PRECOMMIT
	s.RunRound(steer(s, 5, 0, D, all, func(e *bs.Env, to int) bool {
		return !(e.From == D && (e.Kind == "PC" || e.Kind == "CM")) && e.Kind != "PM"
	}))
	pc, pr := s.LeaderMsg(D, 5, 0, "PC"), s.LeaderMsg(D, 5, 0, "PR")
	if pc == nil || pr == nil || s.CertPower(pc.Msg.Qc) < 30 {
		t.Fatalf("setup: no withheld certificate: %s", bs.Wrap(s.Descriptor()))
	}
	// round 1: correct leader L; D's election vote arrives first: genuine certificate, genuine block and results, build height 0
	pol := steer(s, 5, 1, L, []int{0, 1, 2}, func(e *bs.Env, to int) bool { return e.From != D && e.Kind != "PM" })
	accepted := false
	pol.After = func(step int, sent []*bs.Env) {
		for _, e := range sent {
			if e.Kind == "ELV" && e.View.Round == 1 {
				hq := bs.CloneQC(pc.Msg.Qc)
				hq.Block, hq.Results = pr.Msg.Qc.Block, pr.Msg.Qc.Results
				v := s.CraftVoteBuild(D, s.ElectionVotePayload(5, 1, L), hq, 0, []int{L})
				accepted = s.Deliver(v.ID, L) == nil
				return
			}
		}
	}
	s.RunRound(pol)
	if s.CommittedCorrect() == 0 {
		t.Fatalf("VIOLATION: the round of correct leader %d did not commit: it adopted the HighQc reported by Byzantine validator %d (vote accepted=%v) together with the claimed build height 0 (the block was built at root height 5) and its re-proposal was rejected by every replica\nschedule: %s", L, D, accepted, bs.Wrap(s.Descriptor()))
	}
}
