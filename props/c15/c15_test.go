// Package c15 decides property C15: bounded liveness under eventual synchrony. An adversarial prefix (any C01
// scenario of package bftscen, cut at a generated step = GST) leaves N real bft.BFT replicas in whatever rounds,
// phases, locks and partial certificates it produced; then a virtual-time discrete-event suffix runs in which every
// correct replica's timer fires at now + b.WaitTime(phase, round) and every message of a correct replica arrives
// within a generated delta below the smallest phase timeout.
package c15

import (
	"fmt"
	"math/rand/v2"
	"os"
	"sort"
	"strings"
	"sync"
	"testing"
	"time"

	"pgregory.net/rapid"

	"verif/h/bftscen"
	bs "verif/h/bftsim"
	"verif/h/ev"
)

// RSync is the frozen convergence allowance (rounds led by a correct predicted leader that may still fail after GST
// while rounds, phases and timers of the correct replicas re-align). Calibrated once on the unchanged tree, see
// check.json "assumptions" and the calibration note in the evidence. Raising it later is a finding to investigate.
const RSync = 3

// phase timeouts: a generated base times a generated per-phase factor (ratio between phases <= 2, the shape of the
// production defaults 1.5s..4s)
var timeoutBases = []int{20, 200, 2000}
var timeoutFactors = []int{2, 3, 4} // halves

// Byzantine behaviour after GST. The last three replay certificates inside new messages; each is the input class of a
// finding and is generated only while that finding is not open.
var byzModes = []string{"silent", "honestlike", "withhold-leader", "equivocate", "inflated-pacemaker", "wrong-phase-commit", "stale-election-cert", "highqc-without-block", "highqc-wrong-build-height-last", "highqc-wrong-build-height-first"}
var modeFinding = map[string]string{"wrong-phase-commit": bftscen.KFWrongPhase, "stale-election-cert": bftscen.KFStaleElect, "highqc-without-block": bftscen.KFHighQcBlock,
	"highqc-wrong-build-height-first": bftscen.KFBuildHeight}

// allowance: failed correct-led rounds tolerated after GST. With a quorum in the front round: RSync. Otherwise no quorum
// of correct replicas shares a round at GST: a replica that cannot fast-forward (those ahead of it hold < 1/3) walks up
// round by round and ends up mis-aligned in time by the sum of those round lengths, and only the growth of the wait times
// with the round re-aligns replicas (nothing else does): the first-principles cap for that worst misalignment, + 2.
func allowance(r *bs.SyncResult) int {
	if r.Aligned {
		return RSync
	}
	return RSync + r.CapRounds + 2
}

// MaxCapRounds: beyond this first-principles cap the bounded-liveness assertion is not evaluated (the suffix still runs
// ShortRun rounds for the safety and pacemaker-rule oracles): re-convergence by wait growth alone needs hundreds of rounds.
const (
	MaxCapRounds = 80
	ShortRun     = 30
)

type histo struct {
	mu sync.Mutex
	m  map[int]int
}

func (h *histo) add(v int) {
	h.mu.Lock()
	h.m[v]++
	h.mu.Unlock()
}

func (h *histo) String() string {
	h.mu.Lock()
	defer h.mu.Unlock()
	var ks []int
	for k := range h.m {
		ks = append(ks, k)
	}
	sort.Ints(ks)
	var b strings.Builder
	for _, k := range ks {
		fmt.Fprintf(&b, "%d:%d ", k, h.m[k])
	}
	return strings.TrimSpace(b.String())
}

func TestC15Liveness(t *testing.T) {
	rec := ev.New(t, "C15")
	calibrate := os.Getenv("C15_CALIBRATE") != ""
	hist := &histo{m: map[int]int{}}
	spread := &histo{m: map[int]int{}}
	ratio := &histo{m: map[int]int{}}
	t.Cleanup(func() {
		rec.Note("spread_cases_tenths_of_cap_needed_histogram", ratio.String())
		rec.Note("spread_cases_failed_correct_led_rounds_histogram", spread.String())
		rec.Note("failed_correct_led_rounds_after_gst_histogram(elapsed-byzLed-1:cases)", hist.String())
		rec.Note("r_sync", fmt.Sprint(RSync))
	})
	rapid.Check(t, func(rt *rapid.T) {
		c := rec.Case()
		cfg, mode, g1, g2 := bftscen.Committee(rt)
		base := rapid.SampledFrom(timeoutBases).Draw(rt, "timeoutBase")
		tm := func(l string) int { return base * rapid.SampledFrom(timeoutFactors).Draw(rt, l) / 2 }
		cfg.ElectionMS, cfg.ElectionVoteMS, cfg.ProposeMS, cfg.ProposeVoteMS = tm("tEl"), tm("tElV"), tm("tPr"), tm("tPrV")
		cfg.PrecommitMS, cfg.PrecommitVoteMS, cfg.CommitMS = tm("tPc"), tm("tPcV"), tm("tCm")
		cut := rapid.IntRange(1, 400).Draw(rt, "gstStep")
		scatter := rapid.IntRange(0, 4).Draw(rt, "scatter") == 0 || os.Getenv("C15_SCATTER") != ""
		if scatter {
			cut = 1 << 30 // the prefix runs to its end, then the replicas are spread over pairwise different rounds
		}
		res := bftscen.RunOn(rt, bftscen.Options{CutSteps: cut, NoFinish: true, ExtraPartition: true, Scatter: scatter, Families: "F1,F2,F3,F4,F4,F5,F5,F6,F7,F7,F7"}, cfg, mode, g1, g2)
		s := res.S
		defer s.Close()
		for _, l := range res.Classes {
			if strings.HasPrefix(l, "fam=") || strings.HasPrefix(l, "committee=") || strings.HasPrefix(l, "seg:") || strings.HasPrefix(l, "byzlead:") {
				c.Class(l)
			}
		}
		// state at GST: is some correct replica locked on a block that is not the block of the highest lock?
		lockedLower := false
		var hi *bs.V
		var hiBlock string
		for _, i := range s.Honest() {
			if r := s.R[i]; r.Committed == nil && r.B.HighQC != nil {
				v := bs.VOf(r.B.HighQC.Header)
				if hi == nil || hi.RootHeight < v.RootHeight || (hi.RootHeight == v.RootHeight && hi.Round < v.Round) {
					hi, hiBlock = &v, string(r.B.HighQC.BlockHash)
				}
			}
		}
		for _, i := range s.Honest() {
			if r := s.R[i]; r.Committed == nil && r.B.HighQC != nil && string(r.B.HighQC.BlockHash) != hiBlock {
				lockedLower = true
			}
		}
		frac := rapid.SampledFrom([]float64{0.02, 0.3, 0.6, 0.95}).Draw(rt, "deltaFrac")
		delta := time.Duration(float64(s.MinTimeout()) * frac)
		if delta >= s.MinTimeout() {
			delta = s.MinTimeout() - time.Millisecond
		}
		byzMode := rapid.SampledFrom(byzModes).Draw(rt, "byzMode")
		if m := os.Getenv("C15_BYZMODE"); m != "" {
			byzMode = m
		}
		if open := modeFinding[byzMode]; open != "" && ev.Open(open) {
			rec.Exclude(open) // the input class of an open finding is left out by construction
			byzMode = "honestlike"
		}
		for id, n := range res.Excluded {
			for ; n > 0; n-- {
				rec.Exclude(id)
			}
		}
		if byzMode == "inflated-pacemaker" && bftscen.PacemakerVulnerable(s) && ev.Open(bftscen.KFPacemaker) {
			rec.Exclude(bftscen.KFPacemaker)
			byzMode = "honestlike"
		}
		old := rapid.SampledFrom([]string{"relevant", "relevant", "all"}).Draw(rt, "oldMessages")
		rng := rand.New(rand.NewPCG(rapid.Uint64().Draw(rt, "clockSeed"), 15))
		committedBefore := s.CommittedCorrect()
		sr := s.RunSynchronous(bs.SyncOpts{Delta: delta, Rng: rng, ByzMode: byzMode, MaxEvents: 400000, Old: old,
			// while KF-C15-highqc-forged-build-height is open a forged build height is only sent to a leader that holds the
			// copied lock itself (where the unchanged code ignores it); any other leader adopts it: that is the open finding
			ForgedBuildHeightOnlyToLockedLeader: ev.Open(bftscen.KFBuildHeight),
			// the run is finite: it stops when a correct replica passes twice the allowance (+10) - up to half of the rounds may
			// be excused (Byzantine or lagging predicted leader)
			Limit: func(r *bs.SyncResult) uint64 {
				if !r.Aligned && r.CapRounds > MaxCapRounds {
					return ShortRun
				}
				return uint64(2*(allowance(r)+1) + 10)
			}})
		boundSkipped := !sr.Aligned && sr.CapRounds > MaxCapRounds
		c.ClassIf(boundSkipped, "liveness-bound-not-evaluated(cap>80-rounds)")
		c.ClassIf(sr.Aligned, "quorum-in-front-round-at-gst")
		c.ClassIf(!sr.Aligned, "quorum-spread-over-rounds-at-gst")
		c.Class("byz=" + byzMode)
		c.Class(fmt.Sprintf("delta=%.2f*minTimeout", frac))
		c.Class(fmt.Sprintf("spread-rounds-at-gst=%d", min(int(sr.SpreadRounds), 4)))
		c.ClassIf(sr.LockedAtGst > 0, "locked-at-gst")
		c.ClassIf(lockedLower, "locked-on-other-block-than-highest-lock-at-gst")
		c.ClassIf(committedBefore > 0, "some-committed-before-gst")
		c.ClassIf(res.Cut, "prefix-cut-mid-scenario")
		c.Class(fmt.Sprintf("rounds-after-gst=%d", min(max(sr.Elapsed, 0), 8)))
		c.Class(fmt.Sprintf("byz-led-rounds=%d", min(sr.ByzLed, 4)))
		c.Desc(res.Header())
		c.Desc(fmt.Sprintf("timeoutsMS=%d/%d/%d/%d/%d/%d/%d gstStep=%d delta=%v byz=%s old=%s rGst=%d rEnd=%d byzLed=%d", cfg.ElectionMS, cfg.ElectionVoteMS, cfg.ProposeMS,
			cfg.ProposeVoteMS, cfg.PrecommitMS, cfg.PrecommitVoteMS, cfg.CommitMS, cut, delta, byzMode, old, sr.RGst, sr.REnd, sr.ByzLed))
		c.Desc(s.Descriptor())
		// safety must hold through the suffix as well
		if v := s.CheckSafety().Violations(true); len(v) > 0 {
			rt.Fatalf("C15: safety violated during the run: %v\ncase: %s\nschedule: %s", v, res.Header(), bs.Wrap(s.Descriptor()))
		}
		// the mechanism liveness rests on: every Pacemaker() of every replica followed the documented fast-forward rule
		if len(s.PacemakerMismatch) > 0 {
			rt.Fatalf("C15 VIOLATION (pacemaker rule): %s\ncase: %s\nschedule: %s", strings.Join(s.PacemakerMismatch, "; "), res.Header(), bs.Wrap(s.Descriptor()))
		}
		m := sr.Elapsed - sr.ByzLed - 1
		allow := allowance(sr)
		if sr.Aligned {
			hist.add(m)
		} else {
			spread.add(m)
			if sr.CapRounds > 0 {
				ratio.add(m * 10 / sr.CapRounds)
			}
		}
		if !calibrate && !boundSkipped {
			if m > allow {
				rt.Fatalf("C15 VIOLATION: %d rounds after GST (round %d -> %d) with only %d led by a Byzantine predicted leader: %d correct-led rounds failed, allowance %d (+1 for the round GST fell into); all committed=%v gaveUp=%q\ncase: %s\nschedule: %s",
					sr.Elapsed, sr.RGst, sr.REnd, sr.ByzLed, m+1, allow, sr.AllCommitted, sr.GaveUp, res.Header(), bs.Wrap(s.Descriptor()))
			}
			if !sr.AllCommitted {
				rt.Fatalf("C15 VIOLATION: not every correct replica committed (gave up: %q) although only %d rounds passed since GST (%d Byzantine-led)\ncase: %s\nschedule: %s",
					sr.GaveUp, sr.Elapsed, sr.ByzLed, res.Header(), bs.Wrap(s.Descriptor()))
			}
		} else if !sr.AllCommitted {
			c.Class("calibration:not-all-committed")
			fmt.Printf("NOTCOMMITTED aligned=%v m=%d cap=%d gaveup=%q %s\n", sr.Aligned, m, sr.CapRounds, sr.GaveUp, res.Header())
			if os.Getenv("C15_DUMP") != "" {
				d := s.Descriptor()
				k := strings.Index(d, "{GST")
				fmt.Println("DUMP", d[max(0, k-1500):min(len(d), k+9000)])
				fmt.Println("GATEFAILS", s.GateFails)
			}
		}
		if calibrate && !sr.Aligned && m > allow {
			fmt.Printf("OVERCAP spread m=%d cap=%d %s\n", m, sr.CapRounds, res.Header())
		}
		if calibrate && sr.Aligned && m >= 2 {
			fmt.Printf("SLOW aligned m=%d elapsed=%d byzLed=%d byz=%s delta=%v %s\n", m, sr.Elapsed, sr.ByzLed, byzMode, delta, res.Header())
			if os.Getenv("C15_DUMP") != "" {
				d := s.Descriptor()
				k := strings.Index(d, "{GST")
				fmt.Println("DUMP", d[max(0, k-1200):min(len(d), k+7000)])
			}
		}
		c.Done(sr.SpreadRounds >= 1 || lockedLower)
	})
}
