package c19

// certreceiver_test.go: C19(a) receiver differential for quorum certificates. The receiver is the root chain's state
// machine handling a certificate-results transaction (fsm.HandleMessageCertificateResults): the committee of a nested
// chain (+2/3, aggregate BLS signature over QuorumCertificate.SignBytes) is the authenticated sender, the proposer that
// wraps the certificate in a transaction is the relay. A certificate m and a single-field mutant m' that carries m's
// aggregate signature are executed on two forks of the same chain; if m' is included and the resulting state differs from
// what m produces, the relay changed what the committee certified.

import (
	"bytes"
	"fmt"
	"sync"
	"testing"

	"github.com/canopy-network/canopy/fsm"
	"github.com/canopy-network/canopy/lib"
	"github.com/canopy-network/canopy/lib/crypto"
	"google.golang.org/protobuf/proto"
	"pgregory.net/rapid"

	"verif/h/chainsim"
	"verif/h/ev"
	"verif/h/keys"
	"verif/h/wire"
)

const kfCertPhase = "KF-C19-electionvote-cert-as-results"

const (
	certRoot   = 1 // chain id of the receiving (root) chain
	certNested = 2 // chain id of the committee that certifies
	certVals   = 4
)

var (
	certOnce sync.Once
	certBase *chainsim.Chain
	certErr  error
	certOrd  []byte // id of an open sell order in the book of the nested chain
)

// certChain builds (once) a root chain at height 4 whose four validators also form the committee of chain 2, with an open
// sell order for chain 2 (so that lock / close / reset instructions of a certificate have something to act on).
func certChain() (*chainsim.Chain, error) {
	certOnce.Do(func() {
		var vals []chainsim.ValSpec
		for i := 0; i < certVals; i++ {
			vals = append(vals, chainsim.ValSpec{Key: i, OutputKey: -1, Stake: 1_000_000, Committees: []uint64{certRoot, certNested}})
		}
		accts := []chainsim.AcctSpec{{Kind: 0, Key: 0, Amount: 1_000_000_000}, {Kind: 0, Key: 1, Amount: 1_000_000_000}, {Kind: 1, Key: 5, Amount: 100_000_000_000}}
		g := chainsim.BuildGenesis(certRoot, vals, accts, nil, nil)
		c, err := chainsim.New(chainsim.Opts{Genesis: g, ChainID: certRoot})
		if err != nil {
			certErr = err
			return
		}
		seller := keys.Ed(5)
		tx, _, err := c.SignTx(seller, &fsm.MessageCreateOrder{ChainId: certNested, AmountForSale: 5_000_000_000, RequestedAmount: 1_000_000,
			SellerReceiveAddress: bytes.Repeat([]byte{0xab}, 20), SellersSendAddress: chainsim.Addr(seller)}, 100_000, c.Height(), "")
		if err != nil {
			certErr = err
			return
		}
		out, err := c.Block(chainsim.BlockSpec{Txs: [][]byte{tx}})
		if err != nil || out.Err != nil || len(out.Results.Failed) != 0 {
			certErr = fmt.Errorf("create order: %v %v %v", err, out.Err, out.Results.Failed[0].Error)
			return
		}
		for i := 0; i < 2; i++ {
			if out, err = c.Block(chainsim.BlockSpec{}); err != nil || out.Err != nil {
				certErr = fmt.Errorf("block: %v %v", err, out.Err)
				return
			}
		}
		raw, err := c.Raw()
		if err != nil {
			certErr = err
			return
		}
		ids := raw.SortedOrderIds(certNested)
		if len(ids) != 1 {
			certErr = fmt.Errorf("expected one open order, got %v", ids)
			return
		}
		certOrd, _ = lib.StringToBytes(ids[0])
		certBase = c
	})
	return certBase, certErr
}

// signCert puts a real aggregate signature of the committee members `signers` over qc.SignBytes() into qc.
func signCert(c *chainsim.Chain, qc *lib.QuorumCertificate, signers []int) error {
	vs, e := c.FSM.LoadCommittee(qc.Header.ChainId, qc.Header.RootHeight)
	if e != nil {
		return e
	}
	mk := vs.MultiKey.Copy()
	sb := qc.SignBytes()
	for _, s := range signers {
		for idx, m := range vs.ValidatorSet.ValidatorSet {
			if bytes.Equal(m.PublicKey, keys.BLS(s).PublicKey().Bytes()) {
				if err := mk.AddSigner(keys.BLS(s).Sign(sb), idx); err != nil {
					return err
				}
			}
		}
	}
	sig, err := mk.AggregateSignatures()
	if err != nil {
		return err
	}
	qc.Signature = &lib.AggregateSignature{Signature: sig, Bitmap: mk.Bitmap()}
	return nil
}

// genResults draws certificate results that pass CertificateResult.CheckBasic.
func genResults(rt *rapid.T) *lib.CertificateResult {
	r := &lib.CertificateResult{RewardRecipients: &lib.RewardRecipients{}, SlashRecipients: &lib.SlashRecipients{}}
	n := rapid.IntRange(1, 3).Draw(rt, "recipients")
	left := uint64(100)
	for i := 0; i < n; i++ {
		p := uint64(rapid.IntRange(1, int(left)-(n-1-i)).Draw(rt, "percent"))
		left -= p
		r.RewardRecipients.PaymentPercents = append(r.RewardRecipients.PaymentPercents, &lib.PaymentPercents{
			Address: chainsim.Addr(keys.Ed(40 + rapid.IntRange(0, 3).Draw(rt, "payee"))), Percent: p, ChainId: certNested})
	}
	if rapid.IntRange(0, 3).Draw(rt, "slash") == 0 {
		r.SlashRecipients.DoubleSigners = []*lib.DoubleSigner{{Id: keys.BLS(rapid.IntRange(0, certVals-1).Draw(rt, "ds")).PublicKey().Bytes(), Heights: []uint64{uint64(rapid.IntRange(1, 3).Draw(rt, "dsh"))}}}
	}
	switch rapid.IntRange(0, 4).Draw(rt, "orders") {
	case 0:
		r.Orders = &lib.Orders{LockOrders: []*lib.LockOrder{{OrderId: certOrd, ChainId: certNested, BuyerReceiveAddress: chainsim.Addr(keys.Ed(60)), BuyerSendAddress: bytes.Repeat([]byte{0xcd}, 20), BuyerChainDeadline: 1000}}}
	case 1:
		r.Orders = &lib.Orders{ResetOrders: [][]byte{certOrd}}
	case 2:
		r.Orders = &lib.Orders{CloseOrders: [][]byte{certOrd}, LockOrders: []*lib.LockOrder{{OrderId: certOrd, ChainId: certNested, BuyerReceiveAddress: chainsim.Addr(keys.Ed(61)), BuyerSendAddress: bytes.Repeat([]byte{0xce}, 20), BuyerChainDeadline: 1000}}}
	}
	if rapid.IntRange(0, 2).Draw(rt, "checkpoint") == 0 {
		r.Checkpoint = &lib.Checkpoint{Height: uint64(rapid.IntRange(1, 50).Draw(rt, "cph")), BlockHash: crypto.Hash([]byte{byte(rapid.IntRange(0, 255).Draw(rt, "cpb"))})}
	}
	if rapid.IntRange(0, 9).Draw(rt, "retired") == 0 {
		r.Retired = true
	}
	return r
}

type certOutcome struct {
	included bool
	failure  string
	state    string
}

// submitCert wraps qc in a certificate-results transaction signed by the validator whose key is qc.ProposerKey (the relay)
// and executes it on the base chain's working state exactly like the block executor does (StateMachine.ApplyTransaction =
// CheckTx + fee + handler), scans the resulting state and discards it again.
func submitCert(base *chainsim.Chain, qc *lib.QuorumCertificate) (*certOutcome, error) {
	var relay crypto.PrivateKeyI
	for i := 0; i < certVals+2; i++ {
		if bytes.Equal(keys.BLS(i).PublicKey().Bytes(), qc.ProposerKey) {
			relay = keys.BLS(i)
		}
	}
	if relay == nil {
		return &certOutcome{failure: "no relay can sign for this proposer key (transaction unauthorised)"}, nil
	}
	tx, _, err := chainsim.SignTxAt(relay, &fsm.MessageCertificateResults{Qc: proto.Clone(qc).(*lib.QuorumCertificate)}, base.Cfg.NetworkID, base.Cfg.ChainId, 0, base.Height(), 1_700_000_000_123_456, "")
	if err != nil {
		return &certOutcome{failure: "cannot build transaction: " + err.Error()}, nil
	}
	defer base.Abort()
	o := &certOutcome{}
	func() {
		defer func() {
			if r := recover(); r != nil {
				o.failure = fmt.Sprintf("PANIC: %v", r)
			}
		}()
		if _, _, e := base.FSM.ApplyTransaction(0, tx, crypto.HashString(tx), nil); e != nil {
			o.failure = e.Error()
		} else {
			o.included = true
		}
	}()
	scan, err := base.Scan()
	if err != nil {
		return nil, err
	}
	o.state = chainsim.ScanDigest(scan)
	return o, nil
}

func TestC19aCertReceiver(t *testing.T) {
	rec := ev.New(t, "C19")
	base, err := certChain()
	if err != nil {
		t.Fatalf("harness: %v", err)
	}
	rapid.Check(t, func(rt *rapid.T) {
		c := rec.Case()
		d := rd{rt}
		phase := []lib.Phase{lib.Phase_ELECTION_VOTE, lib.Phase_PROPOSE_VOTE, lib.Phase_PRECOMMIT_VOTE, lib.Phase_PRECOMMIT_VOTE}[rapid.IntRange(0, 3).Draw(rt, "phase")]
		if phase == lib.Phase_ELECTION_VOTE && openFinding(kfCertPhase) {
			rec.Exclude(kfCertPhase)
			phase = lib.Phase_PRECOMMIT_VOTE
		}
		proposer := rapid.IntRange(0, certVals-1).Draw(rt, "proposer")
		res := genResults(rt)
		qc := &lib.QuorumCertificate{
			Header:      &lib.View{NetworkId: 1, ChainId: certNested, Height: uint64(rapid.IntRange(1, 9).Draw(rt, "height")), RootHeight: uint64(rapid.IntRange(1, 3).Draw(rt, "rootHeight")), Round: uint64(rapid.IntRange(0, 2).Draw(rt, "round")), Phase: phase},
			Results:     res,
			ResultsHash: res.Hash(),
			BlockHash:   crypto.Hash([]byte{byte(rapid.IntRange(0, 255).Draw(rt, "block"))}),
			ProposerKey: keys.BLS(proposer).PublicKey().Bytes(),
		}
		signers := []int{0, 1, 2, 3}
		if rapid.Bool().Draw(rt, "three-signers") {
			skip := rapid.IntRange(0, 3).Draw(rt, "non-signer")
			signers = append(signers[:skip:skip], signers[skip+1:]...)
		}
		if err := signCert(base, qc, signers); err != nil {
			rt.Fatalf("harness: %v", err)
		}
		// the mutant: one field of the certificate; when the field lies inside `results` the relay also recomputes the
		// (derived) results_hash, otherwise the stateless hash check would mask what the SIGNATURE covers
		sites := wire.Sites(qc)
		var mutant *lib.QuorumCertificate
		var desc string
		var site wire.Site
		for attempt := 0; attempt < 20 && mutant == nil; attempt++ {
			site = sites[rapid.IntRange(0, len(sites)-1).Draw(rt, "site")]
			if rapid.Bool().Draw(rt, "prefer-results") && site.Top() != "results" {
				continue
			}
			ops := site.Ops()
			mm, ds, ok := site.Mutate(qc, ops[rapid.IntRange(0, len(ops)-1).Draw(rt, "op")], d)
			if !ok {
				continue
			}
			mutant, desc = mm.(*lib.QuorumCertificate), ds
		}
		if mutant == nil {
			c.Class("skip:no-mutation-found")
			c.Done(false)
			return
		}
		if site.Top() == "results" && mutant.Results != nil {
			mutant.ResultsHash = mutant.Results.Hash()
			desc += "+recomputed-results_hash"
		}
		wa, _ := lib.Marshal(qc)
		wb, _ := lib.Marshal(mutant)
		c.Class("phase=" + lib.Phase_name[int32(phase)])
		c.Class("field=" + site.Top())
		c.Desc("cert{%s h=%d rh=%d r=%d proposer=%d signers=%v results=%s} %s", lib.Phase_name[int32(phase)], qc.Header.Height, qc.Header.RootHeight, qc.Header.Round, proposer, signers, pm(res), desc)
		if bytes.Equal(wa, wb) {
			c.Class("same-wire-bytes(nil-vs-empty)")
			c.Done(false)
			return
		}
		a, err := submitCert(base, qc)
		if err != nil {
			rt.Fatalf("harness: %v", err)
		}
		b, err := submitCert(base, mutant)
		if err != nil {
			rt.Fatalf("harness: %v", err)
		}
		c.ClassIf(a.included, "original-included")
		c.ClassIf(!a.included, "original-rejected")
		if !b.included {
			c.Class("mutant-rejected")
			c.Done(site.Top() != "signature" && a.included)
			return
		}
		if site.Top() == "signature" {
			c.Class("signature-itself(another valid aggregate / padding of the bitmap)")
			c.Done(false)
			return
		}
		if !a.included || a.state != b.state {
			rt.Fatalf("the relay rewrote %s (%s) of a %s certificate that +2/3 of committee %d signed; the root chain INCLUDED the certificate-results transaction under the ORIGINAL aggregate signature and its state differs from what the signed certificate produces (original included=%v %q)\n case: %s",
				site.Field(), desc, lib.Phase_name[int32(phase)], certNested, a.included, a.failure, c.Descriptor())
		}
		c.Class("mutant-included-same-state")
		c.Done(true)
	})
}

// KF-C19-electionvote-cert-as-results: QuorumCertificate.SignBytes of an ELECTION_VOTE certificate covers {view, proposer
// key} only, and fsm.HandleMessageCertificateResults accepts a certificate of ANY phase: the elected leader of one round -
// a single validator - can attach arbitrary results (payees, double signers to slash, order instructions, checkpoint,
// retirement of the committee) to the +2/3 election aggregate every PROPOSE message publishes, and the root chain executes
// them as if +2/3 of the committee had certified them.
func TestC19Reg_ElectionVoteCertAsResults(t *testing.T) {
	base, err := certChain()
	if err != nil {
		t.Fatalf("harness: %v", err)
	}
	leader := 0
	qc := &lib.QuorumCertificate{
		Header:      &lib.View{NetworkId: 1, ChainId: certNested, Height: 5, RootHeight: 2, Round: 0, Phase: lib.Phase_ELECTION_VOTE},
		ProposerKey: keys.BLS(leader).PublicKey().Bytes(),
	}
	// what the committee signs in the ELECTION_VOTE phase: "validator 0 leads round 0 of height 5"
	if err = signCert(base, qc, []int{0, 1, 2, 3}); err != nil {
		t.Fatal(err)
	}
	// what the leader alone makes of it
	victim := keys.BLS(3)
	qc.Results = &lib.CertificateResult{
		RewardRecipients: &lib.RewardRecipients{PaymentPercents: []*lib.PaymentPercents{{Address: chainsim.Addr(keys.Ed(77)), Percent: 100, ChainId: certNested}}},
		SlashRecipients:  &lib.SlashRecipients{DoubleSigners: []*lib.DoubleSigner{{Id: victim.PublicKey().Bytes(), Heights: []uint64{1}}}},
	}
	qc.ResultsHash = qc.Results.Hash()
	qc.BlockHash = crypto.Hash([]byte("no such block"))
	f, err := base.Fork()
	if err != nil {
		t.Fatal(err)
	}
	defer f.Close()
	before, _ := f.FSM.GetValidator(crypto.NewAddress(chainsim.Addr(victim)))
	tx, _, err := f.SignTx(keys.BLS(leader), &fsm.MessageCertificateResults{Qc: qc}, 0, f.Height(), "")
	if err != nil {
		t.Fatal(err)
	}
	out, err := f.Block(chainsim.BlockSpec{Txs: [][]byte{tx}})
	if err != nil || out.Err != nil {
		t.Fatalf("harness: %v %v", err, out.Err)
	}
	after, _ := f.FSM.GetValidator(crypto.NewAddress(chainsim.Addr(victim)))
	if len(out.Results.Results) == 1 {
		t.Errorf("the root chain executed certificate results that no quorum signed: an ELECTION_VOTE aggregate (sign bytes = view + proposer key) was accepted as the certificate for results attached by the leader alone; validator 3 was slashed for double signing without evidence (stake %d -> %d)",
			before.StakedAmount, after.StakedAmount)
	}
}
