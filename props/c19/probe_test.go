package c19

import (
	"testing"

	"github.com/canopy-network/canopy/fsm"
	"github.com/canopy-network/canopy/lib"
	"github.com/canopy-network/canopy/lib/crypto"

	"verif/h/chainsim"
	"verif/h/keys"
)

func TestProbePhase(t *testing.T) {
	vals := []chainsim.ValSpec{}
	for i := 0; i < 4; i++ {
		vals = append(vals, chainsim.ValSpec{Key: i, OutputKey: -1, Stake: 1_000_000, Committees: []uint64{1, 2}})
	}
	g := chainsim.BuildGenesis(1, vals, []chainsim.AcctSpec{{0, 0, 1_000_000_000}, {1, 5, 2_000_000}}, nil, nil)
	c, err := chainsim.New(chainsim.Opts{Genesis: g})
	if err != nil {
		t.Fatal(err)
	}
	defer c.Close()
	for i := 0; i < 2; i++ {
		if out, err := c.Block(chainsim.BlockSpec{}); err != nil || out.Err != nil {
			t.Fatal(err, out.Err)
		}
	}
	vs, e := c.FSM.LoadCommittee(2, 2)
	if e != nil {
		t.Fatal(e)
	}
	leader := keys.BLS(0)
	// the aggregate every PROPOSE message carries: +2/3 of the committee signed {Header(ELECTION_VOTE), ProposerKey}
	qc := &lib.QuorumCertificate{
		Header:      &lib.View{NetworkId: 1, ChainId: 2, Height: 5, RootHeight: 2, Round: 0, Phase: lib.Phase_ELECTION_VOTE},
		ProposerKey: leader.PublicKey().Bytes(),
	}
	sb := qc.SignBytes()
	mk := vs.MultiKey.Copy()
	for i, m := range vs.ValidatorSet.ValidatorSet {
		for k := 0; k < 4; k++ {
			if string(keys.BLS(k).PublicKey().Bytes()) == string(m.PublicKey) {
				if err := mk.AddSigner(keys.BLS(k).Sign(sb), i); err != nil {
					t.Fatal(err)
				}
			}
		}
	}
	sig, _ := mk.AggregateSignatures()
	qc.Signature = &lib.AggregateSignature{Signature: sig, Bitmap: mk.Bitmap()}
	// the leader alone now attaches arbitrary results
	thief := chainsim.Addr(keys.Ed(77))
	qc.Results = &lib.CertificateResult{
		RewardRecipients: &lib.RewardRecipients{PaymentPercents: []*lib.PaymentPercents{{Address: thief, Percent: 100, ChainId: 2}}},
		SlashRecipients:  &lib.SlashRecipients{DoubleSigners: []*lib.DoubleSigner{{Id: keys.BLS(3).PublicKey().Bytes(), Heights: []uint64{1}}}},
	}
	qc.ResultsHash = qc.Results.Hash()
	qc.BlockHash = crypto.Hash([]byte("x"))
	tx, _, err := c.SignTx(leader, &fsm.MessageCertificateResults{Qc: qc}, 0, c.Height(), "")
	if err != nil {
		t.Fatal(err)
	}
	before, _ := c.FSM.GetValidator(crypto.NewAddress(chainsim.Addr(keys.BLS(3))))
	out, err := c.Block(chainsim.BlockSpec{Txs: [][]byte{tx}})
	if err != nil || out.Err != nil {
		t.Fatal(err, out.Err)
	}
	for _, f := range out.Results.Failed {
		t.Logf("failed: %v", f.Error)
	}
	t.Logf("included %d", len(out.Results.Results))
	after, _ := c.FSM.GetValidator(crypto.NewAddress(chainsim.Addr(keys.BLS(3))))
	t.Logf("stake of validator 3: %d -> %d", before.StakedAmount, after.StakedAmount)
	cd, _ := c.FSM.GetCommitteeData(2)
	t.Logf("committee data: %v", cd)
}
