package c19

// lengthlies_test.go: C19(c) exhaustive sweep. For every seed encoding of every decoder target, for every length-delimited
// field occurrence at every nesting depth (including messages carried inside bytes fields: block in certificate in gossip
// message in packet in envelope), for every hostile length (0, 1, true length +-1, 2^31 +- 1, 2^32 +- 1, 2^63 +- 1, 2^64 - 1):
// the input with exactly that one lying length prefix is fed to the decoder and the handler that follows. No panic may escape.

import (
	"fmt"
	"os"
	"strconv"
	"testing"

	"github.com/canopy-network/canopy/lib"

	"verif/h/ev"
	"verif/h/wire"
)

type sweepTarget struct {
	name  string
	seeds []namedBytes
	run   func(raw []byte) (stage, panicked string)
}

func sweepTargets(w *world) []sweepTarget {
	var txs []namedBytes
	for _, s := range w.txs {
		txs = append(txs, namedBytes{s.name, s.raw})
	}
	// one consensus message per kind (the longest encoding of that kind: locks, evidence and blocks attached)
	best := map[string]namedBytes{}
	var kinds []string
	for _, sc := range scenarios {
		for _, e := range baseline(sc).sent {
			bz, _ := lib.Marshal(e.msg)
			if cur, ok := best[e.kind]; !ok || len(bz) > len(cur.b) {
				if !ok {
					kinds = append(kinds, e.kind)
				}
				best[e.kind] = namedBytes{fmt.Sprintf("%s/%s#%d", sc.name, e.kind, e.id), bz}
			}
		}
	}
	var bftPick []namedBytes
	for _, k := range kinds {
		bftPick = append(bftPick, best[k])
	}
	return []sweepTarget{
		{"transaction", txs, func(raw []byte) (string, string) { o := w.runTx(raw); return o.stage, o.panicked }},
		{"block", []namedBytes{{"block", w.block}}, func(raw []byte) (string, string) { st, p, _ := w.runBlock(raw); return st, p }},
		{"certificate", []namedBytes{{"certificate", w.qc}}, w.runQC},
		{"consensus", bftPick, runBftFresh},
		{"blockMessage", []namedBytes{{"blockMessage", w.blockMsgSeed()}}, w.runBlockMsg},
		{"txMessage", []namedBytes{{"txMessage", w.txMsgSeed()}}, w.runTxMsg},
		{"envelope", w.envelopeSeeds(), w.runEnvelope},
	}
}

func TestC19cLengthLies(t *testing.T) {
	rec := ev.New(t, "C19")
	w, err := getWorld()
	if err != nil {
		t.Fatalf("harness: %v", err)
	}
	// quick tier: a deterministic 1-in-stride sample (offset from the seed); thorough tier ($VERIF_CHECKS >= 100000): everything
	stride, offset, seen := 1, 0, 0
	if n, _ := strconv.Atoi(os.Getenv("VERIF_CHECKS")); n > 0 && n < 100000 {
		stride = 6000/n + 1
		rs, _ := strconv.Atoi(os.Getenv("VERIF_RSEED"))
		offset = rs % stride
	}
	total := 0
	for _, tg := range sweepTargets(w) {
		for _, s := range tg.seeds {
			nodes := wire.LengthNodes(s.b)
			for k := 0; k < nodes; k++ {
				lies := append([]uint64{}, wire.HostileLengths...)
				for _, lie := range lies {
					seen++
					if (seen+offset)%stride != 0 {
						continue
					}
					raw, where, ok := wire.LieAt(s.b, k, lie)
					if !ok {
						continue
					}
					c := rec.Case()
					c.Class("target=" + tg.name)
					c.Desc("%s/%s %s", tg.name, s.name, where)
					stage, p := tg.run(raw)
					if p != "" {
						in := saveInput(rec, "lengthlie-"+tg.name, raw)
						t.Fatalf("%s seed %q with ONE lying length prefix (%s) panics at stage %s (input %d bytes saved: %s)\n%s", tg.name, s.name, where, stage, len(raw), in, p)
					}
					c.Class("stage=" + tg.name + ":" + stage)
					c.Done(true)
					total++
				}
			}
		}
	}
	for i := 0; i < excludedBlockHash; i++ {
		rec.Exclude(kfBlockHash)
	}
	excludedBlockHash = 0
	rec.Note("inputs", fmt.Sprintf("%d of %d (every length-delimited node x %d hostile lengths; stride %d)", total, seen, len(wire.HostileLengths), stride))
	if got := w.digest(); got != w.baseDig {
		t.Fatalf("the committed state changed during the sweep")
	}
}
