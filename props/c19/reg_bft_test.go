package c19

import (
	"bytes"
	"strings"
	"testing"

	"github.com/canopy-network/canopy/bft"
	"github.com/canopy-network/canopy/lib"
	"google.golang.org/protobuf/proto"
)

func findEnv(t *testing.T, res *runResult, f func(e *env) bool) *env {
	for _, e := range res.sent {
		if f(e) {
			return e
		}
	}
	t.Fatalf("harness: message not found in the baseline run")
	return nil
}

func tracesWith(tr []string, sub string) (out []string) {
	for _, l := range tr {
		if strings.Contains(l, sub) {
			out = append(out, l)
		}
	}
	return
}

// Finding 4.9 (fixed by fce89c5): the leader's signature must cover RcBuildHeight. A PROPOSE whose RcBuildHeight was
// rewritten in transit must be rejected by every replica and nobody may validate the proposal against the rewritten height.
func TestC19Reg_RcBuildHeightSigned(t *testing.T) {
	sc := scenarios[0]
	base := baseline(sc)
	e := findEnv(t, base, func(e *env) bool { return e.kind == "PROPOSE" })
	m := proto.Clone(e.msg).(*bft.Message)
	if m.RcBuildHeight != sc.height {
		t.Fatalf("harness: PROPOSE carries rcBuildHeight %d", m.RcBuildHeight)
	}
	m.RcBuildHeight--
	res := runScenario(sc, e.id, m, nil, orderReplace)
	for to, errText := range res.accepted {
		if errText == "" {
			t.Errorf("replica %d accepted a PROPOSE whose RcBuildHeight was rewritten %d->%d under the leader's original signature", to, sc.height, m.RcBuildHeight)
		}
	}
	if bad := tracesWith(res.trace, "ValidateProposal(rcBuildHeight=2 "); len(bad) != 0 {
		t.Errorf("replicas validated the proposal against the rewritten root height:\n%s", strings.Join(bad, "\n"))
	}
}

// KF-C19-electionvote-unsigned-fields: the per-replica fields of an ELECTION_VOTE (HighQc, RcBuildHeight,
// LastDoubleSignEvidence, Vdf, Qc.Block/Results) are outside the (aggregable) vote signature; a relay can rewrite them,
// the leader accepts the vote and acts on the rewritten content.
func TestC19Reg_ElectionVoteUnsignedFields(t *testing.T) {
	// (1) RcBuildHeight: in round 0 one replica locks on a proposal built at root height 3 (the PRECOMMIT reaches only it); in
	// round 1 its ELECTION_VOTE (carrying the lock as HighQc) is rewritten 3 -> 2 on the way to the new, unlocked leader. The leader copies it into its PROPOSE (now under the
	// leader's own valid signature) and every replica validates the locked block against root height 2.
	sc := scenarios[4]
	if sc.partial == 0 {
		t.Fatal("harness: scenario order changed")
	}
	base := baseline(sc)
	e := findEnv(t, base, func(e *env) bool {
		return e.kind == "ELECTION_VOTE" && e.msg.Qc.Header.Round == 1 && e.msg.HighQc != nil
	})
	m := proto.Clone(e.msg).(*bft.Message)
	if m.RcBuildHeight != sc.height {
		t.Fatalf("harness: vote carries rcBuildHeight %d", m.RcBuildHeight)
	}
	m.RcBuildHeight--
	res := runScenario(sc, e.id, m, nil, orderMutantFirst) // the honest copy arrives right after the rewritten one
	if bad := tracesWith(res.trace, "ValidateProposal(rcBuildHeight=2 "); len(bad) != 0 {
		t.Errorf("a relay rewrote RcBuildHeight 3->2 in replica %d's signed ELECTION_VOTE; the leader accepted it (%q) and all replicas validated the re-proposed locked block against root height 2 (the honest copy arriving afterwards did not help):\n%s",
			e.from, res.accepted[e.to[0]], strings.Join(bad, "\n"))
	}
	// (2) evidence: replica 1 reports authentic double-sign evidence with its vote; the relay corrupts one byte of it. The vote
	// still counts, the evidence is silently dropped and the leader's proposal no longer slashes the double signer.
	sc = scenarios[1]
	base = baseline(sc)
	e = findEnv(t, base, func(e *env) bool { return e.kind == "ELECTION_VOTE" && len(e.msg.LastDoubleSignEvidence) != 0 })
	m = proto.Clone(e.msg).(*bft.Message)
	m.LastDoubleSignEvidence[0].VoteA.Header.NetworkId = 0
	res = runScenario(sc, e.id, m, nil, orderReplace)
	if okBase, okMut := tracesWith(base.trace, "ProduceProposal(evidence=1:"), tracesWith(res.trace, "ProduceProposal(evidence=1:"); len(okBase) == 1 && len(okMut) == 0 && res.accepted[e.to[0]] == "" {
		t.Errorf("a relay corrupted the double-sign evidence inside replica %d's signed ELECTION_VOTE; the leader still counted the vote but built its proposal without the evidence:\n%s",
			e.from, strings.Join(tracesWith(res.trace, "ProduceProposal("), "\n"))
	}
}

// KF-C19-commit-timestamp-unsigned: the COMMIT message's Timestamp is outside the leader's signature; replicas hand the
// rewritten value to the controller together with the certificate (BlockMessage.Time -> RootChainInfo.Timestamp).
func TestC19Reg_CommitTimestampSigned(t *testing.T) {
	sc := scenarios[0]
	base := baseline(sc)
	e := findEnv(t, base, func(e *env) bool { return e.kind == "COMMIT" })
	m := proto.Clone(e.msg).(*bft.Message)
	m.Timestamp += 30_000_000
	res := runScenario(sc, e.id, m, nil, orderReplace)
	a, b := tracesWith(base.trace, "Commit("), tracesWith(res.trace, "Commit(")
	for to, errText := range res.accepted {
		if errText == "" && strings.Join(a, "\n") != strings.Join(b, "\n") {
			t.Errorf("replica %d accepted a COMMIT whose Timestamp was rewritten under the leader's signature and passed it on:\n original: %s\n mutant  : %s", to, a[to], b[to])
		}
	}
}

// flipInHeaderHash flips one bit inside the `hash` field of the block header carried in qc.block: Block.BytesToBlockHash
// (QuorumCertificate.CheckBasic) hashes the header WITHOUT that field, so the certificate's block hash still matches.
func flipInHeaderHash(t *testing.T, m *bft.Message) {
	blk := new(lib.Block)
	if e := lib.Unmarshal(m.Qc.Block, blk); e != nil {
		t.Fatal(e)
	}
	i := bytes.Index(m.Qc.Block, blk.BlockHeader.Hash)
	if i < 0 {
		t.Fatal("harness: header hash not found in the block bytes")
	}
	m.Qc.Block = append([]byte(nil), m.Qc.Block...)
	m.Qc.Block[i+5] ^= 0x10
}

// Decision for "is qc.block of a leader message hash-bound": in MEANING yes, end to end (TestC19aBlockBinding), but only by
// the validation that follows HandleMessage. What this test pins: a relayed copy of an honest PROPOSE with a byte changed in
// a region CheckBasic does not bind keeps the leader's valid signature, passes HandleMessage and must not REPLACE the honest
// proposal a replica already holds (bft.AddProposal overwrites: the replica would then fail validation, interrupt the round
// and an honest leader's round is lost although every replica received the honest message).
func TestC19Reg_RelayedProposalDoesNotReplaceHonestOne(t *testing.T) {
	sc := scenarios[0]
	base := baseline(sc)
	e := findEnv(t, base, func(e *env) bool { return e.kind == "PROPOSE" })
	m := proto.Clone(e.msg).(*bft.Message)
	flipInHeaderHash(t, m)
	res := runScenario(sc, e.id, m, nil, orderHonestFirst)
	acc := 0
	for _, errText := range res.accepted {
		if errText == "" {
			acc++
		}
	}
	if diff := firstDiff(external(base.trace), external(res.trace)); diff != "" {
		t.Errorf("every replica received the honest PROPOSE and THEN a relayed copy with one bit flipped in the block's header-hash field (leader's signature still valid, accepted by %d of 4 replicas): the copy replaced the stored proposal and the round went differently (%d of 4 replicas commit):%s\n%s",
			acc, res.commits, diff, strings.Join(tracesWith(res.trace, "ValidateProposal"), "\n"))
	}
}
