package c19

// fuzz_test.go: native fuzz targets (thorough tier: `go test -fuzz`), one per decoder a peer can reach. Each target runs
// the decoder and the handler that follows it in production (see decode_test.go) with the oracle "no panic escapes".
// Seeds: the committed corpus under $VERIF_ROOT/corpus/c19/<target>/ (valid, really signed encodings of every message kind
// plus hostile constants: lying length prefixes 0, 1, 2^31+-1, 2^32+-1, 2^63+-1, 2^64-1; 19/20/21/255/256/300-byte segments;
// 0xFF runs; empty input) and the same seeds regenerated from the fixture (f.Add).

import (
	"encoding/json"
	"fmt"
	"os"
	"path/filepath"
	"strings"
	"sync"
	"testing"

	"github.com/canopy-network/canopy/lib"

	"verif/h/ev"
	"verif/h/wire"
)

var (
	kfOnce sync.Once
	kfOpen map[string]bool
)

// openFinding reports whether a known finding is open: from the driver's environment, or (native fuzzing is started without
// it) from known_findings.json itself.
func openFinding(id string) bool {
	if ev.Open(id) {
		return true
	}
	if os.Getenv("VERIF_OPEN_FINDINGS") != "" {
		return false
	}
	kfOnce.Do(func() {
		kfOpen = map[string]bool{}
		root := os.Getenv("VERIF_ROOT")
		if root == "" {
			root = "/verif"
		}
		bz, err := os.ReadFile(filepath.Join(root, "known_findings.json"))
		if err != nil {
			return
		}
		var f struct {
			Findings []struct {
				ID     string `json:"id"`
				Status string `json:"status"`
			} `json:"findings"`
		}
		if json.Unmarshal(bz, &f) == nil {
			for _, x := range f.Findings {
				kfOpen[x.ID] = x.Status == "open"
			}
		}
	})
	return kfOpen[id]
}

type fuzzTarget struct {
	name  string
	seeds func(w *world) []namedBytes
	run   func(w *world, raw []byte) (stage, panicked string)
}

func fuzzTargets() []fuzzTarget {
	return []fuzzTarget{
		{"FuzzC19Tx", func(w *world) (out []namedBytes) {
			for _, s := range w.txs {
				out = append(out, namedBytes{s.name, s.raw})
			}
			return
		}, func(w *world, raw []byte) (string, string) { o := w.runTx(raw); return o.stage, o.panicked }},
		{"FuzzC19Block", func(w *world) []namedBytes { return []namedBytes{{"block", w.block}} },
			func(w *world, raw []byte) (string, string) { st, p, _ := w.runBlockOpt(raw, false); return st, p }},
		{"FuzzC19QC", func(w *world) []namedBytes { return []namedBytes{{"certificate", w.qc}} },
			func(w *world, raw []byte) (string, string) { return w.runQC(raw) }},
		{"FuzzC19Bft", func(w *world) []namedBytes { return bftKindSeeds() }, func(w *world, raw []byte) (string, string) { return runBftFresh(raw) }},
		{"FuzzC19BlockMessage", func(w *world) []namedBytes { return []namedBytes{{"blockMessage", w.blockMsgSeed()}} }, func(w *world, raw []byte) (string, string) { return w.runBlockMsg(raw) }},
		{"FuzzC19TxMessage", func(w *world) []namedBytes { return []namedBytes{{"txMessage", w.txMsgSeed()}} }, func(w *world, raw []byte) (string, string) { return w.runTxMsg(raw) }},
		{"FuzzC19Envelope", func(w *world) []namedBytes { return w.envelopeSeeds() }, func(w *world, raw []byte) (string, string) { return w.runEnvelope(raw) }},
	}
}

// bftKindSeeds: per message kind the longest encoding among all scenario runs.
func bftKindSeeds() (out []namedBytes) {
	best := map[string]namedBytes{}
	var kinds []string
	for _, sc := range scenarios {
		for _, e := range baseline(sc).sent {
			bz, _ := lib.Marshal(e.msg)
			if cur, ok := best[e.kind]; !ok || len(bz) > len(cur.b) {
				if !ok {
					kinds = append(kinds, e.kind)
				}
				best[e.kind] = namedBytes{e.kind, bz}
			}
		}
	}
	for _, k := range kinds {
		out = append(out, best[k])
	}
	return
}

// hostileVariants derives the hostile-constant seeds of one valid seed: every hostile length on the first, a middle and the
// last length-delimited node, plus hostile tails.
func hostileVariants(s namedBytes) (out []namedBytes) {
	n := wire.LengthNodes(s.b)
	pick := map[int]bool{0: true, n / 2: true, n - 1: true}
	for k := range pick {
		if k < 0 || k >= n {
			continue
		}
		for _, lie := range wire.HostileLengths {
			if raw, where, ok := wire.LieAt(s.b, k, lie); ok {
				out = append(out, namedBytes{fmt.Sprintf("%s-lie-%s", s.name, strings.NewReplacer("#", "f", ":", "-", " ", "", ">", "").Replace(where)), raw})
			}
		}
	}
	for _, l := range []int{19, 20, 21, 255, 256, 300} {
		out = append(out, namedBytes{fmt.Sprintf("%s-tail-ff%d", s.name, l), append(append([]byte{}, s.b...), wire.Bytes(l, 0xFF)...)})
	}
	return
}

func safeName(s string) string {
	return strings.NewReplacer("/", "_", "(", "_", ")", "", " ", "_", "#", "_").Replace(s)
}

// TestC19WriteCorpus (re)generates the committed corpus. Run by hand: VERIF_WRITE_CORPUS=1 go test -run TestC19WriteCorpus
func TestC19WriteCorpus(t *testing.T) {
	if os.Getenv("VERIF_WRITE_CORPUS") == "" {
		t.Skip("set VERIF_WRITE_CORPUS=1 to regenerate the committed corpus")
	}
	w, err := getWorld()
	if err != nil {
		t.Fatal(err)
	}
	for _, tg := range fuzzTargets() {
		dir := corpusDir(tg.name)
		_ = os.RemoveAll(dir)
		if err := os.MkdirAll(dir, 0o755); err != nil {
			t.Fatal(err)
		}
		i := 0
		write := func(n string, b []byte) {
			if len(n) > 90 {
				n = n[:90]
			}
			if err := os.WriteFile(filepath.Join(dir, fmt.Sprintf("%03d-%s.bin", i, safeName(n))), b, 0o644); err != nil {
				t.Fatal(err)
			}
			i++
		}
		write("empty", []byte{})
		write("ff-run", wire.Bytes(64, 0xFF))
		for _, s := range tg.seeds(w) {
			write(s.name, s.b)
		}
		for _, s := range tg.seeds(w) {
			hv := hostileVariants(s)
			if len(hv) > 12 {
				// keep the corpus small: the hostile variants of the first seeds, a few of the others
				if i > 150 {
					hv = hv[:4]
				}
			}
			for _, v := range hv {
				write(v.name, v.b)
			}
		}
		t.Logf("%s: %d files", tg.name, i)
	}
}

func runFuzz(f *testing.F, name string) {
	w, err := getWorld()
	if err != nil {
		f.Fatalf("harness: %v", err)
	}
	var tg fuzzTarget
	for _, x := range fuzzTargets() {
		if x.name == name {
			tg = x
		}
	}
	for _, s := range loadCorpus(name) {
		f.Add(s.b)
	}
	for _, s := range tg.seeds(w) {
		f.Add(s.b)
	}
	f.Fuzz(func(t *testing.T, raw []byte) {
		if len(raw) > 1<<16 {
			return // bounded size: the handlers are linear in the input, this keeps executions comparable
		}
		stage, p := tg.run(w, raw)
		if p != "" {
			t.Fatalf("%s: input of %d bytes panics at stage %s\n%s", name, len(raw), stage, p)
		}
	})
}

func FuzzC19Tx(f *testing.F)           { runFuzz(f, "FuzzC19Tx") }
func FuzzC19Block(f *testing.F)        { runFuzz(f, "FuzzC19Block") }
func FuzzC19QC(f *testing.F)           { runFuzz(f, "FuzzC19QC") }
func FuzzC19Bft(f *testing.F)          { runFuzz(f, "FuzzC19Bft") }
func FuzzC19BlockMessage(f *testing.F) { runFuzz(f, "FuzzC19BlockMessage") }
func FuzzC19TxMessage(f *testing.F)    { runFuzz(f, "FuzzC19TxMessage") }
func FuzzC19Envelope(f *testing.F)     { runFuzz(f, "FuzzC19Envelope") }

// TestC19cCorpus replays the committed corpus of every target through the ordinary test entry (quick tier).
func TestC19cCorpus(t *testing.T) {
	rec := ev.New(t, "C19")
	w, err := getWorld()
	if err != nil {
		t.Fatalf("harness: %v", err)
	}
	for _, tg := range fuzzTargets() {
		seeds := loadCorpus(tg.name)
		if len(seeds) == 0 {
			t.Fatalf("no committed corpus for %s under %s", tg.name, corpusDir(tg.name))
		}
		for _, s := range seeds {
			c := rec.Case()
			c.Class("target=" + tg.name)
			c.Desc("%s/%s", tg.name, s.name)
			stage, p := tg.run(w, s.b)
			if p != "" {
				t.Fatalf("%s: committed corpus input %s panics at stage %s\n%s", tg.name, s.name, stage, p)
			}
			c.Class("stage=" + stage)
			c.Done(stage != "unmarshal")
		}
		rec.Note("corpus:"+tg.name, fmt.Sprintf("%d inputs", len(seeds)))
	}
	for i := 0; i < excludedBlockHash; i++ {
		rec.Exclude(kfBlockHash)
	}
	excludedBlockHash = 0
	if got := w.digest(); got != w.baseDig {
		t.Fatalf("the committed state changed while replaying the corpus")
	}
}
