package c19

// bftrig_test.go: N real bft.BFT replicas with recording mock controllers, driven synchronously and deterministically.
// The rig exists for the RECEIVER DIFFERENTIAL of C19(a): the same scripted run is executed twice, once untouched and once
// with exactly one message replaced by a mutant that still carries the original sender's signature; everything the
// replicas do afterwards (messages they send, what they ask the controller to validate / produce / commit, their locks
// and evidence) is recorded as a trace and compared.

import (
	"bytes"
	"fmt"
	"sort"
	"strings"
	"sync"
	"sync/atomic"
	"time"

	"github.com/canopy-network/canopy/bft"
	"github.com/canopy-network/canopy/lib"
	"github.com/canopy-network/canopy/lib/crypto"
	"google.golang.org/protobuf/proto"

	"verif/h/keys"
)

const (
	rigNet   = 1
	rigChain = 1
	rigTime  = 1_700_000_000_000_000 // deterministic "clock" for the COMMIT timestamp
)

// env is one message in flight.
type env struct {
	id   int
	from int
	to   []int // receivers
	msg  *bft.Message
	kind string // ELECTION, ELECTION_VOTE, PROPOSE, ... , PACEMAKER
	step int    // script step at which it was sent
}

type rigOpts struct {
	n        int
	height   uint64
	rootH    uint64
	evidence map[int][]*bft.DoubleSignEvidence // replica -> evidence it holds at the start (as if collected earlier)
}

type rig struct {
	o     rigOpts
	keys  []crypto.PrivateKeyI
	vs    lib.ValidatorSet
	R     []*replica
	queue []*env
	sent  []*env // everything ever sent, by id
	step  int
	// hook: called for every delivery; may return a replacement message (nil = deliver the original), drop=true drops it
	hook func(e *env, to int) (replace *bft.Message, drop bool)
	// result of delivering a replaced message: receiver -> error text ("" = accepted)
	replaced map[int]string
	// order in which a receiver sees the relay's version and the honest copy (gossip: both can reach it)
	order int
}

type replica struct {
	i   int
	r   *rig
	b   *bft.BFT
	mu  sync.Mutex
	obs []string // trace of observable actions
	syn *atomic.Bool
	omu sync.Mutex
	// commit bookkeeping
	gossiped  atomic.Int32
	done      bool
	lastState string
}

func (p *replica) note(f string, a ...any) {
	p.omu.Lock()
	p.obs = append(p.obs, fmt.Sprintf(f, a...))
	p.omu.Unlock()
}

func hx(b []byte) string {
	if len(b) == 0 {
		return "-"
	}
	h := crypto.Hash(b)
	return fmt.Sprintf("%x", h[:4])
}

func pm(m proto.Message) string {
	if m == nil || !m.ProtoReflect().IsValid() {
		return "-"
	}
	bz, _ := lib.Marshal(m)
	return hx(bz)
}

func kindOfMsg(m *bft.Message) string {
	switch {
	case m.IsProposerMessage():
		return lib.Phase_name[int32(m.Header.Phase)]
	case m.IsPacemakerMessage():
		return "PACEMAKER"
	case m.IsReplicaMessage():
		return lib.Phase_name[int32(m.Qc.Header.Phase)]
	}
	return "UNKNOWN"
}

// describe renders every field of a message a receiver could act on (signature bytes excluded: BLS signing is deterministic
// and the signature is a function of the rest).
func describeMsg(m *bft.Message) string {
	var b strings.Builder
	fmt.Fprintf(&b, "%s hdr=%s", kindOfMsg(m), pm(m.Header))
	if m.Qc != nil {
		fmt.Fprintf(&b, " qc{hdr=%s bh=%s rh=%s pk=%s blk=%s res=%s sig=%s}", pm(m.Qc.Header), hx(m.Qc.BlockHash), hx(m.Qc.ResultsHash), hx(m.Qc.ProposerKey), hx(m.Qc.Block), pm(m.Qc.Results), pm(m.Qc.Signature))
	}
	fmt.Fprintf(&b, " high=%s dse=%d:%s vdf=%s ts=%d rc=%d vrf=%s", pm(m.HighQc), len(m.LastDoubleSignEvidence), dseDigest(m.LastDoubleSignEvidence), pm(m.Vdf), m.Timestamp, m.RcBuildHeight, pm(m.Vrf))
	return b.String()
}

func dseDigest(ev []*bft.DoubleSignEvidence) string {
	var parts []string
	for _, e := range ev {
		parts = append(parts, pm(e))
	}
	return strings.Join(parts, ",")
}

// --- bft.Controller ---------------------------------------------------------------------------------------------------

func (p *replica) Lock()                   { p.mu.Lock() }
func (p *replica) Unlock()                 { p.mu.Unlock() }
func (p *replica) ChainHeight() uint64     { return p.r.o.height }
func (p *replica) RootChainHeight() uint64 { return p.r.o.rootH }

func (p *replica) ProduceProposal(be *bft.ByzantineEvidence, vdf *crypto.VDF) (uint64, []byte, *lib.CertificateResult, lib.ErrorI) {
	var ev []*bft.DoubleSignEvidence
	if be != nil {
		ev = be.DSE.Evidence
	}
	p.note("ProduceProposal(evidence=%d:%s vdf=%s)", len(ev), dseDigest(ev), pm(vdf))
	addr := p.r.keys[p.i].PublicKey().Address().Bytes()
	hdr := &lib.BlockHeader{Height: p.r.o.height, NetworkId: rigNet, Time: rigTime, ProposerAddress: addr,
		LastBlockHash: crypto.Hash([]byte("last")), StateRoot: crypto.Hash([]byte("state")), TransactionRoot: crypto.Hash([]byte("txs")),
		ValidatorRoot: crypto.Hash([]byte("vals")), NextValidatorRoot: crypto.Hash([]byte("vals")), TotalVdfIterations: uint64(p.i),
		LastQuorumCertificate: &lib.QuorumCertificate{Header: &lib.View{NetworkId: rigNet, ChainId: rigChain, Height: p.r.o.height - 1, RootHeight: p.r.o.rootH - 1, Phase: lib.Phase_PRECOMMIT_VOTE},
			BlockHash: crypto.Hash([]byte("last")), ResultsHash: crypto.Hash([]byte("last-results")), ProposerKey: p.r.keys[0].PublicKey().Bytes(),
			Signature: &lib.AggregateSignature{Signature: bytes.Repeat([]byte{1}, 96), Bitmap: []byte{0x0f}}}}
	if _, err := hdr.SetHash(); err != nil {
		return 0, nil, nil, err
	}
	blk, err := lib.Marshal(&lib.Block{BlockHeader: hdr})
	if err != nil {
		return 0, nil, nil, err
	}
	res := &lib.CertificateResult{
		RewardRecipients: &lib.RewardRecipients{PaymentPercents: []*lib.PaymentPercents{{Address: addr, Percent: 100, ChainId: rigChain}}},
		SlashRecipients:  &lib.SlashRecipients{},
	}
	if len(ev) != 0 {
		ds, e := p.b.ProcessDSE(ev...)
		if e == nil {
			res.SlashRecipients.DoubleSigners = ds
		}
	}
	return p.r.o.rootH, blk, res, nil
}

func (p *replica) ValidateProposal(rcBuildHeight uint64, qc *lib.QuorumCertificate, evidence *bft.ByzantineEvidence) (*lib.BlockResult, lib.ErrorI) {
	var ev []*bft.DoubleSignEvidence
	if evidence != nil {
		ev = evidence.DSE.Evidence
	}
	p.note("ValidateProposal(rcBuildHeight=%d block=%s results=%s evidence=%d:%s)", rcBuildHeight, hx(qc.Block), pm(qc.Results), len(ev), dseDigest(ev))
	// the stateless first step of controller.ValidateProposal, verbatim: decode (unknown fields rejected), Block.Check (the header
	// hash field must be the hash of the header), height, certificate block hash == header hash, results present
	blk, err := qc.CheckProposalBasic(p.r.o.height, rigNet, rigChain)
	if err != nil {
		p.note("ValidateProposal rejected: %s", strings.ReplaceAll(err.Error(), "\n", " "))
		return nil, err
	}
	if err := p.b.ValidateByzantineEvidence(qc.Results.SlashRecipients, evidence); err != nil {
		p.note("ValidateProposal rejected: %s", strings.ReplaceAll(err.Error(), "\n", " "))
		return nil, err
	}
	return &lib.BlockResult{BlockHeader: blk.BlockHeader}, nil
}

func (p *replica) LoadCertificate(uint64) (*lib.QuorumCertificate, lib.ErrorI) { return nil, nil }
func (p *replica) CommitCertificate(*lib.QuorumCertificate, *lib.Block, *lib.BlockResult, uint64) lib.ErrorI {
	return nil
}
func (p *replica) GossipBlock(qc *lib.QuorumCertificate, _ []byte, ts uint64) { p.gossiped.Add(1) }
func (p *replica) GossipConsensus(*bft.Message, []byte)                       {}
func (p *replica) SelfSendBlock(qc *lib.QuorumCertificate, ts uint64) {
	p.note("Commit(view=%s blockHash=%s resultsHash=%s proposer=%s sig=%s timestamp=%d)", pm(qc.Header), hx(qc.BlockHash), hx(qc.ResultsHash), hx(qc.ProposerKey), pm(qc.Signature), ts)
}

func (p *replica) send(msg lib.Signable, to []int) {
	m := msg.(*bft.Message)
	if m.Timestamp != 0 {
		m.Timestamp = rigTime + 1 // the only wall-clock input of a consensus message: pinned (not covered by the signature anyway)
	}
	if err := m.Sign(p.r.keys[p.i]); err != nil {
		p.note("sign failed: %v", err)
		return
	}
	bz, _ := lib.Marshal(m)
	cp := new(bft.Message)
	if err := lib.Unmarshal(bz, cp); err != nil {
		p.note("clone failed: %v", err)
		return
	}
	e := &env{id: len(p.r.sent), from: p.i, to: to, msg: cp, kind: kindOfMsg(cp), step: p.r.step}
	p.r.sent = append(p.r.sent, e)
	p.r.queue = append(p.r.queue, e)
	p.note("Send(to=%v %s)", to, describeMsg(cp))
}

func (p *replica) SendToReplicas(_ lib.ValidatorSet, msg lib.Signable) {
	to := make([]int, p.r.o.n)
	for i := range to {
		to[i] = i
	}
	p.send(msg, to)
}

func (p *replica) SendToProposer(msg lib.Signable) {
	for i, k := range p.r.keys {
		if bytes.Equal(k.PublicKey().Bytes(), p.b.ProposerKey) {
			p.send(msg, []int{i})
			return
		}
	}
	p.note("SendToProposer: unknown proposer %s", hx(p.b.ProposerKey))
}

func (p *replica) LoadRootChainId(uint64) uint64                   { return rigChain }
func (p *replica) LoadIsOwnRoot() bool                             { return true }
func (p *replica) Syncing() *atomic.Bool                           { return p.syn }
func (p *replica) ResetFSM()                                       {}
func (p *replica) SendCertificateResultsTx(*lib.QuorumCertificate) {}
func (p *replica) LoadCommittee(_, _ uint64) (lib.ValidatorSet, lib.ErrorI) {
	return p.r.vs, nil
}
func (p *replica) LoadCommitteeData() (*lib.CommitteeData, lib.ErrorI) {
	return &lib.CommitteeData{ChainId: rigChain, LastRootHeightUpdated: p.r.o.rootH - 1, LastChainHeightUpdated: p.r.o.height - 1}, nil
}
func (p *replica) LoadLastProposers(uint64) (*lib.Proposers, lib.ErrorI) {
	return &lib.Proposers{Addresses: [][]byte{crypto.Hash([]byte("p1"))[:20], crypto.Hash([]byte("p2"))[:20]}}, nil
}
func (p *replica) LoadMinimumEvidenceHeight(_, _ uint64) (*uint64, lib.ErrorI) {
	z := uint64(0)
	return &z, nil
}
func (p *replica) IsValidDoubleSigner(_, _ uint64, _ []byte) bool { return true }
func (p *replica) LoadMaxBlockSize() int                          { return 1 << 20 }

// --- rig ------------------------------------------------------------------------------------------------------------

var (
	rigVSMu    sync.Mutex
	rigVSCache = map[int]struct {
		ks []crypto.PrivateKeyI
		vs lib.ValidatorSet
	}{}
)

// rigValidatorSet returns (cached) the deterministic committee of n equal validators.
func rigValidatorSet(n int) ([]crypto.PrivateKeyI, lib.ValidatorSet) {
	rigVSMu.Lock()
	defer rigVSMu.Unlock()
	if c, ok := rigVSCache[n]; ok {
		return c.ks, c.vs
	}
	ks, vs := buildRigValidatorSet(n)
	rigVSCache[n] = struct {
		ks []crypto.PrivateKeyI
		vs lib.ValidatorSet
	}{ks, vs}
	return ks, vs
}

func buildRigValidatorSet(n int) ([]crypto.PrivateKeyI, lib.ValidatorSet) {
	ks := make([]crypto.PrivateKeyI, n)
	cv := &lib.ConsensusValidators{}
	for i := 0; i < n; i++ {
		ks[i] = keys.BLS(i)
		cv.ValidatorSet = append(cv.ValidatorSet, &lib.ConsensusValidator{PublicKey: ks[i].PublicKey().Bytes(), VotingPower: 1_000_000, NetAddress: fmt.Sprintf("tcp://v%d", i)})
	}
	vs, err := lib.NewValidatorSet(cv)
	if err != nil {
		panic(err)
	}
	return ks, vs
}

func newRig(o rigOpts) *rig {
	r := &rig{o: o, replaced: map[int]string{}}
	r.keys, r.vs = rigValidatorSet(o.n)
	cfg := lib.DefaultConfig()
	cfg.ChainId, cfg.NetworkID = rigChain, rigNet
	cfg.CommitTimeoutMS = 1
	cfg.RunVDF = false
	for i := 0; i < o.n; i++ {
		p := &replica{i: i, r: r, syn: &atomic.Bool{}}
		b, err := bft.New(cfg, r.keys[i], o.rootH, o.height, p, false, nil, lib.NewNullLogger())
		if err != nil {
			panic(err)
		}
		p.b = b
		b.ValidatorSet = r.vs
		b.CommitteeData, _ = p.LoadCommitteeData()
		b.NewHeight(false)
		if ev := o.evidence[i]; len(ev) != 0 {
			b.ByzantineEvidence = &bft.ByzantineEvidence{DSE: bft.NewDSE(cloneDSE(ev))}
		}
		r.R = append(r.R, p)
	}
	return r
}

func cloneDSE(ev []*bft.DoubleSignEvidence) []*bft.DoubleSignEvidence {
	out := make([]*bft.DoubleSignEvidence, len(ev))
	for i, e := range ev {
		out[i] = proto.Clone(e).(*bft.DoubleSignEvidence)
	}
	return out
}

func cloneMsg(m *bft.Message) *bft.Message {
	bz, err := lib.Marshal(m)
	if err != nil {
		panic(err)
	}
	out := new(bft.Message)
	if e := lib.Unmarshal(bz, out); e != nil {
		panic(e)
	}
	return out
}

// stepAll fires every replica's phase timer once (index order), then delivers everything that was sent.
func (r *rig) stepAll() {
	r.step++
	barrier := r.someoneStillInRound() // evaluated once per step: everybody leaves the barrier together
	for _, p := range r.R {
		if p.done {
			continue
		}
		if p.b.Phase == bft.Pacemaker && barrier {
			// a replica that interrupted its round waits (msLeftInRound) until the round is over for everybody
			continue
		}
		pre, g0 := p.b.Phase, p.gossiped.Load()
		p.Lock()
		p.b.HandlePhase()
		p.Unlock()
		if pre == bft.CommitProcess && p.b.Phase == bft.CommitProcess {
			// StartCommitProcessPhase handed the certificate to the controller in a goroutine (SelfSendBlock, then GossipBlock
			// after CommitTimeoutMS = 1 ms): wait for it so that the trace is complete and ordered
			for w := 0; p.gossiped.Load() == g0 && w < 2000; w++ {
				time.Sleep(time.Millisecond)
			}
			p.done = true
		}
		p.noteState()
	}
	r.deliverAll()
}

const (
	orderReplace     = 0 // the receiver sees the relay's version only
	orderMutantFirst = 1 // relay's version, then the honest copy
	orderHonestFirst = 2 // honest copy, then the relay's version
)

// someoneStillInRound reports whether a replica that has not committed is still working through the phases of the round.
func (r *rig) someoneStillInRound() bool {
	for _, q := range r.R {
		if !q.done && q.b.Phase != bft.Pacemaker {
			return true
		}
	}
	return false
}

func (r *rig) deliverAll() {
	for len(r.queue) > 0 {
		e := r.queue[0]
		r.queue = r.queue[1:]
		for _, to := range e.to {
			deliverOriginal := true
			if r.hook != nil {
				rep, drop := r.hook(e, to)
				if drop {
					continue
				}
				if rep != nil {
					if r.order == orderHonestFirst {
						// the honest copy was already delivered when the relay's version arrives
						if err := r.R[to].b.HandleMessage(cloneMsg(e.msg)); err != nil {
							r.R[to].note("Reject(%s from %d: %s)", e.kind, e.from, err.Error())
						}
					}
					// handlers mutate messages, so they get a wire clone
					var cp *bft.Message
					if bz, err := lib.Marshal(rep); err == nil {
						cp = new(bft.Message)
						if e := lib.Unmarshal(bz, cp); e != nil {
							r.replaced[to] = "unmarshal: " + e.Error()
							cp = nil
						}
					}
					if cp != nil {
						if err := r.R[to].b.HandleMessage(cp); err != nil {
							r.replaced[to] = err.Error()
						} else {
							r.replaced[to] = ""
						}
					}
					deliverOriginal = r.order == orderMutantFirst
				}
			}
			if deliverOriginal {
				if err := r.R[to].b.HandleMessage(cloneMsg(e.msg)); err != nil {
					r.R[to].note("Reject(%s from %d: %s)", e.kind, e.from, err.Error())
				}
			}
			r.R[to].noteState()
		}
	}
}

// noteState appends the replica's state digest to its trace when it changed.
func (p *replica) noteState() {
	s := p.r.stateOf(p)
	if s != p.lastState {
		p.lastState = s
		p.note("State(%s)", s)
	}
}

// stateOf digests the decision-relevant state of a replica.
func (r *rig) stateOf(p *replica) string {
	b := p.b
	var ev []*bft.DoubleSignEvidence
	if b.ByzantineEvidence != nil {
		ev = b.ByzantineEvidence.DSE.Evidence
	}
	var pace []string
	for k, m := range b.PacemakerMessages {
		pace = append(pace, fmt.Sprintf("%s:%d", k[:6], m.Qc.Header.Round))
	}
	sort.Strings(pace)
	var partial []string
	for k := range b.PartialQCs {
		partial = append(partial, hx([]byte(k)))
	}
	sort.Strings(partial)
	var vdfs []string
	for _, m := range b.VDFCache {
		vdfs = append(vdfs, pm(m.Vdf))
	}
	return fmt.Sprintf("phase=%s round=%d lock=%s rcBuild=%d block=%s results=%s evidence=%d:%s pacemaker=%v partialQCs=%v vdfCache=%v",
		lib.Phase_name[int32(b.Phase)], b.Round, pm(b.HighQC), b.RCBuildHeight, hx(b.Block), pm(b.Results), len(ev), dseDigest(ev), pace, partial, vdfs)
}

// trace returns the complete observable history of all replicas.
func (r *rig) trace() []string {
	var out []string
	for _, p := range r.R {
		for _, o := range p.obs {
			out = append(out, fmt.Sprintf("r%d %s", p.i, o))
		}
	}
	return out
}

// committed reports how many replicas handed a certificate to the controller.
func (r *rig) committed() (n int) {
	for _, p := range r.R {
		for _, o := range p.obs {
			if strings.HasPrefix(o, "Commit(") {
				n++
				break
			}
		}
	}
	return
}

// makeDSE builds authentic double-sign evidence for the rig's committee: two certificates of the same view
// (height, round 0, PRECOMMIT_VOTE) for different block hashes; `both` signed both.
func makeDSE(ks []crypto.PrivateKeyI, vs lib.ValidatorSet, height, rootH uint64, a, b []int, tag string) *bft.DoubleSignEvidence {
	mk := func(blockTag string, signers []int) *lib.QuorumCertificate {
		qc := &lib.QuorumCertificate{
			Header:      &lib.View{NetworkId: rigNet, ChainId: rigChain, Height: height, RootHeight: rootH, Round: 0, Phase: lib.Phase_PRECOMMIT_VOTE},
			BlockHash:   crypto.Hash([]byte("block-" + blockTag)),
			ResultsHash: crypto.Hash([]byte("results-" + blockTag)),
			ProposerKey: ks[0].PublicKey().Bytes(),
		}
		key := vs.MultiKey.Copy()
		sb := qc.SignBytes()
		for _, i := range signers {
			if err := key.AddSigner(ks[i].Sign(sb), i); err != nil {
				panic(err)
			}
		}
		sig, err := key.AggregateSignatures()
		if err != nil {
			panic(err)
		}
		qc.Signature = &lib.AggregateSignature{Signature: sig, Bitmap: key.Bitmap()}
		return qc
	}
	return &bft.DoubleSignEvidence{VoteA: mk(tag+"A", a), VoteB: mk(tag+"B", b)}
}
