package c19

// decode_test.go: C19(c) - untrusted bytes never crash a node.
//
// Every decoder a peer can reach (lib.Unmarshal into Transaction / Block / QuorumCertificate / bft.Message / BlockMessage /
// TxMessage / p2p.Envelope) is followed by the handler that follows it in production. Inputs are valid, really signed
// encodings mutated in a structured way (one field of the decoded object set to a hostile value, optionally RE-SIGNED with
// the sender's key - a Byzantine sender signs whatever it likes -, unknown fields injected at a drawn nesting depth, raw
// byte edits). Oracle inside every target: no panic escapes, proposer-mode ApplyBlock never answers ErrPanic (code 49) for
// the whole block, unknown fields are rejected by the three message types that claim it (Block, Transaction,
// QuorumCertificate), and a rejected input leaves the state untouched.

import (
	"bytes"
	"context"
	"fmt"
	"math"
	"os"
	"path/filepath"
	"runtime/debug"
	"strings"
	"testing"

	"github.com/canopy-network/canopy/bft"
	"github.com/canopy-network/canopy/fsm"
	"github.com/canopy-network/canopy/lib"
	"github.com/canopy-network/canopy/lib/crypto"
	"github.com/canopy-network/canopy/p2p"
	"google.golang.org/protobuf/encoding/protowire"
	"google.golang.org/protobuf/proto"
	"pgregory.net/rapid"

	"verif/h/chainsim"
	"verif/h/ev"
	"verif/h/wire"
)

const (
	kfCertOrderID = "KF-C19-certresults-orderid-256"
	kfBlockHash   = "KF-C19-blockhash-length-overflow"
)

// excludedBlockHash counts inputs skipped because of the open finding kfBlockHash (tests move it into their recorder).
var excludedBlockHash int

// hitsBlockHashOverflow replays the walk of codec.GetRawProtoField(block, 1) and reports whether it would reach a length
// prefix of field 1 that does not fit an int (the input class of kfBlockHash).
func hitsBlockHashOverflow(block []byte) bool {
	off := 0
	for off < len(block) {
		num, typ, n := protowire.ConsumeTag(block[off:])
		if n < 0 {
			return false
		}
		off += n
		if num == 1 {
			if typ != protowire.BytesType {
				return false
			}
			l, m := protowire.ConsumeVarint(block[off:])
			return m > 0 && l > uint64(math.MaxInt64-off-m)
		}
		m := protowire.ConsumeFieldValue(num, typ, block[off:])
		if m < 0 {
			return false
		}
		off += m
	}
	return false
}

// skipBlockHash reports (and counts) that an input belongs to the excluded class while the finding is open.
func skipBlockHash(blocks ...[]byte) bool {
	if !openFinding(kfBlockHash) {
		return false
	}
	for _, b := range blocks {
		if hitsBlockHashOverflow(b) {
			excludedBlockHash++
			return true
		}
	}
	return false
}

func qcBlocks(qcs ...*lib.QuorumCertificate) (out [][]byte) {
	for _, q := range qcs {
		if q != nil {
			out = append(out, q.Block)
		}
	}
	return
}

func msgBlocks(m *bft.Message) [][]byte {
	qcs := []*lib.QuorumCertificate{m.Qc, m.HighQc}
	for _, e := range m.LastDoubleSignEvidence {
		if e != nil {
			qcs = append(qcs, e.VoteA, e.VoteB)
		}
	}
	return qcBlocks(qcs...)
}

// guard runs f and converts an escaping panic into text.
func guard(f func()) (panicText string) {
	defer func() {
		if r := recover(); r != nil {
			st := string(debug.Stack())
			if i := strings.Index(st, "panic("); i > 0 {
				st = st[i:]
			}
			if len(st) > 1800 {
				st = st[:1800]
			}
			panicText = fmt.Sprintf("%v\n%s", r, st)
		}
	}()
	f()
	return ""
}

type txOutcome struct {
	stage    string // unmarshal | checkbasic | rejected | applied
	err      string
	panicked string // a panic escaped the state machine (ApplyBlock would turn it into ErrPanic)
}

// runTx is what a node does with transaction bytes from a peer: decode, stateless check, then execution by the block
// builder (StateMachine.ApplyTransaction = CheckTx + fee + handler) on the current state; the working state is discarded.
func (w *world) runTx(raw []byte) (o txOutcome) {
	tx := new(lib.Transaction)
	var e lib.ErrorI
	if p := guard(func() { e = lib.Unmarshal(raw, tx) }); p != "" {
		return txOutcome{stage: "unmarshal", panicked: p}
	}
	if e != nil {
		return txOutcome{stage: "unmarshal", err: e.Error()}
	}
	if p := guard(func() { e = tx.CheckBasic() }); p != "" {
		return txOutcome{stage: "checkbasic", panicked: p}
	}
	if e != nil {
		return txOutcome{stage: "checkbasic", err: e.Error()}
	}
	if openFinding(kfBlockHash) {
		if inner, e := lib.FromAny(tx.Msg); e == nil {
			if cr, ok := inner.(*fsm.MessageCertificateResults); ok && skipBlockHash(qcBlocks(cr.Qc)...) {
				return txOutcome{stage: "excluded"}
			}
		}
	}
	defer w.c.Abort()
	p := guard(func() { _, _, e = w.c.FSM.ApplyTransaction(0, raw, crypto.HashString(raw), nil) })
	switch {
	case p != "":
		return txOutcome{stage: "rejected", panicked: p}
	case e != nil:
		return txOutcome{stage: "rejected", err: e.Error()}
	}
	return txOutcome{stage: "applied"}
}

// proposeWith builds a block from the given transactions on the proposer path (exactly what the mempool does) and throws
// it away again. It returns ApplyBlock's error, the number of included / failed transactions and the resulting state digest.
func (w *world) proposeWith(txs ...[]byte) (err lib.ErrorI, included, failed int, digest string) {
	// NOTE: same clock for every call so that digests are comparable
	out := w.c.Propose(chainsim.BlockSpec{Txs: txs, Time: 1_700_000_999_000_000})
	defer w.c.Abort()
	if out.Err != nil {
		return out.Err, 0, 0, ""
	}
	return nil, len(out.Results.Results), len(out.Results.Failed), w.digest()
}

// unknownRejected asserts the claim of lib.Unmarshal for the critical message types.
func unknownRejected(raw []byte, fresh proto.Message, d wire.Drawer) (injected []byte, where string, violation string) {
	inj, where, ok := wire.InjectUnknown(raw, fresh.ProtoReflect().Descriptor(), d)
	if !ok {
		return nil, "", ""
	}
	var e lib.ErrorI
	if p := guard(func() { e = lib.Unmarshal(inj, fresh) }); p != "" {
		return inj, where, "panic while decoding: " + p
	}
	if e == nil {
		return inj, where, fmt.Sprintf("lib.Unmarshal accepted a %T with an unknown field at %s", fresh, where)
	}
	return inj, where, ""
}

// rawEdit applies one byte-level edit.
func rawEdit(raw []byte, d wire.Drawer) ([]byte, string) {
	out := append([]byte(nil), raw...)
	if len(out) == 0 {
		return []byte{byte(d.Intn(256, "b"))}, "single-byte"
	}
	switch d.Intn(8, "rawop") {
	case 6, 7:
		// structured: one length prefix (at any nesting depth, also inside bytes fields that carry messages) lies
		if lie, where, ok := wire.LieAboutLength(out, d); ok {
			return lie, "length-lie@" + where
		}
		return out[:len(out)-1], "truncate-last"
	case 0:
		i := d.Intn(len(out), "pos")
		out[i] ^= 1 << uint(d.Intn(8, "bit"))
		return out, fmt.Sprintf("flip@%d", i)
	case 1:
		n := d.Intn(len(out), "cut")
		return out[:n], fmt.Sprintf("truncate@%d", n)
	case 2:
		// overwrite a byte with a hostile length / varint prefix
		i := d.Intn(len(out), "pos")
		host := [][]byte{{0xFF, 0xFF, 0xFF, 0xFF, 0x0F}, {0x80, 0x80, 0x80, 0x80, 0x80, 0x80, 0x80, 0x80, 0x80, 0x01}, {0xFF, 0xFF, 0xFF, 0xFF, 0xFF, 0xFF, 0xFF, 0xFF, 0xFF, 0x01}, {0x80, 0x02}, {0xFF, 0x01}, {0x00}}
		h := host[d.Intn(len(host), "host")]
		return append(append(append([]byte(nil), out[:i]...), h...), out[i:]...), fmt.Sprintf("insert-varint@%d", i)
	case 3:
		i := d.Intn(len(out), "pos")
		return append(out, out[i:]...), fmt.Sprintf("duplicate-tail@%d", i)
	case 4:
		i := d.Intn(len(out), "pos")
		out[i] = []byte{0x00, 0xFF, 0x7F, 0x80, 0x0A, 0x12}[d.Intn(6, "val")]
		return out, fmt.Sprintf("set@%d", i)
	default:
		i, j := d.Intn(len(out), "i"), d.Intn(len(out), "j")
		out[i], out[j] = out[j], out[i]
		return out, fmt.Sprintf("swap@%d,%d", i, j)
	}
}

func saveInput(rec *ev.Rec, name string, raw []byte) string {
	p := filepath.Join(ev.ReplayDir(), "c19-"+name+".bin")
	_ = os.WriteFile(p, raw, 0o644)
	rec.SetReplay(p)
	return p
}

// ---------------------------------------------------------------------------------------------------------------------
// transactions

// oversizeOrderID reports whether an order instruction carries an id that does not fit one key segment.
func oversizeOrderID(o *lib.Orders) bool {
	if o == nil {
		return false
	}
	for _, l := range o.LockOrders {
		if l != nil && len(l.OrderId) > 255 {
			return true
		}
	}
	for _, id := range append(append([][]byte{}, o.ResetOrders...), o.CloseOrders...) {
		if len(id) > 255 {
			return true
		}
	}
	return false
}

type hostilePair struct {
	seed int
	site wire.Site
}

var hostilePairsCache []hostilePair

// hostilePairs lists every (seed transaction, bytes- or number-typed field of its payload) pair.
func hostilePairs(w *world) []hostilePair {
	if hostilePairsCache == nil {
		for i, s := range w.txs {
			for _, site := range payloadSites(wire.Sites(s.tx)) {
				if site.Kind == "bytes" || site.Kind == "uint" {
					hostilePairsCache = append(hostilePairsCache, hostilePair{i, site})
				}
			}
		}
	}
	return hostilePairsCache
}

// payloadSites returns the mutation sites inside the transaction's payload (behind the Any).
func payloadSites(sites []wire.Site) (out []wire.Site) {
	for _, s := range sites {
		if strings.Contains(s.Path(), "@any") {
			out = append(out, s)
		}
	}
	return
}

func TestC19cDecodeTx(t *testing.T) {
	rec := ev.New(t, "C19")
	w, err := getWorld()
	if err != nil {
		t.Fatalf("harness: %v", err)
	}
	// every seed must decode and at least be executable up to the handler
	applied := 0
	for _, s := range w.txs {
		o := w.runTx(s.raw)
		if o.panicked != "" || o.stage == "unmarshal" || o.stage == "checkbasic" {
			t.Fatalf("harness: seed %s: %+v", s.name, o)
		}
		if o.stage == "applied" {
			applied++
		}
	}
	rec.Note("seeds", fmt.Sprintf("%d transaction kinds, %d execute successfully on the fixture state", len(w.txs), applied))
	_, _, _, emptyDigest := w.proposeWith()
	rapid.Check(t, func(rt *rapid.T) {
		c := rec.Case()
		d := rd{rt}
		seed := w.txs[rapid.IntRange(0, len(w.txs)-1).Draw(rt, "seed")]
		mode := []string{"payload-hostile+resign", "payload-hostile+resign", "payload-hostile+resign", "field+resign", "field+stale-signature", "unknown-field", "raw-bytes"}[rapid.IntRange(0, 6).Draw(rt, "mode")]
		c.Class("mode=" + mode)
		defer func() { c.Class("tx=" + seed.name) }()
		var raw []byte
		var desc string
		switch mode {
		case "unknown-field":
			inj, where, viol := unknownRejected(seed.raw, new(lib.Transaction), d)
			c.Desc("%s unknown@%s", seed.name, where)
			if viol != "" {
				rt.Fatalf("%s (input %s)", viol, saveInput(rec, "tx-unknown", inj))
			}
			c.Done(inj != nil)
			return
		case "raw-bytes":
			raw, desc = rawEdit(seed.raw, d)
		default:
			var mm proto.Message
			if mode == "payload-hostile+resign" {
				// uniformly over ALL (transaction kind, bytes/number field of the payload) pairs, so that kinds with few payload
				// fields are not drowned by the big ones; the value is hostile (boundary lengths, 0xFF runs, 2^k +- 1)
				p := hostilePairs(w)[rapid.IntRange(0, len(hostilePairs(w))-1).Draw(rt, "pair")]
				seed = w.txs[p.seed]
				op := "hostile"
				if p.site.Kind == "bytes" && rapid.Bool().Draw(rt, "oversize") {
					op = "oversize"
				}
				if m2, ds, ok := p.site.Mutate(seed.tx, op, d); ok {
					mm, desc = m2, ds
				}
			} else {
				sites := wire.Sites(seed.tx)
				for attempt := 0; attempt < 20 && mm == nil; attempt++ {
					site := sites[rapid.IntRange(0, len(sites)-1).Draw(rt, "site")]
					ops := site.Ops()
					if m2, ds, ok := site.Mutate(seed.tx, ops[rapid.IntRange(0, len(ops)-1).Draw(rt, "op")], d); ok {
						mm, desc = m2, ds
					}
				}
			}
			if mm == nil {
				c.Class("skip:no-mutation-found")
				c.Done(false)
				return
			}
			tx := mm.(*lib.Transaction)
			if seed.name == "certificateResults" && mode != "field+stale-signature" {
				// a Byzantine committee (or, with KF-C19-electionvote-cert-as-results, its leader alone) certifies whatever it
				// likes: recompute the derived results hash and put a real aggregate signature over the mutated certificate
				if inner, e := lib.FromAny(tx.Msg); e == nil {
					if cr, ok := inner.(*fsm.MessageCertificateResults); ok && cr.Qc != nil && cr.Qc.Header != nil && cr.Qc.Results != nil {
						if oversizeOrderID(cr.Qc.Results.Orders) && openFinding(kfCertOrderID) {
							rec.Exclude(kfCertOrderID)
							c.Class("excluded:" + kfCertOrderID)
							c.Done(false)
							return
						}
						cr.Qc.ResultsHash = cr.Qc.Results.Hash()
						if signCert(w.c, cr.Qc, []int{0, 1, 2, 3}) == nil {
							if a, e := lib.NewAny(cr); e == nil {
								tx.Msg = a
								desc += "+recertified"
							}
						}
					}
				}
			}
			if mode != "field+stale-signature" && !strings.HasPrefix(desc, "signature") {
				if e := tx.Sign(seed.signer); e != nil {
					c.Class("skip:cannot-sign")
					c.Done(false)
					return
				}
			}
			var e lib.ErrorI
			if raw, e = lib.Marshal(tx); e != nil {
				c.Class("skip:cannot-marshal")
				c.Done(false)
				return
			}
		}
		c.Desc("%s %s %s", seed.name, mode, desc)
		o := w.runTx(raw)
		c.Class("stage=" + o.stage)
		if o.panicked != "" {
			in := saveInput(rec, "tx-panic", raw)
			err, _, _, _ := w.proposeWith(w.txs[0].raw, raw)
			rt.Fatalf("transaction %s with %s (%s) PANICS in the state machine at stage %s; a block proposal containing it and a valid send returns %v for the WHOLE block (input saved: %s)\n%s",
				seed.name, desc, mode, o.stage, err, in, o.panicked)
		}
		// a sample of the cases goes through the real block builder: no ErrPanic, rejected => state as if it was not there
		if rapid.IntRange(0, 7).Draw(rt, "through-block-builder") == 0 {
			err, inc, failed, dig := w.proposeWith(raw)
			c.Class("block-builder")
			if err != nil {
				if err.Code() == lib.CodePanic {
					rt.Fatalf("proposer-mode ApplyBlock returns ErrPanic for a block with transaction %s %s (input %s)", seed.name, desc, saveInput(rec, "tx-errpanic", raw))
				}
				rt.Fatalf("proposer-mode ApplyBlock fails for the whole block: %v (transaction %s %s, input %s)", err, seed.name, desc, saveInput(rec, "tx-blockerr", raw))
			}
			if inc == 0 && dig != emptyDigest {
				rt.Fatalf("transaction %s %s was rejected (%d failed) but the block's state differs from the empty block's state (input %s)", seed.name, desc, failed, saveInput(rec, "tx-dirty", raw))
			}
		}
		if got := w.digest(); got != w.baseDig {
			rt.Fatalf("harness/state leak: the committed state changed after handling %s %s", seed.name, desc)
		}
		c.Done(o.stage == "rejected" || o.stage == "applied")
	})
}

// ---------------------------------------------------------------------------------------------------------------------
// blocks and certificates

// runBlock: decode, stateless check, replica-mode execution.
func (w *world) runBlock(raw []byte) (stage string, panicked string, errPanic bool) {
	return w.runBlockOpt(raw, true)
}

// runBlockOpt: execute=false stops after the stateless checks (native fuzzing: Go's fuzz worker kills itself when ONE input
// takes 10 s, which a replica-mode ApplyBlock can exceed on a loaded machine; executed blocks are covered by the rapid tests).
func (w *world) runBlockOpt(raw []byte, execute bool) (stage string, panicked string, errPanic bool) {
	blk := new(lib.Block)
	var e lib.ErrorI
	if p := guard(func() { e = lib.Unmarshal(raw, blk) }); p != "" {
		return "unmarshal", p, false
	}
	if e != nil {
		return "unmarshal", "", false
	}
	if skipBlockHash(raw) {
		return "excluded", "", false
	}
	if p := guard(func() { _, _ = new(lib.Block).BytesToBlockHash(raw) }); p != "" {
		return "blockhash", p, false
	}
	if p := guard(func() { e = blk.Check(w.c.Cfg.NetworkID, w.c.Cfg.ChainId) }); p != "" {
		return "check", p, false
	}
	if e != nil {
		return "check", "", false
	}
	if !execute {
		return "checked", "", false
	}
	p := guard(func() { _, _, e = w.c.Validate(blk) })
	if p != "" {
		return "validate", p, false
	}
	if e != nil {
		return "validate-rejected", "", e.Code() == lib.CodePanic
	}
	return "validated", "", false
}

// runQC: decode and every stateless / committee check a receiver of a certificate performs.
func (w *world) runQC(raw []byte) (stage string, panicked string) {
	qc := new(lib.QuorumCertificate)
	var e lib.ErrorI
	if p := guard(func() { e = lib.Unmarshal(raw, qc) }); p != "" {
		return "unmarshal", p
	}
	if e != nil {
		return "unmarshal", ""
	}
	return w.checkQC(qc)
}

func (w *world) checkQC(qc *lib.QuorumCertificate) (stage string, panicked string) {
	var e lib.ErrorI
	if skipBlockHash(qcBlocks(qc)...) {
		return "excluded", ""
	}
	view := &lib.View{NetworkId: w.c.Cfg.NetworkID, ChainId: w.c.Cfg.ChainId, Height: w.c.Height(), RootHeight: w.c.Height()}
	if p := guard(func() { e = qc.CheckBasic() }); p != "" {
		return "checkbasic", p
	}
	if e != nil {
		return "checkbasic", ""
	}
	stage = "check"
	if p := guard(func() { _, e = qc.Check(w.vs, 1<<20, view, false) }); p != "" {
		return stage, p
	}
	if e == nil {
		stage = "check-ok"
	}
	if p := guard(func() { _ = qc.SignBytes(); _, _, _ = qc.GetNonSigners(w.vs.ValidatorSet) }); p != "" {
		return "signbytes", p
	}
	if p := guard(func() { _ = qc.CheckHighQC(1<<20, view, 0, w.vs) }); p != "" {
		return "checkhighqc", p
	}
	if p := guard(func() { _, e = qc.CheckProposalBasic(w.c.Height(), w.c.Cfg.NetworkID, w.c.Cfg.ChainId) }); p != "" {
		return "checkproposal", p
	}
	if e == nil && stage == "check-ok" {
		stage = "proposal-ok"
	}
	return stage, ""
}

func TestC19cDecodeBlockQC(t *testing.T) {
	rec := ev.New(t, "C19")
	w, err := getWorld()
	if err != nil {
		t.Fatalf("harness: %v", err)
	}
	if st, p, _ := w.runBlock(w.block); st != "validated" || p != "" {
		t.Fatalf("harness: seed block: %s %s", st, p)
	}
	if st, p := w.runQC(w.qc); st != "proposal-ok" || p != "" {
		t.Fatalf("harness: seed certificate: %s %s", st, p)
	}
	rapid.Check(t, func(rt *rapid.T) {
		c := rec.Case()
		d := rd{rt}
		isBlock := rapid.Bool().Draw(rt, "block")
		var seedRaw []byte
		var seedObj, fresh proto.Message
		name := "certificate"
		if isBlock {
			name, seedRaw, seedObj, fresh = "block", w.block, w.blockObj, new(lib.Block)
		} else {
			seedRaw, seedObj, fresh = w.qc, w.qcObj, new(lib.QuorumCertificate)
		}
		mode := []string{"field", "field", "field", "unknown-field", "raw-bytes"}[rapid.IntRange(0, 4).Draw(rt, "mode")]
		c.Class("target=" + name)
		c.Class("mode=" + mode)
		var raw []byte
		var desc string
		switch mode {
		case "unknown-field":
			inj, where, viol := unknownRejected(seedRaw, fresh, d)
			c.Desc("%s unknown@%s", name, where)
			if viol != "" {
				rt.Fatalf("%s (input %s)", viol, saveInput(rec, name+"-unknown", inj))
			}
			// a certificate's block is an opaque bytes field: the same claim must hold for it when the receiver decodes it
			c.Done(inj != nil)
			return
		case "raw-bytes":
			raw, desc = rawEdit(seedRaw, d)
		default:
			sites := wire.Sites(seedObj)
			var mm proto.Message
			for attempt := 0; attempt < 20 && mm == nil; attempt++ {
				site := sites[rapid.IntRange(0, len(sites)-1).Draw(rt, "site")]
				ops := site.Ops()
				m2, ds, ok := site.Mutate(seedObj, ops[rapid.IntRange(0, len(ops)-1).Draw(rt, "op")], d)
				if ok {
					mm, desc = m2, ds
				}
			}
			if mm == nil {
				c.Class("skip:no-mutation-found")
				c.Done(false)
				return
			}
			if !isBlock && rapid.Bool().Draw(rt, "rebind") {
				// a Byzantine sender recomputes the derived hashes so that the mutation gets past the binding checks
				q := mm.(*lib.QuorumCertificate)
				if q.Results != nil {
					q.ResultsHash = q.Results.Hash()
				}
				if q.Block != nil {
					if h, e := new(lib.Block).BytesToBlockHash(q.Block); e == nil {
						q.BlockHash = h
					}
				}
				desc += "+rebound-hashes"
			}
			if isBlock && rapid.Bool().Draw(rt, "rehash") {
				b := mm.(*lib.Block)
				if b.BlockHeader != nil {
					_, _ = b.BlockHeader.SetHash()
					desc += "+rehashed"
				}
			}
			var e lib.ErrorI
			if raw, e = lib.Marshal(mm); e != nil {
				c.Class("skip:cannot-marshal")
				c.Done(false)
				return
			}
		}
		c.Desc("%s %s %s", name, mode, desc)
		var stage, panicked string
		var errPanic bool
		if isBlock {
			stage, panicked, errPanic = w.runBlock(raw)
		} else {
			stage, panicked = w.runQC(raw)
		}
		c.Class("stage=" + name + ":" + stage)
		if panicked != "" {
			rt.Fatalf("%s with %s (%s) panics at stage %s (input %s)\n%s", name, desc, mode, stage, saveInput(rec, name+"-panic", raw), panicked)
		}
		if errPanic {
			rt.Fatalf("replica-mode ApplyBlock answers ErrPanic for %s with %s (input %s)", name, desc, saveInput(rec, name+"-errpanic", raw))
		}
		if got := w.digest(); got != w.baseDig {
			rt.Fatalf("the committed state changed after handling %s %s", name, desc)
		}
		c.Done(stage != "unmarshal")
	})
}

// ---------------------------------------------------------------------------------------------------------------------
// consensus messages

// runBft delivers a decoded consensus message to a fresh replica (phase ELECTION of the rig's height).
func runBftFresh(raw []byte) (stage string, panicked string) {
	m := new(bft.Message)
	var e lib.ErrorI
	if p := guard(func() { e = lib.Unmarshal(raw, m) }); p != "" {
		return "unmarshal", p
	}
	if e != nil {
		return "unmarshal", ""
	}
	if skipBlockHash(msgBlocks(m)...) {
		return "excluded", ""
	}
	r := newRig(rigOpts{n: 4, height: 3, rootH: 3})
	if p := guard(func() { e = r.R[0].b.HandleMessage(m) }); p != "" {
		return "handle", p
	}
	if e != nil {
		return "rejected", ""
	}
	// let the replica act on what it stored
	if p := guard(func() {
		for i := 0; i < 3; i++ {
			r.R[0].Lock()
			r.R[0].b.HandlePhase()
			r.R[0].Unlock()
		}
	}); p != "" {
		return "phase", p
	}
	return "accepted", ""
}

func TestC19cDecodeBft(t *testing.T) {
	rec := ev.New(t, "C19")
	ks, _ := rigValidatorSet(4)
	rapid.Check(t, func(rt *rapid.T) {
		c := rec.Case()
		d := rd{rt}
		sc := scenarios[rapid.IntRange(0, len(scenarios)-1).Draw(rt, "scenario")]
		base := baseline(sc)
		e := base.sent[rapid.IntRange(0, len(base.sent)-1).Draw(rt, "msg")]
		mode := []string{"field+resign", "field+resign", "field+stale-signature", "raw-bytes"}[rapid.IntRange(0, 3).Draw(rt, "mode")]
		c.Class("mode=" + mode)
		c.Class("kind=" + e.kind)
		if mode == "raw-bytes" {
			seed, _ := lib.Marshal(e.msg)
			raw, desc := rawEdit(seed, d)
			c.Desc("%s#%d %s raw %s", sc.name, e.id, e.kind, desc)
			stage, p := runBftFresh(raw)
			if p != "" {
				rt.Fatalf("consensus message (%s of scenario %s, %s) panics a replica at stage %s (input %s)\n%s", e.kind, sc.name, desc, stage, saveInput(rec, "bft-panic", raw), p)
			}
			c.Class("stage=" + stage)
			c.Done(stage != "unmarshal")
			return
		}
		sites := wire.Sites(e.msg)
		var mutant *bft.Message
		var desc string
		for attempt := 0; attempt < 20 && mutant == nil; attempt++ {
			site := sites[rapid.IntRange(0, len(sites)-1).Draw(rt, "site")]
			ops := site.Ops()
			m2, ds, ok := site.Mutate(e.msg, ops[rapid.IntRange(0, len(ops)-1).Draw(rt, "op")], d)
			if ok && site.Top() != "signature" {
				mutant, desc = m2.(*bft.Message), ds
			}
		}
		if mutant == nil {
			c.Class("skip:no-mutation-found")
			c.Done(false)
			return
		}
		if mode == "field+resign" {
			// a Byzantine validator signs whatever it sends
			if p := guard(func() { _ = mutant.Sign(ks[e.from]) }); p != "" {
				c.Class("skip:cannot-sign")
				c.Done(false)
				return
			}
		}
		c.Desc("%s#%d %s from r%d %s %s", sc.name, e.id, e.kind, e.from, mode, desc)
		if skipBlockHash(msgBlocks(mutant)...) {
			c.Class("excluded:" + kfBlockHash)
			c.Done(false)
			return
		}
		// in situ: the mutant replaces the original in the scripted run (all receivers), the run continues to its end
		var res *runResult
		if p := guard(func() { res = runScenario(sc, e.id, mutant, nil, orderReplace) }); p != "" {
			raw, _ := lib.Marshal(mutant)
			rt.Fatalf("a %s message of validator %d with %s (%s) PANICS the receiving replicas (input %s)\n%s", e.kind, e.from, desc, mode, saveInput(rec, "bft-panic", raw), p)
		}
		acc := 0
		for _, t := range res.accepted {
			if t == "" {
				acc++
			}
		}
		c.ClassIf(acc > 0, "accepted-by-receivers")
		c.ClassIf(acc == 0, "rejected-by-receivers")
		c.Done(true)
	})
}

// ---------------------------------------------------------------------------------------------------------------------
// gossip wrappers and the p2p envelope

func (w *world) runBlockMsg(raw []byte) (stage, panicked string) {
	m := new(lib.BlockMessage)
	var e lib.ErrorI
	if p := guard(func() { e = lib.Unmarshal(raw, m) }); p != "" {
		return "unmarshal", p
	}
	if e != nil {
		return "unmarshal", ""
	}
	if m.BlockAndCertificate == nil {
		// controller.HandlePeerBlock starts with qc.CheckBasic() which handles nil
		return w.checkQC(nil)
	}
	return w.checkQC(m.BlockAndCertificate)
}

func (w *world) runTxMsg(raw []byte) (stage, panicked string) {
	m := new(lib.TxMessage)
	var e lib.ErrorI
	if p := guard(func() { e = lib.Unmarshal(raw, m) }); p != "" {
		return "unmarshal", p
	}
	if e != nil {
		return "unmarshal", ""
	}
	stage = "empty"
	for i, tx := range m.Txs {
		if i >= 8 {
			break
		}
		o := w.runTx(tx)
		if o.panicked != "" {
			return "tx:" + o.stage, o.panicked
		}
		stage = "tx:" + o.stage
	}
	return stage, ""
}

func (w *world) runEnvelope(raw []byte) (stage, panicked string) {
	env := new(p2p.Envelope)
	var e lib.ErrorI
	if p := guard(func() { e = lib.Unmarshal(raw, env) }); p != "" {
		return "unmarshal", p
	}
	if e != nil {
		return "unmarshal", ""
	}
	var msg proto.Message
	if p := guard(func() { msg, e = lib.FromAny(env.Payload) }); p != "" {
		return "fromany", p
	}
	if e != nil {
		return "fromany", ""
	}
	pkt, ok := msg.(*p2p.Packet)
	if !ok {
		return "not-a-packet", ""
	}
	switch pkt.StreamId {
	case lib.Topic_TX:
		st, p := w.runTxMsg(pkt.Bytes)
		return "tx/" + st, p
	case lib.Topic_BLOCK:
		st, p := w.runBlockMsg(pkt.Bytes)
		return "block/" + st, p
	case lib.Topic_CONSENSUS:
		st, p := runBftFresh(pkt.Bytes)
		return "consensus/" + st, p
	case lib.Topic_BLOCK_REQUEST:
		req := new(lib.BlockRequestMessage)
		if p := guard(func() { e = lib.Unmarshal(pkt.Bytes, req) }); p != "" {
			return "block-request", p
		}
		return "block-request", ""
	}
	return "other-topic", ""
}

func TestC19cDecodeGossip(t *testing.T) {
	rec := ev.New(t, "C19")
	w, err := getWorld()
	if err != nil {
		t.Fatalf("harness: %v", err)
	}
	seeds := []namedBytes{{"blockMessage", w.blockMsgSeed()}, {"txMessage", w.txMsgSeed()}}
	seeds = append(seeds, w.envelopeSeeds()...)
	run := func(name string, raw []byte) (string, string) {
		switch {
		case name == "blockMessage":
			return w.runBlockMsg(raw)
		case name == "txMessage":
			return w.runTxMsg(raw)
		}
		return w.runEnvelope(raw)
	}
	for _, s := range seeds {
		st, p := run(s.name, s.b)
		if p != "" || st == "unmarshal" || st == "fromany" {
			t.Fatalf("harness: seed %s: stage %s %s", s.name, st, p)
		}
		rec.Note("seed:"+s.name, "reaches "+st)
	}
	rapid.Check(t, func(rt *rapid.T) {
		c := rec.Case()
		d := rd{rt}
		s := seeds[rapid.IntRange(0, len(seeds)-1).Draw(rt, "seed")]
		raw, desc := s.b, "unchanged"
		n := rapid.IntRange(1, 3).Draw(rt, "edits")
		for i := 0; i < n; i++ {
			var ds string
			raw, ds = rawEdit(raw, d)
			desc += "," + ds
		}
		c.Desc("%s %s", s.name, desc)
		c.Class("seed=" + s.name)
		st, p := run(s.name, raw)
		if p != "" {
			rt.Fatalf("%s with edits %s panics at stage %s (input %s)\n%s", s.name, desc, st, saveInput(rec, "gossip-panic", raw), p)
		}
		c.Class("stage=" + st)
		if got := w.digest(); got != w.baseDig {
			rt.Fatalf("the committed state changed after handling %s %s", s.name, desc)
		}
		c.Done(!strings.HasSuffix(st, "unmarshal"))
	})
}

var _ = context.Background
var _ = bytes.Equal
