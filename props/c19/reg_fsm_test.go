package c19

import (
	"bytes"
	"testing"

	"github.com/canopy-network/canopy/fsm"
	"github.com/canopy-network/canopy/lib"
	"github.com/canopy-network/canopy/lib/crypto"

	"verif/h/chainsim"
	"verif/h/ev"
	"verif/h/keys"
)

// Finding 4.5 (fixed by a133151): a validly signed delete-order / edit-order whose OrderId has 256..511 bytes of 0xF0 built a
// corrupt store key; the lookup panicked, ApplyBlock recovered and the proposer path returned ErrPanic for the WHOLE block.
func TestC19Reg_OrderId256(t *testing.T) {
	w, err := getWorld()
	if err != nil {
		t.Fatalf("harness: %v", err)
	}
	for _, n := range []int{256, 300, 511} {
		id := bytes.Repeat([]byte{0xF0}, n)
		for name, msg := range map[string]lib.MessageI{
			"deleteOrder": &fsm.MessageDeleteOrder{OrderId: id, ChainId: 2},
			"editOrder":   &fsm.MessageEditOrder{OrderId: id, ChainId: 2, AmountForSale: 1, RequestedAmount: 1, SellerReceiveAddress: bytes.Repeat([]byte{1}, 20)},
		} {
			raw, _, e := w.c.SignTx(keys.Ed(5), msg, 100_000, w.c.Height(), "")
			if e != nil {
				t.Fatal(e)
			}
			o := w.runTx(raw)
			if o.panicked != "" {
				t.Errorf("%s with a %d-byte order id panics in the state machine: %s", name, n, firstLine(o.panicked))
			}
			aerr, inc, failed, _ := w.proposeWith(w.txs[0].raw, raw)
			if aerr != nil {
				t.Errorf("%s with a %d-byte order id: proposer-mode ApplyBlock fails for the whole block (valid send + poison): %v", name, n, aerr)
			} else if inc != 1 || failed != 1 {
				t.Errorf("%s with a %d-byte order id: expected the valid send included and the poison dropped, got included=%d failed=%d", name, n, inc, failed)
			}
		}
	}
}

func firstLine(s string) string {
	if i := bytes.IndexByte([]byte(s), '\n'); i > 0 {
		return s[:i]
	}
	return s
}

// certWith wraps results into a certificate of committee 2 really signed by all four members and into a
// certificate-results transaction signed by the proposer (validator 0).
func certWith(t *testing.T, w *world, res *lib.CertificateResult, height uint64) []byte {
	qc := &lib.QuorumCertificate{Header: &lib.View{NetworkId: 1, ChainId: certNested, Height: height, RootHeight: 2, Phase: lib.Phase_PRECOMMIT_VOTE}, Results: res, ResultsHash: res.Hash(),
		BlockHash: crypto.Hash([]byte("nested block")), ProposerKey: keys.BLS(0).PublicKey().Bytes()}
	if err := signCert(w.c, qc, []int{0, 1, 2, 3}); err != nil {
		t.Fatal(err)
	}
	raw, _, err := w.c.SignTx(keys.BLS(0), &fsm.MessageCertificateResults{Qc: qc}, 0, w.c.Height(), "")
	if err != nil {
		t.Fatal(err)
	}
	return raw
}

// KF-C19-certresults-orderid-256: the sibling of finding 4.5 that a133151 does not cover. Order ids inside certificate
// results (lock / reset / close instructions) are not length-checked by CertificateResult.CheckBasic nor by
// MessageCertificateResults.Check; HandleCommitteeSwaps looks them up with KeyForOrder.
func TestC19Reg_CertResultsOrderId256(t *testing.T) {
	w, err := getWorld()
	if err != nil {
		t.Fatalf("harness: %v", err)
	}
	id := bytes.Repeat([]byte{0xF0}, 300)
	rr := &lib.RewardRecipients{PaymentPercents: []*lib.PaymentPercents{{Address: chainsim.Addr(keys.Ed(40)), Percent: 10, ChainId: certNested}}}
	cases := map[string]*lib.Orders{
		"lock":  {LockOrders: []*lib.LockOrder{{OrderId: id, ChainId: certNested, BuyerReceiveAddress: chainsim.Addr(keys.Ed(60)), BuyerSendAddress: []byte{1}, BuyerChainDeadline: 9}}},
		"reset": {ResetOrders: [][]byte{id}},
		"close": {CloseOrders: [][]byte{id}},
	}
	for name, orders := range cases {
		raw := certWith(t, w, &lib.CertificateResult{RewardRecipients: rr, SlashRecipients: &lib.SlashRecipients{}, Orders: orders}, 9)
		o := w.runTx(raw)
		aerr, inc, failed, _ := w.proposeWith(w.txs[0].raw, raw)
		if o.panicked != "" || aerr != nil {
			t.Errorf("certificate results with a 300-byte %s-order id (validly signed by the whole committee of chain 2, passes CheckBasic/Check): state machine panics (%s); proposer-mode ApplyBlock of [valid send, this tx] = %v (included=%d failed=%d)",
				name, firstLine(o.panicked), aerr, inc, failed)
		}
	}
}

// Same finding, second member of the class: addresses inside the DEX batch of certificate results are not length-checked
// (DexBatch.CheckBasic) and become the account key segment when the order is paid out.
func TestC19Reg_CertResultsDexAddress256(t *testing.T) {
	var vals []chainsim.ValSpec
	for i := 0; i < certVals; i++ {
		vals = append(vals, chainsim.ValSpec{Key: i, OutputKey: -1, Stake: 1_000_000, Committees: []uint64{certRoot, certNested}})
	}
	pools := []*fsm.Pool{{Id: certNested + fsm.LiquidityPoolAddend, Amount: 1_000_000}}
	g := chainsim.BuildGenesis(certRoot, vals, []chainsim.AcctSpec{{Kind: 0, Key: 0, Amount: 1_000_000_000}}, pools, nil)
	c, err := chainsim.New(chainsim.Opts{Genesis: g, ChainID: certRoot})
	if err != nil {
		t.Fatal(err)
	}
	defer c.Close()
	for i := 0; i < 3; i++ {
		if out, err := c.Block(chainsim.BlockSpec{}); err != nil || out.Err != nil {
			t.Fatal(err, out.Err)
		}
	}
	w := &world{c: c}
	send, _, err := c.SignTx(keys.BLS(0), &fsm.MessageSend{FromAddress: chainsim.Addr(keys.BLS(0)), ToAddress: chainsim.Addr(keys.Ed(9)), Amount: 1}, 10000, c.Height(), "")
	if err != nil {
		t.Fatal(err)
	}
	res := &lib.CertificateResult{
		RewardRecipients: &lib.RewardRecipients{PaymentPercents: []*lib.PaymentPercents{{Address: chainsim.Addr(keys.Ed(40)), Percent: 10, ChainId: certNested}}},
		SlashRecipients:  &lib.SlashRecipients{},
		DexBatch:         &lib.DexBatch{Committee: certRoot, PoolSize: 1_000_000, Orders: []*lib.DexLimitOrder{{AmountForSale: 1000, RequestedAmount: 1, Address: bytes.Repeat([]byte{0xF0}, 300), OrderId: crypto.Hash([]byte("o"))[:20]}}},
	}
	raw := certWith(t, w, res, 9)
	o := w.runTx(raw)
	aerr, inc, failed, _ := w.proposeWith(send, raw)
	if o.panicked != "" || aerr != nil {
		t.Errorf("certificate results whose DEX batch carries a limit order with a 300-byte address (passes CheckBasic/Check, really signed by the committee): state machine panics (%s); proposer-mode ApplyBlock of [valid send, this tx] = %v (included=%d failed=%d)",
			firstLine(o.panicked), aerr, inc, failed)
	}
}

// Decided: a nil / empty order id on delete-order and edit-order (KeyForOrder(chain, nil) is the order-book prefix itself)
// is a clean rejection and touches nothing.
func TestC19cNilOrderId(t *testing.T) {
	rec := ev.New(t, "C19")
	defer func() {
		c := rec.Case()
		c.Class("nil-order-id")
		c.Desc("delete/edit order with nil and empty order id, by the seller and by a stranger")
		c.Done(!t.Failed())
	}()
	w, err := getWorld()
	if err != nil {
		t.Fatalf("harness: %v", err)
	}
	_, _, _, empty := w.proposeWith()
	for name, msg := range map[string]lib.MessageI{
		"deleteOrder(nil)":   &fsm.MessageDeleteOrder{OrderId: nil, ChainId: 2},
		"deleteOrder(empty)": &fsm.MessageDeleteOrder{OrderId: []byte{}, ChainId: 2},
		"editOrder(nil)":     &fsm.MessageEditOrder{OrderId: nil, ChainId: 2, AmountForSale: 1, RequestedAmount: 1, SellerReceiveAddress: bytes.Repeat([]byte{1}, 20)},
	} {
		for _, signer := range []crypto.PrivateKeyI{keys.Ed(5), keys.Ed(6)} {
			raw, _, e := w.c.SignTx(signer, msg, 100_000, w.c.Height(), "")
			if e != nil {
				t.Fatal(e)
			}
			o := w.runTx(raw)
			aerr, inc, _, dig := w.proposeWith(raw)
			if o.panicked != "" || aerr != nil || inc != 0 || dig != empty || o.stage != "rejected" {
				t.Errorf("%s: stage=%s err=%q panic=%q blockErr=%v included=%d stateChanged=%v", name, o.stage, o.err, firstLine(o.panicked), aerr, inc, dig != empty)
			}
		}
	}
}

// KF-C19-blockhash-length-overflow: codec.GetRawProtoField converts an attacker-chosen length varint to int before the
// bounds check; for lengths >= 2^63-1-offset the check passes and make([]byte, len) panics. Block.BytesToBlockHash runs it
// on the raw `block` bytes of every certificate BEFORE anything is verified: QuorumCertificate.CheckBasic is the first call
// of controller.HandlePeerBlock (any peer, no signature) and of bft.CheckProposerMessage (any relay of a genuine leader
// message, the block is outside the leader's signature); neither listener goroutine recovers, so the process dies.
func TestC19Reg_BlockHashLengthOverflow(t *testing.T) {
	w, err := getWorld()
	if err != nil {
		t.Fatalf("harness: %v", err)
	}
	poison := []byte{0x0A, 0x80, 0x80, 0x80, 0x80, 0x80, 0x80, 0x80, 0x80, 0x80, 0x01} // field 1, length-delimited, length 2^63
	msg := &lib.BlockMessage{ChainId: 1, MaxHeight: 1, BlockAndCertificate: &lib.QuorumCertificate{
		Header: &lib.View{NetworkId: 1, ChainId: 1, Height: 1}, ResultsHash: bytes.Repeat([]byte{1}, 32), BlockHash: bytes.Repeat([]byte{2}, 32), Block: poison}}
	raw, _ := lib.Marshal(msg)
	got := new(lib.BlockMessage)
	if e := lib.Unmarshal(raw, got); e != nil {
		t.Fatalf("harness: %v", e)
	}
	// the first thing controller.HandlePeerBlock does with a block message from any peer
	var e lib.ErrorI
	if p := guard(func() { e = got.BlockAndCertificate.CheckBasic() }); p != "" {
		t.Errorf("a %d-byte BlockMessage from an unauthenticated peer panics QuorumCertificate.CheckBasic (first call of HandlePeerBlock, no recover in the listener): %s", len(raw), firstLine(p))
	} else if e == nil {
		t.Errorf("poisoned certificate accepted")
	}
	// the same through the block-hash helper the BFT uses on votes and proposals
	if p := guard(func() { _, _ = new(lib.Block).BytesToBlockHash(poison) }); p != "" {
		t.Errorf("Block.BytesToBlockHash panics on 11 bytes: %s", firstLine(p))
	}
	_ = w
}

// KF-C19-subsidy-chainid-unchecked: MessageSubsidy.Check() does not bound the chain id (every other message that names a
// chain goes through checkChainId) and HandleMessageSubsidy credits pool id = ChainId verbatim. Pool ids of the other pool
// kinds are chain id + addend, so a "subsidy for committee 65537" is credited to the swap ESCROW pool of chain 2 (and
// 16385 -> DEX holding pool of chain 2, 32769 -> DEX liquidity pool of chain 2, 131071 -> DAO pool): different
// (kind, chain) pairs share one pool key.
func TestC19Reg_SubsidyChainIdChecked(t *testing.T) {
	w, err := getWorld()
	if err != nil {
		t.Fatalf("harness: %v", err)
	}
	defer w.c.Abort()
	escrowID := uint64(certNested) + fsm.EscrowPoolAddend
	before, e := w.c.FSM.GetPoolBalance(escrowID)
	if e != nil {
		t.Fatal(e)
	}
	raw, _, err := w.c.SignTx(keys.Ed(5), &fsm.MessageSubsidy{Address: chainsim.Addr(keys.Ed(5)), ChainId: escrowID, Amount: 1234}, 100_000, w.c.Height(), "")
	if err != nil {
		t.Fatal(err)
	}
	_, _, ae := w.c.FSM.ApplyTransaction(0, raw, crypto.HashString(raw), nil)
	after, _ := w.c.FSM.GetPoolBalance(escrowID)
	if ae == nil && after != before {
		t.Errorf("a subsidy transaction naming \"committee\" %d passed Check() and was credited to the swap escrow pool of chain %d: %d -> %d while the open sell orders (the only thing that pool backs) did not change", escrowID, certNested, before, after)
	}
}
