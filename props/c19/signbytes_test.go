package c19

// signbytes_test.go: C19(a) injectivity of sign bytes / identity hashes.
//
// For every digest D (transaction sign bytes and hash, certificate vote payload, the three kinds of consensus message,
// evidence key, certificate-results hash, block header hash) a structured generator fills an object m over ALL fields
// (nested and repeated ones included), and a mutant m' differing from m in exactly one field is derived (every field in
// turn: scalar change, byte flip/truncate/extend, nil vs empty, message present vs absent, list element dropped / duplicated /
// swapped / rotated). Oracles:
//   (i)   wire stability      D(m) == D(decode(encode(m)))            - signer and verifier compute the same digest
//   (ii)  same meaning        encode(m) == encode(m')  =>  D(m) == D(m')   (nil vs empty)
//   (iii) injectivity         encode(m) != encode(m')  =>  D(m) != D(m')   unless the field is on the digest's declared
//         list of fields that are deliberately outside it; each entry of that list names WHY (the signature itself, bound
//         through a hash that IS covered, self-authenticating nested certificate, or "decided by the receiver differential").

import (
	"bytes"
	"fmt"
	"strings"
	"testing"

	"github.com/canopy-network/canopy/bft"
	"github.com/canopy-network/canopy/fsm"
	"github.com/canopy-network/canopy/lib"
	"github.com/canopy-network/canopy/lib/crypto"
	"google.golang.org/protobuf/proto"
	"google.golang.org/protobuf/reflect/protoreflect"
	"pgregory.net/rapid"

	"verif/h/ev"
	"verif/h/wire"
)

type digest struct {
	name string
	gen  func(d wire.Drawer) proto.Message
	eval func(m proto.Message) []byte
	// outside: field path prefix -> reason it is deliberately not covered. Everything else MUST be covered.
	outside func(m proto.Message) map[string]string
}

var leaderPhases = []lib.Phase{lib.Phase_ELECTION, lib.Phase_PROPOSE, lib.Phase_PRECOMMIT, lib.Phase_COMMIT}
var votePhases = []lib.Phase{lib.Phase_ELECTION_VOTE, lib.Phase_PROPOSE_VOTE, lib.Phase_PRECOMMIT_VOTE}

var payloadTypes = []proto.Message{
	&fsm.MessageSend{}, &fsm.MessageStake{}, &fsm.MessageEditStake{}, &fsm.MessageUnstake{}, &fsm.MessagePause{}, &fsm.MessageUnpause{},
	&fsm.MessageChangeParameter{}, &fsm.MessageDAOTransfer{}, &fsm.MessageCertificateResults{}, &fsm.MessageSubsidy{}, &fsm.MessageCreateOrder{},
	&fsm.MessageEditOrder{}, &fsm.MessageDeleteOrder{}, &fsm.MessageDexLimitOrder{}, &fsm.MessageDexLiquidityDeposit{}, &fsm.MessageDexLiquidityWithdraw{},
}

func phaseOverride(path string, want []lib.Phase) func(string, protoreflect.FieldDescriptor, wire.Drawer) (protoreflect.Value, bool) {
	return func(p string, fd protoreflect.FieldDescriptor, d wire.Drawer) (protoreflect.Value, bool) {
		if p == path {
			return protoreflect.ValueOfEnum(protoreflect.EnumNumber(want[d.Intn(len(want), "phase")])), true
		}
		return protoreflect.Value{}, false
	}
}

func fillOpts(over func(string, protoreflect.FieldDescriptor, wire.Drawer) (protoreflect.Value, bool)) wire.FillOpts {
	return wire.FillOpts{MaxDepth: 4, MaxList: 3, SetPct: 80, AnyTypes: payloadTypes, Override: over}
}

func qcOutside(qc *lib.QuorumCertificate, prefix string) map[string]string {
	out := map[string]string{
		prefix + "block":     "hash-bound: block_hash is covered and receivers check block against it (QuorumCertificate.CheckBasic)",
		prefix + "results":   "hash-bound: results_hash is covered and receivers check results against it (QuorumCertificate.CheckBasic)",
		prefix + "signature": "the aggregate signature itself",
	}
	if qc != nil && qc.Header != nil && qc.Header.Phase == lib.Phase_ELECTION_VOTE {
		out[prefix+"block_hash"] = "ELECTION_VOTE payload is {view, proposer key} only - decided by the certificate receiver differential (TestC19aCertReceiver)"
		out[prefix+"results_hash"] = "ELECTION_VOTE payload is {view, proposer key} only - decided by the certificate receiver differential (TestC19aCertReceiver)"
	}
	return out
}

func digests() []digest {
	return []digest{
		{
			name: "Transaction.GetSignBytes",
			gen: func(d wire.Drawer) proto.Message {
				m := new(lib.Transaction)
				wire.Fill(m, d, fillOpts(nil))
				return m
			},
			eval: func(m proto.Message) []byte { b, _ := m.(*lib.Transaction).GetSignBytes(); return b },
			outside: func(proto.Message) map[string]string {
				return map[string]string{"signature": "the signature itself (public key + signature)"}
			},
		},
		{
			name: "Transaction.GetHash",
			gen: func(d wire.Drawer) proto.Message {
				m := new(lib.Transaction)
				wire.Fill(m, d, fillOpts(nil))
				return m
			},
			eval:    func(m proto.Message) []byte { b, _ := m.(*lib.Transaction).GetHash(); return b },
			outside: func(proto.Message) map[string]string { return nil },
		},
		{
			name: "QuorumCertificate.SignBytes",
			gen: func(d wire.Drawer) proto.Message {
				m := new(lib.QuorumCertificate)
				wire.Fill(m, d, fillOpts(phaseOverride("header.phase", append(votePhases, lib.Phase_ELECTION_VOTE, lib.Phase_ROUND_INTERRUPT))))
				return m
			},
			eval:    func(m proto.Message) []byte { return proto.Clone(m).(*lib.QuorumCertificate).SignBytes() },
			outside: func(m proto.Message) map[string]string { return qcOutside(m.(*lib.QuorumCertificate), "") },
		},
		{
			name: "bft.Message.SignBytes(leader)",
			gen: func(d wire.Drawer) proto.Message {
				m := new(bft.Message)
				wire.Fill(m, d, fillOpts(phaseOverride("header.phase", leaderPhases)))
				if m.Header == nil {
					m.Header = &lib.View{Phase: leaderPhases[d.Intn(len(leaderPhases), "phase")]}
				}
				return m
			},
			eval: func(m proto.Message) []byte { return proto.Clone(m).(*bft.Message).SignBytes() },
			outside: func(proto.Message) map[string]string {
				return map[string]string{
					"signature":  "the signature itself",
					"qc.block":   "hash-bound: qc.block_hash is covered",
					"qc.results": "hash-bound: qc.results_hash is covered",
					"vdf":        "not covered - decided by the receiver differential (TestC19aReceiver)",
					"timestamp":  "not covered - decided by the receiver differential (TestC19aReceiver)",
				}
			},
		},
		{
			name: "bft.Message.SignBytes(replica)",
			gen: func(d wire.Drawer) proto.Message {
				m := new(bft.Message)
				wire.Fill(m, d, fillOpts(func(p string, fd protoreflect.FieldDescriptor, d wire.Drawer) (protoreflect.Value, bool) {
					switch p {
					case "header":
						return protoreflect.Value{}, true // a replica message has no header
					case "qc.header.phase":
						return protoreflect.ValueOfEnum(protoreflect.EnumNumber(votePhases[d.Intn(len(votePhases), "phase")])), true
					}
					return protoreflect.Value{}, false
				}))
				if m.Qc == nil {
					m.Qc = new(lib.QuorumCertificate)
				}
				if m.Qc.Header == nil {
					m.Qc.Header = &lib.View{Phase: votePhases[d.Intn(len(votePhases), "phase")]}
				}
				return m
			},
			eval: func(m proto.Message) []byte { return proto.Clone(m).(*bft.Message).SignBytes() },
			outside: func(m proto.Message) map[string]string {
				out := qcOutside(m.(*bft.Message).Qc, "qc.")
				out["qc.signature"] = "votes carry no aggregate; field unused by receivers of votes (TestC19aReceiver)"
				out["signature"] = "the signature itself"
				for _, f := range []string{"vrf", "high_qc", "last_double_sign_evidence", "vdf", "timestamp", "rcBuildHeight"} {
					out[f] = "per-replica field outside the aggregable vote payload - decided by the receiver differential (TestC19aReceiver)"
				}
				return out
			},
		},
		{
			name: "bft.Message.SignBytes(pacemaker)",
			gen: func(d wire.Drawer) proto.Message {
				m := new(bft.Message)
				wire.Fill(m, d, fillOpts(func(p string, fd protoreflect.FieldDescriptor, d wire.Drawer) (protoreflect.Value, bool) {
					switch p {
					case "header":
						return protoreflect.Value{}, true
					case "qc.header.phase":
						return protoreflect.ValueOfEnum(protoreflect.EnumNumber(lib.Phase_ROUND_INTERRUPT)), true
					}
					return protoreflect.Value{}, false
				}))
				if m.Qc == nil {
					m.Qc = new(lib.QuorumCertificate)
				}
				if m.Qc.Header == nil {
					m.Qc.Header = &lib.View{Phase: lib.Phase_ROUND_INTERRUPT}
				}
				return m
			},
			eval: func(m proto.Message) []byte { return proto.Clone(m).(*bft.Message).SignBytes() },
			outside: func(proto.Message) map[string]string {
				out := map[string]string{"signature": "the signature itself"}
				for _, f := range []string{"header", "vrf", "high_qc", "last_double_sign_evidence", "vdf", "timestamp", "rcBuildHeight", "qc.results", "qc.results_hash", "qc.block", "qc.block_hash", "qc.proposer_key", "qc.signature"} {
					out[f] = "a pacemaker message states the sender's view only; receivers read nothing else (TestC19aReceiver)"
				}
				return out
			},
		},
		{
			name: "bft.DoubleSignEvidence key (AddDSE de-duplication)",
			gen: func(d wire.Drawer) proto.Message {
				m := new(bft.DoubleSignEvidence)
				wire.Fill(m, d, fillOpts(nil))
				return m
			},
			eval: func(m proto.Message) []byte {
				e := proto.Clone(m).(*bft.DoubleSignEvidence)
				if e.VoteA != nil {
					e.VoteA.Block, e.VoteA.Results = nil, nil
				}
				if e.VoteB != nil {
					e.VoteB.Block, e.VoteB.Results = nil, nil
				}
				bz, _ := lib.Marshal(e)
				return bz
			},
			outside: func(proto.Message) map[string]string {
				r := "AddDSE nullifies block/results before keying (bloat); DoubleSignEvidence.Check rejects evidence that carries them"
				return map[string]string{"vote_a.block": r, "vote_a.results": r, "vote_b.block": r, "vote_b.results": r}
			},
		},
		{
			name: "CertificateResult.Hash",
			gen: func(d wire.Drawer) proto.Message {
				m := new(lib.CertificateResult)
				wire.Fill(m, d, fillOpts(nil))
				return m
			},
			eval:    func(m proto.Message) []byte { return proto.Clone(m).(*lib.CertificateResult).Hash() },
			outside: func(proto.Message) map[string]string { return nil },
		},
		{
			name: "BlockHeader.SetHash",
			gen: func(d wire.Drawer) proto.Message {
				m := new(lib.BlockHeader)
				wire.Fill(m, d, fillOpts(nil))
				return m
			},
			eval:    func(m proto.Message) []byte { h, _ := proto.Clone(m).(*lib.BlockHeader).SetHash(); return h },
			outside: func(proto.Message) map[string]string { return map[string]string{"hash": "the digest itself"} },
		},
		{
			name: "Block.BytesToBlockHash",
			gen: func(d wire.Drawer) proto.Message {
				m := new(lib.Block)
				wire.Fill(m, d, fillOpts(nil))
				if m.BlockHeader == nil {
					m.BlockHeader = &lib.BlockHeader{Height: 1}
				}
				return m
			},
			eval: func(m proto.Message) []byte {
				bz, _ := lib.Marshal(m)
				h, err := new(lib.Block).BytesToBlockHash(bz)
				if err != nil {
					return []byte("error:" + err.Error())
				}
				return h
			},
			outside: func(proto.Message) map[string]string {
				return map[string]string{
					"block_header.hash": "the digest itself",
					"transactions":      "hash-bound: block_header.transaction_root / num_txs are covered and recomputed by ApplyBlock",
				}
			},
		},
	}
}

func outsideReason(out map[string]string, field string) (string, bool) {
	for k, r := range out {
		if field == k || strings.HasPrefix(field, k+".") {
			return r, true
		}
	}
	return "", false
}

func wireRoundTrip(m proto.Message) (proto.Message, bool) {
	bz, err := lib.Marshal(m)
	if err != nil {
		return nil, false
	}
	out := m.ProtoReflect().New().Interface()
	if bz == nil {
		bz = []byte{}
	}
	if e := lib.Unmarshal(bz, out); e != nil {
		return nil, false
	}
	return out, true
}

func TestC19aSignBytes(t *testing.T) {
	rec := ev.New(t, "C19")
	ds := digests()
	rapid.Check(t, func(rt *rapid.T) {
		c := rec.Case()
		d := rd{rt}
		dg := ds[rapid.IntRange(0, len(ds)-1).Draw(rt, "digest")]
		m := dg.gen(d)
		c.Class("digest=" + dg.name)
		dm := dg.eval(m)
		// (i) wire stability
		if rtm, ok := wireRoundTrip(m); ok {
			if drt := dg.eval(rtm); !bytes.Equal(dm, drt) {
				rt.Fatalf("%s: digest changes when the object crosses the wire:\n object: %v\n before: %x\n after : %x", dg.name, m, dm, drt)
			}
		} else {
			c.Class("wire-rejected-by-lib.Unmarshal")
		}
		sites := wire.Sites(m)
		if rapid.Bool().Draw(rt, "top-level-first") {
			// uniformly over the top-level fields first, so that a field with one site is not drowned by big sub-messages
			var tops []string
			seen := map[string]bool{}
			for _, s := range sites {
				if !seen[s.Top()] {
					seen[s.Top()] = true
					tops = append(tops, s.Top())
				}
			}
			top := tops[rapid.IntRange(0, len(tops)-1).Draw(rt, "top")]
			var cand []wire.Site
			for _, s := range sites {
				if s.Top() == top {
					cand = append(cand, s)
				}
			}
			sites = cand
		}
		site := sites[rapid.IntRange(0, len(sites)-1).Draw(rt, "site")]
		ops := site.Ops()
		op := ops[rapid.IntRange(0, len(ops)-1).Draw(rt, "op")]
		mm, desc, ok := site.Mutate(m, op, d)
		if !ok {
			c.Class("skip:noop-mutation")
			c.Done(false)
			return
		}
		c.Desc("%s %s", dg.name, desc)
		c.Class("op=" + site.Kind + ":" + op)
		wa, _ := lib.Marshal(m)
		wb, _ := lib.Marshal(mm)
		dmm := dg.eval(mm)
		if bytes.Equal(wa, wb) {
			// (ii) same encoding = same meaning for every receiver
			c.Class("same-wire-bytes(nil-vs-empty)")
			if !bytes.Equal(dm, dmm) {
				rt.Fatalf("%s: %s does not change the encoding but changes the digest (signer and verifier would disagree)\n object: %v", dg.name, desc, m)
			}
			c.Done(false)
			return
		}
		field := site.Field()
		if reason, out := outsideReason(dg.outside(m), field); out {
			c.Class("outside:" + dg.name + ":" + site.Top())
			_ = reason
			if !bytes.Equal(dm, dmm) {
				c.Class("outside-but-digest-changed") // e.g. clearing qc changes the kind of message
			}
			c.Done(site.Top() != "signature")
			return
		}
		// (iii) injectivity on everything else
		if bytes.Equal(dm, dmm) {
			rt.Fatalf("%s: two objects that differ in %s (%s) have the SAME digest %x\n original: %v\n mutant  : %v", dg.name, field, desc, crypto.Hash(dm)[:6], m, mm)
		}
		c.Class("covered")
		c.Done(true)
	})
	var decl []string
	for _, dg := range ds {
		for k, r := range dg.outside(dg.gen(zeroDrawer{})) {
			decl = append(decl, fmt.Sprintf("%s/%s: %s", dg.name, k, r))
		}
	}
	rec.Note("declared-outside", fmt.Sprintf("%d entries", len(decl)))
}
