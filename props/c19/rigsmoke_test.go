package c19

import "testing"

func TestRigSmoke(t *testing.T) {
	res := runScenario(scenarios[4], -1, nil, nil, false)
	for _, l := range res.trace {
		t.Log(l)
	}
	t.Logf("committed=%d sent=%d", res.commits, len(res.sent))
}
