package c19

import "testing"

func TestRigSmoke(t *testing.T) {
	r := newRig(rigOpts{n: 4, height: 3, rootH: 3})
	for i := 0; i < 8; i++ {
		r.stepAll()
	}
	for _, l := range r.trace() {
		t.Log(l)
	}
	t.Logf("committed=%d sent=%d", r.committed(), len(r.sent))
}
