package c19

// blockbinding_test.go: C19(a) decision "is the block of a certificate / leader message hash-bound END TO END?".
// QuorumCertificate.CheckBasic compares the certified block hash with Block.BytesToBlockHash(block bytes), which hashes the
// RAW header bytes without the header's own hash field - it does not look at the transactions, at the hash field or at the
// outer framing. The rest is bound by what controller.ValidateProposal does next. This test runs exactly that chain with the
// REAL code on a REAL chain state: (1) BytesToBlockHash(mutant) == certified hash, (2) CheckProposalBasic (decode with
// unknown-field rejection, Block.Check = header hash field is the hash of the header, height, block.Hash() == certified
// hash), (3) replica-mode StateMachine.ApplyBlock on the proposer's pre-state, no failed transaction, recomputed header hash
// == candidate hash (ApplyAndValidateBlock). Oracle: a mutant of the block BYTES (every kind of single bit flip, byte edits,
// protobuf re-encodings of the block and of its header) that survives all three must DECODE to the very same block: replicas
// can be made to hold different bytes under one certificate, never a different block.

import (
	"bytes"
	"fmt"
	"testing"

	"github.com/canopy-network/canopy/lib"
	"google.golang.org/protobuf/encoding/protowire"
	"google.golang.org/protobuf/proto"
	"pgregory.net/rapid"

	"verif/h/ev"
	"verif/h/wire"
)

func blockSchema() *wire.Schema {
	hdr := &wire.Schema{Name: "BlockHeader", Fields: map[protowire.Number]wire.FieldSpec{}}
	for _, n := range []protowire.Number{1, 3, 4, 5, 6, 7} {
		hdr.Fields[n] = wire.FieldSpec{Kind: wire.KVarint, Name: fmt.Sprintf("h%d", n)}
	}
	for _, n := range []protowire.Number{2, 8, 9, 10, 11, 12, 13, 14, 15} {
		hdr.Fields[n] = wire.FieldSpec{Kind: wire.KBytes, Name: fmt.Sprintf("h%d", n)}
	}
	return &wire.Schema{Name: "Block", Fields: map[protowire.Number]wire.FieldSpec{
		1: {Kind: wire.KMessage, Name: "block_header", Sub: hdr},
		2: {Kind: wire.KBytes, Name: "transactions", Repeated: true},
	}}
}

// validateLikeAReplica runs the production chain of checks on block bytes carried by a certificate whose block hash is
// `certified`; it returns the stage that rejected ("" = accepted) and the decoded block.
func (w *world) validateLikeAReplica(raw, certified []byte) (stage string, blk *lib.Block, panicked string) {
	var h []byte
	var e lib.ErrorI
	if p := guard(func() { h, e = new(lib.Block).BytesToBlockHash(raw) }); p != "" {
		return "blockhash", nil, p
	}
	if e != nil || !bytes.Equal(h, certified) {
		return "1:CheckBasic(block hash)", nil, ""
	}
	qc := &lib.QuorumCertificate{Header: &lib.View{Height: w.c.Height()}, Block: raw, BlockHash: certified, Results: &lib.CertificateResult{}}
	if p := guard(func() { blk, e = qc.CheckProposalBasic(w.c.Height(), w.c.Cfg.NetworkID, w.c.Cfg.ChainId) }); p != "" {
		return "checkproposalbasic", nil, p
	}
	if e != nil {
		return "2:CheckProposalBasic", nil, ""
	}
	var hdr *lib.BlockHeader
	var res *lib.ApplyBlockResults
	if p := guard(func() { hdr, res, e = w.c.Validate(blk) }); p != "" {
		return "applyblock", nil, p
	}
	if e != nil || len(res.Failed) != 0 {
		return "3:ApplyBlock(replica mode)", nil, ""
	}
	got, e := hdr.SetHash()
	if e != nil || !bytes.Equal(got, blk.BlockHeader.Hash) {
		return "3:recomputed header hash", nil, ""
	}
	return "", blk, ""
}

func TestC19aBlockBinding(t *testing.T) {
	rec := ev.New(t, "C19")
	w, err := getWorld()
	if err != nil {
		t.Fatalf("harness: %v", err)
	}
	certified := w.blockObj.BlockHeader.Hash
	if st, _, p := w.validateLikeAReplica(w.block, certified); st != "" || p != "" {
		t.Fatalf("harness: the unmodified block is rejected at %q %s", st, p)
	}
	variants, err := wire.Reencodings(w.block, blockSchema(), 1)
	if err != nil {
		t.Fatalf("harness: %v", err)
	}
	// hand-made re-encodings aimed at what BytesToBlockHash ignores: a second (empty) header occurrence, a duplicated hash field
	fs, _ := wire.Parse(w.block)
	extra := append(append([]wire.Field{}, fs...), wire.Field{Num: 1, Typ: protowire.BytesType, B: []byte{}})
	variants = append(variants, wire.Variant{Trick: "second-empty-header-occurrence", Class: "split", Bytes: wire.Encode(extra), Equivalent: true})
	hf, _ := wire.Parse(fs[0].B)
	dup := append([]wire.Field{{Num: 2, Typ: protowire.BytesType, B: bytes.Repeat([]byte{0xEE}, 32)}}, hf...)
	fs2 := append([]wire.Field{}, fs...)
	fs2[0].B = wire.Encode(dup)
	variants = append(variants, wire.Variant{Trick: "garbage-hash-field-shadowed-by-the-real-one", Class: "shadow", Bytes: wire.Encode(fs2), Equivalent: true})
	rec.Note("block", fmt.Sprintf("%d bytes, header %d bytes, %d transactions, %d re-encodings", len(w.block), len(fs[0].B), len(w.blockObj.Transactions), len(variants)))
	rapid.Check(t, func(rt *rapid.T) {
		c := rec.Case()
		d := rd{rt}
		var raw []byte
		var desc string
		switch rapid.IntRange(0, 3).Draw(rt, "mutation") {
		case 0, 1:
			raw = append([]byte(nil), w.block...)
			i := rapid.IntRange(0, len(raw)-1).Draw(rt, "byte")
			bit := rapid.IntRange(0, 7).Draw(rt, "bit")
			raw[i] ^= 1 << uint(bit)
			region := "transactions/framing"
			hashAt := bytes.Index(w.block, certified)
			switch {
			case i >= hashAt && i < hashAt+32:
				region = "header.hash-field"
			case i < 3+len(fs[0].B):
				region = "header"
			}
			desc = fmt.Sprintf("flip byte %d bit %d (%s)", i, bit, region)
			c.Class("flip:" + region)
		case 2:
			raw, desc = rawEdit(w.block, d)
			c.Class("raw-edit")
		default:
			v := variants[rapid.IntRange(0, len(variants)-1).Draw(rt, "variant")]
			raw, desc = v.Bytes, "re-encoding "+v.Trick
			c.Class("re-encoding:" + v.Class)
		}
		c.Desc("%s", desc)
		if bytes.Equal(raw, w.block) {
			c.Done(false)
			return
		}
		stage, blk, p := w.validateLikeAReplica(raw, certified)
		if p != "" {
			rt.Fatalf("block bytes with %s panic the validation chain at %s (input %s)\n%s", desc, stage, saveInput(rec, "blockbinding-panic", raw), p)
		}
		if stage != "" {
			c.Class("rejected-at-" + stage)
			c.Done(true)
			return
		}
		if !proto.Equal(blk, w.blockObj) {
			rt.Fatalf("block bytes with %s pass CheckBasic's block-hash comparison, CheckProposalBasic AND replica-mode ApplyBlock with an equal header hash, but decode to a DIFFERENT block than the certified one (input %s):\n certified: %v\n accepted : %v",
				desc, saveInput(rec, "blockbinding", raw), w.blockObj, blk)
		}
		c.Class("accepted:different-bytes-same-block")
		c.Done(true)
	})
	if got := w.digest(); got != w.baseDig {
		t.Fatalf("the committed state changed")
	}
}
