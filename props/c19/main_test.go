// Package c19 decides property C19: unambiguous signed digests and store keys; untrusted bytes never crash a node.
package c19

import (
	"os"
	"testing"
)

// TestMain releases the shared fixtures (stores and temp directories) of the package.
func TestMain(m *testing.M) {
	code := m.Run()
	if certBase != nil {
		certBase.Close()
	}
	if theWorld != nil && theWorld.c != nil {
		theWorld.c.Close()
	}
	os.Exit(code)
}
