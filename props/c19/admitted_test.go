package c19

// admitted_test.go: the domains of key components are DERIVED from the real stateless checks, not restated: a candidate
// value reaches a key builder only if a message that carries it passes the production Check() / CheckBasic().

import (
	"bytes"
	"fmt"
	"sort"
	"sync"
	"testing"

	"github.com/canopy-network/canopy/fsm"
	"github.com/canopy-network/canopy/lib"
	"github.com/canopy-network/canopy/lib/crypto"

	"verif/h/ev"
	"verif/h/wire"
)

const kfSubsidyChain = "KF-C19-subsidy-chainid-unchecked"

// pool kinds: how production derives a pool id from a chain id (fsm/message.go, dex.go, swap.go, committee.go)
type poolKind struct {
	name   string
	addend uint64
}

func poolKinds() []poolKind {
	return []poolKind{{"committee(reward/subsidy)", 0}, {"dex-holding", fsm.HoldingPoolAddend}, {"dex-liquidity", fsm.LiquidityPoolAddend}, {"swap-escrow", fsm.EscrowPoolAddend}}
}

// chainProbe is a message that names a chain id, otherwise valid, and the pool kinds its handler touches for that chain.
type chainProbe struct {
	name  string
	kinds []int // indexes into poolKinds()
	check func(id uint64) lib.ErrorI
}

func chainProbes() []chainProbe {
	a20 := bytes.Repeat([]byte{7}, 20)
	pk := bytes.Repeat([]byte{9}, 48)
	certFor := func(id uint64) lib.ErrorI {
		res := &lib.CertificateResult{RewardRecipients: &lib.RewardRecipients{PaymentPercents: []*lib.PaymentPercents{{Address: a20, Percent: 1, ChainId: id}}}, SlashRecipients: &lib.SlashRecipients{}}
		qc := &lib.QuorumCertificate{Header: &lib.View{NetworkId: 1, ChainId: id, Height: 1, Phase: lib.Phase_PRECOMMIT_VOTE}, Results: res, ResultsHash: res.Hash(), BlockHash: crypto.Hash([]byte("b")), ProposerKey: pk,
			Signature: &lib.AggregateSignature{Signature: bytes.Repeat([]byte{1}, 96), Bitmap: []byte{1}}}
		return (&fsm.MessageCertificateResults{Qc: qc}).Check()
	}
	return []chainProbe{
		{"stake", []int{0}, func(id uint64) lib.ErrorI {
			return (&fsm.MessageStake{PublicKey: pk, Amount: 1, Committees: []uint64{id}, NetAddress: "tcp://a", OutputAddress: a20}).Check()
		}},
		{"editStake", []int{0}, func(id uint64) lib.ErrorI {
			return (&fsm.MessageEditStake{Address: a20, Amount: 1, Committees: []uint64{id}, NetAddress: "tcp://a", OutputAddress: a20}).Check()
		}},
		{"subsidy", []int{0}, func(id uint64) lib.ErrorI { return (&fsm.MessageSubsidy{Address: a20, ChainId: id, Amount: 1}).Check() }},
		{"certificateResults", []int{0, 1, 2, 3}, certFor},
		{"createOrder", []int{3}, func(id uint64) lib.ErrorI {
			return (&fsm.MessageCreateOrder{ChainId: id, AmountForSale: 1, RequestedAmount: 1, SellerReceiveAddress: a20, SellersSendAddress: a20}).Check()
		}},
		{"editOrder", []int{3}, func(id uint64) lib.ErrorI {
			return (&fsm.MessageEditOrder{OrderId: a20, ChainId: id, AmountForSale: 1, RequestedAmount: 1, SellerReceiveAddress: a20}).Check()
		}},
		{"deleteOrder", []int{3}, func(id uint64) lib.ErrorI { return (&fsm.MessageDeleteOrder{OrderId: a20, ChainId: id}).Check() }},
		{"dexLimitOrder", []int{1}, func(id uint64) lib.ErrorI {
			return (&fsm.MessageDexLimitOrder{ChainId: id, AmountForSale: 1, RequestedAmount: 1, Address: a20}).Check()
		}},
		{"dexLiquidityDeposit", []int{1, 2}, func(id uint64) lib.ErrorI {
			return (&fsm.MessageDexLiquidityDeposit{ChainId: id, Amount: 1, Address: a20}).Check()
		}},
		{"dexLiquidityWithdraw", []int{2}, func(id uint64) lib.ErrorI {
			return (&fsm.MessageDexLiquidityWithdraw{ChainId: id, Percent: 1, Address: a20}).Check()
		}},
	}
}

// chainCandidates: small ids, hostile numbers and every boundary of the pool-id arithmetic (each addend, the maximum
// chain id and the DAO pool id, -2..+2, and their pairwise differences).
func chainCandidates() []uint64 {
	set := map[uint64]bool{}
	add := func(v uint64) {
		for d := uint64(0); d <= 2; d++ {
			set[v+d], set[v-d] = true, true
		}
	}
	marks := []uint64{0, fsm.MaxChainId, fsm.HoldingPoolAddend, fsm.LiquidityPoolAddend, fsm.Unused1PoolAddend, fsm.EscrowPoolAddend, fsm.Unused2PoolAddend, fsm.Unused3PoolAddend, fsm.Unused4PoolAddend, lib.DAOPoolID}
	for _, m := range marks {
		add(m)
		for _, n := range marks {
			if m > n {
				add(m - n)
			}
		}
	}
	for _, v := range wire.HostileUints {
		set[v] = true
	}
	for v := uint64(1); v <= 12; v++ {
		set[v] = true
	}
	out := make([]uint64, 0, len(set))
	for v := range set {
		out = append(out, v)
	}
	sort.Slice(out, func(i, j int) bool { return out[i] < out[j] })
	return out
}

type admitted struct {
	chainByProbe map[string][]uint64 // probe -> admitted candidate chain ids
	addrLens     []int               // lengths checkAddress-style fields admit (probe: MessageSend.FromAddress / ToAddress)
	orderIDLens  []int               // lengths of an order id that reach KeyForOrder (edit / delete order, certificate results)
}

var (
	admOnce sync.Once
	adm     *admitted
)

// admittedDomains runs the probes once.
func admittedDomains() *admitted {
	admOnce.Do(func() {
		a := &admitted{chainByProbe: map[string][]uint64{}}
		for _, p := range chainProbes() {
			for _, id := range chainCandidates() {
				if p.check(id) == nil {
					a.chainByProbe[p.name] = append(a.chainByProbe[p.name], id)
				}
			}
		}
		a20 := bytes.Repeat([]byte{7}, 20)
		lens := []int{0, 1, 8, 19, 20, 21, 32, 33, 48, 64, 254, 255, 256, 257, 300, 511, 512}
		for _, n := range lens {
			x := wire.Bytes(n, 0x5A)
			if n == 0 {
				x = nil
			}
			if (&fsm.MessageSend{FromAddress: x, ToAddress: a20, Amount: 1}).Check() == nil && (&fsm.MessageSend{FromAddress: a20, ToAddress: x, Amount: 1}).Check() == nil &&
				(&fsm.MessageUnstake{Address: x}).Check() == nil {
				a.addrLens = append(a.addrLens, n)
			}
			okDelete := (&fsm.MessageDeleteOrder{OrderId: x, ChainId: 1}).Check() == nil
			okEdit := (&fsm.MessageEditOrder{OrderId: x, ChainId: 1, AmountForSale: 1, RequestedAmount: 1, SellerReceiveAddress: a20}).Check() == nil
			res := &lib.CertificateResult{RewardRecipients: &lib.RewardRecipients{PaymentPercents: []*lib.PaymentPercents{{Address: a20, Percent: 1, ChainId: 1}}}, SlashRecipients: &lib.SlashRecipients{},
				Orders: &lib.Orders{ResetOrders: [][]byte{x}, CloseOrders: [][]byte{x}, LockOrders: []*lib.LockOrder{{OrderId: x, ChainId: 1, BuyerReceiveAddress: a20, BuyerSendAddress: a20, BuyerChainDeadline: 1}}}}
			okCert := res.CheckBasic() == nil
			if okDelete || okEdit || okCert {
				a.orderIDLens = append(a.orderIDLens, n)
			}
		}
		adm = a
	})
	return adm
}

type poolTuple struct {
	kind  int // -1 = DAO pool
	chain uint64
	via   string
}

func (p poolTuple) id() uint64 {
	if p.kind < 0 {
		return lib.DAOPoolID
	}
	return p.chain + poolKinds()[p.kind].addend
}

func (p poolTuple) String() string {
	if p.kind < 0 {
		return "DAO pool"
	}
	return fmt.Sprintf("%s pool of chain %d (admitted by %s.Check)", poolKinds()[p.kind].name, p.chain, p.via)
}

// TestC19bPoolIds: every (pool kind, chain id) pair that a message passing the real stateless checks can make the state
// machine address, plus the DAO pool, must map to its own pool key: KeyForPool(chain + addend) is injective on them.
func TestC19bPoolIds(t *testing.T) {
	rec := ev.New(t, "C19")
	a := admittedDomains()
	for _, p := range chainProbes() {
		ok := false
		for _, id := range a.chainByProbe[p.name] {
			if id == 2 {
				ok = true
			}
		}
		if !ok {
			t.Fatalf("harness: probe %s does not admit chain id 2: %v", p.name, p.check(2))
		}
		ids := a.chainByProbe[p.name]
		rec.Note("admitted-chain-ids:"+p.name, fmt.Sprintf("%d of %d candidates, min %d max %d", len(ids), len(chainCandidates()), ids[0], ids[len(ids)-1]))
	}
	rec.Note("admitted-address-lengths", fmt.Sprint(a.addrLens))
	rec.Note("admitted-order-id-lengths", fmt.Sprint(a.orderIDLens))
	byKey := map[string]poolTuple{}
	tuples := []poolTuple{{kind: -1}}
	seen := map[[2]uint64]bool{}
	stakeAdmits := map[uint64]bool{}
	for _, id := range a.chainByProbe["stake"] {
		stakeAdmits[id] = true
	}
	for _, p := range chainProbes() {
		for _, id := range a.chainByProbe[p.name] {
			if p.name == "subsidy" && !stakeAdmits[id] && openFinding(kfSubsidyChain) {
				// open finding: MessageSubsidy.Check does not check the chain id at all
				rec.Exclude(kfSubsidyChain)
				continue
			}
			for _, k := range p.kinds {
				if !seen[[2]uint64{uint64(k), id}] {
					seen[[2]uint64{uint64(k), id}] = true
					tuples = append(tuples, poolTuple{kind: k, chain: id, via: p.name})
				}
			}
		}
	}
	for _, tp := range tuples {
		c := rec.Case()
		c.Desc("%v", tp)
		if tp.kind >= 0 {
			c.Class("pool-kind=" + poolKinds()[tp.kind].name)
		}
		key := fsm.KeyForPool(tp.id())
		if prev, dup := byKey[string(key)]; dup {
			t.Fatalf("two different pools share the store key %x (pool id %d):\n  %v\n  %v", key, tp.id(), prev, tp)
		}
		byKey[string(key)] = tp
		// the id must survive the round trip through the key
		if got, e := fsm.IdFromKey(key); e != nil || got != tp.id() {
			t.Fatalf("IdFromKey(KeyForPool(%d)) = %d, %v", tp.id(), got, e)
		}
		c.Done(true)
	}
	rec.Note("pool-tuples", fmt.Sprintf("%d", len(tuples)))
}
