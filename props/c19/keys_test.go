package c19

// keys_test.go: C19(b) injectivity and prefix discipline of the composite store keys.
//
// Every exported key builder of fsm/key.go, every key builder of store/indexer.go (through the verif hooks) and the two
// record families that share the store prefix "x/" (state-commitment tree nodes, commit-id records) are called with
// component tuples restricted to what their callers admit - the admitted lengths are DERIVED by probing the real Check()
// functions (admitted_test.go; today: addresses exactly 20 bytes - checkAddress / public-key derived; chain ids, heights, stakes: any uint64; order ids: nil or 1..255 bytes - checkOrderId after a133151; hashes: 32
// bytes; heightAndIndex keys: output of the height-and-index builder). Component VALUES are hostile: 0x00 / 0xFF runs,
// embedded length bytes (0x08, 0x14), bytes that spell the tail of another builder's key, numbers around 2^8k.
// Oracles, per pair of (builder, tuple):
//   1. injectivity        distinct tuples of one builder => distinct keys
//   2. no cross collision keys of different builders in the same key space differ (except declared aliases)
//   3. prefix ranges      a key lies inside the iteration range [P, prefixEnd(P)] of a PREFIX builder's output only if it is
//                         that prefix's child by construction (declared parent with the same parent components)
//   4. prefix-free records in key spaces iterated with version seeking (state, tree) no record key is a proper byte prefix of
//                         another record key (the versioned iterator skips over everything that extends the current key)
//   5. codec              lib.DecodeLengthPrefixed(key) returns exactly the segments the builder joined

import (
	"bytes"
	"encoding/binary"
	"fmt"
	"strings"
	"testing"

	"github.com/canopy-network/canopy/fsm"
	"github.com/canopy-network/canopy/lib"
	"github.com/canopy-network/canopy/lib/crypto"
	"github.com/canopy-network/canopy/store"
	"pgregory.net/rapid"

	"verif/h/ev"
	sm "verif/h/storemodel"
	"verif/h/wire"
)

// tuple = the components a builder was called with.
type tuple struct {
	u []uint64
	b [][]byte
}

func (t tuple) String() string {
	var p []string
	for _, u := range t.u {
		p = append(p, fmt.Sprintf("%d", u))
	}
	for _, b := range t.b {
		if b == nil {
			p = append(p, "nil")
		} else {
			p = append(p, fmt.Sprintf("%x", b))
		}
	}
	return "(" + strings.Join(p, ",") + ")"
}

func (t tuple) equal(o tuple) bool {
	if len(t.u) != len(o.u) || len(t.b) != len(o.b) {
		return false
	}
	for i := range t.u {
		if t.u[i] != o.u[i] {
			return false
		}
	}
	for i := range t.b {
		if !bytes.Equal(t.b[i], o.b[i]) || (t.b[i] == nil) != (o.b[i] == nil) {
			return false
		}
	}
	return true
}

type parentRef struct {
	name string
	of   func(tuple) tuple // the parent's tuple, derived from the child's
}

type keyBuilder struct {
	name    string
	space   string // "state", "indexer", "tree"
	record  bool   // a record is stored under exactly this key
	prefix  bool   // the output is used as an iteration prefix
	gen     func(g *keyGen) tuple
	key     func(tuple) []byte
	segs    func(tuple) [][]byte // the segments joined (nil = not a JoinLenPrefix stream check)
	parents []parentRef
	alias   string // name of a builder that deliberately produces the same keys
}

func be(u uint64) []byte {
	b := make([]byte, 8)
	binary.BigEndian.PutUint64(b, u)
	return b
}

// keyGen draws hostile component values.
type keyGen struct{ t *rapid.T }

func (g *keyGen) n(k int, l string) int { return rapid.IntRange(0, k-1).Draw(g.t, l) }

func (g *keyGen) u64() uint64 {
	switch g.n(4, "u-mode") {
	case 0:
		return wire.HostileUints[g.n(len(wire.HostileUints), "hu")]
	case 1:
		return uint64(g.n(4, "small"))
	case 2:
		// numbers whose big-endian form contains length-like bytes (0x08, 0x14) or 0xFF runs
		pat := []uint64{0x0808080808080808, 0x1414141414141414, 0x0100000000000000, 0x00000000000000FF, 0xFFFFFFFFFFFFFF00, 0x0800000000000000, 0x0000000000000008, 0x0000000000000014}
		return pat[g.n(len(pat), "pat")]
	default:
		return uint64(1) << uint(g.n(64, "bit"))
	}
}

// addr draws an address of a length the REAL stateless checks admit (admittedDomains: MessageSend / MessageUnstake probes).
func (g *keyGen) addr() []byte {
	lens := admittedDomains().addrLens
	n := lens[g.n(len(lens), "a-len")]
	switch g.n(5, "a-mode") {
	case 0:
		return wire.Bytes(n, wire.HostileFills[g.n(len(wire.HostileFills), "fill")])
	case 1:
		return wire.Bytes(n, []byte{0x08, 0x14, 0x01, 0x02}[g.n(4, "lenbyte")])
	case 2:
		// an address that spells the tail of a committee key: [8]<stake>[..]
		a := append(append([]byte{8}, be(g.u64())...), wire.Bytes(n, 0x14)...)
		return a[:n]
	case 3:
		a := wire.Bytes(n, 0)
		if n > 0 {
			a[g.n(n, "pos")] = byte(g.n(256, "val"))
		}
		return a
	default:
		h := crypto.Hash([]byte{byte(g.n(4, "rnd"))})
		out := make([]byte, n)
		for i := range out {
			out[i] = h[i%32]
		}
		return out
	}
}

func (g *keyGen) hash32() []byte {
	switch g.n(3, "h-mode") {
	case 0:
		return wire.Bytes(32, wire.HostileFills[g.n(len(wire.HostileFills), "fill")])
	case 1:
		return wire.Bytes(32, 0x08)
	default:
		return crypto.Hash([]byte{byte(g.n(4, "rnd"))})
	}
}

func (g *keyGen) orderID() []byte {
	// lengths the REAL checks admit for an order id (edit / delete order, certificate results: admittedDomains)
	lens := admittedDomains().orderIDLens
	n := lens[g.n(len(lens), "olen")]
	if n == 0 {
		return nil // an empty order id arrives as nil (proto3)
	}
	switch g.n(4, "o-mode") {
	case 0:
		return wire.Bytes(n, wire.HostileFills[g.n(len(wire.HostileFills), "fill")])
	case 1:
		// starts like a nested length-prefixed stream
		b := wire.Bytes(n, 0x14)
		b[0] = byte(n - 1)
		return b
	case 2:
		b := wire.Bytes(n, 0)
		b[n-1] = byte(g.n(256, "last"))
		return b
	default:
		h := crypto.Hash([]byte{byte(g.n(4, "rnd"))})
		out := make([]byte, n)
		for i := range out {
			out[i] = h[i%32]
		}
		return out
	}
}

func (g *keyGen) bits() sm.Bits {
	lens := []int{1, 2, 3, 7, 8, 9, 15, 16, 17, 48, 49, 56, 57, 152, 153, 159, 160}
	n := lens[g.n(len(lens), "bitlen")]
	b := make(sm.Bits, n)
	mode := g.n(4, "bitmode")
	for i := range b {
		switch mode {
		case 0:
			b[i] = 0
		case 1:
			b[i] = 1
		case 2:
			// ASCII digits as bit pattern: 0x30..0x39
			d := byte(0x30 + (i/8)%10)
			b[i] = (d >> (7 - uint(i%8))) & 1
		default:
			b[i] = byte(g.n(2, "bit"))
		}
	}
	return b
}

func tU(u ...uint64) tuple { return tuple{u: u} }

func keyBuilders() []keyBuilder {
	ix := store.VerifNewIndexerKeys()
	one := func(b byte) []byte { return []byte{b} }
	a20 := func(t tuple) crypto.AddressI { return crypto.NewAddress(t.b[0]) }
	none := func(*keyGen) tuple { return tuple{} }
	constant := func(name string, f func() []byte, p byte, record bool) keyBuilder {
		return keyBuilder{name: name, space: "state", prefix: true, record: record, gen: none, key: func(tuple) []byte { return f() },
			segs: func(tuple) [][]byte { return [][]byte{one(p)} }}
	}
	uPrefix := func(name string, f func(uint64) []byte, p byte, record, prefix bool, parents ...parentRef) keyBuilder {
		return keyBuilder{name: name, space: "state", prefix: prefix, record: record, gen: func(g *keyGen) tuple { return tU(g.u64()) },
			key: func(t tuple) []byte { return f(t.u[0]) }, segs: func(t tuple) [][]byte { return [][]byte{one(p), be(t.u[0])} }, parents: parents}
	}
	noArgs := func(tuple) tuple { return tuple{} }
	firstU := func(t tuple) tuple { return tU(t.u[0]) }
	hik := func(g *keyGen, f func(h, i uint64) []byte) []byte { return f(g.u64(), g.u64()) }
	out := []keyBuilder{
		// ---- fsm/key.go ------------------------------------------------------------------------------------------
		constant("AccountPrefix", fsm.AccountPrefix, 1, false),
		constant("PoolPrefix", fsm.PoolPrefix, 2, false),
		constant("SupplyPrefix", fsm.SupplyPrefix, 10, true),
		constant("ValidatorPrefix", fsm.ValidatorPrefix, 3, false),
		constant("NonSignerPrefix", fsm.NonSignerPrefix, 8, false),
		constant("LastProposersPrefix", fsm.LastProposersPrefix, 9, true),
		constant("CommitteesDataPrefix", fsm.CommitteesDataPrefix, 12, true),
		constant("RetiredCommitteesPrefix", fsm.RetiredCommitteesPrefix, 14, false),
		uPrefix("UnstakingPrefix", fsm.UnstakingPrefix, 5, false, true),
		uPrefix("PausedPrefix", fsm.PausedPrefix, 6, false, true),
		uPrefix("CommitteePrefix", fsm.CommitteePrefix, 4, false, true),
		uPrefix("DelegatePrefix", fsm.DelegatePrefix, 11, false, true),
		uPrefix("OrderBookPrefix", fsm.OrderBookPrefix, 13, false, true),
		uPrefix("KeyForPool", fsm.KeyForPool, 2, true, false, parentRef{"PoolPrefix", noArgs}),
		uPrefix("KeyForRetiredCommittee", fsm.KeyForRetiredCommittee, 14, true, false, parentRef{"RetiredCommitteesPrefix", noArgs}),
		{name: "KeyForLockedBatch", space: "state", record: true, gen: func(g *keyGen) tuple { return tU(g.u64()) }, key: func(t tuple) []byte { return fsm.KeyForLockedBatch(t.u[0]) },
			segs: func(t tuple) [][]byte { return [][]byte{one(15), one(1), be(t.u[0])} }},
		{name: "KeyForNextBatch", space: "state", record: true, gen: func(g *keyGen) tuple { return tU(g.u64()) }, key: func(t tuple) []byte { return fsm.KeyForNextBatch(t.u[0]) },
			segs: func(t tuple) [][]byte { return [][]byte{one(15), one(2), be(t.u[0])} }},
		{name: "KeyForNonSigner", space: "state", record: true, gen: func(g *keyGen) tuple { return tuple{b: [][]byte{g.addr()}} }, key: func(t tuple) []byte { return fsm.KeyForNonSigner(t.b[0]) },
			segs: func(t tuple) [][]byte { return [][]byte{one(8), t.b[0]} }, parents: []parentRef{{"NonSignerPrefix", noArgs}}},
		{name: "KeyForAccount", space: "state", record: true, gen: func(g *keyGen) tuple { return tuple{b: [][]byte{g.addr()}} }, key: func(t tuple) []byte { return fsm.KeyForAccount(a20(t)) },
			segs: func(t tuple) [][]byte { return [][]byte{one(1), t.b[0]} }, parents: []parentRef{{"AccountPrefix", noArgs}}},
		{name: "KeyForValidator", space: "state", record: true, gen: func(g *keyGen) tuple { return tuple{b: [][]byte{g.addr()}} }, key: func(t tuple) []byte { return fsm.KeyForValidator(a20(t)) },
			segs: func(t tuple) [][]byte { return [][]byte{one(3), t.b[0]} }, parents: []parentRef{{"ValidatorPrefix", noArgs}}},
		{name: "KeyForOrder", space: "state", record: true, gen: func(g *keyGen) tuple { return tuple{u: []uint64{g.u64()}, b: [][]byte{g.orderID()}} },
			key: func(t tuple) []byte { return fsm.KeyForOrder(t.u[0], t.b[0]) },
			segs: func(t tuple) [][]byte {
				if t.b[0] == nil {
					return [][]byte{one(13), be(t.u[0])}
				}
				return [][]byte{one(13), be(t.u[0]), t.b[0]}
			}, parents: []parentRef{{"OrderBookPrefix", firstU}}},
		{name: "KeyForUnstaking", space: "state", record: true, gen: func(g *keyGen) tuple { return tuple{u: []uint64{g.u64()}, b: [][]byte{g.addr()}} },
			key:  func(t tuple) []byte { return fsm.KeyForUnstaking(t.u[0], a20(t)) },
			segs: func(t tuple) [][]byte { return [][]byte{one(5), be(t.u[0]), t.b[0]} }, parents: []parentRef{{"UnstakingPrefix", firstU}}},
		{name: "KeyForPaused", space: "state", record: true, gen: func(g *keyGen) tuple { return tuple{u: []uint64{g.u64()}, b: [][]byte{g.addr()}} },
			key:  func(t tuple) []byte { return fsm.KeyForPaused(t.u[0], a20(t)) },
			segs: func(t tuple) [][]byte { return [][]byte{one(6), be(t.u[0]), t.b[0]} }, parents: []parentRef{{"PausedPrefix", firstU}}},
		{name: "KeyForCommittee", space: "state", record: true, gen: func(g *keyGen) tuple { return tuple{u: []uint64{g.u64(), g.u64()}, b: [][]byte{g.addr()}} },
			key:  func(t tuple) []byte { return fsm.KeyForCommittee(t.u[0], a20(t), t.u[1]) },
			segs: func(t tuple) [][]byte { return [][]byte{one(4), be(t.u[0]), be(t.u[1]), t.b[0]} }, parents: []parentRef{{"CommitteePrefix", firstU}}},
		{name: "KeyForDelegate", space: "state", record: true, gen: func(g *keyGen) tuple { return tuple{u: []uint64{g.u64(), g.u64()}, b: [][]byte{g.addr()}} },
			key:  func(t tuple) []byte { return fsm.KeyForDelegate(t.u[0], a20(t), t.u[1]) },
			segs: func(t tuple) [][]byte { return [][]byte{one(11), be(t.u[0]), be(t.u[1]), t.b[0]} }, parents: []parentRef{{"DelegatePrefix", firstU}}},
		{name: "KeyForParams", space: "state", record: true, gen: func(g *keyGen) tuple { return tU(uint64(g.n(4, "space"))) },
			key: func(t tuple) []byte {
				return fsm.KeyForParams([]string{fsm.ParamSpaceCons, fsm.ParamSpaceVal, fsm.ParamSpaceFee, fsm.ParamSpaceGov}[t.u[0]])
			},
			segs: func(t tuple) [][]byte {
				return [][]byte{one(7), []byte([]string{fsm.ParamPrefixCons, fsm.ParamPrefixVal, fsm.ParamPrefixFee, fsm.ParamPrefixGov}[t.u[0]])}
			}},
		// ---- store/indexer.go -------------------------------------------------------------------------------------
		{name: "txHashKey", space: "indexer", record: true, gen: func(g *keyGen) tuple { return tuple{b: [][]byte{g.hash32()}} }, key: func(t tuple) []byte { return ix.TxHashKey(t.b[0]) },
			segs: func(t tuple) [][]byte { return [][]byte{one(1), t.b[0]} }},
		{name: "txHeightKey", space: "indexer", prefix: true, gen: func(g *keyGen) tuple { return tU(g.u64()) }, key: func(t tuple) []byte { return ix.TxHeightKey(t.u[0]) },
			segs: func(t tuple) [][]byte { return [][]byte{one(2), be(t.u[0])} }},
		{name: "txHeightAndIndexKey", space: "indexer", record: true, gen: func(g *keyGen) tuple { return tU(g.u64(), g.u64()) }, key: func(t tuple) []byte { return ix.TxHeightAndIndexKey(t.u[0], t.u[1]) },
			segs: func(t tuple) [][]byte { return [][]byte{one(2), be(t.u[0]), be(t.u[1])} }, parents: []parentRef{{"txHeightKey", firstU}}},
		{name: "txSenderPrefix", space: "indexer", prefix: true, gen: func(g *keyGen) tuple { return tuple{b: [][]byte{g.addr()}} }, key: func(t tuple) []byte { return ix.TxSenderKey(t.b[0], nil) },
			segs: func(t tuple) [][]byte { return [][]byte{one(3), t.b[0]} }},
		{name: "txSenderKey", space: "indexer", record: true, gen: func(g *keyGen) tuple { return tuple{b: [][]byte{g.addr(), hik(g, ix.TxHeightAndIndexKey)}} },
			key:  func(t tuple) []byte { return ix.TxSenderKey(t.b[0], t.b[1]) },
			segs: func(t tuple) [][]byte { return [][]byte{one(3), t.b[0], t.b[1]} }, parents: []parentRef{{"txSenderPrefix", func(t tuple) tuple { return tuple{b: [][]byte{t.b[0]}} }}}},
		{name: "txRecipientPrefix", space: "indexer", prefix: true, gen: func(g *keyGen) tuple { return tuple{b: [][]byte{g.addr()}} }, key: func(t tuple) []byte { return ix.TxRecipientKey(t.b[0], nil) },
			segs: func(t tuple) [][]byte { return [][]byte{one(4), t.b[0]} }},
		{name: "txRecipientKey", space: "indexer", record: true, gen: func(g *keyGen) tuple { return tuple{b: [][]byte{g.addr(), hik(g, ix.TxHeightAndIndexKey)}} },
			key:  func(t tuple) []byte { return ix.TxRecipientKey(t.b[0], t.b[1]) },
			segs: func(t tuple) [][]byte { return [][]byte{one(4), t.b[0], t.b[1]} }, parents: []parentRef{{"txRecipientPrefix", func(t tuple) tuple { return tuple{b: [][]byte{t.b[0]}} }}}},
		{name: "blockHashKey", space: "indexer", record: true, gen: func(g *keyGen) tuple { return tuple{b: [][]byte{g.hash32()}} }, key: func(t tuple) []byte { return ix.BlockHashKey(t.b[0]) },
			segs: func(t tuple) [][]byte { return [][]byte{one(5), t.b[0]} }},
		{name: "blockHeightPrefix", space: "indexer", prefix: true, gen: none, key: func(tuple) []byte { return ix.BlockHeightPrefix() }, segs: func(tuple) [][]byte { return [][]byte{one(6)} }},
		{name: "blockHeightKey", space: "indexer", record: true, gen: func(g *keyGen) tuple { return tU(g.u64()) }, key: func(t tuple) []byte { return ix.BlockHeightKey(t.u[0]) },
			segs: func(t tuple) [][]byte { return [][]byte{one(6), be(t.u[0])} }, parents: []parentRef{{"blockHeightPrefix", noArgs}}},
		{name: "qcHeightKey", space: "indexer", record: true, gen: func(g *keyGen) tuple { return tU(g.u64()) }, key: func(t tuple) []byte { return ix.QCHeightKey(t.u[0]) },
			segs: func(t tuple) [][]byte { return [][]byte{one(7), be(t.u[0])} }},
		{name: "doubleSignerPrefix", space: "indexer", prefix: true, gen: none, key: func(tuple) []byte { return ix.DoubleSignerPrefix() }, segs: func(tuple) [][]byte { return [][]byte{one(8)} }},
		{name: "doubleSignerHeightKey", space: "indexer", record: true, gen: func(g *keyGen) tuple { return tuple{u: []uint64{g.u64()}, b: [][]byte{g.addr()}} },
			key:  func(t tuple) []byte { return ix.DoubleSignerHeightKey(t.b[0], t.u[0]) },
			segs: func(t tuple) [][]byte { return [][]byte{one(8), t.b[0], be(t.u[0])} }, parents: []parentRef{{"doubleSignerPrefix", noArgs}}},
		{name: "checkpointsCommitteeKey", space: "indexer", prefix: true, gen: func(g *keyGen) tuple { return tU(g.u64()) }, key: func(t tuple) []byte { return ix.CheckpointsCommitteeKey(t.u[0]) },
			segs: func(t tuple) [][]byte { return [][]byte{one(9), be(t.u[0])} }},
		{name: "checkpointKey", space: "indexer", record: true, gen: func(g *keyGen) tuple { return tU(g.u64(), g.u64()) }, key: func(t tuple) []byte { return ix.CheckpointKey(t.u[0], t.u[1]) },
			segs: func(t tuple) [][]byte { return [][]byte{one(9), be(t.u[0]), be(t.u[1])} }, parents: []parentRef{{"checkpointsCommitteeKey", firstU}}},
		{name: "eventAddressPrefix", space: "indexer", prefix: true, gen: func(g *keyGen) tuple { return tuple{b: [][]byte{g.addr()}} }, key: func(t tuple) []byte { return ix.EventAddressKey(t.b[0], nil) },
			segs: func(t tuple) [][]byte { return [][]byte{one(10), t.b[0]} }},
		{name: "eventAddressKey", space: "indexer", record: true, gen: func(g *keyGen) tuple { return tuple{b: [][]byte{g.addr(), hik(g, ix.EventHeightAndIndexKey)}} },
			key:  func(t tuple) []byte { return ix.EventAddressKey(t.b[0], t.b[1]) },
			segs: func(t tuple) [][]byte { return [][]byte{one(10), t.b[0], t.b[1]} }, parents: []parentRef{{"eventAddressPrefix", func(t tuple) tuple { return tuple{b: [][]byte{t.b[0]}} }}}},
		{name: "eventHeightKey", space: "indexer", prefix: true, gen: func(g *keyGen) tuple { return tU(g.u64()) }, key: func(t tuple) []byte { return ix.EventHeightKey(t.u[0]) },
			segs: func(t tuple) [][]byte { return [][]byte{one(11), be(t.u[0])} }},
		{name: "eventBlockHeightKey", space: "indexer", prefix: true, alias: "eventHeightKey", gen: func(g *keyGen) tuple { return tU(g.u64()) }, key: func(t tuple) []byte { return ix.EventBlockHeightKey(t.u[0]) },
			segs: func(t tuple) [][]byte { return [][]byte{one(11), be(t.u[0])} }},
		{name: "eventHeightAndIndexKey", space: "indexer", record: true, gen: func(g *keyGen) tuple { return tU(g.u64(), g.u64()) }, key: func(t tuple) []byte { return ix.EventHeightAndIndexKey(t.u[0], t.u[1]) },
			segs: func(t tuple) [][]byte { return [][]byte{one(11), be(t.u[0]), be(t.u[1])} }, parents: []parentRef{{"eventHeightKey", firstU}, {"eventBlockHeightKey", firstU}}},
		{name: "eventChainIdPrefix", space: "indexer", prefix: true, gen: func(g *keyGen) tuple { return tU(g.u64()) }, key: func(t tuple) []byte { return ix.EventChainIdKey(t.u[0], nil) },
			segs: func(t tuple) [][]byte { return [][]byte{one(12), be(t.u[0])} }},
		{name: "eventChainIdKey", space: "indexer", record: true, gen: func(g *keyGen) tuple {
			return tuple{u: []uint64{g.u64()}, b: [][]byte{hik(g, ix.EventHeightAndIndexKey)}}
		},
			key:  func(t tuple) []byte { return ix.EventChainIdKey(t.u[0], t.b[0]) },
			segs: func(t tuple) [][]byte { return [][]byte{one(12), be(t.u[0]), t.b[0]} }, parents: []parentRef{{"eventChainIdPrefix", firstU}}},
		{name: "eventHashKey", space: "indexer", record: true, gen: func(g *keyGen) tuple { return tuple{b: [][]byte{g.hash32()}} }, key: func(t tuple) []byte { return ix.EventHashKey(t.b[0]) },
			segs: func(t tuple) [][]byte { return [][]byte{one(13), t.b[0]} }},
		{name: "stateChangeVersionPrefix", space: "indexer", record: true, prefix: true, gen: func(g *keyGen) tuple { return tU(g.u64()) }, key: func(t tuple) []byte { return ix.StateChangeVersionPrefix(t.u[0]) },
			segs: func(t tuple) [][]byte { return [][]byte{one(14), be(t.u[0])} }},
		{name: "stateChangeKey(account)", space: "indexer", record: true, gen: func(g *keyGen) tuple { return tuple{u: []uint64{g.u64()}, b: [][]byte{g.addr()}} },
			key:  func(t tuple) []byte { return ix.StateChangeKey(t.u[0], fsm.KeyForAccount(a20(tuple{b: t.b}))) },
			segs: func(t tuple) [][]byte { return [][]byte{one(14), be(t.u[0]), one(1), t.b[0]} }, parents: []parentRef{{"stateChangeVersionPrefix", firstU}}},
		// ---- the two record families under the store prefix "x/" -----------------------------------------------------
		{name: "treeNodeKey", space: "tree", record: true, gen: func(g *keyGen) tuple { return tuple{b: [][]byte{[]byte(g.bits())}} },
			key: func(t tuple) []byte { return store.VerifTreeNodeKey(sm.EncodeKey(sm.Bits(t.b[0]))) }},
		{name: "commitIDKey", space: "tree", record: true, gen: func(g *keyGen) tuple { return tU(g.u64()) }, key: func(t tuple) []byte { return store.VerifCommitIDKey(t.u[0]) }},
	}
	return out
}

func TestC19bKeys(t *testing.T) {
	rec := ev.New(t, "C19")
	bs := keyBuilders()
	byName := map[string]*keyBuilder{}
	bySpace := map[string][]*keyBuilder{}
	for i := range bs {
		b := &bs[i]
		byName[b.name] = b
		bySpace[b.space] = append(bySpace[b.space], b)
	}
	rec.Note("builders", fmt.Sprintf("%d (state %d, indexer %d, tree %d)", len(bs), len(bySpace["state"]), len(bySpace["indexer"]), len(bySpace["tree"])))
	isChild := func(child *keyBuilder, ct tuple, parent *keyBuilder, pt tuple) bool {
		for _, p := range child.parents {
			if p.name == parent.name && p.of(ct).equal(pt) {
				return true
			}
		}
		return false
	}
	rapid.Check(t, func(rt *rapid.T) {
		c := rec.Case()
		g := &keyGen{rt}
		a := &bs[rapid.IntRange(0, len(bs)-1).Draw(rt, "builderA")]
		var b *keyBuilder
		switch rapid.IntRange(0, 3).Draw(rt, "pairing") {
		case 0:
			b = a
		case 1:
			// a declared parent or a sibling in the same space
			if len(a.parents) > 0 {
				b = byName[a.parents[rapid.IntRange(0, len(a.parents)-1).Draw(rt, "parent")].name]
			}
		}
		if b == nil {
			sp := bySpace[a.space]
			b = sp[rapid.IntRange(0, len(sp)-1).Draw(rt, "builderB")]
		}
		ta := a.gen(g)
		var tb tuple
		if rapid.Bool().Draw(rt, "derive") && len(a.parents) > 0 && b != a {
			// the parent's tuple derived from the child's (the child MUST lie in its range) or a fresh one
			for _, p := range a.parents {
				if p.name == b.name {
					tb = p.of(ta)
				}
			}
		}
		if tb.u == nil && tb.b == nil {
			tb = b.gen(g)
		}
		ka, kb := a.key(ta), b.key(tb)
		c.Class("space=" + a.space)
		c.ClassIf(a == b, "same-builder")
		c.ClassIf(a != b, "cross-builder")
		c.Desc("%s%v %s%v", a.name, ta, b.name, tb)
		// 5. codec
		for _, x := range []struct {
			b *keyBuilder
			t tuple
			k []byte
		}{{a, ta, ka}, {b, tb, kb}} {
			if x.b.segs == nil {
				continue
			}
			var want [][]byte
			for _, s := range x.b.segs(x.t) {
				if s != nil {
					want = append(want, s)
				}
			}
			got := lib.DecodeLengthPrefixed(x.k)
			ok := len(got) == len(want)
			for i := 0; ok && i < len(want); i++ {
				ok = bytes.Equal(got[i], want[i])
			}
			if !ok {
				rt.Fatalf("%s%v = %x: DecodeLengthPrefixed returns %x, the builder joined %x", x.b.name, x.t, x.k, got, want)
			}
		}
		same := a == b && ta.equal(tb)
		alias := a.alias == b.name || b.alias == a.name
		// 1 + 2
		if bytes.Equal(ka, kb) && !same {
			switch {
			case a == b:
				rt.Fatalf("%s is not injective: %v and %v both give %x", a.name, ta, tb, ka)
			case alias && ta.equal(tb):
				c.Class("declared-alias")
			case a.name == "KeyForOrder" && ta.b[0] == nil && b.name == "OrderBookPrefix" || b.name == "KeyForOrder" && tb.b[0] == nil && a.name == "OrderBookPrefix":
				// admitted by MessageEditOrder/DeleteOrder.Check: routed to C19(c) (TestC19cNilOrderId decides whether it is harmful)
				c.Class("record-key-equals-prefix:KeyForOrder(chain,nil)==OrderBookPrefix(chain)")
			default:
				rt.Fatalf("keys of different builders collide: %s%v == %s%v == %x", a.name, ta, b.name, tb, ka)
			}
		}
		nontrivial := false
		// 3. prefix ranges (both directions)
		for _, x := range []struct {
			p, k   *keyBuilder
			pt, kt tuple
			pk, kk []byte
		}{{a, b, ta, tb, ka, kb}, {b, a, tb, ta, kb, ka}} {
			if !x.p.prefix || bytes.Equal(x.pk, x.kk) {
				continue
			}
			in := bytes.Compare(x.kk, x.pk) >= 0 && bytes.Compare(x.kk, store.VerifPrefixEnd(x.pk)) <= 0
			if in != bytes.HasPrefix(x.kk, x.pk) {
				rt.Fatalf("harness: range membership and byte-prefix disagree for %x in %x", x.kk, x.pk)
			}
			if in {
				nontrivial = true
				c.Class("inside-prefix-range")
				if !isChild(x.k, x.kt, x.p, x.pt) && !(x.p.alias != "" && isChild(x.k, x.kt, byName[x.p.alias], x.pt)) {
					rt.Fatalf("%s%v = %x lies inside the iteration range of %s%v = %x but is not its child by construction", x.k.name, x.kt, x.kk, x.p.name, x.pt, x.pk)
				}
			} else if isChild(x.k, x.kt, x.p, x.pt) {
				rt.Fatalf("%s%v = %x is a child of %s%v = %x by construction but lies outside its iteration range", x.k.name, x.kt, x.kk, x.p.name, x.pt, x.pk)
			}
		}
		// 4. record keys are prefix-free where the iterator seeks over versions
		// (a nil order id is admitted for LOOKUPS by edit/delete-order but nothing is ever stored under it: orders are created
		// with a 20-byte id derived from the transaction hash)
		stored := func(b *keyBuilder, t tuple) bool { return b.record && !(b.name == "KeyForOrder" && t.b[0] == nil) }
		if stored(a, ta) && stored(b, tb) && !bytes.Equal(ka, kb) && (a.space == "state" || a.space == "tree") {
			if bytes.HasPrefix(ka, kb) || bytes.HasPrefix(kb, ka) {
				rt.Fatalf("record key %s%v = %x and record key %s%v = %x: one is a byte prefix of the other (version-seeking iteration skips the longer one)", a.name, ta, ka, b.name, tb, kb)
			}
		}
		if a.record && b.record && !bytes.Equal(ka, kb) && a.space == "indexer" && (bytes.HasPrefix(ka, kb) || bytes.HasPrefix(kb, ka)) {
			c.Class("indexer-record-is-prefix-of-record(journal marker; indexer iterates without seeking)")
		}
		c.Done(nontrivial || (!same && (a == b || a.space == b.space)))
	})
}

// JoinLenPrefix / DecodeLengthPrefixed as a codec: on lists of non-nil segments of 0..255 bytes the decoder inverts the
// encoder, and two different lists never share an encoding.
func TestC19bLenPrefixCodec(t *testing.T) {
	rec := ev.New(t, "C19")
	rapid.Check(t, func(rt *rapid.T) {
		c := rec.Case()
		g := &keyGen{rt}
		mk := func(l string) [][]byte {
			n := rapid.IntRange(0, 4).Draw(rt, l)
			out := make([][]byte, n)
			for i := range out {
				lens := []int{0, 1, 2, 8, 20, 21, 254, 255}
				k := lens[g.n(len(lens), "len")]
				out[i] = wire.Bytes(k, []byte{0x00, 0x01, 0x02, 0x08, 0x14, 0xFF}[g.n(6, "fill")])
				if k > 0 && g.n(2, "lead") == 0 {
					out[i][0] = byte(g.n(256, "b0"))
				}
			}
			return out
		}
		a, b := mk("a"), mk("b")
		ka, kb := lib.JoinLenPrefix(a...), lib.JoinLenPrefix(b...)
		got := lib.DecodeLengthPrefixed(ka)
		if len(got) != len(a) {
			rt.Fatalf("decode(join(%x)) = %x", a, got)
		}
		for i := range a {
			if !bytes.Equal(got[i], a[i]) {
				rt.Fatalf("decode(join(%x)) = %x", a, got)
			}
		}
		same := len(a) == len(b)
		for i := 0; same && i < len(a); i++ {
			same = bytes.Equal(a[i], b[i])
		}
		if !same && bytes.Equal(ka, kb) {
			rt.Fatalf("join(%x) == join(%x) == %x", a, b, ka)
		}
		c.Desc("%x|%x", a, b)
		c.Class(fmt.Sprintf("segments=%d", len(a)))
		c.Done(len(a) > 1)
	})
}
