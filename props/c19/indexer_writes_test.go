package c19

// indexer_writes_test.go: C19(b) on the WRITE PATHS of the indexer. TestC19bKeys calls the key builders with admitted
// tuples; this test lets the real store decide which tuples reach the builders: it drives the exported indexer API of a real
// store (IndexBlock -> IndexTx / IndexEvent, IndexQC, IndexCheckpoint, IndexDoubleSigner, the deletion APIs, Commit) with
// content the production callers produce - transactions with a 20-byte sender and a 20-byte or ABSENT recipient (most
// message types have none), events with / without address and chain id, several heights, per-block positions beyond 127,
// 255 and 65535 - and then checks
//   (a) every exported query against a plain model, ordering included, served from disk (block cache purged), for every
//       address used AND for crafted addresses made of raw key material (the 20 bytes of a height+index key),
//   (b) a raw scan of the indexer partition: every key must decode into the segment shape of the one builder that owns its
//       prefix (arity and width of every segment), and the set of keys must be exactly the set the model predicts with an
//       independent re-statement of the key layout,
//   (c) after the deletion APIs nothing of the deleted height / chain remains in any sub-index that API owns.

import (
	"bytes"
	"encoding/binary"
	"fmt"
	"os"
	"sort"
	"testing"

	"github.com/canopy-network/canopy/lib"
	"github.com/canopy-network/canopy/lib/crypto"
	"github.com/canopy-network/canopy/store"
	"google.golang.org/protobuf/proto"
	"pgregory.net/rapid"

	"verif/h/ev"
)

type ixTx struct {
	h, i uint64
	hash []byte
	res  *lib.TxResult
}

type ixEvent struct {
	h   uint64
	idx int
	e   *lib.Event
}

type ixModel struct {
	txs     []*ixTx    // insertion order
	events  []*ixEvent // insertion order
	blocks  map[uint64]*lib.BlockHeader
	qcs     map[uint64]*lib.QuorumCertificate
	cps     map[uint64]map[uint64][]byte // chain -> height -> hash
	dss     map[string]map[uint64]bool   // address -> heights
	deadTx  map[uint64]bool              // heights whose transactions were deleted
	deadBlk map[uint64]bool
}

func j(segs ...[]byte) []byte { return lib.JoinLenPrefix(segs...) }
func p1(b byte) []byte        { return []byte{b} }
func be8(u uint64) []byte {
	b := make([]byte, 8)
	binary.BigEndian.PutUint64(b, u)
	return b
}

// segment widths per index prefix (the second list is the nested layout of a height+index component)
var ixShapes = map[byte][][]int{
	1:  {{1, 32}},
	2:  {{1, 8, 8}},
	3:  {{1, 20, 20}},
	4:  {{1, 20, 20}},
	5:  {{1, 32}},
	6:  {{1, 8}},
	7:  {{1, 8}},
	8:  {{1, 20, 8}},
	9:  {{1, 8, 8}},
	10: {{1, 20, 20}},
	11: {{1, 8, 8}},
	12: {{1, 8, 20}},
	13: {{1, 32}},
}

// nested: prefix -> (segment position, prefix byte the nested height+index key must carry)
var ixNested = map[byte][2]int{3: {2, 2}, 4: {2, 2}, 10: {2, 11}, 12: {2, 11}}

func checkKeyShape(k []byte) string {
	var segs [][]byte
	if p := guard(func() { segs = lib.DecodeLengthPrefixed(k) }); p != "" {
		return "does not decode as a length-prefixed key"
	}
	if len(segs) == 0 || len(segs[0]) != 1 {
		return "no one-byte prefix segment"
	}
	pfx := segs[0][0]
	if pfx == 14 { // state change journal: marker [14][version] or entry [14][version]<state key segments>
		if len(segs) < 2 || len(segs[1]) != 8 {
			return "journal key without an 8-byte version"
		}
		return ""
	}
	shapes, ok := ixShapes[pfx]
	if !ok {
		return fmt.Sprintf("unknown index prefix %d", pfx)
	}
	match := false
	for _, sh := range shapes {
		if len(sh) != len(segs) {
			continue
		}
		match = true
		for i := range sh {
			if len(segs[i]) != sh[i] {
				match = false
			}
		}
	}
	if !match {
		var w []int
		for _, s := range segs {
			w = append(w, len(s))
		}
		return fmt.Sprintf("segment widths %v do not fit the builder of prefix %d (want %v)", w, pfx, shapes)
	}
	if n, ok := ixNested[pfx]; ok {
		var in [][]byte
		if p := guard(func() { in = lib.DecodeLengthPrefixed(segs[n[0]]) }); p != "" || len(in) != 3 || len(in[0]) != 1 || int(in[0][0]) != n[1] || len(in[1]) != 8 || len(in[2]) != 8 {
			return fmt.Sprintf("segment %d is not a height+index key of prefix %d: %x", n[0], n[1], segs[n[0]])
		}
	}
	return ""
}

func (m *ixModel) liveTxs() (out []*ixTx) {
	for _, t := range m.txs {
		if !m.deadTx[t.h] {
			out = append(out, t)
		}
	}
	sort.SliceStable(out, func(a, b int) bool {
		if out[a].h != out[b].h {
			return out[a].h < out[b].h
		}
		return out[a].i < out[b].i
	})
	return
}

func (m *ixModel) sortedEvents() (out []*ixEvent) {
	out = append(out, m.events...)
	sort.SliceStable(out, func(a, b int) bool {
		if out[a].h != out[b].h {
			return out[a].h < out[b].h
		}
		return out[a].idx < out[b].idx
	})
	return
}

// expectedKeys re-states the key layout of store/indexer.go independently of its builders.
func (m *ixModel) expectedKeys() map[string]string {
	out := map[string]string{}
	for _, t := range m.liveTxs() {
		hik := j(p1(2), be8(t.h), be8(t.i))
		out[string(j(p1(1), t.hash))] = fmt.Sprintf("txHash(%d,%d)", t.h, t.i)
		out[string(hik)] = fmt.Sprintf("txHeightIndex(%d,%d)", t.h, t.i)
		out[string(j(p1(3), t.res.Sender, hik))] = fmt.Sprintf("txSender(%d,%d)", t.h, t.i)
		if t.res.Recipient != nil {
			out[string(j(p1(4), t.res.Recipient, hik))] = fmt.Sprintf("txRecipient(%d,%d)", t.h, t.i)
		}
	}
	for h, hdr := range m.blocks {
		if m.deadBlk[h] {
			continue
		}
		out[string(j(p1(5), hdr.Hash))] = fmt.Sprintf("blockHash(%d)", h)
		out[string(j(p1(6), be8(h)))] = fmt.Sprintf("blockHeight(%d)", h)
	}
	for h := range m.qcs {
		out[string(j(p1(7), be8(h)))] = fmt.Sprintf("qc(%d)", h)
	}
	for a, hs := range m.dss {
		for h := range hs {
			out[string(j(p1(8), []byte(a), be8(h)))] = fmt.Sprintf("doubleSigner(%x,%d)", a, h)
		}
	}
	for c, hs := range m.cps {
		for h := range hs {
			out[string(j(p1(9), be8(c), be8(h)))] = fmt.Sprintf("checkpoint(%d,%d)", c, h)
		}
	}
	for _, e := range m.events {
		bz, _ := lib.Marshal(e.e)
		hik := j(p1(11), be8(e.h), be8(uint64(e.idx)))
		out[string(j(p1(13), crypto.Hash(bz)))] = fmt.Sprintf("eventHash(%d,%d)", e.h, e.idx)
		out[string(hik)] = fmt.Sprintf("eventHeightIndex(%d,%d)", e.h, e.idx)
		if e.e.ChainId != 0 {
			out[string(j(p1(12), be8(e.e.ChainId), hik))] = fmt.Sprintf("eventChain(%d,%d)", e.h, e.idx)
		}
		if e.e.Address != nil {
			out[string(j(p1(10), e.e.Address, hik))] = fmt.Sprintf("eventAddress(%d,%d)", e.h, e.idx)
		}
	}
	return out
}

func scanIndexer(s *store.Store) ([][]byte, error) {
	vs := store.NewVersionedStore(s.DB().NewSnapshot(), nil, ^uint64(0)) // closed by tx.Close()
	// no version seeking: the scan must see every key, also one that is a byte prefix of another
	tx := store.NewTxn(vs, nil, store.VerifIndexerPrefix(), false, false, false)
	defer tx.Close()
	it, err := tx.Iterator(nil)
	if err != nil {
		return nil, err
	}
	defer it.Close()
	var out [][]byte
	for ; it.Valid(); it.Next() {
		out = append(out, bytes.Clone(it.Key()))
	}
	return out, nil
}

func txIDs(ts []*lib.TxResult) string {
	s := ""
	for _, t := range ts {
		s += fmt.Sprintf("%d.%d ", t.Height, t.Index)
	}
	return s
}

func evIDs(es []*lib.Event) string {
	s := ""
	for _, e := range es {
		s += fmt.Sprintf("%d:%s ", e.Height, e.Reference)
	}
	return s
}

func TestC19bIndexerWrites(t *testing.T) {
	rec := ev.New(t, "C19")
	all := lib.PageParams{PageNumber: 1, PerPage: 5000}
	rapid.Check(t, func(rt *rapid.T) {
		c := rec.Case()
		store.VerifPurgeBlockCache()
		si, e := store.NewStoreInMemory(lib.NewNullLogger())
		if e != nil {
			rt.Fatalf("harness: %v", e)
		}
		s := si.(*store.Store)
		defer s.Close()
		m := &ixModel{blocks: map[uint64]*lib.BlockHeader{}, qcs: map[uint64]*lib.QuorumCertificate{}, cps: map[uint64]map[uint64][]byte{}, dss: map[string]map[uint64]bool{}, deadTx: map[uint64]bool{}, deadBlk: map[uint64]bool{}}
		addrs := make([][]byte, 4)
		for i := range addrs {
			addrs[i] = crypto.Hash([]byte{byte(i), 0xA})[:20]
		}
		addrs[3] = bytes.Repeat([]byte{0xFF}, 20)
		// heights: ascending, from a pool with byte-boundary values
		pool := []uint64{1, 2, 3, 127, 128, 255, 256, 257, 65535, 65536, 1 << 32}
		nBlocks := rapid.IntRange(1, 4).Draw(rt, "blocks")
		start := rapid.IntRange(0, len(pool)-nBlocks).Draw(rt, "first-height")
		heights := pool[start : start+nBlocks]
		bigBlock := -1
		if rapid.IntRange(0, 2).Draw(rt, "big") == 0 {
			bigBlock = rapid.IntRange(0, nBlocks-1).Draw(rt, "big-block")
		}
		noRecipient, maxPos := 0, uint64(0)
		for bi, h := range heights {
			n := rapid.IntRange(0, 6).Draw(rt, "txs")
			if bi == bigBlock {
				n = rapid.IntRange(129, 300).Draw(rt, "many-txs")
			}
			base := []uint64{0, 0, 0, 120, 250, 65530}[rapid.IntRange(0, 5).Draw(rt, "first-position")]
			blk := &lib.BlockResult{BlockHeader: &lib.BlockHeader{Height: h, Hash: crypto.Hash(be8(h)), Time: 1_700_000_000_000_000 + h, NumTxs: uint64(n)}}
			for i := 0; i < n; i++ {
				pos := base + uint64(i)
				hash := crypto.Hash(append(be8(h), be8(pos)...))
				var rcp []byte
				msgType := "stake"
				if rapid.Bool().Draw(rt, "has-recipient") {
					rcp, msgType = addrs[rapid.IntRange(0, 3).Draw(rt, "recipient")], "send"
				} else {
					noRecipient++
				}
				res := &lib.TxResult{Sender: addrs[rapid.IntRange(0, 3).Draw(rt, "sender")], Recipient: rcp, MessageType: msgType, Height: h, Index: pos,
					Transaction: &lib.Transaction{MessageType: msgType, CreatedHeight: h, Time: h*1000 + pos, NetworkId: 1, ChainId: 1}, TxHash: lib.BytesToString(hash)}
				blk.Transactions = append(blk.Transactions, res)
				m.txs = append(m.txs, &ixTx{h: h, i: pos, hash: hash, res: proto.Clone(res).(*lib.TxResult)})
				if pos > maxPos {
					maxPos = pos
				}
			}
			ne := rapid.IntRange(0, 4).Draw(rt, "events")
			if bi == bigBlock && rapid.Bool().Draw(rt, "many-events") {
				ne = rapid.IntRange(129, 200).Draw(rt, "many-events-n")
			}
			for i := 0; i < ne; i++ {
				evt := &lib.Event{EventType: "custom", Height: h, Reference: fmt.Sprintf("ref-%d-%d", h, i)}
				if rapid.Bool().Draw(rt, "event-address") {
					evt.Address = addrs[rapid.IntRange(0, 3).Draw(rt, "eaddr")]
				}
				evt.ChainId = uint64(rapid.IntRange(0, 2).Draw(rt, "echain"))
				blk.Events = append(blk.Events, evt)
				m.events = append(m.events, &ixEvent{h: h, idx: i, e: proto.Clone(evt).(*lib.Event)})
			}
			if rapid.Bool().Draw(rt, "qc") {
				qc := &lib.QuorumCertificate{Header: &lib.View{Height: h, NetworkId: 1, ChainId: 1}, BlockHash: blk.BlockHeader.Hash, ResultsHash: crypto.Hash([]byte("r")), ProposerKey: bytes.Repeat([]byte{1}, 48)}
				if e = s.IndexQC(qc); e != nil {
					rt.Fatalf("IndexQC: %v", e)
				}
				m.qcs[h] = qc
			}
			if rapid.IntRange(0, 2).Draw(rt, "checkpoint") == 0 {
				ch := uint64(rapid.IntRange(1, 2).Draw(rt, "cp-chain"))
				if e = s.IndexCheckpoint(ch, &lib.Checkpoint{Height: h, BlockHash: crypto.Hash(be8(h + 7))}); e != nil {
					rt.Fatalf("IndexCheckpoint: %v", e)
				}
				if m.cps[ch] == nil {
					m.cps[ch] = map[uint64][]byte{}
				}
				m.cps[ch][h] = crypto.Hash(be8(h + 7))
			}
			if rapid.IntRange(0, 2).Draw(rt, "double-signer") == 0 {
				a := addrs[rapid.IntRange(0, 3).Draw(rt, "ds")]
				if e = s.IndexDoubleSigner(a, h); e != nil {
					rt.Fatalf("IndexDoubleSigner: %v", e)
				}
				if m.dss[string(a)] == nil {
					m.dss[string(a)] = map[uint64]bool{}
				}
				m.dss[string(a)][h] = true
			}
			if e = s.IndexBlock(blk); e != nil {
				rt.Fatalf("IndexBlock(%d): %v", h, e)
			}
			m.blocks[h] = blk.BlockHeader
			if _, e = s.Commit(); e != nil {
				rt.Fatalf("Commit: %v", e)
			}
		}
		// deletions
		del := "none"
		switch rapid.IntRange(0, 4).Draw(rt, "delete") {
		case 0:
			h := heights[rapid.IntRange(0, nBlocks-1).Draw(rt, "del-height")]
			store.VerifPurgeBlockCache()
			if e = s.DeleteTxsForHeight(h); e != nil {
				rt.Fatalf("DeleteTxsForHeight(%d): %v", h, e)
			}
			m.deadTx[h] = true
			del = fmt.Sprintf("txs@%d", h)
		case 1:
			h := heights[rapid.IntRange(0, nBlocks-1).Draw(rt, "del-height")]
			store.VerifPurgeBlockCache()
			if e = s.DeleteBlockForHeight(h); e != nil {
				rt.Fatalf("DeleteBlockForHeight(%d): %v", h, e)
			}
			m.deadTx[h], m.deadBlk[h] = true, true
			if _, ok := m.qcs[h]; ok && rapid.Bool().Draw(rt, "del-qc") {
				if e = s.DeleteQCForHeight(h); e != nil {
					rt.Fatalf("DeleteQCForHeight: %v", e)
				}
				delete(m.qcs, h)
			}
			del = fmt.Sprintf("block@%d", h)
		case 2:
			ch := uint64(rapid.IntRange(1, 2).Draw(rt, "del-chain"))
			if e = s.DeleteCheckpointsForChain(ch); e != nil {
				rt.Fatalf("DeleteCheckpointsForChain: %v", e)
			}
			delete(m.cps, ch)
			del = fmt.Sprintf("checkpoints-of-chain-%d", ch)
		}
		if del != "none" {
			if _, e = s.Commit(); e != nil {
				rt.Fatalf("Commit: %v", e)
			}
		}
		c.Desc("heights=%v txs=%d (no recipient %d, max position %d) events=%d qcs=%d delete=%s", heights, len(m.txs), noRecipient, maxPos, len(m.events), len(m.qcs), del)
		c.ClassIf(bigBlock >= 0, "block-with->128-txs")
		c.ClassIf(maxPos > 65535, "position>65535")
		c.ClassIf(noRecipient > 0, "tx-without-recipient")
		c.Class("delete=" + map[bool]string{true: "none", false: "some"}[del == "none"])
		// everything below is served from disk
		store.VerifPurgeBlockCache()

		// (b) raw scan
		keys, err := scanIndexer(s)
		if err != nil {
			rt.Fatalf("harness: scan: %v", err)
		}
		want := m.expectedKeys()
		seen := map[string]bool{}
		if os.Getenv("C19_SKIP_SCAN") != "" { // sensitivity runs only: shows that the query oracles alone also catch a change
			keys, want = nil, nil
		}
		for _, k := range keys {
			if why := checkKeyShape(k); why != "" {
				rt.Fatalf("indexer partition holds key %x: %s", k, why)
			}
			if k[1] == 14 {
				continue
			}
			seen[string(k)] = true
			if _, ok := want[string(k)]; !ok {
				rt.Fatalf("indexer partition holds key %x (segments %x) that no indexed object accounts for (delete=%s)", k, lib.DecodeLengthPrefixed(k), del)
			}
		}
		for k, what := range want {
			if !seen[k] {
				rt.Fatalf("indexer partition lacks the key %x of %s", k, what)
			}
		}

		// (a) queries vs model
		live := m.liveTxs()
		for _, tx := range m.txs {
			got, e := s.GetTxByHash(tx.hash)
			if m.deadTx[tx.h] {
				if e == nil && got != nil && got.TxHash != "" {
					rt.Fatalf("GetTxByHash still serves transaction %d.%d after %s", tx.h, tx.i, del)
				}
				continue
			}
			if e != nil || got == nil || !proto.Equal(got, tx.res) {
				rt.Fatalf("GetTxByHash(%d.%d) = %v, %v; want %v", tx.h, tx.i, got, e, tx.res)
			}
		}
		wantIDs := func(f func(*ixTx) bool, reverse bool) string {
			var sel []*lib.TxResult
			for _, tx := range live {
				if f(tx) {
					sel = append(sel, tx.res)
				}
			}
			if reverse {
				for a, b := 0, len(sel)-1; a < b; a, b = a+1, b-1 {
					sel[a], sel[b] = sel[b], sel[a]
				}
			}
			return txIDs(sel)
		}
		pageIDs := func(p *lib.Page, e lib.ErrorI) string {
			if e != nil {
				return "error: " + e.Error()
			}
			return txIDs(*p.Results.(*lib.TxResults))
		}
		for _, h := range heights {
			for _, rev := range []bool{false, true} {
				w := wantIDs(func(tx *ixTx) bool { return tx.h == h }, rev)
				if g := pageIDs(s.GetTxsByHeight(h, rev, all)); g != w {
					rt.Fatalf("GetTxsByHeight(%d, newestFirst=%v) from disk:\n got  %s\n want %s", h, rev, g, w)
				}
			}
			got, e := s.GetTxsByHeightNonPaginated(h, false)
			if e != nil || txIDs(got) != wantIDs(func(tx *ixTx) bool { return tx.h == h }, false) {
				rt.Fatalf("GetTxsByHeightNonPaginated(%d) from disk: %v\n got  %s\n want %s", h, e, txIDs(got), wantIDs(func(tx *ixTx) bool { return tx.h == h }, false))
			}
			if !m.deadBlk[h] {
				blk, e := s.GetBlockByHeight(h)
				if e != nil || blk == nil || !proto.Equal(blk.BlockHeader, m.blocks[h]) || txIDs(blk.Transactions) != wantIDs(func(tx *ixTx) bool { return tx.h == h }, false) {
					rt.Fatalf("GetBlockByHeight(%d) from disk: err=%v block=%v\n want txs %s", h, e, blk, wantIDs(func(tx *ixTx) bool { return tx.h == h }, false))
				}
				var we []*lib.Event
				for _, x := range m.sortedEvents() {
					if x.h == h {
						we = append(we, x.e)
					}
				}
				if evIDs(blk.Events) != evIDs(we) {
					rt.Fatalf("GetBlockByHeight(%d).Events from disk:\n got  %s\n want %s", h, evIDs(blk.Events), evIDs(we))
				}
				store.VerifPurgeBlockCache()
				if bh, e := s.GetBlockByHash(m.blocks[h].Hash); e != nil || bh == nil || !proto.Equal(bh.BlockHeader, m.blocks[h]) {
					rt.Fatalf("GetBlockByHash(%d): %v %v", h, bh, e)
				}
				if qc, ok := m.qcs[h]; ok {
					got, e := s.GetQCByHeight(h)
					if e != nil || got == nil || !proto.Equal(got.Header, qc.Header) || !bytes.Equal(got.BlockHash, qc.BlockHash) {
						rt.Fatalf("GetQCByHeight(%d): %v %v", h, got, e)
					}
				}
				store.VerifPurgeBlockCache()
			}
		}
		// addresses: the ones used and crafted ones made of raw key material
		query := append([][]byte{}, addrs...)
		for _, tx := range m.txs {
			if len(query) > 40 {
				break
			}
			query = append(query, j(p1(2), be8(tx.h), be8(tx.i)))
		}
		for _, x := range m.events {
			if len(query) > 60 {
				break
			}
			query = append(query, j(p1(11), be8(x.h), be8(uint64(x.idx))))
		}
		query = append(query, make([]byte, 20))
		for _, a := range query {
			addr := crypto.NewAddress(a)
			for _, rev := range []bool{false, true} {
				if g, w := pageIDs(s.GetTxsBySender(addr, rev, all)), wantIDs(func(tx *ixTx) bool { return bytes.Equal(tx.res.Sender, a) }, rev); g != w {
					rt.Fatalf("GetTxsBySender(%x, newestFirst=%v):\n got  %s\n want %s", a, rev, g, w)
				}
				if g, w := pageIDs(s.GetTxsByRecipient(addr, rev, all)), wantIDs(func(tx *ixTx) bool { return tx.res.Recipient != nil && bytes.Equal(tx.res.Recipient, a) }, rev); g != w {
					rt.Fatalf("GetTxsByRecipient(%x, newestFirst=%v) returns transactions that were not sent to that address:\n got  %s\n want %s", a, rev, g, w)
				}
			}
			var we []*lib.Event
			for _, x := range m.sortedEvents() {
				if x.e.Address != nil && bytes.Equal(x.e.Address, a) {
					we = append(we, x.e)
				}
			}
			p, e := s.GetEventsByAddress(addr, false, all)
			if e != nil || evIDs(*p.Results.(*lib.Events)) != evIDs(we) {
				rt.Fatalf("GetEventsByAddress(%x): %v\n got  %s\n want %s", a, e, evIDs(*p.Results.(*lib.Events)), evIDs(we))
			}
		}
		for _, h := range heights {
			var we []*lib.Event
			for _, x := range m.sortedEvents() {
				if x.h == h {
					we = append(we, x.e)
				}
			}
			p, e := s.GetEventsByBlockHeight(h, false, all)
			if e != nil || evIDs(*p.Results.(*lib.Events)) != evIDs(we) {
				rt.Fatalf("GetEventsByBlockHeight(%d) from disk: %v\n got  %s\n want %s", h, e, evIDs(*p.Results.(*lib.Events)), evIDs(we))
			}
		}
		for ch := uint64(0); ch <= 3; ch++ {
			var we []*lib.Event
			for _, x := range m.sortedEvents() {
				if x.e.ChainId == ch && ch != 0 {
					we = append(we, x.e)
				}
			}
			if ch != 0 {
				p, e := s.GetEventsByChainId(ch, false, all)
				if e != nil || evIDs(*p.Results.(*lib.Events)) != evIDs(we) {
					rt.Fatalf("GetEventsByChainId(%d): %v\n got  %s\n want %s", ch, e, evIDs(*p.Results.(*lib.Events)), evIDs(we))
				}
			}
			cps, e := s.GetAllCheckpoints(ch)
			if e != nil || len(cps) != len(m.cps[ch]) {
				rt.Fatalf("GetAllCheckpoints(%d) = %v, %v; model has %d", ch, cps, e, len(m.cps[ch]))
			}
			for i, cp := range cps {
				if !bytes.Equal(cp.BlockHash, m.cps[ch][cp.Height]) || (i > 0 && cps[i-1].Height >= cp.Height) {
					rt.Fatalf("GetAllCheckpoints(%d) = %v", ch, cps)
				}
			}
		}
		for _, a := range addrs {
			for _, h := range heights {
				valid, e := s.IsValidDoubleSigner(a, h)
				if e != nil || valid == m.dss[string(a)][h] {
					rt.Fatalf("IsValidDoubleSigner(%x,%d) = %v, %v; indexed=%v", a, h, valid, e, m.dss[string(a)][h])
				}
			}
		}
		c.Done(len(m.txs) > 0)
	})
}
