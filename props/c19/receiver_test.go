package c19

// receiver_test.go: C19(a) receiver differential for consensus messages.
//
// "Meaning" of a consensus message is made executable: a scripted run of four real replicas is executed untouched (run A)
// and with exactly one in-flight message replaced by a single-field mutant that still carries the original sender's
// signature (run B). If the mutant is ACCEPTED (BFT.HandleMessage returns nil) and anything the replicas do afterwards
// differs (what they send, what they ask the controller to validate / produce / commit, their locks, stored evidence),
// a third party changed what an authenticated sender said.

import (
	"bytes"
	"fmt"
	"os"
	"path/filepath"
	"strings"
	"sync"
	"testing"

	"github.com/canopy-network/canopy/bft"
	"github.com/canopy-network/canopy/lib"
	"google.golang.org/protobuf/proto"
	"pgregory.net/rapid"

	"verif/h/ev"
	"verif/h/wire"
)

const (
	kfVoteFields = "KF-C19-electionvote-unsigned-fields"
	kfTimestamp  = "KF-C19-commit-timestamp-unsigned"
	kfReplace    = "KF-C19-relayed-proposal-replaces-honest"
)

type rd struct{ t *rapid.T }

func (r rd) Intn(n int, label string) int {
	if n <= 1 {
		return 0
	}
	return rapid.IntRange(0, n-1).Draw(r.t, label)
}

// scenario = one deterministic script.
type scenario struct {
	name     string
	lock     bool // round 0 reaches PRECOMMIT_VOTE (replicas lock), the COMMIT message is lost, round 1 re-proposes the locked block
	evidence bool // replica 1 starts with authentic double-sign evidence (as if collected at the previous height)
	height   uint64
	partial  int // >0: in round 0 only replica `partial` receives the PRECOMMIT message and locks; everybody else times out
}

var scenarios = []scenario{
	{name: "clean", height: 3},
	{name: "clean+evidence", evidence: true, height: 3},
	{name: "lock", lock: true, height: 3},
	{name: "clean-h5", height: 5},
	{name: "partial-lock", partial: 3, height: 3},
}

type runResult struct {
	sent     []*env
	trace    []string
	accepted map[int]string
	commits  int
}

// runScenario executes the script. mutate (optional) replaces the message with id `target` for the receivers in `only`
// (nil = all receivers) by `mutant`.
func runScenario(sc scenario, target int, mutant *bft.Message, only map[int]bool, order int) *runResult {
	return runScenarioDrop(sc, target, mutant, only, order, false)
}

// runScenarioDrop: with drop=true the target message is lost for the receivers in `only` (nil = all) instead of replaced.
func runScenarioDrop(sc scenario, target int, mutant *bft.Message, only map[int]bool, order int, drop bool) *runResult {
	o := rigOpts{n: 4, height: sc.height, rootH: sc.height}
	if sc.evidence {
		ks, vs := rigValidatorSet(4)
		o.evidence = map[int][]*bft.DoubleSignEvidence{1: {makeDSE(ks, vs, sc.height-1, sc.height-1, []int{0, 1, 2}, []int{2, 3}, "e1")}}
	}
	r := newRig(o)
	r.order = order
	r.hook = func(e *env, to int) (*bft.Message, bool) {
		if sc.lock && e.kind == "COMMIT" && e.msg.Header.Round == 0 {
			return nil, true // the COMMIT of round 0 never arrives
		}
		if sc.partial > 0 && e.kind == "PRECOMMIT" && e.msg.Header.Round == 0 && to != sc.partial {
			return nil, true // the PRECOMMIT of round 0 reaches a single replica
		}
		if drop && e.id == target && (only == nil || only[to]) {
			return nil, true
		}
		if mutant != nil && e.id == target && (only == nil || only[to]) {
			return mutant, false
		}
		return nil, false
	}
	steps := 8
	if sc.lock || sc.partial > 0 {
		steps = 18
	}
	for i := 0; i < steps; i++ {
		r.stepAll()
	}
	return &runResult{sent: r.sent, trace: r.trace(), accepted: r.replaced, commits: r.committed()}
}

var (
	baseMu   sync.Mutex
	baseRuns = map[string]*runResult{}
)

func baseline(sc scenario) *runResult {
	baseMu.Lock()
	defer baseMu.Unlock()
	if b, ok := baseRuns[sc.name]; ok {
		return b
	}
	b := runScenario(sc, -1, nil, nil, orderReplace)
	baseRuns[sc.name] = b
	return b
}

// decisions filters a trace down to what counts as behaviour (rejection diagnostics are not behaviour).
func decisions(tr []string) []string {
	var out []string
	for _, l := range tr {
		if strings.Contains(l, " Reject(") {
			continue
		}
		out = append(out, l)
	}
	return out
}

// external filters a trace down to what leaves a replica: the messages it sends and the certificates it commits.
func external(tr []string) []string {
	var out []string
	for _, l := range tr {
		if strings.Contains(l, " Send(") || strings.Contains(l, " Commit(") {
			out = append(out, l)
		}
	}
	return out
}

func firstDiff(a, b []string) string {
	for i := 0; i < len(a) || i < len(b); i++ {
		var x, y string
		if i < len(a) {
			x = a[i]
		}
		if i < len(b) {
			y = b[i]
		}
		if x != y {
			return fmt.Sprintf("\n  original: %s\n  mutant  : %s", x, y)
		}
	}
	return ""
}

// unsignedVoteField reports whether a top-level field of a replica ELECTION_VOTE message is one of the per-replica fields
// that ride outside the aggregable vote payload.
func unsignedVoteField(site wire.Site) bool {
	switch site.Top() {
	case "high_qc", "last_double_sign_evidence", "vdf", "rcBuildHeight":
		return true
	case "qc":
		f := site.Field()
		return f == "qc.block" || f == "qc.results" || strings.HasPrefix(f, "qc.results.")
	}
	return false
}

func TestC19aReceiver(t *testing.T) {
	rec := ev.New(t, "C19")
	for _, sc := range scenarios {
		b := baseline(sc)
		want := 4
		if b.commits != want {
			t.Fatalf("harness: scenario %s commits on %d of 4 replicas:\n%s", sc.name, b.commits, strings.Join(b.trace, "\n"))
		}
		kinds := map[string]int{}
		for _, e := range b.sent {
			kinds[e.kind]++
		}
		rec.Note("scenario:"+sc.name, fmt.Sprintf("%d messages %v", len(b.sent), kinds))
	}
	rapid.Check(t, func(rt *rapid.T) {
		c := rec.Case()
		d := rd{rt}
		sc := scenarios[rapid.IntRange(0, len(scenarios)-1).Draw(rt, "scenario")]
		base := baseline(sc)
		// pick the message kind first (so that rare kinds are not drowned by votes), then one message of that kind
		byKind := map[string][]*env{}
		var kindNames []string
		for _, e := range base.sent {
			if _, ok := byKind[e.kind]; !ok {
				kindNames = append(kindNames, e.kind)
			}
			byKind[e.kind] = append(byKind[e.kind], e)
		}
		kind := kindNames[rapid.IntRange(0, len(kindNames)-1).Draw(rt, "kind")]
		e := byKind[kind][rapid.IntRange(0, len(byKind[kind])-1).Draw(rt, "msg")]
		// pick the mutation. focus 0: any site, uniformly. focus 1: a site whose mutation leaves the SENDER'S SIGN BYTES
		// unchanged (the mutant carries a still-valid signature: exactly where a relay can act). focus 2: additionally the
		// field is populated in the original (the sender said something there).
		sites := wire.Sites(e.msg)
		focus := []int{0, 1, 2, 2, 2}[rapid.IntRange(0, 4).Draw(rt, "focus")]
		if focus > 0 {
			un := outsideSignature(sc.name, e)
			if focus == 2 {
				var pop []wire.Site
				for _, s := range un {
					if s.Set {
						pop = append(pop, s)
					}
				}
				if len(pop) > 0 {
					un = pop
				} else {
					focus = 1
				}
			}
			if len(un) > 0 {
				sites = un
			}
		}
		var site wire.Site
		var mutant *bft.Message
		var desc string
		sbA := e.msg.SignBytes()
		for attempt := 0; attempt < 40 && mutant == nil; attempt++ {
			site = sites[rapid.IntRange(0, len(sites)-1).Draw(rt, "site")]
			switch {
			case site.Top() == "last_double_sign_evidence" && site.Kind == "list" && rapid.IntRange(0, 2).Draw(rt, "authentic") == 0:
				// class B: authentic material the sender did not send (valid evidence against validator 3, made with the real keys)
				ks, vs := rigValidatorSet(4)
				mutant = proto.Clone(e.msg).(*bft.Message)
				mutant.LastDoubleSignEvidence = append(mutant.LastDoubleSignEvidence, makeDSE(ks, vs, sc.height-1, sc.height-1, []int{0, 1, 3}, []int{2, 3}, "x"))
				desc = "last_double_sign_evidence:append-authentic-evidence"
			case site.Field() == "qc.block" && e.msg.Header != nil && len(e.msg.Qc.GetBlock()) > 0 && rapid.IntRange(0, 1).Draw(rt, "unbound-region") == 0:
				// a bit flip where QuorumCertificate.CheckBasic does not look: Block.BytesToBlockHash hashes the raw header bytes
				// without the header's hash field, so flips in that field (and in transactions / framing) keep the comparison true
				orig, _ := new(lib.Block).BytesToBlockHash(e.msg.Qc.Block)
				for try := 0; try < 64 && mutant == nil; try++ {
					blk := append([]byte(nil), e.msg.Qc.Block...)
					i, bit := rapid.IntRange(0, len(blk)-1).Draw(rt, "byte"), rapid.IntRange(0, 7).Draw(rt, "bit")
					blk[i] ^= 1 << uint(bit)
					if h, err := new(lib.Block).BytesToBlockHash(blk); err == nil && bytes.Equal(h, orig) {
						mutant = proto.Clone(e.msg).(*bft.Message)
						mutant.Qc.Block = blk
						desc = fmt.Sprintf("qc.block:flip-where-CheckBasic-does-not-look(byte %d bit %d)", i, bit)
					}
				}
				if mutant == nil {
					continue
				}
			case site.Field() == "qc.block" && e.msg.Header == nil && rapid.IntRange(0, 1).Draw(rt, "authentic") == 0:
				// class B: a well-formed block (not the one the committee is working on) attached to a vote
				mutant = proto.Clone(e.msg).(*bft.Message)
				mutant.Qc.Block = otherBlock(sc.height)
				desc = "qc.block:attach-wellformed-other-block"
			default:
				ops := site.Ops()
				op := ops[rapid.IntRange(0, len(ops)-1).Draw(rt, "op")]
				mm, ds, ok := site.Mutate(e.msg, op, d)
				if !ok {
					continue
				}
				mutant, desc = mm.(*bft.Message), ds
			}
			if focus > 0 && (!bytes.Equal(sbA, mutant.SignBytes()) || site.Top() == "signature") {
				mutant = nil
			}
		}
		if mutant == nil {
			c.Class("skip:no-mutation-found")
			c.Done(false)
			return
		}
		sigValid := bytes.Equal(sbA, mutant.SignBytes())
		c.Class(fmt.Sprintf("focus=%d", focus))
		bzA, _ := lib.Marshal(e.msg)
		bzB, _ := lib.Marshal(mutant)
		if string(bzA) == string(bzB) {
			c.Class("same-wire-bytes(nil-vs-empty)")
			c.Done(false)
			return
		}
		var only map[int]bool
		mode := "all-receivers"
		if len(e.to) > 1 && rapid.Bool().Draw(rt, "one-receiver") {
			to := e.to[rapid.IntRange(0, len(e.to)-1).Draw(rt, "receiver")]
			only = map[int]bool{to: true}
			mode = fmt.Sprintf("receiver-%d", to)
		}
		order := rapid.IntRange(0, 2).Draw(rt, "delivery-order")
		also := []string{"relay-copy-only", "relay-copy-then-honest-copy", "honest-copy-then-relay-copy"}[order]
		isVoteField := e.kind == "ELECTION_VOTE" && unsignedVoteField(site)
		isTimestamp := e.kind == "COMMIT" && site.Field() == "timestamp"
		c.Desc("%s msg#%d %s from r%d: %s -> %s delivery=%s", sc.name, e.id, e.kind, e.from, desc, mode, also)
		c.Class("kind=" + e.kind)
		c.Class("scenario=" + sc.name)
		c.ClassIf(sigValid && site.Top() != "signature", "mutant-keeps-valid-signature")
		c.ClassIf(sigValid && site.Top() != "signature", "outside-signature:"+e.kind+"."+site.Top())
		if isVoteField && openFinding(kfVoteFields) {
			rec.Exclude(kfVoteFields)
			c.Class("excluded:" + kfVoteFields)
			c.Done(false)
			return
		}
		if order == orderHonestFirst && e.msg.Header != nil && strings.HasPrefix(site.Field(), "qc.block") && openFinding(kfReplace) {
			// open finding: a relayed copy whose block differs only where CheckBasic does not look replaces the stored proposal
			rec.Exclude(kfReplace)
			c.Class("excluded:" + kfReplace)
			c.Done(false)
			return
		}
		if isTimestamp && openFinding(kfTimestamp) {
			rec.Exclude(kfTimestamp)
			c.Class("excluded:" + kfTimestamp)
			c.Done(false)
			return
		}
		res := runScenario(sc, e.id, mutant, only, order)
		accepted, rejected := 0, 0
		for _, errText := range res.accepted {
			if errText == "" {
				accepted++
			} else {
				rejected++
			}
		}
		field := e.kind + "." + site.Field()
		switch {
		case accepted == 0:
			c.Class("rejected")
			c.ClassIf(sigValid && site.Top() != "signature", "rejected-despite-valid-signature:"+e.kind+"."+site.Top())
			c.Done(site.Top() != "signature")
			return
		}
		a, b := decisions(base.trace), decisions(res.trace)
		if diff := firstDiff(a, b); diff != "" {
			if order != orderHonestFirst {
				// a relay can always withhold the copy it forwards. If everything the replicas SAY and COMMIT equals the run in
				// which the message is simply lost for the same receivers, the field was bound after all - only later than
				// HandleMessage (e.g. the block of a PROPOSE: CheckBasic binds the header bytes, the validation that follows
				// binds the rest) - and the mutant achieved nothing a dropped message does not achieve.
				lost := runScenarioDrop(sc, e.id, nil, only, orderReplace, true)
				if firstDiff(external(lost.trace), external(res.trace)) == "" {
					c.Class("accepted-then-rejected-by-validation(bound late, equals message loss)")
					c.Class("bound-late:" + e.kind + "." + site.Field())
					c.Done(site.Top() != "signature")
					return
				}
			}
			replay := saveReplay(rec, "receiver", fmt.Sprintf("scenario=%s\nmessage #%d %s from replica %d\nmutation=%s mode=%s delivery=%s\noriginal: %s\nmutant  : %s\nfirst difference:%s\n\n--- original run ---\n%s\n\n--- mutant run ---\n%s\n",
				sc.name, e.id, e.kind, e.from, desc, mode, also, describeMsg(e.msg), describeMsg(mutant), diff, strings.Join(base.trace, "\n"), strings.Join(res.trace, "\n")))
			rt.Fatalf("a relay rewrote %s of replica %d's signed %s message (%s); the receiver ACCEPTED it (sender's signature still valid) and the replicas then behaved differently:%s\n(full traces: %s)",
				site.Field(), e.from, e.kind, desc, diff, replay)
		}
		c.Class("accepted-no-effect")
		c.Class("accepted-no-effect:" + e.kind + "." + site.Top())
		_ = field
		c.Done(site.Top() != "signature")
	})
}

func saveReplay(rec *ev.Rec, name, content string) string {
	p := filepath.Join(ev.ReplayDir(), "c19-"+name+".txt")
	_ = os.WriteFile(p, []byte(content), 0o644)
	rec.SetReplay(p)
	return p
}

// otherBlock is a well-formed block encoding that is not the proposal of any scenario.
func otherBlock(height uint64) []byte {
	hdr := &lib.BlockHeader{Height: height, NetworkId: rigNet, Time: rigTime + 7, ProposerAddress: make([]byte, 20), LastBlockHash: make([]byte, 32),
		StateRoot: make([]byte, 32), TransactionRoot: make([]byte, 32), ValidatorRoot: make([]byte, 32), NextValidatorRoot: make([]byte, 32)}
	_, _ = hdr.SetHash()
	bz, _ := lib.Marshal(&lib.Block{BlockHeader: hdr})
	return bz
}

type zeroDrawer struct{}

func (zeroDrawer) Intn(int, string) int { return 0 }

var (
	outMu    sync.Mutex
	outCache = map[string][]wire.Site{}
)

// outsideSignature lists the mutation sites of a message for which some single-field mutation leaves the sender's sign bytes
// unchanged while changing the bytes on the wire (probed with every operator of the site and a fixed drawer).
func outsideSignature(scName string, e *env) []wire.Site {
	outMu.Lock()
	defer outMu.Unlock()
	k := fmt.Sprintf("%s/%d", scName, e.id)
	if v, ok := outCache[k]; ok {
		return v
	}
	sb := e.msg.SignBytes()
	wireA, _ := lib.Marshal(e.msg)
	var out []wire.Site
	for _, s := range wire.Sites(e.msg) {
		if s.Top() == "signature" {
			continue
		}
		for _, op := range s.Ops() {
			mm, _, ok := s.Mutate(e.msg, op, zeroDrawer{})
			if !ok {
				continue
			}
			m := mm.(*bft.Message)
			wireB, _ := lib.Marshal(m)
			if bytes.Equal(sb, m.SignBytes()) && !bytes.Equal(wireA, wireB) {
				out = append(out, s)
				break
			}
		}
	}
	outCache[k] = out
	return out
}
