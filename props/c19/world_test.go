package c19

// world_test.go: the shared fixture of the C19(c) robustness checks: one chainsim chain (root chain 1, four validators that
// also form the committee of chain 2, funded accounts of every key family, one open sell order) and valid, really signed
// encodings of every message a peer can send (16 transaction kinds, block, certificate, consensus messages, block /
// transaction gossip messages, p2p envelopes).

import (
	"bytes"
	"fmt"
	"os"
	"path/filepath"
	"sort"
	"sync"

	"github.com/canopy-network/canopy/bft"
	"github.com/canopy-network/canopy/fsm"
	"github.com/canopy-network/canopy/lib"
	"github.com/canopy-network/canopy/lib/crypto"
	"github.com/canopy-network/canopy/p2p"
	"google.golang.org/protobuf/proto"
	"google.golang.org/protobuf/types/known/anypb"

	"verif/h/chainsim"
	"verif/h/keys"
)

type seedTx struct {
	name   string
	raw    []byte
	tx     *lib.Transaction
	signer crypto.PrivateKeyI
}

type world struct {
	c        *chainsim.Chain
	order    []byte // open sell order (committee 2, seller = Ed(5))
	txs      []seedTx
	block    []byte // a valid block for the chain's current height (proposer-built on a fork)
	blockObj *lib.Block
	qc       []byte // a really signed certificate (chain 1) carrying that block
	qcObj    *lib.QuorumCertificate
	vs       lib.ValidatorSet // committee of chain 1 at the current height
	baseDig  string           // digest of the committed state
}

var (
	worldOnce sync.Once
	theWorld  *world
	worldErr  error
)

func getWorld() (*world, error) {
	worldOnce.Do(func() { theWorld, worldErr = buildWorld() })
	return theWorld, worldErr
}

func buildWorld() (*world, error) {
	var vals []chainsim.ValSpec
	for i := 0; i < certVals; i++ {
		vals = append(vals, chainsim.ValSpec{Key: i, OutputKey: -1, Stake: 1_000_000, Committees: []uint64{certRoot, certNested}})
	}
	rich := uint64(1_000_000_000_000)
	accts := []chainsim.AcctSpec{{Kind: 0, Key: 0, Amount: rich}, {Kind: 0, Key: 1, Amount: rich}, {Kind: 0, Key: 2, Amount: rich}, {Kind: 0, Key: 10, Amount: rich},
		{Kind: 1, Key: 5, Amount: rich}, {Kind: 1, Key: 6, Amount: rich}, {Kind: 2, Key: 1, Amount: rich}, {Kind: 3, Key: 1, Amount: rich}}
	g := chainsim.BuildGenesis(certRoot, vals, accts, nil, nil)
	c, err := chainsim.New(chainsim.Opts{Genesis: g, ChainID: certRoot})
	if err != nil {
		return nil, err
	}
	w := &world{c: c}
	seller := keys.Ed(5)
	tx, _, err := c.SignTx(seller, &fsm.MessageCreateOrder{ChainId: certNested, AmountForSale: 5_000_000_000, RequestedAmount: 1_000_000,
		SellerReceiveAddress: bytes.Repeat([]byte{0xab}, 20), SellersSendAddress: chainsim.Addr(seller)}, 100_000, c.Height(), "")
	if err != nil {
		return nil, err
	}
	out, err := c.Block(chainsim.BlockSpec{Txs: [][]byte{tx}})
	if err != nil || out.Err != nil || len(out.Results.Failed) != 0 {
		return nil, fmt.Errorf("create order failed: %v %v", err, out.Err)
	}
	for i := 0; i < 2; i++ {
		if out, err = c.Block(chainsim.BlockSpec{}); err != nil || out.Err != nil {
			return nil, fmt.Errorf("block: %v %v", err, out.Err)
		}
	}
	raw, err := c.Raw()
	if err != nil {
		return nil, err
	}
	ids := raw.SortedOrderIds(certNested)
	if len(ids) != 1 {
		return nil, fmt.Errorf("expected one order, got %v", ids)
	}
	w.order, _ = lib.StringToBytes(ids[0])
	params, e := c.FSM.GetParams()
	if e != nil {
		return nil, e
	}
	fee := params.Fee
	h := c.Height()
	add := func(name string, k crypto.PrivateKeyI, msg lib.MessageI, f uint64) error {
		rawTx, txo, err := c.SignTx(k, msg, f, h, "")
		if err != nil {
			return fmt.Errorf("%s: %v", name, err)
		}
		w.txs = append(w.txs, seedTx{name: name, raw: rawTx, tx: txo, signer: k})
		return nil
	}
	addr := chainsim.Addr
	val := func(i int) []byte { return addr(keys.BLS(i)) }
	u64, _ := anypb.New(&lib.UInt64Wrapper{Value: 20_000})
	// a really signed certificate of committee 2 for the certificate-results transaction
	res := &lib.CertificateResult{RewardRecipients: &lib.RewardRecipients{PaymentPercents: []*lib.PaymentPercents{{Address: addr(keys.Ed(40)), Percent: 60, ChainId: certNested}}},
		SlashRecipients: &lib.SlashRecipients{}, Orders: &lib.Orders{LockOrders: []*lib.LockOrder{{OrderId: w.order, ChainId: certNested, BuyerReceiveAddress: addr(keys.Ed(60)), BuyerSendAddress: bytes.Repeat([]byte{0xcd}, 20), BuyerChainDeadline: 1000}},
			ResetOrders: [][]byte{bytes.Repeat([]byte{0x21}, 20)}, CloseOrders: [][]byte{bytes.Repeat([]byte{0x22}, 20)}},
		Checkpoint: &lib.Checkpoint{Height: 7, BlockHash: crypto.Hash([]byte("cp"))}}
	cqc := &lib.QuorumCertificate{Header: &lib.View{NetworkId: 1, ChainId: certNested, Height: 7, RootHeight: 2, Phase: lib.Phase_PRECOMMIT_VOTE}, Results: res, ResultsHash: res.Hash(),
		BlockHash: crypto.Hash([]byte("nested block 7")), ProposerKey: keys.BLS(0).PublicKey().Bytes()}
	if err = signCert(c, cqc, []int{0, 1, 2, 3}); err != nil {
		return nil, err
	}
	steps := []error{
		add("send(ed25519)", keys.Ed(5), &fsm.MessageSend{FromAddress: addr(keys.Ed(5)), ToAddress: addr(keys.Ed(9)), Amount: 1000}, fee.SendFee),
		add("send(bls)", keys.BLS(0), &fsm.MessageSend{FromAddress: val(0), ToAddress: addr(keys.Ed(9)), Amount: 1000}, fee.SendFee),
		add("send(secp256k1)", keys.Secp(1), &fsm.MessageSend{FromAddress: addr(keys.Secp(1)), ToAddress: addr(keys.Ed(9)), Amount: 1000}, fee.SendFee),
		add("send(eth)", keys.Eth(1), &fsm.MessageSend{FromAddress: addr(keys.Eth(1)), ToAddress: addr(keys.Ed(9)), Amount: 1000, VestingStartHeight: 1, VestingCliffHeight: 2, VestingEndHeight: 3}, fee.SendFee),
		add("stake", keys.BLS(10), &fsm.MessageStake{PublicKey: keys.BLS(10).PublicKey().Bytes(), Amount: 1_000_000, Committees: []uint64{1, 2}, NetAddress: "tcp://10.0.0.1", OutputAddress: val(10)}, fee.StakeFee),
		add("editStake", keys.BLS(0), &fsm.MessageEditStake{Address: val(0), Amount: 1_000_001, Committees: []uint64{1, 2, 3}, NetAddress: "tcp://127.0.0.1", OutputAddress: val(0)}, fee.EditStakeFee),
		add("unstake", keys.BLS(1), &fsm.MessageUnstake{Address: val(1)}, fee.UnstakeFee),
		add("pause", keys.BLS(2), &fsm.MessagePause{Address: val(2)}, fee.PauseFee),
		add("unpause", keys.BLS(2), &fsm.MessageUnpause{Address: val(2)}, fee.UnpauseFee),
		add("changeParameter", keys.BLS(0), &fsm.MessageChangeParameter{ParameterSpace: "fee", ParameterKey: "sendFee", ParameterValue: u64, StartHeight: 1, EndHeight: 100, Signer: val(0)}, fee.ChangeParameterFee),
		add("daoTransfer", keys.BLS(0), &fsm.MessageDAOTransfer{Address: val(0), Amount: 1, StartHeight: 1, EndHeight: 100}, fee.DaoTransferFee),
		add("certificateResults", keys.BLS(0), &fsm.MessageCertificateResults{Qc: cqc}, fee.CertificateResultsFee),
		add("subsidy", keys.Ed(5), &fsm.MessageSubsidy{Address: addr(keys.Ed(5)), ChainId: 2, Amount: 1000, Opcode: []byte("note")}, fee.SubsidyFee),
		add("createOrder", keys.Ed(6), &fsm.MessageCreateOrder{ChainId: 2, Data: []byte{1, 2}, AmountForSale: 2_000_000_000, RequestedAmount: 5, SellerReceiveAddress: bytes.Repeat([]byte{0x11}, 20), SellersSendAddress: addr(keys.Ed(6))}, fee.CreateOrderFee),
		add("editOrder", keys.Ed(5), &fsm.MessageEditOrder{OrderId: w.order, ChainId: 2, AmountForSale: 5_000_000_001, RequestedAmount: 7, SellerReceiveAddress: bytes.Repeat([]byte{0x12}, 20)}, fee.EditOrderFee),
		add("deleteOrder", keys.Ed(5), &fsm.MessageDeleteOrder{OrderId: w.order, ChainId: 2}, fee.DeleteOrderFee),
		add("dexLimitOrder", keys.Ed(5), &fsm.MessageDexLimitOrder{ChainId: 2, AmountForSale: 1000, RequestedAmount: 1, Address: addr(keys.Ed(5))}, fee.DexLimitOrderFee),
		add("dexLiquidityDeposit", keys.Ed(5), &fsm.MessageDexLiquidityDeposit{ChainId: 2, Amount: 1000, Address: addr(keys.Ed(5))}, fee.DexLiquidityDepositFee),
		add("dexLiquidityWithdraw", keys.Ed(5), &fsm.MessageDexLiquidityWithdraw{ChainId: 2, Percent: 10, Address: addr(keys.Ed(5))}, fee.DexLiquidityWithdrawFee),
	}
	for _, e := range steps {
		if e != nil {
			return nil, e
		}
	}
	// a valid block for the current height, built by the proposer path on a fork, and a real certificate over it
	f, err := c.Fork()
	if err != nil {
		return nil, err
	}
	bo, err := f.Block(chainsim.BlockSpec{Txs: [][]byte{w.txs[0].raw, w.txs[1].raw, w.txs[12].raw}})
	f.Close()
	if err != nil || bo.Err != nil {
		return nil, fmt.Errorf("seed block: %v %v", err, bo.Err)
	}
	w.blockObj = bo.Block
	if w.block, e = lib.Marshal(bo.Block); e != nil {
		return nil, e
	}
	w.vs, e = c.FSM.LoadCommittee(certRoot, h)
	if e != nil {
		return nil, e
	}
	bres := &lib.CertificateResult{RewardRecipients: &lib.RewardRecipients{PaymentPercents: []*lib.PaymentPercents{{Address: val(0), Percent: 100, ChainId: certRoot}}}, SlashRecipients: &lib.SlashRecipients{}}
	bqc := &lib.QuorumCertificate{Header: &lib.View{NetworkId: 1, ChainId: certRoot, Height: h, RootHeight: h, Phase: lib.Phase_PRECOMMIT_VOTE}, Results: bres, ResultsHash: bres.Hash(),
		Block: w.block, BlockHash: bo.Header.Hash, ProposerKey: keys.BLS(0).PublicKey().Bytes()}
	if err = signCert(c, bqc, []int{0, 1, 2}); err != nil {
		return nil, err
	}
	w.qcObj = bqc
	if w.qc, e = lib.Marshal(bqc); e != nil {
		return nil, e
	}
	scan, err := c.Scan()
	if err != nil {
		return nil, err
	}
	w.baseDig = chainsim.ScanDigest(scan)
	return w, nil
}

// digest of the chain's working state (committed state when nothing is pending).
func (w *world) digest() string {
	scan, err := w.c.Scan()
	if err != nil {
		return "scan error: " + err.Error()
	}
	return chainsim.ScanDigest(scan)
}

// bftSeeds returns every consensus message of the baseline scenario runs (all 8 kinds), encoded.
func bftSeeds() (out []namedBytes) {
	for _, sc := range scenarios {
		for _, e := range baseline(sc).sent {
			bz, _ := lib.Marshal(e.msg)
			out = append(out, namedBytes{fmt.Sprintf("%s/%s#%d", sc.name, e.kind, e.id), bz})
		}
	}
	return
}

type namedBytes struct {
	name string
	b    []byte
}

func (w *world) blockMsgSeed() []byte {
	bz, _ := lib.Marshal(&lib.BlockMessage{ChainId: certRoot, MaxHeight: w.c.Height(), TotalVdfIterations: 0, BlockAndCertificate: w.qcObj, Time: 1_700_000_000_000_000})
	return bz
}

func (w *world) txMsgSeed() []byte {
	bz, _ := lib.Marshal(&lib.TxMessage{ChainId: certRoot, Txs: [][]byte{w.txs[0].raw, w.txs[15].raw}})
	return bz
}

// envelopeSeeds wraps a message of every topic the way p2p.MultiConn.sendPacket does: Envelope{Any(Packet{topic, eof, bytes})}.
func (w *world) envelopeSeeds() (out []namedBytes) {
	mk := func(name string, topic lib.Topic, payload []byte) {
		a, _ := anypb.New(&p2p.Packet{StreamId: topic, Eof: true, Bytes: payload})
		bz, _ := lib.Marshal(&p2p.Envelope{Payload: a})
		out = append(out, namedBytes{name, bz})
	}
	mk("envelope/tx", lib.Topic_TX, w.txMsgSeed())
	mk("envelope/block", lib.Topic_BLOCK, w.blockMsgSeed())
	seeds := bftSeeds()
	mk("envelope/consensus", lib.Topic_CONSENSUS, seeds[len(seeds)/2].b)
	req, _ := lib.Marshal(&lib.BlockRequestMessage{ChainId: certRoot, Height: 3})
	mk("envelope/block-request", lib.Topic_BLOCK_REQUEST, req)
	return
}

// corpusDir is where committed seed inputs of a fuzz target live.
func corpusDir(target string) string {
	root := os.Getenv("VERIF_ROOT")
	if root == "" {
		root = "/verif"
	}
	return filepath.Join(root, "corpus", "c19", target)
}

// loadCorpus reads the committed seeds of a target (sorted by name).
func loadCorpus(target string) (out []namedBytes) {
	ents, err := os.ReadDir(corpusDir(target))
	if err != nil {
		return nil
	}
	var names []string
	for _, e := range ents {
		if !e.IsDir() {
			names = append(names, e.Name())
		}
	}
	sort.Strings(names)
	for _, n := range names {
		if b, err := os.ReadFile(filepath.Join(corpusDir(target), n)); err == nil {
			out = append(out, namedBytes{n, b})
		}
	}
	return
}

var _ = proto.Clone
var _ = bft.Election
