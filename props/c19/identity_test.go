package c19

// identity_test.go: C19(a) on the KEYED COLLECTIONS of the BFT: items with different meaning must not share an identity key.
// TestC19aSignBytes / TestC19aReceiver look at digests and at behaviour after one message; this test looks at the maps a
// replica files things under (PartialQCs, the evidence de-duplicator, pacemaker messages, vote sets): it feeds a real
// replica PAIRS (or small sets) of items that differ in exactly one respect and checks that both are retained - or, where
// the collection is keyed by less than the whole item on purpose (one pacemaker message per sender, one vote set per signed
// payload), that exactly the declared part decides.

import (
	"bytes"
	"fmt"
	"sort"
	"strings"
	"testing"

	"github.com/canopy-network/canopy/bft"
	"github.com/canopy-network/canopy/lib"
	"github.com/canopy-network/canopy/lib/crypto"
	"google.golang.org/protobuf/proto"
	"pgregory.net/rapid"

	"verif/h/ev"
	"verif/h/wire"
)

// signQC puts a real aggregate of the given committee members over qc.SignBytes() into qc.
func signQC(ks []crypto.PrivateKeyI, vs lib.ValidatorSet, qc *lib.QuorumCertificate, signers []int) {
	mk := vs.MultiKey.Copy()
	sb := qc.SignBytes()
	for _, i := range signers {
		if err := mk.AddSigner(ks[i].Sign(sb), i); err != nil {
			panic(err)
		}
	}
	sig, err := mk.AggregateSignatures()
	if err != nil {
		panic(err)
	}
	qc.Signature = &lib.AggregateSignature{Signature: sig, Bitmap: mk.Bitmap()}
}

func subsetName(s []int) string {
	return strings.Trim(strings.Join(strings.Fields(fmt.Sprint(s)), ","), "[]")
}

func doubleSignerSet(p *replica, evidence []*bft.DoubleSignEvidence) (string, error) {
	ds, err := p.b.ProcessDSE(evidence...)
	if err != nil {
		return "", err
	}
	var ids []string
	seen := map[string]bool{}
	for _, d := range ds {
		for i, k := range p.r.keys {
			if bytes.Equal(k.PublicKey().Bytes(), d.Id) && !seen[fmt.Sprint(i)] {
				seen[fmt.Sprint(i)] = true
				ids = append(ids, fmt.Sprint(i))
			}
		}
	}
	sort.Strings(ids)
	return strings.Join(ids, ","), nil
}

func TestC19aIdentityMaps(t *testing.T) {
	rec := ev.New(t, "C19")
	ks, vs := rigValidatorSet(4)
	rapid.Check(t, func(rt *rapid.T) {
		c := rec.Case()
		d := rd{rt}
		mode := []string{"partial-qcs-in-situ", "partial-qcs-in-situ", "partial-qc-pair", "evidence-dedup", "pacemaker", "vote-sets"}[rapid.IntRange(0, 5).Draw(rt, "mode")]
		c.Class("mode=" + mode)
		switch mode {
		case "partial-qcs-in-situ":
			// a Byzantine validator sends several PARTIAL certificates (same view, really signed by different small subsets)
			// that conflict with the full certificate of the round; the replica must keep them all and turn every one into
			// evidence: the double signers are the union over the partial certificates
			lateFull := rapid.Bool().Draw(rt, "conflict-with-commit-certificate")
			r := newRig(rigOpts{n: 4, height: 3, rootH: 3})
			steps, kind := 5, "PRECOMMIT"
			if lateFull {
				steps, kind = 7, "COMMIT"
			}
			for i := 0; i < steps; i++ {
				r.stepAll()
			}
			var leaderMsg *bft.Message
			for _, e := range r.sent {
				if e.kind == kind {
					leaderMsg = e.msg
				}
			}
			if leaderMsg == nil {
				rt.Fatalf("harness: no %s message in the run", kind)
			}
			full := leaderMsg.Qc
			n := rapid.IntRange(2, 3).Draw(rt, "partials")
			samePayload := rapid.IntRange(0, 3).Draw(rt, "same-payload") != 0
			byz := rapid.IntRange(0, 3).Draw(rt, "byzantine-sender")
			to := rapid.IntRange(0, 3).Draw(rt, "receiver")
			subsets := [][]int{{0}, {1}, {2}, {3}, {0, 1}, {0, 2}, {0, 3}, {1, 2}, {1, 3}, {2, 3}}
			var used []string
			union := map[int]bool{}
			distinct := map[string]bool{}
			for i := 0; i < n; i++ {
				sub := subsets[rapid.IntRange(0, len(subsets)-1).Draw(rt, "signers")]
				tag := "other"
				if !samePayload {
					tag = fmt.Sprintf("other-%d", i)
				}
				pq := &lib.QuorumCertificate{Header: proto.Clone(full.Header).(*lib.View), BlockHash: crypto.Hash([]byte("block-" + tag)), ResultsHash: crypto.Hash([]byte("results-" + tag)), ProposerKey: full.ProposerKey}
				signQC(ks, vs, pq, sub)
				m := &bft.Message{Header: proto.Clone(leaderMsg.Header).(*lib.View), Qc: pq, RcBuildHeight: leaderMsg.RcBuildHeight}
				if e := m.Sign(ks[byz]); e != nil {
					rt.Fatalf("harness: %v", e)
				}
				if e := r.R[to].b.HandleMessage(cloneMsg(m)); e != nil {
					rt.Fatalf("harness: the replica rejected a well-formed partial certificate: %v", e)
				}
				bz, _ := lib.Marshal(pq)
				distinct[string(bz)] = true
				used = append(used, tag+"{"+subsetName(sub)+"}")
				for _, s := range sub {
					union[s] = true
				}
			}
			c.Desc("partial certificates of view %s from validator %d to replica %d: %v", kind, byz, to, used)
			c.ClassIf(samePayload, "same-view-and-payload-different-signers")
			if got := len(r.R[to].b.PartialQCs); got != len(distinct) {
				rt.Fatalf("replica %d was sent %d different partial certificates %v (same view%s) but retains %d: certificates with different signers share an identity key",
					to, len(distinct), used, map[bool]string{true: " and payload", false: ""}[samePayload], got)
			}
			var want []string
			for i := 0; i < 4; i++ {
				if union[i] {
					want = append(want, fmt.Sprint(i))
				}
			}
			got, err := doubleSignerSet(r.R[to], r.R[to].b.GetLocalDSE().Evidence)
			if err != nil {
				rt.Fatalf("harness: ProcessDSE: %v", err)
			}
			if got != strings.Join(want, ",") {
				rt.Fatalf("replica %d holds partial certificates %v conflicting with the round's full certificate; its evidence (GetLocalDSE) exposes double signers {%s}, the certificates expose {%s}", to, used, got, strings.Join(want, ","))
			}
			c.Done(true)
		case "partial-qc-pair":
			// any two certificates that differ on the wire are different items of the PartialQCs collection
			qc := new(lib.QuorumCertificate)
			wire.Fill(qc, d, fillOpts(nil))
			sites := wire.Sites(qc)
			site := sites[rapid.IntRange(0, len(sites)-1).Draw(rt, "site")]
			ops := site.Ops()
			mm, desc, ok := site.Mutate(qc, ops[rapid.IntRange(0, len(ops)-1).Draw(rt, "op")], d)
			if !ok {
				c.Done(false)
				return
			}
			a, _ := lib.Marshal(qc)
			b, _ := lib.Marshal(mm)
			r := newRig(rigOpts{n: 4, height: 3, rootH: 3})
			_ = r.R[0].b.AddPartialQC(&bft.Message{Qc: qc})
			_ = r.R[0].b.AddPartialQC(&bft.Message{Qc: mm.(*lib.QuorumCertificate)})
			want := 2
			if bytes.Equal(a, b) {
				want = 1
			}
			c.Desc("partial-qc-pair %s", desc)
			c.Class("field=" + site.Top())
			if got := len(r.R[0].b.PartialQCs); got != want {
				rt.Fatalf("two certificates that differ in %s (%s) are filed as %d item(s) in PartialQCs, want %d", site.Field(), desc, got, want)
			}
			c.Done(want == 2)
		case "evidence-dedup":
			// authentic evidence items of one view: same payloads, different signers of the second vote -> different items;
			// the same item twice -> one
			subsets := [][]int{{2, 3}, {1, 3}, {0, 3}, {3}, {2}, {1, 2}}
			s1 := subsets[rapid.IntRange(0, len(subsets)-1).Draw(rt, "signers1")]
			s2 := subsets[rapid.IntRange(0, len(subsets)-1).Draw(rt, "signers2")]
			e1 := makeDSE(ks, vs, 2, 2, []int{0, 1, 2, 3}, s1, "d")
			e2 := makeDSE(ks, vs, 2, 2, []int{0, 1, 2, 3}, s2, "d")
			r := newRig(rigOpts{n: 4, height: 3, rootH: 3})
			dse := bft.NewDSE()
			for _, e := range []*bft.DoubleSignEvidence{e1, e2, proto.Clone(e1).(*bft.DoubleSignEvidence)} {
				if err := r.R[0].b.AddDSE(&dse, e); err != nil {
					rt.Fatalf("harness: AddDSE: %v", err)
				}
			}
			want := 2
			if subsetName(s1) == subsetName(s2) {
				want = 1
			}
			c.Desc("evidence second vote signed by {%s} and {%s}", subsetName(s1), subsetName(s2))
			if got := len(dse.Evidence); got != want {
				rt.Fatalf("evidence items whose second vote is signed by {%s} and by {%s} (+ a repetition of the first) are kept as %d item(s), want %d", subsetName(s1), subsetName(s2), got, want)
			}
			c.Done(want == 2)
		case "pacemaker":
			// declared: one entry per SENDER, the latest message wins
			r := newRig(rigOpts{n: 4, height: 3, rootH: 3})
			a, b := rapid.IntRange(0, 3).Draw(rt, "senderA"), rapid.IntRange(0, 3).Draw(rt, "senderB")
			ra, rb := uint64(rapid.IntRange(0, 5).Draw(rt, "roundA")), uint64(rapid.IntRange(0, 5).Draw(rt, "roundB"))
			for _, x := range []struct {
				s int
				r uint64
			}{{a, ra}, {b, rb}} {
				m := &bft.Message{Qc: &lib.QuorumCertificate{Header: &lib.View{NetworkId: rigNet, ChainId: rigChain, Height: 3, RootHeight: 3, Round: x.r, Phase: lib.Phase_ROUND_INTERRUPT}}}
				_ = m.Sign(ks[x.s])
				if e := r.R[0].b.HandleMessage(cloneMsg(m)); e != nil {
					rt.Fatalf("harness: pacemaker message rejected: %v", e)
				}
			}
			want := 2
			if a == b {
				want = 1
			}
			c.Desc("pacemaker r%d@%d r%d@%d", a, ra, b, rb)
			pm := r.R[0].b.PacemakerMessages
			if len(pm) != want || pm[lib.BytesToString(ks[b].PublicKey().Bytes())].Qc.Header.Round != rb {
				rt.Fatalf("pacemaker messages of validators %d (round %d) and %d (round %d): table has %d entries, latest of %d is round %d", a, ra, b, rb, len(pm), b, pm[lib.BytesToString(ks[b].PublicKey().Bytes())].Qc.Header.Round)
			}
			c.Done(a != b)
		case "vote-sets":
			// declared: one vote set per (round, phase, SIGNED payload); votes of different validators for the same payload share
			// it, a vote whose signed payload differs in any field gets its own
			phase := votePhases[rapid.IntRange(0, 2).Draw(rt, "phase")]
			vote := &bft.Message{Qc: &lib.QuorumCertificate{Header: &lib.View{NetworkId: rigNet, ChainId: rigChain, Height: 3, RootHeight: 3, Round: 1, Phase: phase},
				BlockHash: crypto.Hash([]byte("b")), ResultsHash: crypto.Hash([]byte("r")), ProposerKey: ks[1].PublicKey().Bytes()}}
			sites := wire.Sites(vote)
			site := sites[rapid.IntRange(0, len(sites)-1).Draw(rt, "site")]
			ops := site.Ops()
			mm, desc, ok := site.Mutate(vote, ops[rapid.IntRange(0, len(ops)-1).Draw(rt, "op")], d)
			if !ok || site.Top() == "signature" {
				c.Done(false)
				return
			}
			other := mm.(*bft.Message)
			if !other.IsReplicaMessage() || other.Qc.Header.Round != 1 || other.Qc.Header.Phase != phase {
				c.Class("skip:mutant-is-not-a-vote-of-the-same-round-and-phase")
				c.Done(false)
				return
			}
			_ = vote.Sign(ks[0])
			_ = other.Sign(ks[2])
			r := newRig(rigOpts{n: 4, height: 3, rootH: 3})
			if e := r.R[1].b.AddVote(cloneMsg(vote)); e != nil {
				rt.Fatalf("harness: AddVote: %v", e)
			}
			if e := r.R[1].b.AddVote(cloneMsg(other)); e != nil {
				c.Class("skip:mutant-vote-rejected")
				c.Done(false)
				return
			}
			sets := 0
			for _, byPhase := range r.R[1].b.Votes[1] {
				sets += len(byPhase)
			}
			want := 2
			if bytes.Equal(vote.SignBytes(), other.SignBytes()) {
				want = 1
			}
			c.Desc("vote-sets %s %s", lib.Phase_name[int32(phase)], desc)
			c.ClassIf(want == 1, "outside-the-signed-payload")
			if sets != want {
				rt.Fatalf("two %s votes that differ in %s (%s; signed payloads equal: %v) are filed in %d vote set(s), want %d", lib.Phase_name[int32(phase)], site.Field(), desc, want == 1, sets, want)
			}
			c.Done(true)
		}
	})
}
