package c01

import (
	"bytes"
	"fmt"
	"strings"
	"testing"

	"github.com/canopy-network/canopy/lib"

	bs "verif/h/bftsim"
)

// TestC01Reg_StaleQCAcrossRootBump is the scripted scenario of DESIGN finding 4.1 (fixed in /repo by
// "fix: order locks by (root height, round) in the BFT safe-node predicate"). 4 equal validators, D Byzantine
// (its engine follows the protocol, the network withholds its PRECOMMIT): D leads (root 5, round 2) and
// collects a +2/3 PROPOSE_VOTE certificate for Y; root bump to 6; an honest leader L leads (6,0), everybody
// correct locks X, COMMIT reaches only L which commits X; D leads (6,1) and re-proposes Y with the stale
// certificate of (5,2) as HighQc. The two remaining correct replicas must refuse to unlock.
// honestOnly: can L be elected at (root, round) by the votes of the three correct replicas alone?
func honestOnly(s *bs.Sim, root, round uint64, L int) bool {
	pl := s.PlanLeader(root, round, L, []int{0, 1, 2})
	return pl.OK && pl.Votes-10 >= 30
}

func TestC01Reg_StaleQCAcrossRootBump(t *testing.T) {
	const D = 3
	var s *bs.Sim
	var L int
	var seed uint64
	found := false
	for seed = 0; seed < 400 && !found; seed++ {
		s = bs.New(bs.Config{Power: []uint64{10, 10, 10, 10}, Byz: []bool{false, false, false, true}, Height: 1, RootHeight: 5, Seed: seed})
		all := []int{0, 1, 2, 3}
		if !s.PlanLeader(5, 2, D, all).OK {
			s.Close()
			continue
		}
		for L = 0; L < 3; L++ {
			var rest []int
			for _, i := range all {
				if i != L {
					rest = append(rest, i)
				}
			}
			if honestOnly(s, 6, 0, L) && s.PlanLeader(6, 1, D, rest).OK {
				found = true
				break
			}
		}
		if !found {
			s.Close()
		}
	}
	if !found {
		t.Fatalf("no sortition seed makes the script feasible")
	}
	defer s.Close()
	t.Logf("seed=%d honest leader L=%d", seed-1, L)
	all := []int{0, 1, 2, 3}
	steer := func(root, round uint64, want int, voters []int, extra func(e *bs.Env, to int) bool) *bs.RoundPolicy {
		pl := s.PlanLeader(root, round, want, voters)
		return &bs.RoundPolicy{Route: func(e *bs.Env, to int) bool {
			if e.Kind == "EL" && pl.Suppress[e.From] {
				return false
			}
			if e.Kind == "PM" || e.Kind == "BLOCK" {
				return false
			}
			return extra == nil || extra(e, to)
		}}
	}
	none := &bs.RoundPolicy{Route: func(*bs.Env, int) bool { return false }}
	s.RunRound(none) // (5,0) burnt
	s.RunRound(none) // (5,1) burnt
	// (5,2): D leads, PRECOMMIT withheld
	s.RunRound(steer(5, 2, D, all, func(e *bs.Env, to int) bool { return e.Kind != "PC" }))
	pc := s.LeaderMsg(D, 5, 2, "PC")
	if pc == nil || s.CertPower(pc.Msg.Qc) < 30 {
		t.Fatalf("setup: D did not collect a +2/3 PROPOSE_VOTE certificate at (5,2): %s", bs.Wrap(s.Descriptor()))
	}
	Y := pc.Msg.Qc.BlockHash
	for _, i := range []int{0, 1, 2} {
		if s.R[i].B.HighQC != nil {
			t.Fatalf("setup: replica %d locked although PRECOMMIT was withheld", i)
		}
	}
	s.RootBumpAll()
	// (6,0): L leads, everybody correct locks X, COMMIT reaches only L (its own copy)
	// (D is Byzantine: it does not report its lock on Y to L and stays silent in this round)
	s.RunRound(steer(6, 0, L, []int{0, 1, 2}, func(e *bs.Env, to int) bool { return e.Kind != "CM" && e.From != D }))
	if s.R[L].Committed == nil {
		t.Fatalf("setup: L did not commit at (6,0): %s", bs.Wrap(s.Descriptor()))
	}
	X := s.R[L].Committed.BlockHash
	if bytes.Equal(X, Y) {
		t.Fatalf("setup: X == Y")
	}
	var rest []int
	for _, i := range all {
		if i != L {
			rest = append(rest, i)
		}
	}
	for _, i := range rest {
		if i == D {
			continue
		}
		if h := s.R[i].B.HighQC; h == nil || !bytes.Equal(h.BlockHash, X) || h.Header.RootHeight != 6 || h.Header.Round != 0 {
			t.Fatalf("setup: replica %d is not locked on X at (6,0)", i)
		}
	}
	// (6,1): D leads and re-proposes Y justified by the certificate of (5,2); D crafts the messages itself
	// (its engine would adopt the higher lock reported in the election votes)
	var honestRest []int
	for _, i := range rest {
		if i != D {
			honestRest = append(honestRest, i)
		}
	}
	bl := &bs.ByzLeader{S: s, D: D, Root: 6, Round: 1, Props: []*bs.Proposal{s.BlockOf(Y)}, HighQcs: []*lib.QuorumCertificate{pc.Msg.Qc},
		Targets: [][]int{honestRest}, CoSigners: []int{D}}
	pol := steer(6, 1, D, rest, func(e *bs.Env, to int) bool { return !bl.SuppressEngine(e) })
	pol.After = bl.After
	s.RunRound(pol)
	pr := s.FindEnv(func(e *bs.Env) bool {
		return e.Kind == "PR" && e.Crafted && e.View.RootHeight == 6 && e.View.Round == 1
	})
	if pr == nil || pr.Msg.HighQc == nil || pr.Msg.HighQc.Header.RootHeight != 5 || pr.Msg.HighQc.Header.Round != 2 || !bytes.Equal(pr.Msg.Qc.BlockHash, Y) {
		t.Fatalf("setup: D did not re-propose Y with the stale certificate: %s", bs.Wrap(s.Descriptor()))
	}
	for _, i := range honestRest {
		if !strings.Contains(s.Descriptor(), fmt.Sprintf("D%d>%d ", pr.ID, i)) {
			t.Fatalf("setup: the stale re-proposal m%d was not accepted for storage by replica %d: %s", pr.ID, i, bs.Wrap(s.Descriptor()))
		}
	}
	t.Log(s.Descriptor())
	if err := CheckHistory(s, false); err != nil {
		t.Fatalf("VIOLATION: %v\nschedule: %s", err, bs.Wrap(s.Descriptor()))
	}
}
