// Package c01 decides property C01: BFT agreement. N real bft.BFT replicas run against each other inside
// bftsim under generated schedules and Byzantine behaviour (scenario families F1-F6, package bftscen); the
// oracle evaluates invariants over the recorded history.
package c01

import (
	"os"
	"testing"

	"pgregory.net/rapid"

	"verif/h/bftscen"
	bs "verif/h/bftsim"
	"verif/h/ev"
)

func TestC01Agreement(t *testing.T) {
	rec := ev.New(t, "C01")
	fams := os.Getenv("C01_FAMILIES")
	rapid.Check(t, func(rt *rapid.T) {
		c := rec.Case()
		res := bftscen.Run(rt, bftscen.Options{AllowDupReset: true, Families: fams})
		defer res.S.Close()
		for _, l := range res.Classes {
			c.Class(l)
		}
		c.Desc(res.Header())
		c.Desc(res.S.Descriptor())
		rep := res.S.CheckSafety()
		if res.DupReset && len(rep.DoubleSig) > 0 {
			// informational (DESIGN C01 Limits): a duplicate notification of the SAME root height restarts round 0 inside a
			// view the replica has already signed in; the property quantifies over root-chain *updates* only
			c.Class("info:dup-reset-made-correct-replica-sign-twice")
			c.Done(false)
			return
		}
		if err := CheckHistory(res.S, false); err != nil {
			rt.Fatalf("C01 VIOLATION: %v\ncase: %s\nschedule: %s", err, res.Header(), bs.Wrap(res.S.Descriptor()))
		}
		c.Done(res.Nontrivial())
	})
}
