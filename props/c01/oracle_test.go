package c01

import (
	"fmt"
	"strings"

	bs "verif/h/bftsim"
)

// CheckHistory evaluates invariants (a)-(d) of C01 over the history of the simulation. With dupReset (the case
// contains the labelled "same root height repeated reset" action) a failure of (d) is informational and - because
// the premise of agreement (every correct replica signs once per view) is gone - nothing else is asserted.
func CheckHistory(s *bs.Sim, dupReset bool) error {
	rep := s.CheckSafety()
	if dupReset && len(rep.DoubleSig) > 0 {
		return nil
	}
	if v := rep.Violations(true); len(v) > 0 {
		return fmt.Errorf("%s", strings.Join(v, "; "))
	}
	return nil
}
