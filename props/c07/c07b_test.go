// C07 part (b): block-level atomicity on real nodes (h/nodesim). A victim node N is offered generated BAD proposals
// (Controller.ValidateProposal) and BAD peer blocks (Controller.HandlePeerBlock, live and syncing) interleaved with good
// blocks; its twin T sees only the good ones. After every rejection N must be indistinguishable from T - committed
// version, last header, full committed AND working state, indexer - and both stay in lock-step afterwards.
package c07

import (
	"bytes"
	"fmt"
	"math"
	"sort"
	"strings"
	"testing"

	"github.com/canopy-network/canopy/lib"
	"github.com/canopy-network/canopy/lib/crypto"
	"pgregory.net/rapid"

	"verif/h/ev"
	"verif/h/keys"
	"verif/h/nodesim"
	"verif/h/storemodel"
)

const kfStaleResult = "KF-C07-stale-cached-result"

var c07bKinds = []string{"send", "send", "send", "send-self", "send-broke", "double-spend", "stake-new", "edit-stake-up", "pause", "unstake", "subsidy", "bad-sig", "create-order", "create-order", "lock-orders", "lock-orders"}

var badKinds = []string{"hdr-state-root", "hdr-tx-root", "hdr-validator-root", "hdr-next-validator-root", "hdr-total-txs", "hdr-num-txs", "hdr-last-block-hash", "hdr-proposer",
	"hdr-height", "hdr-network", "failing-tx", "failing-tx", "failing-tx", "dup-tx", "drop-tx", "results-swap", "results-swap", "lastqc-sig", "lastqc-payload", "lastqc-partial", "lastqc-alt+state-root", "lastqc-alt+state-root", "lastqc-alt+failing-tx", "lastqc-bitmap-len", "lastqc-bitmap-len",
	"cert-below-threshold", "cert-sig-garbled", "cert-extra-bits", "cert-wrong-phase"}

func mm(m any) []byte {
	bz, err := lib.Marshal(m)
	if err != nil {
		panic(err)
	}
	return bz
}

type world7 struct {
	t    *rapid.T
	cs   *ev.Case
	sim  *nodesim.Sim
	w    *nodesim.World
	ring nodesim.KeyRing
	a    *nodesim.Node // honest proposer
	n    *nodesim.Node // victim
	tw   *nodesim.Node // twin
	// skipCerts: N accepted an unverified certificate version while syncing; its last indexed certificate differs from the
	// twin's until the next block re-indexes it from its header
	skipCerts bool
	forceKind string // the next bad offer must be of this kind (plan)
}

func (x *world7) fatalf(format string, a ...any) {
	x.t.Fatalf("%s", clipLines7b(fmt.Sprintf("%s\nhistory: %s", fmt.Sprintf(format, a...), x.cs.Descriptor()), 16000))
}

func TestC07bBlockAtomicity(t *testing.T) {
	rec := ev.New(t, "C07")
	rapid.Check(t, func(t *rapid.T) { runC07b(t, rec) })
}

// bad builds a bad variant of a good proposal; returns the certificate to offer, the delivery mode and a description.
// modes: "validate" (ValidateProposal), "peer" (HandlePeerBlock live; needs a verifying certificate unless the
// certificate itself is the bad part), "sync" (HandlePeerBlock while syncing: certificates are not verified)
func (x *world7) bad(p *nodesim.Proposal, good *lib.QuorumCertificate, vs lib.ValidatorSet) (qc *lib.QuorumCertificate, kind string, lateWrites, certOnly, validateOnly, syncOnly bool) {
	t := x.t
	kind = rapid.SampledFrom(badKinds).Draw(t, "badKind")
	if x.forceKind != "" {
		kind, x.forceKind = x.forceKind, ""
	}
	blk := new(lib.Block)
	if err := lib.Unmarshal(p.Block, blk); err != nil {
		x.fatalf("decode: %v", err)
	}
	hd := blk.BlockHeader
	results := good.Results
	flip := func(b []byte) []byte {
		o := append([]byte(nil), b...)
		o[rapid.IntRange(0, len(o)-1).Draw(t, "i")] ^= 0x04
		return o
	}
	signers := nodesim.AllSigners(vs)
	phase := lib.Phase_PRECOMMIT_VOTE
	garble := false
	extraBits := false
	switch kind {
	case "hdr-state-root":
		hd.StateRoot, lateWrites = flip(hd.StateRoot), true
	case "hdr-tx-root":
		hd.TransactionRoot, lateWrites = flip(hd.TransactionRoot), true
	case "hdr-validator-root":
		hd.ValidatorRoot, lateWrites = flip(hd.ValidatorRoot), true
	case "hdr-next-validator-root":
		hd.NextValidatorRoot, lateWrites = flip(hd.NextValidatorRoot), true
	case "hdr-total-txs":
		hd.TotalTxs, lateWrites = hd.TotalTxs+1, true
	case "hdr-num-txs":
		hd.NumTxs, lateWrites = hd.NumTxs+1, true
	case "hdr-last-block-hash":
		hd.LastBlockHash, lateWrites = flip(hd.LastBlockHash), true
	case "hdr-proposer":
		hd.ProposerAddress, lateWrites = flip(hd.ProposerAddress), true
	case "hdr-height":
		hd.Height += uint64(rapid.IntRange(1, 2).Draw(t, "dh"))
	case "hdr-network":
		hd.NetworkId += 1
	case "failing-tx":
		// a transaction that fails on execution (after its fee was taken) at a generated position; roots left as they were
		pos := rapid.IntRange(0, len(blk.Transactions)).Draw(t, "pos")
		bad := x.w.GenTx(t, hd.Height, []string{rapid.SampledFrom([]string{"send-broke", "send-broke", "bad-sig", "change-param", "hostile-amount"}).Draw(t, "failKind")})[0]
		txs := append([][]byte{}, blk.Transactions[:pos]...)
		txs = append(txs, bad.Bytes)
		blk.Transactions = append(txs, blk.Transactions[pos:]...)
		kind += "@" + fmt.Sprint(pos) + "/" + fmt.Sprint(len(blk.Transactions)) + ":" + bad.Kind
		lateWrites = pos > 0
	case "dup-tx":
		if len(blk.Transactions) == 0 {
			hd.StateRoot, kind, lateWrites = flip(hd.StateRoot), "hdr-state-root", true
			break
		}
		i := rapid.IntRange(0, len(blk.Transactions)-1).Draw(t, "i")
		blk.Transactions = append(blk.Transactions, blk.Transactions[i])
		lateWrites = true
	case "drop-tx":
		if len(blk.Transactions) == 0 {
			hd.StateRoot, kind, lateWrites = flip(hd.StateRoot), "hdr-state-root", true
			break
		}
		blk.Transactions = blk.Transactions[:len(blk.Transactions)-1]
		lateWrites = true
	case "results-swap":
		results = nodesim.CloneQC(good).Results
		if len(results.RewardRecipients.PaymentPercents) > 0 {
			results.RewardRecipients.PaymentPercents[0].Address = flip(results.RewardRecipients.PaymentPercents[0].Address)
		} else {
			results.Retired = !results.Retired
		}
		// (only a validator compares the results with its own computation; a committing node trusts the +2/3 that signed them)
		lateWrites, validateOnly = true, true
	case "lastqc-alt+state-root", "lastqc-alt+failing-tx":
		// the embedded last certificate is a VALID ALTERNATIVE +2/3 certificate of the last height (another signer subset);
		// the block has a second, real defect. The node indexes the alternative before it executes and rejects the block:
		// after the reset it must serve the committed version of that certificate again
		if hd.Height <= 1 {
			hd.StateRoot, kind, lateWrites = flip(hd.StateRoot), "hdr-state-root", true
			break
		}
		last := hd.LastQuorumCertificate
		lvs, e := x.a.Committee(last.Header.RootHeight)
		if e != nil {
			x.fatalf("committee: %v", e)
		}
		// all members but the weakest, if that still is a quorum
		n := len(lvs.ValidatorSet.ValidatorSet)
		var alt []int
		for i := 0; i < n-1; i++ {
			alt = append(alt, i)
		}
		if _, thr, sp := nodesim.Power(lvs, alt); n < 2 || sp.Cmp(thr) < 0 {
			hd.StateRoot, kind, lateWrites = flip(hd.StateRoot), "hdr-state-root", true
			break
		}
		last.Signature = nil
		sig, err := nodesim.Aggregate(last.SignBytes(), lvs, x.ring, alt)
		if err != nil {
			x.fatalf("aggregate: %v", err)
		}
		last.Signature = sig
		if kind == "lastqc-alt+state-root" {
			hd.StateRoot = flip(hd.StateRoot)
		} else {
			bad := x.w.GenTx(t, hd.Height, []string{"send-broke"})[0]
			blk.Transactions = append(blk.Transactions, bad.Bytes)
		}
		lateWrites = true
	case "lastqc-bitmap-len":
		// the embedded last certificate keeps its payload but carries a signer bitmap of the wrong length: a syncing node does
		// not verify that signature, indexes the certificate and fails INSIDE BeginBlock (non-signer accounting) - after the
		// certificate results of the last height (order locks, ...) have already emitted their events
		if hd.Height <= 1 {
			hd.StateRoot, kind, lateWrites = flip(hd.StateRoot), "hdr-state-root", true
			break
		}
		hd.LastQuorumCertificate.Signature.Bitmap = append(append([]byte(nil), hd.LastQuorumCertificate.Signature.Bitmap...), 0x01)
		lateWrites, syncOnly = true, true
	case "lastqc-sig", "lastqc-payload", "lastqc-partial":
		if hd.Height <= 1 {
			hd.StateRoot, kind, lateWrites = flip(hd.StateRoot), "hdr-state-root", true
			break
		}
		last := hd.LastQuorumCertificate
		switch kind {
		case "lastqc-sig":
			last.Signature.Signature = flip(last.Signature.Signature)
		case "lastqc-payload":
			last.BlockHash = flip(last.BlockHash)
		case "lastqc-partial":
			lvs, e := x.a.Committee(last.Header.RootHeight)
			if e != nil {
				x.fatalf("committee: %v", e)
			}
			// the weakest member alone; if even that is a quorum there is no genuine partial certificate: garble instead
			weakest := len(lvs.ValidatorSet.ValidatorSet) - 1
			if _, thr, sp := nodesim.Power(lvs, []int{weakest}); sp.Cmp(thr) >= 0 {
				last.Signature.Signature = flip(last.Signature.Signature)
				kind = "lastqc-sig"
				break
			}
			last.Signature = nil
			sig, err := nodesim.Aggregate(last.SignBytes(), lvs, x.ring, []int{weakest})
			if err != nil {
				x.fatalf("aggregate: %v", err)
			}
			last.Signature = sig
		}
	case "cert-below-threshold":
		certOnly = true
		one := []int{rapid.IntRange(0, len(signers)-1).Draw(t, "one")}
		if _, thr, s := nodesim.Power(vs, one); s.Cmp(thr) >= 0 {
			kind, garble = "cert-sig-garbled", true // a single validator holds +2/3: no genuine partial certificate exists
		} else {
			signers = one
		}
	case "cert-sig-garbled":
		certOnly, garble = true, true
	case "cert-extra-bits":
		certOnly = true
		if len(signers) < 2 {
			kind, garble = "cert-sig-garbled", true // one-member committee: there is no unsigned bit to add
		} else {
			extraBits, signers = true, signers[:1]
		}
	case "cert-wrong-phase":
		certOnly, phase = true, lib.Phase_PROPOSE_VOTE
	}
	np := &nodesim.Proposal{Height: p.Height, RcBuildHeight: p.RcBuildHeight, Block: p.Block, BlockHash: p.BlockHash, Results: results}
	if !certOnly {
		hd.Hash = nil
		hash, err := hd.SetHash()
		if err != nil {
			x.fatalf("sethash: %v", err)
		}
		np.Block, np.BlockHash = mm(blk), hash
	}
	view := good.Header
	view = &lib.View{NetworkId: view.NetworkId, ChainId: view.ChainId, Height: view.Height, RootHeight: view.RootHeight, Round: view.Round, Phase: phase}
	qc = nodesim.NewQC(np, view, good.ProposerKey)
	if err := nodesim.Sign(qc, vs, x.ring, signers); err != nil {
		x.fatalf("sign: %v", err)
	}
	if garble {
		qc.Signature.Signature = flip(qc.Signature.Signature)
	}
	if extraBits {
		for i := range vs.ValidatorSet.ValidatorSet {
			qc.Signature.Bitmap[i/8] |= 1 << uint(i%8)
		}
	}
	return qc, kind, lateWrites, certOnly, validateOnly, syncOnly
}

func runC07b(t *rapid.T, rec *ev.Rec) {
	cs := rec.Case()
	x := &world7{t: t, cs: cs, sim: nodesim.NewSim()}
	defer x.sim.Close()
	x.w = nodesim.GenWorld(t, 1)
	x.ring = nodesim.NewKeyRing(x.w.NVals + x.w.Spare)
	x.w.OpenOrders = func() [][]byte {
		x.sim.Activate(x.a)
		book, err := x.a.C.FSM.GetOrderBook(1)
		if err != nil {
			return nil
		}
		var ids [][]byte
		for _, o := range book.Orders {
			if len(o.BuyerReceiveAddress) == 0 {
				ids = append(ids, o.Id)
			}
		}
		return ids
	}
	gen := x.w.Genesis(0)
	mk := func(name string, key int) *nodesim.Node {
		n, err := x.sim.NewNode(nodesim.NodeOpts{Name: name, Genesis: gen, Key: keys.BLS(key % x.w.NVals)})
		if err != nil {
			t.Fatalf("new node: %v", err)
		}
		return n
	}
	x.a, x.n, x.tw = mk("A", 0), mk("N", 1), mk("T", 2)
	cs.Desc("stakes=%v", x.w.Stakes)
	events := rapid.IntRange(4, 9).Draw(t, "events")
	nBad, nLate, modes := 0, 0, map[string]bool{}
	var rejectedTxs [][]byte
	goodHeights := 0
	// plan (2 of 3 histories): sell orders at the first height, all locked at the second, and at the third height a bad block
	// that fails INSIDE BeginBlock after the certificate results of the second height (order locks) emitted their events
	plan := rapid.SampledFrom([]bool{true, true, false}).Draw(t, "beginBlockPlan")
	cs.ClassIf(plan, "plan:rejection-inside-BeginBlock-after-events")
	for ei := 0; ei < events; ei++ {
		ht := x.a.Height()
		if plan && ei <= 1 {
			kinds := []string{"create-order", "create-order"}
			if ei == 1 {
				kinds = []string{"lock-orders"}
			}
			for _, k := range kinds {
				for _, tx := range x.w.GenTx(t, ht, []string{k}) {
					_, _, _ = x.a.AddTx(tx.Bytes), x.n.AddTx(tx.Bytes), x.tw.AddTx(tx.Bytes)
				}
			}
		}
		for k := rapid.IntRange(2, 7).Draw(t, "nTx"); k > 0; k-- {
			for _, tx := range x.w.GenTx(t, ht, c07bKinds) {
				// gossip: every node's mempool sees the transaction
				_, _, _ = x.a.AddTx(tx.Bytes), x.n.AddTx(tx.Bytes), x.tw.AddTx(tx.Bytes)
			}
		}
		p, e := x.a.Produce()
		if e != nil {
			x.fatalf("A cannot produce: %v", e)
		}
		view := x.a.ViewFor(lib.Phase_PRECOMMIT_VOTE, 0)
		vs, e := x.a.Committee(view.RootHeight)
		if e != nil {
			x.fatalf("committee: %v", e)
		}
		good := nodesim.NewQC(p, view, x.a.C.PublicKey)
		if err := nodesim.Sign(good, vs, x.ring, nodesim.AllSigners(vs)); err != nil {
			x.fatalf("sign: %v", err)
		}
		gblk := new(lib.Block)
		_ = lib.Unmarshal(p.Block, gblk)
		// 0..3 bad offers before the good block of this height
		holds := false // N holds the validated good proposal of this height
		nBadHere := rapid.IntRange(0, 3).Draw(t, "nBad")
		if plan && ei == 2 {
			x.forceKind = "lastqc-bitmap-len"
			if nBadHere == 0 {
				nBadHere = 1
			}
		}
		for k := nBadHere; k > 0; k-- {
			qc, kind, late, certOnly, validateOnly, syncOnly := x.bad(p, good, vs)
			mode := rapid.SampledFrom([]string{"validate", "peer", "sync", "sync"}).Draw(t, "mode")
			if certOnly && mode == "validate" {
				mode = "peer" // ValidateProposal does not look at the certificate's signature
			}
			if validateOnly {
				mode = "validate"
			}
			if syncOnly {
				mode = "sync"
			}
			if mode == "sync" && (kindClass(kind) == "lastqc-sig" || kindClass(kind) == "lastqc-partial") {
				mode = "peer" // fast-sync does not re-verify the signature of the embedded last certificate (by design)
			}
			// N may already hold the validated good proposal of this height (BFT PROPOSE_VOTE: cached block result, pending state)
			if mode != "validate" && !holds && rapid.IntRange(0, 2).Draw(t, "pendingValidated") == 0 {
				if _, e := x.n.Validate(p.RcBuildHeight, good); e != nil {
					x.fatalf("VIOLATION C11: N rejects the good proposal: %v", e)
				}
				holds = true
			}
			if mode == "validate" {
				holds = false // a new ValidateProposal starts from a reset FSM; a failed one ends in RoundInterrupt
			}
			if holds && !certOnly {
				// a bad BLOCK (other hash, or certified header with another body) while the validated proposal is pending
				if ev.Open(kfStaleResult) || bytes.Equal(qc.BlockHash, good.BlockHash) {
					// known finding / by design (a message with the certified header hash is committed from the cached execution of
					// the good block): the round is abandoned first
					if ev.Open(kfStaleResult) {
						rec.Exclude(kfStaleResult)
					}
					x.n.AbandonRound()
					holds = false
				} else {
					cs.Class("bad-block-while-validated-proposal-pending")
				}
			}
			pending := holds
			poolBefore := poolOf(x.n)
			var err lib.ErrorI
			switch mode {
			case "validate":
				_, err = x.n.Validate(p.RcBuildHeight, qc)
			case "peer":
				_, err = x.n.Deliver(nodesim.CloneQC(qc), false)
			case "sync":
				// (a node that starts syncing keeps its paused BFT round: cached block result and pending state stay)
				_, err = x.n.Deliver(nodesim.CloneQC(qc), true)
			}
			cs.Desc("h%d:BAD %s via %s", ht, kind, mode)
			cs.Class("bad=" + kindClass(kind))
			cs.Class("mode=" + mode)
			cs.ClassIf(pending, "validated-proposal-pending")
			modes[mode] = true
			if err == nil {
				if mode == "sync" && syncAccepts(kind) {
					// fast-sync does not verify certificates below a checkpoint (by design, excluded by C02): a bad CERTIFICATE on the
					// good block is accepted there; the twin then commits the same good block to stay comparable
					cs.Class("sync-accepted-unverified-certificate")
					if _, e := x.tw.Deliver(nodesim.CloneQC(good), false); e != nil {
						x.fatalf("twin cannot commit the good block: %v", e)
					}
					if _, e := x.a.Deliver(nodesim.CloneQC(good), false); e != nil {
						x.fatalf("A cannot commit the good block: %v", e)
					}
					x.compareCommitted(fmt.Sprintf("after sync-accepted good block at height %d", ht), false)
					goodHeights++
					x.skipCerts = true
					goto nextEvent
				}
				x.fatalf("VIOLATION C07/C02: N ACCEPTED the bad %s offered via %s at height %d", kind, mode, ht)
			}
			cs.Class("rejected-with:" + fmt.Sprintf("%s/%d", err.Module(), err.Code()))
			nBad++
			if late {
				nLate++
			}
			bblk := new(lib.Block)
			if lib.Unmarshal(qc.Block, bblk) == nil {
				for _, tx := range bblk.Transactions {
					rejectedTxs = append(rejectedTxs, tx)
				}
			}
			// a rejected proposal / peer block must not cost the node its pending transactions
			if got := poolOf(x.n); got != poolBefore {
				x.fatalf("VIOLATION C07: N's mempool changed while it REJECTED the %s offered via %s at height %d:\nbefore %s\nafter  %s", kind, mode, ht, poolBefore, got)
			}
			if pending {
				// committed state must be untouched; the pending validated proposal is still committable (checked below by the good commit)
				x.compareCommitted(fmt.Sprintf("after rejected %s via %s at height %d (validated proposal pending)", kind, mode, ht), true)
			} else {
				x.compare(fmt.Sprintf("after rejected %s via %s at height %d", kind, mode, ht), true)
			}
			// nothing of the rejected block is visible in the indexer
			x.sim.Activate(x.n)
			if b, _ := x.n.Store.GetBlockByHeight(ht); b != nil && b.BlockHeader != nil && b.BlockHeader.Height == ht {
				x.fatalf("VIOLATION C07: N's indexer holds a block for height %d after rejecting it (%s via %s)", ht, kind, mode)
			}
		}
		// the good block: both commit it, through generated paths
		{
			path := rapid.SampledFrom([]string{"validate-commit", "replay"}).Draw(t, "goodPath")
			for _, nd := range []*nodesim.Node{x.n, x.tw} {
				if path == "validate-commit" {
					if _, e := nd.Validate(p.RcBuildHeight, good); e != nil {
						x.fatalf("VIOLATION C07: %s rejects the good proposal of height %d after the bad offers: %v", nd.Name, ht, e)
					}
				}
				if _, e := nd.Deliver(nodesim.CloneQC(good), false); e != nil {
					x.fatalf("VIOLATION C07: %s cannot commit the good block of height %d after the bad offers: %v", nd.Name, ht, e)
				}
			}
			if _, e := x.a.Deliver(nodesim.CloneQC(good), false); e != nil {
				x.fatalf("A cannot commit its own block: %v", e)
			}
			goodHeights++
			x.skipCerts = false
			cs.Desc("h%d:good txs=%d via %s", ht, len(gblk.Transactions), path)
			x.compare(fmt.Sprintf("after good block at height %d", ht), true)
			// transactions that only ever appeared in rejected blocks are not indexed
			inGood := map[string]bool{}
			for _, tx := range gblk.Transactions {
				inGood[crypto.HashString(tx)] = true
			}
			x.sim.Activate(x.n)
			for _, tx := range rejectedTxs {
				if inGood[crypto.HashString(tx)] {
					continue
				}
				rn, _ := x.n.Store.GetTxByHash(crypto.Hash(tx))
				x.sim.Activate(x.tw)
				rt, _ := x.tw.Store.GetTxByHash(crypto.Hash(tx))
				x.sim.Activate(x.n)
				nIdx, tIdx := rn != nil && rn.TxHash != "", rt != nil && rt.TxHash != ""
				if nIdx != tIdx {
					x.fatalf("VIOLATION C07: transaction %x of a rejected block is indexed on N (%v) but not on the twin (%v)", crypto.Hash(tx), nIdx, tIdx)
				}
			}
		}
	nextEvent:
	}
	cs.Class(fmt.Sprintf("bad-offers=%d", min(nBad, 9)))
	cs.Done(nBad >= 2 && nLate >= 1 && len(modes) >= 2 && goodHeights >= 2)
}

func min(a, b int) int {
	if a < b {
		return a
	}
	return b
}

func kindClass(k string) string {
	for i := range k {
		if k[i] == '@' {
			return k[:i]
		}
	}
	return k
}

// syncAccepts: kinds where only the CERTIFICATE is bad and the block is the good one
func syncAccepts(kind string) bool {
	switch kind {
	case "cert-below-threshold", "cert-sig-garbled", "cert-extra-bits":
		return true
	}
	return false
}

// compare: N and its twin are indistinguishable
func (x *world7) compare(when string, working bool) {
	x.compareCommitted(when, true)
	if !x.skipCerts { // (after a block accepted while syncing N did no mempool maintenance: equal again after the next live block)
		if pn, pt := poolOf(x.n), poolOf(x.tw); pn != pt {
			x.fatalf("VIOLATION C07: N's mempool differs from its twin's %s:\nN    %s\ntwin %s", when, pn, pt)
		}
	}
	if !working {
		return
	}
	wn, e1 := x.n.Scan()
	wt, e2 := x.tw.Scan()
	if e1 != nil || e2 != nil {
		x.fatalf("scan: %v %v", e1, e2)
	}
	if nodesim.ScanDigest(wn) != nodesim.ScanDigest(wt) {
		x.fatalf("VIOLATION C07: N's WORKING state differs from its twin's %s (uncommitted writes of a rejected block survive)\n%s", when, diffScan(wn, wt))
	}
}

func (x *world7) compareCommitted(when string, certs bool) {
	if x.n.Version() != x.tw.Version() || x.n.Height() != x.tw.Height() {
		x.fatalf("VIOLATION C07: version/height of N (%d/%d) and twin (%d/%d) differ %s", x.n.Version(), x.n.Height(), x.tw.Version(), x.tw.Height(), when)
	}
	hn, ht := x.n.LastHeader(), x.tw.LastHeader()
	if (hn == nil) != (ht == nil) || (hn != nil && !bytes.Equal(mm(hn), mm(ht))) {
		x.fatalf("VIOLATION C07: last header of N differs from its twin's %s", when)
	}
	cn, e1 := x.n.CommittedScan()
	ct, e2 := x.tw.CommittedScan()
	if e1 != nil || e2 != nil {
		x.fatalf("scan: %v %v", e1, e2)
	}
	if nodesim.ScanDigest(cn) != nodesim.ScanDigest(ct) {
		x.fatalf("VIOLATION C07: N's committed state differs from its twin's %s\n%s", when, diffScan(cn, ct))
	}
	if hn != nil && !bytes.Equal(storemodel.Root(cn), hn.StateRoot) {
		x.fatalf("VIOLATION C07/C08: N's committed state does not hash to the state root of its last header %s", when)
	}
	// the indexed block RESULT of the last height (transaction results and EVENTS) agrees: nothing of a rejected block
	// (e.g. events emitted before its BeginBlock failed) may show up in the next committed block
	if hn != nil {
		x.sim.Activate(x.n)
		bn, e1 := x.n.C.FSM.LoadBlock(hn.Height)
		x.sim.Activate(x.tw)
		bt, e2 := x.tw.C.FSM.LoadBlock(hn.Height)
		if e1 != nil || e2 != nil {
			x.fatalf("load block result: %v %v", e1, e2)
		}
		if len(bn.Events) != len(bt.Events) || !bytes.Equal(mm(&lib.BlockResult{Events: bn.Events}), mm(&lib.BlockResult{Events: bt.Events})) {
			x.fatalf("VIOLATION C07: the block N committed at height %d carries %d events, its twin's %d (events of a rejected block survived) %s", hn.Height, len(bn.Events), len(bt.Events), when)
		}
		if !bytes.Equal(mm(&lib.BlockResult{Transactions: bn.Transactions}), mm(&lib.BlockResult{Transactions: bt.Transactions})) {
			x.fatalf("VIOLATION C07: transaction results of height %d differ between N and its twin %s", hn.Height, when)
		}
	}
	// indexed certificates of the last height agree
	if hn != nil && certs && !x.skipCerts {
		qn, e1 := x.n.Serve(hn.Height)
		qt, e2 := x.tw.Serve(hn.Height)
		if e1 != nil || e2 != nil || !bytes.Equal(mm(qn), mm(qt)) {
			x.fatalf("VIOLATION C07: certificate/block N indexed for height %d differs from its twin's %s (%v %v)", hn.Height, when, e1, e2)
		}
	}
}

// diffScan lists (a few of) the keys on which two state scans differ
func diffScan(a, b map[string][]byte) string {
	out, n := "", 0
	for k, v := range a {
		if w, ok := b[k]; !ok || !bytes.Equal(v, w) {
			if n < 6 {
				out += fmt.Sprintf("key %x: N=%x twin=%x\n", k, v, w)
			}
			n++
		}
	}
	for k, w := range b {
		if _, ok := a[k]; !ok {
			if n < 6 {
				out += fmt.Sprintf("key %x: N=<absent> twin=%x\n", k, w)
			}
			n++
		}
	}
	return fmt.Sprintf("%d differing keys\n%s", n, out)
}

// poolOf renders a node's mempool content (sorted short transaction hashes)
func poolOf(n *nodesim.Node) string {
	n.Sim.Activate(n)
	var hs []string
	for _, tx := range n.C.Mempool.GetTransactions(math.MaxUint64) {
		hs = append(hs, crypto.HashString(tx)[:8])
	}
	sort.Strings(hs)
	return fmt.Sprintf("%d%v", len(hs), hs)
}

// clipLines7b shortens every line of a failure message (rapid fail files must stay below 64 KiB per line to be loadable)
func clipLines7b(s string, max int) string {
	lines := strings.Split(s, "\n")
	for i, l := range lines {
		if len(l) > max {
			lines[i] = l[:max] + fmt.Sprintf("...(+%d bytes)", len(l)-max)
		}
	}
	return strings.Join(lines, "\n")
}
