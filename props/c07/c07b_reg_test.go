package c07

import (
	"testing"

	"github.com/canopy-network/canopy/fsm"
	"github.com/canopy-network/canopy/lib"

	"verif/h/chainsim"
	"verif/h/keys"
	"verif/h/nodesim"
)

// TestC07bReg_RejectedBlockKeepsStaleCachedResult: a validator has validated the proposal X of its height (BFT
// PROPOSE_VOTE: Consensus.BlockResult = X, the FSM holds X's uncommitted writes), then falls behind and starts syncing
// (the BFT loop pauses, nothing is cleared). A sync peer answers the block request for that height with a bad block
// (fast-sync verifies no certificate below a checkpoint): HandlePeerBlock -> CommitCertificate(blockResult=nil) resets the
// FSM, fails, resets again - but Consensus.BlockResult still names X. When the genuine X arrives (next peer),
// HandlePeerBlock finds the cached result "for the same hash" and commits WITHOUT executing: block and certificate are
// indexed, the version advances, none of X's state writes exist. The node silently diverges from the chain.
func TestC07bReg_RejectedBlockKeepsStaleCachedResult(t *testing.T) {
	s := nodesim.NewSim()
	defer s.Close()
	ring := nodesim.NewKeyRing(4)
	vals := []chainsim.ValSpec{{Key: 0, OutputKey: -1, Stake: 1000}, {Key: 1, OutputKey: -1, Stake: 1000}, {Key: 2, OutputKey: -1, Stake: 1000}}
	accts := []chainsim.AcctSpec{{Kind: 1, Key: 0, Amount: 1_000_000_000}}
	gen := func() *fsm.GenesisState { return chainsim.BuildGenesis(1, vals, accts, nil, nil) }
	mk := func(name string, k int) *nodesim.Node {
		n, err := s.NewNode(nodesim.NodeOpts{Name: name, Genesis: gen(), Key: keys.BLS(k)})
		if err != nil {
			t.Fatal(err)
		}
		return n
	}
	a, n, tw := mk("A", 0), mk("N", 1), mk("T", 2)
	tx, _, err := chainsim.SignTxAt(keys.Ed(0), &fsm.MessageSend{FromAddress: chainsim.Addr(keys.Ed(0)), ToAddress: chainsim.Addr(keys.Ed(5)), Amount: 1000}, 1, 1, 10000, 1, 1_700_000_000_001_000, "")
	if err != nil {
		t.Fatal(err)
	}
	if e := a.AddTx(tx); e != nil {
		t.Fatal(e)
	}
	g := &nodesim.Group{Sim: s, Ring: ring, Nodes: []*nodesim.Node{a}}
	res, err := g.Certify(0, nil, 0)
	if err != nil || res.ProduceErr != nil {
		t.Fatalf("certify: %v %v", err, res.ProduceErr)
	}
	// N validates the proposal (PROPOSE_VOTE) ...
	if _, e := n.Validate(res.Proposal.RcBuildHeight, res.QC); e != nil {
		t.Fatal(e)
	}
	// ... falls behind, syncs, and the first peer serves a bad block for the height (state root tampered, re-hashed, no valid certificate needed)
	blk := new(lib.Block)
	_ = lib.Unmarshal(res.Proposal.Block, blk)
	blk.BlockHeader.StateRoot[0] ^= 1
	blk.BlockHeader.Hash = nil
	hash, _ := blk.BlockHeader.SetHash()
	bz, _ := lib.Marshal(blk)
	bad := nodesim.NewQC(&nodesim.Proposal{Block: bz, BlockHash: hash, Results: res.Proposal.Results}, res.QC.Header, res.QC.ProposerKey)
	bad.Signature = &lib.AggregateSignature{Signature: make([]byte, 96), Bitmap: []byte{0x07}}
	if _, e := n.Deliver(bad, true); e == nil {
		t.Fatal("the bad block was accepted")
	}
	// the genuine block arrives from the next peer; the twin simply commits it
	if _, e := n.Deliver(nodesim.CloneQC(res.QC), true); e != nil {
		t.Fatalf("N cannot commit the genuine block: %v", e)
	}
	if _, e := tw.Deliver(nodesim.CloneQC(res.QC), false); e != nil {
		t.Fatal(e)
	}
	sn, _ := n.CommittedScan()
	st, _ := tw.CommittedScan()
	if nodesim.ScanDigest(sn) != nodesim.ScanDigest(st) {
		t.Fatalf("N committed height 1 (version %d, same header as the twin) but its state is not the twin's:\n%s", n.Version(), diffScan(sn, st))
	}
}
