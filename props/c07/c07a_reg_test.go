package c07

import (
	"testing"

	"github.com/canopy-network/canopy/fsm"

	cs "verif/h/chainsim"
	"verif/h/keys"
	"verif/h/wire"
)

// TestC07Reg_PoisonOrderId: finding 4.5 seen from C07 (KF-C19-orderid-256, fixed by /repo commit a133151; C19 owns the primary
// regression test). A validly signed delete-order / edit-order whose order id is 256..511 bytes of 0xF0 built a corrupt store
// key and panicked inside GetAuthorizedSignersFor; the panic was recovered at ApplyBlock level, so on the proposer path ONE
// such transaction made the WHOLE block fail. It must be an ordinary failed transaction next to its valid neighbours.
func TestC07Reg_PoisonOrderId(t *testing.T) {
	g, _ := cs.RichGenesis(1, cs.GenesisOpts{})
	c, err := cs.New(cs.Opts{Genesis: g})
	if err != nil {
		t.Fatal(err)
	}
	defer c.Close()
	if _, err := c.Block(cs.BlockSpec{}); err != nil {
		t.Fatal(err)
	}
	a, b, p := keys.Ed(10), keys.Secp(10), keys.Ed(12)
	to := cs.Addr(keys.Ed(4100))
	good1, _, _ := c.SignTx(a, &fsm.MessageSend{FromAddress: cs.Addr(a), ToAddress: to, Amount: 1000}, 10000, c.Height(), "")
	good2, _, _ := c.SignTx(b, &fsm.MessageSend{FromAddress: cs.Addr(b), ToAddress: to, Amount: 1000}, 10000, c.Height(), "")
	for _, n := range []int{256, 300, 511} {
		poison1, _, _ := c.SignTx(p, &fsm.MessageDeleteOrder{OrderId: wire.Bytes(n, 0xF0), ChainId: 1}, 10000, c.Height(), "")
		poison2, _, _ := c.SignTx(p, &fsm.MessageEditOrder{OrderId: wire.Bytes(n, 0xF0), ChainId: 1, AmountForSale: cs.MinOrder, RequestedAmount: 1, SellerReceiveAddress: to}, 10000, c.Height(), "")
		out := c.Propose(cs.BlockSpec{Txs: [][]byte{good1, poison1, poison2, good2}})
		c.Abort()
		if out.Err != nil {
			t.Fatalf("order id of %d bytes: proposer-mode ApplyBlock failed as a whole: %v", n, out.Err)
		}
		if len(out.Results.Txs) != 2 || len(out.Results.Failed) != 2 {
			t.Fatalf("order id of %d bytes: included %d failed %d, expected 2 and 2", n, len(out.Results.Txs), len(out.Results.Failed))
		}
	}
}
