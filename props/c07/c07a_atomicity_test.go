// Package c07 decides property C07 "Transaction and block atomicity". Part (a), transaction level: files c07a_*_test.go.
package c07

import (
	"bytes"
	"context"
	"fmt"
	"math"
	"sort"
	"strings"
	"testing"

	"github.com/canopy-network/canopy/fsm"
	"github.com/canopy-network/canopy/lib"
	"github.com/canopy-network/canopy/lib/crypto"
	"pgregory.net/rapid"

	cs "verif/h/chainsim"
	"verif/h/ev"
	"verif/h/keys"
	"verif/h/wire"
)

type fataler interface {
	Fatalf(string, ...any)
	Logf(string, ...any)
}

// item is one transaction of the generated block.
type item struct {
	bz    []byte
	label string
	// intent: "valid", "fails-late" (passes every check, the fee is deducted, then the handler fails), "fails-early"
	intent string
	class  string
}

// aworld is the chain of one case plus the bookkeeping the generator needs to keep most transactions valid.
type aworld struct {
	c        *cs.Chain
	cast     *cs.Cast
	senders  []cs.Signer // accounts that were not used yet in this block (every valid transaction takes a fresh one)
	orders   []aorder    // open orders of the setup block, each usable once
	staked   []cs.Signer // delegates staked in the setup block (edit-stake / unstake targets), each usable once
	vesting  []byte      // an account with an active vesting schedule
	c2orders [][]byte    // open sell orders of committee 2 (lock targets of certificate-results transactions)
	c2Next   uint64      // next certificate height of committee 2
	ckpt     uint64      // highest checkpoint height offered for committee 2 so far
	salt     uint64
	nonces   map[string]uint64
}

type aorder struct {
	id     []byte
	seller cs.Signer
}

func (w *aworld) opts(s cs.Signer) cs.TxOpts {
	w.salt++
	o := cs.TxOpts{Fee: cs.DefaultFee + w.salt, Created: w.c.Height()}
	if s.Kind == cs.KindRLPV2 {
		k := string(s.Address())
		o.Nonce = w.nonces[k]
		w.nonces[k]++
	}
	return o
}

func (w *aworld) sign(t fataler, s cs.Signer, m lib.MessageI) []byte {
	bz, _, err := w.c.Sign(s, m, w.opts(s))
	if err != nil {
		t.Fatalf("harness: sign %s by %s: %v", m.Name(), s, err)
	}
	return bz
}

// signWith signs with explicit envelope tweaks.
func (w *aworld) signWith(t fataler, s cs.Signer, m lib.MessageI, f func(o *cs.TxOpts)) []byte {
	o := w.opts(s)
	f(&o)
	bz, _, err := w.c.Sign(s, m, o)
	if err != nil {
		t.Fatalf("harness: sign %s by %s: %v", m.Name(), s, err)
	}
	return bz
}

const (
	minValStake = 1000
	minDelStake = 500
)

func newAWorld(t fataler) *aworld {
	p := fsm.DefaultParams()
	p.Validator.MinimumStakeForValidators = minValStake
	p.Validator.MinimumStakeForDelegates = minDelStake
	g, cast := cs.RichGenesis(1, cs.GenesisOpts{Params: p})
	for i := 0; i < 4; i++ { // validators 0..3 also form the root chain's committee for the nested chain 2
		g.Validators[i].Committees = []uint64{1, 2}
	}
	c, err := cs.New(cs.Opts{Genesis: g})
	if err != nil {
		t.Fatalf("new chain: %v", err)
	}
	w := &aworld{c: c, cast: cast, nonces: map[string]uint64{}}
	var setup [][]byte
	order := func(s cs.Signer, salt byte) {
		bz := w.sign(t, s, &fsm.MessageCreateOrder{ChainId: 1, Data: []byte{salt}, AmountForSale: cs.MinOrder + 10, RequestedAmount: 7, SellerReceiveAddress: bytes.Repeat([]byte{salt}, 20), SellersSendAddress: s.Address()})
		setup = append(setup, bz)
		w.orders = append(w.orders, aorder{id: crypto.Hash(bz)[:20], seller: s})
	}
	order(cs.Signer{Kind: cs.KindEd, Key: 11}, 1)
	order(cs.Signer{Kind: cs.KindSecp, Key: 11}, 2)
	order(cs.Signer{Kind: cs.KindEth, Key: 11}, 3)
	order(cs.Signer{Kind: cs.KindBLS, Key: 11}, 4)
	for i, s := range []cs.Signer{{Kind: cs.KindEd, Key: 11}, {Kind: cs.KindSecp, Key: 11}, {Kind: cs.KindEth, Key: 11}, {Kind: cs.KindBLS, Key: 11}, {Kind: cs.KindEd, Key: 14}} {
		bz := w.sign(t, s, &fsm.MessageCreateOrder{ChainId: 2, Data: []byte{byte(20 + i)}, AmountForSale: cs.MinOrder + 20, RequestedAmount: 8, SellerReceiveAddress: bytes.Repeat([]byte{byte(20 + i)}, 20), SellersSendAddress: s.Address()})
		setup = append(setup, bz)
		w.c2orders = append(w.c2orders, crypto.Hash(bz)[:20])
	}
	// committee 2 certifies a first checkpoint (height 10): later certificates offering a height <= 10 fail at the checkpoint step
	ck, _, cerr := c.SignedCertResultsTx(2, &lib.CertificateResult{Checkpoint: &lib.Checkpoint{Height: 10, BlockHash: crypto.Hash([]byte("ckpt-10"))}}, cs.CertOpts{Height: 1, RootHeight: c.Height()})
	if cerr != nil {
		t.Fatalf("harness: certificate: %v", cerr)
	}
	setup = append(setup, ck)
	w.c2Next, w.ckpt = 2, 10
	for _, s := range []cs.Signer{{Kind: cs.KindEd, Key: 14}, {Kind: cs.KindSecp, Key: 14}, {Kind: cs.KindBLS, Key: 14}} {
		setup = append(setup, w.sign(t, s, &fsm.MessageStake{PublicKey: s.PublicKey(), Amount: 5000, Committees: []uint64{1}, OutputAddress: s.Address(), Delegate: true}))
		w.staked = append(w.staked, s)
	}
	w.vesting = cs.Addr(keys.Ed(8000))
	vs := cs.Signer{Kind: cs.KindEth, Key: 14}
	setup = append(setup, w.sign(t, vs, &fsm.MessageSend{FromAddress: vs.Address(), ToAddress: w.vesting, Amount: 1_000_000, VestingStartHeight: 1, VestingCliffHeight: 2, VestingEndHeight: 100000}))
	out, err := c.Block(cs.BlockSpec{Txs: setup})
	if err != nil || out.Err != nil || len(out.Results.Failed) != 0 {
		msg := ""
		if out != nil && out.Results != nil {
			for _, f := range out.Results.Failed {
				msg += strings.Join(strings.Fields(fmt.Sprint(f.Error)), " ") + "; "
			}
		}
		t.Fatalf("harness: setup block rejected: %v %v %s", err, out.Err, msg)
	}
	w.resetSenders()
	return w
}

func (w *aworld) resetSenders() {
	w.senders = w.senders[:0]
	for _, k := range []int{10, 12, 13, 15} {
		for kind := 0; kind < 4; kind++ {
			w.senders = append(w.senders, cs.Signer{Kind: kind, Key: k})
		}
	}
	w.senders = append(w.senders, cs.Signer{Kind: cs.KindMulti, Multi: w.cast.Multis[0], Positions: []int{0, 1}}, cs.Signer{Kind: cs.KindMulti, Multi: w.cast.Multis[1], Positions: []int{1}})
}

// take removes and returns a fresh sender.
func (w *aworld) take(rt *rapid.T) cs.Signer {
	i := rapid.IntRange(0, len(w.senders)-1).Draw(rt, "sender")
	s := w.senders[i]
	w.senders = append(w.senders[:i], w.senders[i+1:]...)
	return s
}

// asEth optionally turns an eth-key sender into its Ethereum-wrapped form.
func asEth(rt *rapid.T, s cs.Signer, m lib.MessageI) cs.Signer {
	if s.Kind == cs.KindEth && cs.RLPSupports(m.Name()) {
		switch rapid.IntRange(0, 2).Draw(rt, "eth-form") {
		case 1:
			return cs.Signer{Kind: cs.KindRLP, Key: s.Key, TxType: rapid.IntRange(0, 2).Draw(rt, "eth-type")}
		case 2:
			return cs.Signer{Kind: cs.KindRLPV2, Key: s.Key, TxType: rapid.IntRange(0, 2).Draw(rt, "eth-type")}
		}
	}
	return s
}

// certItem builds a really signed certificate-results transaction of committee 2 that locks an open sell order (the lock emits
// an order-book event) and then offers a checkpoint: a fresh one (valid) or a stale one (the transaction fails at the checkpoint
// step, AFTER the lock and its event).
func certItem(rt *rapid.T, w *aworld, stale bool) (item, bool) {
	if len(w.c2orders) == 0 {
		return item{}, false
	}
	id := w.c2orders[0]
	w.c2orders = w.c2orders[1:]
	h := w.c.Height()
	ckH := w.ckpt + 10
	if stale {
		ckH = rapid.SampledFrom([]uint64{10, 1, 9}).Draw(rt, "stale-checkpoint")
	} else {
		w.ckpt = ckH
	}
	buyer := freshAddr(w)
	res := &lib.CertificateResult{
		Orders:     &lib.Orders{LockOrders: []*lib.LockOrder{{OrderId: id, ChainId: 2, BuyerReceiveAddress: buyer, BuyerSendAddress: buyer, BuyerChainDeadline: h + 60}}},
		Checkpoint: &lib.Checkpoint{Height: ckH, BlockHash: crypto.Hash([]byte(fmt.Sprintf("ckpt-%d-%d", ckH, w.c2Next)))},
	}
	bz, _, err := w.c.SignedCertResultsTx(2, res, cs.CertOpts{Height: w.c2Next, RootHeight: h, ProposerIdx: int(w.c2Next % 3)})
	if err != nil {
		rt.Fatalf("harness: certificate: %v", err)
	}
	w.c2Next++
	if stale {
		return item{bz: bz, label: fmt.Sprintf("certificateResults(committee 2: lock order %x, checkpoint %d) [fails late: stale checkpoint AFTER the order lock emitted its event]", id[:4], ckH),
			intent: "fails-late", class: "late=cert-results-lock-then-stale-checkpoint"}, true
	}
	return item{bz: bz, label: fmt.Sprintf("certificateResults(committee 2: lock order %x, checkpoint %d)", id[:4], ckH), intent: "valid", class: "valid=certificateResults"}, true
}

func freshAddr(w *aworld) []byte { w.salt++; return cs.Addr(keys.Ed(int(9000 + w.salt))) }

func anyUint(v uint64) *lib.UInt64Wrapper { return &lib.UInt64Wrapper{Value: v} }

func changeParam(space, key string, v uint64, signer []byte, h uint64) *fsm.MessageChangeParameter {
	a, _ := lib.NewAny(anyUint(v))
	return &fsm.MessageChangeParameter{ParameterSpace: space, ParameterKey: key, ParameterValue: a, StartHeight: 1, EndHeight: h + 5000, Signer: signer}
}

// validItem draws one transaction that is valid in the current block context; by signer s if given.
func validItem(rt *rapid.T, w *aworld, s *cs.Signer) item {
	var sender cs.Signer
	if s != nil {
		sender = *s
	} else {
		sender = w.take(rt)
	}
	me := sender.Address()
	h := w.c.Height()
	kinds := []string{"send", "send", "stake", "createOrder", "subsidy", "daoTransfer", "changeParameter"}
	if s == nil {
		if len(w.orders) > 0 {
			kinds = append(kinds, "editOrder", "deleteOrder")
		}
		if len(w.staked) > 0 {
			kinds = append(kinds, "editStake", "unstake")
		}
	}
	var m lib.MessageI
	k := rapid.SampledFrom(kinds).Draw(rt, "valid-kind")
	switch k {
	case "send":
		m = &fsm.MessageSend{FromAddress: me, ToAddress: freshAddr(w), Amount: rapid.Uint64Range(1, 9999).Draw(rt, "amount")}
	case "stake":
		if sender.Kind == cs.KindMulti || hasValidator(w, me) {
			m = &fsm.MessageSend{FromAddress: me, ToAddress: freshAddr(w), Amount: 5}
		} else {
			m = &fsm.MessageStake{PublicKey: sender.PublicKey(), Amount: rapid.Uint64Range(minDelStake, 9999).Draw(rt, "stake"), Committees: []uint64{1}, OutputAddress: me, Delegate: true}
		}
	case "createOrder":
		m = &fsm.MessageCreateOrder{ChainId: 1, Data: []byte{1}, AmountForSale: cs.MinOrder + rapid.Uint64Range(0, 99).Draw(rt, "amount"), RequestedAmount: 3, SellerReceiveAddress: freshAddr(w), SellersSendAddress: me}
	case "subsidy":
		m = &fsm.MessageSubsidy{Address: me, ChainId: 1, Amount: rapid.Uint64Range(1, 9999).Draw(rt, "amount")}
	case "daoTransfer":
		m = &fsm.MessageDAOTransfer{Address: me, Amount: rapid.Uint64Range(1, 9999).Draw(rt, "amount"), StartHeight: 1, EndHeight: h + 5000, Mint: rapid.Bool().Draw(rt, "mint")}
	case "changeParameter":
		switch rapid.IntRange(0, 2).Draw(rt, "param") {
		case 0:
			m = changeParam(fsm.ParamSpaceVal, fsm.ParamUnstakingBlocks, rapid.Uint64Range(2, 5).Draw(rt, "v"), me, h)
		case 1:
			m = changeParam(fsm.ParamSpaceFee, fsm.ParamCertificateResultsFee, rapid.Uint64Range(0, 50).Draw(rt, "v"), me, h)
		default:
			m = changeParam(fsm.ParamSpaceVal, fsm.ParamMinimumOrderSize, cs.MinOrder-rapid.Uint64Range(0, 50).Draw(rt, "v"), me, h)
		}
	case "editOrder", "deleteOrder":
		i := rapid.IntRange(0, len(w.orders)-1).Draw(rt, "order")
		o := w.orders[i]
		w.orders = append(w.orders[:i], w.orders[i+1:]...)
		sender = o.seller
		if k == "deleteOrder" {
			m = &fsm.MessageDeleteOrder{OrderId: o.id, ChainId: 1}
		} else {
			m = &fsm.MessageEditOrder{OrderId: o.id, ChainId: 1, Data: []byte{2}, AmountForSale: cs.MinOrder + rapid.Uint64Range(0, 99).Draw(rt, "amount"), RequestedAmount: 4, SellerReceiveAddress: freshAddr(w)}
		}
	case "editStake", "unstake":
		i := rapid.IntRange(0, len(w.staked)-1).Draw(rt, "staked")
		sender = w.staked[i]
		w.staked = append(w.staked[:i], w.staked[i+1:]...)
		if k == "unstake" {
			m = &fsm.MessageUnstake{Address: sender.Address()}
		} else {
			m = &fsm.MessageEditStake{Address: sender.Address(), Amount: 5000 + rapid.Uint64Range(0, 999).Draw(rt, "inc"), Committees: []uint64{1}, OutputAddress: sender.Address()}
		}
	}
	sender = asEth(rt, sender, m)
	return item{bz: w.sign(rt, sender, m), label: fmt.Sprintf("%s by %s", m.Name(), sender), intent: "valid", class: "valid=" + m.Name()}
}

func hasValidator(w *aworld, addr []byte) bool {
	st, _ := w.c.Scan()
	return cs.ValidatorIn(st, addr) != nil
}

// failingItem draws a transaction engineered to fail; most of them LATE: they pass CheckTx, pay the fee, then the handler fails.
func failingItem(rt *rapid.T, w *aworld, s *cs.Signer) item {
	var sender cs.Signer
	if s != nil {
		sender = *s
	} else {
		sender = w.take(rt)
	}
	me := sender.Address()
	h := w.c.Height()
	huge := uint64(20_000_000_000_000) // more than any account holds
	late := func(m lib.MessageI, why string) item {
		sg := asEth(rt, sender, m)
		return item{bz: w.sign(rt, sg, m), label: fmt.Sprintf("%s by %s [fails late: %s]", m.Name(), sg, why), intent: "fails-late", class: "late=" + why}
	}
	early := func(bz []byte, name, why string) item {
		return item{bz: bz, label: fmt.Sprintf("%s by %s [fails early: %s]", name, sender, why), intent: "fails-early", class: "early=" + why}
	}
	kinds := []string{"send-insufficient", "send-insufficient", "vesting-mismatch", "stake-below-minimum", "stake-insufficient", "create-order-insufficient", "create-order-below-minimum",
		"subsidy-insufficient", "dao-exceeds-pool", "dex-empty-pool", "dex-deposit-empty-pool", "dex-withdraw-empty-pool", "param-invalid-value", "param-invalid-value", "param-unknown-key",
		"pause-delegate", "stake-existing", "hostile-order-id", "hostile-order-id", "hostile-order-id", "hostile-amount", "hostile-envelope", "fee-exceeds-balance", "garbage-bytes"}
	if s == nil {
		if len(w.orders) > 0 {
			kinds = append(kinds, "edit-order-insufficient", "edit-order-by-stranger")
		}
		if len(w.staked) > 0 {
			kinds = append(kinds, "edit-stake-insufficient", "edit-stake-redirect-by-operator?")
		}
	}
	switch k := rapid.SampledFrom(kinds).Draw(rt, "failing-kind"); k {
	case "send-insufficient":
		return late(&fsm.MessageSend{FromAddress: me, ToAddress: freshAddr(w), Amount: huge}, "insufficient funds after fee")
	case "vesting-mismatch":
		return late(&fsm.MessageSend{FromAddress: me, ToAddress: w.vesting, Amount: 10, VestingStartHeight: 2, VestingCliffHeight: 3, VestingEndHeight: 50}, "vesting terms differ from the recipient's active schedule")
	case "stake-below-minimum":
		if sender.Kind == cs.KindMulti || hasValidator(w, me) {
			return late(&fsm.MessageSend{FromAddress: me, ToAddress: freshAddr(w), Amount: huge}, "insufficient funds after fee")
		}
		return late(&fsm.MessageStake{PublicKey: sender.PublicKey(), Amount: minDelStake - 1, Committees: []uint64{1}, OutputAddress: me, Delegate: true}, "stake below minimum")
	case "stake-insufficient":
		if sender.Kind == cs.KindMulti || hasValidator(w, me) {
			return late(&fsm.MessageSubsidy{Address: me, ChainId: 1, Amount: huge}, "insufficient funds after fee")
		}
		return late(&fsm.MessageStake{PublicKey: sender.PublicKey(), Amount: huge, Committees: []uint64{1}, OutputAddress: me, Delegate: true}, "stake exceeds balance")
	case "stake-existing":
		v := cs.Signer{Kind: cs.KindBLS, Key: 1}
		sender = v
		return late(&fsm.MessageStake{PublicKey: v.PublicKey(), Amount: 5000, Committees: []uint64{1}, NetAddress: "tcp://x", OutputAddress: v.Address()}, "validator exists")
	case "create-order-insufficient":
		return late(&fsm.MessageCreateOrder{ChainId: 1, AmountForSale: huge, RequestedAmount: 1, SellerReceiveAddress: freshAddr(w), SellersSendAddress: me}, "order exceeds balance")
	case "create-order-below-minimum":
		return late(&fsm.MessageCreateOrder{ChainId: 1, AmountForSale: 10, RequestedAmount: 1, SellerReceiveAddress: freshAddr(w), SellersSendAddress: me}, "order below minimum size")
	case "subsidy-insufficient":
		return late(&fsm.MessageSubsidy{Address: me, ChainId: 1, Amount: huge}, "subsidy exceeds balance")
	case "dao-exceeds-pool":
		return late(&fsm.MessageDAOTransfer{Address: me, Amount: 900_000_000_000, StartHeight: 1, EndHeight: h + 5000}, "DAO transfer exceeds the pool")
	case "dex-empty-pool":
		return late(&fsm.MessageDexLimitOrder{ChainId: 2, AmountForSale: 100, RequestedAmount: 1, Address: me}, "DEX order against an empty pool")
	case "dex-deposit-empty-pool":
		return late(&fsm.MessageDexLiquidityDeposit{ChainId: 2, Amount: 100, Address: me}, "DEX deposit into an empty pool")
	case "dex-withdraw-empty-pool":
		return late(&fsm.MessageDexLiquidityWithdraw{ChainId: 2, Percent: 50, Address: me}, "DEX withdraw from an empty pool")
	case "param-invalid-value":
		// the setter writes the value into the (cached) parameter object and THEN validates it
		c := rapid.SampledFrom([]struct {
			k string
			v uint64
		}{{fsm.ParamUnstakingBlocks, 0}, {fsm.ParamMaxPauseBlocks, 0}, {fsm.ParamDelegateUnstakingBlocks, 1}, {fsm.ParamNonSignWindow, 0}, {fsm.ParamMaxCommitteeSize, 0},
			{fsm.ParamEarlyWithdrawalPenalty, 101}, {fsm.ParamMaxCommittees, 101}, {fsm.ParamBuyDeadlineBlocks, 0}}).Draw(rt, "bad-param")
		return late(changeParam(fsm.ParamSpaceVal, c.k, c.v, me, h), "parameter value rejected after it was written to the cached parameter object ("+c.k+")")
	case "param-unknown-key":
		return late(changeParam(fsm.ParamSpaceFee, "noSuchFee", 1, me, h), "unknown parameter")
	case "pause-delegate":
		d := cs.Signer{Kind: cs.KindBLS, Key: 4}
		sender = d
		return late(&fsm.MessagePause{Address: d.Address()}, "pause of a delegate")
	case "edit-order-insufficient":
		o := w.orders[rapid.IntRange(0, len(w.orders)-1).Draw(rt, "order")]
		sender = o.seller
		return late(&fsm.MessageEditOrder{OrderId: o.id, ChainId: 1, AmountForSale: huge, RequestedAmount: 4, SellerReceiveAddress: freshAddr(w)}, "order increase exceeds balance")
	case "edit-order-by-stranger":
		o := w.orders[rapid.IntRange(0, len(w.orders)-1).Draw(rt, "order")]
		m := &fsm.MessageEditOrder{OrderId: o.id, ChainId: 1, AmountForSale: cs.MinOrder, RequestedAmount: 4, SellerReceiveAddress: freshAddr(w)}
		return early(w.sign(rt, sender, m), m.Name(), "unauthorized")
	case "edit-stake-insufficient":
		d := w.staked[rapid.IntRange(0, len(w.staked)-1).Draw(rt, "staked")]
		sender = d
		return late(&fsm.MessageEditStake{Address: d.Address(), Amount: huge, Committees: []uint64{1}, OutputAddress: d.Address()}, "stake increase exceeds balance")
	case "edit-stake-redirect-by-operator?":
		op := cs.Signer{Kind: cs.KindBLS, Key: 3} // v3 is non-custodial: its operator may edit but not redirect the output
		sender = op
		return late(&fsm.MessageEditStake{Address: op.Address(), Amount: 1_000_000_000, Committees: []uint64{1}, NetAddress: "tcp://127.0.0.1", OutputAddress: freshAddr(w)}, "operator redirects the output address")
	case "hostile-order-id":
		// (interesting values first: rapid favours small indexes)
		n := rapid.SampledFrom([]int{256, 300, 511, 257, 512, 255, 0, 1, 19, 21, 32}).Draw(rt, "id-len")
		fill := rapid.SampledFrom([]byte{0xF0, 0x80, 0xFF, 0x7f, 0x01, 0x00}).Draw(rt, "id-fill")
		id := wire.Bytes(n, fill)
		var m lib.MessageI = &fsm.MessageDeleteOrder{OrderId: id, ChainId: 1}
		if rapid.Bool().Draw(rt, "edit") {
			m = &fsm.MessageEditOrder{OrderId: id, ChainId: 1, AmountForSale: cs.MinOrder, RequestedAmount: 4, SellerReceiveAddress: freshAddr(w)}
		}
		return early(w.sign(rt, sender, m), m.Name(), fmt.Sprintf("order id of %d x 0x%02x", n, fill))
	case "hostile-amount":
		v := rapid.SampledFrom(wire.HostileUints).Draw(rt, "amount")
		var m lib.MessageI
		switch rapid.IntRange(0, 3).Draw(rt, "where") {
		case 0:
			m = &fsm.MessageSend{FromAddress: me, ToAddress: freshAddr(w), Amount: v}
		case 1:
			m = &fsm.MessageSubsidy{Address: me, ChainId: v, Amount: 1}
		case 2:
			m = &fsm.MessageDAOTransfer{Address: me, Amount: v, Mint: true, StartHeight: 1, EndHeight: h + 5000}
		default:
			m = &fsm.MessageCreateOrder{ChainId: 1, AmountForSale: v, RequestedAmount: v, SellerReceiveAddress: freshAddr(w), SellersSendAddress: me}
		}
		it := item{bz: w.sign(rt, sender, m), label: fmt.Sprintf("%s by %s [hostile value %d]", m.Name(), sender, v), intent: "fails-early", class: "hostile=amount"}
		return it
	case "hostile-envelope":
		m := &fsm.MessageSend{FromAddress: me, ToAddress: freshAddr(w), Amount: 1}
		which := rapid.SampledFrom([]string{"fee=max", "fee=2^63", "created=max", "memo=200", "memo=201", "nonce=max", "time=max"}).Draw(rt, "envelope")
		bz := w.signWith(rt, sender, m, func(o *cs.TxOpts) {
			switch which {
			case "fee=max":
				o.Fee = math.MaxUint64
			case "fee=2^63":
				o.Fee = 1 << 63
			case "created=max":
				o.Created = math.MaxUint64
			case "memo=200":
				o.Memo = strings.Repeat("m", 200)
			case "memo=201":
				o.Memo = strings.Repeat("m", 201)
			case "nonce=max":
				o.Nonce = math.MaxUint64
			case "time=max":
				o.Time = math.MaxUint64
			}
		})
		return item{bz: bz, label: fmt.Sprintf("send by %s [hostile envelope %s]", sender, which), intent: "fails-early", class: "hostile=envelope"}
	case "fee-exceeds-balance":
		m := &fsm.MessageSend{FromAddress: me, ToAddress: freshAddr(w), Amount: 1}
		return early(w.signWith(rt, sender, m, func(o *cs.TxOpts) { o.Fee = huge }), m.Name(), "fee exceeds balance")
	default: // garbage-bytes
		n := rapid.SampledFrom([]int{0, 1, 20, 255, 300}).Draw(rt, "garbage-len")
		fill := rapid.SampledFrom(wire.HostileFills).Draw(rt, "garbage-fill")
		w.salt++
		bz := append(wire.Bytes(n, fill), byte(w.salt), byte(w.salt>>8))
		return item{bz: bz, label: fmt.Sprintf("garbage %d x 0x%02x", n, fill), intent: "fails-early", class: "early=undecodable"}
	}
}

func marshalAll[T any](xs []T) [][]byte {
	out := make([][]byte, len(xs))
	for i, x := range xs {
		out[i] = cs.MustMarshal(x)
	}
	return out
}

func errText(e error) string {
	if e == nil {
		return ""
	}
	return strings.Join(strings.Fields(e.Error()), " ")
}

// TestC07aAtomicity: proposer-mode ApplyBlock on a generated list L (valid transactions with failing ones at generated
// positions) versus replica-mode ApplyBlock of exactly the included ones on a fork of the same pre-state.
func TestC07aAtomicity(t *testing.T) {
	rec := ev.New(t, "C07")
	rapid.Check(t, func(rt *rapid.T) {
		cse := rec.Case()
		w := newAWorld(rt)
		c := w.c
		defer c.Close()
		for i, n := 0, rapid.IntRange(0, 1).Draw(rt, "pre-blocks"); i < n; i++ {
			if out, err := c.Block(cs.BlockSpec{}); err != nil || out.Err != nil {
				rt.Fatalf("harness: empty block: %v %v", err, out.Err)
			}
		}
		nontriv := false
		for b, blocks := 0, rapid.IntRange(1, 2).Draw(rt, "blocks"); b < blocks; b++ {
			w.resetSenders()
			var L []item
			n := rapid.IntRange(3, 9).Draw(rt, "n")
			for len(L) < n {
				switch rapid.IntRange(0, 10).Draw(rt, "slot") {
				case 0, 1, 2, 3:
					L = append(L, validItem(rt, w, nil))
				case 4, 5:
					L = append(L, failingItem(rt, w, nil))
				case 10: // certificate results of the nested committee: lock an order, then fail (or not) at the checkpoint step
					if it, ok := certItem(rt, w, rapid.IntRange(0, 2).Draw(rt, "cert-stale") != 0); ok {
						L = append(L, it)
						if it.intent != "valid" && rapid.Bool().Draw(rt, "cert-then-valid") {
							L = append(L, validItem(rt, w, nil))
						}
						cse.Class("shape=certificate-results-with-event-before-failure")
					}
				case 6: // two failing ones back to back
					L = append(L, failingItem(rt, w, nil), failingItem(rt, w, nil))
					cse.Class("shape=two-failing-back-to-back")
				case 7: // a failing one and a valid neighbour on the SAME account (stale account cache detector), either order
					s := w.take(rt)
					if s.Kind == cs.KindEth { // keep RLP.V2 nonces simple: plain key for the pair
						s = cs.Signer{Kind: cs.KindEth, Key: s.Key}
					}
					f, v := failingItem(rt, w, &s), validItem(rt, w, &s)
					if rapid.Bool().Draw(rt, "fail-first") {
						L = append(L, f, v)
					} else {
						L = append(L, v, f)
					}
					cse.Class("shape=failing-and-valid-on-one-account")
				case 8: // a rejected parameter change followed by transactions that read the parameters
					s := w.take(rt)
					c1 := rapid.SampledFrom([]struct {
						k string
						v uint64
					}{{fsm.ParamUnstakingBlocks, 0}, {fsm.ParamDelegateUnstakingBlocks, 1}, {fsm.ParamMaxPauseBlocks, 0}}).Draw(rt, "bad-param")
					L = append(L, item{bz: w.sign(rt, s, changeParam(fsm.ParamSpaceVal, c1.k, c1.v, s.Address(), c.Height())), label: fmt.Sprintf("changeParameter(%s=%d) by %s [fails late: value rejected after it was written to the cached object]", c1.k, c1.v, s),
						intent: "fails-late", class: "late=param-invalid-then-readers"})
					if len(w.staked) > 0 {
						d := w.staked[0]
						w.staked = w.staked[1:]
						L = append(L, item{bz: w.sign(rt, d, &fsm.MessageUnstake{Address: d.Address()}), label: fmt.Sprintf("unstake by %s (reads unstaking blocks)", d), intent: "valid", class: "valid=unstake"})
					}
					pv := cs.Signer{Kind: cs.KindBLS, Key: 2}
					L = append(L, item{bz: w.sign(rt, pv, &fsm.MessagePause{Address: pv.Address()}), label: fmt.Sprintf("pause by %s (reads max pause blocks)", pv), intent: "valid", class: "valid=pause"})
					cse.Class("shape=rejected-param-change-then-param-readers")
				default: // a DAO transfer exceeding the pool next to a valid one (stale pool cache detector)
					s1, s2 := w.take(rt), w.take(rt)
					f := item{bz: w.sign(rt, s1, &fsm.MessageDAOTransfer{Address: s1.Address(), Amount: 900_000_000_000, StartHeight: 1, EndHeight: c.Height() + 5000}), label: fmt.Sprintf("daoTransfer by %s [fails late: exceeds the pool]", s1),
						intent: "fails-late", class: "late=dao-exceeds-pool"}
					v := item{bz: w.sign(rt, s2, &fsm.MessageDAOTransfer{Address: s2.Address(), Amount: 777, StartHeight: 1, EndHeight: c.Height() + 5000}), label: fmt.Sprintf("daoTransfer by %s", s2), intent: "valid", class: "valid=daoTransfer"}
					L = append(L, f, v)
					cse.Class("shape=failing-and-valid-on-one-pool")
				}
			}
			if runAndCompare(rt, cse, c, L) {
				nontriv = true
			}
		}
		cse.Done(nontriv)
	})
}

func equalLists(a, b [][]byte) bool {
	if len(a) != len(b) {
		return false
	}
	for i := range a {
		if !bytes.Equal(a[i], b[i]) {
			return false
		}
	}
	return true
}

// runAndCompare is the oracle: proposer-mode ApplyBlock on L on chain c (then committed) versus replica-mode ApplyBlock of exactly
// the included transactions on a fork of the same pre-state. It reports whether a late failure sat in the middle of L.
func runAndCompare(rt *rapid.T, cse *ev.Case, c *cs.Chain, L []item) (nontriv bool) {
	// byte-identical duplicates inside one block are excluded (mempool de-duplicates by hash)
	seen := map[string]bool{}
	var txs [][]byte
	var labels []string
	var kept []item
	for _, it := range L {
		if seen[string(it.bz)] {
			continue
		}
		seen[string(it.bz)] = true
		kept = append(kept, it)
		txs = append(txs, it.bz)
	}
	L = kept
	// ---- proposer path on the chain, replica path on a fork of the same pre-state
	fork, err := c.Fork()
	if err != nil {
		rt.Fatalf("fork: %v", err)
	}
	tm := c.Tick()
	out := c.Use().Propose(cs.BlockSpec{Txs: txs, Time: tm})
	if out.Err != nil {
		fork.Close()
		for _, it := range L {
			labels = append(labels, it.label)
		}
		rt.Fatalf("VIOLATION C07: proposer-mode ApplyBlock failed AS A WHOLE (%s) for the list [%s]: one transaction must never poison the block", errText(out.Err), strings.Join(labels, " | "))
	}
	inc := map[string]bool{}
	failedWhy := map[string]string{}
	for _, tx := range out.Results.Txs {
		inc[string(tx)] = true
	}
	for _, f := range out.Results.Failed {
		failedWhy[string(f.GetBytes())] = errText(f.Error)
	}
	// I u F = L, disjoint, order preserved
	var wantI, wantF [][]byte
	for i, it := range L {
		_, isF := failedWhy[string(it.bz)]
		if inc[string(it.bz)] == isF {
			fork.Close()
			rt.Fatalf("VIOLATION C07: transaction [%s] is in included=%v and failed=%v (must be in exactly one)", it.label, inc[string(it.bz)], isF)
		}
		verdict := "included"
		if isF {
			wantF = append(wantF, it.bz)
			verdict = "FAILED: " + failedWhy[string(it.bz)]
		} else {
			wantI = append(wantI, it.bz)
		}
		labels = append(labels, it.label+" => "+verdict)
		cse.Class(it.class)
		cse.ClassIf(it.intent == "valid" && isF, "note=intended-valid-but-failed")
		cse.ClassIf(it.intent != "valid" && !isF, "note=intended-failing-but-included")
		if it.intent == "fails-late" && isF && i > 0 && i < len(L)-1 {
			nontriv = true
			cse.Class("nontrivial=failed-after-fee-in-the-middle")
		}
	}
	cse.Desc("h%d[%s]", out.Height, strings.Join(labels, " | "))
	var gotF [][]byte
	for _, f := range out.Results.Failed {
		gotF = append(gotF, f.GetBytes())
	}
	if !equalLists(out.Results.Txs, wantI) || !equalLists(gotF, wantF) || len(out.Results.Txs)+len(out.Results.Failed) != len(L) {
		fork.Close()
		rt.Fatalf("VIOLATION C07: included (%d) and failed (%d) lists are not an order-preserving partition of the %d submitted transactions", len(out.Results.Txs), len(out.Results.Failed), len(L))
	}
	propScan, _ := c.Scan() // working state of the proposer after ApplyBlock
	propTracker := trackerText(c.FSM.VerifSlashTracker())
	// replica: exactly the included transactions, no failure tolerated
	blk := &lib.Block{BlockHeader: out.Header, Transactions: append([][]byte(nil), out.Results.Txs...)}
	hdr2, res2, e2 := fork.Use().FSM.ApplyBlock(context.Background(), blk, false)
	if e2 != nil {
		fork.Close()
		rt.Fatalf("VIOLATION C07: replica-mode ApplyBlock of exactly the included transactions FAILED: %s; block [%s]", errText(e2), strings.Join(labels, " | "))
	}
	repScan, _ := fork.Scan()
	repTracker := trackerText(fork.FSM.VerifSlashTracker())
	fork.FSM.Reset()
	fork.Close()
	if len(res2.Failed) != 0 || len(res2.Txs) != len(out.Results.Txs) {
		rt.Fatalf("VIOLATION C07: replica executing the included transactions reports %d failed / %d included (proposer included %d)", len(res2.Failed), len(res2.Txs), len(out.Results.Txs))
	}
	if d := cs.DiffScans(propScan, repScan); d != "" {
		rt.Fatalf("VIOLATION C07: state after the proposer's block (with %d failing transactions) differs from the state after executing only the %d included ones: %s\n   block [%s]", len(out.Results.Failed), len(out.Results.Txs), d, strings.Join(labels, " | "))
	}
	// the per-block slash tracker (what later transactions of this block and the end-block logic observe), compared deep
	if propTracker != repTracker {
		rt.Fatalf("VIOLATION C07: slash tracker after the proposer's block (with %d failing transactions) differs from the tracker after executing only the included ones:\n   proposer %s\n   replica  %s\n   block [%s]",
			len(out.Results.Failed), propTracker, repTracker, strings.Join(labels, " | "))
	}
	cse.ClassIf(propTracker != "{}", "slash-tracker-non-empty")
	if !bytes.Equal(hdr2.Hash, out.Header.Hash) {
		rt.Fatalf("VIOLATION C07: header differs although the state scan is equal: proposer %x replica %x (state root %x / %x, tx root %x / %x)", out.Header.Hash, hdr2.Hash, out.Header.StateRoot, hdr2.StateRoot, out.Header.TransactionRoot, hdr2.TransactionRoot)
	}
	if !equalLists(marshalAll(out.Results.Events), marshalAll(res2.Events)) {
		rt.Fatalf("VIOLATION C07: events differ: proposer %d events, replica %d", len(out.Results.Events), len(res2.Events))
	}
	if !equalLists(out.Results.ResultsBz, res2.ResultsBz) {
		rt.Fatalf("VIOLATION C07: transaction results differ between proposer and replica")
	}
	if err := c.Use().Commit(out); err != nil {
		rt.Fatalf("harness: commit: %v", err)
	}
	after, _ := c.Scan()
	if d := cs.DiffScans(propScan, after); d != "" {
		rt.Fatalf("VIOLATION C07: committed state differs from the working state after ApplyBlock: %s", d)
	}
	return nontriv
}

// trackerText renders the slash tracker canonically (validator -> committee -> percent), ignoring entries without a slash (reading
// the tracker creates empty inner maps).
func trackerText(t map[string]map[uint64]uint64) string {
	var parts []string
	for addr, m := range t {
		for chain, pct := range m {
			if pct != 0 {
				parts = append(parts, fmt.Sprintf("%s/%d=%d%%", addr[:8], chain, pct))
			}
		}
	}
	sort.Strings(parts)
	return "{" + strings.Join(parts, " ") + "}"
}
