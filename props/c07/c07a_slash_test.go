package c07

import (
	"fmt"
	"testing"

	"github.com/canopy-network/canopy/fsm"
	"github.com/canopy-network/canopy/lib"
	"github.com/canopy-network/canopy/lib/crypto"
	"pgregory.net/rapid"

	cs "verif/h/chainsim"
	"verif/h/ev"
	"verif/h/keys"
)

// TestC07aSlashTracker: the one transaction shape that SLASHES and then fails. Order of steps inside a certificate-results
// transaction (fsm.HandleCertificateResults): dex batch, order-book instructions, checkpoint, then HandleByzantine = (1) slash
// the committee's accumulated non-signers (every NonSignWindow blocks), (2) count this certificate's non-signers, (3) validate
// and slash the reported double signers. A certificate whose double-signer list names an (address, height) pair that is
// already indexed fails in (3) AFTER step (1) slashed and recorded the slash in the per-block slash tracker (protocol version 2:
// committee scoped slash cap). Genesis: protocol version 2, NonSignWindow=1, MaxNonSign=0 (one miss is slashed at the next
// certificate), committee 2 = validators 0..3.
//
//	block k:   [neighbours..., P (valid, X does not sign), A (slashes non-signer X, then fails: stale double-sign evidence),
//	            B (valid, reports 2-3 double signs of X: the committee's slash cap of 15% is reached), neighbours...]
//
// If the tracker of the failed A leaks, B slashes X by a different amount than a replica that executes only the included ones.
func TestC07aSlashTracker(t *testing.T) {
	rec := ev.New(t, "C07")
	rapid.Check(t, func(rt *rapid.T) {
		cse := rec.Case()
		p := fsm.DefaultParams()
		p.Consensus.ProtocolVersion = fsm.NewProtocolVersion(0, 2)
		p.Validator.NonSignWindow, p.Validator.MaxNonSign = 1, 0
		g, cast := cs.RichGenesis(1, cs.GenesisOpts{Params: p})
		for i := 0; i < 4; i++ {
			g.Validators[i].Committees = []uint64{1, 2}
		}
		c, err := cs.New(cs.Opts{Genesis: g})
		if err != nil {
			rt.Fatalf("new chain: %v", err)
		}
		defer c.Close()
		w := &aworld{c: c, cast: cast, nonces: map[string]uint64{}}
		w.resetSenders()
		vs, e := c.FSM.LoadCommittee(2, c.Height())
		if e != nil || vs.ValidatorSet == nil || len(vs.ValidatorSet.ValidatorSet) != 4 {
			rt.Fatalf("harness: committee 2: %v", e)
		}
		xi := rapid.IntRange(0, 3).Draw(rt, "non-signer")
		yi := (xi + 1 + rapid.IntRange(0, 2).Draw(rt, "stale-evidence-validator")) % 4
		X, Y := vs.ValidatorSet.ValidatorSet[xi].PublicKey, vs.ValidatorSet.ValidatorSet[yi].PublicKey
		cert := func(height uint64, res *lib.CertificateResult, nonSigners []int, label, intent, class string) item {
			bz, _, err := c.SignedCertResultsTx(2, res, cs.CertOpts{Height: height, RootHeight: c.Height(), NonSigners: nonSigners, ProposerIdx: (xi + 1) % 4})
			if err != nil {
				rt.Fatalf("harness: certificate: %v", err)
			}
			return item{bz: bz, label: label, intent: intent, class: class}
		}
		ds := func(pk []byte, hs ...uint64) *lib.CertificateResult {
			return &lib.CertificateResult{SlashRecipients: &lib.SlashRecipients{DoubleSigners: []*lib.DoubleSigner{{Id: pk, Heights: hs}}}}
		}
		// setup block: evidence (Y, height 1) gets indexed
		s0 := cert(1, ds(Y, 1), nil, "", "", "")
		out, err := c.Block(cs.BlockSpec{Txs: [][]byte{s0.bz}})
		if err != nil || out.Err != nil || len(out.Results.Failed) != 0 {
			rt.Fatalf("harness: setup block: %v %v %v", err, out.Err, out.Results)
		}
		for i, n := 0, rapid.IntRange(0, 1).Draw(rt, "pre-blocks"); i < n; i++ {
			if out, err := c.Block(cs.BlockSpec{}); err != nil || out.Err != nil {
				rt.Fatalf("harness: empty block: %v %v", err, out.Err)
			}
		}
		nDS := rapid.IntRange(2, 3).Draw(rt, "double-signs")
		hs := []uint64{2, 3, 4}[:nDS] // evidence heights of X (not indexed yet)
		var L []item
		for i, n := 0, rapid.IntRange(0, 2).Draw(rt, "before"); i < n; i++ {
			L = append(L, validItem(rt, w, nil))
		}
		L = append(L, cert(2, &lib.CertificateResult{}, []int{xi}, fmt.Sprintf("certificateResults(committee 2, member %d does not sign)", xi), "valid", "valid=certificateResults"))
		if rapid.IntRange(0, 2).Draw(rt, "earlier-valid-slash") != 0 {
			// a VALID certificate that already slashes non-signer X (who misses again): X has an entry in the slash tracker BEFORE the
			// failing certificate starts, so a rollback that restores the tracker by a shallow copy keeps the failed slash
			L = append(L, cert(5, &lib.CertificateResult{}, []int{xi}, fmt.Sprintf("certificateResults(committee 2: slashes non-signer %d, who misses again)", xi), "valid", "valid=certificateResults-nonsigner-slash"))
			cse.Class("shape=validator-already-in-slash-tracker-before-the-failing-slash")
		}
		L = append(L, cert(6, ds(Y, 1), nil, fmt.Sprintf("certificateResults(committee 2: slashes non-signer %d, then stale double-sign evidence of member %d) [fails late: AFTER the non-signer slash]", xi, yi),
			"fails-late", "late=cert-results-slash-then-invalid-evidence"))
		if rapid.Bool().Draw(rt, "between") {
			L = append(L, validItem(rt, w, nil))
		}
		L = append(L, cert(7, ds(X, hs...), nil, fmt.Sprintf("certificateResults(committee 2: member %d double signed at %v)", xi, hs), "valid", "valid=certificateResults-double-sign"))
		for i, n := 0, rapid.IntRange(0, 2).Draw(rt, "after"); i < n; i++ {
			L = append(L, validItem(rt, w, nil))
		}
		pre, _ := c.Scan()
		addrX, _ := crypto.NewPublicKeyFromBytes(X)
		before := cs.ValidatorIn(pre, addrX.Address().Bytes())
		nontriv := runAndCompare(rt, cse, c, L)
		post, _ := c.Scan()
		after := cs.ValidatorIn(post, addrX.Address().Bytes())
		// the case only bites when A really failed after slashing and B really slashed up to the cap
		if before != nil && after != nil {
			lost := before.StakedAmount - after.StakedAmount
			cse.ClassIf(lost*100 >= before.StakedAmount*14, "slash-cap-reached")
			cse.Desc("stake of member %d: %d -> %d", xi, before.StakedAmount, after.StakedAmount)
		}
		_ = keys.BLS
		cse.Done(nontriv)
	})
}
