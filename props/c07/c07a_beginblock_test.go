package c07

import (
	"bytes"
	"fmt"
	"strings"
	"testing"

	"github.com/canopy-network/canopy/fsm"
	"github.com/canopy-network/canopy/lib"
	"google.golang.org/protobuf/proto"
	"pgregory.net/rapid"

	cs "verif/h/chainsim"
	"verif/h/ev"
)

// TestC07aRejectedBeginBlock: a block that is rejected INSIDE BeginBlock after BeginBlock already emitted events, followed by
// the good block on the same state machine. What the controller does for a peer block while syncing is re-stated here at FSM
// level (controller.CheckAndSetLastCertificate + ApplyBlock + FSM.Reset on failure): the block's variant of the LAST quorum
// certificate (same payload, another signature part - not verified while syncing) is indexed into the working store, BeginBlock
// settles the non-sign window of the height (auto-pause + slash of the offender: events) and then fails on the unusable signer
// bitmap of that certificate; the block is rejected and the state machine reset. Then the good block of the same height is
// executed and committed. Oracle: header, events, transaction results and full state of the good block equal those of a twin
// (fork taken before) that never saw the rejected block; the same again for the following block.
func TestC07aRejectedBeginBlock(t *testing.T) {
	rec := ev.New(t, "C07")
	rapid.Check(t, func(rt *rapid.T) {
		cse := rec.Case()
		p := fsm.DefaultParams()
		win := uint64(rapid.IntRange(2, 3).Draw(rt, "non-sign-window"))
		p.Validator.NonSignWindow = win
		p.Validator.MaxNonSign = uint64(rapid.IntRange(0, int(win)-1).Draw(rt, "max-non-sign"))
		g, cast := cs.RichGenesis(1, cs.GenesisOpts{Params: p})
		c, err := cs.New(cs.Opts{Genesis: g})
		if err != nil {
			rt.Fatalf("new chain: %v", err)
		}
		defer c.Close()
		w := &aworld{c: c, cast: cast, nonces: map[string]uint64{}}
		n := len(c.Committee().ValidatorSet.ValidatorSet)
		xi := rapid.IntRange(0, n-1).Draw(rt, "offender")
		// the offender misses every certificate until a window closes with its counter above the maximum
		for !(c.Height()%win == 0 && c.Height() > win+1) {
			if out, err := c.Block(cs.BlockSpec{NonSigners: []int{xi}}); err != nil || out.Err != nil {
				rt.Fatalf("harness: block: %v %v", err, out.Err)
			}
		}
		h := c.Height()
		twin, err := c.Fork()
		if err != nil {
			rt.Fatalf("fork: %v", err)
		}
		defer twin.Close()
		good, e := c.FSM.LoadCertificate(h - 1)
		if e != nil {
			rt.Fatalf("harness: load certificate: %v", e)
		}
		// ---- rejected attempts
		var tried []string
		rejected := 0
		for i, k := 0, rapid.IntRange(1, 2).Draw(rt, "rejected-attempts"); i < k; i++ {
			bad := proto.Clone(good).(*lib.QuorumCertificate)
			kind := rapid.SampledFrom([]string{"bitmap-missing", "bitmap-too-long", "bitmap-too-short", "signature-part-missing"}).Draw(rt, "variant")
			switch kind {
			case "bitmap-missing":
				bad.Signature.Bitmap = nil
			case "bitmap-too-long":
				bad.Signature.Bitmap = append(append([]byte{}, bad.Signature.Bitmap...), 0xff, 0xff)
			case "bitmap-too-short":
				bad.Signature.Bitmap = []byte{}
			default:
				bad.Signature = nil
			}
			// (controller.CheckAndSetLastCertificate: same payload required, signature not verified while syncing)
			if !bad.EqualPayloads(good) {
				rt.Fatalf("harness: variant changes the payload")
			}
			if e := c.Use().Store.IndexQC(bad); e != nil {
				rt.Fatalf("harness: index certificate variant: %v", e)
			}
			out := c.Propose(cs.BlockSpec{Time: c.Tick()}) // on failure Propose resets the state machine, like the controller
			if out.Err == nil {
				c.Abort()
				tried = append(tried, kind+"(accepted)")
				cse.Class("variant-accepted=" + kind)
				continue
			}
			rejected++
			tried = append(tried, kind+"(rejected: "+strings.Join(strings.Fields(out.Err.Error()), " ")+")")
			cse.Class("rejected-in-begin-block=" + kind)
		}
		// ---- the good block of height h, then one more, on both chains
		w.resetSenders()
		var txs [][]byte
		var names []string
		for i, k := 0, rapid.IntRange(0, 2).Draw(rt, "good-txs"); i < k; i++ {
			it := validItem(rt, w, nil)
			txs, names = append(txs, it.bz), append(names, it.label)
		}
		cse.Desc("window=%d max=%d offender=%d h%d rejected[%s] good[%s]", win, p.Validator.MaxNonSign, xi, h, strings.Join(tried, "; "), strings.Join(names, "; "))
		emitted := 0
		for step := 0; step < 2; step++ {
			tm := c.Tick()
			spec := cs.BlockSpec{Time: tm}
			if step == 0 {
				spec.Txs = txs
			}
			a, err := c.Use().Block(spec)
			if err != nil || a.Err != nil {
				rt.Fatalf("VIOLATION C07: the good block of height %d fails after %d rejected attempts: %v %v", h+uint64(step), rejected, err, a.Err)
			}
			b, err := twin.Use().Block(spec)
			if err != nil || b.Err != nil {
				rt.Fatalf("harness: twin block: %v %v", err, b.Err)
			}
			if step == 0 {
				emitted = len(b.Results.Events)
			}
			if !equalLists(marshalAll(a.Results.Events), marshalAll(b.Results.Events)) {
				rt.Fatalf("VIOLATION C07: block %d after %d rejected block(s) [%s] carries %d events, the twin that never saw them %d:\n   node %s\n   twin %s", a.Height, rejected, strings.Join(tried, "; "),
					len(a.Results.Events), len(b.Results.Events), eventText(a.Results.Events), eventText(b.Results.Events))
			}
			if !bytes.Equal(a.Header.Hash, b.Header.Hash) || !equalLists(a.Results.ResultsBz, b.Results.ResultsBz) {
				rt.Fatalf("VIOLATION C07: block %d after rejected block(s) differs from the twin's: header %x vs %x", a.Height, a.Header.Hash, b.Header.Hash)
			}
			sa, _ := c.Use().Scan()
			sb, _ := twin.Use().Scan()
			if d := cs.DiffScans(sa, sb); d != "" {
				rt.Fatalf("VIOLATION C07: state after block %d differs from the twin that never saw the rejected block(s): %s", a.Height, d)
			}
		}
		cse.ClassIf(emitted > 0, "begin-block-emitted-events")
		cse.Done(rejected > 0 && emitted > 0)
	})
}

func eventText(es []*lib.Event) string {
	var out []string
	for _, e := range es {
		out = append(out, fmt.Sprintf("%s@%d(%x)", e.EventType, e.Height, e.Address[:min(4, len(e.Address))]))
	}
	return "[" + strings.Join(out, " ") + "]"
}
