package c20

import (
	"testing"

	"github.com/canopy-network/canopy/fsm"
	"github.com/canopy-network/canopy/lib"

	"verif/h/chainsim"
)

// TestC20Reg_LivenessFallbackReexecutesRootBatch reproduces finding KF-C20-liveness-reexecution (also reproduced with the
// production value lib.LivenessFallbackBlocks = 60; lowered to 10 here only to keep the always-run regression short):
// a root user's limit order sits in the root chain's locked batch, the nested chain executes it (pays the buyer) and locks
// its answer; the root chain then includes no certificate-results transaction for lib.LivenessFallbackBlocks nested blocks;
// the nested chain orders and executes the liveness fallback - and executes the SAME root batch a second time: the buyer is
// paid twice out of the nested liquidity pool for an order whose seller pays once.
func TestC20Reg_LivenessFallbackReexecutesRootBatch(t *testing.T) {
	old := lib.LivenessFallbackBlocks
	lib.LivenessFallbackBlocks = 10
	defer func() { lib.LivenessFallbackBlocks = old }()
	tc := newDexPair(t, 1_000_000, 1_000_000, 1)
	defer tc.Close()
	buyer := chainsim.Addr(dexUser(4))
	nBal := func() uint64 { rs, _ := tc.Nested.Raw(); return rs.Account(buyer) }
	nPool := func() uint64 { rs, _ := tc.Nested.Raw(); return rs.PoolAmount(dexRoot + fsm.LiquidityPoolAddend) }
	start := nBal()
	step := func(rootTxs [][]byte, deliver bool) {
		no, err := tc.NestedBlock(nil, 0, nil)
		if err != nil || no.Err != nil {
			t.Fatalf("nested block: %v %v", err, no.Err)
		}
		txs := rootTxs
		if deliver && no.CertTx != nil {
			txs = append(txs, no.CertTx)
		}
		out, err := tc.Root.Block(chainsim.BlockSpec{Txs: txs})
		if err != nil || out.Err != nil {
			t.Fatalf("root block: %v %v", err, out.Err)
		}
		for _, f := range out.Results.Failed {
			t.Fatalf("root tx failed: %v", f.Error)
		}
	}
	// pipeline warm-up
	for i := 0; i < 3; i++ {
		step(nil, true)
	}
	// the root user sells 10000 root tokens for nested tokens
	order, _, err := tc.Root.SignTx(dexUser(4), &fsm.MessageDexLimitOrder{ChainId: dexNested, AmountForSale: 10_000, RequestedAmount: 1, Address: buyer}, 0, tc.Root.Height(), "")
	if err != nil {
		t.Fatal(err)
	}
	step([][]byte{order}, true) // the order is rotated into the root's locked batch by this block's certificate-results transaction
	step(nil, false)            // the nested chain executes the root batch (pays the buyer), locks its answer; the root goes silent
	paidOnce := nBal() - start
	if paidOnce == 0 {
		t.Fatalf("setup: the nested chain did not execute the root order")
	}
	poolAfterFirst := nPool()
	for i := uint64(0); i < lib.LivenessFallbackBlocks+2*lib.TriggerModuloBlocks; i++ {
		step(nil, false)
	}
	if got := nBal() - start; got != paidOnce {
		t.Fatalf("the buyer of ONE root order (10000 root tokens, paid once by the seller) received %d nested tokens at execution and %d in total after the liveness fallback; nested liquidity pool %d -> %d",
			paidOnce, got, poolAfterFirst, nPool())
	}
}
