package c20

import (
	"testing"

	"github.com/canopy-network/canopy/fsm"
	"github.com/canopy-network/canopy/lib"

	"verif/h/chainsim"
)

// TestC20Reg_LivenessFallbackReexecutesRootBatch reproduces finding KF-C20-liveness-reexecution (also reproduced with the
// production value lib.LivenessFallbackBlocks = 60; lowered to 10 here only to keep the always-run regression short):
// a root user's limit order sits in the root chain's locked batch, the nested chain executes it (pays the buyer) and locks
// its answer; the root chain then includes no certificate-results transaction for lib.LivenessFallbackBlocks nested blocks;
// the nested chain orders and executes the liveness fallback - and executes the SAME root batch a second time: the buyer is
// paid twice out of the nested liquidity pool for an order whose seller pays once.
func TestC20Reg_LivenessFallbackReexecutesRootBatch(t *testing.T) {
	old := lib.LivenessFallbackBlocks
	lib.LivenessFallbackBlocks = 10
	defer func() { lib.LivenessFallbackBlocks = old }()
	tc := newDexPair(t, 1_000_000, 1_000_000, 1)
	defer tc.Close()
	buyer := chainsim.Addr(dexUser(4))
	nBal := func() uint64 { rs, _ := tc.Nested.Raw(); return rs.Account(buyer) }
	nPool := func() uint64 { rs, _ := tc.Nested.Raw(); return rs.PoolAmount(dexRoot + fsm.LiquidityPoolAddend) }
	start := nBal()
	step := func(rootTxs [][]byte, deliver bool) {
		no, err := tc.NestedBlock(nil, 0, nil)
		if err != nil || no.Err != nil {
			t.Fatalf("nested block: %v %v", err, no.Err)
		}
		txs := rootTxs
		if deliver && no.CertTx != nil {
			txs = append(txs, no.CertTx)
		}
		out, err := tc.RootBlock(chainsim.BlockSpec{Txs: txs})
		if err != nil || out.Err != nil {
			t.Fatalf("root block: %v %v", err, out.Err)
		}
		for _, f := range out.Results.Failed {
			t.Fatalf("root tx failed: %v", f.Error)
		}
	}
	// pipeline warm-up
	for i := 0; i < 3; i++ {
		step(nil, true)
	}
	// the root user sells 10000 root tokens for nested tokens
	order, _, err := tc.Root.SignTx(dexUser(4), &fsm.MessageDexLimitOrder{ChainId: dexNested, AmountForSale: 10_000, RequestedAmount: 1, Address: buyer}, 0, tc.Root.Height(), "")
	if err != nil {
		t.Fatal(err)
	}
	step([][]byte{order}, true) // the order is rotated into the root's locked batch by this block's certificate-results transaction
	step(nil, false)            // the nested chain executes the root batch (pays the buyer), locks its answer; the root goes silent
	paidOnce := nBal() - start
	if paidOnce == 0 {
		t.Fatalf("setup: the nested chain did not execute the root order")
	}
	poolAfterFirst := nPool()
	for i := uint64(0); i < lib.LivenessFallbackBlocks+2*lib.TriggerModuloBlocks; i++ {
		step(nil, false)
	}
	if got := nBal() - start; got != paidOnce {
		t.Fatalf("the buyer of ONE root order (10000 root tokens, paid once by the seller) received %d nested tokens at execution and %d in total after the liveness fallback; nested liquidity pool %d -> %d",
			paidOnce, got, poolAfterFirst, nPool())
	}
}

// TestC20Reg_LivenessFallbackRefundsWhatRootExecutes reproduces finding KF-C20-liveness-refund-and-execute: a nested user's
// limit order sits in the nested chain's locked batch; the root chain includes no certificate-results transaction for
// lib.LivenessFallbackBlocks nested blocks; the nested chain orders the liveness fallback - in a certificate that still
// carries the locked batch as DexBatch - and refunds the order with its next block. The root chain is only late: it now
// includes that very certificate-results transaction and executes the batch. The seller holds the refund on the nested
// chain AND the proceeds on the root chain.
func TestC20Reg_LivenessFallbackRefundsWhatRootExecutes(t *testing.T) {
	old := lib.LivenessFallbackBlocks
	lib.LivenessFallbackBlocks = 10
	defer func() { lib.LivenessFallbackBlocks = old }()
	tc := newDexPair(t, 1_000_000, 1_000_000, 1)
	defer tc.Close()
	seller := chainsim.Addr(dexUser(3))
	bal := func(c *chainsim.Chain) uint64 { rs, _ := c.Raw(); return rs.Account(seller) }
	nStart, rStart := bal(tc.Nested), bal(tc.Root)
	var last *chainsim.NestedOutcome
	step := func(nestedTxs [][]byte, deliver bool) {
		no, err := tc.NestedBlock(nestedTxs, 0, nil)
		if err != nil || no.Err != nil {
			t.Fatalf("nested block: %v %v", err, no.Err)
		}
		last = no
		var txs [][]byte
		if deliver && no.CertTx != nil {
			txs = append(txs, no.CertTx)
		}
		if out, err := tc.RootBlock(chainsim.BlockSpec{Txs: txs}); err != nil || out.Err != nil || len(out.Results.Failed) != 0 {
			t.Fatalf("root block: %v %v %v", err, out.Err, out.Results.Failed)
		}
	}
	for i := 0; i < 3; i++ {
		step(nil, true)
	}
	order, _, err := tc.Nested.SignTx(dexUser(3), &fsm.MessageDexLimitOrder{ChainId: dexRoot, AmountForSale: 10_000, RequestedAmount: 1, Address: seller}, 0, tc.Nested.Height(), "")
	if err != nil {
		t.Fatal(err)
	}
	step([][]byte{order}, false) // the order is locked into the nested chain's batch (same-block inclusion); the root goes silent
	if got := bal(tc.Nested); got != nStart-10_000 {
		t.Fatalf("setup: order not escrowed (%d -> %d)", nStart, got)
	}
	var ordering []byte
	for i := uint64(0); i < lib.LivenessFallbackBlocks+2*lib.TriggerModuloBlocks && ordering == nil; i++ {
		step(nil, false)
		if last.Liveness {
			ordering = last.CertTx // this certificate orders the fallback and still carries the doomed batch
		}
	}
	if ordering == nil {
		t.Fatalf("setup: the liveness fallback was never ordered")
	}
	step(nil, false) // the nested chain executes the fallback: refund
	refunded := bal(tc.Nested) == nStart
	// the root chain is back and includes the certificate-results transaction it was sent
	out, err := tc.RootBlock(chainsim.BlockSpec{Txs: [][]byte{ordering}})
	if err != nil || out.Err != nil {
		t.Fatalf("root block: %v %v", err, out.Err)
	}
	if len(out.Results.Failed) != 0 {
		t.Logf("the root rejected the late certificate: %v", out.Results.Failed[0].Error)
	}
	paid := bal(tc.Root) - rStart
	if refunded && paid != 0 {
		t.Fatalf("the seller of ONE nested order (10000 nested tokens) was refunded in full on the nested chain by the liveness fallback and was paid %d root tokens by the root chain that executed the same batch afterwards", paid)
	}
}

// TestC20Reg_LivenessFallbackWipesPoints reproduces finding KF-C20-liveness-points-wiped: the root chain has not yet locked a
// batch for the nested committee (it never included a certificate-results transaction that carried one) when the nested
// chain runs the liveness fallback. fsm.GetDexBatch returns before attaching the pool points when there is no stored batch,
// so the certified RootDexBatch carries an EMPTY points ledger and the fallback "mirrors" it: every liquidity provider loses
// its points on the nested chain while the root chain keeps them.
func TestC20Reg_LivenessFallbackWipesPoints(t *testing.T) {
	old := lib.LivenessFallbackBlocks
	lib.LivenessFallbackBlocks = 10
	defer func() { lib.LivenessFallbackBlocks = old }()
	tc := newDexPair(t, 1_000_000, 1_000_000, 1)
	defer tc.Close()
	executed := false
	for i := uint64(0); i < lib.LivenessFallbackBlocks+3*lib.TriggerModuloBlocks && !executed; i++ {
		no, err := tc.NestedBlock(nil, 0, nil)
		if err != nil || no.Err != nil {
			t.Fatalf("nested block: %v %v", err, no.Err)
		}
		if out, err := tc.RootBlock(chainsim.BlockSpec{}); err != nil || out.Err != nil { // the root never includes a certificate
			t.Fatalf("root block: %v %v", err, out.Err)
		}
		if no.Liveness {
			if no, err = tc.NestedBlock(nil, 0, nil); err != nil || no.Err != nil {
				t.Fatalf("nested block: %v %v", err, no.Err)
			}
			executed = true
		}
	}
	if !executed {
		t.Fatalf("setup: the liveness fallback was never ordered")
	}
	rr, _ := tc.Root.Raw()
	nr, _ := tc.Nested.Raw()
	rp, np := rr.Pools[dexNested+fsm.LiquidityPoolAddend], nr.Pools[dexRoot+fsm.LiquidityPoolAddend]
	if len(np.Points) != len(rp.Points) || np.TotalPoolPoints != rp.TotalPoolPoints {
		t.Fatalf("after the liveness fallback the nested chain's liquidity pool has %d providers / %d total points, the root chain's %d providers / %d total points", len(np.Points), np.TotalPoolPoints, len(rp.Points), rp.TotalPoolPoints)
	}
}
