package c20

import (
	"fmt"
	"math/big"
	"strings"
	"testing"

	"github.com/canopy-network/canopy/fsm"
	"github.com/canopy-network/canopy/lib"
	"github.com/canopy-network/canopy/lib/crypto"
	"pgregory.net/rapid"

	"verif/h/chainsim"
	"verif/h/ev"
	"verif/h/keys"
)

/*
AMM / DEX on two coupled chains (h/chainsim TwoChain: root id 1, nested id 2, certificate-results transactions really
signed by the root chain's committee for chain 2). Generated: genesis reserves from {1, 2, 10^6, 2^63, 2^64-2^41} on
either side, initial points ledger (none / providers + dead address), per step 0-2 user transactions per chain (limit
orders with amounts {1,2,10^3,10^5,10^9,...} and requested amounts around the current price, deposits, withdrawals
1..100 % by providers and non-providers), which chain produces a block, how far behind the root height the nested
block is built, and which pending certificate-results transactions the root includes, keeps for later or loses.
*/

const (
	dexRoot    = uint64(1)
	dexNested  = uint64(2)
	dexUsers   = 6
	dexBalance = uint64(1) << 38
)

const capWeakest = 50 // points of the weakest filler provider in cap mode

var dexReserves = []uint64{1_000_000, 1, 2, 1 << 63, ^uint64(0) - (1 << 41), 50_000_000_000}

func dexUser(i int) crypto.PrivateKeyI { return keys.Ed(10 + i) }

type dexTx struct {
	kind    string // order | deposit | withdraw
	user    int
	amount  uint64
	request uint64
	percent uint64
	raw     []byte
	id      []byte
	desc    string
}

type dexSide struct {
	c       *chainsim.Chain
	self    uint64
	counter uint64
}

type dexCase struct {
	tc        *chainsim.TwoChain
	or        *dexOracle
	lastNRes  *lib.CertificateResult // results certified with the previous nested block
	nPoolAt   map[uint64]*big.Int    // nested height -> nested liquidity pool after that block
	pending   []*pendingCert
	lastRC    uint64 // root height the previous nested block was built on
	orderTxs  int
	failedTxs int
}

type pendingCert struct {
	tx  []byte
	qc  *lib.QuorumCertificate
	age int
}

func newDexPair(t interface{ Fatalf(string, ...any) }, rootPool, nestedPool uint64, ptsMode int) *chainsim.TwoChain {
	vals := []chainsim.ValSpec{}
	for i := 0; i < 4; i++ {
		vals = append(vals, chainsim.ValSpec{Key: i, OutputKey: -1, Stake: 1_000_000, Committees: []uint64{dexRoot, dexNested}})
	}
	accts := []chainsim.AcctSpec{}
	for i := 0; i < dexUsers; i++ {
		accts = append(accts, chainsim.AcctSpec{Kind: 1, Key: 10 + i, Amount: dexBalance})
	}
	var pts []*lib.PoolPoints
	var total uint64
	if ptsMode > 0 {
		// the ledger a pool has after its first deposits: the permanent dead-address entry plus providers, identical on both chains
		pts = []*lib.PoolPoints{{Address: deadAddress, Points: 1000}, {Address: chainsim.Addr(dexUser(0)), Points: 1000}, {Address: chainsim.Addr(dexUser(1)), Points: 3000}}
		total = 5000
		if ptsMode == 2 {
			pts = append(pts, &lib.PoolPoints{Address: chainsim.Addr(dexUser(2)), Points: 7})
			total += 7
		}
		// cap mode: ptsMode = number of providers (lib.MaxLiquidityProviders or one less): filler providers with deterministic
		// addresses and small distinct balances; the weakest holds capWeakest points
		for i := 0; len(pts) < ptsMode && ptsMode > 2; i++ {
			pp := &lib.PoolPoints{Address: crypto.Hash([]byte(fmt.Sprintf("verif-lp-%d", i)))[:20], Points: capWeakest + uint64(i)}
			pts = append(pts, pp)
			total += pp.Points
		}
	}
	clone := func() []*lib.PoolPoints {
		var out []*lib.PoolPoints
		for _, p := range pts {
			out = append(out, &lib.PoolPoints{Address: p.Address, Points: p.Points})
		}
		return out
	}
	rg := chainsim.BuildGenesis(dexRoot, vals, accts, []*fsm.Pool{{Id: dexNested + fsm.LiquidityPoolAddend, Amount: rootPool, Points: clone(), TotalPoolPoints: total}}, nil)
	root, err := chainsim.New(chainsim.Opts{ChainID: dexRoot, Genesis: rg})
	if err != nil {
		t.Fatalf("root: %v", err)
	}
	np := fsm.DefaultParams()
	np.Consensus.RootChainId = dexRoot
	ng := chainsim.BuildGenesis(dexNested, nil, accts, []*fsm.Pool{{Id: dexRoot + fsm.LiquidityPoolAddend, Amount: nestedPool, Points: clone(), TotalPoolPoints: total}}, np)
	nested, err := chainsim.New(chainsim.Opts{ChainID: dexNested, Genesis: ng})
	if err != nil {
		root.Close()
		t.Fatalf("nested: %v", err)
	}
	return chainsim.NewTwoChain(root, nested)
}

func estimate(x, y, dX uint64) uint64 {
	in := new(big.Int).Mul(u(dX), big.NewInt(990))
	den := new(big.Int).Add(new(big.Int).Mul(u(x), big.NewInt(1000)), in)
	if den.Sign() == 0 {
		return 0
	}
	r := new(big.Int).Div(new(big.Int).Mul(in, u(y)), den)
	if !r.IsUint64() {
		return ^uint64(0)
	}
	return r.Uint64()
}

// genTx draws one user transaction for side s (ownPool / otherPool: current real reserves, to aim requested amounts at the price).
func genTx(t *rapid.T, s dexSide, ownPool, otherPool uint64, capAround uint64) *dexTx {
	x := &dexTx{user: rapid.IntRange(0, dexUsers-1).Draw(t, "user")}
	addr := chainsim.Addr(dexUser(x.user))
	var msg lib.MessageI
	k := rapid.IntRange(0, 9).Draw(t, "txKind")
	if capAround != 0 && k < 6 {
		k = 5 // cap mode: mostly deposits, mostly by users without points, amounts around the weakest provider's worth
		if rapid.IntRange(0, 4).Draw(t, "newcomer") < 4 {
			x.user = rapid.IntRange(2, dexUsers-1).Draw(t, "newcomerWho")
			addr = chainsim.Addr(dexUser(x.user))
		}
	}
	switch {
	case k < 5:
		x.kind = "order"
		x.amount = []uint64{1000, 100_000, 1, 2, 1_000_000_000, 37, dexBalance / 2}[rapid.IntRange(0, 6).Draw(t, "orderAmt")]
		est := estimate(ownPool, otherPool, x.amount)
		switch rapid.IntRange(0, 5).Draw(t, "reqClass") {
		case 0:
			x.request = 1
		case 1:
			x.request = est/2 + 1
		case 2:
			x.request = est
		case 3:
			x.request = est + 1
		case 4:
			x.request = est*2 + 5
		default:
			x.request = ^uint64(0) >> 1
		}
		if x.request == 0 {
			x.request = 1
		}
		msg = &fsm.MessageDexLimitOrder{ChainId: s.counter, AmountForSale: x.amount, RequestedAmount: x.request, Address: addr}
		x.desc = fmt.Sprintf("order u%d sell=%d want>=%d", x.user, x.amount, x.request)
	case k < 7:
		x.kind = "deposit"
		x.amount = []uint64{1000, 1_000_000, 1, 1_000_000_000, 12345}[rapid.IntRange(0, 4).Draw(t, "depAmt")]
		if capAround != 0 {
			x.amount = []uint64{capAround, capAround/2 + 1, capAround + capAround/8 + 1, capAround * 3, capAround/40 + 1, capAround * 40}[rapid.IntRange(0, 5).Draw(t, "capAmt")]
		}
		msg = &fsm.MessageDexLiquidityDeposit{ChainId: s.counter, Amount: x.amount, Address: addr}
		x.desc = fmt.Sprintf("deposit u%d %d", x.user, x.amount)
	default:
		x.kind = "withdraw"
		x.percent = []uint64{50, 100, 1, 33, 99}[rapid.IntRange(0, 4).Draw(t, "pct")]
		if rapid.IntRange(0, 3).Draw(t, "provider") < 3 {
			x.user = rapid.IntRange(0, 2).Draw(t, "lp") // users that are (or become) providers
			addr = chainsim.Addr(dexUser(x.user))
		}
		msg = &fsm.MessageDexLiquidityWithdraw{ChainId: s.counter, Percent: x.percent, Address: addr}
		x.desc = fmt.Sprintf("withdraw u%d %d%%", x.user, x.percent)
	}
	raw, _, err := s.c.SignTx(dexUser(x.user), msg, 0, s.c.Height(), "")
	if err != nil {
		t.Fatalf("sign: %v", err)
	}
	x.raw, x.id = raw, crypto.Hash(raw)[:20]
	return x
}

// splitDeposit: in cap mode a depositor often makes a second (smaller) deposit in the same batch.
func splitDeposit(t *rapid.T, s dexSide, x *dexTx, capMode bool) *dexTx {
	if !capMode || x.kind != "deposit" || rapid.IntRange(0, 2).Draw(t, "secondDeposit") == 0 {
		return nil
	}
	y := &dexTx{kind: "deposit", user: x.user, amount: x.amount/uint64(rapid.IntRange(2, 9).Draw(t, "splitBy")) + 1}
	raw, _, err := s.c.SignTx(dexUser(y.user), &fsm.MessageDexLiquidityDeposit{ChainId: s.counter, Amount: y.amount, Address: chainsim.Addr(dexUser(y.user))}, 0, s.c.Height(), "")
	if err != nil {
		t.Fatalf("sign: %v", err)
	}
	y.raw, y.id = raw, crypto.Hash(raw)[:20]
	y.desc = fmt.Sprintf("deposit u%d %d", y.user, y.amount)
	return y
}

func dexEvents(evs []*lib.Event, ref string) []*lib.Event {
	var out []*lib.Event
	for _, e := range evs {
		if e.Reference != ref {
			continue
		}
		if e.GetDexSwap() != nil || e.GetDexLiquidityDeposit() != nil || e.GetDexLiquidityWithdrawal() != nil {
			out = append(out, e)
		}
	}
	return out
}

// afterBlock runs every check for one block of one side.
func (dc *dexCase) afterBlock(s dexSide, h uint64, pre, post *chainsim.RawState, txs []*dexTx, failed map[string]string, in *dexInput, evs []*lib.Event) error {
	credits := bigmap{}
	if err := dc.or.replay(s.self, s.counter, h, pre, post, in, evs, credits); err != nil {
		return err
	}
	debits := bigmap{}
	for _, x := range txs {
		if msg, bad := failed[crypto.HashString(x.raw)]; bad {
			dc.failedTxs++
			_ = msg
			continue
		}
		switch x.kind {
		case "order":
			debits.add(chainsim.Addr(dexUser(x.user)), u(x.amount))
			dc.or.orders[lib.BytesToString(x.id)] = &dexOrd{origin: s.self, addr: chainsim.Addr(dexUser(x.user)), amount: x.amount, requested: x.request}
			dc.orderTxs++
		case "deposit":
			debits.add(chainsim.Addr(dexUser(x.user)), u(x.amount))
		}
	}
	// every tracked user, and every other address the replay credited (evicted providers)
	addrs := map[string]string{}
	for i := 0; i < dexUsers; i++ {
		addrs[lib.BytesToString(chainsim.Addr(dexUser(i)))] = fmt.Sprintf("u%d", i)
	}
	for k := range credits {
		if addrs[k] == "" {
			addrs[k] = k[:8]
		}
	}
	for k, name := range addrs {
		want := new(big.Int).Set(u(pre.Accounts[k]))
		if credits[k] != nil {
			want.Add(want, credits[k])
		}
		if debits[k] != nil {
			want.Sub(want, debits[k])
		}
		if got := u(post.Accounts[k]); got.Cmp(want) != 0 {
			return fmt.Errorf("chain %d h%d: account %s = %s, expected %s (before %d, credits %v, debits %v)", s.self, h, name, got, want, pre.Accounts[k], credits[k], debits[k])
		}
	}
	if err := checkDexInvariants(post, s.counter); err != nil {
		return fmt.Errorf("chain %d h%d: %v", s.self, h, err)
	}
	// an order is in the next or locked batch of its origin chain exactly until it is settled
	present := map[string]bool{}
	for _, b := range []*lib.DexBatch{post.Locked[s.counter], post.Next[s.counter]} {
		if b != nil {
			for _, o := range b.Orders {
				if present[lib.BytesToString(o.OrderId)] {
					return fmt.Errorf("chain %d h%d: order %x is in two batches", s.self, h, o.OrderId)
				}
				present[lib.BytesToString(o.OrderId)] = true
			}
		}
	}
	for id, le := range dc.or.orders {
		if le.origin != s.self {
			continue
		}
		if (le.settled == 0) != present[id] {
			return fmt.Errorf("chain %d h%d: order %s settled=%d but present in a pending batch=%v", s.self, h, id[:8], le.settled, present[id])
		}
	}
	return nil
}

type dexMode struct {
	liveness bool // the root stops including certificates for a while (lib.LivenessFallbackBlocks lowered by the caller)
	flood    bool // one burst of more than MaxOrdersSettledPerBlock orders
}

func runDexCase(t *rapid.T, rec *ev.Rec, ec *ev.Case, mode dexMode) (nontrivial bool, stats dexStats) {
	rootPool := dexReserves[rapid.IntRange(0, len(dexReserves)-1).Draw(t, "rootReserve")]
	nestedPool := dexReserves[rapid.IntRange(0, len(dexReserves)-1).Draw(t, "nestedReserve")]
	ptsMode := rapid.IntRange(0, 2).Draw(t, "points")
	if rapid.IntRange(0, 3).Draw(t, "pointsPresent") > 0 && ptsMode == 0 {
		ptsMode = 1
	}
	capMode := !mode.liveness && !mode.flood && rapid.IntRange(0, 5).Draw(t, "capMode") == 4
	if capMode {
		// the points ledger of both chains is full (or one slot short) from genesis
		ptsMode = lib.MaxLiquidityProviders - rapid.IntRange(0, 1).Draw(t, "freeSlots")
		rootPool = []uint64{50_000_000_000, 1_000_000, 1 << 63}[rapid.IntRange(0, 2).Draw(t, "capRootReserve")]
		nestedPool = []uint64{50_000_000_000, 1_000_000, 1 << 63}[rapid.IntRange(0, 2).Draw(t, "capNestedReserve")]
		ec.Class("provider-cap-mode")
	}
	tc := newDexPair(t, rootPool, nestedPool, ptsMode)
	defer tc.Close()
	// deposit that mints about as many points as the weakest provider holds: D ~ 2*x*weakest/T
	around := func(pool uint64) uint64 {
		if !capMode {
			return 0
		}
		rs, _ := tc.Root.Raw()
		T := rs.Pools[dexNested+fsm.LiquidityPoolAddend].TotalPoolPoints
		v := new(big.Int).Div(new(big.Int).Mul(new(big.Int).Mul(u(pool), big.NewInt(2)), big.NewInt(capWeakest)), u(T))
		if !v.IsUint64() || v.Uint64() > dexBalance/64 {
			return dexBalance / 64
		}
		return v.Uint64() + 1
	}
	dc := &dexCase{tc: tc, or: newDexOracle(), nPoolAt: map[uint64]*big.Int{}}
	rootS := dexSide{c: tc.Root, self: dexRoot, counter: dexNested}
	nestS := dexSide{c: tc.Nested, self: dexNested, counter: dexRoot}
	ec.Desc("reserves root=%d nested=%d points=%d", rootPool, nestedPool, ptsMode)
	ec.Class(fmt.Sprintf("rootReserve=%s", reserveName(rootPool)))
	ec.Class(fmt.Sprintf("nestedReserve=%s", reserveName(nestedPool)))
	steps := rapid.IntRange(10, 24).Draw(t, "steps")
	silentFrom, silentTo := -1, -1
	if mode.liveness {
		silentFrom = rapid.IntRange(3, 6).Draw(t, "silentFrom")
		silentTo = silentFrom + rapid.IntRange(11, 14).Draw(t, "silentLen")
		steps = silentTo + rapid.IntRange(3, 6).Draw(t, "tail")
	}
	dropped, delayed := 0, 0
	stop := false
	floodStep, floodRoot := -1, false
	if mode.flood {
		floodStep, floodRoot = rapid.IntRange(1, 4).Draw(t, "floodStep"), rapid.Bool().Draw(t, "floodRoot")
		steps = floodStep + rapid.IntRange(5, 8).Draw(t, "floodTail")
	}
	flood := func(s dexSide, own, other uint64) (txs []*dexTx) {
		n := lib.MaxOrdersSettledPerBlock + rapid.IntRange(1, 12).Draw(t, "floodExtra")
		for i := 0; i < n; i++ {
			x := &dexTx{kind: "order", user: i % dexUsers, amount: uint64(1000 + i), request: 1}
			if i%7 == 3 {
				x.request = ^uint64(0) >> 1 // some fail on price
			}
			raw, _, err := s.c.SignTx(dexUser(x.user), &fsm.MessageDexLimitOrder{ChainId: s.counter, AmountForSale: x.amount, RequestedAmount: x.request, Address: chainsim.Addr(dexUser(x.user))}, 0, s.c.Height(), "")
			if err != nil {
				t.Fatalf("sign: %v", err)
			}
			x.raw, x.id = raw, crypto.Hash(raw)[:20]
			txs = append(txs, x)
		}
		return
	}
	for step := 0; step < steps && !stop; step++ {
		rootFirst := rapid.IntRange(0, 3).Draw(t, "rootFirst") == 0
		doNested := rapid.IntRange(0, 9).Draw(t, "nestedBlock") < 9
		doRoot := rapid.IntRange(0, 9).Draw(t, "rootBlock") < 9
		silent := step >= silentFrom && step < silentTo
		if silent && ev.Open(kfLiveness) && answeredRootBatchHasOps(t, tc) {
			// open finding: a liveness fallback while the root's locked batch still holds operations that our locked batch has
			// already answered executes them a second time. Excluded by construction: the root resumes before the fallback.
			silent = false
			rec.Exclude(kfLiveness)
		}
		nestedStep := func() {
			if !doNested {
				return
			}
			h := tc.Nested.Height()
			prevHash := lastBlockHash(t, tc, tc.Nested)
			pre, err := tc.Nested.Raw()
			if err != nil {
				t.Fatalf("scan: %v", err)
			}
			if lb := pre.Locked[dexRoot]; !batchEmpty(lb) && h-lb.LockedHeight >= lib.LivenessFallbackBlocks && (h-lb.LockedHeight)%lib.TriggerModuloBlocks == 0 {
				// this block would order the liveness fallback; open findings end the history here (counted)
				cut := ""
				if ev.Open(kfLiveness) && answeredRootBatchHasOps(t, tc) {
					cut = kfLiveness
				} else if rr, _ := tc.Root.Raw(); ev.Open(kfWipe) && rr != nil && batchEmpty(rr.Locked[dexNested]) {
					cut = kfWipe // the root has never locked a batch: the fallback would mirror an empty points ledger
				}
				if cut != "" {
					rec.Exclude(cut)
					ec.Class("history-cut-before-known-finding")
					stop = true
					return
				}
			}
			rpre, _ := tc.Root.Raw()
			var txs []*dexTx
			var raws [][]byte
			var ds []string
			maxTx := 2
			if capMode {
				maxTx = 4
			}
			for i, n := 0, rapid.IntRange(0, maxTx).Draw(t, "nTxN"); i < n; i++ {
				x := genTx(t, nestS, pre.PoolAmount(dexRoot+fsm.LiquidityPoolAddend), rpre.PoolAmount(dexNested+fsm.LiquidityPoolAddend), around(pre.PoolAmount(dexRoot+fsm.LiquidityPoolAddend)))
				txs, raws, ds = append(txs, x), append(raws, x.raw), append(ds, x.desc)
				if y := splitDeposit(t, nestS, x, capMode); y != nil {
					txs, raws, ds = append(txs, y), append(raws, y.raw), append(ds, y.desc)
				}
			}
			if step == floodStep && !floodRoot {
				for _, x := range flood(nestS, 0, 0) {
					txs, raws = append(txs, x), append(raws, x.raw)
				}
				ds = append(ds, fmt.Sprintf("flood of %d orders", len(txs)))
			}
			lag := rapid.IntRange(0, 1).Draw(t, "rcLag")
			if mode.liveness && ev.Open(kfLateCert) {
				lag = 0 // open finding: a fallback ordered on a stale root height refunds what the root has already executed
			}
			rc := tc.Root.Height() - uint64(lag)
			if rc == 0 {
				rc = 1
			}
			no, err := tc.NestedBlock(raws, rc, nil)
			if err != nil {
				t.Fatalf("nested block %d: %v", h, err)
			}
			if no.Err != nil {
				t.Fatalf("nested block %d failed as a whole (the chain cannot proceed): %v [%s]", h, no.Err, ec.Descriptor())
			}
			ec.Desc("N%d@r%d[%s]", h, no.RCBuildHeight, strings.Join(ds, ","))
			post, err := tc.Nested.Raw()
			if err != nil {
				t.Fatalf("scan: %v", err)
			}
			failed := map[string]string{}
			for _, f := range no.Results.Failed {
				failed[f.Hash] = f.Error.Error()
			}
			// which root batch did BeginBlock process: decided by the certificate of the previous nested block
			var in *dexInput
			if dc.lastNRes != nil && dc.lastNRes.RootDexBatch != nil {
				if dc.lastNRes.RootDexBatch.LivenessFallback {
					in = &dexInput{remote: dc.lastNRes.RootDexBatch, fallback: true, prevBlockHash: prevHash, counterLedger: rootLedgerAt(t, tc, dc.lastRC)}
					ec.Class("liveness-fallback-executed")
					ec.Desc("(liveness-fallback-executed)")
				} else {
					rp, e := rootPoolAt(tc, no.RCBuildHeight)
					if e != nil {
						t.Fatalf("root pool: %v", e)
					}
					in = &dexInput{remote: no.RootBatch, counterPool: rp, prevBlockHash: prevHash}
				}
			}
			if err := dc.afterBlock(nestS, h, pre, post, txs, failed, in, dexEvents(no.Results.Events, lib.EventStageBeginBlock)); err != nil {
				t.Fatalf("%v\nhistory: %s", err, ec.Descriptor())
			}
			dc.lastNRes, dc.lastRC = no.QC.Results, no.RCBuildHeight
			dc.nPoolAt[h] = u(post.PoolAmount(dexRoot + fsm.LiquidityPoolAddend))
			if no.Liveness {
				ec.Class("liveness-fallback-ordered")
			}
			if no.Liveness && ev.Open(kfLateCert) {
				// open finding: every certificate that still carries the batch the fallback is about to refund (the ordering
				// certificate included) would make the root execute it; they are lost by construction
				var keep []*pendingCert
				for _, p := range dc.pending {
					if p.qc.Results.DexBatch != nil {
						rec.Exclude(kfLateCert)
						continue
					}
					keep = append(keep, p)
				}
				dc.pending = keep
				rec.Exclude(kfLateCert)
			} else if no.CertTx != nil {
				dc.pending = append(dc.pending, &pendingCert{tx: no.CertTx, qc: no.CertQC})
			}
		}
		rootStep := func() {
			if !doRoot {
				return
			}
			h := tc.Root.Height()
			prevHash := lastBlockHash(t, tc, tc.Root)
			pre, err := tc.Root.Raw()
			if err != nil {
				t.Fatalf("scan: %v", err)
			}
			npre, _ := tc.Nested.Raw()
			var txs []*dexTx
			var raws [][]byte
			var ds []string
			maxTx := 2
			if capMode {
				maxTx = 4
			}
			nTxR := rapid.IntRange(0, maxTx).Draw(t, "nTxR")
			if mode.liveness && ev.Open(kfLiveness) && step >= silentFrom-3 && step < silentTo {
				nTxR = 0 // open finding: keep the root's locked batch free of operations around the silent window (see kfLiveness)
			}
			for i, n := 0, nTxR; i < n; i++ {
				x := genTx(t, rootS, pre.PoolAmount(dexNested+fsm.LiquidityPoolAddend), npre.PoolAmount(dexRoot+fsm.LiquidityPoolAddend), around(pre.PoolAmount(dexNested+fsm.LiquidityPoolAddend)))
				txs, raws, ds = append(txs, x), append(raws, x.raw), append(ds, x.desc)
				if y := splitDeposit(t, rootS, x, capMode); y != nil {
					txs, raws, ds = append(txs, y), append(raws, y.raw), append(ds, y.desc)
				}
			}
			if step == floodStep && floodRoot {
				for _, x := range flood(rootS, 0, 0) {
					txs, raws = append(txs, x), append(raws, x.raw)
				}
				ds = append(ds, fmt.Sprintf("flood of %d orders", len(txs)))
			}
			// which pending certificates get in: at most one that carries a DEX batch per root block
			var include, keep []*pendingCert
			withBatch := false
			for _, p := range dc.pending {
				fate := rapid.IntRange(0, 9).Draw(t, "certFate")
				if mode.liveness && ev.Open(kfWipe) && step < silentFrom {
					fate = 0 // open finding: let the root lock its first batch before it goes silent
				}
				if silent {
					fate = 9
					if mode.liveness && p.age > 3 {
						fate = 8 // do not hoard certificates forever
					}
				}
				carries := p.qc.Results.DexBatch != nil
				switch {
				case fate < 7 && !(carries && withBatch):
					include = append(include, p)
					withBatch = withBatch || carries
				case fate == 8:
					dropped++
				default:
					p.age++
					keep = append(keep, p)
					delayed++
				}
			}
			dc.pending = keep
			certAt := rapid.IntRange(0, len(raws)).Draw(t, "certAt")
			var certRaws [][]byte
			for _, p := range include {
				certRaws = append(certRaws, p.tx)
			}
			all := append(append(append([][]byte{}, raws[:certAt]...), certRaws...), raws[certAt:]...)
			out, err := tc.RootBlock(chainsim.BlockSpec{Txs: all})
			if err != nil {
				t.Fatalf("root block %d: %v", h, err)
			}
			if out.Err != nil {
				t.Fatalf("root block %d failed as a whole: %v", h, out.Err)
			}
			failed := map[string]string{}
			for _, f := range out.Results.Failed {
				failed[f.Hash] = f.Error.Error()
			}
			var in *dexInput
			var evs []*lib.Event
			var cd []string
			for _, p := range include {
				hash := crypto.HashString(p.tx)
				msg, bad := failed[hash]
				cd = append(cd, fmt.Sprintf("cert n%d%s%s", p.qc.Header.Height, map[bool]string{true: "+batch", false: ""}[p.qc.Results.DexBatch != nil], map[bool]string{true: "(rejected)", false: ""}[bad]))
				if bad {
					if !strings.Contains(msg, "height") && !strings.Contains(msg, "Height") {
						t.Fatalf("root block %d: certificate of nested height %d rejected: %s", h, p.qc.Header.Height, msg)
					}
					ec.Class("stale-certificate-rejected")
					continue
				}
				if p.qc.Results.DexBatch != nil {
					in = &dexInput{remote: p.qc.Results.DexBatch, counterPool: dc.nPoolAt[p.qc.Header.Height], prevBlockHash: prevHash}
					evs = dexEvents(out.Results.Events, hash)
				}
			}
			ec.Desc("R%d[%s|%s]", h, strings.Join(ds, ","), strings.Join(cd, ","))
			post, err := tc.Root.Raw()
			if err != nil {
				t.Fatalf("scan: %v", err)
			}
			if err := dc.afterBlock(rootS, h, pre, post, txs, failed, in, evs); err != nil {
				t.Fatalf("%v\nhistory: %s", err, ec.Descriptor())
			}
		}
		if rootFirst {
			rootStep()
			nestedStep()
		} else {
			nestedStep()
			rootStep()
		}
	}
	st := dc.or.st
	ec.ClassIf(st.rotations[dexNested] >= 2, "nested-round-trips>=2")
	ec.ClassIf(st.rotations[dexRoot] >= 2, "root-round-trips>=2")
	ec.ClassIf(st.swapsOK > 0, "swap-succeeded>=1")
	ec.ClassIf(st.swapsFailed > 0, "swap-failed>=1")
	ec.ClassIf(st.withdrawals > 0, "withdrawal-executed>=1")
	ec.ClassIf(st.deposits > 0, "deposit-executed>=1")
	ec.ClassIf(st.mismatchNop > 0, "waiting-for-counter-chain(no-op)>=1")
	ec.ClassIf(dropped > 0, "certificate-dropped>=1")
	ec.ClassIf(delayed > 0, "certificate-delayed>=1")
	ec.ClassIf(st.swapsCapped > 0, "orders-beyond-settlement-cap>=1")
	ec.ClassIf(st.fallbacks > 0, "fallbacks>=1")
	ec.ClassIf(st.capBatches > 0, "deposit-batch-at-provider-cap>=1")
	ec.ClassIf(st.capRejected > 0, "newcomer-rejected-at-cap>=1")
	ec.ClassIf(st.evictions > 0, "weakest-provider-evicted>=1")
	ec.ClassIf(st.capRejectedMulti > 0, "rejected-newcomer-had-several-deposits>=1")
	ec.Desc("=> round trips n=%d r=%d swaps ok=%d failed=%d withdrawals=%d deposits=%d", st.rotations[dexNested], st.rotations[dexRoot], st.swapsOK, st.swapsFailed, st.withdrawals, st.deposits)
	return st.rotations[dexNested]+st.rotations[dexRoot] >= 2 && st.swapsOK > 0 && st.swapsFailed > 0 && st.withdrawals > 0, st
}

const (
	kfLiveness = "KF-C20-liveness-reexecution"
	kfLateCert = "KF-C20-liveness-refund-and-execute"
	kfWipe     = "KF-C20-liveness-points-wiped"
)

// answeredRootBatchHasOps: the root's locked batch carries operations and the nested chain's locked batch is the answer to it.
func answeredRootBatchHasOps(t *rapid.T, tc *chainsim.TwoChain) bool {
	rr, err := tc.Root.Raw()
	if err != nil {
		t.Fatalf("scan: %v", err)
	}
	nr, err := tc.Nested.Raw()
	if err != nil {
		t.Fatalf("scan: %v", err)
	}
	rb, nb := rr.Locked[dexNested], nr.Locked[dexRoot]
	if batchEmpty(rb) || len(rb.Orders)+len(rb.Withdrawals)+len(rb.Deposits) == 0 {
		return false
	}
	full, err := tc.RootDexBatchAt(tc.Root.Height(), false)
	if err != nil {
		t.Fatalf("root batch: %v", err)
	}
	return batchEmpty(nb) || string(nb.ReceiptHash) == string(batchHash(full))
}

func lastBlockHash(t *rapid.T, tc *chainsim.TwoChain, c *chainsim.Chain) []byte {
	tc.Use(c)
	b, e := c.FSM.LoadBlock(c.Height() - 1) // what HandleDexBatchOrders loads (height 0 and 1 both mean block 1)
	if e != nil || b == nil || b.BlockHeader == nil {
		return nil
	}
	return b.BlockHeader.Hash
}

func reserveName(v uint64) string {
	switch v {
	case 1 << 63:
		return "2^63"
	case ^uint64(0) - (1 << 41):
		return "near-2^64"
	}
	return fmt.Sprint(v)
}

func rootLedgerAt(t *rapid.T, tc *chainsim.TwoChain, rootHeight uint64) *fsm.Pool {
	sm, e := tc.Root.FSM.TimeMachine(rootHeight)
	if e != nil {
		t.Fatalf("time machine: %v", e)
	}
	if sm != tc.Root.FSM {
		defer sm.Discard()
	}
	p, e := sm.GetPool(dexNested + fsm.LiquidityPoolAddend)
	if e != nil {
		t.Fatalf("root pool: %v", e)
	}
	return p
}

func rootPoolAt(tc *chainsim.TwoChain, rootHeight uint64) (*big.Int, error) {
	sm, e := tc.Root.FSM.TimeMachine(rootHeight)
	if e != nil {
		return nil, e
	}
	if sm != tc.Root.FSM {
		defer sm.Discard()
	}
	b, e := sm.GetPoolBalance(dexNested + fsm.LiquidityPoolAddend)
	if e != nil {
		return nil, e
	}
	return u(b), nil
}

func TestC20Dex(t *testing.T) {
	rec := ev.New(t, "C20")
	rapid.Check(t, func(t *rapid.T) {
		ec := rec.Case()
		nt, _ := runDexCase(t, rec, ec, dexMode{})
		ec.Done(nt)
	})
}

// TestC20DexLiveness: same histories, but the root chain stops including certificate-results transactions for a while, long
// enough for the nested chain to order and execute the liveness fallback. lib.LivenessFallbackBlocks (a package variable,
// 60 in production) is lowered to 10 so that the window fits into a quick history; nothing else changes.
func TestC20DexLiveness(t *testing.T) {
	rec := ev.New(t, "C20")
	old := lib.LivenessFallbackBlocks
	lib.LivenessFallbackBlocks = 10
	defer func() { lib.LivenessFallbackBlocks = old }()
	rapid.Check(t, func(t *rapid.T) {
		ec := rec.Case()
		_, st := runDexCase(t, rec, ec, dexMode{liveness: true})
		ec.Done(st.fallbacks > 0)
	})
}

// TestC20DexFlood: a burst of more than lib.MaxOrdersSettledPerBlock limit orders in one block of one chain: the counter chain
// settles at most the cap per block, the rest keep a zero receipt and must be refunded in full on the origin chain.
func TestC20DexFlood(t *testing.T) {
	rec := ev.New(t, "C20")
	rapid.Check(t, func(t *rapid.T) {
		ec := rec.Case()
		_, st := runDexCase(t, rec, ec, dexMode{flood: true})
		ec.Done(st.swapsCapped > 0)
	})
}
