package c20

import (
	"bytes"
	"fmt"
	"math/big"
	"sort"
	"strings"

	"github.com/canopy-network/canopy/fsm"
	"github.com/canopy-network/canopy/lib"
	"google.golang.org/protobuf/proto"

	"verif/h/chainsim"
)

/*
AMM oracle. For every block of either chain that processes a counter-chain batch, the step is replayed in big integers
from the DOCUMENTED protocol (fsm/dex.go header and HandleRemoteDexBatch comment): receipts for our locked batch (orders,
implied withdrawals, implied deposits), mid-point snapshot, execution of the counter chain's locked batch (orders in the
emitted order, withdrawals, deposits), rotation. The replay takes the actually paid amounts from the emitted events
(observe_at of the property: per-swap (x,y) before/after) and checks, with the reserves it carries:

  - per swap (x,y)->(x+dX,y-dY): dY == floor(990*dX*y/(1000*x+990*dX)) (documented formula, 1% fee, floor) when that is
    >= the requested amount, otherwise the swap fails with dY = 0; dY <= y-1; (x+dX)(y-dY) >= x*y;
  - per withdrawal: burned points <= floor(points*percent/100); payout <= floor(reserve*burned/total) on both sides;
  - failed / unsettled orders are refunded in full, successful ones move exactly AmountForSale into the pool;
  - the liquidity pool after the block equals the replayed reserve; the rotated batch carries the replayed mid-point,
    mirror and receipts; mirror == the counter chain's real pool after the receipts are applied (documented mirroring);
  - every account of a tracked user moved by exactly what the replay says (so nothing is paid twice or lost).

Model-independent invariants checked on every block of both chains: holding pool == sum of orders+deposits in next and
locked batch; sum(Points) == TotalPoolPoints of every pool; Supply.Total == accounts + pools + stakes.
*/

type bigmap map[string]*big.Int

func (m bigmap) add(addr []byte, v *big.Int) {
	k := lib.BytesToString(addr)
	if m[k] == nil {
		m[k] = new(big.Int)
	}
	m[k].Add(m[k], v)
}

func u(v uint64) *big.Int { return new(big.Int).SetUint64(v) }

func mulDivFloor(a, b, c *big.Int) *big.Int {
	if c.Sign() == 0 {
		return new(big.Int)
	}
	return new(big.Int).Div(new(big.Int).Mul(a, b), c)
}

// limit-order ledger entry (one per successful MessageDexLimitOrder)
type dexOrd struct {
	origin    uint64
	addr      []byte
	amount    uint64
	requested uint64
	executed  int    // times the counter chain executed it
	settled   int    // times the origin chain settled it (receipt applied or liveness refund)
	paid      uint64 // what the counter chain paid
}

type dexStats struct {
	rotations        map[uint64]int // chain -> rotations that applied receipts for an own locked batch (completed round trips)
	swapsOK          int
	swapsFailed      int
	swapsCapped      int
	withdrawals      int
	deposits         int
	mismatchNop      int
	fallbacks        int
	capBatches       int // deposit batches that hit the provider cap
	capRejected      int // newcomers rejected at the cap
	evictions        int // incumbents replaced at the cap
	capRejectedMulti int // rejected newcomers that had several deposits in the batch
}

type dexOracle struct {
	orders map[string]*dexOrd // hex(order id)
	lpDone map[string]int     // "<chain>/<hex(order id)>" -> times a withdrawal / deposit was executed on that chain
	knownW map[string]bool    // order ids of the user withdrawals of the step being replayed (anything else is a forced eviction)
	st     dexStats
}

// once records the execution of a withdrawal / deposit on a chain; each may happen once per chain.
func (o *dexOracle) once(where string, id []byte, what string) error {
	k := where[:strings.Index(where, " h")] + "/" + lib.BytesToString(id)
	o.lpDone[k]++
	if o.lpDone[k] > 1 {
		return fmt.Errorf("%s: %s %x executed %d times on this chain", where, what, id, o.lpDone[k])
	}
	return nil
}

func newDexOracle() *dexOracle {
	return &dexOracle{orders: map[string]*dexOrd{}, lpDone: map[string]int{}, st: dexStats{rotations: map[uint64]int{}}}
}

// dexInput describes the counter-chain batch a block processed.
type dexInput struct {
	remote        *lib.DexBatch // as delivered (root: certificate DexBatch; nested: cached root batch, or the certified one with points on fallback)
	fallback      bool
	counterPool   *big.Int  // real liquidity pool of the counter chain in the state the batch was read from (nil: unknown)
	prevBlockHash []byte    // hash of the previous block of the executing chain (seed of the pseudo-random execution order)
	counterLedger *fsm.Pool // fallback only: the counter chain's real liquidity pool (points ledger) in the state the batch was read from
}

func batchHash(b *lib.DexBatch) []byte {
	c := proto.Clone(b).(*lib.DexBatch)
	c.LivenessFallback = false
	return c.Hash()
}

func batchEmpty(b *lib.DexBatch) bool { return b == nil || b.IsEmpty() }

// invariants that do not depend on any model
func checkDexInvariants(rs *chainsim.RawState, counter uint64) error {
	sum := new(big.Int)
	for _, b := range []*lib.DexBatch{rs.Locked[counter], rs.Next[counter]} {
		if b == nil {
			continue
		}
		for _, o := range b.Orders {
			sum.Add(sum, u(o.AmountForSale))
		}
		for _, d := range b.Deposits {
			sum.Add(sum, u(d.Amount))
		}
	}
	if hold := u(rs.PoolAmount(counter + fsm.HoldingPoolAddend)); hold.Cmp(sum) != 0 {
		return fmt.Errorf("holding pool(%d)=%s but orders+deposits of the next and locked batch sum to %s", counter, hold, sum)
	}
	for id, p := range rs.Pools {
		t := new(big.Int)
		for _, pp := range p.Points {
			t.Add(t, u(pp.Points))
		}
		if t.Cmp(u(p.TotalPoolPoints)) != 0 {
			return fmt.Errorf("pool %d: sum(Points)=%s, TotalPoolPoints=%d", id, t, p.TotalPoolPoints)
		}
	}
	return rs.SupplyIdentity()
}

type evCursor struct {
	evs []*lib.Event
	i   int
}

func (c *evCursor) peek() *lib.Event {
	if c.i < len(c.evs) {
		return c.evs[c.i]
	}
	return nil
}
func (c *evCursor) next() *lib.Event { e := c.peek(); c.i++; return e }

type pointsLedger struct {
	pts   map[string]*big.Int
	total *big.Int
}

func ledgerOf(p *fsm.Pool) *pointsLedger {
	l := &pointsLedger{pts: map[string]*big.Int{}, total: new(big.Int)}
	if p != nil {
		for _, pp := range p.Points {
			l.pts[string(pp.Address)] = u(pp.Points)
		}
		l.total = u(p.TotalPoolPoints)
	}
	return l
}

var deadAddress = bytes.Repeat([]byte{0xde, 0xad}, 10)

// mint applies the documented deposit rule: all deposits of a batch as one deposit D into reserve x against y:
// minted = floor(T*(sqrt((x+D)*y)-sqrt(x*y))/sqrt(x*y)), dust to the dead address; first ever liquidity: T = sqrt(x*y) to dead.
func (l *pointsLedger) mint(x, y, total *big.Int, shares map[string]*big.Int, distributed *big.Int) {
	if l.total.Sign() == 0 {
		k := new(big.Int).Sqrt(new(big.Int).Mul(x, y))
		l.credit(deadAddress, k)
	}
	oldK := new(big.Int).Sqrt(new(big.Int).Mul(x, y))
	newK := new(big.Int).Sqrt(new(big.Int).Mul(new(big.Int).Add(x, total), y))
	minted := mulDivFloor(l.total, new(big.Int).Sub(newK, oldK), oldK)
	for a, s := range shares {
		l.credit([]byte(a), s)
	}
	l.credit(deadAddress, new(big.Int).Sub(minted, distributed))
}

func (l *pointsLedger) credit(addr []byte, v *big.Int) {
	if v.Sign() == 0 {
		return
	}
	if l.pts[string(addr)] == nil {
		l.pts[string(addr)] = new(big.Int)
	}
	l.pts[string(addr)].Add(l.pts[string(addr)], v)
	l.total.Add(l.total, v)
}

// replayWithdrawals consumes the withdrawal events of one batch. self/other are the reserves paying LocalAmount / RemoteAmount.
func (o *dexOracle) replayWithdrawals(cur *evCursor, ws []*lib.DexLiquidityWithdraw, led *pointsLedger, self, other *big.Int, credits bigmap, where string) error {
	if len(ws) == 0 {
		return nil
	}
	// nothing is emitted when the whole batch burns no points
	anyBurn := false
	for _, w := range ws {
		if hp := led.pts[string(w.Address)]; hp != nil && mulDivFloor(hp, u(w.Percent), big.NewInt(100)).Sign() > 0 {
			anyBurn = true
		}
	}
	if !anyBurn {
		return nil
	}
	snapSelf, snapOther, snapTotal := new(big.Int).Set(self), new(big.Int).Set(other), new(big.Int).Set(led.total)
	paidSelf, paidOther := new(big.Int), new(big.Int)
	for _, w := range ws {
		hp := led.pts[string(w.Address)]
		if hp == nil {
			continue // not a provider: skipped
		}
		e := cur.next()
		if e == nil || e.GetDexLiquidityWithdrawal() == nil || !bytes.Equal(e.GetDexLiquidityWithdrawal().OrderId, w.OrderId) {
			return fmt.Errorf("%s: expected the withdrawal event of %x, got %v", where, w.OrderId, e)
		}
		wd := e.GetDexLiquidityWithdrawal()
		if err := o.once(where, w.OrderId, "withdrawal"); err != nil {
			return err
		}
		burned := u(wd.PointsBurned)
		if burned.Cmp(mulDivFloor(hp, u(w.Percent), big.NewInt(100))) > 0 {
			return fmt.Errorf("%s: withdrawal %x burned %s points, more than %d%% of the provider's %s", where, w.OrderId, burned, w.Percent, hp)
		}
		if lim := mulDivFloor(snapSelf, burned, snapTotal); u(wd.LocalAmount).Cmp(lim) > 0 {
			return fmt.Errorf("%s: withdrawal %x paid %d, more than floor(reserve %s * points %s / total %s) = %s", where, w.OrderId, wd.LocalAmount, snapSelf, burned, snapTotal, lim)
		}
		if lim := mulDivFloor(snapOther, burned, snapTotal); u(wd.RemoteAmount).Cmp(lim) > 0 {
			return fmt.Errorf("%s: withdrawal %x counter amount %d, more than floor(reserve %s * points %s / total %s) = %s", where, w.OrderId, wd.RemoteAmount, snapOther, burned, snapTotal, lim)
		}
		hp.Sub(hp, burned)
		led.total.Sub(led.total, burned)
		credits.add(w.Address, u(wd.LocalAmount))
		paidSelf.Add(paidSelf, u(wd.LocalAmount))
		paidOther.Add(paidOther, u(wd.RemoteAmount))
		o.st.withdrawals++
	}
	for a, hp := range led.pts {
		if hp.Sign() == 0 {
			delete(led.pts, a)
		}
	}
	self.Sub(self, paidSelf)
	other.Sub(other, paidOther)
	return nil
}

// replayDeposits consumes the deposit events of one batch; x is the reserve that receives the deposits, y the other one.
func (o *dexOracle) replayDeposits(cur *evCursor, ds []*lib.DexLiquidityDeposit, led *pointsLedger, x, y *big.Int, local bool, credits bigmap, where string) (moved *big.Int, err error) {
	moved = new(big.Int)
	if len(ds) == 0 || x.Sign() == 0 || y.Sign() == 0 {
		return moved, nil
	}
	// newcomers = depositors without points; when they do not all fit under lib.MaxLiquidityProviders the documented cap rule
	// applies (handleCappedBatchDeposit): incumbents first, then the best-funded newcomers; at the cap a newcomer either
	// replaces the weakest provider (which is withdrawn 100%) or is rejected and gets ALL its deposits back
	newcomers := map[string]bool{}
	for _, d := range ds {
		if led.pts[string(d.Address)] == nil && d.Amount > 0 {
			newcomers[string(d.Address)] = true
		}
	}
	if len(led.pts)+len(newcomers) > lib.MaxLiquidityProviders {
		return o.replayCappedDeposits(cur, ds, newcomers, led, x, y, local, credits, where)
	}
	shares, distributed, total := map[string]*big.Int{}, new(big.Int), new(big.Int)
	for _, d := range ds {
		e := cur.next()
		if e == nil || e.GetDexLiquidityDeposit() == nil || !bytes.Equal(e.GetDexLiquidityDeposit().OrderId, d.OrderId) {
			return nil, fmt.Errorf("%s: expected the deposit event of %x, got %v", where, d.OrderId, e)
		}
		de := e.GetDexLiquidityDeposit()
		if err := o.once(where, d.OrderId, "deposit"); err != nil {
			return nil, err
		}
		if de.Amount != d.Amount || de.LocalOrigin != local {
			return nil, fmt.Errorf("%s: deposit event %x amount %d local=%v, batch says %d local=%v", where, d.OrderId, de.Amount, de.LocalOrigin, d.Amount, local)
		}
		if shares[string(d.Address)] == nil {
			shares[string(d.Address)] = new(big.Int)
		}
		shares[string(d.Address)].Add(shares[string(d.Address)], u(de.Points))
		distributed.Add(distributed, u(de.Points))
		total.Add(total, u(d.Amount))
		o.st.deposits++
	}
	led.mint(x, y, total, shares, distributed)
	x.Add(x, total)
	return total, nil
}

// replayCappedDeposits consumes the events of a deposit batch that hits the provider cap. It does not re-decide who wins; it
// checks what the property and the documented rule promise: deposits are applied per provider all-or-nothing; a newcomer is
// only rejected or an incumbent only evicted when the ledger is full; the evicted provider is the weakest one, loses all its
// points and is paid at most its share on both sides; the newcomer that replaces it holds more points than it did; a
// rejected newcomer gets back exactly the sum of its deposits (origin side); the ledger never exceeds the cap.
func (o *dexOracle) replayCappedDeposits(cur *evCursor, ds []*lib.DexLiquidityDeposit, newcomers map[string]bool, led *pointsLedger, x, y *big.Int, local bool, credits bigmap, where string) (*big.Int, error) {
	o.st.capBatches++
	moved := new(big.Int)
	byID := map[string]int{}
	for i, d := range ds {
		byID[string(d.OrderId)] = i
	}
	applied := make([]bool, len(ds))
	self, other := x, y // reserves paying LocalAmount / RemoteAmount of an eviction
	if !local {
		self, other = y, x
	}
	type group struct {
		key         string
		shares      map[string]*big.Int
		distributed *big.Int
		total       *big.Int
	}
	var g *group
	var evictedPts *big.Int
	flush := func() error {
		if g == nil {
			return nil
		}
		led.mint(x, y, g.total, g.shares, g.distributed)
		x.Add(x, g.total)
		moved.Add(moved, g.total)
		if len(led.pts) > lib.MaxLiquidityProviders {
			return fmt.Errorf("%s: %d liquidity providers after a deposit, cap %d", where, len(led.pts), lib.MaxLiquidityProviders)
		}
		if evictedPts != nil {
			if g.key == "incumbents" || g.distributed.Cmp(evictedPts) <= 0 {
				return fmt.Errorf("%s: a provider with %s points was evicted for a newcomer that received %s points", where, evictedPts, g.distributed)
			}
			evictedPts = nil
		}
		g = nil
		return nil
	}
	for {
		e := cur.peek()
		if e == nil {
			break
		}
		if de := e.GetDexLiquidityDeposit(); de != nil {
			i, ok := byID[string(de.OrderId)]
			if !ok || applied[i] || de.LocalOrigin != local {
				break
			}
			d := ds[i]
			if de.Amount != d.Amount {
				return nil, fmt.Errorf("%s: deposit event %x amount %d, batch says %d", where, d.OrderId, de.Amount, d.Amount)
			}
			if err := o.once(where, d.OrderId, "deposit"); err != nil {
				return nil, err
			}
			key := "incumbents"
			if newcomers[string(d.Address)] {
				key = string(d.Address)
			}
			if g != nil && g.key != key {
				if err := flush(); err != nil {
					return nil, err
				}
			}
			if g == nil {
				g = &group{key: key, shares: map[string]*big.Int{}, distributed: new(big.Int), total: new(big.Int)}
			}
			if g.shares[string(d.Address)] == nil {
				g.shares[string(d.Address)] = new(big.Int)
			}
			g.shares[string(d.Address)].Add(g.shares[string(d.Address)], u(de.Points))
			g.distributed.Add(g.distributed, u(de.Points))
			g.total.Add(g.total, u(d.Amount))
			applied[i] = true
			o.st.deposits++
			cur.next()
			continue
		}
		if wd := e.GetDexLiquidityWithdrawal(); wd != nil && !o.knownW[string(wd.OrderId)] {
			// forced withdrawal of the weakest provider: it is immediately followed by the deposit of the newcomer that replaces it;
			// if that deposit is not one of this batch the eviction belongs to the next phase of the step
			if cur.i+1 >= len(cur.evs) || cur.evs[cur.i+1].GetDexLiquidityDeposit() == nil {
				return nil, fmt.Errorf("%s: a provider was evicted but no newcomer deposit follows (next event %v)", where, cur.evs[min(cur.i+1, len(cur.evs)-1)])
			}
			if nd := cur.evs[cur.i+1].GetDexLiquidityDeposit(); nd.LocalOrigin != local {
				break
			} else if j, ok := byID[string(nd.OrderId)]; !ok || applied[j] {
				break
			}
			if err := flush(); err != nil {
				return nil, err
			}
			hp := led.pts[string(e.Address)]
			if hp == nil || bytes.Equal(e.Address, deadAddress) {
				return nil, fmt.Errorf("%s: eviction of %x which holds no points (or is the dead address)", where, e.Address)
			}
			if len(led.pts) < lib.MaxLiquidityProviders {
				return nil, fmt.Errorf("%s: provider %x evicted although only %d of %d provider slots are taken", where, e.Address, len(led.pts), lib.MaxLiquidityProviders)
			}
			for a, p := range led.pts {
				if a != string(deadAddress) && p.Cmp(hp) < 0 {
					return nil, fmt.Errorf("%s: provider %x (%s points) evicted although %x holds only %s", where, e.Address, hp, a, p)
				}
			}
			burned := u(wd.PointsBurned)
			if burned.Cmp(hp) != 0 || wd.Percent != 100 {
				return nil, fmt.Errorf("%s: eviction of %x burned %s of its %s points (%d%%)", where, e.Address, burned, hp, wd.Percent)
			}
			if lim := mulDivFloor(self, burned, led.total); u(wd.LocalAmount).Cmp(lim) > 0 {
				return nil, fmt.Errorf("%s: evicted provider %x paid %d, more than its share %s", where, e.Address, wd.LocalAmount, lim)
			}
			if lim := mulDivFloor(other, burned, led.total); u(wd.RemoteAmount).Cmp(lim) > 0 {
				return nil, fmt.Errorf("%s: evicted provider %x counter amount %d, more than its share %s", where, e.Address, wd.RemoteAmount, lim)
			}
			if mulDivFloor(self, burned, led.total).Sign() > 0 && wd.LocalAmount == 0 {
				return nil, fmt.Errorf("%s: evicted provider %x lost %s points worth %s and was paid nothing", where, e.Address, burned, mulDivFloor(self, burned, led.total))
			}
			credits.add(e.Address, u(wd.LocalAmount))
			self.Sub(self, u(wd.LocalAmount))
			other.Sub(other, u(wd.RemoteAmount))
			led.total.Sub(led.total, burned)
			delete(led.pts, string(e.Address))
			evictedPts = burned
			o.st.evictions++
			cur.next()
			continue
		}
		break
	}
	if err := flush(); err != nil {
		return nil, err
	}
	if evictedPts != nil {
		return nil, fmt.Errorf("%s: a provider was evicted but no newcomer took its place", where)
	}
	// deposits without event: rejected newcomers (all deposits of the provider or none)
	refunds := map[string]*big.Int{}
	nDeps := map[string]int{}
	some := map[string]bool{}
	for i, d := range ds {
		if applied[i] {
			some[string(d.Address)] = true
		}
	}
	for i, d := range ds {
		if applied[i] {
			continue
		}
		if !newcomers[string(d.Address)] {
			return nil, fmt.Errorf("%s: deposit %x of an existing provider was not applied", where, d.OrderId)
		}
		if some[string(d.Address)] {
			return nil, fmt.Errorf("%s: the deposits of newcomer %x were applied only in part", where, d.Address)
		}
		if len(led.pts) < lib.MaxLiquidityProviders {
			return nil, fmt.Errorf("%s: newcomer %x rejected although only %d of %d provider slots are taken", where, d.Address, len(led.pts), lib.MaxLiquidityProviders)
		}
		if refunds[string(d.Address)] == nil {
			refunds[string(d.Address)] = new(big.Int)
		}
		refunds[string(d.Address)].Add(refunds[string(d.Address)], u(d.Amount))
		nDeps[string(d.Address)]++
	}
	for a, v := range refunds {
		o.st.capRejected++
		if nDeps[a] > 1 {
			o.st.capRejectedMulti++
		}
		if local {
			credits.add([]byte(a), v) // the whole escrowed amount goes back
		}
	}
	return moved, nil
}

// replay checks one DEX step of chain `self` (counter chain `counter`) and returns the expected account credits.
func (o *dexOracle) replay(self, counter, h uint64, pre, post *chainsim.RawState, in *dexInput, evs []*lib.Event, credits bigmap) error {
	liq := counter + fsm.LiquidityPoolAddend
	where := fmt.Sprintf("chain %d h%d", self, h)
	pool := u(pre.PoolAmount(liq))
	cur := &evCursor{evs: evs}
	unchanged := func(why string) error {
		if len(evs) != 0 {
			return fmt.Errorf("%s: %s, yet %d DEX events were emitted", where, why, len(evs))
		}
		if !proto.Equal(pre.Locked[counter], post.Locked[counter]) && !(batchEmpty(pre.Locked[counter]) && batchEmpty(post.Locked[counter])) {
			return fmt.Errorf("%s: %s, yet the locked batch changed", where, why)
		}
		if u(post.PoolAmount(liq)).Cmp(pool) != 0 {
			return fmt.Errorf("%s: %s, yet the liquidity pool moved %s -> %d", where, why, pool, post.PoolAmount(liq))
		}
		return nil
	}
	if in == nil || in.remote == nil || pool.Sign() == 0 {
		return unchanged("no counter batch processed")
	}
	R := in.remote
	L := pre.Locked[counter]
	o.knownW = map[string]bool{}
	for _, b := range []*lib.DexBatch{L, R} {
		if b != nil {
			for _, w := range b.Withdrawals {
				o.knownW[string(w.OrderId)] = true
			}
		}
	}
	led := ledgerOf(pre.Pools[liq])
	answered := in.fallback && !batchEmpty(L) && bytes.Equal(L.ReceiptHash, batchHash(R))
	if in.fallback {
		// documented: refund every order and deposit of our locked batch, mirror the counter chain's points, drop the batch
		o.st.fallbacks++
		if L != nil {
			for _, ord := range L.Orders {
				credits.add(ord.Address, u(ord.AmountForSale))
				if le := o.orders[lib.BytesToString(ord.OrderId)]; le != nil {
					le.settled++
					if le.executed > 0 && le.paid != 0 {
						return fmt.Errorf("%s: liveness fallback refunds order %x in full although the counter chain has executed it and paid %d", where, ord.OrderId, le.paid)
					}
				}
			}
			for _, d := range L.Deposits {
				credits.add(d.Address, u(d.Amount))
			}
		}
		if answered && len(evs) == 0 {
			// the counter batch was executed when the dropped batch was locked; not executing it again is the only way not to pay
			// its operations twice. Accepted shape: nothing but the refunds moves and the old receipts stay acknowledged.
			if got := u(post.PoolAmount(liq)); got.Cmp(pool) != 0 {
				return fmt.Errorf("%s: liveness fallback without execution moved the liquidity pool %s -> %s", where, pool, got)
			}
			nl := post.Locked[counter]
			if !batchEmpty(nl) && (!bytes.Equal(nl.ReceiptHash, batchHash(R)) || fmt.Sprint(nl.Receipts) != fmt.Sprint(L.Receipts)) {
				return fmt.Errorf("%s: liveness fallback re-locked a batch that does not carry the receipts already produced for %x", where, batchHash(R))
			}
			return nil
		}
		led = &pointsLedger{pts: map[string]*big.Int{}, total: u(R.TotalPoolPoints)}
		for _, pp := range R.PoolPoints {
			led.pts[string(pp.Address)] = u(pp.Points)
		}
		if in.counterLedger != nil {
			// documented: the fallback "mirrors the root chain's liquidity points"
			real := ledgerOf(in.counterLedger)
			same := real.total.Cmp(led.total) == 0 && len(real.pts) == len(led.pts)
			for a, p := range real.pts {
				same = same && led.pts[a] != nil && led.pts[a].Cmp(p) == 0
			}
			if !same {
				return fmt.Errorf("%s: liveness fallback replaces the points ledger by %d holders / total %s, the root chain's ledger has %d holders / total %s", where, len(led.pts), led.total, len(real.pts), real.total)
			}
		}
		L = nil
	}
	mirror := u(R.PoolSize)
	mid := new(big.Int).Set(pool)
	var receipts []uint64
	if batchEmpty(R) && !batchEmpty(L) {
		// nothing to process and our locked batch is still waiting for the counter chain: no rotation
		o.st.mismatchNop++
		return unchanged("empty counter batch while our locked batch is unanswered")
	}
	if !batchEmpty(R) {
		if !batchEmpty(L) {
			if !bytes.Equal(R.ReceiptHash, batchHash(L)) || len(L.Orders) != len(R.Receipts) {
				o.st.mismatchNop++
				return unchanged("counter batch does not answer our locked batch")
			}
			// 1) receipts for our locked batch
			for i, ord := range L.Orders {
				e := cur.next()
				if e == nil || e.GetDexSwap() == nil || !e.GetDexSwap().LocalOrigin || !bytes.Equal(e.GetDexSwap().OrderId, ord.OrderId) {
					return fmt.Errorf("%s: expected the settlement event of own order %x, got %v", where, ord.OrderId, e)
				}
				sw, dY := e.GetDexSwap(), R.Receipts[i]
				if sw.SoldAmount != ord.AmountForSale || sw.BoughtAmount != dY || sw.Success != (dY != 0) {
					return fmt.Errorf("%s: settlement event of %x says sold=%d bought=%d ok=%v, batch/receipt say %d/%d", where, ord.OrderId, sw.SoldAmount, sw.BoughtAmount, sw.Success, ord.AmountForSale, dY)
				}
				le := o.orders[lib.BytesToString(ord.OrderId)]
				if le != nil {
					le.settled++
					if le.settled > 1 {
						return fmt.Errorf("%s: order %x settled %d times on its origin chain", where, ord.OrderId, le.settled)
					}
					if le.executed == 0 && dY != 0 {
						return fmt.Errorf("%s: order %x settled as successful (receipt %d) but the counter chain never executed it", where, ord.OrderId, dY)
					}
					if dY != le.paid {
						return fmt.Errorf("%s: order %x: receipt %d, the counter chain paid %d", where, ord.OrderId, dY, le.paid)
					}
					if dY != 0 && dY < le.requested {
						return fmt.Errorf("%s: order %x got %d < requested %d and was not refunded", where, ord.OrderId, dY, le.requested)
					}
				}
				if dY != 0 {
					pool.Add(pool, u(ord.AmountForSale))
					mirror.Sub(mirror, u(dY))
					if mirror.Sign() <= 0 {
						return fmt.Errorf("%s: mirror of the counter pool exhausted by receipt %d", where, dY)
					}
				} else {
					credits.add(ord.Address, u(ord.AmountForSale)) // refunded in full
				}
			}
			if err := o.replayWithdrawals(cur, L.Withdrawals, led, pool, mirror, credits, where+" own withdrawals"); err != nil {
				return err
			}
			if _, err := o.replayDeposits(cur, L.Deposits, led, pool, mirror, true, credits, where+" own deposits"); err != nil {
				return err
			}
			o.st.rotations[self]++
			// documented mirroring: after the receipts, the mirror is the counter chain's real pool and our pool is what the
			// counter chain predicted for us
			if in.counterPool != nil && mirror.Cmp(in.counterPool) != 0 {
				return fmt.Errorf("%s: mirror of the counter pool after receipts = %s, the counter chain's real pool = %s", where, mirror, in.counterPool)
			}
			if R.CounterPoolSize != 0 && pool.Cmp(u(R.CounterPoolSize)) != 0 {
				return fmt.Errorf("%s: own pool after receipts = %s, the counter chain mirrors it as %d", where, pool, R.CounterPoolSize)
			}
		} else if in.counterPool != nil && !in.fallback && mirror.Cmp(in.counterPool) != 0 {
			return fmt.Errorf("%s: counter batch pool size %s, the counter chain's real pool = %s", where, mirror, in.counterPool)
		}
		mid.Set(pool)
		// 2) execute the counter chain's locked batch
		// execution order = orders sorted by their pseudo-random key (hash of last block hash, index, order); the emitted
		// events carry no order id (DexLimitOrder.Copy drops it), so the order of execution is re-derived with the library
		sorted, _ := R.CopyOrders(in.prevBlockHash)
		sort.SliceStable(sorted, func(a, b int) bool { return sorted[a].Key < sorted[b].Key })
		idxOf := map[string]int{}
		_, plain := R.CopyOrders(in.prevBlockHash)
		for i, p := range plain {
			idxOf[p.Key] = i
		}
		receipts = make([]uint64, len(R.Orders))
		n := len(R.Orders)
		if n > lib.MaxOrdersSettledPerBlock {
			o.st.swapsCapped += n - lib.MaxOrdersSettledPerBlock
			n = lib.MaxOrdersSettledPerBlock
		}
		for k := 0; k < n; k++ {
			e := cur.next()
			if e == nil || e.GetDexSwap() == nil || e.GetDexSwap().LocalOrigin {
				return fmt.Errorf("%s: expected the execution event of a counter order (%d of %d), got %v", where, k, n, e)
			}
			sw := e.GetDexSwap()
			i := idxOf[sorted[k].Key]
			if !bytes.Equal(e.Address, R.Orders[i].Address) {
				return fmt.Errorf("%s: execution event %d is for %x, expected order %x of %x", where, k, e.Address, R.Orders[i].OrderId, R.Orders[i].Address)
			}
			ord := R.Orders[i]
			x, y, dX := mirror, pool, u(ord.AmountForSale)
			if sw.SoldAmount != ord.AmountForSale {
				return fmt.Errorf("%s: execution event of %x sold %d, batch says %d", where, ord.OrderId, sw.SoldAmount, ord.AmountForSale)
			}
			// documented: dY = floor(dX*990*y / (x*1000 + dX*990))
			in990 := new(big.Int).Mul(dX, big.NewInt(990))
			want := new(big.Int).Div(new(big.Int).Mul(in990, y), new(big.Int).Add(new(big.Int).Mul(x, big.NewInt(1000)), in990))
			success := want.Sign() > 0 && want.Cmp(u(ord.RequestedAmount)) >= 0
			dY := u(sw.BoughtAmount)
			if sw.Success != (sw.BoughtAmount != 0) {
				return fmt.Errorf("%s: execution event of %x: success=%v with amount %d", where, ord.OrderId, sw.Success, sw.BoughtAmount)
			}
			if sw.Success {
				if dY.Cmp(u(ord.RequestedAmount)) < 0 {
					return fmt.Errorf("%s: swap %x paid %s < requested %d", where, ord.OrderId, dY, ord.RequestedAmount)
				}
				if dY.Cmp(new(big.Int).Sub(y, big.NewInt(1))) > 0 {
					return fmt.Errorf("%s: swap %x paid %s out of a reserve of %s", where, ord.OrderId, dY, y)
				}
				k0 := new(big.Int).Mul(x, y)
				k1 := new(big.Int).Mul(new(big.Int).Add(x, dX), new(big.Int).Sub(y, dY))
				if k1.Cmp(k0) < 0 {
					return fmt.Errorf("%s: swap %x (x=%s,y=%s,dX=%s,dY=%s) lowers the product of the reserves %s -> %s", where, ord.OrderId, x, y, dX, dY, k0, k1)
				}
			}
			if success != sw.Success || (success && dY.Cmp(want) != 0) {
				return fmt.Errorf("%s: swap %x (x=%s,y=%s,dX=%s,requested=%d): documented result %s ok=%v, chain paid %s ok=%v", where, ord.OrderId, x, y, dX, ord.RequestedAmount, want, success, dY, sw.Success)
			}
			le := o.orders[lib.BytesToString(ord.OrderId)]
			if le != nil {
				le.executed++
				le.paid = sw.BoughtAmount
				if le.executed > 1 {
					return fmt.Errorf("%s: order %x executed %d times by the counter chain", where, ord.OrderId, le.executed)
				}
				if le.settled > 0 && sw.Success {
					return fmt.Errorf("%s: order %x executed by the counter chain (paid %d) after its origin chain had already refunded it", where, ord.OrderId, sw.BoughtAmount)
				}
			}
			if sw.Success {
				mirror.Add(mirror, dX)
				pool.Sub(pool, dY)
				credits.add(ord.Address, dY)
				receipts[i] = sw.BoughtAmount
				o.st.swapsOK++
			} else {
				o.st.swapsFailed++
			}
		}
		if err := o.replayWithdrawals(cur, R.Withdrawals, led, pool, mirror, credits, where+" counter withdrawals"); err != nil {
			return err
		}
		if _, err := o.replayDeposits(cur, R.Deposits, led, mirror, pool, false, credits, where+" counter deposits"); err != nil {
			return err
		}
	}
	if e := cur.peek(); e != nil {
		return fmt.Errorf("%s: unexpected extra DEX event %v", where, e)
	}
	// 3) rotation
	nl := post.Locked[counter]
	if batchEmpty(nl) {
		return fmt.Errorf("%s: no locked batch after a rotation", where)
	}
	if !bytes.Equal(nl.ReceiptHash, batchHash(R)) {
		return fmt.Errorf("%s: rotated batch acknowledges %x, the processed counter batch hashes to %x", where, nl.ReceiptHash, batchHash(R))
	}
	if u(nl.PoolSize).Cmp(mid) != 0 {
		return fmt.Errorf("%s: rotated batch pool size %d, mid-point of the replay %s", where, nl.PoolSize, mid)
	}
	if u(nl.CounterPoolSize).Cmp(mirror) != 0 {
		return fmt.Errorf("%s: rotated batch counter pool size %d, mirror of the replay %s", where, nl.CounterPoolSize, mirror)
	}
	if nl.LockedHeight != h {
		return fmt.Errorf("%s: rotated batch locked height %d", where, nl.LockedHeight)
	}
	if len(receipts) != len(nl.Receipts) {
		return fmt.Errorf("%s: rotated batch has %d receipts, counter batch had %d orders", where, len(nl.Receipts), len(receipts))
	}
	for i := range receipts {
		if receipts[i] != nl.Receipts[i] {
			return fmt.Errorf("%s: receipt %d = %d, executed amount %d", where, i, nl.Receipts[i], receipts[i])
		}
	}
	if got := u(post.PoolAmount(liq)); got.Cmp(pool) != 0 {
		return fmt.Errorf("%s: liquidity pool after the block %s, replayed reserve %s", where, got, pool)
	}
	if pp := post.Pools[liq]; pp != nil && u(pp.TotalPoolPoints).Cmp(led.total) != 0 {
		return fmt.Errorf("%s: total pool points %d, replayed %s", where, pp.TotalPoolPoints, led.total)
	}
	return nil
}
