// Package c20 decides property C20: escrow, order-book and AMM accounting is exact.
package c20

import (
	"bytes"
	"fmt"
	"math/big"
	"sort"
	"strings"
	"testing"

	"github.com/canopy-network/canopy/fsm"
	"github.com/canopy-network/canopy/lib"
	"github.com/canopy-network/canopy/lib/crypto"
	"pgregory.net/rapid"

	"verif/h/chainsim"
	"verif/h/ev"
	"verif/h/keys"
)

/*
ORDER BOOK. One chainsim chain (id 1, its own root). Sell orders are created for committee 1 (own committee: lock / reset /
close instructions arrive in the certificate of the previous block = BlockSpec.Results.Orders, applied by BeginBlock) and
for committee 2 (instructions arrive in MessageCertificateResults transactions carrying a certificate really signed by the
committee-2 validators). The oracle is a reference model of the documented order life-cycle (fsm/swap.go, fsm/message.go):

	create: seller -> escrow; edit (unlocked only): difference moves; delete (unlocked only): escrow -> seller;
	lock: reserves an UNLOCKED order for a buyer; reset: re-opens; close: (locked only) escrow -> buyer, order removed;
	inside one instruction set: all locks, then resets (skipped when the same id is also closed), then closes.

After every block the raw state must show: escrow pool(c) == sum of AmountForSale of the open orders of c (independent of
the model), the open orders with amount / lock state / buyer of the model, every tracked account balance of the model
(so every close / delete / edit moved exactly the escrowed amount exactly once), and the global supply identity.
*/

const (
	obMinOrder = 1000
	obFee      = 10000
)

var obHuge = uint64(1) << 61

type obOrder struct {
	id        []byte
	committee uint64
	seller    int
	amount    uint64
	locked    bool
	buyer     int
	trail     string // life-cycle so far: C(reate) E(dit) L(ock) R(eset of a locked order)
}

type obModel struct {
	bal     map[string]*big.Int // hex(address) -> expected balance of every tracked address
	orders  map[uint64]map[string]*obOrder
	pending *lib.Orders // own-committee instructions certified with the last block (applied by the next BeginBlock)
	c2H     uint64      // last accepted committee-2 certificate height
	c2RH    uint64      // last accepted committee-2 root height
	ids     [][]byte    // every order id ever created (for instructions about dead orders)
	cycles  int         // orders closed after lock->reset->lock
	closes  int
	deletes int
	resets  int
	rejects int
	fresh   map[string]bool // orders created in the block being built
}

func obSeller(i int) crypto.PrivateKeyI { return keys.Ed(20 + i) }
func obBuyer(i int) []byte              { return chainsim.Addr(keys.Ed(30 + i)) }

func (m *obModel) balOf(a []byte) *big.Int {
	k := lib.BytesToString(a)
	if m.bal[k] == nil {
		m.bal[k] = new(big.Int)
	}
	return m.bal[k]
}

func (m *obModel) get(c uint64, id []byte) *obOrder { return m.orders[c][lib.BytesToString(id)] }

// applyInstructions is the documented semantics of one instruction set for committee c.
func (m *obModel) applyInstructions(c uint64, o *lib.Orders) {
	if o == nil {
		return
	}
	closeSet := map[string]bool{}
	for _, id := range o.CloseOrders {
		closeSet[string(id)] = true
	}
	for _, l := range o.LockOrders {
		if ord := m.get(c, l.OrderId); ord != nil && !ord.locked {
			ord.locked = true
			ord.buyer = buyerIndex(l.BuyerReceiveAddress)
			ord.trail += "L"
		}
	}
	for _, id := range o.ResetOrders {
		if closeSet[string(id)] {
			continue
		}
		if ord := m.get(c, id); ord != nil {
			if ord.locked {
				ord.trail += "R"
				m.resets++
			}
			ord.locked = false
		}
	}
	for _, id := range o.CloseOrders {
		if ord := m.get(c, id); ord != nil && ord.locked {
			m.balOf(obBuyer(ord.buyer)).Add(m.balOf(obBuyer(ord.buyer)), new(big.Int).SetUint64(ord.amount))
			delete(m.orders[c], lib.BytesToString(id))
			m.closes++
			if strings.Contains(ord.trail, "LRL") {
				m.cycles++
			}
		}
	}
}

func buyerIndex(addr []byte) int {
	for i := 0; i < 4; i++ {
		if bytes.Equal(obBuyer(i), addr) {
			return i
		}
	}
	return -1
}

func newOrderBookChain(t interface{ Fatalf(string, ...any) }) (*chainsim.Chain, *obModel) {
	vals := []chainsim.ValSpec{}
	for i := 0; i < 4; i++ {
		vals = append(vals, chainsim.ValSpec{Key: i, OutputKey: -1, Stake: 1_000_000, Committees: []uint64{1, 2}})
	}
	bals := []uint64{5_000_000_000, 60_000, (uint64(1) << 62) + 1_000_000_000}
	accts := []chainsim.AcctSpec{}
	m := &obModel{bal: map[string]*big.Int{}, orders: map[uint64]map[string]*obOrder{1: {}, 2: {}}}
	for i, b := range bals {
		accts = append(accts, chainsim.AcctSpec{Kind: 1, Key: 20 + i, Amount: b})
		m.balOf(chainsim.Addr(obSeller(i))).SetUint64(b)
	}
	p := fsm.DefaultParams()
	p.Validator.MinimumOrderSize = obMinOrder
	g := chainsim.BuildGenesis(1, vals, accts, nil, p)
	c, err := chainsim.New(chainsim.Opts{ChainID: 1, Genesis: g})
	if err != nil {
		t.Fatalf("new chain: %v", err)
	}
	return c, m
}

// one generated user transaction
type obTx struct {
	kind      string // create | edit | delete
	seller    int    // signer
	committee uint64
	id        []byte
	amount    uint64
	raw       []byte
	expectOK  bool
	desc      string
}

func short(id []byte) string {
	if len(id) == 0 {
		return "-"
	}
	return lib.BytesToString(id)[:6]
}

func drawAmount(t *rapid.T, cur uint64) uint64 {
	switch rapid.IntRange(0, 9).Draw(t, "amtClass") {
	case 0, 1:
		return obMinOrder
	case 2:
		return obMinOrder + 1
	case 3:
		return obHuge
	case 4:
		if cur > obMinOrder {
			return cur - 1
		}
		return cur + 1
	case 5:
		return cur + 1
	case 9:
		return obMinOrder - 1
	default:
		return uint64(rapid.IntRange(obMinOrder, 40_000).Draw(t, "amt"))
	}
}

// pickOrder prefers live orders of the model; sometimes an id that no longer exists.
func (m *obModel) pickOrder(t *rapid.T, c uint64) (id []byte, ord *obOrder) {
	live := make([]string, 0, len(m.orders[c]))
	for k := range m.orders[c] {
		live = append(live, k)
	}
	sort.Strings(live)
	if len(live) > 0 && rapid.IntRange(0, 9).Draw(t, "pickLive") < 9 {
		o := m.orders[c][live[rapid.IntRange(0, len(live)-1).Draw(t, "ord")]]
		return o.id, o
	}
	if len(m.ids) > 0 && rapid.Bool().Draw(t, "deadId") {
		id = m.ids[rapid.IntRange(0, len(m.ids)-1).Draw(t, "dead")]
		return id, m.get(c, id)
	}
	return crypto.Hash([]byte{byte(rapid.IntRange(0, 3).Draw(t, "ghost"))})[:20], nil
}

// genInstructions draws one instruction set for committee c, biased towards the natural next step of live orders, with
// conflicts (same id in several lists), instructions for dead / unknown orders and (only when dup is set) duplicates.
func (m *obModel) genInstructions(t *rapid.T, c uint64, deadline uint64, allowDup bool) (*lib.Orders, string) {
	o := &lib.Orders{}
	var d []string
	n := rapid.IntRange(1, 3).Draw(t, "nInstr")
	lock := func(id []byte, b int) {
		o.LockOrders = append(o.LockOrders, &lib.LockOrder{OrderId: id, ChainId: c, BuyerReceiveAddress: obBuyer(b), BuyerSendAddress: obBuyer(b), BuyerChainDeadline: deadline})
		d = append(d, fmt.Sprintf("lock %s->b%d", short(id), b))
	}
	reset := func(id []byte) {
		for _, x := range o.ResetOrders {
			if bytes.Equal(x, id) && !allowDup {
				return
			}
		}
		o.ResetOrders = append(o.ResetOrders, id)
		d = append(d, "reset "+short(id))
	}
	closeO := func(id []byte) {
		for _, x := range o.CloseOrders {
			if bytes.Equal(x, id) && !allowDup {
				return
			}
		}
		o.CloseOrders = append(o.CloseOrders, id)
		d = append(d, "close "+short(id))
	}
	for i := 0; i < n; i++ {
		id, ord := m.pickOrder(t, c)
		b := rapid.IntRange(0, 3).Draw(t, "buyer")
		r := rapid.IntRange(0, 99).Draw(t, "step")
		switch {
		case ord == nil: // dead or unknown order
			switch r % 3 {
			case 0:
				lock(id, b)
			case 1:
				reset(id)
			default:
				closeO(id)
			}
		case !ord.locked:
			switch {
			case r < 70:
				lock(id, b)
			case r < 78: // close without lock
				closeO(id)
			case r < 86: // reset of unlocked
				reset(id)
			case r < 93: // lock + close in one set
				lock(id, b)
				closeO(id)
			default: // lock + reset + close in one set
				lock(id, b)
				reset(id)
				closeO(id)
			}
		default:
			first, second := closeO, reset // an order that was already reset once is closed next, a fresh lock is reset first
			if !strings.Contains(ord.trail, "R") {
				first, second = reset, closeO
			}
			switch {
			case r < 55:
				first(id)
			case r < 78:
				second(id)
			case r < 86: // lock of an already locked order by somebody else
				lock(id, (ord.buyer+1)%4)
			case r < 93: // reset + close conflict
				reset(id)
				closeO(id)
			default: // reset and re-lock in the same set (locks run first: the re-lock must fail)
				reset(id)
				lock(id, (ord.buyer+1)%4)
			}
		}
	}
	if allowDup && len(o.CloseOrders)+len(o.ResetOrders)+len(o.LockOrders) > 0 {
		switch {
		case len(o.CloseOrders) > 0:
			o.CloseOrders = append(o.CloseOrders, o.CloseOrders[0])
			d = append(d, "close "+short(o.CloseOrders[0])+"(dup)")
		case len(o.ResetOrders) > 0:
			o.ResetOrders = append(o.ResetOrders, o.ResetOrders[0])
			d = append(d, "reset "+short(o.ResetOrders[0])+"(dup)")
		default:
			o.LockOrders = append(o.LockOrders, o.LockOrders[0])
			d = append(d, "lock "+short(o.LockOrders[0].OrderId)+"(dup)")
		}
	}
	return o, strings.Join(d, ",")
}

func hasDup(o *lib.Orders) bool {
	seen := map[string]bool{}
	for _, l := range o.LockOrders {
		if seen["l"+string(l.OrderId)] {
			return true
		}
		seen["l"+string(l.OrderId)] = true
	}
	for _, id := range o.ResetOrders {
		if seen["r"+string(id)] {
			return true
		}
		seen["r"+string(id)] = true
	}
	for _, id := range o.CloseOrders {
		if seen["c"+string(id)] {
			return true
		}
		seen["c"+string(id)] = true
	}
	return false
}

// checkOrderBookState compares the raw state with the model and checks the model-independent invariants.
func checkOrderBookState(c *chainsim.Chain, m *obModel) error {
	rs, err := c.Raw()
	if err != nil {
		return err
	}
	for _, cid := range []uint64{1, 2} {
		sum := new(big.Int)
		for _, o := range rs.Orders[cid] {
			sum.Add(sum, new(big.Int).SetUint64(o.AmountForSale))
		}
		esc := new(big.Int).SetUint64(rs.PoolAmount(cid + fsm.EscrowPoolAddend))
		if esc.Cmp(sum) != 0 {
			return fmt.Errorf("escrow pool(%d)=%s but open sell orders sum to %s", cid, esc, sum)
		}
		if len(rs.Orders[cid]) != len(m.orders[cid]) {
			return fmt.Errorf("committee %d: %d open orders in state %v, model has %d %v", cid, len(rs.Orders[cid]), rs.SortedOrderIds(cid), len(m.orders[cid]), modelIds(m, cid))
		}
		for k, mo := range m.orders[cid] {
			so := rs.Orders[cid][k]
			if so == nil {
				return fmt.Errorf("committee %d: order %s of the model is not in state", cid, k[:6])
			}
			if so.AmountForSale != mo.amount {
				return fmt.Errorf("order %s: amount %d, model %d", k[:6], so.AmountForSale, mo.amount)
			}
			if (len(so.BuyerReceiveAddress) != 0) != mo.locked {
				return fmt.Errorf("order %s (%s): locked=%v in state, model %v", k[:6], mo.trail, len(so.BuyerReceiveAddress) != 0, mo.locked)
			}
			if mo.locked && !bytes.Equal(so.BuyerReceiveAddress, obBuyer(mo.buyer)) {
				return fmt.Errorf("order %s: buyer %x, model b%d", k[:6], so.BuyerReceiveAddress, mo.buyer)
			}
			if !bytes.Equal(so.SellersSendAddress, chainsim.Addr(obSeller(mo.seller))) {
				return fmt.Errorf("order %s: seller changed", k[:6])
			}
		}
	}
	for k, want := range m.bal {
		got := new(big.Int).SetUint64(rs.Accounts[k])
		if got.Cmp(want) != 0 {
			return fmt.Errorf("account %s: balance %s, model %s (diff %s)", k[:8], got, want, new(big.Int).Sub(got, want))
		}
	}
	return rs.SupplyIdentity()
}

func modelIds(m *obModel, c uint64) []string {
	var ids []string
	for k, o := range m.orders[c] {
		ids = append(ids, k[:6]+":"+o.trail)
	}
	sort.Strings(ids)
	return ids
}

// applyUserTx mirrors one user transaction on the model (only called for transactions the model expects to succeed).
func (m *obModel) applyUserTx(x *obTx) {
	sb := m.balOf(chainsim.Addr(obSeller(x.seller)))
	sb.Sub(sb, big.NewInt(obFee))
	switch x.kind {
	case "create":
		sb.Sub(sb, new(big.Int).SetUint64(x.amount))
		m.orders[x.committee][lib.BytesToString(x.id)] = &obOrder{id: x.id, committee: x.committee, seller: x.seller, amount: x.amount, trail: "C"}
		m.fresh[string(x.id)] = true
		m.ids = append(m.ids, x.id)
	case "edit":
		o := m.get(x.committee, x.id)
		sb.Add(sb, new(big.Int).SetUint64(o.amount))
		sb.Sub(sb, new(big.Int).SetUint64(x.amount))
		o.amount = x.amount
		o.trail += "E"
	case "delete":
		o := m.get(x.committee, x.id)
		sb.Add(sb, new(big.Int).SetUint64(o.amount))
		delete(m.orders[x.committee], lib.BytesToString(x.id))
		m.deletes++
	}
}

// predict decides from the documented rules whether the transaction succeeds on the current model state.
func (m *obModel) predict(x *obTx) bool {
	bal := m.balOf(chainsim.Addr(obSeller(x.seller)))
	need := big.NewInt(obFee)
	switch x.kind {
	case "create":
		if x.amount < obMinOrder {
			return false
		}
		need.Add(need, new(big.Int).SetUint64(x.amount))
		return bal.Cmp(need) >= 0
	case "edit":
		o := m.get(x.committee, x.id)
		if o == nil || m.fresh[string(x.id)] || o.seller != x.seller || o.locked || x.amount < obMinOrder {
			return false
		}
		if x.amount > o.amount {
			need.Add(need, new(big.Int).SetUint64(x.amount-o.amount))
		}
		return bal.Cmp(need) >= 0
	default:
		o := m.get(x.committee, x.id)
		if o == nil || m.fresh[string(x.id)] || o.seller != x.seller || o.locked {
			return false
		}
		return bal.Cmp(need) >= 0
	}
}

func TestC20OrderBook(t *testing.T) {
	rec := ev.New(t, "C20")
	rapid.Check(t, func(t *rapid.T) {
		ec := rec.Case()
		c, m := newOrderBookChain(t)
		defer c.Close()
		if err := checkOrderBookState(c, m); err != nil {
			t.Fatalf("genesis: %v", err)
		}
		nBlocks := rapid.IntRange(8, 16).Draw(t, "blocks")
		sawConflict, sawHuge, sawC2, sawOwn := false, false, false, false
		for b := 0; b < nBlocks; b++ {
			h := c.Height()
			// BeginBlock applies the own-committee instructions certified with the previous block
			m.applyInstructions(1, m.pending)
			m.pending = nil
			// ApplyTransactions pre-checks EVERY transaction of the block (authorized signers of edit / delete = the stored order's
			// seller) against the state before the first one executes: an order created in this block cannot be edited or deleted in it
			m.fresh = map[string]bool{}
			var txs [][]byte
			var expect []bool
			var descs []string
			nTx := rapid.IntRange(0, 3).Draw(t, "nTx")
			certAt := -1
			if rapid.IntRange(0, 9).Draw(t, "c2cert") < 8 {
				certAt = rapid.IntRange(0, nTx).Draw(t, "certAt")
			}
			for i := 0; i <= nTx; i++ {
				if i == certAt {
					// committee-2 instructions in a really signed certificate-results transaction
					mode := rapid.IntRange(0, 19).Draw(t, "certMode")
					allowDup := mode == 0 || mode == 1
					instr, d := m.genInstructions(t, 2, h+60, allowDup)
					opts := chainsim.CertOpts{Height: m.c2H + 1 + uint64(rapid.IntRange(0, 1).Draw(t, "hgap")), RootHeight: h}
					if m.c2RH > 0 && m.c2RH < h && rapid.Bool().Draw(t, "oldRoot") {
						opts.RootHeight = h - 1
					}
					ok := true
					label := "c2cert"
					switch mode {
					case 2:
						opts.CorruptSig, ok, label = true, false, "c2cert(badsig)"
					case 3:
						opts.NonSigners, ok, label = []int{0, 2}, false, "c2cert(no-quorum)"
					case 4:
						if m.c2H > 0 {
							opts.Height, ok, label = m.c2H, false, "c2cert(stale)"
						}
					}
					if hasDup(instr) {
						ok, label = false, "c2cert(dup)"
					}
					if opts.RootHeight < m.c2RH {
						ok = false
					}
					tx, _, err := c.SignedCertResultsTx(2, &lib.CertificateResult{Orders: instr}, opts)
					if err != nil {
						t.Fatalf("cert tx: %v", err)
					}
					txs, expect = append(txs, tx), append(expect, ok)
					descs = append(descs, fmt.Sprintf("%s@%d[%s]", label, opts.Height, d))
					if ok {
						m.applyInstructions(2, instr)
						m.c2H, m.c2RH = opts.Height, opts.RootHeight
						sawC2 = true
					} else {
						m.rejects++
					}
					if len(instr.LockOrders)+len(instr.ResetOrders)+len(instr.CloseOrders) > 1 {
						sawConflict = true
					}
				}
				if i == nTx {
					break
				}
				x := &obTx{seller: rapid.IntRange(0, 2).Draw(t, "seller"), committee: uint64(rapid.IntRange(1, 2).Draw(t, "committee"))}
				switch k := rapid.IntRange(0, 9).Draw(t, "kind"); {
				case k < 4 || len(m.orders[x.committee]) == 0:
					x.kind = "create"
					x.amount = drawAmount(t, 5000)
					msg := &fsm.MessageCreateOrder{ChainId: x.committee, AmountForSale: x.amount, RequestedAmount: uint64(rapid.IntRange(1, 1000).Draw(t, "req")),
						SellerReceiveAddress: chainsim.Addr(obSeller(x.seller)), SellersSendAddress: chainsim.Addr(obSeller(x.seller))}
					raw, _, err := c.SignTx(obSeller(x.seller), msg, obFee, h, "")
					if err != nil {
						t.Fatalf("sign: %v", err)
					}
					x.raw, x.id = raw, crypto.Hash(raw)[:20]
					x.desc = fmt.Sprintf("create s%d c%d amt=%d id=%s", x.seller, x.committee, x.amount, short(x.id))
				case k < 7:
					x.kind = "edit"
					id, ord := m.pickOrder(t, x.committee)
					x.id = id
					cur := uint64(5000)
					if ord != nil {
						cur = ord.amount
						if rapid.IntRange(0, 9).Draw(t, "owner") < 9 {
							x.seller = ord.seller
						}
					}
					x.amount = drawAmount(t, cur)
					msg := &fsm.MessageEditOrder{OrderId: id, ChainId: x.committee, AmountForSale: x.amount, RequestedAmount: 7, SellerReceiveAddress: chainsim.Addr(obSeller(x.seller))}
					raw, _, err := c.SignTx(obSeller(x.seller), msg, obFee, h, "")
					if err != nil {
						t.Fatalf("sign: %v", err)
					}
					x.raw = raw
					x.desc = fmt.Sprintf("edit s%d c%d %s amt=%d", x.seller, x.committee, short(id), x.amount)
				default:
					x.kind = "delete"
					id, ord := m.pickOrder(t, x.committee)
					x.id = id
					if ord != nil && rapid.IntRange(0, 9).Draw(t, "owner") < 9 {
						x.seller = ord.seller
					}
					raw, _, err := c.SignTx(obSeller(x.seller), &fsm.MessageDeleteOrder{OrderId: id, ChainId: x.committee}, obFee, h, "")
					if err != nil {
						t.Fatalf("sign: %v", err)
					}
					x.raw = raw
					x.desc = fmt.Sprintf("delete s%d c%d %s", x.seller, x.committee, short(id))
				}
				x.expectOK = m.predict(x)
				if x.expectOK {
					m.applyUserTx(x)
				}
				if x.amount == obHuge && x.expectOK {
					sawHuge = true
				}
				txs, expect, descs = append(txs, x.raw), append(expect, x.expectOK), append(descs, x.desc)
			}
			// own-committee instructions certified with this block (validated certificates only: CheckBasic passes)
			spec := chainsim.BlockSpec{Txs: txs}
			ownDesc := ""
			if rapid.IntRange(0, 9).Draw(t, "ownInstr") < 8 {
				instr, d := m.genInstructions(t, 1, h+60, false)
				if e := instr.CheckBasic(); e != nil {
					t.Fatalf("generator produced an own-committee instruction set that fails CheckBasic: %v", e)
				}
				spec.Results = &lib.CertificateResult{
					RewardRecipients: &lib.RewardRecipients{PaymentPercents: []*lib.PaymentPercents{{Address: chainsim.Addr(keys.BLS(0)), Percent: 100, ChainId: 1}}},
					SlashRecipients:  &lib.SlashRecipients{}, Orders: instr}
				m.pending = instr
				ownDesc = " own[" + d + "]"
				sawOwn = true
				if len(instr.LockOrders)+len(instr.ResetOrders)+len(instr.CloseOrders) > 1 {
					sawConflict = true
				}
			}
			ec.Desc("h%d: %s%s", h, strings.Join(descs, " | "), ownDesc)
			out, err := c.Block(spec)
			if err != nil {
				t.Fatalf("block %d: %v", h, err)
			}
			if out.Err != nil {
				t.Fatalf("block %d failed as a whole: %v", h, out.Err)
			}
			failed := map[string]string{}
			for _, f := range out.Results.Failed {
				failed[f.Hash] = f.Error.Error()
			}
			for i, raw := range txs {
				msgErr, bad := failed[crypto.HashString(raw)]
				if bad == expect[i] {
					t.Fatalf("block %d tx %d (%s): model expects success=%v, chain says failed=%v %s", h, i, descs[i], expect[i], bad, msgErr)
				}
			}
			if err := checkOrderBookState(c, m); err != nil {
				t.Fatalf("after block %d [%s%s]: %v", h, strings.Join(descs, " | "), ownDesc, err)
			}
		}
		ec.ClassIf(m.cycles > 0, "lifecycle=lock-reset-lock-close")
		ec.ClassIf(m.closes > 0, "close>=1")
		ec.ClassIf(m.deletes > 0, "delete>=1")
		ec.ClassIf(m.resets > 0, "reset-of-locked>=1")
		ec.ClassIf(m.rejects > 0, "rejected-certificate>=1")
		ec.ClassIf(sawConflict, "multi-instruction-set")
		ec.ClassIf(sawHuge, "huge-amount-escrowed")
		ec.ClassIf(sawC2, "committee2-signed-cert")
		ec.ClassIf(sawOwn, "own-committee-instr")
		ec.Done(m.cycles > 0)
	})
}
