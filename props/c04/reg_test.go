package c04

import (
	"math"
	"testing"

	"github.com/canopy-network/canopy/fsm"
	"github.com/canopy-network/canopy/lib"

	cs "verif/h/chainsim"
)

// TestC04Reg_MintWrapsTotal: AddToTotalSupply and PoolAdd add without an overflow guard (AccountAdd, AddToStakedSupply
// and the genesis loader have one).
//
//	(a) scheduled mint: a genesis whose supply is within one block reward of 2^64-1 loads fine; the first minting block
//	    wraps Supply.Total to a tiny number (the balances still sum to ~2^64). From then on the recorded total is
//	    wrong and any burn (slash, reward remainder) fails with "insufficient supply" inside BeginBlock/EndBlock.
//	(b) approved DAO mint: MessageDAOTransfer{Mint, Amount: 2^64-1} with an empty DAO pool and a fresh recipient
//	    succeeds: the recipient holds 2^64-1 while Supply.Total went DOWN by one.
func TestC04Reg_MintWrapsTotal(t *testing.T) {
	t.Run("scheduled-mint", func(t *testing.T) {
		mint := lib.DefaultConfig().InitialTokensPerBlock
		vals := []cs.ValSpec{{Key: 0, OutputKey: -1, Stake: 1_000_000}, {Key: 1, OutputKey: -1, Stake: 1_000_000}}
		// total = 2^64-1 - (mint-1): one more block reward does not fit
		whale := uint64(math.MaxUint64) - 2_000_000 - (mint - 1)
		g := cs.BuildGenesis(1, vals, []cs.AcctSpec{{Kind: 1, Key: 300, Amount: whale}}, nil, nil)
		c, err := cs.New(cs.Opts{Genesis: g})
		if err != nil {
			t.Fatal(err)
		}
		defer c.Close()
		for h := uint64(1); h <= 3; h++ {
			out, err := c.Block(cs.BlockSpec{})
			if err != nil {
				t.Fatal(err)
			}
			if out.Err != nil {
				t.Fatalf("block %d cannot be applied: %v", h, out.Err)
			}
			s, err := snap(c)
			if err != nil {
				t.Fatal(err)
			}
			if err = s.identity(); err != nil {
				t.Fatalf("after block %d: %v", h, err)
			}
		}
	})
	t.Run("dao-mint", func(t *testing.T) {
		vals := []cs.ValSpec{{Key: 0, OutputKey: -1, Stake: 1_000_000}, {Key: 1, OutputKey: -1, Stake: 1_000_000}}
		g := cs.BuildGenesis(1, vals, []cs.AcctSpec{{Kind: 1, Key: 300, Amount: 1_000_000}}, nil, nil)
		c, err := cs.New(cs.Opts{Genesis: g, Mutate: func(cfg *lib.Config) { cfg.InitialTokensPerBlock = 0 }})
		if err != nil {
			t.Fatal(err)
		}
		defer c.Close()
		payer, fresh := whaleKey(0), freshKey(0)
		// fund the fresh account with exactly the fee so that it is empty when the grant arrives
		tx1, _, _ := c.SignTx(payer, &fsm.MessageSend{FromAddress: cs.Addr(payer), ToAddress: cs.Addr(fresh), Amount: 10000}, 10000, 1, "")
		if out, err := c.Block(cs.BlockSpec{Txs: [][]byte{tx1}}); err != nil || out.Err != nil || len(out.Results.Failed) != 0 {
			t.Fatalf("funding block: %v %+v", err, out)
		}
		pre, _ := snap(c)
		tx2, _, _ := c.SignTx(fresh, &fsm.MessageDAOTransfer{Address: cs.Addr(fresh), Amount: math.MaxUint64, Mint: true, StartHeight: 0, EndHeight: 100}, 10000, 2, "")
		out, err := c.Block(cs.BlockSpec{Txs: [][]byte{tx2}, Results: &lib.CertificateResult{RewardRecipients: &lib.RewardRecipients{}, SlashRecipients: &lib.SlashRecipients{}}})
		if err != nil || out.Err != nil {
			t.Fatalf("block 2: %v %v", err, out.Err)
		}
		post, _ := snap(c)
		if len(out.Results.Failed) == 1 {
			// the mint was refused: nothing may have changed except nothing at all (failed transactions are dropped)
			if err = post.identity(); err != nil {
				t.Fatal(err)
			}
			return
		}
		if err = post.identity(); err != nil {
			t.Fatalf("a DAO mint of 2^64-1 was accepted (total before %d): %v", pre.fs.Supply.Total, err)
		}
	})
}

// TestC04Reg_SubsidyPercentWraps: lib.Uint64PercentageDiv computes (dividend*100)/divisor in uint64; for a dividend above
// 2^64/100 (~1.8e17) the product wraps. GetSubsidizedCommittees uses it to decide which committees share the block
// reward: a committee holding half of all stake (4e17 of 8e17) is computed at 3 % and gets no mint, so the total grows
// by a different amount than the scheduled reward (floor division over fewer committees). Found by the thorough tier
// through a 2^63 subsidy whose compounded rewards pushed a stake above 1.8e17.
func TestC04Reg_SubsidyPercentWraps(t *testing.T) {
	if got := lib.Uint64PercentageDiv(200_000_000_000_000_000, 400_000_000_000_000_000); got != 50 {
		t.Errorf("Uint64PercentageDiv(2e17, 4e17) = %d, want 50", got)
	}
	vals := []cs.ValSpec{{Key: 0, OutputKey: -1, Stake: 1_000_000}, {Key: 1, OutputKey: -1, Stake: 1_000_000},
		{Key: 2, OutputKey: -1, Stake: 400_000_000_000_000_000, Committees: []uint64{2}}, {Key: 3, OutputKey: -1, Stake: 400_000_000_000_000_000, Committees: []uint64{1}}}
	g := cs.BuildGenesis(1, vals, nil, nil, nil)
	c, err := cs.New(cs.Opts{Genesis: g})
	if err != nil {
		t.Fatal(err)
	}
	defer c.Close()
	pre, _ := snap(c)
	for h := uint64(1); h <= 2; h++ {
		out, err := c.Block(cs.BlockSpec{Results: &lib.CertificateResult{RewardRecipients: &lib.RewardRecipients{}, SlashRecipients: &lib.SlashRecipients{}}})
		if err != nil || out.Err != nil {
			t.Fatalf("block %d: %v %v", h, err, out.Err)
		}
		post, _ := snap(c)
		if _, err := delta(pre, post, c.Cfg, h, out, nil); err != nil {
			t.Errorf("block %d: %v", h, err)
		}
		pre = post
	}
	if p := pre.fs.Pools[2]; p == nil || p.Amount == 0 {
		t.Errorf("committee 2 holds 50 %% of all stake (threshold 33 %%) but its reward pool received no mint")
	}
}
