package c04

import (
	"testing"

	"github.com/canopy-network/canopy/lib"
)

func TestProbePct(t *testing.T) {
	t.Logf("%d %d", lib.Uint64PercentageDiv(200_000_000_000_000_000, 400_000_000_000_000_000), lib.Uint64PercentageDiv(2, 4))
}
