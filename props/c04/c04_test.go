// Package c04 decides property C04: token supply conservation.
package c04

import (
	"fmt"
	"math"
	"math/big"
	"sort"
	"strings"
	"testing"

	"github.com/canopy-network/canopy/fsm"
	"github.com/canopy-network/canopy/lib"
	"github.com/canopy-network/canopy/lib/crypto"
	"pgregory.net/rapid"

	cs "verif/h/chainsim"
	"verif/h/ev"
	"verif/h/keys"
)

const (
	opSubsidy     cs.OpKind = "subsidy"
	opDAO         cs.OpKind = "dao-transfer"
	opCreateOrder cs.OpKind = "create-order"
	opEditOrder   cs.OpKind = "edit-order"
	opDeleteOrder cs.OpKind = "delete-order"
	opDexLimit    cs.OpKind = "dex-limit-order"
	opDexDeposit  cs.OpKind = "dex-liquidity-deposit"
	opDexWithdraw cs.OpKind = "dex-liquidity-withdraw"
	opBigSend     cs.OpKind = "send-any-amount"
	opFaucet      cs.OpKind = "faucet-send"
	opCertResults           = cs.OpCertResults
	opFeeParam    cs.OpKind = "change-fee-param"
)

var maxU = new(big.Int).SetUint64(math.MaxUint64)

// whale / fresh / faucet keys (besides the World's v/o/a keys)
func whaleKey(i int) crypto.PrivateKeyI { return keys.Ed(300 + i) }
func freshKey(i int) crypto.PrivateKeyI { return keys.Ed(400 + i) }
func faucetKey() crypto.PrivateKeyI     { return keys.Ed(500) }

const nWhales, nFresh = 4, 4

// sim carries the per-case state of the C04 generator on top of the World.
type sim struct {
	w      *cs.World
	faucet bool
	mint0  uint64
	halv   uint64

	capSubsidy bool // open finding KF-C04-percentage-overflow
	onExclude  func(string)
}

func (s *sim) name(a []byte) string {
	for i := 0; i < nWhales; i++ {
		if string(cs.Addr(whaleKey(i))) == string(a) {
			return fmt.Sprintf("w%d", i)
		}
	}
	for i := 0; i < nFresh; i++ {
		if string(cs.Addr(freshKey(i))) == string(a) {
			return fmt.Sprintf("n%d", i)
		}
	}
	if string(cs.Addr(faucetKey())) == string(a) {
		return "faucet"
	}
	return s.w.Name(a)
}

// payer picks somebody who can sign: whales, plain accounts, operator keys.
func (s *sim) payer() crypto.PrivateKeyI {
	w := s.w
	// most of the time somebody who can at least pay a fee
	if w.Src.Int("payer-funded", 0, 4) != 0 {
		var rich []crypto.PrivateKeyI
		for i := 0; i < nWhales; i++ {
			if w.Balance(cs.Addr(whaleKey(i))) > 100_000 {
				rich = append(rich, whaleKey(i))
			}
		}
		for i := 0; i < nFresh; i++ {
			if w.Balance(cs.Addr(freshKey(i))) > 100_000 {
				rich = append(rich, freshKey(i))
			}
		}
		for i := 0; i < w.Opts.AcctPool; i++ {
			rich = append(rich, cs.AcctKey(i))
		}
		return rich[w.Src.Int("rich", 0, len(rich)-1)]
	}
	switch w.Src.Int("payerkind", 0, 5) {
	case 0, 1, 2:
		return whaleKey(w.Src.Int("whale", 0, nWhales-1))
	case 3:
		return cs.OpKey(w.Src.Int("payerv", 0, w.Opts.KeyPool-1))
	case 4:
		return freshKey(w.Src.Int("payern", 0, nFresh-1)) // may not exist yet
	default:
		return cs.AcctKey(w.Src.Int("payera", 0, w.Opts.AcctPool-1))
	}
}

func (s *sim) anyAddr() []byte {
	w := s.w
	switch w.Src.Int("addrkind", 0, 4) {
	case 0:
		return cs.Addr(whaleKey(w.Src.Int("whale", 0, nWhales-1)))
	case 1:
		return cs.Addr(freshKey(w.Src.Int("fresh", 0, nFresh-1)))
	case 2:
		return cs.Addr(cs.OpKey(w.Src.Int("opk", 0, w.Opts.KeyPool-1)))
	case 3:
		return cs.Addr(cs.OutKey(w.Src.Int("outk", 0, w.Opts.OutPool-1)))
	default:
		return cs.Addr(cs.AcctKey(w.Src.Int("acct", 0, w.Opts.AcctPool-1)))
	}
}

// amount draws from {0, 1, small, 10^9, 2^63, 2^64-k, the payer's balance, balance - fee, balance + 1}.
func (s *sim) amount(payer []byte, fee uint64) (uint64, string) {
	w := s.w
	bal := w.Balance(payer)
	switch w.Src.Int("amtclass", -1, 11) {
	case -1:
		return 0, "0" // rejected by the stateless check of most messages, accepted by subsidy
	case 0:
		return 1, "1"
	case 1, 2, 3:
		return uint64(w.Src.Int("small", 2, 5000)), "small"
	case 4, 5:
		return 1_000_000_000, "1e9"
	case 6:
		return 1 << 63, "2^63"
	case 7:
		return math.MaxUint64 - uint64(w.Src.Int("k", 0, 3)), "2^64-k"
	case 8:
		return max(bal, 1), "balance"
	case 9:
		if bal > fee {
			return bal - fee, "balance-fee"
		}
		return 1, "1"
	case 10:
		if bal < math.MaxUint64 {
			return bal + 1, "balance+1"
		}
		return bal, "balance"
	default:
		return uint64(w.Src.Int("mid", 5000, 50_000_000)), "mid"
	}
}

func (s *sim) genBigSend(w *cs.World) *cs.PlannedTx {
	from := s.payer()
	fee := w.Params.Fee.SendFee
	amt, cl := s.amount(cs.Addr(from), fee)
	to := s.anyAddr()
	if w.Src.Int("self", 0, 3) == 0 {
		to = cs.Addr(from) // sender == recipient (also hits operator keys whose validator output is the operator)
	}
	inv := ""
	if bal := w.Balance(cs.Addr(from)); bal < fee || amt > bal-fee {
		inv = "insufficient funds"
	}
	msg := &fsm.MessageSend{FromAddress: cs.Addr(from), ToAddress: to, Amount: amt}
	self := ""
	if string(to) == string(cs.Addr(from)) {
		self = " SELF"
	}
	return w.Tx(opBigSend, from, msg, fee, fmt.Sprintf("send %s->%s %d(%s) fee=%d%s", s.name(cs.Addr(from)), s.name(to), amt, cl, fee, self), inv)
}

func (s *sim) genFaucet(w *cs.World) *cs.PlannedTx {
	from := faucetKey()
	fee := w.Params.Fee.SendFee
	amt, cl := s.amount(cs.Addr(from), fee)
	if amt > 1<<40 && w.Src.Int("faucet-huge", 0, 3) != 0 {
		amt, cl = uint64(w.Src.Int("fsmall", 1, 1_000_000)), "small"
	}
	to := s.anyAddr()
	inv := ""
	if !s.faucet {
		if bal := w.Balance(cs.Addr(from)); bal < fee || amt > bal-fee {
			inv = "insufficient funds (no faucet configured)"
		}
	}
	msg := &fsm.MessageSend{FromAddress: cs.Addr(from), ToAddress: to, Amount: amt}
	return w.Tx(opFaucet, from, msg, fee, fmt.Sprintf("send faucet->%s %d(%s)", s.name(to), amt, cl), inv)
}

// genFeeParam: governance changes of the fee parameters, zero included (a zero fee means a transaction that writes
// nothing but its own effect).
func (s *sim) genFeeParam(w *cs.World) *cs.PlannedTx {
	names := []string{fsm.ParamSendFee, fsm.ParamSendFee, fsm.ParamSendFee, fsm.ParamStakeFee, fsm.ParamEditStakeFee, fsm.ParamUnstakeFee, fsm.ParamPauseFee,
		fsm.ParamUnpauseFee, fsm.ParamChangeParameterFee, fsm.ParamDAOTransferFee, fsm.ParamCertificateResultsFee, fsm.ParamSubsidyFee, fsm.ParamCreateOrderFee,
		fsm.ParamEditOrderFee, fsm.ParamDeleteOrderFee, fsm.ParamDexLimitOrderFee, fsm.ParamDexLiquidityDepositFee, fsm.ParamDexLiquidityWithdrawFee}
	v := []uint64{0, 0, 0, 1, 777, 10000}[w.Src.Int("feeval", 0, 5)]
	return w.ParamTx(cs.ParamChange{Space: fsm.ParamSpaceFee, Key: names[w.Src.Int("feename", 0, len(names)-1)], U: v})
}

func (s *sim) genSubsidy(w *cs.World) *cs.PlannedTx {
	from := s.payer()
	fee := w.Params.Fee.SubsidyFee
	amt, cl := s.amount(cs.Addr(from), fee)
	if s.capSubsidy && amt > 1_000_000_000_000_000 {
		// open finding KF-C04-percentage-overflow: rewards compounded out of a pool above ~1.8e17 push a stake over the
		// point where lib.Uint64PercentageDiv wraps
		amt, cl = 1_000_000_000_000_000, "1e15"
		if s.onExclude != nil {
			s.onExclude("KF-C04-percentage-overflow")
		}
	}
	chain := []uint64{1, 1, 2, 3, 7}[w.Src.Int("subchain", 0, 4)]
	msg := &fsm.MessageSubsidy{Address: cs.Addr(from), ChainId: chain, Amount: amt, Opcode: []byte("x")}
	return w.Tx(opSubsidy, from, msg, fee, fmt.Sprintf("subsidy %s->pool%d %d(%s)", s.name(cs.Addr(from)), chain, amt, cl), "")
}

func (s *sim) genDAO(w *cs.World, allowHugeMint bool) *cs.PlannedTx {
	from := s.payer()
	fee := w.Params.Fee.DaoTransferFee
	mint := w.Src.Int("mint", 0, 1) == 0
	var amt uint64
	var cl string
	switch w.Src.Int("daoamt", 0, 5) {
	case 0:
		amt, cl = 1, "1"
	case 1, 2:
		amt, cl = uint64(w.Src.Int("daosmall", 2, 100_000)), "small"
	case 3:
		p, _ := w.C.FSM.GetPoolBalance(lib.DAOPoolID)
		amt, cl = max(p, 1), "pool"
	case 4:
		p, _ := w.C.FSM.GetPoolBalance(lib.DAOPoolID)
		amt, cl = p+1, "pool+1"
	default:
		amt, cl = math.MaxUint64-uint64(w.Src.Int("k", 0, 2)), "2^64-k"
		if w.Src.Int("or63", 0, 1) == 0 {
			amt, cl = 1<<63, "2^63"
		}
		if mint && !allowHugeMint {
			amt, cl = 1_000_000, "small"
		}
	}
	h := w.C.Height()
	msg := &fsm.MessageDAOTransfer{Address: cs.Addr(from), Amount: amt, Mint: mint, StartHeight: 0, EndHeight: h + 100}
	return w.Tx(opDAO, from, msg, fee, fmt.Sprintf("dao->%s %d(%s) mint=%v", s.name(cs.Addr(from)), amt, cl, mint), "")
}

func (s *sim) openOrders(committee uint64) []*lib.SellOrder {
	b, err := s.w.C.FSM.GetOrderBook(committee)
	if err != nil || b == nil {
		return nil
	}
	return b.Orders
}

func (s *sim) keyFor(addr []byte) crypto.PrivateKeyI {
	w := s.w
	for i := 0; i < nWhales; i++ {
		if string(cs.Addr(whaleKey(i))) == string(addr) {
			return whaleKey(i)
		}
	}
	for i := 0; i < nFresh; i++ {
		if string(cs.Addr(freshKey(i))) == string(addr) {
			return freshKey(i)
		}
	}
	for i := 0; i < w.Opts.KeyPool; i++ {
		if string(cs.Addr(cs.OpKey(i))) == string(addr) {
			return cs.OpKey(i)
		}
	}
	for i := 0; i < w.Opts.AcctPool; i++ {
		if string(cs.Addr(cs.AcctKey(i))) == string(addr) {
			return cs.AcctKey(i)
		}
	}
	return cs.AcctKey(0)
}

func (s *sim) genCreateOrder(w *cs.World) *cs.PlannedTx {
	from := s.payer()
	fee := w.Params.Fee.CreateOrderFee
	amt, cl := s.amount(cs.Addr(from), fee)
	chain := []uint64{1, 1, 2}[w.Src.Int("ordchain", 0, 2)]
	msg := &fsm.MessageCreateOrder{ChainId: chain, Data: nil, AmountForSale: amt, RequestedAmount: uint64(w.Src.Int("req", 1, 1000)),
		SellerReceiveAddress: cs.Addr(from), SellersSendAddress: cs.Addr(from)}
	return w.Tx(opCreateOrder, from, msg, fee, fmt.Sprintf("create-order c%d %s sells %d(%s)", chain, s.name(cs.Addr(from)), amt, cl), "")
}

func (s *sim) genEditDelete(w *cs.World, del bool) *cs.PlannedTx {
	chain := []uint64{1, 1, 2}[w.Src.Int("ordchain", 0, 2)]
	orders := s.openOrders(chain)
	if len(orders) == 0 { // try the other book before falling back to creating an order
		chain = 3 - chain
		orders = s.openOrders(chain)
	}
	if len(orders) == 0 {
		return s.genCreateOrder(w)
	}
	o := orders[w.Src.Int("ord", 0, len(orders)-1)]
	signer := s.keyFor(o.SellersSendAddress)
	inv := ""
	if o.BuyerReceiveAddress != nil {
		inv = "order locked"
	}
	if del {
		return w.Tx(opDeleteOrder, signer, &fsm.MessageDeleteOrder{OrderId: o.Id, ChainId: chain}, w.Params.Fee.DeleteOrderFee,
			fmt.Sprintf("delete-order c%d %x (%d)", chain, o.Id[:3], o.AmountForSale), inv)
	}
	amt := o.AmountForSale
	switch w.Src.Int("editord", 0, 4) {
	case 0:
		amt = max(amt/2, 1)
	case 1:
		amt++
	case 2:
		amt, _ = s.amount(o.SellersSendAddress, w.Params.Fee.EditOrderFee)
	case 3:
		if amt > 1 {
			amt--
		}
	}
	msg := &fsm.MessageEditOrder{OrderId: o.Id, ChainId: chain, AmountForSale: amt, RequestedAmount: o.RequestedAmount + 1, SellerReceiveAddress: o.SellerReceiveAddress}
	return w.Tx(opEditOrder, signer, msg, w.Params.Fee.EditOrderFee, fmt.Sprintf("edit-order c%d %x %d->%d", chain, o.Id[:3], o.AmountForSale, amt), inv)
}

func (s *sim) genDex(w *cs.World, kind cs.OpKind) *cs.PlannedTx {
	from := s.payer()
	chain := []uint64{2, 2, 2, 2, 3, 1}[w.Src.Int("dexchain", 0, 5)] // 2 has a liquidity pool; 3 has none, 1 is the own chain (both rejected)
	inv := ""
	if chain != 2 {
		inv = "no liquidity pool / own chain"
	}
	switch kind {
	case opDexLimit:
		amt, cl := s.amount(cs.Addr(from), 0)
		msg := &fsm.MessageDexLimitOrder{ChainId: chain, AmountForSale: amt, RequestedAmount: uint64(w.Src.Int("req", 1, 1000)), Address: cs.Addr(from)}
		return w.Tx(kind, from, msg, w.Params.Fee.DexLimitOrderFee, fmt.Sprintf("dex-limit c%d %s %d(%s)", chain, s.name(cs.Addr(from)), amt, cl), inv)
	case opDexDeposit:
		amt, cl := s.amount(cs.Addr(from), 0)
		msg := &fsm.MessageDexLiquidityDeposit{ChainId: chain, Amount: amt, Address: cs.Addr(from)}
		return w.Tx(kind, from, msg, w.Params.Fee.DexLiquidityDepositFee, fmt.Sprintf("dex-deposit c%d %s %d(%s)", chain, s.name(cs.Addr(from)), amt, cl), inv)
	default:
		if w.Src.Int("lp", 0, 2) != 0 {
			from = cs.AcctKey(0) // the genesis liquidity provider
		}
		msg := &fsm.MessageDexLiquidityWithdraw{ChainId: chain, Percent: uint64(w.Src.Int("pct", 1, 100)), Address: cs.Addr(from)}
		return w.Tx(kind, from, msg, w.Params.Fee.DexLiquidityWithdrawFee, fmt.Sprintf("dex-withdraw c%d %s %d%%", chain, s.name(cs.Addr(from)), msg.Percent), inv)
	}
}

// genCertResults: a really signed certificate-results transaction of committee 2 (World.CertResultsTx: rewards out of
// pool 2, non-signers, sometimes Retired) plus lock/close/reset instructions on book 2.
func (s *sim) genCertResults(w *cs.World) *cs.PlannedTx {
	return w.CertResultsTx(func(res *lib.CertificateResult) string {
		var ord []string
		if orders := s.openOrders(2); len(orders) > 0 && w.Src.Int("ord2?", 0, 1) == 0 {
			res.Orders = s.orderInstructions(orders, 2, &ord)
		}
		return " orders=[" + strings.Join(ord, ",") + "]"
	})
}

// orderInstructions draws lock / close / reset instructions for open orders of a committee.
func (s *sim) orderInstructions(orders []*lib.SellOrder, chain uint64, desc *[]string) *lib.Orders {
	w := s.w
	out := &lib.Orders{}
	used := map[string]bool{}
	for i, n := 0, w.Src.Int("nins", 1, 3); i < n; i++ {
		o := orders[w.Src.Int("ins-ord", 0, len(orders)-1)]
		kind := w.Src.Int("ins", 0, 2)
		id := fmt.Sprintf("%d/%x", kind, o.Id)
		if used[id] {
			continue
		}
		used[id] = true
		switch kind {
		case 0:
			buyer := s.anyAddr()
			out.LockOrders = append(out.LockOrders, &lib.LockOrder{OrderId: o.Id, ChainId: chain, BuyerReceiveAddress: buyer, BuyerSendAddress: buyer, BuyerChainDeadline: w.C.Height() + 5})
			*desc = append(*desc, fmt.Sprintf("lock %x->%s", o.Id[:3], s.name(buyer)))
		case 1:
			out.CloseOrders = append(out.CloseOrders, o.Id)
			*desc = append(*desc, fmt.Sprintf("close %x", o.Id[:3]))
		default:
			out.ResetOrders = append(out.ResetOrders, o.Id)
			*desc = append(*desc, fmt.Sprintf("reset %x", o.Id[:3]))
		}
	}
	return out
}

// ---------------------------------------------------------------------------------------------------------------------
// oracle

type snapshot struct {
	fs    *cs.FullState
	total *big.Int // A + P + S
}

func snap(c *cs.Chain) (*snapshot, error) {
	fs, err := c.FullState()
	if err != nil {
		return nil, err
	}
	a, p, s := fs.SumBalances()
	return &snapshot{fs: fs, total: a.Add(a, p).Add(a, s)}, nil
}

// identity: recorded total = Σ accounts + Σ pools + Σ stakes; nothing exceeds the total.
func (s *snapshot) identity() error {
	rec := cs.Big(s.fs.Supply.Total)
	if rec.Cmp(s.total) != 0 {
		a, p, st := s.fs.SumBalances()
		return fmt.Errorf("Supply.Total=%d but Σaccounts(%s)+Σpools(%s)+Σstakes(%s)=%s (difference %s)", s.fs.Supply.Total, a, p, st, s.total, new(big.Int).Sub(s.total, rec))
	}
	for a, acc := range s.fs.Accounts {
		if acc.Amount > s.fs.Supply.Total {
			return fmt.Errorf("account %x holds %d > Supply.Total %d", a, acc.Amount, s.fs.Supply.Total)
		}
		if acc.VestingAmount > acc.Amount {
			return fmt.Errorf("account %x vesting amount %d > amount %d", a, acc.VestingAmount, acc.Amount)
		}
	}
	for id, p := range s.fs.Pools {
		if p.Amount > s.fs.Supply.Total {
			return fmt.Errorf("pool %d holds %d > Supply.Total %d", id, p.Amount, s.fs.Supply.Total)
		}
	}
	for a, v := range s.fs.Validators {
		if v.StakedAmount > s.fs.Supply.Total {
			return fmt.Errorf("validator %x stake %d > Supply.Total %d", a, v.StakedAmount, s.fs.Supply.Total)
		}
	}
	return nil
}

// mintRef re-derives the scheduled mint of the block at `height` from configuration and the PRE-block state
// (fsm/committee.go FundCommitteeRewardPools / GetBlockMintStats / GetSubsidizedCommittees), in big integers.
// Returns the mint per pool id.
func mintRef(pre *cs.FullState, cfg lib.Config, height uint64) map[uint64]*big.Int {
	out := map[uint64]*big.Int{}
	if height <= 1 || cfg.BlocksPerHalvening == 0 {
		return out
	}
	halvenings := height / cfg.BlocksPerHalvening
	var totalMint uint64
	if halvenings < 64 {
		totalMint = cfg.InitialTokensPerBlock >> halvenings
	}
	// committees whose committed stake is >= the threshold percentage of all stake, plus the own chain
	staked := new(big.Int)
	per := map[uint64]*big.Int{}
	for _, v := range pre.Validators {
		staked.Add(staked, cs.Big(v.StakedAmount))
		for _, c := range v.Committees {
			if per[c] == nil {
				per[c] = new(big.Int)
			}
			per[c].Add(per[c], cs.Big(v.StakedAmount))
		}
	}
	paid := map[uint64]bool{cfg.ChainId: true}
	for c, amt := range per {
		if amt.Sign() == 0 || staked.Sign() == 0 {
			continue
		}
		pct := new(big.Int).Mul(amt, big.NewInt(100))
		pct.Div(pct, staked)
		if pct.Cmp(cs.Big(pre.ValParams.StakePercentForSubsidizedCommittee)) >= 0 && !pre.Retired[c] {
			paid[c] = true // a retired committee is never subsidised again
		}
	}
	if totalMint == 0 {
		return out
	}
	// the supply counter is a uint64: a block reward that no longer fits is not minted (it must not wrap the counter)
	if new(big.Int).Add(cs.Big(pre.Supply.Total), cs.Big(totalMint)).Cmp(maxU) > 0 {
		return out
	}
	dao := pre.GovParams.DaoRewardPercentage
	after := new(big.Int)
	switch {
	case dao >= 100:
	case dao == 0:
		after.SetUint64(totalMint)
	default:
		after.Mul(cs.Big(totalMint), cs.Big(100-dao)).Div(after, big.NewInt(100))
	}
	out[lib.DAOPoolID] = new(big.Int).Sub(cs.Big(totalMint), after)
	each := new(big.Int).Div(after, big.NewInt(int64(len(paid))))
	for c := range paid {
		out[c] = each
	}
	return out
}

// stakeLedger replays, per validator address, every operation of the block that may change a stake, in block order:
//
//	begin_block: slashes (own certificate) .......... slash events referenced "begin_block"
//	transaction i: stake (new record, amount of the message; requires that no record exists), edit-stake (adds
//	               max(0, message amount - current stake); requires a record that is not unstaking), certificate-results
//	               (slashes, events referenced by the transaction hash)
//	end_block: rewards compounded into the stake (reward events for the address when the record compounds and was not
//	           unstaking at that moment), then finish-unstaking (the whole remaining stake is paid out)
//
// and compares the result with the post-block record. A remainder that is missing is a slash burn that carried no
// event; it is only accepted where the code can produce it: the record was forced to unstake in this block (it was not
// unstaking before and is unstaking or gone now) - an unstaking record accepts no edit and no compounding, so its stake
// is exact before the event-less slash. Anything else (stake lost elsewhere, stake gained from nowhere) is a violation.
// Returns the sum of the event-less slash burns.
func stakeLedger(pre, post *cs.FullState, out *cs.Outcome) (*big.Int, error) {
	type evs struct{ slash, reward, finish, autoUnstake map[string][]uint64 } // per stage reference -> address -> amounts
	byRef := map[string]*evs{}
	get := func(ref string) *evs {
		if byRef[ref] == nil {
			byRef[ref] = &evs{map[string][]uint64{}, map[string][]uint64{}, map[string][]uint64{}, map[string][]uint64{}}
		}
		return byRef[ref]
	}
	for _, e := range out.Results.Events {
		x, a := get(e.Reference), string(e.Address)
		switch m := e.Msg.(type) {
		case *lib.Event_Slash:
			x.slash[a] = append(x.slash[a], m.Slash.Amount)
		case *lib.Event_Reward:
			x.reward[a] = append(x.reward[a], m.Reward.Amount)
		case *lib.Event_FinishUnstaking:
			x.finish[a] = append(x.finish[a], 0)
		case *lib.Event_AutoBeginUnstaking:
			x.autoUnstake[a] = append(x.autoUnstake[a], 0)
		}
	}
	type stakeOp struct {
		ref    string // tx hash
		addr   string
		stake  bool // stake (new record) or edit-stake
		amount uint64
	}
	var ops []stakeOp
	var refs []string
	for _, r := range out.Results.Results {
		refs = append(refs, r.TxHash)
		m, e := lib.FromAny(r.Transaction.Msg)
		if e != nil {
			return nil, fmt.Errorf("included tx with undecodable message: %v", e)
		}
		switch x := m.(type) {
		case *fsm.MessageStake:
			pk, e := crypto.NewPublicKeyFromBytes(x.PublicKey)
			if e != nil {
				return nil, fmt.Errorf("included stake with bad key: %v", e)
			}
			ops = append(ops, stakeOp{ref: r.TxHash, addr: string(pk.Address().Bytes()), stake: true, amount: x.Amount})
		case *fsm.MessageEditStake:
			ops = append(ops, stakeOp{ref: r.TxHash, addr: string(x.Address), amount: x.Amount})
		}
	}
	addrs := map[string]bool{}
	for a := range pre.Validators {
		addrs[a] = true
	}
	for a := range post.Validators {
		addrs[a] = true
	}
	for _, o := range ops {
		addrs[o.addr] = true
	}
	sorted := make([]string, 0, len(addrs))
	for a := range addrs {
		sorted = append(sorted, a)
	}
	sort.Strings(sorted)
	silentSum := new(big.Int)
	for _, a := range sorted {
		cur, silent := new(big.Int), new(big.Int)
		exists, wasUnstaking := false, false
		if v := pre.Validators[a]; v != nil {
			cur.SetUint64(v.StakedAmount)
			exists, wasUnstaking = true, v.UnstakingHeight != 0
		}
		applySlashes := func(ref string) {
			if x := byRef[ref]; x != nil {
				for _, amt := range x.slash[a] {
					cur.Sub(cur, cs.Big(amt))
				}
			}
		}
		applySlashes(lib.EventStageBeginBlock)
		for _, ref := range refs {
			for _, o := range ops {
				if o.ref != ref || o.addr != a {
					continue
				}
				if o.stake {
					// the previous record (if any) must be gone: whatever the events did not explain was slashed without event
					if exists {
						silent.Add(silent, cur)
					}
					cur.SetUint64(o.amount)
					exists, wasUnstaking = true, false
				} else if cs.Big(o.amount).Cmp(cur) > 0 {
					cur.SetUint64(o.amount) // edit-stake tops the stake up to the message amount
				}
			}
			applySlashes(ref) // certificate-results transactions
		}
		if cur.Sign() < 0 {
			return nil, fmt.Errorf("validator %x: slash events of the block exceed its stake (ledger %s)", a, cur)
		}
		v1 := post.Validators[a]
		end := byRef[lib.EventStageEndBlock]
		if end != nil && len(end.reward[a]) > 0 && exists {
			// compounding needs the record's Compound flag and "not unstaking" at distribution time; both are those of
			// the post-block record, except that the max-pause force-unstake runs after the distribution
			if v1 != nil && v1.Compound && (v1.UnstakingHeight == 0 || len(end.autoUnstake[a]) > 0) {
				for _, amt := range end.reward[a] {
					cur.Add(cur, cs.Big(amt))
				}
			}
		}
		finished := end != nil && len(end.finish[a]) > 0
		switch {
		case v1 != nil:
			d := new(big.Int).Sub(cur, cs.Big(v1.StakedAmount))
			if d.Sign() < 0 {
				return nil, fmt.Errorf("validator %x: stake %d after the block, but stakes/edits/rewards/slashes of the block explain only %s", a, v1.StakedAmount, cur)
			}
			if d.Sign() > 0 {
				if wasUnstaking || v1.UnstakingHeight == 0 {
					return nil, fmt.Errorf("validator %x: stake %d after the block, ledger says %s: %s tokens left the stake without slash event and without a forced unstake", a, v1.StakedAmount, cur, d)
				}
				silent.Add(silent, d)
			}
		case finished: // paid out in full; a record that finishes was unstaking before the block, so every slash had its event
		case exists:
			// deleted by a slash to zero: the remainder the events do not explain went in an event-less slash before it
			if cur.Sign() > 0 && wasUnstaking {
				return nil, fmt.Errorf("validator %x: record deleted, ledger still holds %s and it was already unstaking (every slash has an event then)", a, cur)
			}
			silent.Add(silent, cur)
		}
		silentSum.Add(silentSum, silent)
	}
	return silentSum, nil
}

// delta checks the block-to-block change of the total: scheduled mint + approved DAO mints + faucet top-ups - slash
// burns - undistributed reward remainder; everything else only moves tokens.
func delta(pre, post *snapshot, cfg lib.Config, height uint64, out *cs.Outcome, faucet []byte) (string, error) {
	mint := mintRef(pre.fs, cfg, height)
	mintSum := new(big.Int)
	for _, m := range mint {
		mintSum.Add(mintSum, m)
	}
	fees, daoMint, faucetTop := new(big.Int), new(big.Int), new(big.Int)
	subsidy := map[uint64]*big.Int{}
	faucetBal := new(big.Int)
	if a := pre.fs.Accounts[string(faucet)]; a != nil {
		faucetBal.SetUint64(a.Amount)
	}
	for _, r := range out.Results.Results {
		fee := cs.Big(r.Transaction.Fee)
		fees.Add(fees, fee)
		m, e := lib.FromAny(r.Transaction.Msg)
		if e != nil {
			return "", fmt.Errorf("included tx with undecodable message: %v", e)
		}
		switch x := m.(type) {
		case *fsm.MessageDAOTransfer:
			if x.Mint {
				daoMint.Add(daoMint, cs.Big(x.Amount))
			}
		case *fsm.MessageSubsidy:
			if subsidy[x.ChainId] == nil {
				subsidy[x.ChainId] = new(big.Int)
			}
			subsidy[x.ChainId].Add(subsidy[x.ChainId], cs.Big(x.Amount))
		case *fsm.MessageSend:
			if faucet != nil && string(x.FromAddress) == string(faucet) {
				need := new(big.Int).Add(cs.Big(x.Amount), fee)
				if faucetBal.Cmp(need) < 0 {
					faucetTop.Add(faucetTop, new(big.Int).Sub(need, faucetBal))
					faucetBal.Set(need)
				}
				faucetBal.Sub(faucetBal, need)
			}
		}
	}
	slash, rewards := new(big.Int), map[uint64]*big.Int{}
	evented := map[string]*big.Int{}
	for _, e := range out.Results.Events {
		switch m := e.Msg.(type) {
		case *lib.Event_Slash:
			slash.Add(slash, cs.Big(m.Slash.Amount))
			if evented[string(e.Address)] == nil {
				evented[string(e.Address)] = new(big.Int)
			}
			evented[string(e.Address)].Add(evented[string(e.Address)], cs.Big(m.Slash.Amount))
		case *lib.Event_Reward:
			if rewards[e.ChainId] == nil {
				rewards[e.ChainId] = new(big.Int)
			}
			rewards[e.ChainId].Add(rewards[e.ChainId], cs.Big(m.Reward.Amount))
		}
	}
	// Slash burns are derived from the RECORDS: per validator, the stake before the block is walked through everything
	// that may change a stake in this block (see stakeLedger); what is missing at the end was burned by a slash.
	// Slash events are only used to position burns inside the block (an event-less slash exists: SlashValidator returns
	// before EventSlash when the slash forces the validator to unstake).
	silent, err := stakeLedger(pre.fs, post.fs, out)
	if err != nil {
		return "", err
	}
	slash.Add(slash, silent)
	// reward pools (pool id = committee id): before distribution = previous + mint + fees (own chain) + subsidies
	burn := new(big.Int)
	ids := map[uint64]bool{}
	for c := range mint {
		ids[c] = true
	}
	for c := range subsidy {
		ids[c] = true
	}
	for c := range rewards {
		ids[c] = true
	}
	ids[cfg.ChainId] = true
	for id := range pre.fs.Pools { // every reward pool that exists (pool id = committee id)
		if id <= fsm.MaxChainId {
			ids[id] = true
		}
	}
	for id := range post.fs.Pools {
		if id <= fsm.MaxChainId {
			ids[id] = true
		}
	}
	var notes []string
	if silent.Sign() > 0 {
		notes = append(notes, "silent-slash="+silent.String())
	}
	for c := range ids {
		if c == lib.DAOPoolID {
			continue
		}
		before := new(big.Int)
		if p := pre.fs.Pools[c]; p != nil {
			before.SetUint64(p.Amount)
		}
		if m := mint[c]; m != nil {
			before.Add(before, m)
		}
		if c == cfg.ChainId {
			before.Add(before, fees)
		}
		if sb := subsidy[c]; sb != nil {
			before.Add(before, sb)
		}
		after := new(big.Int)
		if p := post.fs.Pools[c]; p != nil {
			after.SetUint64(p.Amount)
		}
		rw := rewards[c]
		if rw == nil {
			rw = new(big.Int)
		}
		switch {
		case after.Cmp(before) == 0 && rw.Sign() == 0: // nothing distributed
		case after.Sign() == 0: // distributed: whatever was not paid out is burned
			b := new(big.Int).Sub(before, rw)
			if b.Sign() < 0 {
				return "", fmt.Errorf("reward pool %d paid out %s but held only %s before distribution", c, rw, before)
			}
			burn.Add(burn, b)
			if b.Sign() > 0 {
				notes = append(notes, fmt.Sprintf("burn%d=%s", c, b))
			}
		default:
			return "", fmt.Errorf("reward pool %d: %s before distribution (previous+mint+fees+subsidies), %s after, rewards paid %s: unexplained", c, before, after, rw)
		}
	}
	want := new(big.Int).Add(mintSum, daoMint)
	want.Add(want, faucetTop).Sub(want, slash).Sub(want, burn)
	got := new(big.Int).Sub(cs.Big(post.fs.Supply.Total), cs.Big(pre.fs.Supply.Total))
	if got.Cmp(want) != 0 {
		var dbg []string
		for a, v0 := range pre.fs.Validators {
			v1 := post.fs.Validators[a]
			if v1 == nil {
				dbg = append(dbg, fmt.Sprintf("%x: %d(u%d p%d)->deleted evented=%v", a[:3], v0.StakedAmount, v0.UnstakingHeight, v0.MaxPausedHeight, evented[a]))
			} else if v1.StakedAmount != v0.StakedAmount || evented[a] != nil {
				dbg = append(dbg, fmt.Sprintf("%x: %d(u%d p%d)->%d(u%d p%d) evented=%v", a[:3], v0.StakedAmount, v0.UnstakingHeight, v0.MaxPausedHeight, v1.StakedAmount, v1.UnstakingHeight, v1.MaxPausedHeight, evented[a]))
			}
		}
		sort.Strings(dbg)
		return "", fmt.Errorf("ΔSupply.Total=%s but scheduled mint %s + DAO mints %s + faucet %s - slashes %s - reward remainder %s = %s\nstake changes: %s",
			got, mintSum, daoMint, faucetTop, slash, burn, want, strings.Join(dbg, "; "))
	}
	if tot := new(big.Int).Add(cs.Big(pre.fs.Supply.Total), want); tot.Cmp(maxU) > 0 {
		return "", fmt.Errorf("the block's mints push the total above 2^64-1 (%s)", tot)
	}
	return strings.Join(notes, " "), nil
}

// ---------------------------------------------------------------------------------------------------------------------

func buildWorld(src cs.Src, c *ev.Case, openOverflow bool) (*sim, cs.WorldOpts) {
	s := &sim{}
	o := cs.WorldOpts{KeyPool: 8, Funds: 2_000_000_000, NoDaoZero: ev.Open("KF-C12-dao-percent-zero")}
	o.Weights = map[cs.OpKind]int{cs.OpStake: 3, cs.OpEditStake: 2, cs.OpPause: 1, cs.OpUnpause: 1, cs.OpUnstake: 2, cs.OpSend: 0, cs.OpParam: 2}
	p := cs.StakingParams()
	p.Validator.MinimumOrderSize = uint64([]int{1, 10, 1000}[src.Int("minorder", 0, 2)])
	p.Governance.DaoRewardPercentage = uint64([]int{0, 5, 50, 100}[src.Int("daopct", 0, 3)])
	if p.Governance.DaoRewardPercentage == 0 && ev.Open("KF-C12-dao-percent-zero") {
		p.Governance.DaoRewardPercentage = 5 // a genesis with 0 does not load while that finding is open
	}
	p.Validator.EarlyWithdrawalPenalty = uint64([]int{0, 20, 100}[src.Int("ewp", 0, 2)])
	p.Validator.StakePercentForSubsidizedCommittee = uint64([]int{1, 33, 100}[src.Int("subpct", 0, 2)])
	p.Fee.SendFee = uint64([]int{0, 10000, 10000}[src.Int("sendfee", 0, 2)]) // zero-fee sends write nothing but their own effect
	o.Params = p
	s.mint0 = uint64([]int{0, 7, 1000, 80_000_000}[src.Int("mint0", 0, 3)])
	s.halv = uint64([]int{1, 3, 5, 1000}[src.Int("halv", 0, 3)])
	s.faucet = src.Int("faucet", 0, 2) == 0
	o.Mutate = func(cfg *lib.Config) {
		cfg.InitialTokensPerBlock, cfg.BlocksPerHalvening = s.mint0, s.halv
		if s.faucet {
			cfg.FaucetAddress = lib.BytesToString(cs.Addr(faucetKey()))
		}
	}
	// a few genesis validators (stakes far below 2^57: Uint64PercentageDiv multiplies by 100 in uint64)
	for i, n := 0, src.Int("genvals", 1, 4); i < n; i++ {
		v := cs.ValSpec{Key: 2 + i, OutputKey: -1, Stake: uint64([]int{1, 7, 1000, 1_000_000_000}[src.Int("genstake", 0, 3)]), Compound: src.Int("gencomp", 0, 1) == 1,
			Delegate: src.Int("gendeleg", 0, 3) == 0, Committees: [][]uint64{{1}, {1, 2}, {2, 1, 3}, {2}}[src.Int("gencmt", 0, 3)]}
		if src.Int("gennoncust", 0, 2) == 0 {
			v.OutputKey = src.Int("genout", 0, 3)
		}
		o.Vals = append(o.Vals, v)
	}
	// pools: DAO, reward pools, liquidity pool of chain 2 (with points for a0)
	poolAmt := func(label string) uint64 {
		return []uint64{0, 1, 5000, 1_000_000_000, 1 << 62}[src.Int(label, 0, 4)]
	}
	o.Pools = []*fsm.Pool{{Id: lib.DAOPoolID, Amount: poolAmt("daopool")}, {Id: 1, Amount: poolAmt("pool1") % (1 << 40)}, {Id: 2, Amount: poolAmt("pool2") % (1 << 40)},
		{Id: 2 + fsm.LiquidityPoolAddend, Amount: 1_000_000, Points: []*lib.PoolPoints{{Address: cs.Addr(cs.AcctKey(0)), Points: 1000}}, TotalPoolPoints: 1000}}
	// whales and the faucet account
	classes := []uint64{0, 1, 4242, 1_000_000_000, 1 << 63, math.MaxUint64 - 5}
	var whales []uint64
	for i := 0; i < nWhales; i++ {
		whales = append(whales, classes[src.Int("whale-amt", 0, len(classes)-1)])
	}
	faucetAmt := []uint64{0, 1, 50_000}[src.Int("faucet-amt", 0, 2)]
	// total supply class: far from 2^64, or 2^64-1-slack
	near := src.Int("near", 0, 2) == 0
	slackClass := src.Int("slack", 0, 5)
	o.MutateGen = func(g *fsm.GenesisState) {
		sum := new(big.Int)
		for _, a := range g.Accounts {
			sum.Add(sum, cs.Big(a.Amount))
		}
		for _, pl := range g.Pools {
			sum.Add(sum, cs.Big(pl.Amount))
		}
		for _, v := range g.Validators {
			sum.Add(sum, cs.Big(v.StakedAmount))
		}
		g.Accounts = append(g.Accounts, &fsm.Account{Address: cs.Addr(faucetKey()), Amount: faucetAmt})
		sum.Add(sum, cs.Big(faucetAmt))
		slack := []uint64{0, 1, max(s.mint0, 1) - 1, s.mint0, 100 * s.mint0, 1_000_000_000_000}[slackClass]
		if openOverflow {
			slack = 1 << 62 // stay far away from the unguarded additions while the finding is open
		}
		limit := new(big.Int).Sub(maxU, cs.Big(slack))
		for i, amt := range whales {
			room := new(big.Int).Sub(limit, sum)
			if room.Sign() <= 0 {
				amt = 0
			} else if room.IsUint64() && amt > room.Uint64() {
				amt = room.Uint64()
			}
			if near && i == nWhales-1 && room.Sign() > 0 && room.IsUint64() {
				amt = room.Uint64() // fill up to 2^64-1-slack
			}
			if amt > 0 || src.Int("zero-acct", 0, 1) == 0 {
				g.Accounts = append(g.Accounts, &fsm.Account{Address: cs.Addr(whaleKey(i)), Amount: amt})
			}
			sum.Add(sum, cs.Big(amt))
		}
	}
	c.Desc("cfg mint0=%d halv=%d faucet=%v dao%%=%d ewp=%d subpct=%d near2^64=%v slack=%d whales=%v", s.mint0, s.halv, s.faucet, p.Governance.DaoRewardPercentage,
		p.Validator.EarlyWithdrawalPenalty, p.Validator.StakePercentForSubsidizedCommittee, near, slackClass, whales)
	c.ClassIf(near && !openOverflow, "genesis supply = 2^64-1-slack")
	c.ClassIf(s.faucet, "faucet configured")
	c.ClassIf(s.halv <= 5, "halvening inside the history")
	return s, o
}

func TestC04Supply(t *testing.T) {
	rec := ev.New(t, "C04")
	rapid.Check(t, func(rt *rapid.T) {
		c := rec.Case()
		src := cs.Rapid(rt)
		openOverflow := ev.Open("KF-C04-mint-overflow")
		if openOverflow {
			rec.Exclude("KF-C04-mint-overflow")
		}
		s, opts := buildWorld(src, c, openOverflow)
		s.capSubsidy, s.onExclude = ev.Open("KF-C04-percentage-overflow"), rec.Exclude
		opts.Extra = []cs.ExtraOp{
			{Kind: opBigSend, Weight: 6, Gen: s.genBigSend},
			{Kind: opFaucet, Weight: 2, Gen: s.genFaucet},
			{Kind: opSubsidy, Weight: 3, Gen: s.genSubsidy},
			{Kind: opFeeParam, Weight: 2, Gen: s.genFeeParam},
			{Kind: opDAO, Weight: 3, Gen: func(w *cs.World) *cs.PlannedTx { return s.genDAO(w, !openOverflow) }},
			{Kind: opCreateOrder, Weight: 3, Gen: s.genCreateOrder},
			{Kind: opEditOrder, Weight: 3, Gen: func(w *cs.World) *cs.PlannedTx { return s.genEditDelete(w, false) }},
			{Kind: opDeleteOrder, Weight: 3, Gen: func(w *cs.World) *cs.PlannedTx { return s.genEditDelete(w, true) }},
			{Kind: opDexLimit, Weight: 2, Gen: func(w *cs.World) *cs.PlannedTx { return s.genDex(w, opDexLimit) }},
			{Kind: opDexDeposit, Weight: 2, Gen: func(w *cs.World) *cs.PlannedTx { return s.genDex(w, opDexDeposit) }},
			{Kind: opDexWithdraw, Weight: 1, Gen: func(w *cs.World) *cs.PlannedTx { return s.genDex(w, opDexWithdraw) }},
			{Kind: opCertResults, Weight: 3, Gen: s.genCertResults},
		}
		w, err := cs.NewWorld(src, opts)
		if err != nil {
			rt.Fatalf("world: %v", err)
		}
		defer w.Close()
		s.w = w
		var faucetAddr []byte
		if s.faucet {
			faucetAddr = cs.Addr(faucetKey())
		}
		pre, err := snap(w.C)
		if err != nil {
			rt.Fatalf("scan: %v", err)
		}
		if err = pre.identity(); err != nil {
			rt.Fatalf("genesis: %v", err)
		}
		nblocks := src.Int("nblocks", 8, 18)
		sawSlash, sawReward, sawFail, sawBurn, sawFaucet, sawDAOMint, sawSelf, sawZeroFeeSelf := false, false, false, false, false, false, false, false
		for i := 0; i < nblocks; i++ {
			h := w.C.Height()
			plan := w.GenBlock()
			// order instructions on the own chain's book travel in the block's own certificate
			var ins []string
			if orders := s.openOrders(1); len(orders) > 0 && src.Int("ord1?", 0, 1) == 0 {
				plan.Spec.Results.Orders = s.orderInstructions(orders, 1, &ins)
				plan.Desc += " orders=[" + strings.Join(ins, ",") + "]"
			}
			_, out, err := w.Apply(plan)
			if err != nil {
				rt.Fatalf("harness error at height %d: %v\n%s", h, err, w.HistoryString())
			}
			if out.Err != nil {
				rt.Fatalf("ApplyBlock failed at height %d: %v\nhistory:\n%s", h, out.Err, w.HistoryString())
			}
			post, err := snap(w.C)
			if err != nil {
				rt.Fatalf("scan: %v", err)
			}
			if err = post.identity(); err != nil {
				rt.Fatalf("after block %d: %v\nhistory:\n%s", h, err, w.HistoryString())
			}
			note, err := delta(pre, post, w.C.Cfg, h, out, faucetAddr)
			if err != nil {
				rt.Fatalf("block %d: %v\nhistory:\n%s", h, err, w.HistoryString())
			}
			sawBurn = sawBurn || strings.Contains(note, "burn")
			c.ClassIf(strings.Contains(note, "silent-slash"), "slash without slash event (forced unstake)")
			for _, e := range out.Results.Events {
				sawSlash = sawSlash || e.EventType == string(lib.EventTypeSlash)
				sawReward = sawReward || e.EventType == string(lib.EventTypeReward)
			}
			for _, tx := range plan.Txs {
				sawFail = sawFail || !tx.OK
				if tx.OK && tx.Kind == opBigSend && strings.Contains(tx.Desc, "SELF") {
					sawSelf = true
					sawZeroFeeSelf = sawZeroFeeSelf || strings.Contains(tx.Desc, "fee=0")
				}
				sawFaucet = sawFaucet || (tx.OK && tx.Kind == opFaucet && s.faucet)
				sawDAOMint = sawDAOMint || (tx.OK && tx.Kind == opDAO && strings.Contains(tx.Desc, "mint=true"))
			}
			pre = post
		}
		c.Desc("%s", w.HistoryString())
		var kinds []string
		for k := range w.Stats {
			kinds = append(kinds, k)
		}
		sort.Strings(kinds)
		for _, k := range kinds {
			if strings.HasSuffix(k, ".ok") {
				c.Class("tx:" + strings.TrimSuffix(k, ".ok") + " ok")
			}
			if strings.HasSuffix(k, ".fail") || strings.HasSuffix(k, ".rejected-on-purpose") {
				c.Class("tx:" + k[:strings.LastIndexByte(k, '.')] + " failed")
			}
			if strings.HasPrefix(k, "event.") {
				c.Class("event:" + strings.TrimPrefix(k, "event."))
			}
		}
		hist := w.HistoryString()
		c.ClassIf(strings.Contains(hist, " retired "), "cert:own certificate stamped Retired")
		c.ClassIf(strings.Contains(hist, "RETIRED ok"), "committee 2 retired by its certificate results")
		c.ClassIf(sawSelf, "self-send included")
		c.ClassIf(sawZeroFeeSelf, "zero-fee self-send included")
		c.ClassIf(sawSlash, "slash burn")
		c.ClassIf(sawBurn, "reward remainder burned")
		c.ClassIf(sawFaucet, "faucet send included")
		c.ClassIf(sawDAOMint, "DAO mint included")
		c.ClassIf(w.Stats["doublesign-entries"] > 0, "cert:double-signers")
		c.ClassIf(w.Stats["nonsigner-bits"] > 0, "cert:non-signers")
		c.Done(sawSlash && sawReward && sawFail)
	})
}
