// Package c16 decides property C16: Merkle proofs are complete for true statements, unforgeable for false ones,
// and verification never crashes on malformed proofs.
package c16

import (
	"bytes"
	"fmt"
	"sort"
	"testing"
	"time"

	"github.com/canopy-network/canopy/lib"
	"github.com/canopy-network/canopy/store"
	"pgregory.net/rapid"

	"verif/h/ev"
	sm "verif/h/storemodel"
)

func openStore(t interface{ Fatalf(string, ...any) }) *store.Store {
	s, err := store.NewStoreInMemory(lib.NewNullLogger())
	if err != nil {
		t.Fatalf("open: %v", err)
	}
	return s.(*store.Store)
}

// verifier is what both the Store and a bare SMT offer.
type verifier interface {
	VerifyProof(key, value []byte, validateMembership bool, root []byte, proof []*lib.Node) (bool, lib.ErrorI)
}

// safeVerify calls VerifyProof and converts an escaping panic into a reported value.
func safeVerify(v verifier, key, value []byte, member bool, root []byte, proof []*lib.Node) (ok bool, err lib.ErrorI, panicked any) {
	type res struct {
		ok  bool
		err lib.ErrorI
		pan any
	}
	ch := make(chan res, 1)
	go func() {
		var r res
		defer func() {
			if p := recover(); p != nil {
				r.pan = p
			}
			ch <- r
		}()
		r.ok, r.err = v.VerifyProof(key, value, member, root, proof)
	}()
	select {
	case r := <-ch:
		return r.ok, r.err, r.pan
	case <-time.After(verifyBudget):
		// a verification takes about a millisecond; one that has not returned after verifyBudget is looping (a rebuilt tree
		// with a cycle makes the walk run for ever and eat memory): report it and leave before the process is killed
		fmt.Printf("VerifyProof did not return within %v: key=%x member=%v proof=%s\n", verifyBudget, key, member, fmtProof(proof))
		return false, nil, fmt.Sprintf("VerifyProof did not return within %v (hangs; normal duration ~1 ms)", verifyBudget)
	}
}

const verifyBudget = 60 * time.Second

func fmtProof(p []*lib.Node) string {
	s := ""
	for _, n := range p {
		if n == nil {
			s += "[nil]"
			continue
		}
		s += fmt.Sprintf("[key=%x val=%x.. bm=%d]", n.Key, n.Value[:min(4, len(n.Value))], n.Bitmask)
	}
	return s
}

func toLib(p []sm.ProofNode) []*lib.Node {
	out := make([]*lib.Node, len(p))
	for i, n := range p {
		out[i] = &lib.Node{Key: bytes.Clone(n.Key), Value: bytes.Clone(n.Value), Bitmask: n.Bitmask}
	}
	return out
}

func cloneProof(p []*lib.Node) []*lib.Node {
	out := make([]*lib.Node, len(p))
	for i, n := range p {
		if n != nil {
			out[i] = &lib.Node{Key: bytes.Clone(n.Key), Value: bytes.Clone(n.Value), Bitmask: n.Bitmask, LeftChildKey: bytes.Clone(n.LeftChildKey), RightChildKey: bytes.Clone(n.RightChildKey)}
		}
	}
	return out
}

// mutateProof applies one generated structural or bit-level mutation; returns the mutant and a label.
func mutateProof(t *rapid.T, honest []*lib.Node, other []*lib.Node) ([]*lib.Node, string) {
	p := cloneProof(honest)
	switch rapid.IntRange(0, 15).Draw(t, "mut") {
	case 14, 15:
		// a sibling whose key extends (or is a prefix of) the key of the element before it: the rebuilt parent then gets the
		// key of its own child - a node that is its own descendant
		if len(p) > 1 {
			i := rapid.IntRange(1, len(p)-1).Draw(t, "i")
			if prev := sm.DecodeKey(p[i-1].Key); len(prev) > 1 {
				if rapid.Bool().Draw(t, "extend") {
					p[i].Key = sm.EncodeKey(append(append(sm.Bits{}, prev...), byte(rapid.IntRange(0, 1).Draw(t, "bit"))))
					return p, "sibling-extends-previous-key"
				}
				p[i].Key = sm.EncodeKey(prev[:len(prev)-1])
				return p, "sibling-is-prefix-of-previous-key"
			}
		}
	case 0:
		if len(p) > 0 {
			return p[:len(p)-1], "truncate-tail"
		}
	case 1:
		if len(p) > 1 {
			return p[1:], "truncate-head"
		}
	case 2:
		if len(p) > 2 {
			i := rapid.IntRange(1, len(p)-2).Draw(t, "i")
			return append(p[:i], p[i+1:]...), "drop-middle"
		}
	case 3:
		if len(p) > 0 {
			i := rapid.IntRange(0, len(p)-1).Draw(t, "i")
			q := append(cloneProof(p[:i+1]), p[i:]...)
			return q, "duplicate-entry"
		}
	case 4:
		if len(p) > 1 {
			i := rapid.IntRange(0, len(p)-2).Draw(t, "i")
			p[i], p[i+1] = p[i+1], p[i]
			return p, "swap-neighbours"
		}
	case 5:
		if len(p) > 0 {
			i := rapid.IntRange(0, len(p)-1).Draw(t, "i")
			if len(p[i].Key) > 0 {
				b := rapid.IntRange(0, len(p[i].Key)*8-1).Draw(t, "bit")
				p[i].Key[b/8] ^= 1 << uint(b%8)
				return p, "flip-key-bit"
			}
		}
	case 6:
		if len(p) > 0 {
			i := rapid.IntRange(0, len(p)-1).Draw(t, "i")
			if len(p[i].Value) > 0 {
				b := rapid.IntRange(0, len(p[i].Value)*8-1).Draw(t, "bit")
				p[i].Value[b/8] ^= 1 << uint(b%8)
				return p, "flip-value-bit"
			}
		}
	case 7:
		if len(p) > 1 {
			i := rapid.IntRange(1, len(p)-1).Draw(t, "i")
			p[i].Bitmask ^= 1
			return p, "flip-bitmask"
		}
	case 8:
		if len(p) > 0 {
			i := rapid.IntRange(0, len(p)-1).Draw(t, "i")
			p[i] = nil
			return p, "nil-entry"
		}
	case 9:
		return []*lib.Node{}, "empty"
	case 10:
		if len(p) > 0 {
			i := rapid.IntRange(0, len(p)-1).Draw(t, "i")
			p[i].Key = bytes.Repeat([]byte{0xAB}, rapid.SampledFrom([]int{0, 1, 2, 22, 64, 300}).Draw(t, "klen"))
			return p, "odd-key-length"
		}
	case 11:
		if len(p) > 0 {
			i := rapid.IntRange(0, len(p)-1).Draw(t, "i")
			p[i].Bitmask = rapid.SampledFrom([]int32{-1, 2, 255, 1 << 30}).Draw(t, "bm")
			return p, "odd-bitmask"
		}
	case 12:
		if len(other) > 0 && len(p) > 0 {
			// splice: head of this proof, tail of another proof
			i := rapid.IntRange(0, len(p)-1).Draw(t, "i")
			j := rapid.IntRange(0, len(other)-1).Draw(t, "j")
			return append(p[:i+1], cloneProof(other[j:])...), "splice-with-other"
		}
	case 13:
		if len(p) > 0 {
			i := rapid.IntRange(0, len(p)-1).Draw(t, "i")
			p[i].Value = nil
			return p, "nil-value"
		}
	}
	return p, "identity"
}

type version struct {
	v     uint64
	root  []byte
	state map[string][]byte
	ro    lib.StoreI
	tree  *sm.RefNode
}

// TestC16Store: proofs from the real Store (live after Root(), and read-only views of every committed version).
func TestC16Store(t *testing.T) {
	rec := ev.New(t, "C16")
	pool := sm.Pool()
	rapid.Check(t, func(t *rapid.T) {
		ec := rec.Case()
		s := openStore(t)
		defer s.Close()
		// hot key set with adversarial neighbours
		var hot [][]byte
		nHot := rapid.IntRange(4, 40).Draw(t, "hotN")
		tiny := rapid.IntRange(0, 3).Draw(t, "tiny") == 0 // tiny states: proofs are 2-3 nodes long, most of the tree is behind sibling stubs
		if tiny {
			nHot = rapid.IntRange(2, 4).Draw(t, "hotNtiny")
		}
		// ladder mode: the mined deep-path group (target + one key per shared-prefix length 0..29): proofs of 30+ nodes, an order
		// of magnitude deeper than what random states of this size reach
		ladderMode := !tiny && rapid.IntRange(0, 5).Draw(t, "ladder") == 0
		if ladderMode {
			tgt, lad := sm.Ladder()
			hot = append(append(hot, tgt), lad...)
			nHot = len(hot) + rapid.IntRange(0, 6).Draw(t, "ladderExtra")
		}
		for len(hot) < nHot {
			switch rapid.IntRange(0, 5).Draw(t, "kind") {
			case 0, 1:
				i := pool.Close[rapid.IntRange(0, len(pool.Close)-1).Draw(t, "close")]
				for j := 0; j < 3 && i+j < len(pool.Keys); j++ {
					hot = append(hot, pool.Keys[i+j])
				}
			case 2, 3:
				// keys of other lengths, in particular the sizes of a hash / of a tree key (20, 32) and their neighbours
				total := rapid.SampledFrom([]int{10, 19, 20, 20, 21, 31, 32, 32, 32, 33, 63, 64, 65, 100, 250}).Draw(t, "keyLen")
				hot = append(hot, sm.LongKey(uint32(rapid.IntRange(0, 1<<20).Draw(t, "longIdx")), total))
			default:
				hot = append(hot, pool.Keys[rapid.IntRange(0, len(pool.Keys)-1).Draw(t, "rnd")])
			}
		}
		model := map[string][]byte{}
		var versions []*version
		nv := rapid.IntRange(1, 4).Draw(t, "versions")
		for b := 0; b < nv; b++ {
			n := rapid.IntRange(1, 40).Draw(t, "n")
			if tiny {
				n = rapid.IntRange(1, 3).Draw(t, "ntiny")
			}
			if ladderMode && b == 0 {
				for _, k := range hot[:1+len(sm.LadderIdx)] {
					v := []byte{byte(len(model) + 1)}
					if err := s.Set(bytes.Clone(k), bytes.Clone(v)); err != nil {
						t.Fatalf("set: %v", err)
					}
					model[string(k)] = v
				}
			}
			for i := 0; i < n; i++ {
				k := hot[rapid.IntRange(0, len(hot)-1).Draw(t, "k")]
				if rapid.IntRange(0, 9).Draw(t, "op") < 7 {
					v := rapid.SliceOfN(rapid.Byte(), 1, 4).Draw(t, "v")
					if err := s.Set(bytes.Clone(k), bytes.Clone(v)); err != nil {
						t.Fatalf("set: %v", err)
					}
					model[string(k)] = v
				} else {
					if err := s.Delete(bytes.Clone(k)); err != nil {
						t.Fatalf("delete: %v", err)
					}
					delete(model, string(k))
				}
			}
			root, err := s.Commit()
			if err != nil {
				t.Fatalf("commit: %v", err)
			}
			st := make(map[string][]byte, len(model))
			for k, v := range model {
				st[k] = v
			}
			versions = append(versions, &version{v: s.Version(), root: root, state: st, tree: sm.BuildTree(st, 160)})
		}
		for _, ver := range versions {
			ro, err := s.NewReadOnly(ver.v)
			if err != nil {
				t.Fatalf("NewReadOnly(%d): %v", ver.v, err)
			}
			ver.ro = ro
		}
		defer func() {
			for _, ver := range versions {
				if ver.ro != nil {
					ver.ro.Discard()
				}
			}
		}()
		ec.Desc("versions=%d entries=%d", nv, len(model))
		ec.ClassIf(tiny, "tiny-state")
		ec.ClassIf(ladderMode, "ladder-state")
		nontrivial := false
		statements := rapid.IntRange(3, 10).Draw(t, "statements")
		for si := 0; si < statements; si++ {
			ver := versions[rapid.IntRange(0, len(versions)-1).Draw(t, "ver")]
			key := hot[rapid.IntRange(0, len(hot)-1).Draw(t, "key")]
			if rapid.IntRange(0, 9).Draw(t, "fresh") == 0 {
				key = pool.Keys[rapid.IntRange(0, len(pool.Keys)-1).Draw(t, "anykey")]
			}
			if ladderMode && si == 0 {
				key = hot[0] // the ladder's target: the deepest path
			}
			val, present := ver.state[string(key)]
			// --- completeness: the store produces a proof for the true statement and it verifies against the committed root
			proof, err := ver.ro.(*store.Store).GetProof(bytes.Clone(key))
			if err != nil {
				t.Fatalf("GetProof(version %d, present=%v): %v", ver.v, present, err)
			}
			ok, verr, pan := safeVerify(ver.ro.(*store.Store), key, val, present, ver.root, cloneProof(proof))
			if pan != nil {
				t.Fatalf("VerifyProof panicked on an honest proof: %v", pan)
			}
			if verr != nil || !ok {
				t.Fatalf("completeness: version %d key %x present=%v: honest proof (len %d) does not verify against the committed root (ok=%v err=%v)", ver.v, key, present, len(proof), ok, verr)
			}
			ec.ClassIf(len(proof) > 22, "proof>22-nodes")
			ec.ClassIf(len(key) == 20 || len(key) == 32, "key-of-hash-length(20|32)")
			ec.ClassIf(len(key) != 8, "long-key")
			ec.ClassIf(present, "honest-membership")
			ec.ClassIf(!present, "honest-non-membership")
			ec.ClassIf(ver.v < versions[len(versions)-1].v, "historical-version")
			if ver.v < versions[len(versions)-1].v {
				nontrivial = true
			}
			// --- soundness: same honest proof, false statements
			type claim struct {
				value  []byte
				member bool
				truth  bool
				label  string
			}
			claims := []claim{}
			if present {
				claims = append(claims, claim{append(bytes.Clone(val), 1), true, false, "wrong-value"}, claim{nil, false, false, "present-claimed-absent"})
				if len(val) != 0 { // the empty value is a value like any other: (key, "") is not in the state
					claims = append(claims, claim{nil, true, false, "nil-value-claimed"}, claim{[]byte{}, true, false, "empty-value-claimed"})
				}
			} else {
				claims = append(claims, claim{[]byte{1}, true, false, "absent-claimed-present"})
			}
			for _, c := range claims {
				ok, _, pan = safeVerify(ver.ro.(*store.Store), key, c.value, c.member, ver.root, cloneProof(proof))
				if pan != nil {
					t.Fatalf("VerifyProof panicked (%s): %v", c.label, pan)
				}
				if ok && !c.truth {
					t.Fatalf("soundness: version %d key %x: false statement %q accepted with the honest proof", ver.v, key, c.label)
				}
			}
			// --- cross-offer: the honest proof of another key / an inner node on this key's path, offered for this key
			other := hot[rapid.IntRange(0, len(hot)-1).Draw(t, "other")]
			if rapid.Bool().Draw(t, "otherFar") {
				other = pool.Keys[rapid.IntRange(0, len(pool.Keys)-1).Draw(t, "otherAny")] // a key anywhere in the tree (mostly absent)
			}
			oproof, err := ver.ro.(*store.Store).GetProof(bytes.Clone(other))
			if err != nil {
				t.Fatalf("GetProof(other): %v", err)
			}
			target := sm.LeafFor(key, nil, 160).Path
			path := ver.tree.Descend(target)
			var forged [][]*lib.Node
			var forgedLabel []string
			if !bytes.Equal(other, key) {
				forged, forgedLabel = append(forged, cloneProof(oproof)), append(forgedLabel, "foreign-leaf-proof")
			}
			if len(path) > 2 {
				cut := rapid.IntRange(2, len(path)-1).Draw(t, "cut") // an ancestor (inner node) on the way to the key, below the root
				forged, forgedLabel = append(forged, toLib(sm.ProofFromPath(path[:cut]))), append(forgedLabel, "inner-node-as-leaf")
				nontrivial = true
			}
			for fi, fp := range forged {
				for _, member := range []bool{true, false} {
					var v []byte
					if member {
						v = val
						if !present {
							v = []byte{7}
						}
					}
					truth := member == present // claimed membership with the true value, or claimed absence of an absent key
					ok, _, pan = safeVerify(ver.ro.(*store.Store), key, v, member, ver.root, cloneProof(fp))
					if pan != nil {
						t.Fatalf("VerifyProof panicked on %s (member=%v): %v", forgedLabel[fi], member, pan)
					}
					if ok && !truth {
						t.Fatalf("soundness: version %d key %x present=%v: %s accepted for the false statement member=%v", ver.v, key, present, forgedLabel[fi], member)
					}
					ec.Class("forged=" + forgedLabel[fi])
				}
			}
			// --- mutated proofs and proofs/roots of other versions: never panic, accept only true statements
			for m := 0; m < 3; m++ {
				mp, label := mutateProof(t, proof, oproof)
				root := ver.root
				truthState := ver.state
				if rapid.IntRange(0, 5).Draw(t, "otherRoot") == 0 && len(versions) > 1 {
					ov := versions[rapid.IntRange(0, len(versions)-1).Draw(t, "ov")]
					root, truthState = ov.root, ov.state
					label += "+root-of-v" + fmt.Sprint(ov.v)
				}
				tv, tpresent := truthState[string(key)]
				member := rapid.Bool().Draw(t, "member")
				claimVal := tv
				if member && (!tpresent || rapid.IntRange(0, 3).Draw(t, "wrongv") == 0) {
					claimVal = []byte{9, 9}
				}
				truth := (member && tpresent && bytes.Equal(claimVal, tv)) || (!member && !tpresent)
				ok, _, pan = safeVerify(ver.ro.(*store.Store), key, claimVal, member, root, mp)
				if pan != nil {
					t.Fatalf("VerifyProof panicked on mutated proof (%s): %v", label, pan)
				}
				if ok && !truth {
					t.Fatalf("soundness: mutated proof (%s) accepted for a false statement (key %x member=%v)", label, key, member)
				}
				ec.Class("mutation=" + label[:min(len(label), 20)])
			}
		}
		// live store: proof right after a speculative Root()
		if rapid.Bool().Draw(t, "live") {
			k := hot[rapid.IntRange(0, len(hot)-1).Draw(t, "lk")]
			nv := []byte{0x42}
			if err := s.Set(bytes.Clone(k), nv); err != nil {
				t.Fatalf("set: %v", err)
			}
			root, err := s.Root()
			if err != nil {
				t.Fatalf("Root: %v", err)
			}
			proof, err := s.GetProof(bytes.Clone(k))
			if err != nil {
				t.Fatalf("live GetProof: %v", err)
			}
			ok, verr, pan := safeVerify(s, k, nv, true, root, proof)
			if pan != nil || verr != nil || !ok {
				t.Fatalf("completeness (live store after Root()): ok=%v err=%v panic=%v", ok, verr, pan)
			}
			ec.Class("live-store-proof")
			s.Reset()
		}
		ec.Done(nontrivial)
	})
}

// sortedKeys helper for deterministic iteration
func sortedKeys(m map[string][]byte) []string {
	ks := make([]string, 0, len(m))
	for k := range m {
		ks = append(ks, k)
	}
	sort.Strings(ks)
	return ks
}
