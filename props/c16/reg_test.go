package c16

import (
	"bytes"
	"testing"

	"github.com/canopy-network/canopy/store"

	sm "verif/h/storemodel"
)

// TestC16Reg_ReadOnlyProof: (finding KF-C16-readonly-prefix) a read-only view of every committed version must produce
// proofs that verify against the root committed for that version.
func TestC16Reg_ReadOnlyProof(t *testing.T) {
	s := openStore(t)
	defer s.Close()
	pool := sm.Pool()
	type ver struct {
		v    uint64
		root []byte
		st   map[string][]byte
	}
	var vers []ver
	model := map[string][]byte{}
	for b := 0; b < 3; b++ {
		for i := 0; i < 20; i++ {
			k := pool.Keys[(b*7+i*13)%50]
			v := []byte{byte(b), byte(i)}
			if i%5 == 4 {
				s.Delete(bytes.Clone(k))
				delete(model, string(k))
			} else {
				s.Set(bytes.Clone(k), v)
				model[string(k)] = v
			}
		}
		root, err := s.Commit()
		if err != nil {
			t.Fatal(err)
		}
		st := map[string][]byte{}
		for k, v := range model {
			st[k] = v
		}
		vers = append(vers, ver{s.Version(), root, st})
	}
	for _, vr := range vers {
		ro, err := s.NewReadOnly(vr.v)
		if err != nil {
			t.Fatal(err)
		}
		for i := 0; i < 50; i++ {
			k := pool.Keys[i]
			val, present := vr.st[string(k)]
			proof, err := ro.(*store.Store).GetProof(bytes.Clone(k))
			if err != nil {
				t.Fatalf("GetProof v%d: %v", vr.v, err)
			}
			ok, verr, pan := safeVerify(ro.(*store.Store), k, val, present, vr.root, proof)
			if pan != nil || verr != nil || !ok {
				t.Fatalf("version %d key %x present=%v: read-only proof (len %d) does not verify against the committed root: ok=%v err=%v panic=%v", vr.v, k, present, len(proof), ok, verr, pan)
			}
		}
		ro.Discard()
	}
}

// TestC16Reg_ForeignProof: (finding KF-C16-proof-not-bound) a proof that starts at an inner node on the way to a present key
// must not be accepted as that key's non-membership proof, and the honest proof of another key offered for a present key
// must be rejected without a panic.
func TestC16Reg_ForeignProof(t *testing.T) {
	s := openStore(t)
	defer s.Close()
	pool := sm.Pool()
	model := map[string][]byte{}
	for i := 0; i < 40; i++ {
		k := pool.Keys[pool.Close[0]+i%4+(i/4)*1000]
		s.Set(bytes.Clone(k), []byte{byte(i)})
		model[string(k)] = []byte{byte(i)}
	}
	root, err := s.Commit()
	if err != nil {
		t.Fatal(err)
	}
	ro, err := s.NewReadOnly(s.Version())
	if err != nil {
		t.Fatal(err)
	}
	defer ro.Discard()
	st := ro.(*store.Store)
	tree := sm.BuildTree(model, 160)
	keys := sortedKeys(model)
	for _, ks := range keys {
		k := []byte(ks)
		path := tree.Descend(sm.LeafFor(k, nil, 160).Path)
		for cut := 2; cut < len(path); cut++ {
			fp := toLib(sm.ProofFromPath(path[:cut]))
			ok, _, pan := safeVerify(st, k, nil, false, root, fp)
			if pan != nil {
				t.Fatalf("panic on inner-node proof: %v", pan)
			}
			if ok {
				t.Fatalf("present key %x proven ABSENT with a proof that starts at inner node %d/%d of its own path", k, cut, len(path))
			}
		}
		for _, os := range keys[:6] {
			if os == ks {
				continue
			}
			op, err := st.GetProof([]byte(os))
			if err != nil {
				t.Fatal(err)
			}
			for _, member := range []bool{true, false} {
				v := model[ks]
				if !member {
					v = nil
				}
				ok, _, pan := safeVerify(st, k, v, member, root, op)
				if pan != nil {
					t.Fatalf("VerifyProof panicked on the honest proof of key %x offered for present key %x: %v", os, k, pan)
				}
				if ok && !member {
					t.Fatalf("present key %x proven absent with the proof of key %x", k, os)
				}
			}
		}
	}
}

// TestC16Reg_StubWrapAround: (finding KF-C16-stub-wraparound, found by the thorough tier) the honest non-membership
// proof of an absent key that ends at the max sentinel must not be accepted as a non-membership proof of a PRESENT key
// whose path runs through the stub sibling: the verifier looked up the stub's missing child under the empty key, got the
// rebuilt root back and walked on to proof[0].
func TestC16Reg_StubWrapAround(t *testing.T) {
	pool := sm.Pool()
	var a, b []byte
	for i := range pool.Keys {
		h := pool.Hashes[i][0]
		if a == nil && h>>6 == 1 { // 01......
			a = pool.Keys[i]
		}
		if b == nil && h>>7 == 1 && h != 0xff { // 1.......
			b = pool.Keys[i]
		}
	}
	s := openStore(t)
	defer s.Close()
	if err := s.Set(bytes.Clone(a), []byte{1}); err != nil {
		t.Fatal(err)
	}
	root, err := s.Commit()
	if err != nil {
		t.Fatal(err)
	}
	ro, err := s.NewReadOnly(s.Version())
	if err != nil {
		t.Fatal(err)
	}
	defer ro.Discard()
	st := ro.(*store.Store)
	proofB, err := st.GetProof(bytes.Clone(b))
	if err != nil {
		t.Fatal(err)
	}
	if ok, _, pan := safeVerify(st, b, nil, false, root, cloneProof(proofB)); !ok || pan != nil {
		t.Fatalf("honest non-membership proof of the absent key rejected (ok=%v panic=%v)", ok, pan)
	}
	ok, _, pan := safeVerify(st, a, nil, false, root, cloneProof(proofB))
	if pan != nil {
		t.Fatalf("panic: %v", pan)
	}
	if ok {
		t.Fatalf("the only present key %x was proven ABSENT with the non-membership proof of another key (%d nodes)", a, len(proofB))
	}
}
