package c16

import (
	"bytes"
	"crypto/sha256"
	"encoding/binary"
	"fmt"
	"testing"

	"github.com/canopy-network/canopy/lib"
	"github.com/canopy-network/canopy/store"
	"pgregory.net/rapid"

	"verif/h/ev"
	sm "verif/h/storemodel"
)

var smallPrefix = lib.JoinLenPrefix([]byte("t/"))

func reservedPaths(keyBits int) map[string]bool {
	r := map[string]bool{}
	mn, mx := sm.Sentinels(keyBits)
	r[string(mn.Path)], r[string(mx.Path)] = true, true
	r[string(sm.BitsOf(store.RootKey, keyBits))] = true
	for p := 0; p < 8; p++ {
		lo := append([]byte{byte(p) << 5}, make([]byte, 19)...)
		hi := append([]byte{byte(p)<<5 | 0x1F}, bytes.Repeat([]byte{0xFF}, 19)...)
		r[string(sm.BitsOf(lo, keyBits))], r[string(sm.BitsOf(hi, keyBits))] = true, true
	}
	return r
}

func ctrKey(i int) []byte {
	k := make([]byte, 4)
	binary.BigEndian.PutUint32(k, uint32(i))
	return k
}

// TestC16SMTSmall: proofs on the tree at reduced key lengths (8..16 bits) where every key has close neighbours, so that
// foreign proofs and inner-node proofs land next to the queried key.
func TestC16SMTSmall(t *testing.T) {
	rec := ev.New(t, "C16")
	rapid.Check(t, func(t *rapid.T) {
		ec := rec.Case()
		keyBits := rapid.SampledFrom([]int{8, 9, 10, 12, 16}).Draw(t, "keyBits")
		reserved := reservedPaths(keyBits)
		universe := 4 << min(keyBits, 10)
		s := openStore(t)
		defer s.Close()
		// populate
		byPath := map[string]store.VerifOp{}
		n := rapid.IntRange(1, 60).Draw(t, "n")
		if rapid.IntRange(0, 3).Draw(t, "tiny") == 0 {
			n = rapid.IntRange(1, 3).Draw(t, "ntiny") // tiny trees: proofs are 2-3 nodes long, most of the tree is behind sibling stubs
		}
		for i := 0; i < n; i++ {
			k := ctrKey(rapid.IntRange(0, universe-1).Draw(t, "key"))
			h := sha256.Sum256(k)
			p := string(sm.BitsOf(h[:], keyBits))
			if reserved[p] {
				continue
			}
			if _, dup := byPath[p]; dup {
				continue
			}
			byPath[p] = store.VerifOp{Key: k, Value: rapid.SliceOfN(rapid.Byte(), 1, 3).Draw(t, "v")}
		}
		var ops []store.VerifOp
		model := map[string]store.VerifOp{}
		leaves := []sm.Leaf{}
		mn, mx := sm.Sentinels(keyBits)
		leaves = append(leaves, mn, mx)
		paths := make([]string, 0, len(byPath))
		for p := range byPath {
			paths = append(paths, p)
		}
		for _, p := range sortedStrings(paths) {
			o := byPath[p]
			ops = append(ops, o)
			model[p] = o
			hv := sha256.Sum256(o.Value)
			leaves = append(leaves, sm.Leaf{Path: sm.Bits(p), Value: hv[:]})
		}
		batch := s.DB().NewBatch()
		vs := store.NewVersionedStore(s.DB().NewSnapshot(), batch, ^uint64(0))
		defer vs.Close()
		tx := store.NewTxn(vs, vs, smallPrefix, false, false, true, 1)
		smt := store.NewSMT(store.RootKey, keyBits, tx)
		if err := store.VerifSMTCommit(smt, ops, rapid.Bool().Draw(t, "parallel")); err != nil {
			t.Fatalf("commit: %v", err)
		}
		root := smt.Root()
		ref := sm.BuildFromLeaves(leaves)
		if !bytes.Equal(root, ref.Value) {
			t.Fatalf("root differs from reference (C08 territory) - cannot judge proofs")
		}
		ec.Desc("bits=%d leaves=%d", keyBits, len(model))
		nontrivial := false
		statements := rapid.IntRange(2, 8).Draw(t, "statements")
		for si := 0; si < statements; si++ {
			k := ctrKey(rapid.IntRange(0, universe-1).Draw(t, "q"))
			h := sha256.Sum256(k)
			path := sm.BitsOf(h[:], keyBits)
			if reserved[string(path)] {
				rec.Exclude("reserved-position")
				continue
			}
			mo, present := model[string(path)]
			// two different keys may share a leaf position at reduced length: the statement is about the position's occupant
			if present && !bytes.Equal(mo.Key, k) {
				k = mo.Key
			}
			var val []byte
			if present {
				val = mo.Value
			}
			proof, err := smt.GetMerkleProof(bytes.Clone(k))
			if err != nil {
				t.Fatalf("GetMerkleProof: %v", err)
			}
			ok, verr, pan := safeVerify(smt, k, val, present, root, cloneProof(proof))
			if pan != nil || verr != nil || !ok {
				t.Fatalf("completeness: bits=%d key %x present=%v: honest proof rejected (ok=%v err=%v panic=%v)", keyBits, k, present, ok, verr, pan)
			}
			ec.ClassIf(present, "honest-membership")
			ec.ClassIf(!present, "honest-non-membership")
			// false statements with the honest proof
			if present {
				if ok, _, pan = safeVerify(smt, k, append(bytes.Clone(val), 1), true, root, cloneProof(proof)); ok || pan != nil {
					t.Fatalf("soundness: wrong value accepted (panic=%v)", pan)
				}
				if ok, _, pan = safeVerify(smt, k, nil, false, root, cloneProof(proof)); ok || pan != nil {
					t.Fatalf("soundness: present key proven absent (panic=%v)", pan)
				}
				if len(val) != 0 {
					for _, empty := range [][]byte{nil, {}} {
						if ok, _, pan = safeVerify(smt, k, empty, true, root, cloneProof(proof)); ok || pan != nil {
							t.Fatalf("soundness: membership of (key, empty value) accepted although the stored value is %x (panic=%v)", val, pan)
						}
					}
				}
			} else {
				if ok, _, pan = safeVerify(smt, k, []byte{1}, true, root, cloneProof(proof)); ok || pan != nil {
					t.Fatalf("soundness: absent key proven present (panic=%v)", pan)
				}
			}
			// forged: every node on the reference path (incl. inner nodes) and proofs of other keys offered for this key
			walk := ref.Descend(path)
			cuts := map[int]bool{}
			for i := 0; i < 3 && len(walk) >= 2; i++ {
				cuts[rapid.IntRange(2, len(walk)).Draw(t, "cut")] = true
			}
			for cut := 2; cut <= len(walk); cut++ {
				if !cuts[cut] {
					continue
				}
				fp := toLib(sm.ProofFromPath(walk[:cut]))
				honest := cut == len(walk)
				for _, member := range []bool{true, false} {
					v := val
					if member && !present {
						v = []byte{7}
					}
					if !member {
						v = nil
					}
					truth := member == present
					ok, _, pan := safeVerify(smt, k, v, member, root, fp)
					if pan != nil {
						t.Fatalf("VerifyProof panicked on a path-prefix proof (cut %d/%d): %v", cut, len(walk), pan)
					}
					if ok && !truth {
						t.Fatalf("soundness: bits=%d key %x present=%v: proof starting at path node %d/%d (honest=%v) accepted for false statement member=%v", keyBits, k, present, cut, len(walk), honest, member)
					}
				}
				if !honest {
					ec.Class("forged=inner-node-as-leaf")
					nontrivial = true
				}
			}
			ok2 := ctrKey(rapid.IntRange(0, universe-1).Draw(t, "other"))
			oh := sha256.Sum256(ok2)
			if op := sm.BitsOf(oh[:], keyBits); !reserved[string(op)] && !bytes.Equal(op, path) {
				oproof, err := smt.GetMerkleProof(ok2)
				if err == nil {
					for _, member := range []bool{true, false} {
						v := val
						if member && !present {
							v = []byte{7}
						}
						if !member {
							v = nil
						}
						ok, _, pan := safeVerify(smt, k, v, member, root, cloneProof(oproof))
						if pan != nil {
							t.Fatalf("VerifyProof panicked on a foreign proof: %v", pan)
						}
						if ok && member != present {
							dbg := fmt.Sprintf("queried path %s, other path %s, proof:", bitstr(path), bitstr(op))
							for _, n := range oproof {
								dbg += fmt.Sprintf(" [key=%x val=%x.. bm=%d]", n.Key, n.Value[:min(4, len(n.Value))], n.Bitmask)
							}
							dbg += " leaves:"
							for _, p := range sortedStrings(keysOf(model)) {
								dbg += " " + bitstr(sm.Bits(p))
							}
							t.Fatalf("soundness: bits=%d: proof for key %x accepted for false statement about key %x (member=%v present=%v)\n%s", keyBits, ok2, k, member, present, dbg)
						}
					}
					ec.Class("forged=foreign-leaf-proof")
					if sm.SharedBits(packBits(op), packBits(path)) >= 1 {
						nontrivial = true
					}
					// mutations
					mp, label := mutateProof(t, proof, oproof)
					member := rapid.Bool().Draw(t, "member")
					v := val
					if !member {
						v = nil
					} else if !present {
						v = []byte{3}
					}
					ok, _, pan := safeVerify(smt, k, v, member, root, mp)
					if pan != nil {
						t.Fatalf("VerifyProof panicked on mutated proof (%s): %v", label, pan)
					}
					if ok && member != present {
						t.Fatalf("soundness: mutated proof (%s) accepted for a false statement", label)
					}
					ec.Class("mutation=" + label)
				}
			}
		}
		ec.Done(nontrivial)
	})
}

func packBits(b sm.Bits) []byte {
	out := make([]byte, (len(b)+7)/8)
	for i, x := range b {
		out[i/8] |= x << (7 - uint(i%8))
	}
	return out
}

func sortedStrings(s []string) []string {
	m := map[string][]byte{}
	for _, x := range s {
		m[x] = nil
	}
	return sortedKeys(m)
}

func keysOf(m map[string]store.VerifOp) []string {
	out := make([]string, 0, len(m))
	for k := range m {
		out = append(out, k)
	}
	return out
}

func bitstr(b sm.Bits) string {
	o := make([]byte, len(b))
	for i, x := range b {
		o[i] = '0' + x
	}
	return string(o)
}
