package c17

import (
	"bytes"
	"fmt"
	"math/rand/v2"
	"os"
	"strconv"
	"testing"
	"time"

	"verif/h/ev"
	"verif/h/p2psim"
)

// TestC17CounterWrap (thorough tier only; plain seeded enumeration): the frame counter must not
// repeat within a session. More than 2^16 frames (> 64 MiB of ciphertext) are streamed through one
// real session over the in-memory wire, every one read back and compared (integrity over a long
// stream), then a ciphertext frame recorded earlier - a handshake frame or a data frame at a seeded
// position i - is replayed at the moment the receiver expects frame i+d, for the distances d at which
// a truncated counter would come round again (2^8-1, 2^8, 2^8+1, 2^15, 2^16-2, 2^16-1, 2^16, 2^16+1).
// Each (i, d) runs on a fresh session. Oracle: the replayed frame yields a read error and no data.
//
// The driver has no tier variable and gives every test at least one check, so the tier is read off
// $VERIF_CHECKS: positions i per shard = $VERIF_CHECKS / 16. check.json has quick=0 (-> 1 check -> 0
// positions: skipped) and thorough=384 over 4 shards (-> 96 -> 6 positions per shard, ~2-3 s each).
func TestC17CounterWrap(t *testing.T) {
	checks, _ := strconv.Atoi(os.Getenv("VERIF_CHECKS"))
	checks /= 16
	if os.Getenv("C17_WRAP") != "" {
		checks, _ = strconv.Atoi(os.Getenv("C17_WRAP"))
	}
	if checks < 1 {
		t.Skip("thorough tier only (streams > 64 MiB per case); run with C17_WRAP=<positions> to force")
	}
	rseed, _ := strconv.ParseUint(os.Getenv("VERIF_RSEED"), 10, 64)
	rng := rand.New(rand.NewPCG(rseed, 0xc17))
	rec := ev.New(t, "C17")
	distances := []int{255, 256, 257, 1 << 15, 1<<16 - 2, 1<<16 - 1, 1 << 16, 1<<16 + 1}
	t0 := time.Now()
	for n := 0; n < checks; n++ {
		// absolute frame index: 0,1 = the two handshake frames, >= 2 data frames
		var i int
		switch n {
		case 0:
			i = 1 // second handshake frame (counter 1)
		case 2:
			i = 0 // first handshake frame (counter 0: a wrap that skips 0 never repeats it)
		default:
			i = 2 + rng.IntN(600) // a data frame
		}
		dirBA := rng.IntN(2) == 1
		for _, d := range distances {
			c := rec.Case()
			dir := "A>B"
			if dirBA {
				dir = "B>A"
			}
			c.Desc("dir=%s replay frame %d when frame %d is expected (distance %d)", dir, i, i+d, d)
			c.Class(fmt.Sprintf("distance=%d", d))
			c.ClassIf(i < 2, "replayed=handshake-frame")
			c.ClassIf(i >= 2, "replayed=data-frame")
			if msg := wrapCase(i, d, dirBA, rng.Uint64()); msg != "" {
				t.Fatalf("dir=%s frame %d replayed at distance %d: %s", dir, i, d, msg)
			}
			c.Done(true)
		}
	}
	rec.Note("wrap_wall", time.Since(t0).String())
}

// wrapCase returns "" when the replay was rejected.
func wrapCase(i, d int, dirBA bool, dseed uint64) string {
	s, _, _, err := p2psim.Establish(p2psim.EdKey(1), p2psim.EdKey(2), p2psim.Meta(1, 1), p2psim.Meta(1, 1))
	if err != nil {
		return "harness: " + err.Error()
	}
	defer s.Close()
	snd, rcv, w, hs := s.A, s.B, s.L.XY, s.HsAB
	if dirBA {
		snd, rcv, w, hs = s.B, s.A, s.L.YX, s.HsBA
	}
	if len(hs) != 2 {
		return fmt.Sprintf("harness: %d handshake frames", len(hs))
	}
	w.SetHold(true)
	w.SetStrict(true)
	w.StopLog()       // the handshake frames are already extracted; no 64 MiB transcript
	need := i + d - 2 // data frames in front of the replay point
	r := rand.New(rand.NewPCG(dseed, 1))
	var replay []byte
	if i < 2 {
		replay = hs[i]
	}
	buf := make([]byte, 8)
	rb := make([]byte, 4096)
	// written, delivered and read back in batches (nothing but the frame to replay is kept)
	for done := 0; done < need; {
		batch := min(256, need-done)
		var plain []byte
		for k := 0; k < batch; k++ {
			n := 1 + r.IntN(8) // small writes: one frame each
			for j := 0; j < n; j++ {
				buf[j] = byte(r.Uint32())
			}
			if m, e := snd.Write(buf[:n]); e != nil || m != n {
				return fmt.Sprintf("harness: Write = (%d,%v)", m, e)
			}
			plain = append(plain, buf[:n]...)
		}
		held := w.TakeHeld()
		frames, rest := p2psim.SplitFrames(held)
		if len(rest) != 0 || len(frames) != batch {
			return fmt.Sprintf("harness: %d frames (+%d bytes) for %d writes", len(frames), len(rest), batch)
		}
		if k := i - 2 - done; k >= 0 && k < batch {
			replay = append([]byte(nil), frames[k]...)
		}
		w.Feed(held)
		var got []byte
		for k := range frames {
			n, e := rcv.Read(rb)
			if e != nil {
				return fmt.Sprintf("genuine frame %d (of %d) was rejected: %v", 2+done+k, need+2, e)
			}
			got = append(got, rb[:n]...)
		}
		if !bytes.Equal(got, plain) {
			return fmt.Sprintf("long stream: frames %d..%d: bytes read differ from bytes written", 2+done, 2+done+batch-1)
		}
		done += batch
	}
	if replay == nil {
		return fmt.Sprintf("harness: frame %d was never produced", i)
	}
	// the receiver now expects frame i+d: replay frame i
	w.Feed(replay)
	n, e := rcv.Read(rb)
	if e == nil || n != 0 {
		return fmt.Sprintf("the receiver accepted it (Read = %d bytes, err=%v): the frame counter has come round after %d frames", n, e, d)
	}
	return ""
}
