package c17

import (
	"bytes"
	"crypto/ed25519"
	"encoding/hex"
	"errors"
	"fmt"
	"io"
	"os"
	"strings"
	"sync"
	"testing"
	"time"

	"github.com/canopy-network/canopy/lib"
	"github.com/canopy-network/canopy/lib/crypto"
	"pgregory.net/rapid"

	"verif/h/ev"
	"verif/h/p2psim"
)

// KFReflection: an intermediary that knows the leg keys re-encrypts the endpoint's OWN signature and
// meta messages back to it; the endpoint accepts a session "from itself" although the peer holds no
// identity key at all (both sides sign the same role-less challenge).
const KFReflection = "KF-C17-reflection"

// ---------------------------------------------------------------- hostile ephemeral keys

type badEph struct {
	name string
	key  []byte
}

func hx(s string) []byte {
	b, err := hex.DecodeString(s)
	if err != nil {
		panic(err)
	}
	return b
}

// badEphs: small-order points in Edwards encoding (what the peer's "temporary ed25519 public key"
// actually is), their non-canonical encodings, the X25519 u-coordinate blacklist of
// lib/crypto/ecdh.go taken literally, and keys of the wrong length. With any of them the shared
// secret is predictable (or undefined), so an endpoint must refuse the handshake.
var badEphs = []badEph{
	{"ed-identity(order1)", hx("0100000000000000000000000000000000000000000000000000000000000000")},
	{"ed-(0,-1)(order2)", hx("ecffffffffffffffffffffffffffffffffffffffffffffffffffffffffffff7f")},
	{"ed-order4-a", hx("0000000000000000000000000000000000000000000000000000000000000000")},
	{"ed-order4-b", hx("0000000000000000000000000000000000000000000000000000000000000080")},
	{"ed-order8-a", hx("26e8958fc2b227b045c3f489f2ef98f0d5dfac05d3c63339b13802886d53fc05")},
	{"ed-order8-b", hx("26e8958fc2b227b045c3f489f2ef98f0d5dfac05d3c63339b13802886d53fc85")},
	{"ed-order8-c", hx("c7176a703d4dd84fba3c0b760d10670f2a2053fa2c39ccc64ec7fd7792ac037a")},
	{"ed-order8-d", hx("c7176a703d4dd84fba3c0b760d10670f2a2053fa2c39ccc64ec7fd7792ac03fa")},
	{"noncanon-identity-signbit", hx("0100000000000000000000000000000000000000000000000000000000000080")},
	{"noncanon-y=p+1", hx("eeffffffffffffffffffffffffffffffffffffffffffffffffffffffffffff7f")},
	{"noncanon-y=p+1-signbit", hx("eeffffffffffffffffffffffffffffffffffffffffffffffffffffffffffffff")},
	{"noncanon-y=p", hx("edffffffffffffffffffffffffffffffffffffffffffffffffffffffffffff7f")},
	{"noncanon-y=p-signbit", hx("edffffffffffffffffffffffffffffffffffffffffffffffffffffffffffffff")},
	{"noncanon-(0,-1)-signbit", hx("ecffffffffffffffffffffffffffffffffffffffffffffffffffffffffffffff")},
	{"x25519-bl-order8-a", hx("e0eb7a7c3b41b8ae1656e3faf19fc46ada098deb9c32b1fd866205165f49b800")},
	{"x25519-bl-order8-b", hx("5f9c95bca3508c24b1d0b1559c83ef5b04445cc4581c8e86d8224eddd09f1157")},
	{"short-0", []byte{}},
	{"short-1", []byte{1}},
	{"short-31", bytes.Repeat([]byte{0x11}, 31)},
	{"long-33", bytes.Repeat([]byte{0x11}, 33)},
	{"long-48", bytes.Repeat([]byte{0x11}, 48)},
	{"long-64", bytes.Repeat([]byte{0x11}, 64)},
	{"off-curve-y=2", hx("0200000000000000000000000000000000000000000000000000000000000000")},
}

// ---------------------------------------------------------------- scenario

// legPlan is what the intermediary M does on the leg towards one honest endpoint E (O = the other
// honest endpoint).
type legPlan struct {
	eph  string // forward | own | bad:<i>
	sig  string // see sigActs
	meta string // see metaActs
}

var (
	// actions that need the leg keys
	sigActsKnown  = []string{"own", "own", "claimO-sigByM", "claimO-relayedSig", "claimO-oldSig", "claimO-zeroSig", "ownPub-sigOfO", "reflect", "rawOther", "rawEcho", "garbage"}
	metaActsKnown = []string{"own", "own", "own", "own-wrongnet", "own-wrongchain", "signedByO", "reflect", "unsigned", "rawOther", "rawEcho", "garbage"}
	// actions available without the keys (pure relay)
	rawActs = []string{"rawOther", "rawOther", "rawOther", "rawEcho", "garbage", "rawOtherPrevStep"}
)

type scenario struct {
	kind       [2]string // identity key type of A, B
	kindM      string
	net, chain [2]uint64
	plan       [2]legPlan
	class      string
	delta      uint64 // how far a deliberately wrong network / chain id is from the right one
	replayToA  bool   // cross-session replay: B's recorded transcript is replayed to A instead of A's to B
	dataLen    int    // cross-session replay: size of the data message recorded after the handshake
}

// idDeltas: distances between two DIFFERENT network / chain ids, including the ones that vanish when
// an id is truncated to 8, 16 or 32 bits or loses its top bit
var idDeltas = []uint64{1, 1, 7, 1 << 8, 1 << 16, 1 << 32, 3 << 32, 1<<32 + 1<<16, 1 << 63}

func (s scenario) String() string {
	if s.class == "cross-session-replay" {
		return fmt.Sprintf("%s A{%s net=%d chain=%d} B{%s net=%d chain=%d} recorded data=%dB replayed-to-A=%v",
			s.class, s.kind[0], s.net[0], s.chain[0], s.kind[1], s.net[1], s.chain[1], s.dataLen, s.replayToA)
	}
	return fmt.Sprintf("%s A{%s net=%d chain=%d} B{%s net=%d chain=%d} M{%s} wrong-id-delta=%d legA{eph=%s sig=%s meta=%s} legB{eph=%s sig=%s meta=%s}",
		s.class, s.kind[0], s.net[0], s.chain[0], s.kind[1], s.net[1], s.chain[1], s.kindM, s.delta,
		s.plan[0].eph, s.plan[0].sig, s.plan[0].meta, s.plan[1].eph, s.plan[1].sig, s.plan[1].meta)
}

func drawScenario(rt *rapid.T, rec *ev.Rec) scenario {
	var s scenario
	s.kind = [2]string{drawKind(rt, "kindA"), drawKind(rt, "kindB")}
	s.kindM = drawKind(rt, "kindM")
	s.net, s.chain = [2]uint64{1, 1}, [2]uint64{1, 1}
	if rapid.IntRange(0, 3).Draw(rt, "othernet") == 0 {
		v := rapid.SampledFrom([]uint64{0, 2, 1 << 40}).Draw(rt, "netv")
		s.net = [2]uint64{v, v}
	}
	raw := func(label string) string { return rapid.SampledFrom(rawActs).Draw(rt, label) }
	s.delta = rapid.SampledFrom(idDeltas).Draw(rt, "id-delta")
	switch sel := rapid.IntRange(0, 21).Draw(rt, "class"); {
	case sel >= 20:
		s.class = "cross-session-replay"
		s.replayToA = rapid.Bool().Draw(rt, "replay-to-A")
		s.dataLen = rapid.SampledFrom([]int{1, 36, 1024, 1500}).Draw(rt, "replay-data")
		s.plan = [2]legPlan{{"forward", "rawOther", "rawOther"}, {"forward", "rawOther", "rawOther"}}
	case sel < 2:
		s.class = "honest-relay"
		s.plan = [2]legPlan{{"forward", "rawOther", "rawOther"}, {"forward", "rawOther", "rawOther"}}
	case sel < 4:
		s.class = "wrong-network-or-chain"
		s.plan = [2]legPlan{{"forward", "rawOther", "rawOther"}, {"forward", "rawOther", "rawOther"}}
		switch rapid.IntRange(0, 2).Draw(rt, "which") {
		case 0:
			s.net[1] = s.net[0] + s.delta
		case 1:
			s.chain[1] = s.chain[0] + s.delta
		default:
			s.net[1], s.chain[1] = s.net[0]+s.delta, s.chain[0]+rapid.SampledFrom(idDeltas).Draw(rt, "id-delta2")
		}
	case sel < 7:
		s.class = "relay-tamper"
		s.plan = [2]legPlan{{"forward", raw("sigA"), raw("metaA")}, {"forward", raw("sigB"), raw("metaB")}}
	case sel < 9:
		s.class = "bad-ephemeral"
		for i := 0; i < 2; i++ {
			s.plan[i] = legPlan{"forward", "own", "own"}
		}
		i := rapid.IntRange(0, 1).Draw(rt, "badleg")
		s.plan[i].eph = fmt.Sprintf("bad:%d", rapid.IntRange(0, len(badEphs)-1).Draw(rt, "bad"))
		if rapid.Bool().Draw(rt, "bothbad") {
			s.plan[1-i].eph = fmt.Sprintf("bad:%d", rapid.IntRange(0, len(badEphs)-1).Draw(rt, "bad2"))
		}
	default:
		s.class = "mitm"
		both := rapid.IntRange(0, 3).Draw(rt, "bothlegs") > 0
		first := rapid.IntRange(0, 1).Draw(rt, "ownleg")
		for i := 0; i < 2; i++ {
			if both || i == first {
				s.plan[i] = legPlan{"own", rapid.SampledFrom(sigActsKnown).Draw(rt, "sig"), rapid.SampledFrom(metaActsKnown).Draw(rt, "meta")}
			} else {
				s.plan[i] = legPlan{"forward", raw("sig"), raw("meta")}
			}
		}
		if rapid.IntRange(0, 7).Draw(rt, "netmismatch") == 0 {
			s.chain[1] = s.chain[0] + s.delta
		}
	}
	// known finding: exclude exactly the reflected-signature + reflected-meta combination
	for i := range s.plan {
		if s.plan[i].eph == "own" && s.plan[i].sig == "reflect" && s.plan[i].meta == "reflect" && ev.Open(KFReflection) {
			rec.Exclude(KFReflection)
			s.plan[i].meta = "own"
		}
	}
	return s
}

// ---------------------------------------------------------------- recorded material of earlier sessions

type oldMaterial struct {
	sig  *lib.Signature
	meta *lib.PeerMeta
}

var (
	oldMu    sync.Mutex
	oldCache = map[string]*oldMaterial{}
)

// recorded runs (once per identity/meta) a complete earlier session between the intermediary under
// its own identity and the honest party, and keeps the honest party's signature and signed meta.
func recorded(key crypto.PrivateKeyI, network, chain uint64) (*oldMaterial, error) {
	id := fmt.Sprintf("%x/%d/%d", key.PublicKey().Bytes(), network, chain)
	oldMu.Lock()
	defer oldMu.Unlock()
	if m, ok := oldCache[id]; ok {
		return m, nil
	}
	l := p2psim.NewLink("M", "O")
	res := p2psim.StartHandshake(l.Y, p2psim.Meta(network, chain), key)
	leg := p2psim.NewRawLeg(l.X)
	mk := p2psim.EdKey(99)
	eph := p2psim.EdRaw(99)
	fail := func(err error) (*oldMaterial, error) { _ = l.X.Close(); <-res; return nil, err }
	if k, err := leg.RecvEph(); err != nil {
		return fail(err)
	} else if e := noteEph(k, "O (recording session)"); e != nil {
		return fail(e)
	}
	if err := leg.SendEph(eph.Public().(ed25519.PublicKey)); err != nil {
		return fail(err)
	}
	if err := leg.Derive(eph); err != nil {
		return fail(err)
	}
	sig, err := leg.RecvSig()
	if err != nil {
		return fail(err)
	}
	_ = leg.SendMsg(p2psim.SigMsg(mk.PublicKey().Bytes(), mk.Sign(leg.Challenge[:])))
	meta, err := leg.RecvMeta()
	if err != nil {
		return fail(err)
	}
	_ = leg.SendMsg(p2psim.MetaMsg(p2psim.Meta(network, chain).Sign(mk)))
	r := <-res
	_ = l.X.Close()
	if !r.OK() {
		return nil, fmt.Errorf("recording session failed: %v", r.Err)
	}
	r.EC.Close()
	m := &oldMaterial{sig: sig, meta: meta}
	oldCache[id] = m
	return m, nil
}

// ---------------------------------------------------------------- ephemeral keys are per session

var (
	ephMu   sync.Mutex
	ephSeen = map[string]string{}
)

// noteEph records an ephemeral public key an honest endpoint put on the wire; a key seen before means
// two handshakes shared their half of the key agreement (nothing in a handshake is fresh then).
func noteEph(key []byte, who string) error {
	if len(key) == 0 || os.Getenv("C17_SKIP_EPH_ORACLE") != "" { // the knob exists to test the replay oracle on its own
		return nil
	}
	ephMu.Lock()
	defer ephMu.Unlock()
	if prev, ok := ephSeen[string(key)]; ok {
		return fmt.Errorf("EPHEMERAL-REUSE: the honest endpoint %s sent the ephemeral public key %x that %s already used in an earlier handshake", who, key, prev)
	}
	if len(ephSeen) < 1<<20 {
		ephSeen[string(key)] = who
	}
	return nil
}

// ---------------------------------------------------------------- cross-session replay

// executeReplay: session 1 is an untouched handshake between A and B followed by one data message of
// the victim V (A, or B when replayToA); everything V wrote is recorded off the wire. Session 2: a
// party that holds NO key opens a new connection to the other endpoint R (same identity, same
// process) and writes the recording verbatim. R must not complete the handshake (nobody holding V's
// key signed session 2's challenge), let alone deliver the recorded data.
func (s scenario) executeReplay() (string, error) {
	keys := [2]crypto.PrivateKeyI{p2psim.Key(s.kind[0], 1), p2psim.Key(s.kind[1], 2)}
	name := [2]string{"A", "B"}
	v, r := 0, 1 // victim, replay target
	if s.replayToA {
		v, r = 1, 0
	}
	// session 1
	l := p2psim.NewLink("A", "B")
	conns := [2]*p2psim.Conn{l.X, l.Y}
	wires := [2]*p2psim.Wire{l.XY, l.YX} // wires[i] carries what endpoint i writes
	rc := [2]<-chan p2psim.HSResult{p2psim.StartHandshake(conns[0], p2psim.Meta(s.net[0], s.chain[0]), keys[0]), p2psim.StartHandshake(conns[1], p2psim.Meta(s.net[1], s.chain[1]), keys[1])}
	var res [2]p2psim.HSResult
	timer := time.NewTimer(p2psim.Watchdog)
	defer timer.Stop()
	for i := 0; i < 2; i++ {
		select {
		case res[i] = <-rc[i]:
		case <-timer.C:
			_ = conns[0].Close()
			_ = conns[1].Close()
			return "", p2psim.ErrTimeout
		}
	}
	if !res[0].OK() || !res[1].OK() {
		return "", fmt.Errorf("session 1 (untouched) failed: A=%v B=%v", res[0].Err, res[1].Err)
	}
	data := payload(uint64(s.dataLen)*7919, 5, s.dataLen)
	if n, err := res[v].EC.Write(data); err != nil || n != len(data) {
		return "", fmt.Errorf("harness: session 1 write: (%d,%v)", n, err)
	}
	got := make([]byte, len(data))
	if _, err := io.ReadFull(res[r].EC, got); err != nil || !bytes.Equal(got, data) {
		return "", fmt.Errorf("session 1: data not delivered: %v", err)
	}
	recording := wires[v].Log()
	target1 := wires[r].Log() // what the replay target itself sent in session 1
	_ = res[0].EC.Close()
	_ = res[1].EC.Close()
	for i := 0; i < 2; i++ {
		if body, err := p2psim.ReadLP(bytes.NewReader(wires[i].Log())); err == nil {
			if k, err := p2psim.ParseEph(body); err == nil {
				if e := noteEph(k, name[i]+" (session 1)"); e != nil {
					return e.Error(), nil
				}
			}
		}
	}
	// session 2: the replayer against a new handshake of R
	l2 := p2psim.NewLink("M", name[r])
	rc2 := p2psim.StartHandshake(l2.Y, p2psim.Meta(s.net[r], s.chain[r]), keys[r])
	leg := p2psim.NewRawLeg(l2.X)
	k2, err := leg.RecvEph()
	if err != nil {
		_ = l2.X.Close()
		<-rc2
		return "", fmt.Errorf("session 2: %s sent no ephemeral key: %v", name[r], err)
	}
	reuse := noteEph(k2, name[r]+" (session 2)")
	_ = leg.WriteRaw(recording)
	var r2 p2psim.HSResult
	grace := time.NewTimer(10 * time.Second)
	defer grace.Stop()
	for done := false; !done; {
		select {
		case r2 = <-rc2:
			done = true
		case <-grace.C:
			l2.X.CloseWrite()
		case <-timer.C:
			_ = l2.X.Close()
			return "", p2psim.ErrTimeout
		}
	}
	defer l2.X.Close()
	if r2.Panic != nil {
		return fmt.Sprintf("NewHandshake of %s panicked on a replayed recording: %v", name[r], r2.Panic), nil
	}
	if r2.OK() {
		defer r2.EC.Close()
		l2.X.CloseWrite()
		buf := make([]byte, len(data)+16)
		n, rerr := io.ReadAtLeast(r2.EC, buf, 1)
		msg := fmt.Sprintf("CROSS-SESSION REPLAY: %s completed a handshake with a party that holds no key and only wrote what %s had sent in an EARLIER session; authenticated identity %x (== %s's key: %v)",
			name[r], name[v], r2.EC.Address.PublicKey, name[v], bytes.Equal(r2.EC.Address.PublicKey, keys[v].PublicKey().Bytes()))
		if n > 0 {
			msg += fmt.Sprintf("; and delivered %d bytes of the recorded data message (equal to the old plaintext: %v, read err %v)", n, bytes.Equal(buf[:n], data[:min(n, len(data))]), rerr)
		}
		return msg, nil
	}
	if reuse != nil {
		return reuse.Error(), nil
	}
	// same first encrypted frame in two sessions = same key, nonce and plaintext
	f1, f2 := firstFrame(target1), firstFrame(l2.YX.Log())
	if f1 != nil && f2 != nil && bytes.Equal(f1, f2) {
		return fmt.Sprintf("%s sent the identical first encrypted frame in two sessions (same key and nonce)", name[r]), nil
	}
	return "", nil
}

func firstFrame(log []byte) []byte {
	body, err := p2psim.ReadLP(bytes.NewReader(log))
	if err != nil || len(log) < 4+len(body)+p2psim.FrameSize {
		return nil
	}
	return log[4+len(body) : 4+len(body)+p2psim.FrameSize]
}

// ---------------------------------------------------------------- execution

type legState struct {
	leg         *p2psim.RawLeg
	conn        *p2psim.Conn
	alive       bool
	known       bool
	sig         *lib.Signature // E's signature message (known legs)
	meta        *lib.PeerMeta  // E's meta message (known legs)
	rawSig      []byte         // E's raw signature frame
	rawMeta     []byte         // E's raw meta frame
	signedOwn   bool           // M produced a fresh signature with its own key over this leg's challenge
	altered     bool           // something other than verbatim relay happened on this leg
	closedEarly bool
	did         []string
}

type verdict struct {
	res      [2]p2psim.HSResult
	legs     [2]*legState
	pubs     [2][]byte
	pubM     []byte
	timedOut bool
}

func garbageFrame(b byte) []byte { return bytes.Repeat([]byte{b}, p2psim.FrameSize) }

func (s scenario) execute() (*verdict, error) {
	keys := [2]crypto.PrivateKeyI{p2psim.Key(s.kind[0], 1), p2psim.Key(s.kind[1], 2)}
	keyM := p2psim.Key(s.kindM, 3)
	v := &verdict{pubs: [2][]byte{keys[0].PublicKey().Bytes(), keys[1].PublicKey().Bytes()}, pubM: keyM.PublicKey().Bytes()}
	links := [2]*p2psim.Link{p2psim.NewLink("M", "A"), p2psim.NewLink("M", "B")}
	var resc [2]<-chan p2psim.HSResult
	for i := 0; i < 2; i++ {
		resc[i] = p2psim.StartHandshake(links[i].Y, p2psim.Meta(s.net[i], s.chain[i]), keys[i])
		v.legs[i] = &legState{leg: p2psim.NewRawLeg(links[i].X), conn: links[i].X, alive: true}
	}
	L := v.legs
	kill := func(i int) { L[i].alive = false; _ = L[i].conn.Close() }

	// step 1: ephemeral keys (every honest endpoint sends first, so M can always read before it writes)
	var eph [2][]byte
	for i := 0; i < 2; i++ {
		k, err := L[i].leg.RecvEph()
		if err != nil {
			kill(i)
			continue
		}
		eph[i] = k
		if e := noteEph(k, [2]string{"A", "B"}[i]); e != nil {
			return nil, e
		}
	}
	for i := 0; i < 2; i++ {
		if !L[i].alive {
			continue
		}
		switch p := s.plan[i].eph; {
		case p == "forward":
			if eph[1-i] == nil {
				kill(i)
				continue
			}
			_ = L[i].leg.SendEph(eph[1-i])
		case p == "own":
			priv := p2psim.EdRaw(10 + i)
			_ = L[i].leg.SendEph(priv.Public().(ed25519.PublicKey))
			if err := L[i].leg.Derive(priv); err != nil {
				return nil, fmt.Errorf("harness: deriving leg keys: %v", err)
			}
			L[i].known, L[i].altered = true, true
		case strings.HasPrefix(p, "bad:"):
			var idx int
			fmt.Sscanf(p, "bad:%d", &idx)
			_ = L[i].leg.SendEph(badEphs[idx].key)
			L[i].altered = true
			// every small-order point gives the all-zero X25519 output: if the endpoint went along,
			// anybody could compute the session keys; the intermediary does exactly that
			if len(badEphs[idx].key) == 32 {
				if err := L[i].leg.DeriveFromSecret(make([]byte, 32)); err != nil {
					return nil, fmt.Errorf("harness: %v", err)
				}
				L[i].known = true
			}
		}
	}
	// steps 2 and 3: signature swap, meta swap
	for step := 0; step < 2; step++ {
		// read what each endpoint sent in this step
		for i := 0; i < 2; i++ {
			if !L[i].alive {
				continue
			}
			var err error
			if L[i].known {
				if step == 0 {
					L[i].sig, err = L[i].leg.RecvSig()
				} else {
					L[i].meta, err = L[i].leg.RecvMeta()
				}
				if err == nil && len(L[i].leg.LastRaw) == 1 {
					if step == 0 {
						L[i].rawSig = L[i].leg.LastRaw[0]
					} else {
						L[i].rawMeta = L[i].leg.LastRaw[0]
					}
				}
			} else {
				var f []byte
				f, err = L[i].leg.ReadRawFrame()
				if step == 0 {
					L[i].rawSig = f
				} else {
					L[i].rawMeta = f
				}
			}
			if err != nil {
				kill(i)
			}
		}
		// answer
		for i := 0; i < 2; i++ {
			if !L[i].alive {
				continue
			}
			o := 1 - i
			act := s.plan[i].sig
			if step == 1 {
				act = s.plan[i].meta
			}
			if !L[i].known && !(act == "rawOther" || act == "rawEcho" || act == "garbage" || act == "rawOtherPrevStep") {
				act = "garbage"
			}
			rawOf := func(j, st int) []byte {
				if st == 0 {
					return L[j].rawSig
				}
				return L[j].rawMeta
			}
			sendRaw := func(f []byte, verbatimRelay bool) {
				if f == nil {
					f = garbageFrame(0x5a)
					verbatimRelay = false
					act += "(unavailable->garbage)"
				}
				if !verbatimRelay {
					L[i].altered = true
				}
				_ = L[i].leg.WriteRaw(f)
			}
			switch act {
			case "rawOther":
				sendRaw(rawOf(o, step), !L[i].known && !L[o].known)
			case "rawOtherPrevStep":
				sendRaw(rawOf(o, 0), false)
			case "rawEcho":
				sendRaw(rawOf(i, step), false)
			case "garbage":
				sendRaw(garbageFrame(0xa5), false)
			default:
				L[i].altered = true
				ch := L[i].leg.Challenge[:]
				var body []byte
				if step == 0 {
					// material of the other honest endpoint
					var oSig *lib.Signature
					if L[o].sig != nil {
						oSig = L[o].sig
					}
					needOld := act == "claimO-oldSig" || ((act == "claimO-relayedSig" || act == "ownPub-sigOfO") && oSig == nil)
					if needOld {
						m, err := recorded(keys[o], s.net[o], s.chain[o])
						if err != nil {
							return nil, fmt.Errorf("harness: %v", err)
						}
						oSig = m.sig
						if act != "claimO-oldSig" {
							act += "(old)"
						}
					}
					switch strings.TrimSuffix(act, "(old)") {
					case "own":
						body = p2psim.SigMsg(v.pubM, keyM.Sign(ch))
						L[i].signedOwn = true
					case "claimO-sigByM":
						body = p2psim.SigMsg(v.pubs[o], keyM.Sign(ch))
					case "claimO-relayedSig", "claimO-oldSig":
						body = p2psim.SigMsg(v.pubs[o], oSig.Signature)
					case "claimO-zeroSig":
						body = p2psim.SigMsg(v.pubs[o], make([]byte, len(keys[o].Sign(ch))))
					case "ownPub-sigOfO":
						body = p2psim.SigMsg(v.pubM, oSig.Signature)
					case "reflect":
						body = p2psim.SigMsg(L[i].sig.PublicKey, L[i].sig.Signature)
					default:
						return nil, fmt.Errorf("harness: unknown sig action %q", act)
					}
				} else {
					switch act {
					case "own":
						body = p2psim.MetaMsg(p2psim.Meta(s.net[i], s.chain[i]).Sign(keyM))
					case "own-wrongnet":
						body = p2psim.MetaMsg(p2psim.Meta(s.net[i]+s.delta, s.chain[i]).Sign(keyM))
					case "own-wrongchain":
						body = p2psim.MetaMsg(p2psim.Meta(s.net[i], s.chain[i]+s.delta).Sign(keyM))
					case "signedByO":
						om := L[o].meta
						if om == nil {
							m, err := recorded(keys[o], s.net[o], s.chain[o])
							if err != nil {
								return nil, fmt.Errorf("harness: %v", err)
							}
							om = m.meta
							act += "(old)"
						}
						body = p2psim.MetaMsg(om)
					case "reflect":
						body = p2psim.MetaMsg(L[i].meta)
					case "unsigned":
						body = p2psim.MetaMsg(p2psim.Meta(s.net[i], s.chain[i]))
					default:
						return nil, fmt.Errorf("harness: unknown meta action %q", act)
					}
				}
				_ = L[i].leg.SendMsg(body)
			}
			L[i].did = append(L[i].did, act)
		}
	}
	// every endpoint that is still alive has now received an answer for each step and returns on its
	// own; if one does not within a grace period, end its input stream (it then fails causally)
	grace := time.NewTimer(10 * time.Second)
	defer grace.Stop()
	timer := time.NewTimer(p2psim.Watchdog)
	defer timer.Stop()
	for i := 0; i < 2; i++ {
		for got := false; !got; {
			select {
			case v.res[i] = <-resc[i]:
				got = true
			case <-grace.C:
				for j := 0; j < 2; j++ {
					L[j].conn.CloseWrite()
					L[j].closedEarly = true
				}
			case <-timer.C:
				v.timedOut = true
				for j := 0; j < 2; j++ {
					_ = L[j].conn.Close()
				}
				return v, nil
			}
		}
	}
	return v, nil
}

func (v *verdict) cleanup() {
	for i := 0; i < 2; i++ {
		if v.res[i].EC != nil {
			_ = v.res[i].EC.Close()
		}
		_ = v.legs[i].conn.Close()
	}
}

// TestC17Handshake: (iii) handshake transcripts an active attacker can produce from two honest
// endpoints that both run the real NewHandshake.
func TestC17Handshake(t *testing.T) {
	rec := ev.New(t, "C17")
	rapid.Check(t, func(rt *rapid.T) {
		c := rec.Case()
		s := drawScenario(rt, rec)
		c.Desc("%s", s)
		c.Class("class=" + s.class)
		if s.class == "cross-session-replay" {
			viol, err := s.executeReplay()
			if errors.Is(err, p2psim.ErrTimeout) {
				inconclusive(rt, rec, "handshake-watchdog")
			}
			if err != nil {
				rt.Fatalf("%s: %v", s, err)
			}
			if viol != "" {
				rt.Fatalf("%s: %s", s, viol)
			}
			c.Done(true)
			return
		}
		v, err := s.execute()
		if err != nil {
			rt.Fatalf("%s: %v", s, err)
		}
		defer v.cleanup()
		if v.timedOut {
			inconclusive(rt, rec, "handshake-watchdog")
		}
		name := [2]string{"A", "B"}
		altered := false
		for i := 0; i < 2; i++ {
			E, O, r, L := name[i], name[1-i], v.res[i], v.legs[i]
			altered = altered || L.altered
			if r.Panic != nil {
				rt.Fatalf("%s: NewHandshake of %s panicked: %v", s, E, r.Panic)
			}
			c.Class(fmt.Sprintf("leg%s:eph=%s", E, strings.SplitN(s.plan[i].eph, ":", 2)[0]))
			if s.plan[i].eph == "own" {
				c.Class("knownleg:sig=" + s.plan[i].sig)
				c.Class("knownleg:meta=" + s.plan[i].meta)
			}
			if !r.OK() {
				c.Class("endpoint-rejected")
				continue
			}
			c.Class("endpoint-accepted")
			acc := r.EC.Address
			// network / chain must match the endpoint's own
			if acc.PeerMeta == nil || acc.PeerMeta.NetworkId != s.net[i] || acc.PeerMeta.ChainId != s.chain[i] {
				rt.Fatalf("%s: %s (net=%d chain=%d) accepted a peer with meta %v", s, E, s.net[i], s.chain[i], acc.PeerMeta)
			}
			// hostile ephemeral key must have been refused
			if strings.HasPrefix(s.plan[i].eph, "bad:") {
				var idx int
				fmt.Sscanf(s.plan[i].eph, "bad:%d", &idx)
				rt.Fatalf("%s: %s completed a handshake although the peer's ephemeral key was %s (%x)", s, E, badEphs[idx].name, badEphs[idx].key)
			}
			// MITM oracle
			if L.known && bytes.Equal(acc.PublicKey, v.pubs[1-i]) {
				rt.Fatalf("MITM: %s: the harness holds the session keys of %s's leg, yet %s accepted the session as coming from %s's identity %x (actions %v)",
					s, E, E, O, acc.PublicKey, L.did)
			}
			// proof of possession: who produced a signature over THIS leg's challenge with a key they hold?
			var provers [][]byte
			if L.known {
				if L.signedOwn {
					provers = append(provers, v.pubM)
				}
			} else {
				provers = append(provers, v.pubs[1-i]) // end-to-end leg: only O can have signed
			}
			ok := false
			for _, p := range provers {
				ok = ok || bytes.Equal(p, acc.PublicKey)
			}
			if !ok {
				rt.Fatalf("POSSESSION: %s: %s accepted identity %x, but nobody holding that identity's private key signed this session's challenge on %s's leg (M's actions there: %v; M=%x %s=%x %s=%x)",
					s, E, acc.PublicKey, E, L.did, v.pubM, E, v.pubs[i], O, v.pubs[1-i])
			}
			// the harness really knows the keys: exchange data with the endpoint through the raw leg
			if L.known && !L.closedEarly {
				c.Class("accepted-on-known-leg")
				msg := []byte("data from the intermediary, " + s.kindM)
				if err := L.leg.SendBytes(msg); err != nil {
					rt.Fatalf("harness: %v", err)
				}
				got := make([]byte, len(msg))
				if _, err := io.ReadFull(r.EC, got); err != nil || !bytes.Equal(got, msg) {
					rt.Fatalf("harness: endpoint %s could not read the raw leg's frames (%v): the harness does not hold its session keys", E, err)
				}
				// the closing write side of M does not prevent reading what E writes
				if n, err := r.EC.Write(msg); err != nil || n != len(msg) {
					rt.Fatalf("harness: endpoint write: %v", err)
				}
				if back, err := L.leg.RecvBytes(len(msg)); err != nil || !bytes.Equal(back, msg) {
					rt.Fatalf("harness: raw leg could not read endpoint %s's frames (%v)", E, err)
				}
			}
		}
		// functional expectations (harness self-check / honest path)
		for i := 0; i < 2; i++ {
			p := s.plan[i]
			if p.eph == "own" && p.sig == "own" && p.meta == "own" && !v.res[i].OK() {
				rt.Fatalf("%s: %s refused an intermediary that honestly presented its own identity: %v", s, name[i], v.res[i].Err)
			}
		}
		switch s.class {
		case "honest-relay":
			for i := 0; i < 2; i++ {
				if !v.res[i].OK() {
					rt.Fatalf("%s: honest endpoints over a verbatim relay: %s failed: %v", s, name[i], v.res[i].Err)
				}
				if !bytes.Equal(v.res[i].EC.Address.PublicKey, v.pubs[1-i]) {
					rt.Fatalf("%s: %s authenticated %x instead of the peer", s, name[i], v.res[i].EC.Address.PublicKey)
				}
			}
		case "wrong-network-or-chain":
			for i := 0; i < 2; i++ {
				if v.res[i].OK() {
					rt.Fatalf("%s: %s accepted a peer of another network/chain", s, name[i])
				}
			}
		}
		c.ClassIf(v.res[0].OK() && v.res[1].OK(), "both-accepted")
		c.Done(altered)
	})
}
