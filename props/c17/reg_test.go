package c17

import (
	"bytes"
	"crypto/ed25519"
	"testing"

	"verif/h/p2psim"
)

// TestC17Reg_Reflection reproduces known finding KF-C17-reflection minimally (it FAILS while the
// defect exists): a peer that holds NO identity key at all completes a handshake with endpoint B by
// sending B's own signature and signed meta back to it. Both sides of NewHandshake sign the same
// role-less challenge, and nothing rejects the local identity as the remote one, so
// NewHandshake returns a connection whose authenticated Address.PublicKey is B's own key.
func TestC17Reg_Reflection(t *testing.T) {
	for _, kind := range p2psim.KeyKinds {
		keyB := p2psim.Key(kind, 2)
		l := p2psim.NewLink("M", "B")
		res := p2psim.StartHandshake(l.Y, p2psim.Meta(1, 1), keyB)
		leg := p2psim.NewRawLeg(l.X)
		eph := p2psim.EdRaw(7)
		step := func(err error) {
			if err != nil {
				_ = l.X.Close()
				r := <-res
				t.Fatalf("%s: harness step failed: %v (endpoint: %v)", kind, err, r.Err)
			}
		}
		_, err := leg.RecvEph()
		step(err)
		step(leg.SendEph(eph.Public().(ed25519.PublicKey))) // the attacker's own ephemeral key
		step(leg.Derive(eph))
		sig, err := leg.RecvSig() // B's (public key, signature over the session challenge)
		step(err)
		step(leg.SendMsg(p2psim.SigMsg(sig.PublicKey, sig.Signature))) // ... sent straight back
		meta, err := leg.RecvMeta()
		step(err)
		step(leg.SendMsg(p2psim.MetaMsg(meta)))
		r := <-res
		_ = l.X.Close()
		if r.OK() {
			same := bytes.Equal(r.EC.Address.PublicKey, keyB.PublicKey().Bytes())
			_ = r.EC.Close()
			t.Errorf("%s: NewHandshake succeeded with a peer that holds no identity key; authenticated peer identity %x (== the endpoint's own identity: %v)",
				kind, r.EC.Address.PublicKey, same)
		}
	}
}
