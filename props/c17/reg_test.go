package c17

import (
	"bytes"
	"crypto/ed25519"
	"testing"

	"verif/h/p2psim"
)

// TestC17Reg_Reflection reproduces known finding KF-C17-reflection minimally (it FAILS while the
// defect exists): a peer that holds NO identity key at all completes a handshake with endpoint B by
// sending B's own signature and signed meta back to it. Both sides of NewHandshake sign the same
// role-less challenge, and nothing rejects the local identity as the remote one, so
// NewHandshake returns a connection whose authenticated Address.PublicKey is B's own key.
func TestC17Reg_Reflection(t *testing.T) {
	for _, kind := range p2psim.KeyKinds {
		keyB := p2psim.Key(kind, 2)
		l := p2psim.NewLink("M", "B")
		res := p2psim.StartHandshake(l.Y, p2psim.Meta(1, 1), keyB)
		leg := p2psim.NewRawLeg(l.X)
		eph := p2psim.EdRaw(7)
		// the attack script; it stops at the first step the endpoint no longer answers (= it refused)
		script := func() error {
			if _, err := leg.RecvEph(); err != nil {
				return err
			}
			if err := leg.SendEph(eph.Public().(ed25519.PublicKey)); err != nil { // the attacker's own ephemeral key
				return err
			}
			if err := leg.Derive(eph); err != nil {
				return err
			}
			sig, err := leg.RecvSig() // B's (public key, signature over the session challenge)
			if err != nil {
				return err
			}
			if err := leg.SendMsg(p2psim.SigMsg(sig.PublicKey, sig.Signature)); err != nil { // ... sent straight back
				return err
			}
			meta, err := leg.RecvMeta()
			if err != nil {
				return err
			}
			return leg.SendMsg(p2psim.MetaMsg(meta))
		}
		serr := script()
		l.X.CloseWrite()
		r := <-res
		_ = l.X.Close()
		if r.OK() {
			same := bytes.Equal(r.EC.Address.PublicKey, keyB.PublicKey().Bytes())
			_ = r.EC.Close()
			t.Errorf("%s: NewHandshake succeeded with a peer that holds no identity key; authenticated peer identity %x (== the endpoint's own identity: %v)",
				kind, r.EC.Address.PublicKey, same)
			continue
		}
		t.Logf("%s: endpoint refused the reflected identity: %v (script: %v)", kind, r.Err, serr)
	}
}
