// Package c17 decides property C17: the encrypted transport delivers exactly the bytes written,
// turns every ciphertext manipulation into a read error, and authenticates the peer identity so
// that an intermediary substituting keys cannot impersonate the other endpoint.
package c17

import (
	"bytes"
	"errors"
	"fmt"
	"io"
	"math/rand/v2"
	"testing"
	"time"

	"pgregory.net/rapid"

	"verif/h/ev"
	"verif/h/p2psim"
)

var (
	sizeSet = []int{0, 1, 1023, 1024, 1025, 2047, 2048, 2049, 5000}
	// sizes whose last chunk is one byte off a read-buffer size (buffer/chunk boundary)
	nearBuf = []int{2, 6, 8, 699, 701, 1024 + 2, 1024 + 8, 1024 + 699, 1024 + 701, 2048 + 701, 4095, 4097}
	rbSet   = []int{1, 7, 700, 1024, 4096}
)

// payload is a deterministic byte string of length n derived from a drawn seed.
func payload(seed uint64, stream uint64, n int) []byte {
	r := rand.New(rand.NewPCG(seed, stream))
	b := make([]byte, n)
	for i := 0; i+8 <= n; i += 8 {
		v := r.Uint64()
		for j := 0; j < 8; j++ {
			b[i+j] = byte(v >> (8 * j))
		}
	}
	for i := n &^ 7; i < n; i++ {
		b[i] = byte(r.Uint32())
	}
	return b
}

func drawSize(rt *rapid.T, label string) int {
	switch rapid.IntRange(0, 9).Draw(rt, label+"_sel") {
	case 0, 1, 2, 3, 4:
		return rapid.SampledFrom(sizeSet).Draw(rt, label)
	case 5:
		return rapid.IntRange(1018, 1030).Draw(rt, label)
	case 6:
		return rapid.SampledFrom(nearBuf).Draw(rt, label)
	case 7:
		return 1024 * rapid.IntRange(1, 5).Draw(rt, label)
	default:
		return rapid.IntRange(0, 6000).Draw(rt, label)
	}
}

func drawKind(rt *rapid.T, label string) string {
	// ed25519 is cheap; BLS is what production nodes use
	return rapid.SampledFrom([]string{"ed25519", "ed25519", "ed25519", "bls", "secp256k1", "ethsecp256k1"}).Draw(rt, label)
}

// inconclusive marks a case whose liveness wait expired: never a violation, never a silent pass.
func inconclusive(rt *rapid.T, rec *ev.Rec, why string) {
	rec.Note("inconclusive_last", why)
	n := inconcN.Hit(why, func() { rec.Note("inconclusive_bailout", why); rec.Write() })
	rec.Note("inconclusive_cases", fmt.Sprint(n))
	rt.Skip("INCONCLUSIVE: " + why)
}

var inconcN p2psim.Inconclusive

// TestC17Stream: (i) stream integrity. A generated interleaving of writes (both directions) and
// reads with generated buffer sizes over a session established by the real NewHandshake; every
// Read must return exactly the next bytes written in that direction, and after the writer closes
// the reader sees EOF with nothing extra.
func TestC17Stream(t *testing.T) {
	rec := ev.New(t, "C17")
	rapid.Check(t, func(rt *rapid.T) {
		c := rec.Case()
		kindA, kindB := drawKind(rt, "kindA"), drawKind(rt, "kindB")
		dseed := rapid.Uint64().Draw(rt, "dataseed")
		s, ra, rb, err := p2psim.Establish(p2psim.Key(kindA, 1), p2psim.Key(kindB, 2), p2psim.Meta(1, 1), p2psim.Meta(1, 1))
		if errors.Is(err, p2psim.ErrTimeout) {
			inconclusive(rt, rec, "handshake-watchdog")
		}
		if err != nil {
			rt.Fatalf("honest handshake (%s,%s) failed: %v", kindA, kindB, err)
		}
		defer s.Close()
		if !bytes.Equal(ra.EC.Address.PublicKey, p2psim.Key(kindB, 2).PublicKey().Bytes()) ||
			!bytes.Equal(rb.EC.Address.PublicKey, p2psim.Key(kindA, 1).PublicKey().Bytes()) {
			rt.Fatalf("honest handshake authenticated the wrong identity")
		}
		c.Desc("keys=%s/%s", kindA, kindB)
		c.Class("keys=" + kindA + "/" + kindB)

		// sequential phase: every write completes before the next read, so a read that would block
		// means bytes were lost (strict wires turn that into an error instead of a hang)
		s.L.XY.SetStrict(true)
		s.L.YX.SetStrict(true)
		conn := [2]io.ReadWriter{s.A, s.B} // writer of direction d is conn[d], reader is conn[1-d]
		var pending [2][]byte              // written, not yet read, per direction
		var wrote [2]int
		var crossing, smallBufOnBig bool
		usedDir := [2]bool{}
		nops := rapid.IntRange(1, 14).Draw(rt, "nops")
		wcount := 0
		readSome := func(d int, rb int, maxCalls int) {
			buf := make([]byte, rb)
			for k := 0; k < maxCalls && len(pending[d]) > 0; k++ {
				n, err := conn[1-d].Read(buf)
				if err != nil {
					rt.Fatalf("dir %d: Read error %v with %d bytes pending", d, err, len(pending[d]))
				}
				if n <= 0 || n > len(pending[d]) {
					rt.Fatalf("dir %d: Read returned n=%d with %d bytes pending (buffer %d)", d, n, len(pending[d]), rb)
				}
				if !bytes.Equal(buf[:n], pending[d][:n]) {
					rt.Fatalf("dir %d: Read delivered bytes that differ from what was written at stream offset %d (n=%d, buffer %d)",
						d, wrote[d]-len(pending[d]), n, rb)
				}
				pending[d] = pending[d][n:]
			}
		}
		for i := 0; i < nops; i++ {
			d := rapid.IntRange(0, 1).Draw(rt, "dir")
			if rapid.IntRange(0, 2).Draw(rt, "op") < 2 { // write
				sz := drawSize(rt, "size")
				data := payload(dseed, uint64(wcount), sz)
				wcount++
				n, err := conn[d].Write(data)
				if err != nil || n != sz {
					rt.Fatalf("dir %d: Write(%d bytes) = (%d, %v)", d, sz, n, err)
				}
				pending[d] = append(pending[d], data...)
				wrote[d] += sz
				usedDir[d] = true
				crossing = crossing || sz > 1024
				c.Desc("w%d:%d", d, sz)
			} else { // read a few times
				rb := rapid.SampledFrom(rbSet).Draw(rt, "rb")
				calls := rapid.IntRange(1, 6).Draw(rt, "calls")
				if len(pending[d]) > 1024 && rb < 1024 {
					smallBufOnBig = true
				}
				readSome(d, rb, calls)
				c.Desc("r%d:%dx%d", d, rb, calls)
			}
		}
		// drain both directions with generated buffer sizes
		for d := 0; d < 2; d++ {
			rb := rapid.SampledFrom(rbSet).Draw(rt, "drain_rb")
			if len(pending[d]) > 1024 && rb < 1024 {
				smallBufOnBig = true
			}
			c.Desc("drain%d:%d", d, rb)
			c.Class(fmt.Sprintf("rb=%d", rb))
			readSome(d, rb, 1<<30)
		}
		// optional full-duplex phase: both sides write and read concurrently
		if rapid.IntRange(0, 3).Draw(rt, "duplex") == 0 {
			szs := [2]int{drawSize(rt, "dsize0") + 3000, drawSize(rt, "dsize1") + 3000}
			rb := rapid.SampledFrom(rbSet[1:]).Draw(rt, "duplex_rb")
			c.Desc("duplex:%d/%d rb=%d", szs[0], szs[1], rb)
			c.Class("duplex")
			s.L.XY.SetStrict(false)
			s.L.YX.SetStrict(false)
			errc := make(chan error, 4)
			for d := 0; d < 2; d++ {
				data := payload(dseed, uint64(1000+d), szs[d])
				go func(d int) {
					n, err := conn[d].Write(data)
					if err != nil || n != len(data) {
						errc <- fmt.Errorf("duplex dir %d: Write = (%d,%v)", d, n, err)
						return
					}
					errc <- nil
				}(d)
				go func(d int) {
					got := make([]byte, 0, len(data))
					buf := make([]byte, rb)
					for len(got) < len(data) {
						n, err := conn[1-d].Read(buf)
						if err != nil {
							errc <- fmt.Errorf("duplex dir %d: Read error %v after %d bytes", d, err, len(got))
							return
						}
						got = append(got, buf[:n]...)
					}
					if !bytes.Equal(got, data) {
						errc <- fmt.Errorf("duplex dir %d: bytes read differ from bytes written", d)
						return
					}
					errc <- nil
				}(d)
			}
			timer := time.NewTimer(p2psim.Watchdog)
			for k := 0; k < 4; k++ {
				select {
				case e := <-errc:
					if e != nil {
						timer.Stop()
						rt.Fatalf("%v", e)
					}
				case <-timer.C:
					inconclusive(rt, rec, "duplex-watchdog")
				}
			}
			timer.Stop()
			usedDir = [2]bool{true, true}
			crossing = true
		}
		// close A: B must see EOF and nothing else
		_ = s.A.Close()
		buf := make([]byte, 64)
		if n, err := s.B.Read(buf); n != 0 || err == nil {
			rt.Fatalf("after close: Read = (%d, %v), want (0, EOF)", n, err)
		}
		c.ClassIf(crossing, "write>frame")
		c.ClassIf(smallBufOnBig, "smallbuf-on-multiframe")
		c.ClassIf(usedDir[0] && usedDir[1], "both-directions")
		c.Done(crossing && smallBufOnBig && usedDir[0] && usedDir[1])
	})
}
