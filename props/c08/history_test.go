package c08

import (
	"bytes"
	"fmt"
	"testing"

	"github.com/canopy-network/canopy/lib"
	"github.com/canopy-network/canopy/store"
	"github.com/cockroachdb/pebble/v2/vfs"
	"pgregory.net/rapid"

	"verif/h/ev"
	sm "verif/h/storemodel"
)

// TestC08History: the root is a function of the STATE, whatever the history - here the histories the short cases of
// TestC08Store do not reach: tall ones (the version counter crosses 255 -> 256 -> 257: multi-byte version suffixes of the
// tree nodes), and rolled-back ones (Rollback(h), then the chain continues from h - first with an empty block or with
// writes; through close/re-open as cmd/cli does it, or on the same Store instance).
//
// Oracle after every commit: Commit() == recorded commit id == canonical commitment of the model set; at the end the
// persisted tree equals the canonical tree and a fresh store that receives the final set in one batch has the same root.
func TestC08History(t *testing.T) {
	rec := ev.New(t, "C08")
	rapid.Check(t, func(t *rapid.T) {
		ec := rec.Case()
		c := newCase(t)
		fs := vfs.NewMem()
		cfg := lib.DefaultConfig()
		cfg.StoreConfig.LSSCompactionInterval = 0 // no background compaction goroutine
		open := func() *store.Store {
			s, err := store.VerifOpenWithFS(fs, "db", 0, cfg, lib.NewNullLogger())
			if err != nil {
				t.Fatalf("open: %v", err)
			}
			return s
		}
		s := open()
		defer func() { s.Close() }()
		hist := map[uint64]map[string][]byte{0: {}} // version -> committed set
		commit := func(ops []op, what string) {
			pending := cloneMap(c.model)
			for _, o := range ops {
				if o.del {
					delete(pending, string(o.k))
				} else {
					pending[string(o.k)] = o.v
				}
			}
			apply(t, s, ops)
			want := sm.Root(pending)
			r, err := s.Commit()
			if err != nil {
				t.Fatalf("%s: Commit(): %v", what, err)
			}
			v := s.Version()
			if !bytes.Equal(r, want) {
				t.Fatalf("%s: Commit() of version %d returned root %x, the canonical commitment of the %d-entry state is %x", what, v, r, len(pending), want)
			}
			id, err := s.VerifCommitID(v)
			if err != nil {
				t.Fatalf("%s: commit id of version %d: %v", what, v, err)
			}
			if !bytes.Equal(id.Root, want) {
				t.Fatalf("%s: the commit id of version %d records root %x, the canonical commitment of the state is %x", what, v, id.Root, want)
			}
			c.model = pending
			hist[v] = cloneMap(pending)
		}
		smallBatch := func(maxOps int) []op {
			n := rapid.IntRange(0, maxOps).Draw(t, "n")
			var ops []op
			for i := 0; i < n; i++ {
				k := c.drawKey(t)
				if rapid.IntRange(0, 3).Draw(t, "del") == 0 {
					ops = append(ops, op{k: k, del: true})
				} else {
					ops = append(ops, op{k: k, v: []byte(fmt.Sprintf("v%d", rapid.IntRange(0, 1<<20).Draw(t, "val")))})
				}
			}
			return ops
		}
		mode := rapid.SampledFrom([]string{"tall", "rollback-cli", "rollback-cli", "rollback-live", "rollback-live"}).Draw(t, "mode")
		ec.Class("mode=" + mode)
		nontrivial := false
		switch mode {
		case "tall":
			// a first real batch, then short blocks (0-2 operations, so the top of the tree is rewritten at almost every version) up
			// to a version a little above 256; overwrites and deletes of the early keys happen on both sides of the boundary
			ops, _, _, _ := c.drawBatch(t, cloneMap(c.model))
			commit(ops, "tall/first")
			top := uint64(rapid.IntRange(257, 275).Draw(t, "top"))
			for s.Version() < top {
				commit(smallBatch(2), "tall")
			}
			ops, _, _, _ = c.drawBatch(t, cloneMap(c.model))
			commit(ops, "tall/last")
			commit(smallBatch(2), "tall/after")
			ec.Desc("tall:top=%d:n=%d", top, len(c.model))
			nontrivial = true
		default:
			blocks := rapid.IntRange(2, 6).Draw(t, "blocks")
			for b := 0; b < blocks; b++ {
				ops, _, _, _ := c.drawBatch(t, cloneMap(c.model))
				commit(ops, "before rollback")
			}
			target := uint64(rapid.IntRange(1, int(s.Version())-1).Draw(t, "target"))
			if mode == "rollback-cli" {
				// stop the node, open, Rollback, close; start again
				s.Close()
				s = open()
				if err := s.Rollback(target); err != nil {
					t.Fatalf("Rollback(%d): %v", target, err)
				}
				s.Close()
				s = open()
			} else {
				// same Store instance keeps going (Rollback leaves it usable on the tree this check was written against; if an
				// implementation refuses to, that is not a C08 matter: the case ends there)
				if err := s.Rollback(target); err != nil {
					ec.Class("rollback-live-refused")
					ec.Done(false)
					return
				}
			}
			if s.Version() != target {
				t.Fatalf("after Rollback(%d) the store is at version %d", target, s.Version())
			}
			for v := range hist {
				if v > target {
					delete(hist, v)
				}
			}
			c.model = cloneMap(hist[target])
			firstEmpty := rapid.Bool().Draw(t, "firstEmpty")
			ec.ClassIf(firstEmpty, "empty-block-right-after-rollback")
			after := rapid.IntRange(1, 3).Draw(t, "after")
			for b := 0; b < after; b++ {
				var ops []op
				if !(b == 0 && firstEmpty) {
					ops, _, _, _ = c.drawBatch(t, cloneMap(c.model))
				}
				if mode == "rollback-live" {
					// a store that cannot continue after a live rollback ends the case; a store that continues must commit to its state
					apply(t, s, ops)
					pending := cloneMap(c.model)
					for _, o := range ops {
						if o.del {
							delete(pending, string(o.k))
						} else {
							pending[string(o.k)] = o.v
						}
					}
					r, err := s.Commit()
					if err != nil {
						ec.Class("rollback-live-refused")
						ec.Done(false)
						return
					}
					if want := sm.Root(pending); !bytes.Equal(r, want) {
						t.Fatalf("after Rollback(%d) on the live store: Commit() of version %d returned root %x, the canonical commitment of the %d-entry state is %x (block %d after the rollback, %d operations)", target, s.Version(), r, len(pending), want, b, len(ops))
					}
					if id, err := s.VerifCommitID(s.Version()); err != nil || !bytes.Equal(id.Root, r) {
						t.Fatalf("after Rollback(%d) on the live store: commit id of version %d records %x (err %v), Commit() returned %x", target, s.Version(), id.Root, err, r)
					}
					c.model = pending
					hist[s.Version()] = cloneMap(pending)
				} else {
					commit(ops, fmt.Sprintf("block %d after Rollback(%d)", b, target))
				}
			}
			ec.Desc("%s:target=%d:firstEmpty=%v:after=%d:n=%d", mode, target, firstEmpty, after, len(c.model))
			nontrivial = true
		}
		if err := compareState(s, c.model); err != nil {
			t.Fatalf("%s: served state differs from the set its root commits to: %v", mode, err)
		}
		if err := compareTree(s, c.model); err != nil {
			t.Fatalf("%s: persisted tree differs from canonical tree: %v", mode, err)
		}
		// history independence: a fresh store that receives the final set in one batch
		s2 := openStore(t)
		defer s2.Close()
		for k, v := range c.model {
			s2.Set([]byte(k), bytes.Clone(v))
		}
		r2, err := s2.Commit()
		if err != nil {
			t.Fatalf("fresh store commit: %v", err)
		}
		if want := sm.Root(c.model); !bytes.Equal(r2, want) {
			t.Fatalf("fresh store root %x, canonical %x", r2, want)
		}
		ec.Done(nontrivial)
	})
}
