// Package c08 decides property C08: the committed state root is a pure function of the key/value set
// and equals the canonical sparse-Merkle commitment of that set.
package c08

import (
	"bytes"
	"fmt"
	"hash/fnv"
	"sort"
	"testing"

	"github.com/canopy-network/canopy/lib"
	"github.com/canopy-network/canopy/store"
	"pgregory.net/rapid"

	"verif/h/ev"
	sm "verif/h/storemodel"
)

func openStore(t interface{ Fatalf(string, ...any) }) *store.Store {
	s, err := store.NewStoreInMemory(lib.NewNullLogger())
	if err != nil {
		t.Fatalf("open: %v", err)
	}
	return s.(*store.Store)
}

// op is one generated state operation.
type op struct {
	k, v []byte
	del  bool
}

// treeNodes reads every persisted node of the state-commitment tree as of the latest committed version.
func treeNodes(s *store.Store) (map[string]*lib.Node, error) {
	vs := store.NewVersionedStore(s.DB().NewSnapshot(), nil, ^uint64(0))
	tx := store.NewTxn(vs, nil, store.VerifTreePrefix(), false, false, true)
	defer tx.Close()
	it, err := tx.Iterator(nil)
	if err != nil {
		return nil, err
	}
	defer it.Close()
	out := map[string]*lib.Node{}
	for ; it.Valid(); it.Next() {
		segs := lib.DecodeLengthPrefixed(it.Key())
		if len(segs) != 1 {
			return nil, fmt.Errorf("unexpected key shape %x", it.Key())
		}
		k := segs[0]
		if k[len(k)-1] > 7 { // commit ids share the prefix; their last byte is an ASCII digit, a node key's is a padding count <= 7
			continue
		}
		n := new(lib.Node)
		if e := lib.Unmarshal(it.Value(), n); e != nil {
			return nil, e
		}
		out[string(k)] = n
	}
	return out, nil
}

// compareTree checks that the persisted tree is exactly the canonical tree: same node keys, values and child links,
// hence no orphan node, no leftover synthetic border node, every inner node has two children and is their common prefix.
func compareTree(s *store.Store, model map[string][]byte) error {
	got, err := treeNodes(s)
	if err != nil {
		return err
	}
	ref := sm.BuildTree(model, 160)
	want := map[string]*sm.RefNode{}
	// the root is stored under the fixed root key, not under its (empty) path
	rootKey := sm.EncodeKey(sm.BitsOf(store.RootKey, 160))
	ref.Walk(func(n *sm.RefNode) {
		if n == ref {
			want[string(rootKey)] = n
			return
		}
		want[string(n.Key)] = n
	})
	if len(got) != len(want) {
		var extra, missing []string
		for k := range got {
			if _, ok := want[k]; !ok {
				extra = append(extra, fmt.Sprintf("%x", k))
			}
		}
		for k := range want {
			if _, ok := got[k]; !ok {
				missing = append(missing, fmt.Sprintf("%x", k))
			}
		}
		sort.Strings(extra)
		sort.Strings(missing)
		return fmt.Errorf("persisted tree has %d nodes, canonical tree %d; extra=%v missing=%v", len(got), len(want), extra, missing)
	}
	for k, w := range want {
		g, ok := got[k]
		if !ok {
			return fmt.Errorf("node %x missing from persisted tree", k)
		}
		if !bytes.Equal(g.Value, w.Value) {
			return fmt.Errorf("node %x value %x, canonical %x", k, g.Value, w.Value)
		}
		if w.Left != nil && (!bytes.Equal(g.LeftChildKey, w.Left.Key) || !bytes.Equal(g.RightChildKey, w.Right.Key)) {
			return fmt.Errorf("node %x children (%x,%x), canonical (%x,%x)", k, g.LeftChildKey, g.RightChildKey, w.Left.Key, w.Right.Key)
		}
		if w.Left == nil && (len(g.LeftChildKey) != 0 || len(g.RightChildKey) != 0) {
			return fmt.Errorf("leaf %x has children", k)
		}
	}
	return nil
}

// compareState scans the whole latest state and compares it with the model.
func compareState(s *store.Store, model map[string][]byte) error {
	it, err := s.Iterator(nil)
	if err != nil {
		return err
	}
	defer it.Close()
	n := 0
	for ; it.Valid(); it.Next() {
		want, ok := model[string(it.Key())]
		if !ok {
			return fmt.Errorf("key %x is served (value %x) but is not in the committed set", it.Key(), it.Value())
		}
		if !bytes.Equal(want, it.Value()) {
			return fmt.Errorf("key %x is served with value %x, committed value %x", it.Key(), it.Value(), want)
		}
		n++
	}
	if n != len(model) {
		return fmt.Errorf("%d keys served, %d in the committed set", n, len(model))
	}
	return nil
}

type caseState struct {
	pool   *sm.KeyPool
	hot    []int // pool indexes this case prefers (so that overwrites and deletes hit)
	model  map[string][]byte
	closeN int
}

func (c *caseState) drawKey(t *rapid.T) []byte {
	if rapid.IntRange(0, 9).Draw(t, "keysrc") < 7 {
		return c.pool.Keys[c.hot[rapid.IntRange(0, len(c.hot)-1).Draw(t, "hot")]]
	}
	return c.pool.Keys[rapid.IntRange(0, len(c.pool.Keys)-1).Draw(t, "any")]
}

func newCase(t *rapid.T) *caseState {
	p := sm.Pool()
	c := &caseState{pool: p, model: map[string][]byte{}}
	n := rapid.IntRange(8, 60).Draw(t, "hotN")
	for len(c.hot) < n {
		switch rapid.IntRange(0, 5).Draw(t, "hotkind") {
		case 0, 1: // a run of adjacent hashes: long shared prefixes
			i := p.Close[rapid.IntRange(0, len(p.Close)-1).Draw(t, "close")]
			run := rapid.IntRange(2, 4).Draw(t, "run")
			for j := 0; j < run && i+j < len(p.Keys); j++ {
				c.hot = append(c.hot, i+j)
			}
			c.closeN++
		case 2: // next to a subtree border
			pr := rapid.IntRange(0, 7).Draw(t, "prefix")
			if rapid.Bool().Draw(t, "low") {
				c.hot = append(c.hot, p.BorderLow[pr][rapid.IntRange(0, len(p.BorderLow[pr])-1).Draw(t, "b")])
			} else {
				c.hot = append(c.hot, p.BorderHigh[pr][rapid.IntRange(0, len(p.BorderHigh[pr])-1).Draw(t, "b")])
			}
		default:
			c.hot = append(c.hot, rapid.IntRange(0, len(p.Keys)-1).Draw(t, "rnd"))
		}
	}
	return c
}

// drawBatch generates a batch of operations; returns ops and counters.
func (c *caseState) drawBatch(t *rapid.T, pending map[string][]byte) (ops []op, effDel, absentDel, setDel int) {
	var n int
	switch rapid.IntRange(0, 10).Draw(t, "sizeclass") {
	case 10:
		n = 0 // an empty batch: a speculative or committing root computation on a clean store
	case 0, 1, 2:
		n = rapid.IntRange(1, 15).Draw(t, "n")
	case 3, 4, 5:
		n = rapid.IntRange(15, 18).Draw(t, "n")
	case 6, 7, 8:
		n = rapid.IntRange(19, 80).Draw(t, "n")
	default:
		n = rapid.IntRange(81, 400).Draw(t, "n")
	}
	for i := 0; i < n; i++ {
		k := c.drawKey(t)
		_, inState := pending[string(k)]
		switch x := rapid.IntRange(0, 9).Draw(t, "opkind"); {
		case x < 6:
			// empty values are real state (the state machine stores nil for committee / delegate membership keys)
			v := []byte{}
			if rapid.IntRange(0, 6).Draw(t, "emptyv") != 0 {
				v = rapid.SliceOfN(rapid.Byte(), 1, 6).Draw(t, "v")
			}
			ops = append(ops, op{k: k, v: v})
			pending[string(k)] = v
		case x < 9:
			ops = append(ops, op{k: k, del: true})
			if inState {
				effDel++
			} else {
				absentDel++
			}
			delete(pending, string(k))
		default: // set then delete within the batch
			ops = append(ops, op{k: k, v: []byte{1}}, op{k: k, del: true})
			delete(pending, string(k))
			setDel++
		}
	}
	return
}

func apply(t *rapid.T, s lib.RWStoreI, ops []op) {
	for _, o := range ops {
		var err lib.ErrorI
		if o.del {
			err = s.Delete(bytes.Clone(o.k))
		} else {
			err = s.Set(bytes.Clone(o.k), bytes.Clone(o.v))
		}
		if err != nil {
			t.Fatalf("store op failed: %v", err)
		}
	}
}

func cloneMap(m map[string][]byte) map[string][]byte {
	o := make(map[string][]byte, len(m))
	for k, v := range m {
		o[k] = v
	}
	return o
}

// opsPreview renders the first n operations readably (pool keys are [2]"vk"[4]<index>; shown as #index).
func opsPreview(ops []op, n int) string {
	var b bytes.Buffer
	for i, o := range ops {
		if i == n {
			b.WriteString(" …")
			break
		}
		if i > 0 {
			b.WriteByte(' ')
		}
		id := o.k
		if len(o.k) == 8 {
			id = o.k[4:]
		}
		if o.del {
			fmt.Fprintf(&b, "del#%x", id)
		} else {
			fmt.Fprintf(&b, "set#%x=%x", id, o.v)
		}
	}
	return b.String()
}

func opsHash(ops []op) uint64 {
	h := fnv.New64a()
	for _, o := range ops {
		h.Write(o.k)
		if o.del {
			h.Write([]byte{0})
		} else {
			h.Write([]byte{1})
			h.Write(o.v)
		}
	}
	return h.Sum64()
}

func hasClosePair(m map[string][]byte, minBits int) bool {
	hs := make([][]byte, 0, len(m))
	for k := range m {
		l := sm.LeafFor([]byte(k), nil, 160)
		hs = append(hs, l.Path)
	}
	sort.Slice(hs, func(i, j int) bool { return bytes.Compare(hs[i], hs[j]) < 0 })
	for i := 0; i+1 < len(hs); i++ {
		n := 0
		for n < 160 && hs[i][n] == hs[i+1][n] {
			n++
		}
		if n >= minBits {
			return true
		}
	}
	return false
}

// TestC08Store: histories of batches on the real Store versus the reference commitment.
func TestC08Store(t *testing.T) {
	rec := ev.New(t, "C08")
	rapid.Check(t, func(t *rapid.T) {
		ec := rec.Case()
		c := newCase(t)
		s := openStore(t)
		defer s.Close()
		nontrivial := false
		batches := rapid.IntRange(1, 6).Draw(t, "batches")
		var lastRoot []byte
		for b := 0; b < batches; b++ {
			pending := cloneMap(c.model)
			ops, effDel, absentDel, setDel := c.drawBatch(t, pending)
			mode := rapid.SampledFrom([]string{"commit", "root+commit", "root+reset", "nested-flush", "nested-discard"}).Draw(t, "mode")
			ec.Desc("b%d:%s:n%d:ed%d:ad%d:sd%d[%s]%x", b, mode, len(ops), effDel, absentDel, setDel, opsPreview(ops, 5), opsHash(ops))
			ec.Class("mode=" + mode)
			switch mode {
			case "commit", "root+commit", "root+reset":
				apply(t, s, ops)
			case "nested-flush", "nested-discard":
				// first half directly, second half through a nested transaction
				half := len(ops) / 2
				apply(t, s, ops[:half])
				ntx := s.NewTxn()
				apply(t, ntx, ops[half:])
				if mode == "nested-flush" {
					if err := ntx.Flush(); err != nil {
						t.Fatalf("nested flush: %v", err)
					}
				} else {
					ntx.Discard()
					// model: only the first half happened
					pending = cloneMap(c.model)
					for _, o := range ops[:half] {
						if o.del {
							delete(pending, string(o.k))
						} else {
							pending[string(o.k)] = o.v
						}
					}
				}
			}
			pendingOps := s.VerifPendingStateOps()
			parallel := pendingOps >= 16
			ec.ClassIf(parallel, "parallel-batch")
			ec.ClassIf(!parallel, "sequential-batch")
			ec.ClassIf(pendingOps >= 15 && pendingOps <= 17, "threshold-batch(15..17 ops)")
			ec.ClassIf(len(ops) == 0, "empty-batch")
			want := sm.Root(pending)
			if mode == "root+commit" || mode == "root+reset" {
				r, err := s.Root()
				if err != nil {
					t.Fatalf("Root(): %v", err)
				}
				if !bytes.Equal(r, want) {
					t.Fatalf("speculative Root() = %x, canonical commitment of the %d-entry state = %x", r, len(pending), want)
				}
			}
			if mode == "root+reset" {
				s.Reset() // speculative execution thrown away: the batch never happened
				continue
			}
			r, err := s.Commit()
			if err != nil {
				t.Fatalf("Commit(): %v", err)
			}
			if !bytes.Equal(r, want) {
				t.Fatalf("Commit() root = %x, canonical commitment of the %d-entry state = %x (batch %d, %d pending ops, mode %s)", r, len(pending), want, b, pendingOps, mode)
			}
			if parallel && effDel > 0 && hasClosePair(pending, 12) {
				nontrivial = true
			}
			c.model = pending
			lastRoot = r
			// now and then push the data through pebble's flush + compaction (what MaybeCompact does periodically): the
			// committed state and its root must not depend on where pebble keeps the entries
			if rapid.IntRange(0, 4).Draw(t, "compact") == 0 {
				if err := s.DB().Flush(); err != nil {
					t.Fatalf("flush: %v", err)
				}
				if err := s.CompactAll(s.Version()); err != nil {
					t.Fatalf("compact: %v", err)
				}
				s.Reset() // fresh snapshots, as after the next commit
				ec.Class("flush+compact")
			}
		}
		// the root is a commitment to THE STATE: the state the store serves must be exactly the set the root was compared with
		if lastRoot != nil {
			if err := compareState(s, c.model); err != nil {
				t.Fatalf("served state differs from the set its root commits to: %v", err)
			}
		}
		// structural identity of the persisted tree with the canonical one
		if lastRoot != nil {
			if err := compareTree(s, c.model); err != nil {
				t.Fatalf("persisted tree differs from canonical tree: %v", err)
			}
		}
		// history independence: a second store reaches the same set by another route
		if lastRoot != nil {
			s2 := openStore(t)
			defer s2.Close()
			route := rapid.SampledFrom([]string{"one-batch", "tiny-batches", "detour"}).Draw(t, "route")
			ec.Class("route=" + route)
			keys := make([]string, 0, len(c.model))
			for k := range c.model {
				keys = append(keys, k)
			}
			sort.Strings(keys)
			perm := rapid.Permutation(keys).Draw(t, "perm")
			var r2 []byte
			var err lib.ErrorI
			switch route {
			case "one-batch":
				for _, k := range perm {
					s2.Set([]byte(k), bytes.Clone(c.model[k]))
				}
				r2, err = s2.Commit()
			case "tiny-batches":
				step := rapid.IntRange(1, 7).Draw(t, "step")
				for i := 0; i < len(perm); i += step {
					for _, k := range perm[i:min(i+step, len(perm))] {
						s2.Set([]byte(k), bytes.Clone(c.model[k]))
					}
					if r2, err = s2.Commit(); err != nil {
						break
					}
				}
				if len(perm) == 0 {
					r2, err = s2.Commit()
				}
			case "detour":
				// insert everything plus foreign keys with wrong values, commit, then repair in a second batch
				extra := rapid.IntRange(1, 40).Draw(t, "extra")
				var foreign [][]byte
				for i := 0; i < extra; i++ {
					k := c.drawKey(t)
					if _, in := c.model[string(k)]; !in {
						foreign = append(foreign, k)
						s2.Set(bytes.Clone(k), []byte("detour"))
					}
				}
				for _, k := range perm {
					s2.Set([]byte(k), []byte("wrong"))
				}
				if _, err = s2.Commit(); err == nil {
					for _, k := range foreign {
						s2.Delete(bytes.Clone(k))
					}
					for _, k := range perm {
						s2.Set([]byte(k), bytes.Clone(c.model[k]))
					}
					r2, err = s2.Commit()
				}
			}
			if err != nil {
				t.Fatalf("second route commit: %v", err)
			}
			if !bytes.Equal(r2, lastRoot) {
				t.Fatalf("two histories ending in the same %d-entry state give roots %x and %x (route %s)", len(c.model), lastRoot, r2, route)
			}
			if err := compareTree(s2, c.model); err != nil {
				t.Fatalf("second route: persisted tree differs from canonical tree: %v", err)
			}
			nontrivial = nontrivial || (len(c.model) >= 16 && route != "one-batch")
			// sensitivity: one more change must change the root
			k := c.drawKey(t)
			if old, in := c.model[string(k)]; in && rapid.Bool().Draw(t, "sensDel") {
				s2.Delete(bytes.Clone(k))
				_ = old
			} else {
				nv := append(bytes.Clone(c.model[string(k)]), 0x5a)
				s2.Set(bytes.Clone(k), nv)
			}
			r3, err := s2.Commit()
			if err != nil {
				t.Fatalf("sensitivity commit: %v", err)
			}
			if bytes.Equal(r3, lastRoot) {
				t.Fatalf("state changed at key %x but the root stayed %x", k, r3)
			}
		}
		ec.Done(nontrivial)
	})
}
