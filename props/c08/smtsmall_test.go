package c08

import (
	"bytes"
	"crypto/sha256"
	"encoding/binary"
	"fmt"
	"os"
	"sort"
	"testing"

	"github.com/canopy-network/canopy/lib"
	"github.com/canopy-network/canopy/store"
	"pgregory.net/rapid"

	"verif/h/ev"
	sm "verif/h/storemodel"
)

var smallPrefix = lib.JoinLenPrefix([]byte("t/"))

// reservedPaths returns the bit strings that are not valid leaf positions at this key length:
// the two sentinels, the root key and the 14 synthetic subtree borders the parallel commit inserts temporarily.
// With 160-bit hashes these are unreachable; at reduced length they are excluded by construction.
func reservedPaths(keyBits int) map[string]bool {
	r := map[string]bool{}
	mn, mx := sm.Sentinels(keyBits)
	r[string(mn.Path)], r[string(mx.Path)] = true, true
	r[string(sm.BitsOf(store.RootKey, keyBits))] = true
	for p := 0; p < 8; p++ {
		lo := append([]byte{byte(p) << 5}, make([]byte, 19)...)
		hi := append([]byte{byte(p)<<5 | 0x1F}, bytes.Repeat([]byte{0xFF}, 19)...)
		r[string(sm.BitsOf(lo, keyBits))], r[string(sm.BitsOf(hi, keyBits))] = true, true
	}
	return r
}

func ctrKey(i int) []byte {
	k := make([]byte, 4)
	binary.BigEndian.PutUint32(k, uint32(i))
	return k
}

// smallTreeNodes reads the nodes persisted under smallPrefix.
func smallTreeNodes(db *store.Store) (map[string]*lib.Node, error) {
	vs := store.NewVersionedStore(db.DB().NewSnapshot(), nil, ^uint64(0))
	tx := store.NewTxn(vs, nil, smallPrefix, false, false, true)
	defer tx.Close()
	it, err := tx.Iterator(nil)
	if err != nil {
		return nil, err
	}
	defer it.Close()
	out := map[string]*lib.Node{}
	for ; it.Valid(); it.Next() {
		segs := lib.DecodeLengthPrefixed(it.Key())
		n := new(lib.Node)
		if e := lib.Unmarshal(it.Value(), n); e != nil {
			return nil, e
		}
		out[string(segs[0])] = n
	}
	return out, nil
}

// TestC08SMTSmall drives the tree directly at reduced key lengths (8..24 bits) where deep shared prefixes and
// subtree-border adjacency are dense, through the same Commit/CommitParallel entry points Store.Root() uses.
func TestC08SMTSmall(t *testing.T) {
	rec := ev.New(t, "C08")
	rapid.Check(t, func(t *rapid.T) {
		ec := rec.Case()
		keyBits := rapid.SampledFrom(keyBitsChoices()).Draw(t, "keyBits")
		reserved := reservedPaths(keyBits)
		universe := 4 << min(keyBits, 11)
		s := openStore(t)
		defer s.Close()
		model := map[string][]byte{} // leaf path -> leaf value (sha256 of the value)
		nontrivial := false
		ec.Desc("bits=%d", keyBits)
		batches := rapid.IntRange(1, 6).Draw(t, "batches")
		rootKeyEnc := sm.EncodeKey(sm.BitsOf(store.RootKey, keyBits))
		for b := 0; b < batches; b++ {
			var n int
			switch rapid.IntRange(0, 9).Draw(t, "sizeclass") {
			case 0, 1:
				n = rapid.IntRange(1, 14).Draw(t, "n")
			case 2, 3, 4:
				n = rapid.IntRange(15, 18).Draw(t, "n")
			default:
				n = rapid.IntRange(19, 120).Draw(t, "n")
			}
			byPath := map[string]store.VerifOp{}
			effDel, excluded := 0, 0
			for i := 0; i < n; i++ {
				k := ctrKey(rapid.IntRange(0, universe-1).Draw(t, "key"))
				h := sha256.Sum256(k)
				path := string(sm.BitsOf(h[:], keyBits))
				if reserved[path] {
					excluded++
					continue
				}
				if _, dup := byPath[path]; dup {
					continue // one operation per leaf position and batch: the real write set is a map per key
				}
				if rapid.IntRange(0, 9).Draw(t, "opkind") < 6 {
					byPath[path] = store.VerifOp{Key: k, Value: rapid.SliceOfN(rapid.Byte(), 0, 3).Draw(t, "v")}
				} else {
					byPath[path] = store.VerifOp{Key: k, Delete: true}
				}
			}
			paths := make([]string, 0, len(byPath))
			for p := range byPath {
				paths = append(paths, p)
			}
			sort.Strings(paths)
			ops := make([]store.VerifOp, 0, len(paths))
			for _, p := range rapid.Permutation(paths).Draw(t, "order") {
				o := byPath[p]
				ops = append(ops, o)
				if o.Delete {
					if _, in := model[p]; in {
						effDel++
					}
					delete(model, p)
				} else {
					hv := sha256.Sum256(o.Value)
					model[p] = hv[:]
				}
			}
			parallel := rapid.Bool().Draw(t, "parallel")
			// one block: fresh reader at "latest", fresh batch, fresh SMT (as Store.Root() does)
			batch := s.DB().NewBatch()
			vs := store.NewVersionedStore(s.DB().NewSnapshot(), batch, ^uint64(0))
			tx := store.NewTxn(vs, vs, smallPrefix, false, false, true, uint64(b+1))
			smt := store.NewSMT(store.RootKey, keyBits, tx)
			if os.Getenv("VERIF_DEBUG") != "" {
				fmt.Fprintf(os.Stderr, "DBG bits=%d batch=%d parallel=%v model=%d ops:", keyBits, b, parallel, len(model))
				for _, o := range ops {
					h := sha256.Sum256(o.Key)
					fmt.Fprintf(os.Stderr, " %v:%s", o.Delete, bitstr(sm.BitsOf(h[:], keyBits)))
				}
				fmt.Fprintln(os.Stderr)
			}
			if err := store.VerifSMTCommit(smt, ops, parallel); err != nil {
				t.Fatalf("commit (bits=%d parallel=%v ops=%d): %v", keyBits, parallel, len(ops), err)
			}
			got := smt.Root()
			if err := tx.Commit(); err != nil {
				t.Fatalf("flush: %v", err)
			}
			if err := vs.Commit(); err != nil {
				t.Fatalf("db commit: %v", err)
			}
			vs.Close()
			leaves := make([]sm.Leaf, 0, len(model)+2)
			mn, mx := sm.Sentinels(keyBits)
			leaves = append(leaves, mn, mx)
			for p, v := range model {
				leaves = append(leaves, sm.Leaf{Path: sm.Bits(p), Value: v})
			}
			ref := sm.BuildFromLeaves(leaves)
			really := parallel && len(ops) >= 16
			ec.Desc("b%d:n%d:par=%v:ed%d[%s]%x", b, len(ops), really, effDel, previewV(ops, keyBits, 5), opsHashV(ops))
			ec.ClassIf(really, "parallel-batch")
			ec.ClassIf(!really, "sequential-batch")
			ec.ClassIf(excluded > 0, "reserved-position-excluded")
			if !bytes.Equal(got, ref.Value) {
				t.Fatalf("bits=%d batch %d (%d ops, parallel=%v): root %x, canonical commitment of %d leaves %x", keyBits, b, len(ops), really, got, len(model), ref.Value)
			}
			if really && effDel > 0 {
				nontrivial = true
			}
			// persisted nodes == canonical tree
			nodes, err := smallTreeNodes(s)
			if err != nil {
				t.Fatalf("scan: %v", err)
			}
			want := map[string]*sm.RefNode{}
			ref.Walk(func(n *sm.RefNode) {
				if n == ref {
					want[string(rootKeyEnc)] = n
				} else {
					want[string(n.Key)] = n
				}
			})
			if len(nodes) != len(want) {
				var extra []string
				for k := range nodes {
					if _, ok := want[k]; !ok {
						extra = append(extra, fmt.Sprintf("%x", k))
					}
				}
				sort.Strings(extra)
				t.Fatalf("bits=%d batch %d: %d persisted nodes, canonical tree has %d; not in canonical tree: %v", keyBits, b, len(nodes), len(want), extra)
			}
			for k, w := range want {
				g := nodes[k]
				if g == nil || !bytes.Equal(g.Value, w.Value) {
					t.Fatalf("bits=%d batch %d: node %x differs from canonical", keyBits, b, k)
				}
				if w.Left != nil && (!bytes.Equal(g.LeftChildKey, w.Left.Key) || !bytes.Equal(g.RightChildKey, w.Right.Key)) {
					t.Fatalf("bits=%d batch %d: node %x children differ from canonical", keyBits, b, k)
				}
			}
		}
		ec.Done(nontrivial)
	})
}

func bitstr(b sm.Bits) string {
	o := make([]byte, len(b))
	for i, x := range b {
		o[i] = '0' + x
	}
	return string(o)
}

func previewV(ops []store.VerifOp, keyBits, n int) string {
	var b bytes.Buffer
	for i, o := range ops {
		if i == n {
			b.WriteString(" …")
			break
		}
		if i > 0 {
			b.WriteByte(' ')
		}
		h := sha256.Sum256(o.Key)
		if o.Delete {
			fmt.Fprintf(&b, "del@%s", bitstr(sm.BitsOf(h[:], keyBits)))
		} else {
			fmt.Fprintf(&b, "set@%s=%x", bitstr(sm.BitsOf(h[:], keyBits)), o.Value)
		}
	}
	return b.String()
}

func opsHashV(ops []store.VerifOp) uint64 {
	o2 := make([]op, len(ops))
	for i, o := range ops {
		o2[i] = op{k: o.Key, v: o.Value, del: o.Delete}
	}
	return opsHash(o2)
}

func keyBitsChoices() []int {
	if v := os.Getenv("VERIF_KEYBITS"); v != "" {
		var n int
		fmt.Sscan(v, &n)
		return []int{n}
	}
	// key lengths below 8 bits are outside the tree's domain: the parallel commit reads the 3-bit subtree prefix from
	// the first key byte, which is only left-aligned when the key has at least one full byte (production: 160 bits)
	return []int{8, 8, 9, 10, 11, 12, 13, 15, 16, 17, 20, 24}
}
