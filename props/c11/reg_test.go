package c11

import (
	"bytes"
	"testing"

	"github.com/canopy-network/canopy/fsm"
	"github.com/canopy-network/canopy/lib"
	"github.com/canopy-network/canopy/store"

	"verif/h/chainsim"
	"verif/h/keys"
	"verif/h/nodesim"
)

// TestC11Reg_HeaderLookupPoisonsArchive: store.Indexer.GetBlockHeaderByHeight (used by the eth "new blocks" filter of the
// RPC server, cmd/rpc/eth.go ethGetLogs) loads a block WITHOUT its transactions and puts that object into the process-wide
// block cache under the height; Indexer.GetBlockByHeight serves whatever the cache holds, so the next
// GetQCByHeight(h) - what ListenForBlockRequests sends to a syncing peer - carries a block without transactions. The
// certified header (transaction root, counters) no longer matches the body and a fresh node cannot apply the block.
func TestC11Reg_HeaderLookupPoisonsArchive(t *testing.T) {
	s := nodesim.NewSim()
	defer s.Close()
	ring := nodesim.NewKeyRing(4)
	vals := []chainsim.ValSpec{{Key: 0, OutputKey: -1, Stake: 1000}, {Key: 1, OutputKey: -1, Stake: 2000}, {Key: 2, OutputKey: -1, Stake: 3000}}
	accts := []chainsim.AcctSpec{{Kind: 1, Key: 0, Amount: 1_000_000_000}}
	gen := func() *fsm.GenesisState { return chainsim.BuildGenesis(1, vals, accts, nil, nil) }
	mk := func(name string, k int) *nodesim.Node {
		n, err := s.NewNode(nodesim.NodeOpts{Name: name, Genesis: gen(), Key: keys.BLS(k)})
		if err != nil {
			t.Fatal(err)
		}
		return n
	}
	a, c := mk("A", 0), mk("C", 1)
	g := &nodesim.Group{Sim: s, Ring: ring, Nodes: []*nodesim.Node{a}}
	clock := uint64(1_700_000_000_000_000)
	for h := uint64(1); h <= 2; h++ {
		for i := 0; i < 2; i++ {
			clock += 1000
			tx, _, err := chainsim.SignTxAt(keys.Ed(0), &fsm.MessageSend{FromAddress: chainsim.Addr(keys.Ed(0)), ToAddress: chainsim.Addr(keys.Ed(5)), Amount: 1000}, 1, 1, 10000, h, clock, "")
			if err != nil {
				t.Fatal(err)
			}
			if e := a.AddTx(tx); e != nil {
				t.Fatal(e)
			}
		}
		if r, err := g.Step(nodesim.StepOpts{Proposer: 0}); err != nil || !r.OK() {
			t.Fatalf("height %d: %v %v", h, err, r.Err())
		}
	}
	// the node restarts (cold block cache); an RPC client polls its eth block filter, then a peer asks for block 1
	if err := a.Restart(); err != nil {
		t.Fatal(err)
	}
	// (on a long chain height 1 has long left the 64-entry cache; here the start-up code has just re-loaded it, so empty the cache)
	store.VerifPurgeBlockCache()
	hb, e := a.Store.GetBlockHeaderByHeight(1)
	if e != nil {
		t.Fatal(e)
	}
	t.Logf("header-only lookup returned %d transactions (meta %v)", len(hb.Transactions), hb.Meta)
	var served *lib.QuorumCertificate
	served, e = a.Serve(1)
	if e != nil {
		t.Fatal(e)
	}
	if !bytes.Equal(served.Block, g.Certified[0].Block) {
		sb, cb := new(lib.Block), new(lib.Block)
		_ = lib.Unmarshal(served.Block, sb)
		_ = lib.Unmarshal(g.Certified[0].Block, cb)
		t.Errorf("after a header-only lookup the archive serves height 1 with %d transactions, certified block has %d", len(sb.Transactions), len(cb.Transactions))
	}
	if _, e = c.Deliver(served, true); e != nil {
		t.Fatalf("a fresh node cannot sync height 1 from the archive: %v", e)
	}
}

// TestC11Reg_OversizeBacklogProposal: when the mempool holds more transaction bytes than fit into a block, the proposer
// path (ApplyBlock(allowOversize=true)) executes the surplus ("oversize") transactions in a throw-away store wrapper, but
// the FSM's account/pool CACHES keep their effects (fees credited to the reward pool, debited senders). EndBlock then
// distributes rewards from the cached (inflated) pool, so the state root in the proposal is one no replica - not even the
// proposer itself in ValidateProposal - can reproduce: "unequal block hash". From height 2 on (reward distribution needs
// a previous certificate) every proposal fails while the backlog lasts; oversize transactions are not evicted.
func TestC11Reg_OversizeBacklogProposal(t *testing.T) {
	s := nodesim.NewSim()
	defer s.Close()
	ring := nodesim.NewKeyRing(4)
	vals := []chainsim.ValSpec{{Key: 0, OutputKey: -1, Stake: 1}, {Key: 1, OutputKey: -1, Stake: 1}, {Key: 2, OutputKey: -1, Stake: 1}}
	accts := []chainsim.AcctSpec{{Kind: 1, Key: 0, Amount: 1_000_000_000}, {Kind: 1, Key: 1, Amount: 1_000_000_000}}
	p := fsm.DefaultParams()
	p.Consensus.BlockSize = lib.MaxBlockHeaderSize + 600 // room for two plain sends
	gen := func() *fsm.GenesisState { return chainsim.BuildGenesis(1, vals, accts, nil, p) }
	mk := func(name string, k int) *nodesim.Node {
		n, err := s.NewNode(nodesim.NodeOpts{Name: name, Genesis: gen(), Key: keys.BLS(k)})
		if err != nil {
			t.Fatal(err)
		}
		return n
	}
	a, b := mk("A", 0), mk("B", 1)
	g := &nodesim.Group{Sim: s, Ring: ring, Nodes: []*nodesim.Node{a, b}}
	clock := uint64(1_700_000_000_000_000)
	for h := uint64(1); h <= 3; h++ {
		// three sends per height, two fit
		for i, spec := range []struct {
			from, to int
			fee      uint64
		}{{0, 20, 10000}, {0, 38, 11000}, {1, 40, 12000}} {
			clock += 1000
			tx, _, err := chainsim.SignTxAt(keys.Ed(spec.from), &fsm.MessageSend{FromAddress: chainsim.Addr(keys.Ed(spec.from)), ToAddress: chainsim.Addr(keys.Ed(spec.to)), Amount: uint64(1 + i)}, 1, 1, spec.fee, h, clock, "")
			if err != nil {
				t.Fatal(err)
			}
			if e := a.AddTx(tx); e != nil {
				t.Fatal(e)
			}
			_ = b.AddTx(tx)
		}
		r, err := g.Step(nodesim.StepOpts{Proposer: 0})
		if err != nil {
			t.Fatal(err)
		}
		if !r.OK() {
			t.Fatalf("height %d: the proposal A built from a mempool with a backlog (%d transactions pending) is rejected: %v", h, a.C.Mempool.TxCount(), r.Err())
		}
	}
}
