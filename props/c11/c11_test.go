// Package c11 checks property C11 (block portability): every block an honest node builds from its mempool is accepted by
// every honest node with the same prefix, and what a node serves from its archive re-validates on a fresh node to the same
// block hash, so a new node can always catch up. Real nodes (controller.Controller on real stores) from h/nodesim.
package c11

import (
	"bytes"
	"fmt"
	"os"
	"strings"
	"sync"
	"testing"

	"github.com/canopy-network/canopy/fsm"
	"github.com/canopy-network/canopy/lib"
	"github.com/canopy-network/canopy/lib/crypto"
	"github.com/canopy-network/canopy/store"
	"github.com/cockroachdb/pebble/v2/vfs"
	"pgregory.net/rapid"

	"verif/h/ev"
	"verif/h/keys"
	"verif/h/nodesim"
	"verif/h/wire"
)

const (
	kfHeaderPoison = "KF-C11-header-cache-poison"
	kfOversizeLeak = "KF-C11-oversize-cache-leak"
)

var mixKinds = []string{"send", "send", "send", "send", "send-self", "send-broke", "send-broke", "double-spend", "double-spend", "stake-new", "edit-stake-up", "pause", "unpause", "unstake",
	"bad-sig", "wrong-chain", "noncanonical", "reencoded", "reencoded", "dup-same", "low-fee", "change-param", "dao-transfer", "subsidy", "create-order", "big-memo", "big-memo", "hostile-amount", "future-height"}

func mustMarshal(m any) []byte {
	bz, err := lib.Marshal(m)
	if err != nil {
		panic(err)
	}
	return bz
}

type served struct {
	qc   *lib.QuorumCertificate
	from string
}

func TestC11Portability(t *testing.T) {
	rec := ev.New(t, "C11")
	rapid.Check(t, func(t *rapid.T) { runChain(t, rec) })
}

func runChain(t *rapid.T, rec *ev.Rec) {
	cs := rec.Case()
	sim := nodesim.NewSim()
	defer sim.Close()
	w := nodesim.GenWorld(t, 1)
	// 1 chain in 5 is LONG: it starts from a snapshot of a 97-height chain (built once per process by one node running
	// alone on a fixed committee) so that the generated heights cross the first checkpoint height (100)
	long := rapid.SampledFrom([]bool{true, false, false, false, false}).Draw(t, "longChain") || os.Getenv("VERIF_C11_LONG") == "1" // (env: development aid)
	if long {
		w.NVals, w.Stakes = len(longStakes), append([]uint64(nil), longStakes...)
	}
	ring := nodesim.NewKeyRing(w.NVals + w.Spare)
	// a small block size makes the oversize path of the proposer reachable with a handful of transactions
	// (the last value: room for ~430 small sends - filled to the brim below, the serialized block then exceeds the parameter
	// by its per-transaction framing although the transaction budget is met)
	blockSize := rapid.SampledFrom([]uint64{0, 0, lib.MaxBlockHeaderSize + 600, lib.MaxBlockHeaderSize + 1200, lib.MaxBlockHeaderSize + 2500, lib.MaxBlockHeaderSize + 93000}).Draw(t, "blockSize")
	fullMode, fullDone := blockSize == lib.MaxBlockHeaderSize+93000, false
	if blockSize != 0 && ev.Open(kfOversizeLeak) {
		// known finding: a mempool backlog beyond one block makes every proposal invalid; keep the oversize path unreachable
		rec.Exclude(kfOversizeLeak)
		blockSize = 0
	}
	cs.ClassIf(blockSize != 0, "small-block-size")
	if long {
		blockSize, fullMode = 0, false
	}
	gen := w.Genesis(blockSize)
	var snapshot *vfs.MemFS
	mk := func(name string, key int) *nodesim.Node {
		o := nodesim.NodeOpts{Name: name, Genesis: gen, Key: keys.BLS(key % w.NVals)}
		if snapshot != nil {
			o.FS = nodesim.CloneOf(snapshot)
		}
		n, err := sim.NewNode(o)
		if err != nil {
			t.Fatalf("new node: %v", err)
		}
		return n
	}
	var prefixCerts []*lib.QuorumCertificate
	if long {
		fs, certs, err := longPrefix(gen, ring)
		if err != nil {
			t.Fatalf("long prefix: %v", err)
		}
		snapshot, prefixCerts = fs, certs
	}
	a, b := mk("A", 0), mk("B", 1)
	g := &nodesim.Group{Sim: sim, Ring: ring, Nodes: []*nodesim.Node{a, b}}
	// the proposal-vote configuration the controllers are in (identical on all nodes): APPROVE_LIST (first rounds of a young
	// height) or REJECT_ALL (round >= 3 / height older than 3 block times); it may switch in the middle of a height
	approveMode := rapid.Bool().Draw(t, "approveListMode")
	setMode := func(on bool) {
		approveMode = on
		for _, n := range sim.Nodes {
			n.SetApproveList(on)
		}
	}
	setMode(approveMode)
	cs.ClassIf(approveMode, "vote-config=approve-list")
	cs.ClassIf(!approveMode, "vote-config=reject-all")
	cs.Desc("stakes=%v blockSize=%d approveList=%v", w.Stakes, blockSize, approveMode)
	fatalf := func(format string, args ...any) {
		t.Fatalf("%s", clipLines(fmt.Sprintf("%s\nchain: %s", fmt.Sprintf(format, args...), cs.Descriptor()), 16000))
	}
	k := rapid.IntRange(2, 5).Draw(t, "heights")
	var certified []*lib.QuorumCertificate
	if long {
		certified = append(certified, prefixCerts...)
		if k < 4 {
			k = 4
		}
		cs.Class("long-chain(crosses checkpoint height 100)")
		cs.Desc("starts from the 97-height snapshot")
	}
	stale := map[uint64]served{} // what a node served for its TOP height (before the next block re-indexed the last certificate)
	dropped, reencIncluded, oversize := false, false, false
	bigDone, bigHeights := false, map[uint64]bool{}
	for i := 0; i < k; i++ {
		ht := a.Height()
		var offered [][]byte
		nTx := rapid.IntRange(2, 10).Draw(t, "nTx")
		for j := 0; j < nTx; j++ {
			for _, tx := range genMix(t, w, ht) {
				offered = append(offered, tx.Bytes)
				ea, eb := a.AddTx(tx.Bytes), b.AddTx(tx.Bytes)
				if (ea == nil) != (eb == nil) {
					fatalf("VIOLATION C11: mempool admission differs between nodes for %s: %v vs %v", tx.Desc, ea, eb)
				}
				cs.Desc("h%d:%s", ht, tx.Desc)
				cs.Class("tx=" + tx.Kind)
			}
		}
		// a block filled to the brim with hundreds of small transactions (more offered than fit)
		if fullMode && i >= 1 && (!fullDone || rapid.Bool().Draw(t, "fullAgain")) {
			fullDone = true
			for j := 0; j < 470; j++ {
				tx := w.Send(w.Rich[j%4], nodesim.Addr(1, 70+j%5), uint64(1+j), 15000+uint64(j%7)*10, ht, "")
				offered = append(offered, tx)
				_, _ = a.AddTx(tx), b.AddTx(tx)
			}
			bigHeights[ht] = true
			cs.Class("full-block(hundreds of small txs up to the size limit)")
			cs.Desc("h%d:+470 sends (block size %d)", ht, blockSize)
		}
		// signature-batch pattern, consecutive in fee order: a send validly signed by a key that is NOT an authorized signer,
		// a send with a forged signature, then validly signed sends (the batch verifier's index bookkeeping must survive the
		// transaction that queued a signature and then failed)
		if rapid.IntRange(0, 2).Draw(t, "sigPattern") == 0 {
			base := uint64(22000 + 10*i)
			pat := [][]byte{w.SendSignedBy(w.Rich[1], w.Rich[0], nodesim.Addr(1, 45), 3, base, ht)}
			forged := w.Send(w.Rich[2], nodesim.Addr(1, 46), 4, base-1, ht, "")
			ftx := new(lib.Transaction)
			_ = lib.Unmarshal(forged, ftx)
			ftx.Signature.Signature[7] ^= 0x20
			pat = append(pat, mustMarshal(ftx))
			for j := 0; j < 2; j++ {
				pat = append(pat, w.Send(w.Rich[(j+3)%len(w.Rich)], nodesim.Addr(1, 47), uint64(5+j), base-2-uint64(j), ht, ""))
			}
			for _, tx := range pat {
				offered = append(offered, tx)
				_, _ = a.AddTx(tx), b.AddTx(tx)
			}
			cs.Class("sig-pattern(unauthorized,forged,valid..)")
			cs.Desc("h%d:sig-pattern", ht)
		}
		// an occasional BIG block: more than 127 transactions (per-block positions beyond one varint byte / one digit group)
		if blockSize == 0 && !bigDone && rapid.IntRange(0, 9).Draw(t, "bigBlock") < 3 {
			bigDone = true
			nBig := rapid.IntRange(258, 300).Draw(t, "bigTxs") // (length-prefixed uvarint positions first mis-sort at 256)
			for j := 0; j < nBig; j++ {
				tx := w.Send(w.Rich[j%4], nodesim.Addr(1, 60+j%7), uint64(1+j), 14000+uint64(j%5)*100, ht, "")
				offered = append(offered, tx)
				_, _ = a.AddTx(tx), b.AddTx(tx)
			}
			bigHeights[ht] = true
			cs.Class("big-block(>256 txs)")
			cs.Desc("h%d:+%d sends", ht, nBig)
		}
		// backlog pattern (small block size only): small transactions that nearly fill the block, then - in the mempool's fee
		// order - a BIG one that no longer fits, then small ones that still would
		if blockSize != 0 && !fullMode && rapid.Bool().Draw(t, "sizePattern") {
			limit := int(blockSize - lib.MaxBlockHeaderSize)
			memo := make([]byte, rapid.SampledFrom([]int{150, 200}).Draw(t, "bigMemo"))
			for i := range memo {
				memo[i] = 'b'
			}
			fee := uint64(30000)
			small := func(i int) []byte {
				fee -= 100
				return w.Send(w.Rich[i%len(w.Rich)], nodesim.Addr(1, 50+i), uint64(1+i), fee, ht, "")
			}
			var pat [][]byte
			used, i := 0, 0
			bigAt := func(f uint64) []byte {
				return w.Send(w.Rich[3], nodesim.Addr(1, 49), 5, f, ht, string(memo))
			}
			bigLen := len(bigAt(20000))
			// small ones while the big one would still fit behind them
			for used+bigLen <= limit {
				tx := small(i)
				pat = append(pat, tx)
				used += len(tx)
				i++
			}
			fee -= 100
			pat = append(pat, bigAt(fee)) // does not fit any more
			for k := 0; k < 2; k++ {      // these may still fit
				pat = append(pat, small(i))
				i++
			}
			for _, tx := range pat {
				offered = append(offered, tx)
				_, _ = a.AddTx(tx), b.AddTx(tx)
			}
			cs.Class("size-pattern(small..,BIG,small..)")
			cs.Desc("h%d:size-pattern %d txs limit=%d", ht, len(pat), limit)
		}
		proposer := rapid.IntRange(0, 1).Draw(t, "proposer")
		ld, other := g.Nodes[proposer], g.Nodes[1-proposer]
		// the vote configuration switches while the leader already holds a cached proposal of the other configuration
		if rapid.IntRange(0, 2).Draw(t, "voteConfigSwitch") == 0 {
			if _, e := ld.Produce(); e != nil {
				fatalf("VIOLATION C11/C15: %s cannot build a proposal from its mempool at height %d: %v", ld.Name, ht, e)
			}
			setMode(!approveMode)
			cs.Class("vote-config-switch-with-cached-proposal")
			cs.Desc("h%d:vote config -> approveList=%v", ht, approveMode)
		}
		vs, ce := ld.Committee(ld.C.RootChainHeight())
		if ce != nil || vs.ValidatorSet == nil || len(vs.ValidatorSet.ValidatorSet) == 0 {
			cs.Class("degenerate:no-committee-left(chain ends)") // every validator paused/unstaked: no chain to check
			cs.Done(false)
			return
		}
		s1, s2 := quorum(t, vs), quorum(t, vs)
		res, err := g.Certify(proposer, s1, uint64(rapid.IntRange(0, 1).Draw(t, "round")))
		if err != nil {
			fatalf("certify: %v", err)
		}
		if res.ProduceErr != nil {
			// retry once: a persistent failure is the violation (a single poisoned pass may evict the offender)
			res2, _ := g.Certify(proposer, s1, 0)
			if res2 == nil || res2.ProduceErr != nil {
				fatalf("VIOLATION C11: %s cannot build a proposal from its mempool at height %d (persistently): %v", ld.Name, ht, res.ProduceErr)
			}
			fatalf("VIOLATION C11: %s failed to build a proposal from its mempool at height %d (succeeded on retry): %v", ld.Name, ht, res.ProduceErr)
		}
		p, qc := res.Proposal, res.QC
		blk := new(lib.Block)
		if e := lib.Unmarshal(p.Block, blk); e != nil {
			fatalf("proposal block does not decode: %v", e)
		}
		inc := map[string]bool{}
		size := 0
		for _, tx := range blk.Transactions {
			inc[crypto.HashString(tx)] = true
			size += len(tx)
			if c, _ := canonical(tx); !c {
				reencIncluded = true
			}
		}
		for _, tx := range offered {
			if !inc[crypto.HashString(tx)] {
				dropped = true
			}
		}
		if blockSize != 0 && uint64(size) > blockSize-lib.MaxBlockHeaderSize {
			fatalf("VIOLATION C11: proposer built a block with %d transaction bytes, block size parameter allows %d", size, blockSize-lib.MaxBlockHeaderSize)
		}
		if blockSize != 0 && ld.C.Mempool.TxCount() > len(blk.Transactions) {
			oversize = true
		}
		cs.Desc("h%d:%s proposes txs=%d/%d bytes=%d", ht, ld.Name, len(blk.Transactions), len(offered), size)
		// every honest node with the same prefix accepts it (the leader validates its own proposal as well)
		for _, n := range []*nodesim.Node{other, ld} {
			if _, e := n.Validate(p.RcBuildHeight, qc); e != nil {
				fatalf("VIOLATION C11: %s rejects the proposal %s built from its mempool at height %d: %v", n.Name, ld.Name, ht, e)
			}
		}
		// both commit; the two nodes may hold DIFFERENT valid versions of the certificate (other +2/3 signer subset)
		qcOther := qc
		if rapid.IntRange(0, 3).Draw(t, "otherQCVersion") == 0 {
			qcOther = nodesim.CloneQC(qc)
			if err := nodesim.Sign(qcOther, vs, ring, s2); err != nil {
				fatalf("sign: %v", err)
			}
			cs.Class("nodes-hold-different-certificate-versions")
		}
		if _, e := other.Deliver(nodesim.CloneQC(qcOther), false); e != nil {
			fatalf("VIOLATION C11: %s cannot commit the certified block of height %d: %v", other.Name, ht, e)
		}
		if _, e := ld.Deliver(nodesim.CloneQC(qc), false); e != nil {
			fatalf("VIOLATION C11: %s cannot commit its own certified block of height %d: %v", ld.Name, ht, e)
		}
		certified = append(certified, qc)
		// remember what a node serves for its top height right now
		if rapid.Bool().Draw(t, "captureTop") {
			n := g.Nodes[rapid.IntRange(0, 1).Draw(t, "captureFrom")]
			if sq, e := n.Serve(ht); e == nil {
				stale[ht] = served{qc: sq, from: n.Name + "@top"}
			} else {
				fatalf("VIOLATION C11: %s cannot serve its top height %d: %v", n.Name, ht, e)
			}
		}
		ha, hb := a.LastHeader(), b.LastHeader()
		if !bytes.Equal(mustMarshal(ha), mustMarshal(hb)) {
			fatalf("VIOLATION C11/C03: A and B hold different headers at height %d", ht)
		}
	}
	top := uint64(len(certified))
	// ---- a fresh node catches up from the archives ----
	restartA := rapid.Bool().Draw(t, "restartServer")
	if restartA {
		if err := a.Restart(); err != nil {
			fatalf("restart A: %v", err)
		}
		cs.Class("archive-served-after-restart")
	}
	cFrom := uint64(1)
	if long && rapid.IntRange(0, 3).Draw(t, "cFromGenesis") != 0 {
		cFrom = uint64(len(prefixCerts)) + 1 // C starts from the snapshot too and syncs only the generated heights (across height 100)
	} else {
		snapshot = nil // a really fresh node
		cs.ClassIf(long, "long-chain:C-syncs-from-genesis")
	}
	c := mk("C", 2)
	c.SetApproveList(approveMode)
	live := rapid.IntRange(0, 3).Draw(t, "cLivePath") == 0 // C receives the blocks as gossip (full verification) instead of sync
	cs.ClassIf(live, "C=live-path")
	cs.ClassIf(!live, "C=sync-path")
	coldRead := false
	for h := cFrom; h <= top; h++ {
		src := rapid.IntRange(0, 2).Draw(t, "source")
		var sv served
		switch {
		case src == 2 && stale[h].qc != nil:
			sv = stale[h]
			cs.Class("served-top-version(stale)")
		default:
			n := g.Nodes[src%2]
			sim.Activate(n)
			if rapid.Bool().Draw(t, "coldCache") || bigHeights[h] {
				store.VerifPurgeBlockCache()
				coldRead = true
				if !ev.Open(kfHeaderPoison) {
					if rapid.IntRange(0, 2).Draw(t, "rpcHeaderLookup") == 0 {
						// an RPC client polls the eth "new blocks" filter: header-only lookups (cmd/rpc/eth.go ethGetLogs)
						if _, e := n.Store.GetBlockHeaderByHeight(h); e != nil {
							fatalf("header lookup: %v", e)
						}
						cs.Class("rpc-header-lookup-before-serving")
					}
				} else {
					rec.Exclude(kfHeaderPoison)
				}
			}
			q, e := n.Serve(h)
			if e != nil {
				fatalf("VIOLATION C11: %s cannot serve committed height %d: %v", n.Name, h, e)
			}
			sv = served{qc: q, from: n.Name}
		}
		cert := certified[h-1]
		hash, e := new(lib.Block).BytesToBlockHash(sv.qc.Block)
		if e != nil || !bytes.Equal(hash, cert.BlockHash) || !bytes.Equal(sv.qc.BlockHash, cert.BlockHash) {
			fatalf("VIOLATION C11: block served by %s for height %d does not hash to the certified block hash", sv.from, h)
		}
		if !bytes.Equal(sv.qc.Block, cert.Block) {
			fatalf("VIOLATION C11: block bytes served by %s for height %d differ from the certified bytes", sv.from, h)
		}
		if !sv.qc.EqualPayloads(cert) || sv.qc.Results == nil || !bytes.Equal(sv.qc.Results.Hash(), sv.qc.ResultsHash) {
			fatalf("VIOLATION C11: certificate served by %s for height %d is not the certified one", sv.from, h)
		}
		if _, e = c.Deliver(sv.qc, !live); e != nil {
			fatalf("VIOLATION C11: fresh node cannot apply height %d served by %s: %v", h, sv.from, e)
		}
		cs.Desc("C<-h%d from %s", h, sv.from)
	}
	if !live {
		c.FinishSync()
	}
	// C reached height k with identical block hashes and state roots
	for h := uint64(1); h <= top; h++ {
		qa, e1 := a.Serve(h)
		qcC, e2 := c.Serve(h)
		if e1 != nil || e2 != nil {
			fatalf("VIOLATION C11: cannot load height %d after catch-up: %v %v", h, e1, e2)
		}
		if !bytes.Equal(qa.Block, qcC.Block) || !bytes.Equal(qcC.BlockHash, certified[h-1].BlockHash) {
			fatalf("VIOLATION C11: C holds another block than A at height %d", h)
		}
		if !bytes.Equal(mustMarshal(qa.Signature), mustMarshal(qcC.Signature)) && h < top {
			// the last certificate of every height below the top is re-indexed from the next block's header: deterministic
			fatalf("VIOLATION C11/C03: A and C index different certificate versions for height %d (below the top)", h)
		}
	}
	sa, e1 := a.CommittedScan()
	sc, e2 := c.CommittedScan()
	if e1 != nil || e2 != nil {
		fatalf("scan: %v %v", e1, e2)
	}
	if !bytes.Equal(mustMarshal(a.LastHeader()), mustMarshal(c.LastHeader())) || nodesim.ScanDigest(sa) != nodesim.ScanDigest(sc) {
		fatalf("VIOLATION C11: after catch-up C's header/state differs from A's at height %d", top)
	}
	// and C is a full participant: it accepts the next proposal of A
	res, err := g.Certify(0, nil, 0)
	if err != nil || res.ProduceErr != nil {
		fatalf("VIOLATION C11: A cannot build the next proposal: %v %v", err, res.ProduceErr)
	}
	if _, e := c.Validate(res.Proposal.RcBuildHeight, res.QC); e != nil {
		fatalf("VIOLATION C11: the caught-up node rejects the next proposal of A: %v", e)
	}
	cs.ClassIf(dropped, "proposal-dropped-transactions")
	cs.ClassIf(oversize, "oversize-transactions-left-in-mempool")
	cs.ClassIf(reencIncluded, "non-canonical-tx-included")
	cs.ClassIf(coldRead, "archive-read-with-cold-cache")
	cs.Done(dropped && coldRead)
}

// quorum draws a signer subset holding at least +2/3
func quorum(t *rapid.T, vs lib.ValidatorSet) []int {
	all := nodesim.AllSigners(vs)
	if rapid.IntRange(0, 2).Draw(t, "allSign") == 0 {
		return all
	}
	perm := rapid.Permutation(all).Draw(t, "dropOrder")
	keep := map[int]bool{}
	for _, i := range all {
		keep[i] = true
	}
	cur := func() []int {
		var idx []int
		for _, j := range all {
			if keep[j] {
				idx = append(idx, j)
			}
		}
		return idx
	}
	for _, i := range perm[:rapid.IntRange(0, len(all)-1).Draw(t, "nDrop")] {
		keep[i] = false
		if _, thr, signed := nodesim.Power(vs, cur()); signed.Cmp(thr) < 0 {
			keep[i] = true
		}
	}
	return cur()
}

func canonical(tx []byte) (bool, error) {
	m := new(lib.Transaction)
	if err := lib.Unmarshal(tx, m); err != nil {
		return false, err
	}
	bz, err := lib.Marshal(m)
	return err == nil && bytes.Equal(bz, tx), err
}

// genMix draws mempool content: the txgen kinds plus byte-level re-encodings (h/wire) of a valid send
func genMix(t *rapid.T, w *nodesim.World, height uint64) []nodesim.Tx {
	kind := rapid.SampledFrom(mixKinds).Draw(t, "mixKind")
	if kind != "reencoded" {
		return w.GenTx(t, height, []string{kind})
	}
	base := w.GenTx(t, height, []string{"send"})[0]
	vs, err := wire.Reencodings(base.Bytes, wire.TransactionSchema, 1)
	if err != nil || len(vs) == 0 {
		return []nodesim.Tx{base}
	}
	v := vs[rapid.IntRange(0, len(vs)-1).Draw(t, "variant")]
	out := []nodesim.Tx{{Bytes: v.Bytes, Kind: "reencoded:" + v.Class, Intent: "fail-check", Desc: "reencoded(" + v.Trick + ") " + base.Desc}}
	if rapid.Bool().Draw(t, "alsoOriginal") {
		out = append(out, base) // the canonical original next to its re-encoding (same sign bytes, different hash)
	}
	return out
}

// ---- long chains: a 97-height prefix built once per process ----

var longStakes = []uint64{3, 2, 2, 1}

var longCache struct {
	once  sync.Once
	fs    *vfs.MemFS
	certs []*lib.QuorumCertificate
	err   error
}

// longPrefix runs one node alone for 97 empty heights on the fixed committee and returns a snapshot of its file system and
// the certificates of those heights. (Block times come from canopy's wall clock: the snapshot is per process.)
func longPrefix(gen *fsm.GenesisState, ring nodesim.KeyRing) (*vfs.MemFS, []*lib.QuorumCertificate, error) {
	longCache.once.Do(func() {
		sim := nodesim.NewSim()
		defer sim.Close()
		a, err := sim.NewNode(nodesim.NodeOpts{Name: "prefix", Genesis: gen, Key: keys.BLS(0)})
		if err != nil {
			longCache.err = err
			return
		}
		solo := &nodesim.Group{Sim: sim, Ring: ring, Nodes: []*nodesim.Node{a}}
		for a.Height() < 98 {
			r, err := solo.Step(nodesim.StepOpts{Proposer: 0, Paths: map[int]nodesim.Path{0: nodesim.PathReplay}})
			if err != nil || !r.OK() {
				longCache.err = fmt.Errorf("prefix height %d: %v %v", a.Height(), err, r.Err())
				return
			}
			longCache.certs = append(longCache.certs, r.QC)
		}
		longCache.fs, longCache.err = a.CloneFS()
	})
	return longCache.fs, longCache.certs, longCache.err
}

// clipLines shortens every line of a failure message (rapid fail files must stay below 64 KiB per line to be loadable)
func clipLines(s string, max int) string {
	lines := strings.Split(s, "\n")
	for i, l := range lines {
		if len(l) > max {
			lines[i] = l[:max] + fmt.Sprintf("...(+%d bytes)", len(l)-max)
		}
	}
	return strings.Join(lines, "\n")
}
