//go:build race

package c18

const raceEnabled = true
