package c18

import (
	"bytes"
	"errors"
	"fmt"
	"os"
	"runtime"
	"strconv"
	"strings"
	"sync/atomic"
	"testing"

	"github.com/canopy-network/canopy/lib"
	"github.com/canopy-network/canopy/lib/crypto"
	"github.com/canopy-network/canopy/p2p"
	"pgregory.net/rapid"

	"verif/h/ev"
	"verif/h/p2psim"
)

// KFStreamBelow99: p2p.NewStreams creates a stream for EVERY integer below lib.Topic_INVALID (= 99),
// so packets on the undefined stream ids 7..98 are accepted, reassembled (up to the message limit
// each) and silently dropped instead of closing the connection as an unknown stream id.
const KFStreamBelow99 = "KF-C18-undefined-stream-ids-7-98"

// pkt is one well-formed packet the raw peer sends.
type pkt struct {
	topic lib.Topic
	eof   bool
	n     int
	id    uint64
}

func (p pkt) String() string {
	e := ""
	if p.eof {
		e = "|EOF"
	}
	return fmt.Sprintf("%s:%d%s", lib.Topic_name[int32(p.topic)], p.n, e)
}

// model of correct reassembly: per topic, bytes accumulate until EOF, then one message is delivered.
type assembly struct {
	partial map[lib.Topic][]byte
	done    []p2psim.Received
}

func (a *assembly) feed(p pkt, data []byte, sender []byte) {
	a.partial[p.topic] = append(a.partial[p.topic], data...)
	if p.eof {
		a.done = append(a.done, p2psim.Received{Topic: p.topic, Msg: a.partial[p.topic], Sender: sender})
		delete(a.partial, p.topic)
	}
}

// expectOnly removes got from the expected multiset; a non-empty string is a violation.
func expectOnly(expected *[]p2psim.Received, got p2psim.Received, attacker []byte, when string) string {
	for i, e := range *expected {
		if e.Topic == got.Topic && bytes.Equal(e.Msg, got.Msg) {
			if !bytes.Equal(got.Sender, attacker) {
				return fmt.Sprintf("%s: message on %s attributed to %x, authenticated sender is %x", when, lib.Topic_name[int32(got.Topic)], got.Sender, attacker)
			}
			*expected = append((*expected)[:i:i], (*expected)[i+1:]...)
			return ""
		}
	}
	h := got.Msg
	if len(h) > 24 {
		h = h[:24]
	}
	return fmt.Sprintf("%s: inbox %s holds a %d-byte message (%x..) that is not one of the complete messages the peer sent", when, lib.Topic_name[int32(got.Topic)], len(got.Msg), h)
}

func drawPackets(rt *rapid.T, label string, max int, topics []lib.Topic, ids *uint64) []pkt {
	var out []pkt
	for i, n := 0, rapid.IntRange(0, max).Draw(rt, label+"_n"); i < n; i++ {
		*ids++
		out = append(out, pkt{
			topic: rapid.SampledFrom(topics).Draw(rt, label+"_topic"),
			eof:   rapid.IntRange(0, 2).Draw(rt, label+"_eof") > 0,
			n:     rapid.SampledFrom([]int{0, 1, 10, 1000, 5000, 70000}).Draw(rt, label+"_size"),
			id:    *ids,
		})
	}
	return out
}

// the malformed / over-limit message kinds
var badKinds = []string{"unknown-stream", "unknown-stream", "non-packet", "bad-any", "garbage-envelope", "oversize-prefix-with-body", "huge-prefix"}

type bad struct {
	kind string
	desc string
	send func(rp *p2psim.RawPeer) error
	// deliveredIfAccepted: what a receiver that lacks the check would put into an inbox (diagnostics only)
}

func drawBad(rt *rapid.T, rec *ev.Rec, seed uint64) bad {
	kind := rapid.SampledFrom(badKinds).Draw(rt, "bad")
	switch kind {
	case "unknown-stream":
		ids := []int32{7, 50, 98, 99, 100, 1000, -1, 2147483647, -2147483648}
		id := rapid.SampledFrom(ids).Draw(rt, "stream")
		if id >= 7 && id <= 98 && ev.Open(KFStreamBelow99) {
			rec.Exclude(KFStreamBelow99)
			id = 99
		}
		eof := rapid.Bool().Draw(rt, "eof")
		return bad{kind, fmt.Sprintf("unknown-stream(id=%d,eof=%v)", id, eof), func(rp *p2psim.RawPeer) error { return rp.SendPacket(id, eof, fill(seed, 7000, 33)) }}
	case "non-packet":
		which := rapid.IntRange(0, 3).Draw(rt, "which")
		names := []string{"lib.Signature", "p2p.Envelope", "lib.PeerMeta", "crypto.ProtoPubKey"}
		return bad{kind, "non-packet(" + names[which] + ")", func(rp *p2psim.RawPeer) error {
			switch which {
			case 0:
				return rp.SendBody(p2psim.AnyBody(&lib.Signature{PublicKey: fill(seed, 7001, 48), Signature: fill(seed, 7002, 96)}))
			case 1:
				return rp.SendBody(p2psim.AnyBody(&p2p.Envelope{}))
			case 2:
				return rp.SendBody(p2psim.AnyBody(&lib.PeerMeta{NetworkId: 1, ChainId: 1}))
			default:
				return rp.SendBody(p2psim.AnyBody(&crypto.ProtoPubKey{Pubkey: fill(seed, 7003, 32)}))
			}
		}}
	case "bad-any":
		which := rapid.IntRange(0, 3).Draw(rt, "which")
		names := []string{"unregistered-type", "empty-type-url", "packet-type-with-invalid-value", "envelope-without-payload"}
		return bad{kind, "bad-any(" + names[which] + ")", func(rp *p2psim.RawPeer) error {
			switch which {
			case 0:
				return rp.SendBody(p2psim.RawAnyBody("type.googleapis.com/types.NoSuchMessage", fill(seed, 7004, 20)))
			case 1:
				return rp.SendBody(p2psim.RawAnyBody("", fill(seed, 7005, 20)))
			case 2:
				return rp.SendBody(p2psim.RawAnyBody("type.googleapis.com/types.Packet", []byte{0x1a, 0xff, 0xff, 0xff, 0xff, 0x0f, 1, 2, 3}))
			default:
				return rp.SendBody(nil)
			}
		}}
	case "garbage-envelope":
		n := rapid.IntRange(1, 300).Draw(rt, "garbage_len")
		g := fill(seed, 7006, n)
		g[0] = 0xff // never a valid field tag of Envelope
		return bad{kind, fmt.Sprintf("garbage-envelope(%d bytes)", n), func(rp *p2psim.RawPeer) error { return rp.SendBody(g) }}
	case "oversize-prefix-with-body":
		// a perfectly well-formed EOF packet whose envelope is 1..64 bytes larger than the packet limit
		over := rapid.IntRange(1, 64).Draw(rt, "over")
		topic := rapid.SampledFrom(p2psim.AppTopics).Draw(rt, "topic")
		data := fill(seed, 7007, p2psim.MaxDataChunk)
		for len(p2psim.PacketBody(int32(topic), true, data)) < p2psim.MaxPacketSize+over {
			data = append(data, byte(len(data)))
		}
		body := p2psim.PacketBody(int32(topic), true, data)
		return bad{kind, fmt.Sprintf("oversize-packet(%s, envelope=%d bytes = limit+%d)", lib.Topic_name[int32(topic)], len(body), len(body)-p2psim.MaxPacketSize),
			func(rp *p2psim.RawPeer) error { return rp.SendBody(body) }}
	default: // huge-prefix
		pre := rapid.SampledFrom([]uint32{uint32(p2psim.MaxPacketSize) + 1, 1 << 24, 1 << 31, 1<<32 - 1}).Draw(rt, "prefix")
		return bad{kind, fmt.Sprintf("huge-prefix(%d)", pre), func(rp *p2psim.RawPeer) error {
			return rp.SendPrefixed(pre, p2psim.PacketBody(int32(lib.Topic_TX), true, fill(seed, 7008, 40)))
		}}
	}
}

// wallClock makes the case inconclusive when the node itself reports that it gave up on a connection
// because of a wall-clock limit (heartbeat silence, I/O deadline): a loaded machine, not a verdict.
func wallClock(rt *rapid.T, rec *ev.Rec, n *p2psim.Node) {
	if n.Log.TimedOut() {
		inconclusive(rt, rec, "the node tore a connection down on a wall-clock limit: "+n.Log.PeerErrors())
	}
}

func connectRaw(rt *rapid.T, rec *ev.Rec, n *p2psim.Node, key crypto.PrivateKeyI) *p2psim.RawPeer {
	for attempt := 0; ; attempt++ {
		rp, err := p2psim.ConnectRaw(n, key)
		if err == nil {
			if !n.Has(rp.Pub) {
				rt.Fatalf("harness: raw peer connected but is not in the peer set")
			}
			return rp
		}
		if errors.Is(err, p2psim.ErrTimeout) || p2psim.IsTimeoutErr(err) {
			if attempt < 3 {
				continue
			}
			inconclusive(rt, rec, "raw connect: "+err.Error())
		}
		rt.Fatalf("raw peer could not complete an honest handshake: %v", err)
	}
}

// TestC18Attacker: a raw peer completes an honest handshake with a real node, sends a generated
// prefix of well-formed packets (complete messages and dangling EOF-less ones), then one malformed
// or over-limit message, then a complete "sentinel" message.
// Oracle: the node tears the connection down (peer leaves the peer set, the raw peer's pipe is
// closed); the inboxes only ever hold the complete messages sent in front of the malformed one,
// attributed to the raw peer's authenticated key: no partial data, no sentinel. After a reconnect
// the dangling partial message of the dead connection must not leak into the new one.
func TestC18Attacker(t *testing.T) {
	rec := ev.New(t, "C18")
	rapid.Check(t, func(rt *rapid.T) {
		c := rec.Case()
		seed := rapid.Uint64().Draw(rt, "dataseed")
		var ids uint64
		pre := drawPackets(rt, "pre", 6, p2psim.AppTopics, &ids)
		b := drawBad(rt, rec, seed)
		sentinelTopic := rapid.SampledFrom(p2psim.AppTopics).Draw(rt, "sentinel_topic")
		reconnect := rapid.Bool().Draw(rt, "reconnect")
		c.Desc("pre=%v bad=%s sentinel=%s reconnect=%v", pre, b.desc, lib.Topic_name[int32(sentinelTopic)], reconnect)
		c.Class("bad=" + b.kind)

		dir, _ := os.MkdirTemp("", "c18a-")
		defer os.RemoveAll(dir)
		n := p2psim.NewNode(dir, 1, 1)
		defer n.Stop()
		key := p2psim.BLSKey(50)
		rp := connectRaw(rt, rec, n, key)
		defer rp.Close()

		asm := &assembly{partial: map[lib.Topic][]byte{}}
		for _, p := range pre {
			data := fill(seed, p.id, p.n)
			if err := rp.SendPacket(int32(p.topic), p.eof, data); err != nil {
				if p2psim.IsTimeoutErr(err) {
					inconclusive(rt, rec, "raw write: "+err.Error())
				}
				wallClock(rt, rec, n)
				rt.Fatalf("node closed the connection on a well-formed packet %s: %v (node log: %s)", p, err, n.Log.PeerErrors())
			}
			asm.feed(p, data, rp.Pub)
		}
		dangling := len(asm.partial)
		expected := append([]p2psim.Received(nil), asm.done...)
		// the malformed message, then the sentinel (its write fails once the node has closed the pipe)
		if err := b.send(rp); err != nil && p2psim.IsTimeoutErr(err) {
			inconclusive(rt, rec, "raw write: "+err.Error())
		}
		sentinel := append([]byte("SENTINEL-after-malformed-"), fill(seed, 9999, 16)...)
		_ = rp.SendPacket(int32(sentinelTopic), true, sentinel)

		var viol string
		check := func(when string) bool {
			for _, r := range n.Drain() {
				if v := expectOnly(&expected, r, rp.Pub, when); v != "" {
					if bytes.HasSuffix(r.Msg, sentinel) {
						v += " [it ends with the sentinel sent AFTER the malformed message: the connection was not closed]"
					}
					viol = v
					return true
				}
			}
			return false
		}
		ok := p2psim.WaitFor(teardownBudget, func() bool {
			if check("after " + b.desc) {
				return true
			}
			return !n.Has(rp.Pub) && rp.Closed()
		})
		if viol != "" {
			rt.Fatalf("%s\nscenario: %s", viol, c.Descriptor())
		}
		if !ok {
			inconclusive(rt, rec, fmt.Sprintf("no teardown and no delivery within %v after %s (in peer set: %v, pipe closed: %v)", teardownBudget, b.desc, n.Has(rp.Pub), rp.Closed()))
		}
		if check("after teardown") {
			rt.Fatalf("%s\nscenario: %s", viol, c.Descriptor())
		}
		wallClock(rt, rec, n) // torn down, but by a timer instead of the malformed message: not a verdict
		c.ClassIf(len(expected) == 0, "all-complete-messages-delivered")
		c.ClassIf(len(expected) > 0, "complete-message-not-delivered")
		c.ClassIf(dangling > 0, "dangling-partial-at-teardown")
		c.ClassIf(len(asm.done) > 0, "complete-messages-before")

		if reconnect {
			c.Class("reconnect")
			rp2 := connectRaw(rt, rec, n, key)
			defer rp2.Close()
			// finish "the same" message on every topic that had a dangling partial (or on one topic)
			var exp2 []p2psim.Received
			topics := []lib.Topic{sentinelTopic}
			for t := range asm.partial {
				topics = append(topics, t)
			}
			for i, t := range topics {
				tail := append([]byte("TAIL-on-new-connection-"), fill(seed, uint64(8000+i), 8)...)
				if err := rp2.SendPacket(int32(t), true, tail); err != nil {
					if p2psim.IsTimeoutErr(err) {
						inconclusive(rt, rec, "raw write: "+err.Error())
					}
					wallClock(rt, rec, n)
					rt.Fatalf("node closed the new connection on a well-formed packet: %v (node log: %s)", err, n.Log.PeerErrors())
				}
				exp2 = append(exp2, p2psim.Received{Topic: t, Msg: tail, Sender: rp2.Pub})
			}
			expected = exp2
			ok := p2psim.WaitFor(deliverBudget, func() bool { return check("on the connection opened after the teardown") || len(expected) == 0 })
			if viol != "" {
				rt.Fatalf("%s\nscenario: %s", viol, c.Descriptor())
			}
			if !ok {
				inconclusive(rt, rec, "messages on the new connection outstanding")
			}
		}
		c.Done(true)
	})
}

// TestC18Interleave: well-formed but adversarially interleaved traffic from the raw peer: EOF-less
// packets on two or three topics in a generated order, some messages completed, some left dangling,
// then the peer closes. Oracle: exactly the per-topic concatenations of completed messages are
// delivered (no cross-topic merge, no partial delivery), before and after the close.
func TestC18Interleave(t *testing.T) {
	rec := ev.New(t, "C18")
	rapid.Check(t, func(rt *rapid.T) {
		c := rec.Case()
		seed := rapid.Uint64().Draw(rt, "dataseed")
		k := rapid.IntRange(2, 3).Draw(rt, "topics")
		perm := rapid.Permutation(p2psim.AppTopics).Draw(rt, "perm")
		topics, fenceTopic := perm[:k], perm[k]
		var ids uint64
		var seq []pkt
		for i, n := 0, rapid.IntRange(3, 12).Draw(rt, "packets"); i < n; i++ {
			ids++
			seq = append(seq, pkt{
				topic: rapid.SampledFrom(topics).Draw(rt, "topic"),
				eof:   rapid.IntRange(0, 3).Draw(rt, "eof") == 0,
				n:     rapid.SampledFrom([]int{0, 1, 10, 1000, 5000, 70000}).Draw(rt, "size"),
				id:    ids,
			})
		}
		c.Desc("seq=%v fence=%s", seq, lib.Topic_name[int32(fenceTopic)])

		dir, _ := os.MkdirTemp("", "c18i-")
		defer os.RemoveAll(dir)
		n := p2psim.NewNode(dir, 1, 1)
		defer n.Stop()
		rp := connectRaw(rt, rec, n, p2psim.BLSKey(51))
		defer rp.Close()
		asm := &assembly{partial: map[lib.Topic][]byte{}}
		switches, last := 0, lib.Topic(-1)
		for _, p := range seq {
			data := fill(seed, p.id, p.n)
			if err := rp.SendPacket(int32(p.topic), p.eof, data); err != nil {
				if p2psim.IsTimeoutErr(err) {
					inconclusive(rt, rec, "raw write: "+err.Error())
				}
				wallClock(rt, rec, n)
				rt.Fatalf("node closed the connection on a well-formed packet %s: %v (node log: %s)", p, err, n.Log.PeerErrors())
			}
			if len(asm.partial) > 0 && p.topic != last {
				switches++
			}
			last = p.topic
			asm.feed(p, data, rp.Pub)
		}
		// fence on an unused topic: once it is delivered every earlier packet has been processed
		fence := append([]byte("FENCE-"), fill(seed, 9998, 8)...)
		if err := rp.SendPacket(int32(fenceTopic), true, fence); err != nil {
			wallClock(rt, rec, n)
			rt.Fatalf("node closed the connection on the fence packet: %v (node log: %s)", err, n.Log.PeerErrors())
		}
		expected := append(append([]p2psim.Received(nil), asm.done...), p2psim.Received{Topic: fenceTopic, Msg: fence, Sender: rp.Pub})
		completed := len(asm.done)
		var viol string
		fenceSeen := false
		check := func(when string) bool {
			for _, r := range n.Drain() {
				if r.Topic == fenceTopic && bytes.Equal(r.Msg, fence) {
					fenceSeen = true
				}
				if v := expectOnly(&expected, r, rp.Pub, when); v != "" {
					viol = v
					return true
				}
			}
			return false
		}
		ok := p2psim.WaitFor(deliverBudget, func() bool { return check("while connected") || fenceSeen })
		if viol != "" {
			rt.Fatalf("%s\nscenario: %s", viol, c.Descriptor())
		}
		if !ok {
			inconclusive(rt, rec, "fence not delivered")
		}
		// the peer goes away with messages still dangling: they must never surface
		rp.Close()
		if !p2psim.WaitFor(teardownBudget, func() bool { return !n.Has(rp.Pub) }) {
			inconclusive(rt, rec, "peer not removed after it closed the connection")
		}
		if check("after the peer closed the connection") {
			rt.Fatalf("%s\nscenario: %s", viol, c.Descriptor())
		}
		wallClock(rt, rec, n)
		c.ClassIf(len(expected) == 0, "all-complete-messages-delivered")
		c.ClassIf(len(expected) > 0, "complete-message-not-delivered")
		c.ClassIf(len(asm.partial) > 0, "dangling-at-close")
		c.ClassIf(switches > 0, "interleaved-partials")
		c.Class(fmt.Sprintf("completed=%d", min(completed, 4)))
		c.Done(switches > 0 && completed > 0)
	})
}

// TestC18OverLimit: EOF-less packets accumulating beyond the maximum message size (257 packets of the
// full chunk size = 257 MB of traffic per case). Oracle: the connection is torn down at the packet
// that crosses the limit; nothing of the oversized message and no sentinel reaches an inbox.
func TestC18OverLimit(t *testing.T) {
	rec := ev.New(t, "C18")
	// This scenario moves 257 MB through one connection and the node drops a peer it has not heard
	// from for 3 s. The node's reassembly buffer grows by reallocation (1.25x steps, ~1.3 GB of fresh
	// memory in total); in this sandbox a first-touch page fault costs ~200 us when the host is busy
	// (measured: 82 s to touch 1.5 GB), so one growth step beyond ~100 MB takes longer than 3 s and the
	// node drops the peer on its heartbeat timer before the limit is reached. On an idle machine the
	// whole case takes ~7 s. After two such inconclusive attempts the test stops trying and says so in the
	// evidence notes ("overlimit_not_evaluated") instead of turning the whole property inconclusive;
	// completed cases are counted as usual (0 completed cases = not evaluated in this run).
	var softInconclusive atomic.Int64
	hard := inconclusive
	inconclusive := func(rt *rapid.T, rec *ev.Rec, why string) {
		if !strings.Contains(why, "wall-clock limit") {
			hard(rt, rec, why)
		}
		n := softInconclusive.Add(1)
		rec.Note("overlimit_inconclusive_attempts", fmt.Sprint(n))
		if n >= 2 {
			rec.Note("overlimit_not_evaluated", "gave up after 2 attempts: "+why)
		}
		rt.Skip("INCONCLUSIVE: " + why)
	}
	wallClock := func(rt *rapid.T, rec *ev.Rec, n *p2psim.Node) {
		if n.Log.TimedOut() {
			inconclusive(rt, rec, "the node tore a connection down on a wall-clock limit: "+n.Log.PeerErrors())
		}
	}
	// optional: C18_PREFAULT_MB=<n> touches n MB of heap first, so that the growth steps reuse mapped
	// pages (slow but reliable on machines with expensive first-touch faults)
	if mb, _ := strconv.Atoi(os.Getenv("C18_PREFAULT_MB")); mb > 0 {
		pre := make([]byte, mb<<20)
		for i := 0; i < len(pre); i += 4096 {
			pre[i] = 1
		}
		pre = nil
		runtime.GC()
	}
	rapid.Check(t, func(rt *rapid.T) {
		if softInconclusive.Load() >= 2 {
			return
		}
		defer runtime.GC()
		c := rec.Case()
		seed := rapid.Uint64().Draw(rt, "dataseed")
		topic := rapid.SampledFrom(p2psim.AppTopics).Draw(rt, "topic")
		other := rapid.SampledFrom(p2psim.AppTopics).Draw(rt, "other")
		// packet sizes: full chunks, with a generated smaller first packet so the crossing point moves
		first := rapid.SampledFrom([]int{p2psim.MaxDataChunk, 1, 4096, p2psim.MaxDataChunk / 2}).Draw(rt, "first")
		interleave := rapid.Bool().Draw(rt, "interleave") // a complete small message on another topic half way
		// which packet crosses the limit: a full packet without EOF, or a (shorter) packet WITH EOF - the
		// shape Send() gives an over-limit message: full packets and a short last one
		eofCrosses := rapid.Bool().Draw(rt, "crossing-packet-has-EOF")
		crossBy := rapid.SampledFrom([]int{1, 2, 1000, 1 << 30}).Draw(rt, "cross-by")
		c.Desc("overlimit topic=%s first=%d interleave=%v(%s) crossing packet EOF=%v by<=%d", lib.Topic_name[int32(topic)], first, interleave, lib.Topic_name[int32(other)], eofCrosses, crossBy)
		c.Class("bad=overlimit-accumulate")
		c.ClassIf(eofCrosses, "limit-crossed-by-EOF-packet")

		// 1 case in 4: the over-limit message goes through the honest Send path of a second real node
		// (SendTo -> split into full packets + a short EOF packet) instead of hand-made packets
		if rapid.IntRange(0, 3).Draw(rt, "via-honest-send") == 0 || os.Getenv("C18_FORCE_VIA_SEND") != "" {
			// the last packet Send() produces carries (limit mod chunk) + over bytes while that fits a chunk:
			// up to tail it is the EOF packet that crosses the limit, beyond it a full EOF-less packet does
			tail := p2psim.MaxDataChunk - p2psim.MaxMessageSize%p2psim.MaxDataChunk
			over := rapid.SampledFrom([]int{1, 1, 2, 12801, tail / 2, tail, tail + 1, p2psim.MaxDataChunk, p2psim.MaxDataChunk + 1}).Draw(rt, "send-over")
			if v, err := strconv.Atoi(os.Getenv("C18_FORCE_VIA_SEND")); err == nil && v > 0 {
				over = v
			}
			c.Desc("via honest SendTo: message of limit+%d bytes", over)
			c.Class("overlimit-via-honest-send")
			c.ClassIf(over <= tail, "send:limit-crossed-by-EOF-packet")
			dir, _ := os.MkdirTemp("", "c18o-")
			defer os.RemoveAll(dir)
			a, b := p2psim.NewNode(dir+"/a", 1, 1), p2psim.NewNode(dir+"/b", 2, 1)
			defer a.Stop()
			defer b.Stop()
			if err := p2psim.Join(a, b); err != nil {
				if errors.Is(err, p2psim.ErrTimeout) || p2psim.IsTimeoutErr(err) {
					inconclusive(rt, rec, "join: "+err.Error())
				}
				rt.Fatalf("join: %v", err)
			}
			msg, bz := msgOfSize(seed, 3, p2psim.MaxMessageSize+over)
			if err := b.SendTo(a.Pub, topic, msg); err != nil {
				rt.Fatalf("SendTo: %v", err)
			}
			var bad string
			ok := p2psim.WaitFor(2*teardownBudget, func() bool {
				for _, r := range a.Drain() {
					bad = fmt.Sprintf("a message of %d bytes (limit %d, sent %d) was delivered on %s", len(r.Msg), p2psim.MaxMessageSize, len(bz), lib.Topic_name[int32(r.Topic)])
					return true
				}
				return !a.Has(b.Pub)
			})
			if bad != "" {
				rt.Fatalf("over-limit message through the honest Send path: %s; connection still up: %v", bad, a.Has(b.Pub))
			}
			wallClock(rt, rec, a)
			wallClock(rt, rec, b)
			if !ok {
				inconclusive(rt, rec, "over-limit SendTo: neither teardown nor delivery")
			}
			if !a.Log.Contains("max message size") {
				inconclusive(rt, rec, "connection ended for another reason than the size cap: "+a.Log.PeerErrors())
			}
			if rest := a.Drain(); len(rest) != 0 {
				rt.Fatalf("after the teardown an inbox holds a %d-byte message", len(rest[0].Msg))
			}
			c.Done(true)
			return
		}
		dir, _ := os.MkdirTemp("", "c18o-")
		defer os.RemoveAll(dir)
		n := p2psim.NewNode(dir, 1, 1)
		defer n.Stop()
		rp := connectRaw(rt, rec, n, p2psim.BLSKey(52))
		defer rp.Close()
		var expected []p2psim.Received
		chunk := fill(seed, 1, p2psim.MaxDataChunk)
		sent, crossedAt := 0, -1
		sentinel := append([]byte("SENTINEL-after-overlimit-"), fill(seed, 9999, 16)...)
		var viol string
		check := func(when string) bool {
			for _, r := range n.Drain() {
				if v := expectOnly(&expected, r, rp.Pub, when); v != "" {
					if len(r.Msg) > p2psim.MaxMessageSize {
						v += fmt.Sprintf(" [larger than the message limit %d]", p2psim.MaxMessageSize)
					}
					viol = v
					return true
				}
			}
			return false
		}
		// the full-size packet is marshalled once and re-sent (the raw peer must not be slower than the
		// node's 3 s heartbeat timeout, even on a loaded machine)
		fullWire := p2psim.LP(p2psim.PacketBody(int32(topic), false, chunk))
		for i := 0; i < 300; i++ {
			data := chunk
			if i == 0 {
				data = chunk[:first]
			}
			if eofCrosses && sent+len(data) > p2psim.MaxMessageSize {
				k := min(p2psim.MaxMessageSize-sent+crossBy, len(chunk))
				_ = rp.SendPacket(int32(topic), true, chunk[:k])
				crossedAt = i
				break
			}
			if interleave && i == 100 && other != topic {
				small := fill(seed, 2, 1000)
				if err := rp.SendPacket(int32(other), true, small); err != nil {
					wallClock(rt, rec, n)
					rt.Fatalf("node closed the connection on a well-formed packet below the limit: %v (node log: %s)", err, n.Log.PeerErrors())
				}
				expected = append(expected, p2psim.Received{Topic: other, Msg: small, Sender: rp.Pub})
			}
			var err error
			if len(data) == len(chunk) {
				err = rp.WriteWire(fullWire)
			} else {
				err = rp.SendPacket(int32(topic), false, data)
			}
			if sent+len(data) <= p2psim.MaxMessageSize {
				if err != nil {
					if p2psim.IsTimeoutErr(err) {
						inconclusive(rt, rec, "raw write: "+err.Error())
					}
					wallClock(rt, rec, n)
					rt.Fatalf("node closed the connection at %d accumulated bytes, below the limit %d: %v (node log: %s)", sent+len(data), p2psim.MaxMessageSize, err, n.Log.PeerErrors())
				}
				sent += len(data)
				continue
			}
			// this packet crosses the limit
			crossedAt = i
			break
		}
		if crossedAt < 0 {
			rt.Fatalf("harness: limit never crossed")
		}
		// finish the oversized message and add a sentinel: a receiver without the cap would deliver them
		_ = rp.SendPacket(int32(topic), true, []byte("END"))
		_ = rp.SendPacket(int32(other), true, sentinel)
		ok := p2psim.WaitFor(teardownBudget, func() bool {
			if check("after crossing the message limit") {
				return true
			}
			return !n.Has(rp.Pub) && rp.Closed()
		})
		if viol != "" {
			rt.Fatalf("%s\nscenario: %s crossing packet #%d", viol, c.Descriptor(), crossedAt)
		}
		if !ok {
			inconclusive(rt, rec, "no teardown and no delivery after the over-limit packet")
		}
		if check("after teardown") {
			rt.Fatalf("%s\nscenario: %s", viol, c.Descriptor())
		}
		wallClock(rt, rec, n)
		c.Class(fmt.Sprintf("crossed-at-packet=%d", crossedAt))
		c.Done(true)
	})
}
