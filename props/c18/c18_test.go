// Package c18 decides property C18: multiplexed peer messaging delivers whole messages on the right
// topic attributed to the authenticated sender; over-limit or malformed traffic closes the
// connection without delivering partial data; no data race.
package c18

import (
	"bytes"
	"crypto/sha256"
	"encoding/json"
	"errors"
	"fmt"
	"math/rand/v2"
	"net"
	"os"
	"os/exec"
	"path/filepath"
	"sort"
	"strconv"
	"strings"
	"sync"
	"sync/atomic"
	"testing"
	"time"

	"github.com/canopy-network/canopy/lib"
	"github.com/canopy-network/canopy/lib/crypto"
	"google.golang.org/protobuf/proto"
	"pgregory.net/rapid"

	"verif/h/ev"
	"verif/h/p2psim"
)

// liveness budgets: generous, and expiry is never a violation
const (
	deliverBudget  = 90 * time.Second
	teardownBudget = 45 * time.Second
)

var inconcN p2psim.Inconclusive

func inconclusive(rt *rapid.T, rec *ev.Rec, why string) {
	rec.Note("inconclusive_last", why)
	n := inconcN.Hit(why, func() { rec.Note("inconclusive_bailout", why); rec.Write() })
	rec.Note("inconclusive_cases", fmt.Sprint(n))
	rt.Skip("INCONCLUSIVE: " + why)
}

func fill(seed, stream uint64, n int) []byte {
	r := rand.New(rand.NewPCG(seed, stream))
	b := make([]byte, n)
	for i := 0; i+8 <= n; i += 8 {
		v := r.Uint64()
		for j := 0; j < 8; j++ {
			b[i+j] = byte(v >> (8 * j))
		}
	}
	for i := n &^ 7; i < n; i++ {
		b[i] = byte(r.Uint32())
	}
	return b
}

func varintLen(n int) int {
	l := 1
	for n >= 0x80 {
		n >>= 7
		l++
	}
	return l
}

// msgOfSize builds a protobuf message whose marshalled form (what SendTo puts on the stream and
// what the remote inbox must hold) is exactly size bytes (0, or >= 3).
func msgOfSize(seed, stream uint64, size int) (proto.Message, []byte) {
	if size <= 0 {
		return &crypto.ProtoPubKey{}, []byte{}
	}
	if size < 3 {
		size = 3
	}
	for k := 1; k <= 5; k++ {
		l := size - 1 - k
		if l >= 1 && varintLen(l) == k {
			m := &crypto.ProtoPubKey{Pubkey: fill(seed, stream, l)}
			bz, err := lib.Marshal(m)
			if err != nil || len(bz) != size {
				panic(fmt.Sprintf("msgOfSize(%d): marshalled %d bytes, err %v", size, len(bz), err))
			}
			return m, bz
		}
	}
	// sizes that no (length-prefix, payload) combination hits exactly: one byte more
	return msgOfSize(seed, stream, size+1)
}

type key struct {
	dir   int
	topic lib.Topic
	sum   [32]byte
	n     int
}

type spec struct {
	dir    int // 0: A->B, 1: B->A
	topic  lib.Topic
	size   int
	stream uint64
}

func (s spec) String() string {
	return fmt.Sprintf("%s/%s/%d#%d", [2]string{"A>B", "B>A"}[s.dir], lib.Topic_name[int32(s.topic)], s.size, s.stream)
}

type pair struct {
	n     [2]*p2psim.Node
	dir   string
	pipes [2]net.Conn
}

// KFCleanup: Stream.cleanup() (called from MultiConn.Stop on whatever goroutine tears the connection
// down) is not synchronised with the connection's own services:
//
//	(a) the heartbeat paths (sendHeartbeat, handleHeartbeatPacket) call Stream.queueSend without
//	    Stream.mu while cleanup sets closed and closes sendQueue under it: a data race on every
//	    teardown of a connection that has sent a heartbeat, and a "send on closed channel" panic in
//	    the heartbeat goroutine (which has no recover) when the heartbeat queue is full at teardown;
//	(b) the receive service's handlePacket writes Stream.msgAssembler without the mutex while
//	    cleanup sets it to nil: a data race whenever Stop() comes from another goroutine
//	    (P2P.Stop, duplicate-peer replacement, heartbeat timeout, failed write).
const KFCleanup = "KF-C18-stream-cleanup-unsynchronised"

// nodeSource hands out two fresh, unconnected nodes.
type nodeSource func() (a, b *p2psim.Node, dir string)

func freshNodes() (*p2psim.Node, *p2psim.Node, string) {
	dir, err := os.MkdirTemp("", "c18-")
	if err != nil {
		panic(err)
	}
	return p2psim.NewNode(dir+"/a", 1, 1), p2psim.NewNode(dir+"/b", 2, 1), dir
}

// pooledNodes creates n node pairs up front. p2p.New writes the package-level ReadTimeout and
// WriteTimeout, which every connection's services read; a process has one P2P in production, so in
// the race-detector run all P2P objects are created before the first connection exists (otherwise
// the detector reports New() of case k+1 against a goroutine of case k - a harness artefact).
func pooledNodes(n int) nodeSource {
	type pr struct {
		a, b *p2psim.Node
		dir  string
	}
	var mu sync.Mutex
	var pool []pr
	for i := 0; i < n; i++ {
		a, b, dir := freshNodes()
		pool = append(pool, pr{a, b, dir})
	}
	return func() (*p2psim.Node, *p2psim.Node, string) {
		mu.Lock()
		defer mu.Unlock()
		if len(pool) == 0 {
			return freshNodes()
		}
		x := pool[len(pool)-1]
		pool = pool[:len(pool)-1]
		return x.a, x.b, x.dir
	}
}

func newPair(rt *rapid.T, rec *ev.Rec, src nodeSource) *pair {
	for attempt := 0; ; attempt++ {
		p := &pair{}
		p.n[0], p.n[1], p.dir = src()
		var err error
		p.pipes[0], p.pipes[1], err = p2psim.JoinPipes(p.n[0], p.n[1])
		if err == nil {
			return p
		}
		p.close()
		if errors.Is(err, p2psim.ErrTimeout) || p2psim.IsTimeoutErr(err) {
			if attempt < 3 {
				continue
			}
			inconclusive(rt, rec, "join: "+err.Error())
		}
		rt.Fatalf("two honest nodes could not be joined: %v", err)
	}
}

func (p *pair) close() {
	p.n[0].Stop()
	p.n[1].Stop()
	_ = os.RemoveAll(p.dir)
}

// scenario of the concurrent-sender test
type scenario struct {
	senders [][]spec
	seed    uint64
	hot     bool
	flood   bool
}

func drawScenario(rt *rapid.T, small bool) scenario {
	var sc scenario
	sc.seed = rapid.Uint64().Draw(rt, "dataseed")
	B := p2psim.MaxDataChunk
	smallSizes := []int{0, 3, 10, 100, 1000, 1024, 4096, 70000}
	if small {
		smallSizes = []int{0, 3, 10, 100, 1000, 1024, 4096}
	}
	bigSizes := []int{B - 1, B, B + 1, 2*B - 1, 2 * B, 2*B + 1, 3 * B}
	g := rapid.IntRange(1, 8).Draw(rt, "senders")
	bigBudget := 10 * B // bytes of multi-packet traffic per case (keeps a case well below a second)
	var stream uint64
	var all []spec
	// contention mode: every sender starts with a multi-packet message on ONE hot (direction, topic),
	// so that packets of different messages compete for the same stream queue at the same time
	hot := !small && g >= 2 && rapid.IntRange(0, 2).Draw(rt, "hot") == 0
	hotDir, hotTopic := rapid.IntRange(0, 1).Draw(rt, "hotdir"), rapid.SampledFrom(p2psim.AppTopics).Draw(rt, "hottopic")
	sc.hot = hot
	// flood mode: several senders keep ONE stream's send queue (1000 slots) full with single-packet messages while another
	// sender pushes multi-packet messages through the same stream: a single-packet message that slips between two packets of
	// a large one is delivered merged / truncates the large one
	if !small && !hot && rapid.IntRange(0, 5).Draw(rt, "flood") == 0 {
		sc.flood = true
		var big []spec
		for j, n := 0, rapid.IntRange(2, 4).Draw(rt, "floodbig"); j < n; j++ {
			stream++
			big = append(big, spec{dir: hotDir, topic: hotTopic, size: rapid.SampledFrom([]int{B + 1, 2*B + 1, 3 * B}).Draw(rt, "floodbigsize"), stream: stream})
		}
		sc.senders = append(sc.senders, big)
		for i, n := 0, rapid.IntRange(3, 5).Draw(rt, "floodsenders"); i < n; i++ {
			var list []spec
			for j, m := 0, rapid.IntRange(300, 600).Draw(rt, "floodmsgs"); j < m; j++ {
				stream++
				list = append(list, spec{dir: hotDir, topic: hotTopic, size: 16 + j%64, stream: stream})
			}
			sc.senders = append(sc.senders, list)
		}
		return sc
	}
	for i := 0; i < g; i++ {
		var list []spec
		for j, n := 0, rapid.IntRange(1, 4).Draw(rt, "msgs"); j < n; j++ {
			s := spec{dir: rapid.IntRange(0, 1).Draw(rt, "dir"), topic: rapid.SampledFrom(p2psim.AppTopics).Draw(rt, "topic")}
			if hot && j == 0 && bigBudget >= B+1 {
				s.dir, s.topic = hotDir, hotTopic
				// two-packet messages of (almost) equal size: equal marshalling time, so the per-message
				// goroutines of PeerSet.send reach the stream queue together
				s.size = B + 1 + rapid.IntRange(0, 3).Draw(rt, "hotsize")
				bigBudget -= s.size
			} else if !small && rapid.IntRange(0, 3).Draw(rt, "big") == 0 {
				s.size = rapid.SampledFrom(bigSizes).Draw(rt, "bigsize")
				if s.size > bigBudget {
					s.size = B + 1
				}
				if s.size > bigBudget {
					s.size = 4096
				}
				if s.size >= B-1 {
					bigBudget -= s.size
				}
			} else {
				s.size = rapid.SampledFrom(smallSizes).Draw(rt, "size")
			}
			stream++
			s.stream = stream
			// now and then the very same payload a second time (the oracle is a multiset)
			if len(all) > 0 && rapid.IntRange(0, 9).Draw(rt, "again") == 0 {
				prev := all[rapid.IntRange(0, len(all)-1).Draw(rt, "which")]
				s.size, s.stream = prev.size, prev.stream
			}
			list = append(list, s)
			all = append(all, s)
		}
		sc.senders = append(sc.senders, list)
	}
	return sc
}

// matcher compares what arrives with the multiset that was handed to SendTo.
type matcher struct {
	want    map[key]int
	topicOf map[[32]byte][]string // payload hash -> where it was expected (diagnostics)
	left    int
	pubs    [2][]byte
}

func (m *matcher) add(dir int, topic lib.Topic, bz []byte) {
	k := key{dir, topic, sha256.Sum256(bz), len(bz)}
	m.want[k]++
	m.left++
	m.topicOf[k.sum] = append(m.topicOf[k.sum], fmt.Sprintf("%s/%s", [2]string{"A>B", "B>A"}[dir], lib.Topic_name[int32(topic)]))
}

// take accounts for one delivered message; a non-empty string is a violation.
func (m *matcher) take(dir int, r p2psim.Received) string {
	if !bytes.Equal(r.Sender, m.pubs[dir]) {
		return fmt.Sprintf("message on %s (%d bytes) attributed to sender %x, authenticated peer is %x", lib.Topic_name[int32(r.Topic)], len(r.Msg), r.Sender, m.pubs[dir])
	}
	k := key{dir, r.Topic, sha256.Sum256(r.Msg), len(r.Msg)}
	if m.want[k] > 0 {
		m.want[k]--
		m.left--
		return ""
	}
	where := m.topicOf[k.sum]
	switch {
	case len(where) > 0 && !contains(where, fmt.Sprintf("%s/%s", [2]string{"A>B", "B>A"}[dir], lib.Topic_name[int32(r.Topic)])):
		return fmt.Sprintf("a message sent on %v was delivered on %s/%s (%d bytes)", where, [2]string{"A>B", "B>A"}[dir], lib.Topic_name[int32(r.Topic)], len(r.Msg))
	case len(where) > 0:
		return fmt.Sprintf("message %x.. (%d bytes) on %s delivered more often than it was sent (duplication)", k.sum[:6], len(r.Msg), lib.Topic_name[int32(r.Topic)])
	default:
		return fmt.Sprintf("%s/%s delivered a %d-byte message %x.. that was never sent (truncated, merged or modified); still outstanding: %s",
			[2]string{"A>B", "B>A"}[dir], lib.Topic_name[int32(r.Topic)], len(r.Msg), k.sum[:6], m.outstanding())
	}
}

func contains(l []string, s string) bool {
	for _, x := range l {
		if x == s {
			return true
		}
	}
	return false
}

func (m *matcher) outstanding() string {
	var l []string
	for k, n := range m.want {
		if n > 0 {
			l = append(l, fmt.Sprintf("%dx %s/%s/%dB", n, [2]string{"A>B", "B>A"}[k.dir], lib.Topic_name[int32(k.topic)], k.n))
		}
	}
	sort.Strings(l)
	if len(l) > 12 {
		l = append(l[:12], "...")
	}
	return fmt.Sprint(l)
}

// runConcurrent is the body shared by the plain and the race-detector variant.
func runConcurrent(rt *rapid.T, rec *ev.Rec, small bool, src nodeSource) {
	c := rec.Case()
	sc := drawScenario(rt, small)
	p := newPair(rt, rec, src)
	defer p.close()
	m := &matcher{want: map[key]int{}, topicOf: map[[32]byte][]string{}, pubs: [2][]byte{p.n[0].Pub, p.n[1].Pub}}
	type out struct {
		spec
		msg proto.Message
	}
	var plan [][]out
	topics := map[lib.Topic]bool{}
	dirs := map[int]bool{}
	multi := 0
	for i, list := range sc.senders {
		var o []out
		for _, s := range list {
			msg, bz := msgOfSize(sc.seed, s.stream, s.size)
			m.add(s.dir, s.topic, bz)
			o = append(o, out{s, msg})
			topics[s.topic] = true
			dirs[s.dir] = true
			if len(bz) > p2psim.MaxDataChunk {
				multi++
			}
			if !sc.flood || len(list) < 10 {
				c.Desc("g%d:%s", i, s)
			}
		}
		plan = append(plan, o)
	}
	// G concurrent senders, released together
	var wg sync.WaitGroup
	start := make(chan struct{})
	errc := make(chan error, 64)
	for _, list := range plan {
		wg.Add(1)
		go func(list []out) {
			defer wg.Done()
			<-start
			for _, o := range list {
				if err := p.n[o.dir].SendTo(p.n[1-o.dir].Pub, o.topic, o.msg); err != nil {
					errc <- fmt.Errorf("SendTo(%s): %v", o.spec, err)
				}
			}
		}(list)
	}
	// everything that arrives must be something that was sent (direction d arrives at node 1-d)
	collect := func() string {
		for d := 0; d < 2; d++ {
			for _, r := range p.n[1-d].Drain() {
				if v := m.take(d, r); v != "" {
					return v
				}
			}
		}
		return ""
	}
	var viol string
	// flood mode puts more messages in flight than an inbox holds (1000, the newest is dropped when full): drain while sending
	stopDrain, drained := make(chan struct{}), make(chan struct{})
	go func() {
		defer close(drained)
		if !sc.flood {
			return
		}
		for {
			select {
			case <-stopDrain:
				return
			default:
			}
			if viol == "" {
				viol = collect()
			}
			time.Sleep(time.Millisecond)
		}
	}()
	// race-detector variant: while the senders call SendTo, OTHER peers join and leave both nodes
	// (AddPeer -> PeerSet.Add, malformed packet -> OnPeerError -> PeerSet.Remove), several times, and
	// extra goroutines keep calling SendTo for as long as that churn lasts
	type bgMsg struct {
		dir   int
		topic lib.Topic
		bz    []byte
	}
	var churnWG sync.WaitGroup
	var churnErr error
	var bgSent [][]bgMsg
	var bgErr atomic.Value
	if small {
		cycles := rapid.IntRange(0, 4).Draw(rt, "churn-cycles")
		nbg := rapid.IntRange(2, 3).Draw(rt, "churn-senders")
		if cycles > 0 {
			c.Desc("churn:%d raw peers join+leave while %d extra goroutines SendTo", cycles, nbg)
			c.Class("peer-churn-during-sendto")
			churnDone := make(chan struct{})
			churnWG.Add(1)
			go func() {
				defer churnWG.Done()
				defer close(churnDone)
				<-start
				for k := 0; k < cycles; k++ {
					node := p.n[k%2]
					rp, err := p2psim.ConnectRaw(node, p2psim.BLSKey(60+k))
					if err != nil {
						churnErr = err
						return
					}
					_ = rp.SendPacket(1000, true, []byte("unknown stream"))
					if !p2psim.WaitFor(teardownBudget, func() bool { return !node.Has(rp.Pub) && rp.Closed() }) {
						churnErr = p2psim.ErrTimeout
					}
					rp.Close()
				}
			}()
			bgSent = make([][]bgMsg, nbg)
			for b := 0; b < nbg; b++ {
				churnWG.Add(1)
				go func(b int) {
					defer churnWG.Done()
					<-start
					for j := 0; j < 150; j++ {
						select {
						case <-churnDone:
							return
						default:
						}
						d, topic := (b+j)%2, p2psim.AppTopics[(b*7+j)%len(p2psim.AppTopics)]
						msg, bz := msgOfSize(sc.seed^0xabcdef, uint64(5000+b*1000+j), 8+j%50)
						if err := p.n[d].SendTo(p.n[1-d].Pub, topic, msg); err != nil {
							bgErr.Store(fmt.Errorf("SendTo during peer churn: %v", err))
							return
						}
						bgSent[b] = append(bgSent[b], bgMsg{d, topic, bz})
						time.Sleep(200 * time.Microsecond)
					}
				}(b)
			}
		}
	}
	close(start)
	wg.Wait()
	churnWG.Wait()
	for _, l := range bgSent {
		for _, x := range l {
			m.add(x.dir, x.topic, x.bz)
		}
	}
	if churnErr != nil {
		if errors.Is(churnErr, p2psim.ErrTimeout) || p2psim.IsTimeoutErr(churnErr) {
			inconclusive(rt, rec, "peer churn: "+churnErr.Error())
		}
		rt.Fatalf("a raw peer could not join during the concurrent sends: %v", churnErr)
	}
	if e, _ := bgErr.Load().(error); e != nil {
		wallClock(rt, rec, p.n[0])
		wallClock(rt, rec, p.n[1])
		rt.Fatalf("%v", e)
	}
	if sc.flood {
		time.Sleep(300 * time.Millisecond) // the per-message goroutines of PeerSet.send are still queueing
	}
	close(stopDrain)
	<-drained
	select {
	case e := <-errc:
		rt.Fatalf("%v", e)
	default:
	}
	if viol != "" {
		rt.Fatalf("%s\nscenario: %s", viol, c.Descriptor())
	}
	firstBudget := deliverBudget
	if sc.flood {
		firstBudget = 30 * time.Second // in flood mode messages are legitimately dropped when a queue-wait expires: do not wait long for them
	}
	ok := p2psim.WaitFor(firstBudget, func() bool {
		if viol = collect(); viol != "" {
			return true
		}
		return m.left == 0
	})
	if viol != "" {
		rt.Fatalf("%s\nscenario: %s", viol, c.Descriptor())
	}
	stuck := ""
	if !ok {
		// "or not at all" is allowed by the property, so missing messages alone prove nothing - but a message that was
		// swallowed (e.g. never terminated) may come out MERGED with the next message of its topic: send the fences anyway
		// and judge what arrives against (still outstanding messages + fences) before calling the case inconclusive
		stuck = fmt.Sprintf("messages outstanding after %v: %s (peers connected: %v/%v; node logs: %s / %s)", deliverBudget, m.outstanding(),
			p.n[0].Has(p.n[1].Pub), p.n[1].Has(p.n[0].Pub), p.n[0].Log.PeerErrors(), p.n[1].Log.PeerErrors())
		if !p.n[0].Has(p.n[1].Pub) || !p.n[1].Has(p.n[0].Pub) {
			inconclusive(rt, rec, stuck)
		}
	}
	// fence: one more message per topic and direction; nothing but the fences may arrive before them
	fm := &matcher{want: map[key]int{}, topicOf: map[[32]byte][]string{}, pubs: m.pubs}
	if stuck != "" {
		fm = m // keep accepting the stragglers next to the fences
	}
	for d := 0; d < 2; d++ {
		for _, t := range p2psim.AppTopics {
			msg, bz := msgOfSize(^sc.seed, uint64(1000+int(t)*2+d), 24)
			fm.add(d, t, bz)
			if err := p.n[d].SendTo(p.n[1-d].Pub, t, msg); err != nil {
				rt.Fatalf("fence SendTo: %v", err)
			}
		}
	}
	m = fm
	fenceBudget := deliverBudget
	if stuck != "" {
		fenceBudget = 15 * time.Second // the stragglers already had their time; the fences are small
	}
	ok = p2psim.WaitFor(fenceBudget, func() bool {
		if viol = collect(); viol != "" {
			return true
		}
		return m.left == 0
	})
	if viol != "" {
		if stuck != "" {
			rt.Fatalf("a delivery that is neither a sent message nor a fence (some sent messages never arrived: truncated / merged?): %s\n%s\nscenario: %s", viol, stuck, c.Descriptor())
		}
		rt.Fatalf("after every sent message had arrived, an extra delivery: %s\nscenario: %s", viol, c.Descriptor())
	}
	if stuck != "" {
		inconclusive(rt, rec, stuck)
	}
	if !ok {
		inconclusive(rt, rec, "fence messages outstanding: "+m.outstanding())
	}
	c.Class(fmt.Sprintf("senders=%d", len(sc.senders)))
	c.Class(fmt.Sprintf("topics=%d", len(topics)))
	c.ClassIf(len(dirs) == 2, "both-directions")
	c.ClassIf(multi > 0, "multi-packet")
	c.ClassIf(multi > 1, "multi-packet>=2")
	c.ClassIf(sc.hot, "same-stream-multipacket-contention")
	c.ClassIf(sc.flood, "same-stream-queue-flood")
	if sc.flood {
		c.Desc("flood:%d small senders x 300-600 single-packet messages on the big sender's stream", len(sc.senders)-1)
	}
	if small {
		// race-detector variant: malformed traffic from a raw peer tears ITS connection down (from
		// inside the receive service) while the honest connection stays; 1 in 5 after the connection has
		// lived through a heartbeat tick. The honest pair is then stopped from outside (P2P.Stop).
		if rapid.IntRange(0, 2).Draw(rt, "malformed-teardown") > 0 {
			linger := rapid.IntRange(0, 4).Draw(rt, "linger") == 0
			rp := connectRaw(rt, rec, p.n[0], p2psim.BLSKey(53))
			c.Desc("raw-peer-malformed(linger=%v)", linger)
			c.Class("malformed-teardown")
			c.ClassIf(linger, "teardown-after-heartbeat")
			if linger {
				time.Sleep(p2psim.HeartbeatEvery + 150*time.Millisecond)
			}
			_ = rp.SendPacket(1000, true, []byte("unknown stream"))
			if !p2psim.WaitFor(teardownBudget, func() bool { return !p.n[0].Has(rp.Pub) && rp.Closed() }) {
				inconclusive(rt, rec, "no teardown after unknown stream id")
			}
			rp.Close()
			if !p.n[0].Has(p.n[1].Pub) || !p.n[1].Has(p.n[0].Pub) {
				wallClock(rt, rec, p.n[0])
				wallClock(rt, rec, p.n[1])
				rt.Fatalf("the honest connection did not survive the teardown of the raw peer's connection (node logs: %s / %s)", p.n[0].Log.PeerErrors(), p.n[1].Log.PeerErrors())
			}
		}
		c.Done(len(sc.senders) >= 2 && len(topics) >= 2)
	} else {
		c.Done(len(sc.senders) >= 2 && len(topics) >= 2 && multi >= 1)
	}
}

// TestC18Concurrent: G in 1..8 concurrent sender goroutines x all application topics x sizes around
// the packet boundary and small ones, both directions, between two real p2p.P2P objects.
func TestC18Concurrent(t *testing.T) {
	rec := ev.New(t, "C18")
	rapid.Check(t, func(rt *rapid.T) { runConcurrent(rt, rec, false, freshNodes) })
}

// TestC18RaceSmall: the same concurrent scenarios with small payloads, run from the binary built
// with -race (any DATA RACE report is a violation). Also usable without the detector.
//
// While the known finding KFCleanup is open, the scenarios run in a child process (this binary
// re-executed with the same flags) and the parent removes exactly the known race reports - a write in
// Stream.cleanup against an access in Stream.queueSend or Stream.handlePacket - from the verdict; any
// other race report, failed case or panic of the child fails the parent. Nothing is excluded from the
// scenarios themselves.
func TestC18RaceSmall(t *testing.T) {
	if raceEnabled && ev.Open(KFCleanup) && os.Getenv("C18_RACE_CHILD") == "" {
		raceParent(t)
		return
	}
	// net.Pipe, not the buffered conn: the buffered conn's mutex is shared by Read and Close and would
	// order (and thereby hide from the detector) accesses of the receive service and of Stop()
	defer func(v bool) { p2psim.UseNetPipe = v }(p2psim.UseNetPipe)
	p2psim.UseNetPipe = true
	rec := ev.New(t, "C18")
	checks, _ := strconv.Atoi(os.Getenv("VERIF_CHECKS"))
	if checks <= 0 {
		checks = 100
	}
	src := pooledNodes(checks + checks/4 + 8)
	rapid.Check(t, func(rt *rapid.T) { runConcurrent(rt, rec, true, src) })
}

func raceParent(t *testing.T) {
	args := append([]string{}, os.Args[1:]...)
	cmd := exec.Command(os.Args[0], args...)
	cmd.Env = append(os.Environ(), "C18_RACE_CHILD=1")
	out, err := cmd.CombinedOutput()
	txt := string(out)
	const sep = "=================="
	var kept []string
	known, unknown := 0, 0
	for i, blk := range strings.Split(txt, sep) {
		if !strings.Contains(blk, "WARNING: DATA RACE") {
			kept = append(kept, blk)
			continue
		}
		_ = i
		isKnown := strings.Contains(blk, "p2p.(*Stream).cleanup()") &&
			(strings.Contains(blk, "p2p.(*Stream).queueSend()") || strings.Contains(blk, "p2p.(*Stream).handlePacket()"))
		if isKnown {
			known++
			continue
		}
		unknown++
		kept = append(kept, sep+blk+sep)
	}
	rest := strings.Join(kept, "")
	// the child's stats file is the evidence of this test; add what was filtered
	noteFiltered(t.Name(), known)
	t.Logf("%d race reports of the known finding %s removed from the verdict; %d other race reports", known, KFCleanup, unknown)
	switch {
	case unknown > 0:
		t.Fatalf("race reports other than the known finding:\n%s", rest)
	case strings.Contains(rest, "[rapid] failed") || strings.Contains(rest, "panic:") || strings.Contains(rest, "[rapid] flaky"):
		t.Fatalf("child run failed:\n%s", rest)
	case strings.Contains(rest, "INCONCLUSIVE:") && strings.Contains(rest, "exit 2"):
		fmt.Println("INCONCLUSIVE: child run bailed out (machine too loaded) - exit 2")
		os.Exit(2)
	case err != nil && known == 0:
		t.Fatalf("child run failed (%v):\n%s", err, rest)
	}
}

// noteFiltered adds the number of filtered known race reports to the stats file the child wrote.
func noteFiltered(test string, n int) {
	dir := os.Getenv("VERIF_STATS_DIR")
	if dir == "" {
		return
	}
	shard := os.Getenv("VERIF_SHARD")
	if shard == "" {
		shard = "0"
	}
	p := filepath.Join(dir, test+"-"+shard+".json")
	b, err := os.ReadFile(p)
	if err != nil {
		return
	}
	var m map[string]any
	if json.Unmarshal(b, &m) != nil {
		return
	}
	ex, _ := m["excluded"].(map[string]any)
	if ex == nil {
		ex = map[string]any{}
	}
	ex[KFCleanup+"/race-reports-filtered"] = n
	m["excluded"] = ex
	if b, err = json.Marshal(m); err == nil {
		_ = os.WriteFile(p, b, 0o644)
	}
}
