package c18

import (
	"bytes"
	"fmt"
	"sync"
	"testing"

	"github.com/canopy-network/canopy/lib"
	"github.com/canopy-network/canopy/p2p"
	"pgregory.net/rapid"

	"verif/h/ev"
	"verif/h/p2psim"
)

// one backing buffer for the assembler of every case: a message just below the 256 MB limit is
// "already buffered" by construction (the state after that many bytes of EOF-less packets, which
// handlePacket only appends) instead of being streamed, so a case costs what its last packets cost
var (
	limitBackingOnce sync.Once
	limitBacking     []byte
)

// TestC18LimitBoundary: the message size cap at its boundary, through the real Stream.handlePacket
// (hook p2p.VerifNewStream). For the real limit L and chunk size C a message of total size
// T in {L-1, L, L+1, L+C-1, L+C, L+C+1, L+generated} arrives as: T-f bytes already buffered, then the
// crossing packet of f bytes (generated: 1, small, C-1, C, C+k) which either carries EOF (what
// Send() produces for an over-limit message: full packets + a short EOF packet) or does not (then
// an EOF packet follows), optionally preceded by one more ordinary packet.
// Oracle: T <= L: no error, exactly one message of T bytes delivered (tail = the packet bytes),
// assembler empty afterwards; T > L: handlePacket returns an error at the packet that crosses the
// limit (the caller then closes the connection: checked end to end by TestC18OverLimit) and nothing
// is ever delivered, not even when an EOF packet follows.
func TestC18LimitBoundary(t *testing.T) {
	rec := ev.New(t, "C18")
	L, C := p2psim.MaxMessageSize, p2psim.MaxDataChunk
	limitBackingOnce.Do(func() { limitBacking = make([]byte, 0, L+4*C+64) })
	sender := &lib.PeerInfo{Address: &lib.PeerAddress{PublicKey: p2psim.BLSKey(1).PublicKey().Bytes()}}
	rapid.Check(t, func(rt *rapid.T) {
		c := rec.Case()
		topic := rapid.SampledFrom(p2psim.AppTopics).Draw(rt, "topic")
		// within-limit cases copy 256 MB out of the assembler: keep them rare
		var T int
		// (the property-testing library favours the ends of a range: the two expensive within-limit
		// selectors sit in the middle)
		switch sel := rapid.IntRange(0, 35).Draw(rt, "total"); {
		case sel < 10:
			T = L + 1
		case sel < 13:
			T = L + C - 1
		case sel < 16:
			T = L + C
		case sel == 16:
			T = L - 1
		case sel == 17:
			T = L
		case sel < 21:
			T = L + C + 1
		case sel < 26:
			T = L + 2 + rapid.IntRange(0, 40000).Draw(rt, "over")
		case sel < 31:
			T = L + rapid.IntRange(2, C).Draw(rt, "over")
		default:
			T = L + C + rapid.IntRange(2, C).Draw(rt, "over")
		}
		f := rapid.SampledFrom([]int{1, 2, 12801, C - 1, C, C + 1, C + 40}).Draw(rt, "last-packet")
		if rapid.Bool().Draw(rt, "last-random") {
			f = rapid.IntRange(1, C).Draw(rt, "last-size")
		}
		eofCrosses := rapid.IntRange(0, 2).Draw(rt, "crossing-packet-has-EOF") > 0
		lead := 0
		if rapid.Bool().Draw(rt, "lead") {
			lead = rapid.SampledFrom([]int{1, 1000, C}).Draw(rt, "lead-size")
		}
		seed := rapid.Uint64().Draw(rt, "dataseed")
		buffered := T - f - lead
		if buffered < 0 {
			rt.Skip("sizes do not fit")
		}
		c.Desc("%s total=L%+d: %d buffered, lead packet %d, last packet %d EOF=%v", lib.Topic_name[int32(topic)], T-L, buffered, lead, f, eofCrosses)
		c.ClassIf(T <= L, "within-limit")
		c.ClassIf(T > L && T <= L+C, "over-limit-by<=1-packet")
		c.ClassIf(T > L+C, "over-limit-by>1-packet")
		c.ClassIf(eofCrosses, "last-packet-has-EOF")
		c.ClassIf(!eofCrosses, "last-packet-without-EOF")

		vs := p2p.VerifNewStream(topic, limitBacking[:buffered], sender)
		type step struct {
			n   int
			eof bool
		}
		var steps []step
		if lead > 0 {
			steps = append(steps, step{lead, false})
		}
		steps = append(steps, step{f, eofCrosses})
		if !eofCrosses {
			steps = append(steps, step{rapid.SampledFrom([]int{0, 1, 500}).Draw(rt, "closing-eof-size"), true})
		}
		total, failedAt := buffered, -1
		var lastData []byte
		for i, st := range steps {
			data := fill(seed, uint64(i), st.n)
			_, err := vs.Handle(&p2p.Packet{StreamId: topic, Eof: st.eof, Bytes: data})
			crosses := total+st.n > L
			if err != nil {
				if !crosses {
					rt.Fatalf("packet %d (%d bytes, EOF=%v) refused at %d accumulated bytes, limit is %d: %v", i, st.n, st.eof, total+st.n, L, err)
				}
				failedAt = i
				break
			}
			if crosses {
				dl := vs.Delivered()
				what := "no error, nothing delivered yet"
				if len(dl) > 0 {
					what = fmt.Sprintf("no error and a %d-byte message DELIVERED", len(dl[0].Message))
				}
				rt.Fatalf("over-limit: packet %d (%d bytes, EOF=%v) brings the message to %d bytes = limit %+d: %s (connection stays open)", i, st.n, st.eof, total+st.n, total+st.n-L, what)
			}
			total += st.n
			lastData = data
		}
		dl := vs.Delivered()
		if failedAt >= 0 || T > L {
			if len(dl) != 0 {
				rt.Fatalf("over-limit message: %d message(s) delivered (first %d bytes)", len(dl), len(dl[0].Message))
			}
			c.Done(true)
			return
		}
		// within the limit and complete (the last step always carries EOF here)
		if len(dl) != 1 || len(dl[0].Message) != total {
			rt.Fatalf("message of %d bytes (<= limit %d): %d messages delivered, first %d bytes", total, L, len(dl), func() int {
				if len(dl) > 0 {
					return len(dl[0].Message)
				}
				return -1
			}())
		}
		if !bytes.HasSuffix(dl[0].Message, lastData) || !bytes.Equal(dl[0].Sender.Address.PublicKey, sender.Address.PublicKey) {
			rt.Fatalf("message of %d bytes delivered with a different tail or sender", total)
		}
		if vs.Buffered() != 0 {
			rt.Fatalf("assembler holds %d bytes after a complete message", vs.Buffered())
		}
		c.Done(true)
	})
}
