package c18

import (
	"bytes"
	"fmt"
	"net"
	"os"
	"os/exec"
	"strings"
	"testing"
	"time"

	"github.com/canopy-network/canopy/lib"
	"github.com/canopy-network/canopy/p2p"

	"verif/h/p2psim"
)

// TestC18Reg_UndefinedStreamIds reproduces known finding KF-C18-undefined-stream-ids-7-98 minimally
// (it FAILS while the defect exists): a packet on a stream id that is not a defined topic (7..98) is
// not treated as an unknown stream - p2p.NewStreams creates a Stream for every integer below
// lib.Topic_INVALID (99) - so the connection stays open and the traffic that follows is delivered.
func TestC18Reg_UndefinedStreamIds(t *testing.T) {
	for _, id := range []int32{7, 50, 98} {
		n := p2psim.NewNode(t.TempDir(), 1, 1)
		rp, err := p2psim.ConnectRaw(n, p2psim.BLSKey(60))
		if err != nil {
			n.Stop()
			if p2psim.IsTimeoutErr(err) || err == p2psim.ErrTimeout {
				t.Skipf("inconclusive: %v", err)
			}
			t.Fatalf("harness: %v", err)
		}
		_ = rp.SendPacket(id, true, []byte("packet on an undefined stream id"))
		sentinel := []byte("sentinel after the undefined stream id")
		_ = rp.SendPacket(int32(lib.Topic_TX), true, sentinel)
		delivered := false
		ok := p2psim.WaitFor(teardownBudget, func() bool {
			for _, r := range n.Drain() {
				if bytes.Equal(r.Msg, sentinel) {
					delivered = true
				}
			}
			return delivered || (!n.Has(rp.Pub) && rp.Closed())
		})
		rp.Close()
		n.Stop()
		if !ok {
			t.Skipf("inconclusive: neither teardown nor delivery within %v", teardownBudget)
		}
		if delivered {
			t.Errorf("stream id %d is not a defined topic, yet the connection was not closed: the message sent after it was delivered", id)
		}
	}
}

// TestC18Reg_CleanupVsHeartbeatSend reproduces known finding KF-C18-stream-cleanup-unsynchronised
// deterministically, without the race detector (it FAILS while the defect exists). The heartbeat
// paths call Stream.queueSend without Stream.mu while Stream.cleanup closes sendQueue under it.
// A peer that completed an honest handshake floods heartbeat pings and stops reading: the pongs fill
// the 1000-slot heartbeat queue, the node's heartbeat goroutine blocks in queueSend, the blocked
// sender hits the write timeout, the connection is torn down, cleanup closes the queue under the
// blocked send -> "panic: send on closed channel" in startHeartbeat, which has no recover: the whole
// node process dies. The scenario runs in a child process (this test binary re-executed).
func TestC18Reg_CleanupVsHeartbeatSend(t *testing.T) {
	if os.Getenv("C18_CHILD") == "pingflood" {
		childPingFlood()
		return
	}
	cmd := exec.Command(os.Args[0], "-test.run", "^TestC18Reg_CleanupVsHeartbeatSend$", "-test.timeout", "180s", "-test.v")
	cmd.Env = append(os.Environ(), "C18_CHILD=pingflood")
	cmd.Dir = t.TempDir()
	out, err := cmd.CombinedOutput()
	txt := string(out)
	switch {
	case strings.Contains(txt, "send on closed channel"):
		i := strings.Index(txt, "panic:")
		if i < 0 {
			i = 0
		}
		end := i + 900
		if end > len(txt) {
			end = len(txt)
		}
		t.Errorf("a peer that floods heartbeat pings and stops reading crashed the node process:\n%s", txt[i:end])
	case strings.Contains(txt, "CHILD-OK"):
		// torn down without a crash
	default:
		t.Skipf("inconclusive child run (err=%v):\n%s", err, txt)
	}
}

func childPingFlood() {
	dir, _ := os.MkdirTemp("", "c18reg-")
	// default configuration: write timeout 5 s (> the 1 s heartbeat period, which is what it takes:
	// the heartbeat goroutine must already be blocked on the full queue when the writer gives up)
	n := p2psim.NewNode(dir, 1, 1)
	key := p2psim.BLSKey(70)
	c1, c2 := net.Pipe()
	go func() {
		_ = n.AddPeer(c1, &lib.PeerInfo{Address: &lib.PeerAddress{NetAddress: "raw", PeerMeta: &lib.PeerMeta{}}}, false, false)
	}()
	ec, err := p2p.NewHandshake(c2, p2psim.Meta(n.Net, n.Chain), key)
	if err != nil {
		fmt.Println("CHILD-INCONCLUSIVE handshake:", err)
		return
	}
	ping := p2psim.LP(p2psim.PacketBody(int32(lib.Topic_HEARTBEAT), true, []byte("ping")))
	for i := 0; i < 1200; i++ { // never read anything back
		_ = c2.SetWriteDeadline(time.Now().Add(3 * time.Second))
		if _, err := ec.Write(ping); err != nil {
			break
		}
	}
	if !p2psim.WaitFor(90*time.Second, func() bool { return !n.Has(key.PublicKey().Bytes()) }) {
		fmt.Println("CHILD-INCONCLUSIVE: peer never removed")
		return
	}
	time.Sleep(2 * time.Second) // a blocked sender panics the moment the queue is closed
	fmt.Println("CHILD-OK")
}
