package c18

import (
	"bytes"
	"fmt"
	"os"
	"testing"

	"github.com/canopy-network/canopy/lib"
	"pgregory.net/rapid"

	"verif/h/ev"
	"verif/h/p2psim"
)

// TestC18JoinIdentity: "attributed to the authenticated sender" must hold for every way AddPeer is
// called, not only when the caller already knows the right key. Node A adds node B with a generated
// PeerInfo: the public key the caller CLAIMS for the remote is the right one, a different one
// (another identity of the same or another key type, a truncated key), or empty; outbound or
// inbound; strict or not - i.e. a dial from config (strict), a dial of a peer-book candidate or a
// must-connect peer (DialWithBackoff(.., false): not strict) and an inbound accept (empty key).
// Oracle: if A accepts the connection, the peer set lists the key B AUTHENTICATED with in the
// handshake (and not the claimed one), messages from B reach A's inboxes attributed to that key and
// SendTo(authenticated key) reaches B; a strict outbound add whose claimed key differs from the
// authenticated one must be refused and leave nothing in the peer set.
func TestC18JoinIdentity(t *testing.T) {
	rec := ev.New(t, "C18")
	rapid.Check(t, func(rt *rapid.T) {
		c := rec.Case()
		claim := rapid.SampledFrom([]string{"right", "right", "other-bls", "other-ed25519", "self", "truncated", "empty", "nil-address-key"}).Draw(rt, "claimed")
		outbound := rapid.Bool().Draw(rt, "outbound")
		strict := rapid.Bool().Draw(rt, "strict")
		claimB := rapid.SampledFrom([]string{"right", "empty", "other-bls"}).Draw(rt, "claimedByB") // what B (inbound side, not strict) was told about A
		topic := rapid.SampledFrom(p2psim.AppTopics).Draw(rt, "topic")
		seed := rapid.Uint64().Draw(rt, "dataseed")
		c.Desc("A adds B claiming key=%s outbound=%v strict=%v; B adds A claiming key=%s; topic=%s", claim, outbound, strict, claimB, lib.Topic_name[int32(topic)])
		c.Class("claimed=" + claim)
		c.Class(fmt.Sprintf("outbound=%v/strict=%v", outbound, strict))

		dir, _ := os.MkdirTemp("", "c18j-")
		defer os.RemoveAll(dir)
		a, b := p2psim.NewNode(dir+"/a", 1, 1), p2psim.NewNode(dir+"/b", 2, 1)
		defer a.Stop()
		defer b.Stop()
		keyOf := func(kind string, real []byte, self []byte) []byte {
			switch kind {
			case "right":
				return append([]byte(nil), real...)
			case "other-bls":
				return p2psim.BLSKey(77).PublicKey().Bytes()
			case "other-ed25519":
				return p2psim.EdKey(77).PublicKey().Bytes()
			case "self":
				return append([]byte(nil), self...)
			case "truncated":
				return append([]byte(nil), real[:len(real)-1]...)
			default:
				return nil
			}
		}
		claimed := keyOf(claim, b.Pub, a.Pub)
		infoA := &lib.PeerInfo{Address: &lib.PeerAddress{PublicKey: claimed, NetAddress: "addr-of-b", PeerMeta: &lib.PeerMeta{}}, IsOutbound: outbound}
		infoB := &lib.PeerInfo{Address: &lib.PeerAddress{PublicKey: keyOf(claimB, a.Pub, b.Pub), NetAddress: "addr-of-a", PeerMeta: &lib.PeerMeta{}}, IsOutbound: !outbound}
		var errA, errB error
		var timedOut bool
		for attempt := 0; ; attempt++ {
			errA, errB, timedOut = p2psim.JoinAs(a, b, infoA, infoB, strict, false)
			if !(timedOut || p2psim.IsTimeoutErr(errA) || p2psim.IsTimeoutErr(errB)) {
				break
			}
			if attempt >= 2 {
				inconclusive(rt, rec, fmt.Sprintf("join timed out: %v / %v", errA, errB))
			}
			a.Stop()
			b.Stop()
			a, b = p2psim.NewNode(dir+fmt.Sprintf("/a%d", attempt), 1, 1), p2psim.NewNode(dir+fmt.Sprintf("/b%d", attempt), 2, 1)
		}
		mismatch := !bytes.Equal(claimed, b.Pub)
		mustRefuse := outbound && strict && mismatch && len(claimed) > 0
		if errA != nil {
			c.Class("A-refused")
			// refusal is only demanded for the strict mismatch; it is always allowed, but must leave no peer behind
			if !p2psim.WaitFor(teardownBudget, func() bool { return !a.Has(b.Pub) && (len(claimed) == 0 || !a.Has(claimed)) }) {
				rt.Fatalf("AddPeer returned an error (%v) but the peer set still lists the peer (authenticated key listed: %v, claimed key listed: %v)", errA, a.Has(b.Pub), len(claimed) > 0 && a.Has(claimed))
			}
			if !mismatch && !(outbound && strict && len(claimed) == 0) {
				rt.Fatalf("A refused B although the claimed key is the key B holds: %v", errA)
			}
			c.Done(mismatch)
			return
		}
		c.Class("A-accepted")
		if mustRefuse {
			rt.Fatalf("strict outbound AddPeer expected key %x but the remote authenticated with %x - and was accepted", claimed, b.Pub)
		}
		// the peer set must list the AUTHENTICATED identity
		if mismatch && len(claimed) > 0 && a.Has(claimed) {
			rt.Fatalf("the peer set of A lists the CLAIMED key %x as connected; the remote authenticated with %x (outbound=%v strict=%v)", claimed, b.Pub, outbound, strict)
		}
		if !a.Has(b.Pub) {
			wallClock(rt, rec, a)
			rt.Fatalf("A accepted the connection but its peer set does not list the authenticated key %x (claimed %x)", b.Pub, claimed)
		}
		if pi, err := a.GetPeerInfo(b.Pub); err != nil || !bytes.Equal(pi.Address.PublicKey, b.Pub) {
			rt.Fatalf("GetPeerInfo(authenticated key) = %v, %v", pi, err)
		}
		if errB != nil {
			// B may legitimately refuse nothing here (not strict); a failure on B's side ends the case
			wallClock(rt, rec, b)
			rt.Fatalf("B (inbound, not strict) refused A: %v", errB)
		}
		// B -> A: attributed to the authenticated key
		msg, bz := msgOfSize(seed, 1, 64)
		if err := b.SendTo(a.Pub, topic, msg); err != nil {
			rt.Fatalf("B.SendTo(A): %v (B lists A: %v)", err, b.Has(a.Pub))
		}
		var got *p2psim.Received
		if !p2psim.WaitFor(deliverBudget, func() bool {
			for _, r := range a.Drain() {
				r := r
				got = &r
			}
			return got != nil
		}) {
			wallClock(rt, rec, a)
			wallClock(rt, rec, b)
			inconclusive(rt, rec, "message B->A not delivered")
		}
		if got.Topic != topic || !bytes.Equal(got.Msg, bz) {
			rt.Fatalf("A received a different message than B sent (topic %s, %d bytes)", lib.Topic_name[int32(got.Topic)], len(got.Msg))
		}
		if !bytes.Equal(got.Sender, b.Pub) {
			rt.Fatalf("message from the peer that authenticated as %x is attributed to sender %x (the key the caller of AddPeer claimed: %x; outbound=%v strict=%v)", b.Pub, got.Sender, claimed, outbound, strict)
		}
		// A -> B by the authenticated key
		msg2, bz2 := msgOfSize(seed, 2, 80)
		if err := a.SendTo(b.Pub, topic, msg2); err != nil {
			rt.Fatalf("A.SendTo(authenticated key of B): %v", err)
		}
		got = nil
		if !p2psim.WaitFor(deliverBudget, func() bool {
			for _, r := range b.Drain() {
				r := r
				got = &r
			}
			return got != nil
		}) {
			inconclusive(rt, rec, "message A->B not delivered")
		}
		if !bytes.Equal(got.Msg, bz2) || !bytes.Equal(got.Sender, a.Pub) {
			rt.Fatalf("B received %d bytes attributed to %x; A sent %d bytes and authenticated as %x", len(got.Msg), got.Sender, len(bz2), a.Pub)
		}
		c.Done(mismatch || claimB != "right")
	})
}
