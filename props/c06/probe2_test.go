package c06

import (
	"math/big"
	"testing"

	"github.com/canopy-network/canopy/fsm"
	"github.com/canopy-network/canopy/lib"
	"github.com/canopy-network/canopy/lib/crypto"

	cs "verif/h/chainsim"
	"verif/h/keys"
)

func TestProbeRLP(t *testing.T) {
	g, cast := cs.RichGenesis(1, cs.GenesisOpts{WithWhale: true})
	c, err := cs.New(cs.Opts{Genesis: g})
	if err != nil {
		t.Fatal(err)
	}
	defer c.Close()
	_ = cast
	c.Block(cs.BlockSpec{})
	k := keys.Eth(10)
	to := cs.Addr(keys.Ed(77))
	var txs [][]byte
	for i, sp := range []cs.RLPSpec{{V2: false, Nonce: c.Height(), Gas: 21000, TxType: 0}, {V2: false, Nonce: c.Height(), Gas: 21001, TxType: 1}, {V2: false, Nonce: c.Height(), Gas: 21002, TxType: 2, ABI: true},
		{V2: true, Nonce: 0, Gas: 21003, TxType: 0}, {V2: true, Nonce: 1, Gas: 21004, TxType: 1, ABI: true}, {V2: true, Nonce: 5, Gas: 21005, TxType: 2}} {
		bz, tx, _, err := cs.RLPTx(k, 1, 1, &fsm.MessageSend{FromAddress: cs.Addr(k), ToAddress: to, Amount: 1000}, sp)
		if err != nil {
			t.Fatalf("%d: %v", i, err)
		}
		t.Logf("%d memo=%s fee=%d ch=%d nonce=%d time=%d len=%d", i, tx.Memo, tx.Fee, tx.CreatedHeight, tx.Nonce, tx.Time, len(bz))
		txs = append(txs, bz)
	}
	// stake via RLP
	st := &fsm.MessageStake{PublicKey: k.PublicKey().Bytes(), Amount: 5000, Committees: []uint64{1}, OutputAddress: cs.Addr(k), Delegate: true}
	bz, _, _, err := cs.RLPTx(k, 1, 1, st, cs.RLPSpec{V2: true, Nonce: 9, Gas: 30000})
	if err != nil {
		t.Fatal(err)
	}
	txs = append(txs, bz)
	// multisig send
	m := cast.Multis[0]
	utx, _ := cs.UnsignedTx(&fsm.MessageSend{FromAddress: m.Address(), ToAddress: to, Amount: 7}, 1, 1, 10000, c.Height(), c.Tick(), "")
	if err := cs.SignMulti(utx, m, []int{0, 2}); err != nil {
		t.Fatal(err)
	}
	txs = append(txs, cs.MustMarshal(utx))
	// dao transfer + change param
	d, _, _ := c.SignTx(keys.Ed(10), &fsm.MessageDAOTransfer{Address: cs.Addr(keys.Ed(10)), Amount: 1234, StartHeight: 1, EndHeight: 100}, 10000, c.Height(), "")
	txs = append(txs, d)
	a, _ := lib.NewAny(&lib.UInt64Wrapper{Value: 10001})
	p, _, _ := c.SignTx(keys.Secp(10), &fsm.MessageChangeParameter{ParameterSpace: "fee", ParameterKey: fsm.ParamSendFee, ParameterValue: a, StartHeight: 1, EndHeight: 100, Signer: cs.Addr(keys.Secp(10))}, 10000, c.Height(), "")
	txs = append(txs, p)
	// whale overflow
	w, _, _ := c.SignTx(keys.BLS(10), &fsm.MessageSend{FromAddress: cs.Addr(keys.BLS(10)), ToAddress: cs.Addr(keys.Ed(cast.Whale)), Amount: 2_000_000_000_000_000_000}, 10000, c.Height(), "")
	txs = append(txs, w)
	out, err := c.Block(cs.BlockSpec{Txs: txs})
	if err != nil || out.Err != nil {
		t.Fatal(err, out.Err)
	}
	t.Logf("included %d failed %d", len(out.Results.Results), len(out.Results.Failed))
	for _, f := range out.Results.Failed {
		t.Logf("failed: %v", f.Error)
	}
	sc, _ := c.Scan()
	t.Logf("to=%d ethacct=%+v", cs.AccountIn(sc, to).Amount, cs.AccountIn(sc, cs.Addr(k)))
	// fast forward
	if err := c.FastForward(5000); err != nil {
		t.Fatal(err)
	}
	t.Logf("height now %d", c.Height())
	tx1, _, _ := c.SignTx(keys.Ed(10), &fsm.MessageSend{FromAddress: cs.Addr(keys.Ed(10)), ToAddress: to, Amount: 1}, 10000, c.Height()-fsm.BlockAcceptanceRange, "")
	tx2, _, _ := c.SignTx(keys.Ed(10), &fsm.MessageSend{FromAddress: cs.Addr(keys.Ed(10)), ToAddress: to, Amount: 1}, 10000, c.Height()-fsm.BlockAcceptanceRange-1, "")
	out, err = c.Block(cs.BlockSpec{Txs: append([][]byte{tx1, tx2}, txs[0])})
	if err != nil || out.Err != nil {
		t.Fatal(err, out.Err)
	}
	t.Logf("included %d failed %d", len(out.Results.Results), len(out.Results.Failed))
	for _, f := range out.Results.Failed {
		t.Logf("failed: %v", f.Error)
	}
	out, err = c.Block(cs.BlockSpec{})
	if err != nil || out.Err != nil {
		t.Fatal(err, out.Err)
	}
}

func TestProbeSigs(t *testing.T) {
	msg := []byte("hello")
	// secp high s
	for name, k := range map[string]crypto.PrivateKeyI{"secp": keys.Secp(1), "eth": keys.Eth(1)} {
		sig := k.Sign(msg)
		n, _ := new(big.Int).SetString("FFFFFFFFFFFFFFFFFFFFFFFFFFFFFFFEBAAEDCE6AF48A03BBFD25E8CD0364141", 16)
		s := new(big.Int).SetBytes(sig[32:64])
		hs := new(big.Int).Sub(n, s)
		mal := append(append([]byte{}, sig[:32]...), make([]byte, 32)...)
		hs.FillBytes(mal[32:])
		t.Logf("%s: len=%d orig=%v high-s=%v +1byte=%v", name, len(sig), k.PublicKey().VerifyBytes(msg, sig), k.PublicKey().VerifyBytes(msg, mal), k.PublicKey().VerifyBytes(msg, append(append([]byte{}, sig...), 0)))
	}
	{
		k := keys.Ed(1)
		sig := k.Sign(msg)
		L, _ := new(big.Int).SetString("7237005577332262213973186563042994240857116359379907606001950938285454250989", 10)
		s := new(big.Int)
		le := make([]byte, 32)
		for i := 0; i < 32; i++ {
			le[31-i] = sig[32+i]
		}
		s.SetBytes(le)
		s.Add(s, L)
		be := s.FillBytes(make([]byte, 32))
		mal := append([]byte{}, sig...)
		for i := 0; i < 32; i++ {
			mal[32+i] = be[31-i]
		}
		t.Logf("ed: orig=%v s+L=%v +1byte=%v", k.PublicKey().VerifyBytes(msg, sig), k.PublicKey().VerifyBytes(msg, mal), k.PublicKey().VerifyBytes(msg, append(append([]byte{}, sig...), 0)))
	}
	{
		k := keys.BLS(1)
		sig := k.Sign(msg)
		t.Logf("bls: len=%d orig=%v +1byte=%v", len(sig), k.PublicKey().VerifyBytes(msg, sig), k.PublicKey().VerifyBytes(msg, append(append([]byte{}, sig...), 0)))
		for bit := 5; bit < 8; bit++ {
			m := append([]byte{}, sig...)
			m[0] ^= 1 << bit
			func() {
				defer func() { recover() }()
				t.Logf("bls flip bit %d of byte0: %v", bit, k.PublicKey().VerifyBytes(msg, m))
			}()
		}
	}
}
