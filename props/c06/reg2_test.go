package c06

import (
	"testing"

	"github.com/canopy-network/canopy/fsm"
	"github.com/canopy-network/canopy/lib/crypto"

	cs "verif/h/chainsim"
	"verif/h/keys"
	"verif/h/wire"
)

// TestC06Reg_MultisigBitmapPadding: KF-C06-multisig-bitmap-padding. The serialized BLS multisig account key carries the signer
// bitmap; kyber's Mask.SetMask stores the bitmap verbatim, so the (8*ceil(n/8) - n) padding bits beyond the last member round-trip
// through NewPublicKeyFromBytes(...).Bytes() and pass the canonical-encoding check of 68ea833. Setting one of them gives a
// transaction with the same signers, the same valid aggregate signature and the same sign bytes but a NEW hash: anyone can make
// an included multisig transaction execute again (2^(padding bits)-1 times).
func TestC06Reg_MultisigBitmapPadding(t *testing.T) {
	g, cast := cs.RichGenesis(1, cs.GenesisOpts{})
	c, err := cs.New(cs.Opts{Genesis: g})
	if err != nil {
		t.Fatal(err)
	}
	defer c.Close()
	mustBlock(t, c, cs.BlockSpec{}, "block 1")
	m := cast.Multis[0] // 2-of-3
	s := cs.Signer{Kind: cs.KindMulti, Multi: m, Positions: []int{0, 2}}
	to := cs.Addr(keys.Ed(4003))
	bz, tx, err := c.Sign(s, &fsm.MessageSend{FromAddress: m.Address(), ToAddress: to, Amount: 1000}, cs.TxOpts{Fee: 10000, Created: c.Height()})
	if err != nil {
		t.Fatal(err)
	}
	out := mustBlock(t, c, cs.BlockSpec{Txs: [][]byte{bz}}, "block 2")
	if out.Err != nil || len(out.Results.Failed) != 0 {
		t.Fatalf("original rejected: %v %v", out.Err, summarize(out).failed)
	}
	fs, err := wire.Parse(tx.Signature.PublicKey)
	if err != nil {
		t.Fatal(err)
	}
	for i := range fs {
		if fs[i].Num == 2 {
			fs[i].B[0] |= 0x80 // bit 7: there are only 3 members
		}
	}
	tx.Signature.PublicKey = wire.Encode(fs)
	v := cs.MustMarshal(tx)
	out = mustBlock(t, c, cs.BlockSpec{Txs: [][]byte{v}}, "block 3")
	if out.Err != nil {
		t.Fatalf("block failed: %v", out.Err)
	}
	sc, _ := c.Scan()
	if got := cs.AccountIn(sc, to).Amount; summarize(out).included[crypto.HashString(v)] || got != 1000 {
		t.Errorf("multisig send with a padding bit set in the signer bitmap executed again: recipient has %d, one transfer is 1000", got)
	}
}
