package c06

import (
	"fmt"
	"math"
	"strings"
	"testing"

	"github.com/canopy-network/canopy/fsm"
	"github.com/canopy-network/canopy/lib/crypto"
	"pgregory.net/rapid"

	cs "verif/h/chainsim"
	"verif/h/ev"
	"verif/h/keys"
)

type ntx struct {
	bz     []byte
	nonce  uint64
	amount uint64
	to     []byte
	v2     bool
	tooBig bool // amount exceeds the sender's balance: passes every check, fails in the handler after the fee was taken
	done   bool
	label  string
	vest   bool // not a nonce transaction: a send WITH a vesting schedule from a third party to the account under test
}

// TestC06Nonce: RLP.V2 (nonce based) Ethereum-wrapped sends of one account: nonces equal to / below / above the account's
// floor, gaps, MaxUint64, two transactions with one nonce, transactions that fail late (must not advance the floor), byte
// identical resubmissions, mixed with legacy RLP sends of the same key. Model = "floor": accept iff nonce >= floor and
// nonce != MaxUint64 and the bytes never executed; a success sets floor = nonce + 1.
func TestC06Nonce(t *testing.T) {
	rec := ev.New(t, "C06")
	rapid.Check(t, func(rt *rapid.T) {
		cse := rec.Case()
		g, _ := cs.RichGenesis(1, cs.GenesisOpts{})
		c, err := cs.New(cs.Opts{Genesis: g})
		if err != nil {
			rt.Fatalf("new chain: %v", err)
		}
		defer c.Close()
		key := 10 + rapid.IntRange(0, 5).Draw(rt, "key")
		me := cs.Addr(keys.Eth(key))
		for i, n := 0, rapid.IntRange(0, 1).Draw(rt, "pre"); i < n; i++ {
			mustBlock(rt, c, cs.BlockSpec{}, "pre")
		}
		floor := uint64(0)
		salt := 0
		var all []*ntx
		nontriv := false
		cse.Desc("eth%d", key)
		blocks := rapid.IntRange(1, 4).Draw(rt, "blocks")
		for b := 0; b < blocks; b++ {
			h := c.Height()
			var batch []*ntx
			for i, n := 0, rapid.IntRange(1, 5).Draw(rt, "txs"); i < n; i++ {
				if floor > 0 && rapid.IntRange(0, 3).Draw(rt, "vesting-send") == 0 {
					// anyone may send the account tokens with a vesting schedule (the first one starts a tranche, the account record is
					// rewritten): the nonce floor must survive. Same terms every time, so later ones are compatible.
					salt++
					third := cs.Signer{Kind: cs.KindEd, Key: 15}
					bz, _, err := c.Sign(third, &fsm.MessageSend{FromAddress: third.Address(), ToAddress: me, Amount: uint64(3 + salt), VestingStartHeight: 1, VestingCliffHeight: 1, VestingEndHeight: 100000},
						cs.TxOpts{Fee: cs.DefaultFee + uint64(salt), Created: h})
					if err != nil {
						rt.Fatalf("sign: %v", err)
					}
					w := &ntx{bz: bz, vest: true, label: "vesting-send-to-the-account(by a third party)"}
					all = append(all, w)
					batch = append(batch, w)
					cse.Class("tx=vesting-send-to-account-with-nonce-floor")
					nontriv = true
					continue
				}
				if len(all) > 0 && rapid.IntRange(0, 4).Draw(rt, "resubmit") == 0 {
					w := all[rapid.IntRange(0, len(all)-1).Draw(rt, "which")]
					dup := false
					for _, x := range batch {
						dup = dup || x == w
					}
					if !dup {
						batch = append(batch, w)
						cse.ClassIf(w.done, "resubmit=executed")
						cse.ClassIf(!w.done, "resubmit=rejected-before")
					}
					continue
				}
				salt++
				w := &ntx{amount: uint64(100 + salt), to: cs.Addr(keys.Ed(6000 + salt)), v2: rapid.IntRange(0, 5).Draw(rt, "legacy") != 0}
				// the floor the generator aims at is the model's floor at the START of the block plus what this block did so far
				cur := floor
				for _, x := range batch {
					if x.v2 && !x.vest && !x.done && !x.tooBig && x.nonce >= cur && x.nonce != math.MaxUint64 {
						cur = x.nonce + 1
					}
				}
				cands := []uint64{cur, cur, cur + 1, cur + 3, 0, math.MaxUint64}
				if cur > 0 {
					cands = append(cands, cur-1, cur-1)
				}
				if rapid.IntRange(0, 30).Draw(rt, "brick") == 0 {
					cands = append(cands, math.MaxUint64-1)
				}
				w.nonce = rapid.SampledFrom(cands).Draw(rt, "nonce")
				w.tooBig = rapid.IntRange(0, 6).Draw(rt, "too-big") == 0
				msg := &fsm.MessageSend{FromAddress: me, ToAddress: w.to, Amount: w.amount}
				if w.tooBig {
					msg.Amount = 20_000_000_000_000
				}
				s := cs.Signer{Kind: cs.KindRLPV2, Key: key, TxType: salt % 3, ABI: salt%2 == 0}
				o := cs.TxOpts{Fee: cs.DefaultFee + uint64(salt), Nonce: w.nonce}
				if !w.v2 {
					s.Kind, o.Created = cs.KindRLP, h
				}
				bz, _, err := c.Sign(s, msg, o)
				if err != nil {
					rt.Fatalf("sign: %v", err)
				}
				w.bz = bz
				switch {
				case !w.v2:
					w.label = "legacy-rlp"
					cse.Class("tx=legacy-rlp-same-key")
				case w.nonce == math.MaxUint64:
					w.label = "nonce=max"
					cse.Class("nonce=MaxUint64")
				case w.nonce == math.MaxUint64-1:
					w.label = "nonce=max-1"
					cse.Class("nonce=MaxUint64-1")
				case w.nonce == cur:
					w.label = fmt.Sprintf("nonce=%d(=floor)", w.nonce)
					cse.Class("nonce=equal-floor")
				case w.nonce < cur:
					w.label = fmt.Sprintf("nonce=%d(<floor %d)", w.nonce, cur)
					cse.Class("nonce=below-floor")
					nontriv = nontriv || cur > 0
				default:
					w.label = fmt.Sprintf("nonce=%d(gap over floor %d)", w.nonce, cur)
					cse.Class("nonce=gap")
				}
				if w.tooBig {
					w.label += ",fails-late"
					cse.Class("tx=fails-after-fee")
				}
				all = append(all, w)
				batch = append(batch, w)
			}
			var txs, expect [][]byte
			var names []string
			want := map[string]bool{}
			f := floor
			for _, w := range batch {
				txs = append(txs, w.bz)
				names = append(names, w.label+map[bool]string{true: "(again)", false: ""}[w.done])
				ok := !w.done && !w.tooBig
				if w.vest {
					// an ordinary transaction
				} else if w.v2 {
					ok = ok && w.nonce >= f && w.nonce != math.MaxUint64
				} else {
					ok = ok && inWindow(h, h)
				}
				if ok {
					want[crypto.HashString(w.bz)] = true
					expect = append(expect, w.bz)
					if w.v2 && !w.vest {
						f = w.nonce + 1
					}
				}
			}
			cse.Desc("h%d floor=%d [%s]", h, floor, strings.Join(names, "; "))
			twin, err := c.Fork()
			if err != nil {
				rt.Fatalf("fork: %v", err)
			}
			tm := c.Tick()
			out := mustBlock(rt, c, cs.BlockSpec{Txs: txs, Time: tm}, "nonce block")
			if out.Err != nil {
				twin.Close()
				rt.Fatalf("VIOLATION C06/C07: block failed as a whole: %v", out.Err)
			}
			res := summarize(out)
			for _, w := range batch {
				hs := crypto.HashString(w.bz)
				if res.included[hs] != want[hs] {
					twin.Close()
					rt.Fatalf("VIOLATION C06: height %d, account floor %d at block start: transaction [%s] executed=%v, the nonce-floor rule requires %v; error: %s",
						h, floor, w.label, res.included[hs], want[hs], res.failed[hs])
				}
				if want[hs] {
					w.done = true
				}
			}
			floor = f
			tout := mustBlock(rt, twin, cs.BlockSpec{Txs: expect, Time: tm}, "nonce twin")
			if tout.Err != nil || len(tout.Results.Failed) != 0 {
				twin.Close()
				rt.Fatalf("harness: twin rejected the expected transactions: %v %v", tout.Err, summarize(tout).failed)
			}
			c.Use()
			a, _ := c.Scan()
			bb, _ := twin.Scan()
			twin.Close()
			if d := cs.DiffScans(a, bb); d != "" {
				rt.Fatalf("VIOLATION C06: rejected transactions left traces (block with only the accepted ones differs): %s", d)
			}
			if got := cs.AccountIn(a, me).Nonce; got != floor {
				rt.Fatalf("VIOLATION C06: account nonce floor is %d, model says %d (the floor of an account never decreases; only its own successful RLP.V2 transactions raise it)", got, floor)
			}
		}
		post, _ := c.Scan()
		for _, w := range all {
			if w.vest {
				continue
			}
			want := uint64(0)
			if w.done {
				want = w.amount
			}
			if got := cs.AccountIn(post, w.to).Amount; got != want {
				rt.Fatalf("VIOLATION C06: recipient of [%s] holds %d, expected %d", w.label, got, want)
			}
		}
		cse.Done(nontriv)
	})
}
